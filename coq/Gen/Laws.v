(* C02 proofs, part 3: laws of Layer-C programs within ONE closure environment, up to the relation
   of Rel.v (same observable state, possibly different snapshot bookkeeping):
     - and_then / or_else are associative;
     - a `sequence` around the tail of a `sequence` is absorbed:
           sequence(X ; Y)  ~  sequence(X ; sequence(Y))
     - in atomic mode, for a body that fails cleanly and a skip that is the identity:
           repeat(x)  ~  sequence(optional(x ; repeat(sequence(skip ; x))))
   These are the differences between the code generate_expr/_atomic emits and what the VM runs. *)
From Coq Require Import List Arith NArith ZArith Bool Lia.
Import ListNotations.
Require Import PV.Stack.Model PV.Stack.Proofs PV.Comb.PState PV.Comb.Bytes PV.Comb.Prog PV.Comb.Exec
               PV.Comb.Frame PV.Comb.Contracts PV.Comb.CallLimit PV.Peg.Ast PV.Gen.GenCompile PV.Gen.Rel PV.Gen.Cong.

Arguments Nat.sub : simpl never.
Arguments Nat.ltb : simpl never.
Arguments Nat.leb : simpl never.
Arguments Nat.eqb : simpl never.
Arguments skipn : simpl never.
Arguments firstn : simpl never.

Section Laws.
Variable cfg : config.
Variable E : env.

(* terminating runs, fuel hidden *)
Definition runs (p : prog) (s : pst) (r : res) : Prop := r <> ROutOfFuel /\ exists f, exec cfg E f p s = r.

Lemma runs_det p s r r' : runs p s r -> runs p s r' -> r = r'.
Proof.
  intros [N1 [f1 E1]] [N2 [f2 E2]]. rewrite <- E1, <- E2. apply exec_fuel_irrelevant; congruence.
Qed.
Lemma runs_at p s r : runs p s r -> (exists f0, forall f', f0 <= f' -> exec cfg E f' p s = r).
Proof. intros [N [f0 E0]]. exists f0. intros f' Hle. rewrite <- E0. apply exec_mono; auto. congruence. Qed.
Lemma runs_post p s a r : wf s -> Inv (stack s) a -> runs p s r -> post s a r.
Proof. intros W I [_ [f <-]]. now apply exec_post. Qed.

Definition eqv (A : bool) (q q' : prog) : Prop :=
  forall s t r, srel s t -> amode A s -> runs q s r -> exists r', runs q' t r' /\ rrel r r'.

Lemma eqv_sim A q q' : eqv A q q' -> forall m, sim cfg E E A m q q'.
Proof.
  intros H m f s t Hf R HA Hne.
  destruct (H s t _ R HA (conj Hne (ex_intro _ f eq_refl))) as (r' & [N [f' Ef]] & Hr).
  exists f'. rewrite Ef. exact Hr.
Qed.
Lemma sim_eqv A q q' : (forall m, sim cfg E E A m q q') -> eqv A q q'.
Proof.
  intros H s t r R HA [N [f Ef]]. subst r.
  destruct (H f f s t (le_n _) R HA N) as [f' Hr].
  exists (exec cfg E f' q' t). split; [split; [eapply rrel_nofuel; eauto|eauto]|exact Hr].
Qed.
Lemma eqv_refl A q : eqv A q q.
Proof. apply sim_eqv. intros m. apply sim_refl. Qed.
Lemma eqv_trans A q1 q2 q3 : eqv A q1 q2 -> eqv A q2 q3 -> eqv A q1 q3.
Proof.
  intros H1 H2 s t r R HA Hr. destruct (H1 s t r R HA Hr) as (r2 & Hr2 & R12).
  assert (Rt : srel t t).
  { destruct (r_it _ _ R) as [b Ib]. eapply srel_refl; [eapply srel_wft; eauto|exact Ib|eapply srel_limt; eauto]. }
  assert (At : amode A t) by (intros X; rewrite (srel_at _ _ R); auto).
  destruct (H2 t t r2 Rt At Hr2) as (r3 & Hr3 & R23). exists r3. split; auto. eapply rrel_trans; eauto.
Qed.

(* same state, same result *)
Definition peq (q q' : prog) : Prop := forall s r, runs q s r -> runs q' s r.
Lemma eqv_of_peq A q q' : peq q q' -> eqv A q q'.
Proof. intros H s t r R HA Hr. apply (eqv_refl A q' s t r R HA). now apply H. Qed.

(* ---------- introduction / inversion of runs ---------- *)
Lemma runs_then_inv p q s r : runs (PAndThen p q) s r ->
  (exists s1, runs p s (ROk s1) /\ runs q s1 r) \/ (runs p s r /\ forall s1, r <> ROk s1).
Proof.
  intros [N [f Ef]]. destruct f as [|f]; [cbn in Ef; congruence|]. cbn [exec] in Ef.
  destruct (exec cfg E f p s) as [s1|s1|k|] eqn:Ep.
  - left. exists s1. split; [split; [discriminate|eauto]|split; eauto].
  - right. subst r. split; [split; eauto|discriminate].
  - right. subst r. split; [split; eauto|discriminate].
  - congruence.
Qed.
Lemma runs_then_ok p q s s1 r : runs p s (ROk s1) -> runs q s1 r -> runs (PAndThen p q) s r.
Proof.
  intros [_ [f1 E1]] [N [f2 E2]]. split; auto. exists (S (Nat.max f1 f2)). cbn [exec].
  rewrite (exec_mono cfg E f1 (Nat.max f1 f2) p s ltac:(lia)) by (rewrite E1; discriminate). rewrite E1.
  rewrite (exec_mono cfg E f2 (Nat.max f1 f2) q s1 ltac:(lia)) by (rewrite E2; exact N). exact E2.
Qed.
Lemma runs_then_stop p q s r : runs p s r -> (forall s1, r <> ROk s1) -> runs (PAndThen p q) s r.
Proof.
  intros [N [f1 E1]] H. split; auto. exists (S f1). cbn [exec]. rewrite E1.
  destruct r; auto. exfalso. eapply H; eauto.
Qed.

Lemma runs_else_inv p q s r : runs (POrElse p q) s r ->
  (exists s1, runs p s (RErr s1) /\ runs q s1 r) \/ (runs p s r /\ forall s1, r <> RErr s1).
Proof.
  intros [N [f Ef]]. destruct f as [|f]; [cbn in Ef; congruence|]. cbn [exec] in Ef.
  destruct (exec cfg E f p s) as [s1|s1|k|] eqn:Ep.
  - right. subst r. split; [split; eauto|discriminate].
  - left. exists s1. split; [split; [discriminate|eauto]|split; eauto].
  - right. subst r. split; [split; eauto|discriminate].
  - congruence.
Qed.
Lemma runs_else_err p q s s1 r : runs p s (RErr s1) -> runs q s1 r -> runs (POrElse p q) s r.
Proof.
  intros [_ [f1 E1]] [N [f2 E2]]. split; auto. exists (S (Nat.max f1 f2)). cbn [exec].
  rewrite (exec_mono cfg E f1 (Nat.max f1 f2) p s ltac:(lia)) by (rewrite E1; discriminate). rewrite E1.
  rewrite (exec_mono cfg E f2 (Nat.max f1 f2) q s1 ltac:(lia)) by (rewrite E2; exact N). exact E2.
Qed.
Lemma runs_else_stop p q s r : runs p s r -> (forall s1, r <> RErr s1) -> runs (POrElse p q) s r.
Proof.
  intros [N [f1 E1]] H. split; auto. exists (S f1). cbn [exec]. rewrite E1.
  destruct r; auto. exfalso. eapply H; eauto.
Qed.

(* ---------- associativity ---------- *)
Lemma then_assoc p q r0 : peq (PAndThen (PAndThen p q) r0) (PAndThen p (PAndThen q r0)).
Proof.
  intros s r H. destruct (runs_then_inv _ _ _ _ H) as [(s2 & H1 & H2)|[H1 Hn]].
  - destruct (runs_then_inv _ _ _ _ H1) as [(s1 & Hp & Hq)|[Hp Hn]]; [|exfalso; eapply Hn; eauto].
    eapply runs_then_ok; [exact Hp|]. eapply runs_then_ok; eauto.
  - destruct (runs_then_inv _ _ _ _ H1) as [(s1 & Hp & Hq)|[Hp _]].
    + eapply runs_then_ok; [exact Hp|]. apply runs_then_stop; auto.
    + apply runs_then_stop; auto.
Qed.
Lemma else_assoc p q r0 : peq (POrElse (POrElse p q) r0) (POrElse p (POrElse q r0)).
Proof.
  intros s r H. destruct (runs_else_inv _ _ _ _ H) as [(s2 & H1 & H2)|[H1 Hn]].
  - destruct (runs_else_inv _ _ _ _ H1) as [(s1 & Hp & Hq)|[Hp Hn]]; [|exfalso; eapply Hn; eauto].
    eapply runs_else_err; [exact Hp|]. eapply runs_else_err; eauto.
  - destruct (runs_else_inv _ _ _ _ H1) as [(s1 & Hp & Hq)|[Hp _]].
    + eapply runs_else_err; [exact Hp|]. apply runs_else_stop; auto.
    + apply runs_else_stop; auto.
Qed.

(* ---------- sequence ---------- *)
Definition seq_post (s : pst) (rb : res) : res :=
  match rb with
  | ROk s' => lift ROk (checkpoint_ok s')
  | RErr s' => lift RErr (restore_st (set_queue (set_pos s' (pos s)) (vtruncate (length (queue s)) (queue s'))))
  | RPanic k => RPanic k
  | ROutOfFuel => ROutOfFuel
  end.
Lemma exec_seq f p s : limit s = None -> exec cfg E (S f) (PSequence p) s = seq_post s (exec cfg E f p (checkpoint s)).
Proof. intros L. cbn [exec]. rewrite (inc_call_none s L). reflexivity. Qed.
Lemma seq_post_nofuel s rb : rb <> ROutOfFuel -> seq_post s rb <> ROutOfFuel.
Proof.
  destruct rb as [s'|s'|k|]; cbn; intros H; try congruence.
  - destruct (checkpoint_ok s'); cbn; discriminate.
  - destruct (restore_st _); cbn; discriminate.
Qed.
Lemma runs_seq_inv p s r : limit s = None -> runs (PSequence p) s r -> exists rb, runs p (checkpoint s) rb /\ r = seq_post s rb.
Proof.
  intros L [N [f Ef]]. destruct f as [|f]; [cbn in Ef; congruence|]. rewrite (exec_seq f p s L) in Ef.
  exists (exec cfg E f p (checkpoint s)). split; auto. split; eauto.
  intros X. rewrite X in Ef. cbn in Ef. congruence.
Qed.
Lemma runs_seq p s rb : limit s = None -> runs p (checkpoint s) rb -> runs (PSequence p) s (seq_post s rb).
Proof.
  intros L [N [f Ef]]. split; [now apply seq_post_nofuel|]. exists (S f). rewrite (exec_seq f p s L), Ef. reflexivity.
Qed.

Lemma vtruncate_vtruncate {A} (n m : nat) (l : list A) : n <= m -> vtruncate n (vtruncate m l) = vtruncate n l.
Proof.
  intros H. unfold vtruncate.
  destruct (Nat.ltb_spec m (length l)) as [Hm|Hm]; [|reflexivity].
  rewrite skipn_length. replace (length l - (length l - m)) with m by lia.
  destruct (Nat.ltb_spec n m) as [Hn|Hn], (Nat.ltb_spec n (length l)) as [Hl|Hl]; try lia.
  - rewrite Proofs.skipn_skipn'. f_equal. lia.
  - replace n with m by lia. reflexivity.
Qed.

Lemma frame_qlen s s' : frame s s' -> length (queue s) <= length (queue s').
Proof.
  intros F. destruct (f_queue _ _ F) as [new Eq]. apply (f_equal (@length _)) in Eq.
  rewrite app_length, !untagq_length in Eq. lia.
Qed.

Lemma srel_checkpoint_r s t : srel s t -> srel s (checkpoint t).
Proof.
  intros (st & -> & C & W & Ia & [b Ib] & L). exists (snapshot st). unfold checkpoint. fields.
  repeat split; auto. exists (ssnapshot b). now apply inv_snapshot.
Qed.

Lemma srel_self_l s t : srel s t -> srel s s.
Proof. intros R. destruct (r_is _ _ R) as [a Ia]. eapply srel_refl; eauto; [eapply r_wf|eapply r_lim]; eauto. Qed.

(* sequence(X ; Y) ~ sequence(X ; sequence(Y)) *)
Lemma seq_absorb A X Y : eqv A (PSequence (PAndThen X Y)) (PSequence (PAndThen X (PSequence Y))).
Proof.
  intros s t r R HA H.
  pose proof (r_wf _ _ R) as W. pose proof (srel_wft _ _ R) as Wt.
  destruct (r_is _ _ R) as [a Ia]. destruct (r_it _ _ R) as [b Ib].
  pose proof (r_lim _ _ R) as L. pose proof (srel_limt _ _ R) as L2.
  destruct (runs_seq_inv _ _ _ L H) as (rb & Hb & ->).
  pose proof (srel_checkpoint _ _ R) as R1.
  assert (A1 : amode A (checkpoint s)) by (eapply amode_frame; [exact HA|reflexivity]).
  assert (W1 : wf (checkpoint s)) by exact W. assert (W2 : wf (checkpoint t)) by exact Wt.
  pose proof (inv_snapshot Ia) as I1. pose proof (inv_snapshot Ib) as I2.
  change (snapshot (stack s)) with (stack (checkpoint s)) in I1. change (snapshot (stack t)) with (stack (checkpoint t)) in I2.
  assert (Cab : cur b = cur a).
  { destruct R as (st & -> & C & _). fields_in Ib. rewrite <- (inv_cache' _ _ Ia), <- (inv_cache' _ _ Ib). exact C. }
  destruct (runs_then_inv _ _ _ _ Hb) as [(s1 & HX & HY)|[HX Hn]].
  - destruct (eqv_refl A X _ _ _ R1 A1 HX) as (rx' & HX' & RX).
    destruct rx' as [t1| | |]; cbn in RX; try contradiction.
    pose proof (runs_post _ _ _ _ W1 I1 HX) as PX. pose proof (runs_post _ _ _ _ W2 I2 HX') as PX'.
    cbn in PX, PX'. destruct PX as (FX & Ws1 & a1 & Ia1 & Sa1), PX' as (FX' & Wt1 & b1 & Ib1 & Sb1).
    assert (A2 : amode A s1) by (eapply frame_amode; eauto).
    destruct (eqv_refl A Y _ _ _ (srel_checkpoint_r _ _ RX) A2 HY) as (ry' & HY' & RY).
    pose proof (srel_limt _ _ RX) as L1.
    pose proof (runs_seq _ _ _ L1 HY') as T1.
    pose proof (runs_then_ok _ _ _ _ _ HX' T1) as T2.
    pose proof (runs_seq _ _ _ L2 T2) as T3.
    eexists; split; [exact T3|].
    eapply (rrel_of_core s a t b); [exact L|eapply runs_post; eauto|eapply runs_post; eauto|].
    pose proof (runs_post _ _ _ _ Ws1 Ia1 HY) as PY.
    assert (Wc : wf (checkpoint t1)) by exact Wt1.
    pose proof (inv_snapshot Ib1) as Ic. change (snapshot (stack t1)) with (stack (checkpoint t1)) in Ic.
    pose proof (runs_post _ _ _ _ Wc Ic HY') as PY'.
    destruct rb as [sy|sy|k|], ry' as [ty|ty|k'|]; cbn in RY; try contradiction; cbn [seq_post].
    + (* Y succeeds *)
      cbn in PY'. destruct PY' as (_ & _ & b2 & Ib2 & Sb2).
      unfold checkpoint_ok at 2. destruct (inv_clear Ib2) as (stc & Ec & Ic2). rewrite Ec. fields.
      apply clear_core; [left; reflexivity|].
      destruct RY as (sty & -> & Cy & Wy & Iy & _ & Ly). fields_in Ib2. fields.
      exists stc. repeat split; auto; [|exists (sclear b2); exact Ic2].
      rewrite (inv_cache' _ _ Ic2). cbn. rewrite <- (inv_cache' _ _ Ib2). exact Cy.
    + (* Y fails: the inner restore, then the outer one *)
      cbn in PY, PY'. destruct PY as (FY & _ & a2 & Ia2 & Sa2), PY' as (_ & _ & b2 & Ib2 & Sb2).
      destruct RY as (sty & -> & Cy & _). fields_in Ib2.
      unfold restore_st at 2. fields. destruct (inv_restore Ib2) as (str & Er & Ir). rewrite Er. fields.
      destruct R as (st0 & -> & C0 & _). destruct RX as (st1 & -> & C1 & _). fields.
      cbn [seq_post]. fields. rewrite vtruncate_vtruncate by (exact (frame_qlen _ _ FX)).
      change (set_queue (set_pos (set_stack (set_queue (set_pos (sw sty sy) ?p1) ?q1) str) ?p2) ?q2)
        with (sw str (set_queue (set_pos sy p2) q2)).
      eapply (restore_core RErr (or_intror (fun x => eq_refl))) with (a := a2) (b := srestore b2); fields; auto.
      * rewrite Sa2, Sa1. cbn. reflexivity.
      * unfold srestore. rewrite Sb2. cbn. rewrite Sb1. cbn. rewrite Cab. reflexivity.
    + exact RY.
  - (* X does not succeed: both sides stop there *)
    destruct (eqv_refl A X _ _ _ R1 A1 HX) as (rx' & HX' & RX).
    assert (Hn' : forall t1, rx' <> ROk t1) by (intros t1 ->; destruct rb; cbn in RX; try contradiction; eapply Hn; eauto).
    pose proof (runs_then_stop _ (PSequence Y) _ _ HX' Hn') as T2.
    pose proof (runs_seq _ _ _ L2 T2) as T3.
    eexists; split; [exact T3|].
    (* the same as for sequence(X) on both sides *)
    pose proof (runs_seq _ _ _ L HX) as S3.
    destruct (eqv_refl A (PSequence X) _ _ _ R HA S3) as (r' & Hr' & Rr).
    rewrite (runs_det _ _ _ _ (runs_seq _ _ _ L2 HX') Hr'). exact Rr.
Qed.

(* ---------- optional, repeat ---------- *)
Definition opt_post (rb : res) : res := match rb with ROk s' | RErr s' => ROk s' | RPanic k => RPanic k | ROutOfFuel => ROutOfFuel end.
Lemma runs_opt p s rb : limit s = None -> runs p s rb -> runs (POptional p) s (opt_post rb).
Proof.
  intros L [N [f Ef]]. split; [destruct rb; cbn; congruence|]. exists (S f). cbn [exec]. rewrite (inc_call_none s L), Ef. reflexivity.
Qed.
Lemma runs_rep p s r : limit s = None -> runs (PRepeatLoop p) s r -> runs (PRepeat p) s r.
Proof. intros L [N [f Ef]]. split; auto. exists (S f). cbn [exec]. rewrite (inc_call_none s L). exact Ef. Qed.
Lemma runs_loop_ok p s s1 r : runs p s (ROk s1) -> runs (PRepeatLoop p) s1 r -> runs (PRepeatLoop p) s r.
Proof.
  intros [_ [f1 E1]] [N [f2 E2]]. split; auto. exists (S (Nat.max f1 f2)). cbn [exec].
  rewrite (exec_mono cfg E f1 (Nat.max f1 f2) p s ltac:(lia)) by (rewrite E1; discriminate). rewrite E1.
  rewrite (exec_mono cfg E f2 (Nat.max f1 f2) _ s1 ltac:(lia)) by (rewrite E2; exact N). exact E2.
Qed.
Lemma runs_loop_err p s s' : runs p s (RErr s') -> runs (PRepeatLoop p) s (ROk s').
Proof. intros [_ [f1 E1]]. split; [discriminate|]. exists (S f1). cbn [exec]. rewrite E1. reflexivity. Qed.
Lemma runs_loop_panic p s k : runs p s (RPanic k) -> runs (PRepeatLoop p) s (RPanic k).
Proof. intros [_ [f1 E1]]. split; [discriminate|]. exists (S f1). cbn [exec]. rewrite E1. reflexivity. Qed.

Lemma set_pos_id s : set_pos s (pos s) = s.
Proof. destruct s; reflexivity. Qed.
Lemma set_queue_id s : set_queue s (queue s) = s.
Proof. destruct s; reflexivity. Qed.
Lemma vtruncate_all {A} (l : list A) n : n = length l -> vtruncate n l = l.
Proof. intros ->. unfold vtruncate. now rewrite Nat.ltb_irrefl. Qed.

Lemma srel_clear_r s t : srel s t -> exists t', checkpoint_ok t = Some t' /\ srel s t'.
Proof.
  intros (st & -> & C & W & Ia & [b Ib] & L). unfold checkpoint_ok. fields.
  destruct (inv_clear Ib) as (stc & Ec & Ic). rewrite Ec. fields. eexists; split; [reflexivity|].
  exists stc. repeat split; auto; [|exists (sclear b); exact Ic].
  rewrite (inv_cache' _ _ Ic). cbn. rewrite <- (inv_cache' _ _ Ib). exact C.
Qed.

Definition skip_id (k : prog) : Prop := forall s, atomicity s <> NonAtomic -> runs k s (ROk s).
Definition fails_clean (x : prog) : Prop :=
  forall s s' a, wf s -> Inv (stack s) a -> limit s = None -> atomicity s <> NonAtomic -> runs x s (RErr s') ->
    pos s' = pos s /\ length (queue s') = length (queue s) /\ cache (stack s') = cache (stack s).

(* a skip that is the identity can be added on either side of a program *)
Lemma then_skip_r k q t r a : skip_id k -> wf t -> Inv (stack t) a -> atomicity t <> NonAtomic ->
  runs q t r -> runs (PAndThen q k) t r.
Proof.
  intros Hk W I HA Hq. destruct r as [t1|t1|kk|].
  - eapply runs_then_ok; [exact Hq|]. apply Hk.
    pose proof (runs_post _ _ _ _ W I Hq) as P. cbn in P. destruct P as (F & _). rewrite (f_at _ _ F). exact HA.
  - apply runs_then_stop; auto. discriminate.
  - apply runs_then_stop; auto. discriminate.
  - destruct Hq as [N _]. congruence.
Qed.
Lemma then_skip_l k q t r : skip_id k -> atomicity t <> NonAtomic -> runs q t r -> runs (PAndThen k q) t r.
Proof. intros Hk HA Hq. eapply runs_then_ok; [apply Hk; exact HA|exact Hq]. Qed.

Section RepAtomic.
Variable x k : prog.
Hypothesis Hk : skip_id k.
Hypothesis Hx : fails_clean x.
Let body' := PSequence (PAndThen k x).

(* one later iteration on the right for one iteration on the left *)
Lemma iter_right s t rx : srel s t -> atomicity s <> NonAtomic -> runs x s rx ->
  exists rb, runs body' t rb /\
    match rx with
    | ROk s1 => exists t1, rb = ROk t1 /\ srel s1 t1
    | RErr s' => exists tr, rb = RErr tr /\ srel s' tr
    | RPanic kk => rb = RPanic kk
    | ROutOfFuel => False
    end.
Proof.
  intros R HA HX.
  pose proof (r_wf _ _ R) as W. pose proof (srel_wft _ _ R) as Wt.
  destruct (r_is _ _ R) as [a Ia]. destruct (r_it _ _ R) as [b Ib].
  pose proof (r_lim _ _ R) as L. pose proof (srel_limt _ _ R) as L2.
  assert (Ac : atomicity (checkpoint t) <> NonAtomic) by (cbn; rewrite (srel_at _ _ R); exact HA).
  pose proof (Hk _ Ac) as K1.
  destruct (eqv_refl true x _ _ _ (srel_checkpoint_r _ _ R) (fun _ => HA) HX) as (rx' & HX' & RX).
  assert (Wc : wf (checkpoint t)) by exact Wt.
  pose proof (inv_snapshot Ib) as Ic. change (snapshot (stack t)) with (stack (checkpoint t)) in Ic.
  pose proof (runs_then_ok _ _ _ _ _ K1 HX') as T1.
  pose proof (runs_seq _ _ _ L2 T1) as T2.
  exists (seq_post t rx'). split; [exact T2|].
  pose proof (runs_post _ _ _ _ Wc Ic HX') as PX'.
  destruct rx as [s1|s'|kk|], rx' as [t1|t'|kk'|]; cbn in RX; try contradiction; cbn [seq_post].
  - destruct (srel_clear_r _ _ RX) as (tc & Ec & Rc). rewrite Ec. cbn. eauto.
  - pose proof (runs_post _ _ _ _ W Ia HX) as PX. cbn in PX, PX'.
    destruct PX as (FX & Ws' & a' & Ia' & Sa'), PX' as (_ & _ & b' & Ib' & Sb').
    destruct (Hx _ _ _ W Ia L HA HX) as (Cp & Cq & Cs).
    destruct RX as (st' & -> & C' & _). destruct R as (st & -> & C & _). fields_in Ib'. fields_in Ib.
    unfold restore_st. fields. destruct (inv_restore Ib') as (str & Er & Ir). rewrite Er. fields.
    eexists; split; [reflexivity|].
    rewrite <- Cp, <- Cq, (vtruncate_all (queue s') _ eq_refl).
    change (set_queue (set_pos (sw st' s') (pos s')) (queue s')) with (sw st' (set_queue (set_pos s' (pos s')) (queue s'))).
    rewrite set_pos_id, set_queue_id. fields.
    exists str. repeat split; auto; [|exists a'; exact Ia'|exists (srestore b'); exact Ir|rewrite (f_lim _ _ FX); exact L].
    rewrite (inv_cache' _ _ Ir). unfold srestore. rewrite Sb'. cbn.
    rewrite <- (inv_cache' _ _ Ib), C. symmetry. exact Cs.
  - subst kk'. reflexivity.
Qed.

Lemma loop_right : forall f s t, srel s t -> atomicity s <> NonAtomic ->
  exec cfg E f (PRepeatLoop x) s <> ROutOfFuel ->
  exists r', runs (PRepeatLoop body') t r' /\ rrel (exec cfg E f (PRepeatLoop x) s) r'.
Proof.
  induction f as [|f IH]; intros s t R HA Hne; [exfalso; apply Hne; reflexivity|].
  cbn [exec] in Hne |- *.
  destruct (exec cfg E f x s) as [s1|s'|kk|] eqn:Ex.
  - assert (HX : runs x s (ROk s1)) by (split; [discriminate|eauto]).
    destruct (iter_right _ _ _ R HA HX) as (rb & Hb & t1 & -> & R1).
    assert (A1 : atomicity s1 <> NonAtomic).
    { destruct (r_is _ _ R) as [a Ia]. pose proof (runs_post _ _ _ _ (r_wf _ _ R) Ia HX) as P. cbn in P. destruct P as (F & _).
      rewrite (f_at _ _ F). exact HA. }
    destruct (IH _ _ R1 A1 Hne) as (r' & Hr' & Rr). exists r'. split; auto. eapply runs_loop_ok; eauto.
  - assert (HX : runs x s (RErr s')) by (split; [discriminate|eauto]).
    destruct (iter_right _ _ _ R HA HX) as (rb & Hb & tr & -> & R1).
    exists (ROk tr). split; [now apply runs_loop_err|exact R1].
  - assert (HX : runs x s (RPanic kk)) by (split; [discriminate|eauto]).
    destruct (iter_right _ _ _ R HA HX) as (rb & Hb & ->).
    exists (RPanic kk). split; [now apply runs_loop_panic|reflexivity].
  - congruence.
Qed.

(* in atomic mode:  repeat(x) ~ sequence(optional(x ; repeat(sequence(skip ; x)))) *)
Lemma rep_atomic : eqv true (PRepeat x) (PSequence (POptional (PAndThen x (PRepeat body')))).
Proof.
  intros s t r R HA0 [N [f Ef]]. assert (HA : atomicity s <> NonAtomic) by (apply HA0; reflexivity).
  pose proof (r_wf _ _ R) as W. pose proof (srel_wft _ _ R) as Wt.
  destruct (r_is _ _ R) as [a Ia]. destruct (r_it _ _ R) as [b Ib].
  pose proof (r_lim _ _ R) as L. pose proof (srel_limt _ _ R) as L2.
  destruct f as [|f]; [cbn in Ef; congruence|]. cbn [exec] in Ef. rewrite (inc_call_none s L) in Ef.
  destruct f as [|f]; [cbn in Ef; congruence|]. cbn [exec] in Ef.
  pose proof (srel_checkpoint_r _ _ R) as Rc.
  assert (Lc : limit (checkpoint t) = None) by exact L2.
  destruct (exec cfg E f x s) as [s1|s'|kk|] eqn:Ex.
  - (* first iteration succeeds: the rest is the loop *)
    assert (HX : runs x s (ROk s1)) by (split; [discriminate|eauto]).
    destruct (eqv_refl true x _ _ _ Rc (fun _ => HA) HX) as (rx' & HX' & RX).
    destruct rx' as [t1| | |]; cbn in RX; try contradiction.
    assert (A1 : atomicity s1 <> NonAtomic).
    { pose proof (runs_post _ _ _ _ W Ia HX) as P. cbn in P. destruct P as (F & _). rewrite (f_at _ _ F). exact HA. }
    assert (Hne : exec cfg E f (PRepeatLoop x) s1 <> ROutOfFuel) by congruence.
    destruct (loop_right f _ _ RX A1 Hne) as (r' & Hr' & Rr). rewrite Ef in Rr.
    pose proof (runs_rep _ _ _ (srel_limt _ _ RX) Hr') as T1.
    pose proof (runs_then_ok _ _ _ _ _ HX' T1) as T2.
    pose proof (runs_opt _ _ _ Lc T2) as T3.
    pose proof (runs_seq _ _ _ L2 T3) as T4.
    eexists; split; [exact T4|].
    destruct r as [sz|sz|kz|], r' as [tz|tz|kz'|]; cbn in Rr; try contradiction; cbn [opt_post seq_post].
    + destruct (srel_clear_r _ _ Rr) as (tc & Ec & Rc'). rewrite Ec. exact Rc'.
    + destruct (srel_clear_r _ _ Rr) as (tc & Ec & Rc'). rewrite Ec.
      (* a loop never returns Err *) exfalso. clear - Ef. revert s1 Ef. induction f as [|f IH]; intros s1 Ef; [discriminate|].
      cbn [exec] in Ef. destruct (exec cfg E f x s1); try discriminate. eapply IH; eauto.
    + exact Rr.
  - (* first iteration fails: nothing matched *)
    assert (HX : runs x s (RErr s')) by (split; [discriminate|eauto]).
    destruct (eqv_refl true x _ _ _ Rc (fun _ => HA) HX) as (rx' & HX' & RX).
    destruct rx' as [|t'| |]; cbn in RX; try contradiction.
    assert (Hn : forall t1, RErr t' <> ROk t1) by discriminate.
    pose proof (runs_then_stop _ (PRepeat body') _ _ HX' Hn) as T2.
    pose proof (runs_opt _ _ _ Lc T2) as T3.
    pose proof (runs_seq _ _ _ L2 T3) as T4.
    eexists; split; [exact T4|]. subst r. cbn [opt_post seq_post].
    destruct (srel_clear_r _ _ RX) as (tc & Ec & Rc'). rewrite Ec. exact Rc'.
  - assert (HX : runs x s (RPanic kk)) by (split; [discriminate|eauto]).
    destruct (eqv_refl true x _ _ _ Rc (fun _ => HA) HX) as (rx' & HX' & RX).
    destruct rx' as [| |kk'|]; cbn in RX; try contradiction. subst kk'.
    assert (Hn : forall t1, RPanic kk <> ROk t1) by discriminate.
    pose proof (runs_then_stop _ (PRepeat body') _ _ HX' Hn) as T2.
    pose proof (runs_opt _ _ _ Lc T2) as T3.
    pose proof (runs_seq _ _ _ L2 T3) as T4.
    eexists; split; [exact T4|]. subst r. reflexivity.
  - congruence.
Qed.

End RepAtomic.

(* ---------- the flattened chains of generate_expr against the nested shapes of the VM ---------- *)
Lemma assoc4 X a k b : peq (PAndThen (PAndThen (PAndThen X a) k) b) (PAndThen X (PAndThen (PAndThen a k) b)).
Proof.
  intros s r H. destruct (runs_then_inv _ _ _ _ H) as [(s3 & H1 & Hb)|[H1 Hn]].
  - destruct (runs_then_inv _ _ _ _ H1) as [(s2 & H2 & Hk)|[H2 Hn]]; [|exfalso; eapply Hn; eauto].
    destruct (runs_then_inv _ _ _ _ H2) as [(s1 & HX & Ha)|[HX Hn]]; [|exfalso; eapply Hn; eauto].
    eapply runs_then_ok; [exact HX|]. eapply runs_then_ok; [|exact Hb]. eapply runs_then_ok; eauto.
  - destruct (runs_then_inv _ _ _ _ H1) as [(s2 & H2 & Hk)|[H2 _]].
    + destruct (runs_then_inv _ _ _ _ H2) as [(s1 & HX & Ha)|[HX Hn']]; [|exfalso; eapply Hn'; eauto].
      eapply runs_then_ok; [exact HX|]. apply runs_then_stop; auto. eapply runs_then_ok; eauto.
    + destruct (runs_then_inv _ _ _ _ H2) as [(s1 & HX & Ha)|[HX _]].
      * eapply runs_then_ok; [exact HX|]. apply runs_then_stop; auto. apply runs_then_stop; auto.
      * apply runs_then_stop; auto.
Qed.

Lemma eqv_seq A p q : eqv A p q -> eqv A (PSequence p) (PSequence q).
Proof. intros H. apply sim_eqv. intros m. apply cong_seq'. now apply eqv_sim. Qed.
Lemma eqv_else A p q p' q' : eqv A p p' -> eqv A q q' -> eqv A (POrElse p q) (POrElse p' q').
Proof. intros H1 H2. apply sim_eqv. intros m. apply cong_else'; now apply eqv_sim. Qed.

Section Flat.
Variable v : oexpr -> prog.
Variable vsk : prog.
Hypothesis v_seq : forall l r, v (OSeq l r) = PSequence (PAndThen (PAndThen (v l) vsk) (v r)).
Hypothesis v_cho : forall l r, v (OChoice l r) = POrElse (v l) (v r).
Definition linkv (acc x : prog) : prog := PAndThen (PAndThen acc vsk) x.

Lemma seq_flat A : forall r acc,
  eqv A (PSequence (seq_chain v linkv acc r)) (PSequence (PAndThen (PAndThen acc vsk) (v r))).
Proof.
  induction r; intros acc; try (cbn [seq_chain]; apply eqv_refl).
  cbn [seq_chain]. eapply eqv_trans; [apply IHr2|]. unfold linkv. rewrite v_seq.
  eapply eqv_trans; [apply eqv_seq, (eqv_of_peq A), assoc4|]. apply seq_absorb.
Qed.

Lemma cho_flat A : forall r acc, eqv A (cho_chain v POrElse acc r) (POrElse acc (v r)).
Proof.
  induction r; intros acc; try (cbn [cho_chain]; apply eqv_refl).
  cbn [cho_chain]. eapply eqv_trans; [apply IHr2|]. rewrite v_cho. apply (eqv_of_peq A), else_assoc.
Qed.
End Flat.

(* ================= the same laws read from right to left ================= *)
Lemma then_assoc_rev p q r0 : peq (PAndThen p (PAndThen q r0)) (PAndThen (PAndThen p q) r0).
Proof.
  intros s r H. destruct (runs_then_inv _ _ _ _ H) as [(s1 & Hp & H2)|[Hp Hn]].
  - destruct (runs_then_inv _ _ _ _ H2) as [(s2 & Hq & Hr)|[Hq Hn]].
    + eapply runs_then_ok; [|exact Hr]. eapply runs_then_ok; eauto.
    + apply runs_then_stop; auto. eapply runs_then_ok; eauto.
  - apply runs_then_stop; auto. apply runs_then_stop; auto.
Qed.
Lemma else_assoc_rev p q r0 : peq (POrElse p (POrElse q r0)) (POrElse (POrElse p q) r0).
Proof.
  intros s r H. destruct (runs_else_inv _ _ _ _ H) as [(s1 & Hp & H2)|[Hp Hn]].
  - destruct (runs_else_inv _ _ _ _ H2) as [(s2 & Hq & Hr)|[Hq Hn]].
    + eapply runs_else_err; [|exact Hr]. eapply runs_else_err; eauto.
    + apply runs_else_stop; auto. eapply runs_else_err; eauto.
  - apply runs_else_stop; auto. apply runs_else_stop; auto.
Qed.
Lemma assoc4_rev X a k b : peq (PAndThen X (PAndThen (PAndThen a k) b)) (PAndThen (PAndThen (PAndThen X a) k) b).
Proof.
  intros s r H. destruct (runs_then_inv _ _ _ _ H) as [(s1 & HX & H2)|[HX Hn]].
  - destruct (runs_then_inv _ _ _ _ H2) as [(s3 & H3 & Hb)|[H3 Hn]].
    + destruct (runs_then_inv _ _ _ _ H3) as [(s2 & Ha & Hk)|[Ha Hn]]; [|exfalso; eapply Hn; eauto].
      eapply runs_then_ok; [|exact Hb]. eapply runs_then_ok; [|exact Hk]. eapply runs_then_ok; eauto.
    + destruct (runs_then_inv _ _ _ _ H3) as [(s2 & Ha & Hk)|[Ha _]].
      * apply runs_then_stop; auto. eapply runs_then_ok; [|exact Hk]. eapply runs_then_ok; eauto.
      * apply runs_then_stop; auto. apply runs_then_stop; auto. eapply runs_then_ok; eauto.
  - apply runs_then_stop; auto. apply runs_then_stop; auto. apply runs_then_stop; auto.
Qed.
Lemma peq_then_l a a' b : peq a a' -> peq (PAndThen a b) (PAndThen a' b).
Proof.
  intros H s r Hr. destruct (runs_then_inv _ _ _ _ Hr) as [(s1 & Ha & Hb)|[Ha Hn]].
  - eapply runs_then_ok; [apply H; exact Ha|exact Hb].
  - apply runs_then_stop; auto.
Qed.
Lemma peq_else_l a a' b : peq a a' -> peq (POrElse a b) (POrElse a' b).
Proof.
  intros H s r Hr. destruct (runs_else_inv _ _ _ _ Hr) as [(s1 & Ha & Hb)|[Ha Hn]].
  - eapply runs_else_err; [apply H; exact Ha|exact Hb].
  - apply runs_else_stop; auto.
Qed.
Lemma peq_trans a b c : peq a b -> peq b c -> peq a c.
Proof. intros H1 H2 s r Hr. auto. Qed.
Lemma peq_refl a : peq a a.
Proof. intros s r Hr. exact Hr. Qed.

Lemma srel_checkpoint_l s t : srel s t -> srel (checkpoint s) t.
Proof.
  intros (st & -> & C & W & [a Ia] & Ib & L). exists st. unfold checkpoint. fields.
  repeat split; auto. exists (ssnapshot a). now apply inv_snapshot.
Qed.
Lemma srel_clear_l s t : srel s t -> exists s', checkpoint_ok s = Some s' /\ srel s' t.
Proof.
  intros (st & -> & C & W & [a Ia] & Ib & L). unfold checkpoint_ok.
  destruct (inv_clear Ia) as (stc & Ec & Ic). rewrite Ec. fields. eexists; split; [reflexivity|].
  exists st. repeat split; fields; auto; [|exists (sclear a); exact Ic].
  rewrite (inv_cache' _ _ Ic). cbn. rewrite <- (inv_cache' _ _ Ia). exact C.
Qed.

(* sequence(X ; sequence(Y)) ~ sequence(X ; Y) *)
Lemma seq_unabsorb A X Y : eqv A (PSequence (PAndThen X (PSequence Y))) (PSequence (PAndThen X Y)).
Proof.
  intros s t r R HA H.
  pose proof (r_wf _ _ R) as W. pose proof (srel_wft _ _ R) as Wt.
  destruct (r_is _ _ R) as [a Ia]. destruct (r_it _ _ R) as [b Ib].
  pose proof (r_lim _ _ R) as L. pose proof (srel_limt _ _ R) as L2.
  destruct (runs_seq_inv _ _ _ L H) as (rb & Hb & ->).
  pose proof (srel_checkpoint _ _ R) as R1.
  assert (A1 : amode A (checkpoint s)) by (eapply amode_frame; [exact HA|reflexivity]).
  assert (W1 : wf (checkpoint s)) by exact W. assert (W2 : wf (checkpoint t)) by exact Wt.
  pose proof (inv_snapshot Ia) as I1. pose proof (inv_snapshot Ib) as I2.
  change (snapshot (stack s)) with (stack (checkpoint s)) in I1. change (snapshot (stack t)) with (stack (checkpoint t)) in I2.
  assert (Cab : cur b = cur a).
  { destruct R as (st & -> & C & _). fields_in Ib. rewrite <- (inv_cache' _ _ Ia), <- (inv_cache' _ _ Ib). exact C. }
  destruct (runs_then_inv _ _ _ _ Hb) as [(s1 & HX & HS)|[HX Hn]].
  - destruct (eqv_refl A X _ _ _ R1 A1 HX) as (rx' & HX' & RX).
    destruct rx' as [t1| | |]; cbn in RX; try contradiction.
    pose proof (runs_post _ _ _ _ W1 I1 HX) as PX. pose proof (runs_post _ _ _ _ W2 I2 HX') as PX'.
    cbn in PX, PX'. destruct PX as (FX & Ws1 & a1 & Ia1 & Sa1), PX' as (FX' & Wt1 & b1 & Ib1 & Sb1).
    assert (A2 : amode A s1) by (eapply frame_amode; eauto).
    pose proof (r_lim _ _ RX) as L1.
    destruct (runs_seq_inv _ _ _ L1 HS) as (ry & HY & ->).
    destruct (eqv_refl A Y _ _ _ (srel_checkpoint_l _ _ RX) ltac:(eapply amode_frame; [exact A2|reflexivity]) HY) as (ry' & HY' & RY).
    pose proof (runs_then_ok _ _ _ _ _ HX' HY') as T2.
    pose proof (runs_seq _ _ _ L2 T2) as T3.
    eexists; split; [exact T3|].
    eapply (rrel_of_core s a t b); [exact L|eapply runs_post; eauto|eapply runs_post; eauto|].
    assert (Wc : wf (checkpoint s1)) by exact Ws1.
    pose proof (inv_snapshot Ia1) as Ic. change (snapshot (stack s1)) with (stack (checkpoint s1)) in Ic.
    pose proof (runs_post _ _ _ _ Wc Ic HY) as PY.
    pose proof (runs_post _ _ _ _ Wt1 Ib1 HY') as PY'.
    destruct ry as [sy|sy|k|], ry' as [ty|ty|k'|]; cbn in RY; try contradiction; cbn [seq_post].
    + destruct (srel_clear_l _ _ RY) as (sy1 & Ec & Rc). rewrite Ec. cbn [lift seq_post].
      apply clear_core; [left; reflexivity|exact Rc].
    + cbn in PY, PY'. destruct PY as (FY & _ & a2 & Ia2 & Sa2), PY' as (_ & _ & b2 & Ib2 & Sb2).
      destruct RY as (sty & -> & Cy & _). fields_in Ib2.
      unfold restore_st at 1. fields. destruct (inv_restore Ia2) as (str & Er & Ir). rewrite Er. cbn [option_map lift seq_post]. fields.
      destruct R as (st0 & -> & C0 & _). destruct RX as (st1 & -> & C1 & _). fields.
      rewrite vtruncate_vtruncate by (exact (frame_qlen _ _ FX)).
      change (set_queue (set_pos (sw sty sy) ?p2) ?q2)
        with (sw sty (set_queue (set_pos (set_stack (set_queue (set_pos sy (pos s1)) (vtruncate (length (queue s1)) (queue sy))) str) p2) q2)).
      eapply (restore_core RErr (or_intror (fun x => eq_refl))) with (a := srestore a2) (b := b2); fields; auto.
      * unfold srestore. rewrite Sa2. cbn. rewrite Sa1. cbn. reflexivity.
      * rewrite Sb2, Sb1. cbn. rewrite Cab. reflexivity.
    + exact RY.
  - destruct (eqv_refl A X _ _ _ R1 A1 HX) as (rx' & HX' & RX).
    assert (Hn' : forall t1, rx' <> ROk t1) by (intros t1 ->; destruct rb; cbn in RX; try contradiction; eapply Hn; eauto).
    pose proof (runs_then_stop _ Y _ _ HX' Hn') as T2.
    pose proof (runs_seq _ _ _ L2 T2) as T3.
    eexists; split; [exact T3|].
    pose proof (runs_seq _ _ _ L HX) as S3.
    destruct (eqv_refl A (PSequence X) _ _ _ R HA S3) as (r' & Hr' & Rr).
    rewrite (runs_det _ _ _ _ (runs_seq _ _ _ L2 HX') Hr'). exact Rr.
Qed.

Lemma runs_opt_inv p s r : limit s = None -> runs (POptional p) s r -> exists rb, runs p s rb /\ r = opt_post rb.
Proof.
  intros L [N [f Ef]]. destruct f as [|f]; [cbn in Ef; congruence|]. cbn [exec] in Ef. rewrite (inc_call_none s L) in Ef.
  exists (exec cfg E f p s). split; [split; eauto|].
  - intros X. rewrite X in Ef. congruence.
  - rewrite <- Ef. destruct (exec cfg E f p s); reflexivity.
Qed.
Lemma runs_rep_inv p s r : limit s = None -> runs (PRepeat p) s r -> runs (PRepeatLoop p) s r.
Proof.
  intros L [N [f Ef]]. destruct f as [|f]; [cbn in Ef; congruence|]. cbn [exec] in Ef. rewrite (inc_call_none s L) in Ef.
  split; eauto.
Qed.

Section RepAtomicRev.
Variable x k : prog.
Hypothesis Hk : skip_id k.
Hypothesis Hx : fails_clean x.
Let body' := PSequence (PAndThen k x).

(* one iteration of the nest on the left for one iteration of the plain loop on the right *)
Lemma iter_left s t rb : srel s t -> atomicity s <> NonAtomic -> runs body' s rb ->
  exists rx, runs x t rx /\
    match rb with
    | ROk s1 => exists t1, rx = ROk t1 /\ srel s1 t1
    | RErr sr => exists t', rx = RErr t' /\ srel sr t'
    | RPanic kk => rx = RPanic kk
    | ROutOfFuel => False
    end.
Proof.
  intros R HA HB.
  pose proof (r_wf _ _ R) as W. destruct (r_is _ _ R) as [a Ia]. pose proof (r_lim _ _ R) as L.
  destruct (runs_seq_inv _ _ _ L HB) as (rq & Hq & ->).
  assert (Ac : atomicity (checkpoint s) <> NonAtomic) by exact HA.
  pose proof (Hk _ Ac) as K1.
  assert (HX : runs x (checkpoint s) rq).
  { destruct (runs_then_inv _ _ _ _ Hq) as [(s2 & Hk2 & Hx2)|[Hk2 Hn]].
    - pose proof (runs_det _ _ _ _ K1 Hk2) as Eq. injection Eq as <-. exact Hx2.
    - exfalso. pose proof (runs_det _ _ _ _ K1 Hk2) as Eq. eapply Hn; eauto. }
  destruct (eqv_refl true x _ _ _ (srel_checkpoint_l _ _ R) (fun _ => Ac) HX) as (rx & HX' & RX).
  exists rx. split; [exact HX'|].
  assert (Wc : wf (checkpoint s)) by exact W.
  pose proof (inv_snapshot Ia) as Ic. change (snapshot (stack s)) with (stack (checkpoint s)) in Ic.
  pose proof (runs_post _ _ _ _ Wc Ic HX) as PX.
  destruct rq as [s1|s'|kk|], rx as [t1|t'|kk'|]; cbn in RX; try contradiction; cbn [seq_post].
  - destruct (srel_clear_l _ _ RX) as (sc & Ec & Rc). rewrite Ec. cbn. eauto.
  - cbn in PX. destruct PX as (FX & Ws' & a' & Ia' & Sa').
    assert (Lc : limit (checkpoint s) = None) by exact L.
    destruct (Hx _ _ _ Wc Ic Lc Ac HX) as (Cp & Cq & Cs). cbn [checkpoint pos queue stack set_stack] in Cp, Cq.
    unfold restore_st. fields. destruct (inv_restore Ia') as (str & Er & Ir). rewrite Er. cbn [option_map lift].
    eexists; split; [reflexivity|].
    rewrite <- Cp, <- Cq, (vtruncate_all (queue s') _ eq_refl), set_pos_id, set_queue_id.
    destruct RX as (st' & -> & C' & _ & _ & Ib' & _).
    exists st'. repeat split; fields; auto; [|exists (srestore a'); exact Ir|rewrite (f_lim _ _ FX); exact L].
    rewrite C'. rewrite (inv_cache' _ _ Ir). unfold srestore. rewrite Sa'. cbn.
    rewrite Cs. cbn. apply (inv_cache' _ _ Ia).
  - subst kk'. reflexivity.
Qed.

Lemma loop_left : forall f s t, srel s t -> atomicity s <> NonAtomic ->
  exec cfg E f (PRepeatLoop body') s <> ROutOfFuel ->
  exists r', runs (PRepeatLoop x) t r' /\ rrel (exec cfg E f (PRepeatLoop body') s) r'.
Proof.
  induction f as [|f IH]; intros s t R HA Hne; [exfalso; apply Hne; reflexivity|].
  cbn [exec] in Hne |- *.
  destruct (exec cfg E f body' s) as [s1|s'|kk|] eqn:Ex.
  - assert (HB : runs body' s (ROk s1)) by (split; [discriminate|eauto]).
    destruct (iter_left _ _ _ R HA HB) as (rx & Hx' & t1 & -> & R1).
    assert (A1 : atomicity s1 <> NonAtomic).
    { destruct (r_is _ _ R) as [a Ia]. pose proof (runs_post _ _ _ _ (r_wf _ _ R) Ia HB) as P. cbn in P. destruct P as (F & _).
      rewrite (f_at _ _ F). exact HA. }
    destruct (IH _ _ R1 A1 Hne) as (r' & Hr' & Rr). exists r'. split; auto. eapply runs_loop_ok; eauto.
  - assert (HB : runs body' s (RErr s')) by (split; [discriminate|eauto]).
    destruct (iter_left _ _ _ R HA HB) as (rx & Hx' & t' & -> & R1).
    exists (ROk t'). split; [now apply runs_loop_err|exact R1].
  - assert (HB : runs body' s (RPanic kk)) by (split; [discriminate|eauto]).
    destruct (iter_left _ _ _ R HA HB) as (rx & Hx' & ->).
    exists (RPanic kk). split; [now apply runs_loop_panic|reflexivity].
  - congruence.
Qed.

Lemma loop_never_err p : forall f s s', exec cfg E f (PRepeatLoop p) s <> RErr s'.
Proof.
  induction f as [|f IH]; intros s s'; [discriminate|]. cbn [exec]. destruct (exec cfg E f p s); try discriminate. apply IH.
Qed.

(* in atomic mode:  sequence(optional(x ; repeat(sequence(skip ; x)))) ~ repeat(x) *)
Lemma rep_atomic_rev : eqv true (PSequence (POptional (PAndThen x (PRepeat body')))) (PRepeat x).
Proof.
  intros s t r R HA0 H. assert (HA : atomicity s <> NonAtomic) by (apply HA0; reflexivity).
  pose proof (r_wf _ _ R) as W. destruct (r_is _ _ R) as [a Ia].
  pose proof (r_lim _ _ R) as L. pose proof (srel_limt _ _ R) as L2.
  destruct (runs_seq_inv _ _ _ L H) as (ro & Ho & ->).
  assert (Lc : limit (checkpoint s) = None) by exact L.
  destruct (runs_opt_inv _ _ _ Lc Ho) as (rq & Hq & ->).
  pose proof (srel_checkpoint_l _ _ R) as Rc.
  assert (Ac : atomicity (checkpoint s) <> NonAtomic) by exact HA.
  destruct (runs_then_inv _ _ _ _ Hq) as [(s1 & HX & HL)|[HX Hn]].
  - destruct (eqv_refl true x _ _ _ Rc (fun _ => Ac) HX) as (rx' & HX' & RX).
    destruct rx' as [t1| | |]; cbn in RX; try contradiction.
    assert (Wc : wf (checkpoint s)) by exact W.
    pose proof (inv_snapshot Ia) as Ic. change (snapshot (stack s)) with (stack (checkpoint s)) in Ic.
    assert (A1 : atomicity s1 <> NonAtomic).
    { pose proof (runs_post _ _ _ _ Wc Ic HX) as P. cbn in P. destruct P as (F & _). rewrite (f_at _ _ F). exact Ac. }
    pose proof (runs_rep_inv _ _ _ (r_lim _ _ RX) HL) as [N [f Ef]].
    assert (Hne : exec cfg E f (PRepeatLoop body') s1 <> ROutOfFuel) by congruence.
    destruct (loop_left f _ _ RX A1 Hne) as (r' & Hr' & Rr). rewrite Ef in Rr.
    pose proof (runs_loop_ok _ _ _ _ HX' Hr') as T1.
    pose proof (runs_rep _ _ _ L2 T1) as T2.
    exists r'. split; [exact T2|].
    destruct rq as [sz|sz|kz|], r' as [tz|tz|kz'|]; cbn in Rr; try contradiction; cbn [opt_post seq_post].
    + destruct (srel_clear_l _ _ Rr) as (sc & Ec & Rc'). rewrite Ec. exact Rc'.
    + exfalso. eapply loop_never_err; eauto.
    + exact Rr.
  - destruct (eqv_refl true x _ _ _ Rc (fun _ => Ac) HX) as (rx' & HX' & RX).
    destruct rq as [sz|s'|kk|]; [exfalso; eapply Hn; eauto| | |destruct HX as [N _]; congruence].
    + destruct rx' as [|t'| |]; cbn in RX; try contradiction.
      pose proof (runs_loop_err _ _ _ HX') as T1. pose proof (runs_rep _ _ _ L2 T1) as T2.
      exists (ROk t'). split; [exact T2|]. cbn [opt_post seq_post].
      destruct (srel_clear_l _ _ RX) as (sc & Ec & Rc'). rewrite Ec. exact Rc'.
    + destruct rx' as [| |kk'|]; cbn in RX; try contradiction. subst kk'.
      pose proof (runs_loop_panic _ _ _ HX') as T1. pose proof (runs_rep _ _ _ L2 T1) as T2.
      exists (RPanic kk). split; [exact T2|reflexivity].
Qed.

End RepAtomicRev.

(* ---------- the nested shapes of the VM, built from g, against the flattened chains of g ---------- *)
Lemma eqv_then A p q p' q' : eqv A p p' -> eqv A q q' -> eqv A (PAndThen p q) (PAndThen p' q').
Proof. intros H1 H2. apply sim_eqv. intros m. apply cong_then'; now apply eqv_sim. Qed.

Section FlatRev.
Variable g : oexpr -> prog.
Variable pre : prog -> prog.                      (* acc |-> acc.and_then(skip), or acc itself *)
Definition lkp (acc x : prog) : prog := PAndThen (pre acc) x.
Hypothesis pre_push : forall X y z, peq (PAndThen X (lkp y z)) (lkp (PAndThen X y) z).
Hypothesis pre_cong : forall a a' x, peq a a' -> peq (lkp a x) (lkp a' x).
Hypothesis g_seq : forall l r, g (OSeq l r) = PSequence (seq_chain g lkp (g l) r).
Hypothesis g_cho : forall l r, g (OChoice l r) = cho_chain g POrElse (g l) r.

Lemma chain_cong : forall b a a', peq a a' -> peq (seq_chain g lkp a b) (seq_chain g lkp a' b).
Proof. induction b; intros a a' H; cbn [seq_chain]; try (apply pre_cong; exact H). apply IHb2. apply pre_cong. exact H. Qed.
Lemma chain_push : forall b X y, peq (PAndThen X (seq_chain g lkp y b)) (seq_chain g lkp (PAndThen X y) b).
Proof.
  induction b; intros X y; cbn [seq_chain]; try apply pre_push.
  eapply peq_trans; [apply IHb2|]. apply chain_cong. apply pre_push.
Qed.
Lemma cchain_cong : forall b a a', peq a a' -> peq (cho_chain g POrElse a b) (cho_chain g POrElse a' b).
Proof. induction b; intros a a' H; cbn [cho_chain]; try (apply peq_else_l; exact H). apply IHb2. apply peq_else_l. exact H. Qed.
Lemma cchain_push : forall b X y, peq (POrElse X (cho_chain g POrElse y b)) (cho_chain g POrElse (POrElse X y) b).
Proof.
  induction b; intros X y; cbn [cho_chain]; try apply else_assoc_rev.
  eapply peq_trans; [apply IHb2|]. apply cchain_cong. apply else_assoc_rev.
Qed.

Fixpoint nest (e : oexpr) : prog := match e with OSeq l r => PSequence (lkp (g l) (nest r)) | _ => g e end.
Fixpoint nestc (e : oexpr) : prog := match e with OChoice l r => POrElse (g l) (nestc r) | _ => g e end.

Lemma nest_flat A : forall e, eqv A (nest e) (g e).
Proof.
  induction e; try apply eqv_refl. cbn [nest].
  eapply eqv_trans; [apply eqv_seq, eqv_then; [apply eqv_refl|apply IHe2]|].
  rewrite g_seq. destruct e2; try apply eqv_refl.
  (* the tail is itself a sequence: absorb it, then push the head into its chain *)
  rewrite g_seq. unfold lkp at 1. eapply eqv_trans; [apply seq_unabsorb|].
  cbn [seq_chain]. apply eqv_seq, (eqv_of_peq A). apply chain_push.
Qed.
Lemma nestc_flat A : forall e, eqv A (nestc e) (g e).
Proof.
  induction e; try apply eqv_refl. cbn [nestc].
  eapply eqv_trans; [apply eqv_else; [apply eqv_refl|apply IHe2]|].
  rewrite g_cho. destruct e2; try apply eqv_refl.
  rewrite g_cho. cbn [cho_chain]. apply (eqv_of_peq A). apply cchain_push.
Qed.
End FlatRev.

End Laws.
