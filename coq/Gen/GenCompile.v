(* Layer B, part 2: the code generator (generator/src/generator.rs) as a compiler from optimized
   rules to Layer-C programs.  The Rust it emits is a tree of ParserState calls; every emitted `fn`
   is a closure of the environment:
       closure k < |G|            the k-th rule function of `mod visible`      (generate_rule)
       closure |G| + 1            does not exist (an unresolved path: rustc rejects the module)
       closure |G| + 2            `hidden::skip`                               (generate_skip)
       closure |G| + 3 + i        the i-th fixed built-in of generate_builtin_rules (ANY ... NEWLINE)
       closure |G| + 22 + j       the j-th Unicode property built-in (match_char_by of its table)
   `self::name(state)` is a call of the function called `name` in `mod visible`: the user's rule when
   there is one, else the built-in (emitted when the name is used and not defined: `defaults`).
   Rule ids (`Rule::name`) are the indices in the rule list, `Rule::EOI` is |G|, as in VmCompile. *)
From Coq Require Import List Arith NArith ZArith Bool String Ascii.
Import ListNotations.
Require Import PV.Comb.PState PV.Comb.Prog PV.Peg.Ast PV.Peg.VmCompile.

Definition utable := list (name * list (N * N)).   (* Unicode property rules as code-point ranges *)

Fixpoint ulookup (U : utable) (n : name) : option (list (N * N)) :=
  match U with [] => None | (x, rs) :: r => if str_eqb x n then Some rs else ulookup r n end.
Fixpoint uindex (U : utable) (n : name) (k : nat) : option nat :=
  match U with [] => None | (x, _) :: r => if str_eqb x n then Some k else uindex r n (S k) end.

(* generate_builtin_rules, in the order of the source *)
Definition rng (lo hi : N) : prog := PPrim (MMatchRange lo hi).
Definition fixed_builtins (eoi : nat) : list (name * prog) :=
  [ (nm "ANY", PPrim (MSkip 1));
    (nm "EOI", PRule eoi (PPrim MEoi));
    (nm "SOI", PPrim MSoi);
    (nm "PEEK", PPrim MStackPeek);
    (nm "PEEK_ALL", PPrim MStackMatchPeek);
    (nm "POP", PPrim MStackPop);
    (nm "POP_ALL", PPrim MStackMatchPop);
    (nm "DROP", PPrim MStackDrop);
    (nm "ASCII_DIGIT", rng 48 57);
    (nm "ASCII_NONZERO_DIGIT", rng 49 57);
    (nm "ASCII_BIN_DIGIT", rng 48 49);
    (nm "ASCII_OCT_DIGIT", rng 48 55);
    (nm "ASCII_HEX_DIGIT", POrElse (POrElse (rng 48 57) (rng 97 102)) (rng 65 70));
    (nm "ASCII_ALPHA_LOWER", rng 97 122);
    (nm "ASCII_ALPHA_UPPER", rng 65 90);
    (nm "ASCII_ALPHA", POrElse (rng 97 122) (rng 65 90));
    (nm "ASCII_ALPHANUMERIC", POrElse (POrElse (rng 97 122) (rng 65 90)) (rng 48 57));
    (nm "ASCII", rng 0 127);
    (nm "NEWLINE", POrElse (POrElse (PPrim (MMatchString [10%N])) (PPrim (MMatchString [13%N; 10%N])))
                           (PPrim (MMatchString [13%N]))) ].
Definition n_fixed : nat := 19.

Fixpoint bindex (l : list (name * prog)) (n : name) (k : nat) : option nat :=
  match l with [] => None | (x, _) :: r => if str_eqb x n then Some k else bindex r n (S k) end.

Section SeqChain.
  (* the `while let Seq(lhs, rhs) = current` loops of generate_expr / generate_expr_atomic: the right
     spine of a Seq / Choice is flattened into one and_then / or_else chain (left-nested, as method
     chains are) *)
  Variable g : oexpr -> prog.
  Variable link : prog -> prog -> prog.     (* acc, next element  |->  acc.and_then(..)... *)
  Fixpoint seq_chain (acc : prog) (cur : oexpr) : prog :=
    match cur with
    | OSeq l r => seq_chain (link acc (g l)) r
    | _ => link acc (g cur)
    end.
  Fixpoint cho_chain (acc : prog) (cur : oexpr) : prog :=
    match cur with
    | OChoice l r => cho_chain (link acc (g l)) r
    | _ => link acc (g cur)
    end.
End SeqChain.

Section Gen.
Variable G : ogrammar.
Variable U : utable.

Definition base : nat := List.length G.
Definition undefined_closure : nat := S base.
Definition skip_closure : nat := base + 2.
Definition fixed_closure (i : nat) : nat := base + 3 + i.
Definition unicode_closure (j : nat) : nat := base + 3 + n_fixed + j.
Definition eoi_id : nat := orule_id G (nm "EOI").

(* `self::name(state)` *)
Definition gen_call (n : name) : prog :=
  if has_orule G n then PCall (orule_id G n)
  else match bindex (fixed_builtins eoi_id) n 0 with
       | Some i => PCall (fixed_closure i)
       | None => match uindex U n 0 with
                 | Some j => PCall (unicode_closure j)
                 | None => PCall undefined_closure
                 end
       end.

(* `super::hidden::skip(state)` *)
Definition call_skip : prog := PCall skip_closure.

(* generate_skip: `super::visible::WHITESPACE(state)` is a path to the user's function *)
Definition gen_skip : prog :=
  let ws := PRepeat (PCall (orule_id G (nm "WHITESPACE"))) in
  let cm := PCall (orule_id G (nm "COMMENT")) in
  match has_orule G (nm "WHITESPACE"), has_orule G (nm "COMMENT") with
  | false, false => PPrim MOk
  | true, false => PIfNonAtomic ws (PPrim MOk)
  | false, true => PIfNonAtomic (PRepeat cm) (PPrim MOk)
  | true, true =>
      PIfNonAtomic (PSequence (PAndThen ws (PRepeat (PSequence (PAndThen cm ws))))) (PPrim MOk)
  end.

Definition tagp (t : name) : prog := PPrim (MTagNode (otag_id t)).
Definition link_skip (acc x : prog) : prog := PAndThen (PAndThen acc call_skip) x.

(* generate_expr *)
Fixpoint gen_expr (e : oexpr) : prog :=
  match e with
  | OStr s => PPrim (MMatchString s)
  | OInsens s => PPrim (MMatchInsens s)
  | ORange lo hi => PPrim (MMatchRange lo hi)
  | OIdent n => gen_call n
  | OPeekSlice i j => PPrim (MPeekSlice i j BottomToTop)
  | OPosPred x => PLookahead true (gen_expr x)
  | ONegPred x => PLookahead false (gen_expr x)
  | OSeq l r => PSequence (seq_chain gen_expr link_skip (gen_expr l) r)
  | OChoice l r => cho_chain gen_expr POrElse (gen_expr l) r
  | OOpt x => POptional (gen_expr x)
  | ORep x =>
      PSequence (POptional (PAndThen (gen_expr x) (PRepeat (PSequence (PAndThen call_skip (gen_expr x))))))
  | ORepOnce x =>
      PSequence (PAndThen (gen_expr x) (PRepeat (PSequence (PAndThen call_skip (gen_expr x)))))
  | OSkip ss => PPrim (MSkipUntil ss)
  | OPush x => PStackPush (gen_expr x)
  | OPushLiteral s => PPrim (MStackPushLit s)
  | ORestoreOnErr x => PRestoreOnErr (gen_expr x)
  | ONodeTag x t =>
      match x with
      | OOpt y => POptional (PAndThen (gen_expr y) (tagp t))
      | ORep y =>
          PSequence (POptional (PAndThen
            (PAndThen (gen_expr y)
                      (PRepeat (PSequence (PAndThen call_skip (PAndThen (gen_expr y) (tagp t))))))
            (tagp t)))
      | _ => PAndThen (gen_expr x) (tagp t)
      end
  end.

(* generate_expr_atomic *)
Fixpoint gen_expr_atomic (e : oexpr) : prog :=
  match e with
  | OStr s => PPrim (MMatchString s)
  | OInsens s => PPrim (MMatchInsens s)
  | ORange lo hi => PPrim (MMatchRange lo hi)
  | OIdent n => gen_call n
  | OPeekSlice i j => PPrim (MPeekSlice i j BottomToTop)
  | OPosPred x => PLookahead true (gen_expr_atomic x)
  | ONegPred x => PLookahead false (gen_expr_atomic x)
  | OSeq l r => PSequence (seq_chain gen_expr_atomic PAndThen (gen_expr_atomic l) r)
  | OChoice l r => cho_chain gen_expr_atomic POrElse (gen_expr_atomic l) r
  | OOpt x => POptional (gen_expr_atomic x)
  | ORep x => PRepeat (gen_expr_atomic x)
  | ORepOnce x =>
      PSequence (PAndThen (gen_expr_atomic x) (PRepeat (PSequence (gen_expr_atomic x))))
  | OSkip ss => PPrim (MSkipUntil ss)
  | OPush x => PStackPush (gen_expr_atomic x)
  | OPushLiteral s => PPrim (MStackPushLit s)
  | ORestoreOnErr x => PRestoreOnErr (gen_expr_atomic x)
  | ONodeTag x t =>
      match x with
      | OOpt y => POptional (PAndThen (gen_expr_atomic y) (tagp t))
      | ORep y => PRepeat (PAndThen (gen_expr_atomic y) (tagp t))
      | _ => PAndThen (gen_expr_atomic x) (tagp t)
      end
  end.

Definition is_atomic_ty (t : rtype) : bool := match t with RAtomic | RCompound => true | _ => false end.

(* generate_rule *)
Definition gen_rule (r : orule) : prog :=
  let id := orule_id G (oname r) in
  let body :=
    if is_atomic_ty (oty r) then gen_expr_atomic (oexpr_of r)
    else if is_special_name (oname r) then PAtomic Atomic (gen_expr_atomic (oexpr_of r))
    else gen_expr (oexpr_of r) in
  match oty r with
  | RNormal => PRule id body
  | RSilent => body
  | RAtomic => PRule id (PAtomic Atomic body)
  | RCompound => PAtomic CompoundAtomic (PRule id body)
  | RNonAtomic => PAtomic NonAtomic (PRule id body)
  end.

Definition gen_env : env := fun k =>
  if Nat.ltb k base then option_map gen_rule (nth_error G k)
  else if Nat.eqb k skip_closure then Some gen_skip
  else if Nat.ltb k (fixed_closure 0) then None
  else if Nat.ltb k (unicode_closure 0) then option_map snd (nth_error (fixed_builtins eoi_id) (k - fixed_closure 0))
  else option_map (fun x => PPrim (MMatchCharBy (snd x))) (nth_error U (k - unicode_closure 0)).

(* `match rule { Rule::r => rules::r(state), ... }` inside ::pest::state *)
Definition gen_start (r : name) : prog := gen_call r.

End Gen.
