(* C02 proofs, part 5: for every optimized grammar in class H the generated parser (gen_env) and the
   VM (vm_env) are in simulation: from related states, every rule, every expression in either
   compilation mode, every start symbol.                                                      *)
From Coq Require Import List Arith NArith ZArith Bool String Ascii Lia.
Import ListNotations.
Require Import PV.Stack.Model PV.Stack.Proofs PV.Comb.PState PV.Comb.Bytes PV.Comb.Prog PV.Comb.Exec
               PV.Comb.Frame PV.Comb.Contracts PV.Comb.CallLimit PV.Peg.Ast PV.Peg.VmCompile
               PV.Gen.GenCompile PV.Gen.ClassH PV.Gen.Lookup PV.Gen.Rel PV.Gen.Cong PV.Gen.Laws PV.Gen.Clean.

Arguments Nat.sub : simpl never.
Arguments Nat.ltb : simpl never.
Arguments Nat.leb : simpl never.
Arguments Nat.eqb : simpl never.

(* ---------- the hard-coded names ---------- *)
Lemma ulookup_uindex U n : forall k,
  match ulookup U n, uindex U n k with
  | Some rs, Some j => k <= j /\ exists x, nth_error U (j - k) = Some (x, rs)
  | None, None => True
  | _, _ => False
  end.
Proof.
  induction U as [|[x rs] r IH]; intros k; cbn; auto.
  destruct (str_eqb x n).
  - split; [lia|]. exists x. rewrite Nat.sub_diag. reflexivity.
  - specialize (IH (S k)). destruct (ulookup r n), (uindex r n (S k)) as [j|]; auto.
    destruct IH as (H1 & y & H2). split; [lia|]. exists y. replace (j - k) with (S (j - S k)) by lia. exact H2.
Qed.

Section Equiv.
Variable cfg : config.
Variable G : ogrammar.
Variable U : utable.
Variable extras : bool.
Hypothesis HH : in_H G extras = true.

Let ur := ulookup U.
Let Eg := gen_env G U.
Let Ev := vm_env G ur.
Let C := cleanset G.
Notation simgv := (sim cfg Eg Ev).
Notation gx := (gen_expr G U).
Notation ga := (gen_expr_atomic G U).
Notation vx := (vm_expr G ur).
Notation vsk := (vm_skip G ur).

Lemma HC : consistent G C = true.
Proof. unfold in_H in HH. apply andb_prop in HH. tauto. Qed.
Lemma HR r : In r G -> rule_in_H G extras r = true.
Proof. unfold in_H in HH. apply andb_prop in HH. destruct HH as [_ H]. rewrite forallb_forall in H. apply H. Qed.

(* ---------- the closure table of the generated module ---------- *)
Lemma Eg_skip : Eg (skip_closure G) = Some (gen_skip G).
Proof.
  unfold Eg, gen_env, skip_closure, base. destruct (Nat.ltb_spec (List.length G + 2) (List.length G)); [lia|].
  rewrite Nat.eqb_refl. reflexivity.
Qed.
Lemma Eg_undef : Eg (undefined_closure G) = None.
Proof.
  unfold Eg, gen_env, undefined_closure, skip_closure, fixed_closure, base.
  destruct (Nat.ltb_spec (S (List.length G)) (List.length G)); [lia|].
  destruct (Nat.eqb_spec (S (List.length G)) (List.length G + 2)); [lia|].
  destruct (Nat.ltb_spec (S (List.length G)) (List.length G + 3 + 0)); [reflexivity|lia].
Qed.
Lemma Eg_fixed i x : nth_error (fixed_builtins (eoi_id G)) i = Some x -> Eg (fixed_closure G i) = Some (snd x).
Proof.
  intros H. assert (Hi : i < n_fixed).
  { change n_fixed with (List.length (fixed_builtins (eoi_id G))). apply nth_error_Some. congruence. }
  unfold Eg, gen_env, skip_closure, fixed_closure, unicode_closure, base.
  destruct (Nat.ltb_spec (List.length G + 3 + i) (List.length G)); [lia|].
  destruct (Nat.eqb_spec (List.length G + 3 + i) (List.length G + 2)); [lia|].
  destruct (Nat.ltb_spec (List.length G + 3 + i) (List.length G + 3 + 0)); [lia|].
  destruct (Nat.ltb_spec (List.length G + 3 + i) (List.length G + 3 + n_fixed + 0)); [|lia].
  replace (List.length G + 3 + i - (List.length G + 3 + 0)) with i by lia. rewrite H. reflexivity.
Qed.
Lemma Eg_unicode j x : nth_error U j = Some x -> Eg (unicode_closure G j) = Some (PPrim (MMatchCharBy (snd x))).
Proof.
  intros H. unfold Eg, gen_env, skip_closure, fixed_closure, unicode_closure, base.
  destruct (Nat.ltb_spec (List.length G + 3 + n_fixed + j) (List.length G)); [lia|].
  destruct (Nat.eqb_spec (List.length G + 3 + n_fixed + j) (List.length G + 2)); [lia|].
  destruct (Nat.ltb_spec (List.length G + 3 + n_fixed + j) (List.length G + 3 + 0)); [lia|].
  destruct (Nat.ltb_spec (List.length G + 3 + n_fixed + j) (List.length G + 3 + n_fixed + 0)); [lia|].
  replace (List.length G + 3 + n_fixed + j - (List.length G + 3 + n_fixed + 0)) with j by lia. rewrite H. reflexivity.
Qed.
Lemma Ev_undef : Ev (S (List.length G)) = None.
Proof.
  unfold Ev, vm_env. replace (nth_error G (S (List.length G))) with (@None orule); [reflexivity|].
  symmetry. apply nth_error_None. lia.
Qed.

(* programs without calls are related to themselves across the two environments *)
Ltac closed := repeat first [apply sim_prim | apply cong_else' | apply cong_rule'].

Definition Calls (n : nat) : Prop :=
  forall k r, nth_error G k = Some r -> simgv false n (gen_rule G U r) (vm_rule_body G ur r).

(* ---------- `self::name(state)` against parse_rule(name) ---------- *)
Lemma sim_call A n x : Calls n -> simgv A (S n) (gen_call G U x) (vm_call G ur x).
Proof.
  intros HCalls. unfold gen_call.
  destruct (has_orule G x) eqn:Ho.
  - (* a user rule: both back-ends look the user's rules up first (shadowing of built-ins included) *)
    destruct (has_orule_first G x Ho) as (r & Er & _).
    assert (Ev' : vm_call G ur x = PCall (orule_id G x)) by (unfold vm_call; rewrite Ho; reflexivity).
    rewrite Ev'. eapply cong_call; [apply gen_env_at; exact Er|apply vm_env_at; exact Er|].
    destruct A; [apply sim_weaken|]; apply (HCalls _ _ Er).
  - unfold vm_call, prim_range, fixed_builtins, rng. rewrite Ho. cbn [bindex].
    repeat match goal with |- simgv _ _ _ (if str_eqb x ?b then _ else _) =>
      rewrite (str_eqb_sym x b); destruct (str_eqb b x);
      [eapply cong_call_left'; [apply Eg_fixed; reflexivity|cbn [snd]; closed]|] end.
    pose proof (ulookup_uindex U x 0) as X. fold ur in X.
    destruct (ur x) as [rs|], (uindex U x 0) as [j|]; try contradiction.
    + destruct X as (_ & y & Hy). rewrite Nat.sub_0_r in Hy.
      eapply cong_call_left'; [apply Eg_unicode; exact Hy|apply sim_prim].
    + apply cong_call_none; [apply Eg_undef|apply Ev_undef].
Qed.

(* ---------- the implicit skip ---------- *)
Lemma vm_call_special x : has_orule G x = true -> vm_call G ur x = PCall (orule_id G x).
Proof. intros Ho. unfold vm_call. rewrite Ho. reflexivity. Qed.

Lemma sim_rule_call A n x : Calls n -> has_orule G x = true -> simgv A (S n) (PCall (orule_id G x)) (PCall (orule_id G x)).
Proof.
  intros HCalls Ho. destruct (has_orule_first G x Ho) as (r & Er & _).
  eapply cong_call; [apply gen_env_at; exact Er|apply vm_env_at; exact Er|].
  destruct A; [apply sim_weaken|]; apply (HCalls _ _ Er).
Qed.

Lemma sim_skip A n : Calls n -> simgv A (S n) (call_skip G) vsk.
Proof.
  intros HCalls. eapply cong_call_left'; [apply Eg_skip|].
  unfold gen_skip, vm_skip.
  destruct (has_orule G (nm "WHITESPACE")) eqn:Hw, (has_orule G (nm "COMMENT")) eqn:Hc;
    rewrite ?(vm_call_special (nm "WHITESPACE") Hw), ?(vm_call_special (nm "COMMENT") Hc).
  - apply cong_ifna'; [|apply sim_prim]. apply cong_seq', cong_then'; [apply cong_rep', sim_rule_call; auto|].
    apply cong_rep', cong_seq', cong_then'; [apply sim_rule_call; auto|apply cong_rep', sim_rule_call; auto].
  - apply cong_ifna'; [|apply sim_prim]. apply cong_rep', sim_rule_call; auto.
  - apply cong_ifna'; [|apply sim_prim]. apply cong_rep', sim_rule_call; auto.
  - apply sim_prim.
Qed.

Lemma vsk_id : skip_id cfg Ev vsk.
Proof.
  intros s HA. split; [discriminate|]. exists 2. unfold vm_skip.
  assert (X : atom_eqb (atomicity s) NonAtomic = false) by (destruct (atomicity s); auto; congruence).
  destruct (has_orule G (nm "WHITESPACE")), (has_orule G (nm "COMMENT")); cbn [exec exec_prim]; rewrite ?X; reflexivity.
Qed.

(* in atomic mode the VM's skip between two elements does nothing *)
Lemma skip_right n p q : simgv true n p q -> simgv true n p (PAndThen q vsk).
Proof.
  intros H f s t Hf R HA Hne. destruct (H f s t Hf R HA Hne) as [f1 Hr].
  destruct (r_it _ _ R) as [b Ib].
  assert (At : atomicity t <> NonAtomic) by (rewrite (srel_at _ _ R); apply HA; reflexivity).
  assert (Hq : runs cfg Ev q t (exec cfg Ev f1 q t)) by (split; [eapply rrel_nofuel; eauto|eauto]).
  destruct (then_skip_r cfg Ev vsk q t _ b vsk_id (srel_wft _ _ R) Ib At Hq) as [_ [f2 E2]].
  exists f2. rewrite E2. exact Hr.
Qed.
Lemma skip_left n p q : simgv true n p q -> simgv true n p (PAndThen vsk q).
Proof.
  intros H f s t Hf R HA Hne. destruct (H f s t Hf R HA Hne) as [f1 Hr].
  assert (At : atomicity t <> NonAtomic) by (rewrite (srel_at _ _ R); apply HA; reflexivity).
  assert (Hq : runs cfg Ev q t (exec cfg Ev f1 q t)) by (split; [eapply rrel_nofuel; eauto|eauto]).
  destruct (then_skip_l cfg Ev vsk q t _ vsk_id At Hq) as [_ [f2 E2]].
  exists f2. rewrite E2. exact Hr.
Qed.

(* ---------- expressions, in either compilation mode ---------- *)
Definition gm (A : bool) : oexpr -> prog := if A then ga else gx.
Definition lm (A : bool) : prog -> prog -> prog := if A then PAndThen else link_skip G.
Definition okm (A : bool) (e : oexpr) : Prop :=
  subexprs_ok tag_ok e = true /\ (A = true -> subexprs_ok (rep_ok G C) e = true).

Definition T (A : bool) (N : nat) (e : oexpr) : Prop :=
  simgv A N (gm A e) (vx e) /\
  (forall ag av, simgv A N ag av -> simgv A N (seq_chain (gm A) (lm A) ag e) (seq_chain vx (linkv vsk) av e)) /\
  (forall ag av, simgv A N ag av -> simgv A N (cho_chain (gm A) POrElse ag e) (cho_chain vx POrElse av e)).

Lemma okm1 A (p : oexpr -> oexpr) x :
  (forall q, subexprs_ok q (p x) = q (p x) && subexprs_ok q x) -> okm A (p x) -> okm A x.
Proof.
  intros Hp [H1 H2]. rewrite Hp in H1. apply andb_prop in H1. split; [tauto|].
  intros M. specialize (H2 M). rewrite Hp in H2. apply andb_prop in H2. tauto.
Qed.
Lemma okm2 A (p : oexpr -> oexpr -> oexpr) x y :
  (forall q, subexprs_ok q (p x y) = q (p x y) && (subexprs_ok q x && subexprs_ok q y)) -> okm A (p x y) -> okm A x /\ okm A y.
Proof.
  intros Hp [H1 H2]. rewrite Hp in H1. apply andb_prop in H1. destruct H1 as [_ H1]. apply andb_prop in H1.
  split; (split; [tauto|]); intros M; specialize (H2 M); rewrite Hp in H2; apply andb_prop in H2; destruct H2 as [_ H2];
    apply andb_prop in H2; tauto.
Qed.

Section Level.
Variable n : nat.
Hypothesis HCalls : Calls n.
Notation N := (S n).

Lemma link_sim A ag av x y : simgv A N ag av -> simgv A N x y -> simgv A N (lm A ag x) (linkv vsk av y).
Proof.
  intros H1 H2. unfold lm, linkv. destruct A.
  - apply cong_then'; [apply skip_right; exact H1|exact H2].
  - unfold link_skip. apply cong_then'; [apply cong_then'; [exact H1|apply sim_skip; exact HCalls]|exact H2].
Qed.

Definition not_seq (e : oexpr) : Prop := match e with OSeq _ _ => False | _ => True end.
Definition not_cho (e : oexpr) : Prop := match e with OChoice _ _ => False | _ => True end.

Lemma seq_leaf A e : not_seq e -> simgv A N (gm A e) (vx e) ->
  forall ag av, simgv A N ag av -> simgv A N (seq_chain (gm A) (lm A) ag e) (seq_chain vx (linkv vsk) av e).
Proof. intros Hn P ag av H. destruct e; try contradiction; cbn [seq_chain]; apply link_sim; auto. Qed.
Lemma cho_leaf A e : not_cho e -> simgv A N (gm A e) (vx e) ->
  forall ag av, simgv A N ag av -> simgv A N (cho_chain (gm A) POrElse ag e) (cho_chain vx POrElse av e).
Proof. intros Hn P ag av H. destruct e; try contradiction; cbn [cho_chain]; apply cong_else'; auto. Qed.
Lemma T_leaf A e : not_seq e -> not_cho e -> simgv A N (gm A e) (vx e) -> T A N e.
Proof. intros H1 H2 P. split; [exact P|]. split; [now apply seq_leaf|now apply cho_leaf]. Qed.

Lemma clean_of x : fail_clean G C x = true -> fails_clean cfg Ev (vx x).
Proof.
  intros Hc s s' a W I L _ [_ [f Ef]].
  destruct (vm_clean cfg G ur C HC f true x (fun _ => Hc) f s s' a (le_n _) W I L Ef) as (A1 & A2 & A3).
  split; [exact A1|]. split; [|apply A3; reflexivity].
  rewrite <- (untagq_length (queue s')), <- (untagq_length (queue s)), A2. reflexivity.
Qed.

Lemma gen_tag_general x t : tag_ok (ONodeTag x t) = true ->
  gx (ONodeTag x t) = PAndThen (gx x) (tagp t) /\ ga (ONodeTag x t) = PAndThen (ga x) (tagp t).
Proof. destruct x; cbn; intros H; try discriminate H; split; reflexivity. Qed.

Lemma expr_sim : forall e A, okm A e -> T A N e.
Proof.
  induction e; intros A Hok.
  - apply T_leaf; cbn; auto. destruct A; apply sim_prim.
  - apply T_leaf; cbn; auto. destruct A; apply sim_prim.
  - apply T_leaf; cbn; auto. destruct A; apply sim_prim.
  - apply T_leaf; cbn; auto. destruct A; apply sim_call; exact HCalls.
  - apply T_leaf; cbn; auto. destruct A; apply sim_prim.
  - (* OPosPred *) destruct (IHe A (okm1 A OPosPred e (fun q => eq_refl) Hok)) as (P & _).
    apply T_leaf; cbn; auto. destruct A; apply cong_look'; exact P.
  - (* ONegPred *) destruct (IHe A (okm1 A ONegPred e (fun q => eq_refl) Hok)) as (P & _).
    apply T_leaf; cbn; auto. destruct A; apply cong_look'; exact P.
  - (* OSeq *) destruct (okm2 A OSeq e1 e2 (fun q => eq_refl) Hok) as [O1 O2].
    destruct (IHe1 A O1) as (P1 & _). destruct (IHe2 A O2) as (_ & S2 & _).
    assert (P : simgv A N (gm A (OSeq e1 e2)) (vx (OSeq e1 e2))).
    { eapply sim_trans with (q := PSequence (seq_chain vx (linkv vsk) (vx e1) e2)).
      - replace (gm A (OSeq e1 e2)) with (PSequence (seq_chain (gm A) (lm A) (gm A e1) e2)) by (destruct A; reflexivity).
        apply cong_seq'. apply S2. exact P1.
      - apply eqv_sim. apply (seq_flat cfg Ev vx vsk (fun l r => eq_refl)). }
    split; [exact P|]. split; [|now apply cho_leaf].
    intros ag av H. cbn [seq_chain]. apply S2. apply link_sim; auto.
  - (* OChoice *) destruct (okm2 A OChoice e1 e2 (fun q => eq_refl) Hok) as [O1 O2].
    destruct (IHe1 A O1) as (P1 & _). destruct (IHe2 A O2) as (_ & _ & C2).
    assert (P : simgv A N (gm A (OChoice e1 e2)) (vx (OChoice e1 e2))).
    { eapply sim_trans with (q := cho_chain vx POrElse (vx e1) e2).
      - replace (gm A (OChoice e1 e2)) with (cho_chain (gm A) POrElse (gm A e1) e2) by (destruct A; reflexivity).
        apply C2. exact P1.
      - apply eqv_sim. apply (cho_flat cfg Ev vx (fun l r => eq_refl)). }
    split; [exact P|]. split; [now apply seq_leaf|].
    intros ag av H. cbn [cho_chain]. apply C2. apply cong_else'; auto.
  - (* OOpt *) destruct (IHe A (okm1 A OOpt e (fun q => eq_refl) Hok)) as (P & _).
    apply T_leaf; cbn; auto. destruct A; apply cong_opt'; exact P.
  - (* ORep *) destruct (IHe A (okm1 A ORep e (fun q => eq_refl) Hok)) as (P & _).
    apply T_leaf; cbn; auto. destruct A.
    + (* atomic: repeat(x) against the VM's nest *)
      eapply sim_trans with (q := PRepeat (vx e)); [apply cong_rep'; exact P|].
      apply eqv_sim. apply (rep_atomic cfg Ev (vx e) vsk vsk_id). apply clean_of.
      destruct Hok as [_ H2]. specialize (H2 eq_refl). cbn in H2. apply andb_prop in H2. tauto.
    + cbn [gm gen_expr vm_expr]. apply cong_seq', cong_opt', cong_then'; [exact P|].
      apply cong_rep', cong_seq', cong_then'; [apply sim_skip; exact HCalls|exact P].
  - (* ORepOnce *) destruct (IHe A (okm1 A ORepOnce e (fun q => eq_refl) Hok)) as (P & _).
    apply T_leaf; cbn; auto. destruct A.
    + cbn [gm gen_expr_atomic vm_expr]. apply cong_seq', cong_then'; [exact P|].
      apply cong_rep', cong_seq'. apply skip_left. exact P.
    + cbn [gm gen_expr vm_expr]. apply cong_seq', cong_then'; [exact P|].
      apply cong_rep', cong_seq', cong_then'; [apply sim_skip; exact HCalls|exact P].
  - apply T_leaf; cbn; auto. destruct A; apply sim_prim.
  - (* OPush *) destruct (IHe A (okm1 A OPush e (fun q => eq_refl) Hok)) as (P & _).
    apply T_leaf; cbn; auto. destruct A; apply cong_push'; exact P.
  - apply T_leaf; cbn; auto. destruct A; apply sim_prim.
  - (* ONodeTag *) destruct (IHe A (okm1 A (fun x => ONodeTag x t) e (fun q => eq_refl) Hok)) as (P & _).
    assert (Tg : tag_ok (ONodeTag e t) = true).
    { destruct Hok as [H1 _]. cbn [subexprs_ok] in H1. apply andb_prop in H1. tauto. }
    destruct (gen_tag_general e t Tg) as [E1 E2].
    apply T_leaf; cbn [not_seq not_cho]; auto. unfold gm. destruct A; [rewrite E2|rewrite E1]; cbn [vm_expr];
      (apply cong_then'; [exact P|apply sim_prim]).
  - (* ORestoreOnErr *) destruct (IHe A (okm1 A ORestoreOnErr e (fun q => eq_refl) Hok)) as (P & _).
    apply T_leaf; cbn; auto. destruct A; apply cong_roe'; exact P.
Qed.

End Level.

(* ---------- rules ---------- *)
Lemma subexprs_ok_impl (p q : oexpr -> bool) : (forall e, p e = true -> q e = true) ->
  forall e, subexprs_ok p e = true -> subexprs_ok q e = true.
Proof.
  intros Hpq. induction e; cbn [subexprs_ok]; intros H; apply andb_prop in H; destruct H as [H1 H2];
    apply andb_true_intro; (split; [now apply Hpq|]); auto;
    apply andb_prop in H2; destruct H2; apply andb_true_intro; auto.
Qed.

Lemma rule_sim n : Calls n -> Calls (S n).
Proof.
  intros HCalls k r Er.
  pose proof (HR r (nth_error_In _ _ Er)) as X. unfold rule_in_H in X.
  apply andb_prop in X. destruct X as [X X4]. apply andb_prop in X. destruct X as [X2 X3].
  assert (Tg : subexprs_ok tag_ok (oexpr_of r) = true).
  { eapply subexprs_ok_impl; [|exact X3]. intros e. destruct extras; auto. destruct e; cbn; try discriminate; auto. }
  assert (Pn : simgv false (S n) (gx (oexpr_of r)) (vx (oexpr_of r))).
  { apply (expr_sim n HCalls (oexpr_of r) false). split; [exact Tg|discriminate]. }
  assert (Pa : atomic_compiled r = true -> simgv true (S n) (ga (oexpr_of r)) (vx (oexpr_of r))).
  { intros Ac. rewrite Ac in X4. apply (expr_sim n HCalls (oexpr_of r) true). split; [exact Tg|intros _; exact X4]. }
  unfold atomic_compiled in Pa.
  unfold gen_rule, vm_rule_body.
  destruct (oty r) eqn:Ety, (is_special_name (oname r)) eqn:Esp; cbn [is_atomic_ty orb] in *;
    try discriminate X2;
    repeat first [ apply cong_rule'
                 | apply (cong_atomic' cfg Eg Ev false true); [discriminate|]
                 | apply (cong_atomic' cfg Eg Ev false false); [discriminate|]
                 | apply (cong_atomic' cfg Eg Ev true true); [discriminate|]
                 | exact Pn | apply Pa; reflexivity ].
Qed.

Lemma all_calls : forall n, Calls n.
Proof. induction n as [|n IH]; [intros k r _; apply sim_zero|now apply rule_sim]. Qed.

Theorem start_sim : forall n x, simgv false n (gen_start G U x) (vm_start G ur x).
Proof.
  intros [|n] x; [apply sim_zero|]. apply sim_call. apply all_calls.
Qed.

End Equiv.

(* ---------- what is observed of a result ---------- *)
Inductive obsr :=
| ObsOk (p : nat) (q : list qtoken) (st : list (list byte)) (ap : nat) (pa na : list nat)
| ObsErr (p : nat) (q : list qtoken) (st : list (list byte)) (ap : nat) (pa na : list nat)
| ObsPanic (k : pkind)
| ObsFuel.
Definition obs (r : res) : obsr :=
  match r with
  | ROk s => ObsOk (pos s) (queue s) (cache (stack s)) (attempt_pos s) (pos_attempts s) (neg_attempts s)
  | RErr s => ObsErr (pos s) (queue s) (cache (stack s)) (attempt_pos s) (pos_attempts s) (neg_attempts s)
  | RPanic k => ObsPanic k
  | ROutOfFuel => ObsFuel
  end.

Lemma rrel_obs r r' : rrel r r' -> obs r = obs r'.
Proof.
  destruct r as [s|s|k|], r' as [t|t|k'|]; cbn; try contradiction; try congruence;
    intros (st & -> & Cc & _); fields; rewrite Cc; reflexivity.
Qed.
Lemma rrel_outcome cfg r r' : rrel r r' -> outcome_of cfg r = outcome_of cfg r'.
Proof.
  destruct r as [s|s|k|], r' as [t|t|k'|]; cbn [rrel outcome_of]; try contradiction; try congruence;
    intros (st & -> & Cc & _ & _ & _ & L); unfold limit_reached; fields; rewrite L; rewrite ?andb_false_r; reflexivity.
Qed.

(* the two back-ends, run from the initial state of ::pest::state without a call limit *)
Theorem gen_vm_agree cfg G U extras : in_H G extras = true ->
  forall x inp detail f1 f2,
    let rg := exec cfg (gen_env G U) f1 (gen_start G U x) (init inp None detail) in
    let rv := exec cfg (vm_env G (ulookup U)) f2 (vm_start G (ulookup U) x) (init inp None detail) in
    rg <> ROutOfFuel ->
    (exists f, exec cfg (vm_env G (ulookup U)) f (vm_start G (ulookup U) x) (init inp None detail) <> ROutOfFuel) /\
    (rv <> ROutOfFuel -> rrel rg rv).
Proof.
  intros HH x inp detail f1 f2 rg rv Hg.
  assert (R0 : srel (init inp None detail) (init inp None detail)).
  { eapply srel_refl; [unfold wf; cbn; lia|cbn; apply (@inv_empty (list byte))|reflexivity]. }
  destruct (start_sim cfg G U extras HH f1 x f1 _ _ (le_n _) R0 (fun X => ltac:(discriminate X)) Hg) as [f' Hr].
  split; [exists f'; eapply rrel_nofuel; exact Hr|].
  intros Hv. unfold rv. rewrite (exec_fuel_irrelevant cfg _ f2 f' _ _ Hv (rrel_nofuel _ _ Hr)). exact Hr.
Qed.
