(* Optional cross-check for C14 (built when the C05 development compiles): the Gallina model of the optimizer
   (PV.Opt.Pipeline.optimize, overflow checks on, grammar-extras off, with the two repairs of /repo applied) maps the INDEPENDENTLY translated
   meta/src/grammar.pest (tools/pest2v.py -> gen/MetaGrammar.v) to exactly the optimized rules the REAL
   optimizer printed on this run (gen/MetaOpt.v).                                               *)
From Coq Require Import List NArith ZArith String.
Require Import PV.Peg.Ast PV.Opt.Pipeline PV.gen.MetaGrammar PV.gen.MetaOpt.
Example meta_opt_is_optimize : optimize true false true true meta_grammar = Some meta_opt.
Proof. vm_compute. reflexivity. Qed.
