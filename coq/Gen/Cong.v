(* C02 proofs, part 2: simulation between two closure environments, and its congruence for every
   combinator of Layer C.  `sim A n p q`: from related states, whenever `p` under E1 terminates
   within fuel n, `q` under E2 terminates in a related result.  A = true restricts the claim to
   atomic states (atomicity <> NonAtomic).                                                     *)
From Coq Require Import List Arith NArith ZArith Bool Lia.
Import ListNotations.
Require Import PV.Stack.Model PV.Stack.Proofs PV.Comb.PState PV.Comb.Bytes PV.Comb.Prog PV.Comb.Exec
               PV.Comb.Frame PV.Comb.Contracts PV.Comb.CallLimit PV.Gen.Rel.

Arguments Nat.sub : simpl never.
Arguments Nat.ltb : simpl never.
Arguments Nat.leb : simpl never.
Arguments Nat.eqb : simpl never.
Arguments skipn : simpl never.
Arguments firstn : simpl never.

Section Cong.
Variable cfg : config.
Variable E1 E2 : env.

Definition amode (A : bool) (s : pst) : Prop := A = true -> atomicity s <> NonAtomic.

Definition sim (A : bool) (n : nat) (p q : prog) : Prop :=
  forall f s t, f <= n -> srel s t -> amode A s -> exec cfg E1 f p s <> ROutOfFuel ->
    exists f', rrel (exec cfg E1 f p s) (exec cfg E2 f' q t).

Lemma sim_le A n m p q : m <= n -> sim A n p q -> sim A m p q.
Proof. intros Hle H f s t Hf. apply H. lia. Qed.
Lemma sim_weaken n p q : sim false n p q -> sim true n p q.
Proof. intros H f s t Hf R _. apply H; auto. intros X; discriminate X. Qed.

Lemma rrel_nofuel r r' : rrel r r' -> r' <> ROutOfFuel.
Proof. destruct r, r'; cbn; intros H; try contradiction; discriminate. Qed.

(* more fuel on the right keeps the relation *)
Lemma rrel_more r f f' q t : rrel r (exec cfg E2 f q t) -> f <= f' -> rrel r (exec cfg E2 f' q t).
Proof. intros H Hle. rewrite (exec_mono cfg E2 f f' q t Hle (rrel_nofuel _ _ H)). exact H. Qed.

Ltac start f Hne := destruct f as [|f]; [exfalso; apply Hne; reflexivity|].

(* the hygiene of a related pair *)
Ltac hyg R W Wt a Ia b Ib L L2 :=
  pose proof (r_wf _ _ R) as W; pose proof (srel_wft _ _ R) as Wt;
  destruct (r_is _ _ R) as [a Ia]; destruct (r_it _ _ R) as [b Ib];
  pose proof (r_lim _ _ R) as L; pose proof (srel_limt _ _ R) as L2.

Lemma amode_frame A s s' : amode A s -> atomicity s' = atomicity s -> amode A s'.
Proof. unfold amode. intros H E X. rewrite E. auto. Qed.

(* ---------- sequence ---------- *)
Lemma cong_seq A n p q : sim A n p q -> sim A (S n) (PSequence p) (PSequence q).
Proof.
  intros H f s t Hf R HA Hne. start f Hne. hyg R W Wt a Ia b Ib L L2.
  pose proof (srel_checkpoint _ _ R) as R1.
  assert (Hi : exec cfg E1 f p (checkpoint s) <> ROutOfFuel).
  { intros X. apply Hne. cbn [exec]. rewrite (inc_call_none s L), X. reflexivity. }
  destruct (H f _ _ ltac:(lia) R1 ltac:(eapply amode_frame; [exact HA|reflexivity]) Hi) as [f' Hr].
  exists (S f').
  eapply (rrel_of_core s a t b); [exact L|now apply exec_post|now apply exec_post|].
  cbn [exec]. rewrite (inc_call_none s L), (inc_call_none t L2).
  assert (W1 : wf (checkpoint s)) by exact W. assert (W2 : wf (checkpoint t)) by exact Wt.
  pose proof (exec_post cfg E1 f p (checkpoint s) (ssnapshot a) W1 (inv_snapshot Ia)) as P1.
  pose proof (exec_post cfg E2 f' q (checkpoint t) (ssnapshot b) W2 (inv_snapshot Ib)) as P2.
  destruct (exec cfg E1 f p (checkpoint s)) as [s'|s'|k|], (exec cfg E2 f' q (checkpoint t)) as [t'|t'|k'|];
    cbn in Hr; try contradiction.
  - apply clear_core; auto.
  - cbn in P1, P2. destruct P1 as (_ & _ & a' & Ia' & Sa), P2 as (_ & _ & b' & Ib' & Sb).
    destruct R as (st & -> & C & _), Hr as (st' & -> & C' & _). fields. fields_in Ib'. fields_in Ib.
    change (set_queue (set_pos (sw st' s') ?p) ?q) with (sw st' (set_queue (set_pos s' p) q)).
    eapply (restore_core RErr (or_intror (fun x => eq_refl))) with (a := a') (b := b'); fields; auto.
    + rewrite Sa. cbn. reflexivity.
    + rewrite Sb. cbn. rewrite <- (inv_cache' _ _ Ia), <- (inv_cache' _ _ Ib), C. reflexivity.
  - exact Hr.
Qed.

(* the inner run of a unary combinator cannot be out of fuel when the whole is not *)
Ltac inner Hne L := let X := fresh "X" in intros X; apply Hne; cbn [exec]; rewrite ?(inc_call_none _ L), X; reflexivity.

Lemma frame_amode A s s' : amode A s -> frame s s' -> amode A s'.
Proof. intros H F. eapply amode_frame; [exact H|apply (f_at _ _ F)]. Qed.

(* ---------- primitives ---------- *)
Lemma sim_prim A n o : sim A n (PPrim o) (PPrim o).
Proof.
  intros f s t Hf R HA Hne. start f Hne. hyg R W Wt a Ia b Ib L L2. exists 1.
  eapply (rrel_of_core s a t b); [exact L|now apply exec_post|now apply exec_post|].
  cbn [exec]. destruct R as (st & -> & C & _). now apply exec_prim_core.
Qed.

(* ---------- optional ---------- *)
Lemma cong_opt A n p q : sim A n p q -> sim A (S n) (POptional p) (POptional q).
Proof.
  intros H f s t Hf R HA Hne. start f Hne. hyg R W Wt a Ia b Ib L L2.
  assert (Hi : exec cfg E1 f p s <> ROutOfFuel) by inner Hne L.
  destruct (H f _ _ ltac:(lia) R HA Hi) as [f' Hr]. exists (S f').
  cbn [exec]. rewrite (inc_call_none s L), (inc_call_none t L2).
  destruct (exec cfg E1 f p s) as [s'|s'|k|], (exec cfg E2 f' q t) as [t'|t'|k'|]; cbn in Hr; try contradiction; exact Hr.
Qed.

(* ---------- and_then / or_else ---------- *)
Lemma cong_then A n p1 q1 p2 q2 : sim A n p1 q1 -> sim A n p2 q2 -> sim A (S n) (PAndThen p1 p2) (PAndThen q1 q2).
Proof.
  intros H1 H2 f s t Hf R HA Hne. start f Hne. hyg R W Wt a Ia b Ib L L2.
  assert (Hi : exec cfg E1 f p1 s <> ROutOfFuel) by inner Hne L.
  destruct (H1 f _ _ ltac:(lia) R HA Hi) as [f1 Hr].
  pose proof (exec_post cfg E1 f p1 s a W Ia) as P1.
  cbn [exec] in Hne |- *.
  destruct (exec cfg E1 f p1 s) as [s'|s'|k|] eqn:Eg.
  - destruct (exec cfg E2 f1 q1 t) as [t'|t'|k'|] eqn:Ev; cbn in Hr; try contradiction.
    destruct P1 as (F & _).
    destruct (H2 f _ _ ltac:(lia) Hr (frame_amode _ _ _ HA F) Hne) as [f2 Hr2].
    exists (S (Nat.max f1 f2)). cbn [exec].
    rewrite (exec_mono cfg E2 f1 (Nat.max f1 f2) q1 t ltac:(lia)) by (rewrite Ev; discriminate). rewrite Ev.
    apply (rrel_more _ f2); [exact Hr2|lia].
  - exists (S f1). cbn [exec]. destruct (exec cfg E2 f1 q1 t); cbn in Hr; try contradiction; exact Hr.
  - exists (S f1). cbn [exec]. destruct (exec cfg E2 f1 q1 t); cbn in Hr; try contradiction; exact Hr.
  - contradiction.
Qed.

Lemma cong_else A n p1 q1 p2 q2 : sim A n p1 q1 -> sim A n p2 q2 -> sim A (S n) (POrElse p1 p2) (POrElse q1 q2).
Proof.
  intros H1 H2 f s t Hf R HA Hne. start f Hne. hyg R W Wt a Ia b Ib L L2.
  assert (Hi : exec cfg E1 f p1 s <> ROutOfFuel) by inner Hne L.
  destruct (H1 f _ _ ltac:(lia) R HA Hi) as [f1 Hr].
  pose proof (exec_post cfg E1 f p1 s a W Ia) as P1.
  cbn [exec] in Hne |- *.
  destruct (exec cfg E1 f p1 s) as [s'|s'|k|] eqn:Eg.
  - exists (S f1). cbn [exec]. destruct (exec cfg E2 f1 q1 t); cbn in Hr; try contradiction; exact Hr.
  - destruct (exec cfg E2 f1 q1 t) as [t'|t'|k'|] eqn:Ev; cbn in Hr; try contradiction.
    destruct P1 as (F & _).
    destruct (H2 f _ _ ltac:(lia) Hr (frame_amode _ _ _ HA F) Hne) as [f2 Hr2].
    exists (S (Nat.max f1 f2)). cbn [exec].
    rewrite (exec_mono cfg E2 f1 (Nat.max f1 f2) q1 t ltac:(lia)) by (rewrite Ev; discriminate). rewrite Ev.
    apply (rrel_more _ f2); [exact Hr2|lia].
  - exists (S f1). cbn [exec]. destruct (exec cfg E2 f1 q1 t); cbn in Hr; try contradiction; exact Hr.
  - contradiction.
Qed.

(* ---------- if atomicity == NonAtomic ---------- *)
Lemma cong_ifna A n p1 q1 p2 q2 : sim A n p1 q1 -> sim A n p2 q2 -> sim A (S n) (PIfNonAtomic p1 p2) (PIfNonAtomic q1 q2).
Proof.
  intros H1 H2 f s t Hf R HA Hne. start f Hne.
  cbn [exec] in Hne |- *. pose proof (srel_at _ _ R) as Et.
  destruct (atom_eqb (atomicity s) NonAtomic) eqn:Ea.
  - destruct (H1 f _ _ ltac:(lia) R HA Hne) as [f1 Hr]. exists (S f1). cbn [exec]. rewrite Et, Ea. exact Hr.
  - destruct (H2 f _ _ ltac:(lia) R HA Hne) as [f1 Hr]. exists (S f1). cbn [exec]. rewrite Et, Ea. exact Hr.
Qed.

(* ---------- calls ---------- *)
Lemma cong_call A n k1 k2 p q : E1 k1 = Some p -> E2 k2 = Some q -> sim A n p q -> sim A (S n) (PCall k1) (PCall k2).
Proof.
  intros X1 X2 H f s t Hf R HA Hne. start f Hne. cbn [exec] in Hne |- *. rewrite X1 in *.
  destruct (H f _ _ ltac:(lia) R HA Hne) as [f1 Hr]. exists (S f1). cbn [exec]. rewrite X2. exact Hr.
Qed.
Lemma cong_call_none A n k1 k2 : E1 k1 = None -> E2 k2 = None -> sim A n (PCall k1) (PCall k2).
Proof.
  intros X1 X2 f s t Hf R HA Hne. start f Hne. exists 1. cbn [exec]. rewrite X1, X2. reflexivity.
Qed.
(* a closure on the left against the inlined body on the right *)
Lemma cong_call_left A n k p q : E1 k = Some p -> sim A n p q -> sim A (S n) (PCall k) q.
Proof.
  intros X1 H f s t Hf R HA Hne. start f Hne. cbn [exec] in Hne |- *. rewrite X1 in *.
  exact (H f _ _ ltac:(lia) R HA Hne).
Qed.

(* ---------- rule ---------- *)
Lemma srel_rule_enter s t : srel s t -> srel (snd (rule_enter s)) (snd (rule_enter t)) /\ fst (rule_enter t) = fst (rule_enter s).
Proof.
  intros (st & -> & C & W & Ia & Ib & L). rewrite rule_enter_sw. fields. split; [|reflexivity].
  destruct (rule_enter_spec s) as (_ & _ & _ & _ & _ & SQ).
  pose proof (q_stack _ _ SQ) as Q1. pose proof (q_pos _ _ SQ) as Q2. pose proof (q_input _ _ SQ) as Q3. pose proof (q_lim _ _ SQ) as Q4.
  exists st. repeat split; auto; try congruence.
  - unfold wf in *. congruence.
  - rewrite Q1. exact Ia.
Qed.

Lemma cong_rule A n r p q : sim A n p q -> sim A (S n) (PRule r p) (PRule r q).
Proof.
  intros H f s t Hf R HA Hne. start f Hne. hyg R W Wt a Ia b Ib L L2.
  destruct (srel_rule_enter _ _ R) as [R2 Efr].
  destruct (rule_enter s) as [fr s2] eqn:Es. destruct (rule_enter t) as [fr' t2] eqn:Et. cbn in R2, Efr. subst fr'.
  assert (A2 : amode A s2).
  { eapply amode_frame; [exact HA|]. destruct (rule_enter_spec s) as (_ & _ & _ & _ & _ & SQ). rewrite Es in SQ. apply (q_at _ _ SQ). }
  assert (Hi : exec cfg E1 f p s2 <> ROutOfFuel).
  { intros X. apply Hne. cbn [exec]. rewrite (inc_call_none s L), Es, X. reflexivity. }
  destruct (H f _ _ ltac:(lia) R2 A2 Hi) as [f' Hr]. exists (S f').
  eapply (rrel_of_core s a t b); [exact L|now apply exec_post|now apply exec_post|].
  cbn [exec]. rewrite (inc_call_none s L), (inc_call_none t L2), Es, Et.
  destruct (exec cfg E1 f p s2) as [s'|s'|k|], (exec cfg E2 f' q t2) as [t'|t'|k'|]; cbn in Hr; try contradiction.
  - destruct Hr as (st' & -> & C' & _). rewrite rule_ok_sw. apply (oblivious_core s'); auto. apply rule_ok_keeps.
  - destruct Hr as (st' & -> & C' & _). rewrite rule_err_sw. apply (oblivious_core s'); auto. apply rule_err_keeps.
  - exact Hr.
Qed.

(* ---------- atomic ---------- *)
Lemma atom_eqb_eq x y : atom_eqb x y = true -> x = y.
Proof. destruct x, y; cbn; congruence. Qed.

Lemma cong_atomic A Ain n a p q : (Ain = true -> a <> NonAtomic) -> sim Ain n p q -> sim A (S n) (PAtomic a p) (PAtomic a q).
Proof.
  intros Ha H f s t Hf R HA Hne. start f Hne. hyg R W Wt x Ia y Ib L L2.
  destruct R as (st & -> & C & _ & _ & _ & _).
  set (s2 := if negb (atom_eqb (atomicity s) a) then set_atomicity s a else s).
  assert (R2 : srel s2 (sw st s2)).
  { exists st. unfold s2. destruct (negb _); fields; repeat split; auto; try (exists x; exact Ia); exists y; exact Ib. }
  assert (A2 : amode Ain s2).
  { intros X. unfold s2. destruct (atom_eqb (atomicity s) a) eqn:Ea; cbn; [rewrite (atom_eqb_eq _ _ Ea)|]; auto. }
  assert (Hi : exec cfg E1 f p s2 <> ROutOfFuel).
  { intros X. apply Hne. cbn [exec]. rewrite (inc_call_none s L). fold s2. rewrite X. reflexivity. }
  destruct (H f _ _ ltac:(lia) R2 A2 Hi) as [f' Hr]. exists (S f').
  eapply (rrel_of_core s x (sw st s) y); [exact L|now apply exec_post|now apply exec_post|].
  cbn [exec]. rewrite (inc_call_none s L), (inc_call_none (sw st s) L2). fields. fold s2.
  replace (if negb (atom_eqb (atomicity s) a) then set_atomicity (sw st s) a else sw st s) with (sw st s2)
    by (unfold s2; destruct (negb _); reflexivity).
  destruct (exec cfg E1 f p s2) as [s'|s'|k|], (exec cfg E2 f' q (sw st s2)) as [t'|t'|k'|]; cbn in Hr; try contradiction.
  - destruct Hr as (st' & -> & C' & _). exists st'. destruct (negb _); fields; split; auto.
  - destruct Hr as (st' & -> & C' & _). exists st'. destruct (negb _); fields; split; auto.
  - exact Hr.
Qed.

(* ---------- look-ahead ---------- *)
Lemma cong_look A n b0 p q : sim A n p q -> sim A (S n) (PLookahead b0 p) (PLookahead b0 q).
Proof.
  intros H f s t Hf R HA Hne. start f Hne. hyg R W Wt a Ia b Ib L L2.
  destruct R as (st & -> & C & _ & _ & _ & _). fields_in Ib.
  set (s2 := set_lookahead s (enter_lookahead b0 (lookahead s))).
  assert (R2 : srel (checkpoint s2) (checkpoint (sw st s2))).
  { apply srel_checkpoint. exists st. unfold s2. fields. repeat split; auto; [exists a; exact Ia|exists b; exact Ib]. }
  assert (Hi : exec cfg E1 f p (checkpoint s2) <> ROutOfFuel).
  { intros X. apply Hne. cbn [exec]. rewrite (inc_call_none s L). fold s2. rewrite X. reflexivity. }
  destruct (H f _ _ ltac:(lia) R2 ltac:(eapply amode_frame; [exact HA|reflexivity]) Hi) as [f' Hr]. exists (S f').
  eapply (rrel_of_core s a (sw st s) b); [exact L|now apply exec_post|now apply exec_post|].
  cbn [exec]. rewrite (inc_call_none s L), (inc_call_none (sw st s) L2). fields. fold s2.
  change (set_lookahead (sw st s) ?l) with (sw st (set_lookahead s l)). fold s2.
  assert (W1 : wf (checkpoint s2)) by exact W. assert (W2 : wf (checkpoint (sw st s2))) by exact W.
  assert (I1 : Inv (stack (checkpoint s2)) (ssnapshot a)) by (apply inv_snapshot; exact Ia).
  assert (I2 : Inv (stack (checkpoint (sw st s2))) (ssnapshot b)) by (apply inv_snapshot; exact Ib).
  pose proof (exec_post cfg E1 f p (checkpoint s2) (ssnapshot a) W1 I1) as P1.
  pose proof (exec_post cfg E2 f' q (checkpoint (sw st s2)) (ssnapshot b) W2 I2) as P2.
  assert (Cab : cur b = cur a) by (rewrite <- (inv_cache' _ _ Ia), <- (inv_cache' _ _ Ib); exact C).
  destruct (exec cfg E1 f p (checkpoint s2)) as [s'|s'|k|], (exec cfg E2 f' q (checkpoint (sw st s2))) as [t'|t'|k'|];
    cbn in Hr; try contradiction.
  - cbn in P1, P2. destruct P1 as (_ & _ & a' & Ia' & Sa), P2 as (_ & _ & b' & Ib' & Sb).
    destruct Hr as (st' & -> & C' & _). fields_in Ib'.
    change (set_lookahead (set_pos (sw st' s') ?p) ?l) with (sw st' (set_lookahead (set_pos s' p) l)).
    destruct b0.
    + eapply (restore_core ROk (or_introl (fun x => eq_refl))) with (a := a') (b := b'); fields; auto;
        [rewrite Sa|rewrite Sb, Cab]; reflexivity.
    + eapply (restore_core RErr (or_intror (fun x => eq_refl))) with (a := a') (b := b'); fields; auto;
        [rewrite Sa|rewrite Sb, Cab]; reflexivity.
  - cbn in P1, P2. destruct P1 as (_ & _ & a' & Ia' & Sa), P2 as (_ & _ & b' & Ib' & Sb).
    destruct Hr as (st' & -> & C' & _). fields_in Ib'.
    change (set_lookahead (set_pos (sw st' s') ?p) ?l) with (sw st' (set_lookahead (set_pos s' p) l)).
    destruct b0.
    + eapply (restore_core RErr (or_intror (fun x => eq_refl))) with (a := a') (b := b'); fields; auto;
        [rewrite Sa|rewrite Sb, Cab]; reflexivity.
    + eapply (restore_core ROk (or_introl (fun x => eq_refl))) with (a := a') (b := b'); fields; auto;
        [rewrite Sa|rewrite Sb, Cab]; reflexivity.
  - exact Hr.
Qed.

(* ---------- stack_push ---------- *)
Lemma cong_push A n p q : sim A n p q -> sim A (S n) (PStackPush p) (PStackPush q).
Proof.
  intros H f s t Hf R HA Hne. start f Hne. hyg R W Wt a Ia b Ib L L2.
  assert (Hi : exec cfg E1 f p s <> ROutOfFuel) by inner Hne L.
  destruct (H f _ _ ltac:(lia) R HA Hi) as [f' Hr]. exists (S f').
  eapply (rrel_of_core s a t b); [exact L|now apply exec_post|now apply exec_post|].
  cbn [exec]. rewrite (inc_call_none s L), (inc_call_none t L2).
  destruct R as (st & -> & C & _). fields.
  destruct (exec cfg E1 f p s) as [s'|s'|k|], (exec cfg E2 f' q (sw st s)) as [t'|t'|k'|]; cbn in Hr; try contradiction.
  - destruct Hr as (st' & -> & C' & _). fields.
    destruct (Nat.ltb (pos s') (pos s)); [reflexivity|].
    exists (push st' (firstn (pos s' - pos s) (skipn (pos s) (input s')))). split; [reflexivity|].
    unfold push. simpl. f_equal. exact C'.
  - exact (core_of_srel _ _ Hr).
  - exact Hr.
Qed.

(* ---------- restore_on_err ---------- *)
Lemma cong_roe A n p q : sim A n p q -> sim A (S n) (PRestoreOnErr p) (PRestoreOnErr q).
Proof.
  intros H f s t Hf R HA Hne. start f Hne. hyg R W Wt a Ia b Ib L L2.
  pose proof (srel_checkpoint _ _ R) as R1.
  assert (Hi : exec cfg E1 f p (checkpoint s) <> ROutOfFuel) by inner Hne L.
  destruct (H f _ _ ltac:(lia) R1 ltac:(eapply amode_frame; [exact HA|reflexivity]) Hi) as [f' Hr].
  exists (S f').
  eapply (rrel_of_core s a t b); [exact L|now apply exec_post|now apply exec_post|].
  cbn [exec].
  assert (W1 : wf (checkpoint s)) by exact W. assert (W2 : wf (checkpoint t)) by exact Wt.
  pose proof (exec_post cfg E1 f p (checkpoint s) (ssnapshot a) W1 (inv_snapshot Ia)) as P1.
  pose proof (exec_post cfg E2 f' q (checkpoint t) (ssnapshot b) W2 (inv_snapshot Ib)) as P2.
  destruct (exec cfg E1 f p (checkpoint s)) as [s'|s'|k|], (exec cfg E2 f' q (checkpoint t)) as [t'|t'|k'|];
    cbn in Hr; try contradiction.
  - apply clear_core; auto.
  - cbn in P1, P2. destruct P1 as (_ & _ & a' & Ia' & Sa), P2 as (_ & _ & b' & Ib' & Sb).
    destruct R as (st & -> & C & _), Hr as (st' & -> & C' & _). fields_in Ib'. fields_in Ib.
    eapply (restore_core RErr (or_intror (fun x => eq_refl))) with (a := a') (b := b'); fields; auto.
    + rewrite Sa. cbn. reflexivity.
    + rewrite Sb. cbn. rewrite <- (inv_cache' _ _ Ia), <- (inv_cache' _ _ Ib), C. reflexivity.
  - exact Hr.
Qed.

(* ---------- repeat ---------- *)
Lemma cong_reploop A n p q : sim A n p q -> sim A (S n) (PRepeatLoop p) (PRepeatLoop q).
Proof.
  intros H f. induction f as [|f IH]; intros s t Hf R HA Hne; [exfalso; apply Hne; reflexivity|].
  hyg R W Wt a Ia b Ib L L2.
  assert (Hi : exec cfg E1 f p s <> ROutOfFuel) by inner Hne L.
  destruct (H f _ _ ltac:(lia) R HA Hi) as [f1 Hr].
  pose proof (exec_post cfg E1 f p s a W Ia) as P1.
  cbn [exec] in Hne |- *.
  destruct (exec cfg E1 f p s) as [s'|s'|k|] eqn:Eg.
  - destruct (exec cfg E2 f1 q t) as [t'|t'|k'|] eqn:Ev; cbn in Hr; try contradiction.
    destruct P1 as (F & _).
    destruct (IH _ _ ltac:(lia) Hr (frame_amode _ _ _ HA F) Hne) as [f2 Hr2].
    exists (S (Nat.max f1 f2)). cbn [exec].
    rewrite (exec_mono cfg E2 f1 (Nat.max f1 f2) q t ltac:(lia)) by (rewrite Ev; discriminate). rewrite Ev.
    apply (rrel_more _ f2); [exact Hr2|lia].
  - exists (S f1). cbn [exec]. destruct (exec cfg E2 f1 q t); cbn in Hr; try contradiction; exact Hr.
  - exists (S f1). cbn [exec]. destruct (exec cfg E2 f1 q t); cbn in Hr; try contradiction; exact Hr.
  - contradiction.
Qed.

Lemma cong_rep A n p q : sim A n p q -> sim A (S (S n)) (PRepeat p) (PRepeat q).
Proof.
  intros H f s t Hf R HA Hne. start f Hne. hyg R W Wt a Ia b Ib L L2.
  assert (Hi : exec cfg E1 f (PRepeatLoop p) s <> ROutOfFuel) by inner Hne L.
  destruct (cong_reploop A n p q H f _ _ ltac:(lia) R HA Hi) as [f' Hr]. exists (S f').
  cbn [exec]. rewrite (inc_call_none s L), (inc_call_none t L2). exact Hr.
Qed.

End Cong.

(* ---------- reflexivity (the result of a program does not depend on the snapshot bookkeeping of the
   stack it starts from, only on its contents) and transitivity ---------- *)
Lemma sim_zero cfg E1 E2 A p q : sim cfg E1 E2 A 0 p q.
Proof. intros f s t Hf R HA Hne. exfalso. apply Hne. destruct f; [reflexivity|inversion Hf]. Qed.

Theorem sim_refl cfg E : forall n A p, sim cfg E E A n p p.
Proof.
  induction n as [|n IH]; intros A p; [apply sim_zero|].
  destruct p.
  - apply sim_prim.
  - apply cong_rule, IH.
  - apply cong_seq, IH.
  - eapply sim_le; [|apply cong_rep, IH]. lia.
  - apply cong_reploop, IH.
  - apply cong_opt, IH.
  - apply cong_look, IH.
  - destruct a.
    + apply (cong_atomic cfg E E A true); [discriminate|apply IH].
    + apply (cong_atomic cfg E E A true); [discriminate|apply IH].
    + apply (cong_atomic cfg E E A false); [discriminate|apply IH].
  - apply cong_push, IH.
  - apply cong_roe, IH.
  - apply cong_then; apply IH.
  - apply cong_else; apply IH.
  - apply cong_ifna; apply IH.
  - destruct (E f) as [b|] eqn:Ef.
    + eapply cong_call; eauto.
    + apply cong_call_none; auto.
Qed.

Lemma srel_trans s t u : srel s t -> srel t u -> srel s u.
Proof.
  intros (st & -> & C & W & Ia & Ib & L) (st' & -> & C' & _ & _ & Ic & _). fields_in C'.
  exists st'. repeat split; auto. congruence.
Qed.
Lemma rrel_trans r1 r2 r3 : rrel r1 r2 -> rrel r2 r3 -> rrel r1 r3.
Proof.
  destruct r1, r2, r3; cbn; try contradiction; try congruence; apply srel_trans.
Qed.

Lemma sim_trans cfg E1 E2 A n p q q' :
  sim cfg E1 E2 A n p q -> (forall m, sim cfg E2 E2 A m q q') -> sim cfg E1 E2 A n p q'.
Proof.
  intros H1 H2 f s t Hf R HA Hne.
  destruct (H1 f s t Hf R HA Hne) as [f1 Hr].
  assert (Rt : srel t t).
  { destruct (r_it _ _ R) as [b Ib]. eapply srel_refl; [eapply srel_wft; eauto|exact Ib|eapply srel_limt; eauto]. }
  assert (At : amode A t) by (intros X; rewrite (srel_at _ _ R); auto).
  destruct (H2 f1 f1 t t (le_n _) Rt At (rrel_nofuel _ _ Hr)) as [f2 Hr2].
  exists f2. eapply rrel_trans; eauto.
Qed.

(* ---------- same-index corollaries ---------- *)
Section Cong'.
Variable cfg : config.
Variable E1 E2 : env.
Notation sim := (sim cfg E1 E2).
Lemma cong_seq' A n p q : sim A n p q -> sim A n (PSequence p) (PSequence q).
Proof. intros. eapply sim_le; [|apply cong_seq; eauto]. lia. Qed.
Lemma cong_opt' A n p q : sim A n p q -> sim A n (POptional p) (POptional q).
Proof. intros. eapply sim_le; [|apply cong_opt; eauto]. lia. Qed.
Lemma cong_then' A n p1 q1 p2 q2 : sim A n p1 q1 -> sim A n p2 q2 -> sim A n (PAndThen p1 p2) (PAndThen q1 q2).
Proof. intros. eapply sim_le; [|apply cong_then; eauto]. lia. Qed.
Lemma cong_else' A n p1 q1 p2 q2 : sim A n p1 q1 -> sim A n p2 q2 -> sim A n (POrElse p1 p2) (POrElse q1 q2).
Proof. intros. eapply sim_le; [|apply cong_else; eauto]. lia. Qed.
Lemma cong_ifna' A n p1 q1 p2 q2 : sim A n p1 q1 -> sim A n p2 q2 -> sim A n (PIfNonAtomic p1 p2) (PIfNonAtomic q1 q2).
Proof. intros. eapply sim_le; [|apply cong_ifna; eauto]. lia. Qed.
Lemma cong_rule' A n r p q : sim A n p q -> sim A n (PRule r p) (PRule r q).
Proof. intros. eapply sim_le; [|apply cong_rule; eauto]. lia. Qed.
Lemma cong_atomic' A Ain n a p q : (Ain = true -> a <> NonAtomic) -> sim Ain n p q -> sim A n (PAtomic a p) (PAtomic a q).
Proof. intros. eapply sim_le; [|eapply cong_atomic; eauto]. lia. Qed.
Lemma cong_look' A n b p q : sim A n p q -> sim A n (PLookahead b p) (PLookahead b q).
Proof. intros. eapply sim_le; [|apply cong_look; eauto]. lia. Qed.
Lemma cong_push' A n p q : sim A n p q -> sim A n (PStackPush p) (PStackPush q).
Proof. intros. eapply sim_le; [|apply cong_push; eauto]. lia. Qed.
Lemma cong_roe' A n p q : sim A n p q -> sim A n (PRestoreOnErr p) (PRestoreOnErr q).
Proof. intros. eapply sim_le; [|apply cong_roe; eauto]. lia. Qed.
Lemma cong_rep' A n p q : sim A n p q -> sim A n (PRepeat p) (PRepeat q).
Proof. intros. eapply sim_le; [|apply cong_rep; eauto]. lia. Qed.
(* the inlined body on the left against a closure on the right *)
Lemma cong_call_right A n k p q : E2 k = Some q -> sim A n p q -> sim A n p (PCall k).
Proof.
  intros X2 H f s t Hf R HA Hne. destruct (H f s t Hf R HA Hne) as [f' Hr]. exists (S f'). cbn [exec]. rewrite X2. exact Hr.
Qed.
Lemma cong_call_left' A n k p q : E1 k = Some p -> sim A n p q -> sim A n (PCall k) q.
Proof. intros. eapply sim_le; [|eapply cong_call_left; eauto]. lia. Qed.
End Cong'.
