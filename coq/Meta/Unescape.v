(* C07 - model of `fn unescape(string: &str) -> Option<String>` (meta/src/parser.rs) and of the
   number parsers the reader calls (str::parse::<u32>, str::parse::<i32>, u8/u32::from_str_radix).

   Strings are UTF-8 byte lists.  The Rust function iterates over chars; the model iterates over
   bytes.  On valid UTF-8 (the only possible argument, a &str) the two agree because every character
   the function inspects is ASCII and no byte of a multi-byte character is:
     - `Some(c) => result.push(c)` copies the bytes of c;
     - after a backslash, a non-ASCII char falls into `_ => return None`, like its first byte here;
     - `\x`: `chars.clone().take(2)` must have BYTE length 2: two ASCII chars (a lone 2-byte char at the
       end of the text also has length 2, but then the second `chars.next()?` returns None);
     - `\u{`: take_while(!= '}') stops at the first '}' byte; its byte length must be 2..6; a non-ASCII
       char in it makes from_str_radix fail after the (possibly misaligned) skipping loop: None on every path;
     - a text that ends inside `\u{...` : the skipping loop hits `chars.next()?` = None.
   The function itself never panics; its callers `.expect(..)` the result (see Consume.v). *)
From Coq Require Import List Arith NArith ZArith Bool.
Import ListNotations.
Require Import PV.Comb.PState PV.Comb.Bytes PV.Comb.Utf8.
Local Open Scope N_scope.

(* char::to_digit(radix) for radix 10 / 16 *)
Definition decval (b : byte) : option N :=
  if (48 <=? b) && (b <=? 57) then Some (b - 48) else None.
Definition hexval (b : byte) : option N :=
  if (48 <=? b) && (b <=? 57) then Some (b - 48)
  else if (97 <=? b) && (b <=? 102) then Some (b - 87)
  else if (65 <=? b) && (b <=? 70) then Some (b - 55)
  else None.

Fixpoint digits_val (radix : N) (dv : byte -> option N) (l : list byte) (acc : N) : option N :=
  match l with
  | [] => Some acc
  | b :: r => match dv b with Some d => digits_val radix dv r (acc * radix + d) | None => None end
  end.

(* core::num::from_str_radix for an unsigned type with maximum [max]:
   "" -> Err(Empty); "+" / "-" alone -> Err(InvalidDigit); one leading '+' is accepted, '-' is not;
   every other char must be a digit; a value above max -> Err(PosOverflow) *)
Definition parse_unsigned (radix : N) (dv : byte -> option N) (max : N) (l : list byte) : option N :=
  let ds := match l with 43 :: r => r | _ => l end in
  match ds with
  | [] => None
  | _ => match digits_val radix dv ds 0 with
         | Some v => if v <=? max then Some v else None
         | None => None
         end
  end.
(* the same for a signed type with range [-(max+1), max] *)
Definition parse_signed (radix : N) (dv : byte -> option N) (max : N) (l : list byte) : option Z :=
  match l with
  | 45 :: ds =>
    match ds with
    | [] => None
    | _ => match digits_val radix dv ds 0 with
           | Some v => if v <=? max + 1 then Some (- Z.of_N v)%Z else None
           | None => None
           end
    end
  | _ => match parse_unsigned radix dv max l with Some v => Some (Z.of_N v) | None => None end
  end.

Definition u32_max : N := 4294967295.
Definition i32_max : N := 2147483647.
Definition parse_u32 (l : list byte) : option N := parse_unsigned 10 decval u32_max l.     (* str::parse::<u32> *)
Definition parse_i32 (l : list byte) : option Z := parse_signed 10 decval i32_max l.       (* str::parse::<i32> *)
Definition parse_hex_u8 (l : list byte) : option N := parse_unsigned 16 hexval 255 l.      (* u8::from_str_radix(s, 16) *)
Definition parse_hex_u32 (l : list byte) : option N := parse_unsigned 16 hexval u32_max l. (* u32::from_str_radix(s, 16) *)

(* char::from_u32 followed by String::push *)
Definition push_char (v : N) : option (list byte) := if scalarb v then Some (encode v) else None.

(* the body of `\u{ ds }` once the closing brace has been seen *)
Definition unicode_escape (ds : list byte) : option (list byte) :=
  if (length ds <? 2)%nat || (6 <? length ds)%nat then None
  else match parse_hex_u32 ds with Some v => push_char v | None => None end.

Definition prepend (x : list byte) (r : option (list byte)) : option (list byte) :=
  match r with Some y => Some (x ++ y) | None => None end.

(* [u = Some ds]: the scan is inside `\u{`, ds are the bytes seen since the brace.  Structural on l. *)
Fixpoint unesc (l : list byte) (u : option (list byte)) : option (list byte) :=
  match u with
  | Some ds =>
    match l with
    | [] => None                                            (* no closing brace: chars.next()? *)
    | b :: r =>
      if b =? 125 then                                      (* '}' *)
        match unicode_escape ds with Some x => prepend x (unesc r None) | None => None end
      else unesc r (Some (ds ++ [b]))
    end
  | None =>
    match l with
    | [] => Some []
    | b :: r =>
      if b =? 92 then                                       (* '\\' *)
        match r with
        | [] => None                                        (* chars.next()? *)
        | c :: r2 =>
          if c =? 34 then prepend [34] (unesc r2 None)      (* backslash, double quote *)
          else if c =? 92 then prepend [92] (unesc r2 None) (* \\ *)
          else if c =? 114 then prepend [13] (unesc r2 None)(* \r *)
          else if c =? 110 then prepend [10] (unesc r2 None)(* \n *)
          else if c =? 116 then prepend [9] (unesc r2 None) (* \t *)
          else if c =? 48 then prepend [0] (unesc r2 None)  (* \0 *)
          else if c =? 39 then prepend [39] (unesc r2 None) (* \' *)
          else if c =? 120 then                             (* \x *)
            match r2 with
            | h1 :: h2 :: r3 =>
              if (h1 <? 128) && (h2 <? 128) then
                match parse_hex_u8 [h1; h2] with
                | Some v => prepend (encode v) (unesc r3 None)    (* result.push(char::from(value)) *)
                | None => None
                end
              else None
            | _ => None
            end
          else if c =? 117 then                             (* \u *)
            match r2 with
            | 123 :: r3 => unesc r3 (Some [])               (* '{' *)
            | _ => None
            end
          else None
        end
      else prepend [b] (unesc r None)
    end
  end.

Definition unescape (l : list byte) : option (list byte) := unesc l None.

(* `&s[a..s.len() - b]` for a in {1,2}, b = 1 on a String: panics (None) when the range is not ordered,
   `len - 1` underflows, or an end is not a char boundary *)
Definition str_slice (s : list byte) (a : nat) : option (list byte) :=
  match length s with
  | O => None                                               (* len - 1 underflows *)
  | Datatypes.S m =>
    if (a <=? m)%nat && boundaryb s a && boundaryb s m then Some (firstn (m - a) (skipn a s)) else None
  end.
(* `&s[1..]` *)
Definition str_from1 (s : list byte) : option (list byte) :=
  if (1 <=? length s)%nat && boundaryb s 1 then Some (skipn 1 s) else None.
