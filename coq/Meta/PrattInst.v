(* C07 - the PrattParser instance of the grammar reader, through C13.
   meta_table = PrattParser::new().op(infix(choice, Left)).op(infix(sequence, Left)) : `|` at level 20, `~` at level 30.
   Canonical trees: [seqt] = term (~ term)* grouped to the left; [chot] = seqt (| seqt)* grouped to the left.
   Theorem [pratt_canonical]: the model of PrattParser::parse (with only map_primary / map_infix supplied)
   on the in-order token sequence of a canonical tree returns exactly that tree and consumes everything.
   Proof: C13's theorem (pratt = shunting-yard, total on well-formed sequences) + a run of the
   shunting-yard specification on canonical trees. *)
From Coq Require Import List Arith Bool Lia.
Import ListNotations.
Require Import PV.Pratt.Syntax PV.Pratt.Model PV.Pratt.Shunt PV.Pratt.Proofs.
Require Import PV.Meta.Tokens.
Require PV.Meta.Consume.

Definition SEQ : rule := mid MSequenceOperator.
Definition CHO : rule := mid MChoiceOperator.
Notation meta_table := PV.Meta.Consume.meta_table.
Notation meta_maps := PV.Meta.Consume.meta_maps.

Lemma meta_table_spec r :
  meta_table r = if Nat.eqb SEQ r then Some (Infix ALeft, 30) else if Nat.eqb CHO r then Some (Infix ALeft, 20) else None.
Proof. reflexivity. Qed.
Lemma meta_table_seq : meta_table SEQ = Some (Infix ALeft, 30). Proof. reflexivity. Qed.
Lemma meta_table_cho : meta_table CHO = Some (Infix ALeft, 20). Proof. reflexivity. Qed.

Lemma meta_table_pos : table_pos meta_table.
Proof.
  intros r af p. rewrite meta_table_spec. destruct (Nat.eqb SEQ r); [intros H; inversion H; lia|].
  destruct (Nat.eqb CHO r); [intros H; inversion H; lia|discriminate].
Qed.
Lemma meta_table_infix : infix_only meta_table.
Proof.
  intros r af p. rewrite meta_table_spec. destruct (Nat.eqb SEQ r); [intros H; inversion H; eauto|].
  destruct (Nat.eqb CHO r); [intros H; inversion H; eauto|discriminate].
Qed.

(* with an infix-only table the prefix / postfix closures are never looked at *)
Section Maps.
Variable A : Type.
Variable get : table.
Hypothesis IO : infix_only get.
Variable m : maps.
Hypothesis MI : m_infix m = true.

Lemma maps_irrelevant : forall f,
  (forall (ts : list (tok A)) rbp, expr m get f ts rbp = expr all_maps get f ts rbp) /\
  (forall lhs (ts : list (tok A)) rbp, loop m get f lhs ts rbp = loop all_maps get f lhs ts rbp).
Proof.
  induction f as [|f [IHe IHl]]; [split; reflexivity|]. split.
  - intros ts rbp. rewrite !expr_S.
    assert (N : nud m get (expr m get f) ts = nud all_maps get (expr all_maps get f) ts).
    { destruct ts as [|a ts']; [reflexivity|]. cbn [nud].
      destruct (get (fst a)) as [[af p]|] eqn:G; [|reflexivity].
      destruct (IO _ _ _ G) as [s ->]. reflexivity. }
    rewrite N. destruct (nud all_maps get (expr all_maps get f) ts); auto.
  - intros lhs ts rbp. rewrite !loop_S. destruct (lbp get ts) as [l|k]; [|reflexivity].
    destruct (Nat.ltb rbp l); [|reflexivity].
    assert (L : led m get (expr m get f) ts lhs = led all_maps get (expr all_maps get f) ts lhs).
    { destruct ts as [|a ts']; [reflexivity|]. cbn [led].
      destruct (get (fst a)) as [[af p]|] eqn:G; [|reflexivity].
      destruct (IO _ _ _ G) as [s ->].
      destruct (match s with ALeft => Some p | ARight => pred_checked p end); [|reflexivity].
      rewrite IHe, MI. reflexivity. }
    rewrite L. destruct (led all_maps get (expr all_maps get f) ts lhs); auto.
Qed.
Lemma pratt_parse_maps (ts : list (tok A)) : pratt_parse m get ts = pratt_parse all_maps get ts.
Proof. unfold pratt_parse. apply maps_irrelevant. Qed.
End Maps.

Section Canon.
Variable A : Type.
Notation tok := (tok A).
Notation tree := (tree A).

Definition prim (a : tok) : Prop := meta_table (fst a) = None.

Inductive seqt : tree -> Prop :=
| seqt_leaf a : prim a -> seqt (Leaf a)
| seqt_bin l o a : seqt l -> fst o = SEQ -> prim a -> seqt (Bin l o (Leaf a)).
Inductive chot : tree -> Prop :=
| chot_seq t : seqt t -> chot t
| chot_bin l o r : chot l -> fst o = CHO -> seqt r -> chot (Bin l o r).

Lemma stops_weaken (p q : prec) (rest : list tok) : p <= q -> stops meta_table p rest -> stops meta_table q rest.
Proof. intros L. destruct rest as [|a r]; [auto|]. intros (af & x & G & Lx). exists af, x. split; [exact G|lia]. Qed.
Lemma blocks_weaken (p q : prec) (ops : list (sop A)) : p <= q -> blocks ops p -> blocks ops q.
Proof. intros L. destruct ops as [|s ops]; [auto|]. intros B lp H. apply B. lia. Qed.

Lemma sy_seqt t : seqt t -> forall ops out rest, blocks ops 20 -> stops meta_table 30 rest ->
  sy meta_table true ops out (yield t ++ rest) = sy meta_table false ops (t :: out) rest.
Proof.
  induction 1 as [a Pa|l o a Sl IH Ho Pa]; intros ops out rest B St.
  - cbn [yield app sy]. unfold prim in Pa. rewrite Pa. reflexivity.
  - cbn [yield]. rewrite <- !app_assoc. cbn [app].
    rewrite IH; [|exact B|exists (Infix ALeft), 30; rewrite Ho; split; [reflexivity|lia]].
    cbn [sy]. rewrite Ho, meta_table_seq.
    rewrite (@reduce_while_blocked A 30 ops (l :: out) 20 B) by lia.
    cbn [sy]. unfold prim in Pa. rewrite Pa.
    apply (@sy_reduce_step A meta_table (SInf o ALeft 30) ops (Leaf a :: l :: out) (Bin l o (Leaf a) :: out) 30 rest St).
    + intros lp Hl. cbn [reduces]. apply Nat.leb_le. exact Hl.
    + reflexivity.
Qed.

Lemma sy_chot t : chot t -> forall ops out rest, blocks ops 0 -> stops meta_table 20 rest ->
  sy meta_table true ops out (yield t ++ rest) = sy meta_table false ops (t :: out) rest.
Proof.
  induction 1 as [t St|l o r Cl IH Ho Sr]; intros ops out rest B Stp.
  - apply sy_seqt; [exact St|eapply blocks_weaken; [|exact B]; lia|eapply stops_weaken; [|exact Stp]; lia].
  - cbn [yield]. rewrite <- !app_assoc. cbn [app].
    rewrite IH; [|exact B|exists (Infix ALeft), 20; rewrite Ho; split; [reflexivity|lia]].
    cbn [sy]. rewrite Ho, meta_table_cho.
    rewrite (@reduce_while_blocked A 20 ops (l :: out) 0 B) by lia.
    rewrite (sy_seqt r Sr).
    + apply (@sy_reduce_step A meta_table (SInf o ALeft 20) ops (r :: l :: out) (Bin l o r :: out) 20 rest Stp).
      * intros lp Hl. cbn [reduces]. apply Nat.leb_le. exact Hl.
      * reflexivity.
    + cbn [blocks reduces]. intros lp Hl. apply Nat.leb_gt. exact Hl.
    + eapply stops_weaken; [|exact Stp]. lia.
Qed.

Lemma wf_seqt t : seqt t -> forall rest, wf meta_table true (yield t ++ rest) = wf meta_table false rest.
Proof.
  induction 1 as [a Pa|l o a Sl IH Ho Pa]; intros rest.
  - cbn [yield app wf]. unfold prim in Pa. now rewrite Pa.
  - cbn [yield]. rewrite <- !app_assoc. cbn [app]. rewrite IH. cbn [wf]. rewrite Ho, meta_table_seq.
    unfold prim in Pa. now rewrite Pa.
Qed.
Lemma wf_chot t : chot t -> forall rest, wf meta_table true (yield t ++ rest) = wf meta_table false rest.
Proof.
  induction 1 as [t St|l o r Cl IH Ho Sr]; intros rest.
  - now apply wf_seqt.
  - cbn [yield]. rewrite <- !app_assoc. cbn [app]. rewrite IH. cbn [wf]. rewrite Ho, meta_table_cho. now apply wf_seqt.
Qed.

Theorem pratt_canonical t : chot t -> pratt_parse meta_maps meta_table (yield t) = Ok t [].
Proof.
  intros C.
  rewrite (@pratt_parse_maps A meta_table meta_table_infix meta_maps eq_refl).
  assert (W : well_formed meta_table (yield t) = true).
  { unfold well_formed. rewrite <- (app_nil_r (yield t)), (wf_chot t C). reflexivity. }
  destruct (@pratt_correct A all_maps meta_table meta_table_pos eq_refl (yield t) W) as (t' & E & _ & S).
  rewrite E. f_equal.
  unfold shunt in S. rewrite <- (app_nil_r (yield t)), (sy_chot t C) in S by (cbn; auto).
  cbn in S. now inversion S.
Qed.
End Canon.
