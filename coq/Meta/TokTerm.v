(* C07 - tokenisation half, expression level, part 10: the claims about a printed concrete expression, by level
   (PL postfix chain over an atom, RL prefix operators, TL the term, EL the infix chain), how each level is obtained
   from the one below, the term / expression rules assembled. *)
From Coq Require Import List Arith NArith ZArith Bool Lia String.
Import ListNotations.
Require Import PV.Comb.PState PV.Comb.Bytes PV.Comb.Utf8 PV.Iter.Queue PV.Peg.Ast PV.Peg.Spec PV.Peg.SpecFacts.
Require Import PV.Meta.Tokens PV.Meta.Unescape PV.Meta.Spell PV.Meta.LexProofs PV.Meta.Text PV.Meta.Proofs.
Require Import PV.Meta.PegRules PV.Meta.LexPeg PV.Meta.TokBase PV.Meta.TokLex PV.Meta.TokOps PV.Meta.TokPost PV.Meta.TokCount PV.Meta.TokOper.
Require Import PV.Meta.TokPre PV.Meta.TokAtom PV.Meta.TokAtom2.
Local Open Scope string_scope.
Local Open Scope list_scope.

(* what can follow a complete operand:  ~ | ) } ? * + {   - after a term: ~ | ) }  - after an expression: ) } *)
Definition stopb (b : byte) : bool := existsb (N.eqb b) [126; 124; 41; 125; 63; 42; 43; 123]%N.
Definition tstopb (b : byte) : bool := existsb (N.eqb b) [126; 124; 41; 125]%N.
Definition cstopb (b : byte) : bool := existsb (N.eqb b) [41; 125]%N.
(* what a printed expression can begin with *)
Definition headb (b : byte) : bool := ident_start b || existsb (N.eqb b) [34; 94; 39; 40; 35; 38; 33]%N.

Lemma existsb_eqb_In b l : existsb (N.eqb b) l = true -> In b l.
Proof. intros H. apply existsb_exists in H. destruct H as (x & I & E). apply N.eqb_eq in E. now subst. Qed.
Lemma stop_ne b c : stopb b = true -> stopb c = false -> b <> c.
Proof. intros H1 H2 ->. congruence. Qed.
Lemma stop_hard b : stopb b = true -> hardb b = true.
Proof. intros H. apply existsb_eqb_In in H. cbn [In] in H. repeat (destruct H as [<-|H]; [reflexivity|]). destruct H. Qed.
Lemma tstop_stop b : tstopb b = true -> stopb b = true.
Proof. intros H. apply existsb_eqb_In in H. cbn [In] in H. repeat (destruct H as [<-|H]; [reflexivity|]). destruct H. Qed.
Lemma cstop_tstop b : cstopb b = true -> tstopb b = true.
Proof. intros H. apply existsb_eqb_In in H. cbn [In] in H. repeat (destruct H as [<-|H]; [reflexivity|]). destruct H. Qed.
Lemma tstop_ne b c : tstopb b = true -> tstopb c = false -> b <> c.
Proof. intros H1 H2 ->. congruence. Qed.
Lemma cstop_ne b c : cstopb b = true -> cstopb c = false -> b <> c.
Proof. intros H1 H2 ->. congruence. Qed.
Lemma head_gap_end b l : headb b = true -> gap_end (b :: l).
Proof.
  unfold headb. intros H. apply orb_prop in H. destruct H as [H|H]; [apply ident_gap_end; now apply ident_start_char|].
  apply existsb_eqb_In in H. cbn [In] in H. repeat (destruct H as [<-|H]; [apply gap_end_byte; discriminate|]). destruct H.
Qed.
Lemma head_ne b c : headb b = true -> headb c = false -> b <> c.
Proof. intros H1 H2 ->. congruence. Qed.

Section Term.
Variable w : list byte.
Variable sg : list str.
Notation G := meta_grammar.
Notation mev := (evals G false (fun _ => None) w).
Notation at_ := (at_ w).
Notation ev := (ev w sg).
Notation ok := (ok w sg).
Notation no := (no w sg).
Notation skp := (skp w sg).
Notation SM := (SM w).
Notation urun := (urun w sg).
Notation lands := (lands w).

Definition PL (c : cexpr) (wc : list byte) : Prop :=
  forall p g b r', at_ p (wc ++ g ++ b :: r') -> gap g -> stopb b = true ->
    exists pn Fn Fp, ok NODE p pn Fn /\ urun POSTOP pn (p + List.length wc) Fp /\ SM (tc c) (Fn ++ Fp).
Definition RL (c : cexpr) (wc : list byte) : Prop :=
  forall pt p g b r', lands pt p -> at_ p (wc ++ g ++ b :: r') -> gap g -> stopb b = true ->
    exists qk Fpre pnode pn Fn Fp, urun PREOP pt qk Fpre /\ lands qk pnode /\ no PREOP pnode /\ ok NODE pnode pn Fn /\
      urun POSTOP pn (p + List.length wc) Fp /\ SM (tc c) (Fpre ++ Fn ++ Fp).
Definition TL (c : cexpr) (wc : list byte) : Prop :=
  forall p g b r', at_ p (wc ++ g ++ b :: r') -> gap g -> tstopb b = true ->
    exists q F, ok TERM p q F /\ lands q (p + List.length wc + List.length g) /\ SM [SK MTerm LNone (tc c)] F.
Definition EL (c : cexpr) (wc : list byte) : Prop :=
  forall p g b r', at_ p (wc ++ g ++ b :: r') -> gap g -> tstopb b = true ->
    exists pt F1 q Ft, ok TERM p pt F1 /\ urun INFIXTERM pt q Ft /\ lands q (p + List.length wc + List.length g) /\ SM (fe c) (F1 ++ Ft).
Definition HD (c : cexpr) (wc : list byte) : Prop :=
  exists b0 l0, wc = b0 :: l0 /\ headb b0 = true /\ (3 <= lvl c -> b0 <> 35%N) /\ (4 <= lvl c -> b0 <> 38%N /\ b0 <> 33%N).
Definition Claims (c : cexpr) (wc : list byte) : Prop :=
  HD c wc /\ EL c wc /\ (2 <= lvl c -> TL c wc) /\ (3 <= lvl c -> RL c wc) /\ (4 <= lvl c -> PL c wc).

(* ---- term = { node_tag? ~ prefix_operator* ~ node ~ postfix_operator* } ---- *)
Definition term_body : expr := ESeq (ESeq (ESeq (EOpt (Rf "node_tag")) (ERep PREOP)) NODE) (ERep POSTOP).
Lemma term_assemble p pt Ft qk Fpre pnode pn Fn q Fp e l :
  ok (EOpt (Rf "node_tag")) p pt Ft -> urun PREOP pt qk Fpre -> lands qk pnode -> no PREOP pnode -> ok NODE pnode pn Fn ->
  urun POSTOP pn q Fp -> lands q e -> at_ e l -> hd_ne 63%N l -> hd_ne 42%N l -> hd_ne 43%N l -> hd_ne 123%N l ->
  exists qe, ok TERM p qe [Node (rule_id G (nm "term")) None p qe (Ft ++ Fpre ++ Fn ++ Fp)] /\ lands qe e.
Proof.
  intros T R1 L1 N1 O R2 L2 H A B C D.
  destruct (seq_rep w sg _ PREOP p pt Ft qk Fpre pnode T R1 (lands_sk w sg _ _ L1) N1) as (q1 & X1 & E1).
  pose proof (lands_or w qk pnode q1 L1 E1) as L1'.
  pose proof (seq_ok w sg _ NODE p q1 _ pnode pn Fn X1 (lands_sk w sg _ _ L1') O) as X2.
  destruct (seq_rep w sg _ POSTOP p pn _ q Fp e X2 R2 (lands_sk w sg _ _ L2) (postfix_no w sg e l H A B C D)) as (qe & X3 & E3).
  exists qe. split; [|exact (lands_or w q e qe L2 E3)].
  replace (Ft ++ Fpre ++ Fn ++ Fp) with (((Ft ++ Fpre) ++ Fn) ++ Fp) by (rewrite <- !app_assoc; reflexivity).
  exact (call_normal w sg (nm "term") {| rname := nm "term"; rty := RNormal; rexpr := term_body |} p qe _ eq_refl eq_refl eq_refl eq_refl X3).
Qed.

(* ---- expression = { choice_operator? ~ term ~ (infix_operator ~ term)* } ---- *)
Definition expr_body : expr := ESeq (ESeq (EOpt (Rf "choice_operator")) TERM) (ERep INFIXTERM).
Lemma expr_assemble p pb Fb pt0 pt F1 q Ft e l :
  ok (EOpt (Rf "choice_operator")) p pb Fb -> skp pb pt0 -> ok TERM pt0 pt F1 -> urun INFIXTERM pt q Ft -> lands q e -> at_ e l ->
  hd_ne 126%N l -> hd_ne 124%N l ->
  exists qe, ok EXPR p qe [Node (rule_id G (nm "expression")) None p qe (Fb ++ F1 ++ Ft)] /\ lands qe e.
Proof.
  intros B S T R L H N1 N2.
  pose proof (seq_ok w sg _ TERM p pb Fb pt0 pt F1 B S T) as X1.
  assert (NI : no INFIXTERM e) by (apply seq_no1; exact (infix_no w sg e l H N1 N2)).
  destruct (seq_rep w sg _ INFIXTERM p pt _ q Ft e X1 R (lands_sk w sg _ _ L) NI) as (qe & X2 & E2).
  exists qe. split; [|exact (lands_or w q e qe L E2)].
  replace (Fb ++ F1 ++ Ft) with ((Fb ++ F1) ++ Ft) by (rewrite <- !app_assoc; reflexivity).
  exact (call_normal w sg (nm "expression") {| rname := nm "expression"; rty := RNormal; rexpr := expr_body |} p qe _ eq_refl eq_refl eq_refl eq_refl X2).
Qed.

(* ---- from one level to the next ---- *)
Lemma at_after p wc g b r' : at_ p (wc ++ g ++ b :: r') -> at_ (p + List.length wc + List.length g) (b :: r').
Proof. intros H. apply at_app. now apply at_app. Qed.
Lemma lands_after p wc g b r' : at_ p (wc ++ g ++ b :: r') -> gap g -> stopb b = true -> lands (p + List.length wc) (p + List.length wc + List.length g).
Proof. intros H Hg Hb. apply (lands_gap w _ g (b :: r') _ (at_app w p wc _ H) Hg); [|reflexivity]. apply hard_gap_end. now apply stop_hard. Qed.

Lemma PL_RL c wc : HD c wc -> 4 <= lvl c -> PL c wc -> RL c wc.
Proof.
  intros (b0 & l0 & -> & Hh & _ & H4) L P pt p g b r' La H Hg Hb. destruct (H4 L) as [N38 N33].
  destruct (P p g b r' H Hg Hb) as (pn & Fn & Fp & O & R & M).
  exists pt, [], p, pn, Fn, Fp. split; [constructor|]. split; [exact La|]. split; [|split; [exact O|split; [exact R|exact M]]].
  apply (prefix_no w sg p _ H); cbn; assumption.
Qed.

Lemma RL_TL c wc : HD c wc -> 3 <= lvl c -> RL c wc -> TL c wc.
Proof.
  intros (b0 & l0 & -> & Hh & H3 & _) L R p g b r' H Hg Hb. pose proof (tstop_stop b Hb) as Hs.
  assert (T : ok (EOpt (Rf "node_tag")) p p []).
  { apply opt_none. apply (node_tag_no w sg p _ H). cbn. now apply H3. }
  assert (La : lands p p) by (apply (lands_refl w p _ H); now apply head_gap_end).
  destruct (R p p g b r' La H Hg Hs) as (qk & Fpre & pnode & pn & Fn & Fp & R1 & L1 & N1 & O & R2 & M).
  destruct (term_assemble p p [] qk Fpre pnode pn Fn _ Fp _ (b :: r') T R1 L1 N1 O R2 (lands_after p _ g b r' H Hg Hs) (at_after p _ g b r' H))
    as (qe & X & Le); try (cbn; apply (tstop_ne b _ Hb); reflexivity).
  eexists qe, _. split; [exact X|]. split; [exact Le|]. eapply SM_node; [reflexivity|exact I|exact M].
Qed.

Lemma TL_EL c wc : 2 <= lvl c -> TL c wc -> EL c wc.
Proof.
  intros L T p g b r' H Hg Hb. destruct (T p g b r' H Hg Hb) as (q & F & X & La & M).
  exists q, F, q, []. split; [exact X|]. split; [constructor|]. split; [exact La|]. rewrite app_nil_r, (fe_term c L). exact M.
Qed.

Lemma claims4 c wc : HD c wc -> 4 <= lvl c -> PL c wc -> Claims c wc.
Proof.
  intros Hd L P. pose proof (PL_RL c wc Hd L P) as R. pose proof (RL_TL c wc Hd ltac:(lia) R) as T. pose proof (TL_EL c wc ltac:(lia) T) as E.
  repeat split; auto.
Qed.
Lemma claims3 c wc : HD c wc -> lvl c = 3 -> RL c wc -> Claims c wc.
Proof.
  intros Hd L R. pose proof (RL_TL c wc Hd ltac:(lia) R) as T. pose proof (TL_EL c wc ltac:(lia) T) as E.
  repeat split; auto. intros; lia.
Qed.
Lemma claims2 c wc : HD c wc -> lvl c = 2 -> TL c wc -> Claims c wc.
Proof. intros Hd L T. pose proof (TL_EL c wc ltac:(lia) T) as E. repeat split; auto; intros; lia. Qed.
Lemma claims1 c wc : HD c wc -> lvl c < 2 -> EL c wc -> Claims c wc.
Proof. intros Hd L E. repeat split; auto; intros; lia. Qed.
End Term.
