(* C07 - tokenisation half, expression level, part 2: the tokens of grammar.pest as the expression-level rules call
   them (NonAtomic, emitting): one-literal rules, the lexemes of LexPeg.v, and when each of them FAILS. *)
From Coq Require Import List Arith NArith ZArith Bool Lia String.
Import ListNotations.
Require Import PV.Comb.PState PV.Comb.Bytes PV.Comb.Utf8 PV.Iter.Queue PV.Peg.Ast PV.Peg.Spec PV.Peg.SpecFacts.
Require Import PV.Meta.Tokens PV.Meta.Unescape PV.Meta.Spell PV.Meta.LexProofs PV.Meta.Text PV.Meta.Proofs.
Require Import PV.Meta.PegRules PV.Meta.LexPeg PV.Meta.TokBase.
Local Open Scope string_scope.
Local Open Scope list_scope.

(* the head of what is at a position: empty, or a byte other than c *)
Definition hd_ne (c : byte) (l : list byte) : Prop := match l with [] => True | b :: _ => b <> c end.
Lemma hd_ne_prefix c s l : hd_ne c l -> prefixb (c :: s) l = false.
Proof. destruct l as [|b l']; [reflexivity|]. cbn. intros H. apply not_eq_sym in H. apply N.eqb_neq in H. now rewrite H. Qed.
Definition hd_in (P : byte -> bool) (l : list byte) : Prop := match l with [] => False | b :: _ => P b = true end.

Section Lex.
Variable w : list byte.
Variable sg : list str.
Notation G := meta_grammar.
Notation mev := (evals G false (fun _ => None) w).
Notation at_ := (at_ w).
Notation ev := (ev w sg).
Notation ok := (ok w sg).
Notation no := (no w sg).
Notation skp := (skp w sg).

(* ---- one-literal rules ---- *)
Lemma tok1_ok n c p l : plain_name n = true -> is_special n = false ->
  find_rule G n = Some {| rname := n; rty := RNormal; rexpr := EStr [c] |} -> at_ p (c :: l) ->
  ok (EIdent n) p (p + 1) [Node (rule_id G n) None p (p + 1) []].
Proof. intros PN SP FR H. exact (tok_ok w sg n [c] p l PN SP FR H). Qed.
Lemma tok1_no n c p l : plain_name n = true -> is_special n = false ->
  find_rule G n = Some {| rname := n; rty := RNormal; rexpr := EStr [c] |} -> at_ p l -> hd_ne c l -> no (EIdent n) p.
Proof. intros PN SP FR H N. apply (tok_no w sg n [c] p l PN SP FR H). now apply hd_ne_prefix. Qed.

(* rules whose body runs atomically: failure of the body is failure of the rule *)
Lemma call_atomic_no n r p : plain_name n = true -> is_special n = false -> find_rule G n = Some r -> rty r = RAtomic ->
  mev Atomic true (rexpr r) p sg SFail -> no (EIdent n) p.
Proof.
  intros PN SP FR K H. pose proof (evals_call G false (fun _ => None) w NonAtomic true n r p sg SFail PN FR) as C.
  rewrite SP, K in C. cbn [rule_mode snd fst] in C. exact (C H).
Qed.
Lemma call_compound_no n r p : plain_name n = true -> is_special n = false -> find_rule G n = Some r -> rty r = RCompound ->
  mev CompoundAtomic true (rexpr r) p sg SFail -> no (EIdent n) p.
Proof.
  intros PN SP FR K H. pose proof (evals_call G false (fun _ => None) w NonAtomic true n r p sg SFail PN FR) as C.
  rewrite SP, K in C. cbn [rule_mode snd fst] in C. exact (C H).
Qed.
Lemma inner_no a n r p : plain_name n = true -> find_rule G n = Some r ->
  mev (snd (rule_mode (is_special n) (rty r) a true)) true (rexpr r) p sg SFail -> mev a true (EIdent n) p sg SFail.
Proof. intros PN FR H. exact (evals_call G false (fun _ => None) w a true n r p sg SFail PN FR H). Qed.

(* ---- identifier ---- *)
Lemma identifier_ok n rest p : ident_ok n = true -> follow ident_char rest -> at_ p (n ++ rest) ->
  ok (Rf "identifier") p (p + List.length n) [Node (mid MIdentifier) None p (p + List.length n) []].
Proof. intros OK Fo H. exact (lex_identifier w NonAtomic true n rest p sg OK Fo H). Qed.

Lemma follow_start_not_P l : follow ident_start l -> prefixb (nm "PUSH") l = false.
Proof.
  change (nm "PUSH") with [80; 85; 83; 72]%N. destruct l as [|b l']; [reflexivity|]. intros [_ H]. cbn [prefixb].
  destruct (80 =? b)%N eqn:E; [|reflexivity]. apply N.eqb_eq in E. subst b. discriminate.
Qed.

Lemma identifier_no p l : at_ p l -> follow ident_start l -> no (Rf "identifier") p.
Proof.
  intros H Fo. apply (call_atomic_no (nm "identifier") _ p eq_refl eq_refl eq_refl eq_refl).
  cbn [rexpr mk]. unfold seql, chol, Lt, Rf. cbn [fold_left]. apply evals_seq_fail.
  pose proof (evals_seq G false (fun _ => None) w Atomic true (ENegPred (EStr (nm "PUSH"))) (EChoice (EStr (nm "_")) (EIdent (nm "alpha")))
                p sg p sg [] p sg [] SFail) as S. cbn in S. apply S; clear S.
  - pose proof (evals_neg G false (fun _ => None) w Atomic true (EStr (nm "PUSH")) p sg SFail) as Ng. cbn in Ng. apply Ng.
    apply (str_no w Atomic false _ p sg l H). now apply follow_start_not_P.
  - apply atomic_skip.
  - destruct (rec_ident_start w true sg) as [_ N]. exact (N p l H Fo).
Qed.

(* ---- number, integer ---- *)
Lemma number_ok n nw rest p : spells_num n nw -> follow digitb rest -> at_ p (nw ++ rest) ->
  ok (Rf "number") p (p + List.length nw) [Node (mid MNumber) None p (p + List.length nw) []].
Proof. intros S Fo H. destruct (spells_num_digits n nw S) as [NE F]. exact (lex_number w NonAtomic true nw rest p sg NE F Fo H). Qed.
Lemma number_body_no p l : at_ p l -> follow digitb l -> mev Atomic true (ERepOnce (ERange 48 57)) p sg SFail.
Proof. intros H Fo. apply evals_rep_once; [reflexivity|]. apply evals_seq_fail. exact (range_no w 48 57 true p sg l H Fo). Qed.
Lemma number_no p l : at_ p l -> follow digitb l -> no (Rf "number") p.
Proof.
  intros H Fo. apply (call_atomic_no (nm "number") _ p eq_refl eq_refl eq_refl eq_refl). cbn [rexpr mk].
  exact (number_body_no p l H Fo).
Qed.
Lemma integer_ok z zw rest p : spells_int z zw -> follow digitb rest -> at_ p (zw ++ rest) ->
  ok (Rf "integer") p (p + List.length zw) [Node (mid MInteger) None p (p + List.length zw) []].
Proof. intros S Fo H. exact (lex_integer w NonAtomic true z zw rest p sg S Fo H). Qed.
Lemma integer_no p l : at_ p l -> follow digitb l -> hd_ne 45%N l -> no (Rf "integer") p.
Proof.
  intros H Fo N. apply (call_atomic_no (nm "integer") _ p eq_refl eq_refl eq_refl eq_refl). cbn [rexpr mk].
  unfold seql, chol, Lt, Rf. cbn [fold_left]. apply evals_choice_r.
  - apply (call_atomic w true (nm "number") (mk "number" RAtomic (ERepOnce (ERange 48 57))) p sg SFail); try reflexivity.
    cbn [rexpr mk]. exact (number_body_no p l H Fo).
  - apply evals_seq_fail. apply evals_seq_fail. apply evals_seq_fail. apply (str_no w Atomic true _ p sg l H). now apply hd_ne_prefix.
Qed.

(* ---- tag_id ---- *)
Lemma tag_id_ok t rest p : tag_ok t = true -> follow ident_char rest -> at_ p (35%N :: t ++ rest) ->
  ok (Rf "tag_id") p (p + S (List.length t)) [Node (mid MTagId) None p (p + S (List.length t)) []].
Proof. intros OK Fo H. exact (lex_tag_id w NonAtomic true t rest p sg OK Fo H). Qed.
Lemma tag_id_no p l : at_ p l -> hd_ne 35%N l -> no (Rf "tag_id") p.
Proof.
  intros H N. apply (call_atomic_no (nm "tag_id") _ p eq_refl eq_refl eq_refl eq_refl). cbn [rexpr mk].
  unfold seql, chol, Lt, Rf. cbn [fold_left]. apply evals_seq_fail. apply evals_seq_fail.
  apply (str_no w Atomic true _ p sg l H). now apply hd_ne_prefix.
Qed.

(* ---- string, insensitive_string, range ---- *)
Lemma string_ok cs ew rest p : spells_string 34%N cs ew -> at_ p (quoted 34%N ew ++ rest) ->
  ok (Rf "string") p (p + List.length (quoted 34%N ew)) [string_node p ew].
Proof. intros S H. exact (lex_string w NonAtomic sg cs ew p rest S H). Qed.
Lemma string_no p l : at_ p l -> hd_ne 34%N l -> no (Rf "string") p.
Proof.
  intros H N. apply (call_compound_no (nm "string") _ p eq_refl eq_refl eq_refl eq_refl). cbn [rexpr mk].
  unfold seql, Rf. cbn [fold_left]. apply evals_seq_fail. apply evals_seq_fail.
  apply (inner_no CompoundAtomic (nm "quote") (mk "quote" RNormal (Lt """")) p eq_refl eq_refl). cbn [rexpr mk rule_mode snd is_special rty].
  apply (str_no w CompoundAtomic true _ p sg l H). now apply hd_ne_prefix.
Qed.
Lemma insens_ok cs ew g rest p : spells_string 34%N cs ew -> gap g -> at_ p (94%N :: g ++ quoted 34%N ew ++ rest) ->
  ok (Rf "insensitive_string") p (p + 1 + List.length g + List.length (quoted 34%N ew))
     [Node (mid MInsensitiveString) None p (p + 1 + List.length g + List.length (quoted 34%N ew)) [string_node (p + 1 + List.length g) ew]].
Proof. intros S Hg H. exact (lex_insens w sg cs ew g p rest S Hg H). Qed.
Lemma insens_no p l : at_ p l -> hd_ne 94%N l -> no (Rf "insensitive_string") p.
Proof.
  intros H N. apply (call_normal_no w sg (nm "insensitive_string") _ p eq_refl eq_refl eq_refl eq_refl). cbn [rexpr mk].
  unfold seql, Lt, Rf. cbn [fold_left]. apply seq_no1. apply (str_fail w sg _ p l H). now apply hd_ne_prefix.
Qed.
Lemma range_ok lo hi e1 e2 g1 g2 rest p : spells_char 39%N lo e1 -> spells_char 39%N hi e2 -> gap g1 -> gap g2 ->
  at_ p (quoted 39%N e1 ++ g1 ++ [46%N; 46%N] ++ g2 ++ quoted 39%N e2 ++ rest) ->
  let p1 := p + List.length (quoted 39%N e1) + List.length g1 in
  let p2 := p1 + 2 + List.length g2 in
  ok (Rf "range") p (p2 + List.length (quoted 39%N e2))
     [Node (mid MRange) None p (p2 + List.length (quoted 39%N e2)) [char_node p e1; Node (mid MRangeOperator) None p1 (p1 + 2) []; char_node p2 e2]].
Proof. intros S1 S2 G1 G2 H. exact (lex_range w sg lo hi e1 e2 g1 g2 p rest S1 S2 G1 G2 H). Qed.
Lemma range_no p l : at_ p l -> hd_ne 39%N l -> no (Rf "range") p.
Proof.
  intros H N. apply (call_normal_no w sg (nm "range") _ p eq_refl eq_refl eq_refl eq_refl). cbn [rexpr mk].
  unfold seql, Rf. cbn [fold_left]. apply seq_no1. apply seq_no1.
  apply (call_compound_no (nm "character") _ p eq_refl eq_refl eq_refl eq_refl). cbn [rexpr mk].
  unfold seql, Rf. cbn [fold_left]. apply evals_seq_fail. apply evals_seq_fail.
  apply (inner_no CompoundAtomic (nm "single_quote") (mk "single_quote" RNormal (Lt "'")) p eq_refl eq_refl). cbn [rexpr mk rule_mode snd is_special rty].
  apply (str_no w CompoundAtomic true _ p sg l H). now apply hd_ne_prefix.
Qed.
End Lex.
