(* C07 - tokenisation half, expression level, part 7: prefix_operator, infix_operator, modifier, node_tag. *)
From Coq Require Import List Arith NArith ZArith Bool Lia String.
Import ListNotations.
Require Import PV.Comb.PState PV.Comb.Bytes PV.Comb.Utf8 PV.Iter.Queue PV.Peg.Ast PV.Peg.Spec PV.Peg.SpecFacts.
Require Import PV.Meta.Tokens PV.Meta.Unescape PV.Meta.Spell PV.Meta.LexProofs PV.Meta.Text PV.Meta.Proofs.
Require Import PV.Meta.PegRules PV.Meta.LexPeg PV.Meta.TokBase PV.Meta.TokLex PV.Meta.TokOps PV.Meta.TokPost PV.Meta.TokCount PV.Meta.TokOper.
Local Open Scope string_scope.
Local Open Scope list_scope.

Section Pre.
Variable w : list byte.
Variable sg : list str.
Notation G := meta_grammar.
Notation mev := (evals G false (fun _ => None) w).
Notation at_ := (at_ w).
Notation ev := (ev w sg).
Notation ok := (ok w sg).
Notation no := (no w sg).
Notation skp := (skp w sg).
Notation SM := (SM w).
Notation t1ok := (t1ok w sg).
Notation t1no := (t1no w sg).

(* prefix_operator = _{ positive_predicate_operator | negative_predicate_operator } *)
Lemma call_pre p res : ev (EChoice (Rf "positive_predicate_operator") (Rf "negative_predicate_operator")) p res -> ev PREOP p res.
Proof. intros H. exact (call_silent w sg (nm "prefix_operator") _ p res eq_refl eq_refl eq_refl eq_refl H). Qed.
Lemma prefix_pos p l : at_ p (38%N :: l) -> ok PREOP p (p + 1) [tnode "positive_predicate_operator" p (p + 1)].
Proof. intros H. apply call_pre. apply ch_l. exact (t1ok "positive_predicate_operator" 38%N p l eq_refl eq_refl eq_refl H). Qed.
Lemma prefix_neg p l : at_ p (33%N :: l) -> ok PREOP p (p + 1) [tnode "negative_predicate_operator" p (p + 1)].
Proof.
  intros H. apply call_pre. apply ch_r.
  - apply (t1no "positive_predicate_operator" 38%N p _ eq_refl eq_refl eq_refl H). cbn. discriminate.
  - exact (t1ok "negative_predicate_operator" 33%N p l eq_refl eq_refl eq_refl H).
Qed.
Lemma prefix_no p l : at_ p l -> hd_ne 38%N l -> hd_ne 33%N l -> no PREOP p.
Proof.
  intros H N1 N2. apply call_pre. apply ch_r.
  - exact (t1no "positive_predicate_operator" 38%N p l eq_refl eq_refl eq_refl H N1).
  - exact (t1no "negative_predicate_operator" 33%N p l eq_refl eq_refl eq_refl H N2).
Qed.

(* infix_operator = _{ sequence_operator | choice_operator } *)
Lemma call_infix p res : ev (EChoice (Rf "sequence_operator") (Rf "choice_operator")) p res -> ev INFIX p res.
Proof. intros H. exact (call_silent w sg (nm "infix_operator") _ p res eq_refl eq_refl eq_refl eq_refl H). Qed.
Lemma infix_seq p l : at_ p (126%N :: l) -> ok INFIX p (p + 1) [tnode "sequence_operator" p (p + 1)].
Proof. intros H. apply call_infix. apply ch_l. exact (t1ok "sequence_operator" 126%N p l eq_refl eq_refl eq_refl H). Qed.
Lemma infix_choice p l : at_ p (124%N :: l) -> ok INFIX p (p + 1) [tnode "choice_operator" p (p + 1)].
Proof.
  intros H. apply call_infix. apply ch_r.
  - apply (t1no "sequence_operator" 126%N p _ eq_refl eq_refl eq_refl H). cbn. discriminate.
  - exact (t1ok "choice_operator" 124%N p l eq_refl eq_refl eq_refl H).
Qed.
Lemma infix_no p l : at_ p l -> hd_ne 126%N l -> hd_ne 124%N l -> no INFIX p.
Proof.
  intros H N1 N2. apply call_infix. apply ch_r.
  - exact (t1no "sequence_operator" 126%N p l eq_refl eq_refl eq_refl H N1).
  - exact (t1no "choice_operator" 124%N p l eq_refl eq_refl eq_refl H N2).
Qed.

(* modifier = _{ silent_modifier | atomic_modifier | compound_atomic_modifier | non_atomic_modifier } *)
Definition mod_body : expr := chol (Rf "silent_modifier") [Rf "atomic_modifier"; Rf "compound_atomic_modifier"; Rf "non_atomic_modifier"].
Lemma call_mod p res : ev mod_body p res -> ev (Rf "modifier") p res.
Proof. intros H. exact (call_silent w sg (nm "modifier") _ p res eq_refl eq_refl eq_refl eq_refl H). Qed.
Lemma modifier_ok ty p l : ty <> RNormal -> at_ p (modifier_text ty ++ l) -> exists F, ok (Rf "modifier") p (p + 1) F /\ SM (sk_modifier ty) F.
Proof.
  intros NN H.
  assert (U : forall res, ev (EChoice (EChoice (EChoice (Rf "silent_modifier") (Rf "atomic_modifier")) (Rf "compound_atomic_modifier")) (Rf "non_atomic_modifier")) p res ->
                ev (Rf "modifier") p res) by (intros res X; apply call_mod; exact X).
  destruct ty; [congruence| | | |]; cbn [modifier_text app] in H; cbn [sk_modifier]; eexists; split.
  - apply U. apply ch_l. apply ch_l. apply ch_l. exact (t1ok "silent_modifier" 95%N p l eq_refl eq_refl eq_refl H).
  - apply SM_leaf; reflexivity.
  - apply U. apply ch_l. apply ch_l. apply ch_r; [apply (t1no "silent_modifier" 95%N p _ eq_refl eq_refl eq_refl H); cbn; discriminate|].
    exact (t1ok "atomic_modifier" 64%N p l eq_refl eq_refl eq_refl H).
  - apply SM_leaf; reflexivity.
  - apply U. apply ch_l. apply ch_r.
    + apply ch_r; [apply (t1no "silent_modifier" 95%N p _ eq_refl eq_refl eq_refl H); cbn; discriminate|].
      apply (t1no "atomic_modifier" 64%N p _ eq_refl eq_refl eq_refl H); cbn; discriminate.
    + exact (t1ok "compound_atomic_modifier" 36%N p l eq_refl eq_refl eq_refl H).
  - apply SM_leaf; reflexivity.
  - apply U. apply ch_r.
    + apply ch_r; [apply ch_r|].
      * apply (t1no "silent_modifier" 95%N p _ eq_refl eq_refl eq_refl H); cbn; discriminate.
      * apply (t1no "atomic_modifier" 64%N p _ eq_refl eq_refl eq_refl H); cbn; discriminate.
      * apply (t1no "compound_atomic_modifier" 36%N p _ eq_refl eq_refl eq_refl H); cbn; discriminate.
    + exact (t1ok "non_atomic_modifier" 33%N p l eq_refl eq_refl eq_refl H).
  - apply SM_leaf; reflexivity.
Qed.
Lemma modifier_no p l : at_ p (123%N :: l) -> no (Rf "modifier") p.
Proof.
  intros H. apply call_mod. unfold mod_body, chol. cbn [fold_left]. apply ch_r; [apply ch_r; [apply ch_r|]|].
  - apply (t1no "silent_modifier" 95%N p _ eq_refl eq_refl eq_refl H); cbn; discriminate.
  - apply (t1no "atomic_modifier" 64%N p _ eq_refl eq_refl eq_refl H); cbn; discriminate.
  - apply (t1no "compound_atomic_modifier" 36%N p _ eq_refl eq_refl eq_refl H); cbn; discriminate.
  - apply (t1no "non_atomic_modifier" 33%N p _ eq_refl eq_refl eq_refl H); cbn; discriminate.
Qed.

(* node_tag = _{ tag_id ~ assignment_operator } *)
Lemma ge61 l : gap_end (61%N :: l). Proof. apply gap_end_byte; discriminate. Qed.
Lemma call_tag p res : ev (ESeq (Rf "tag_id") (Rf "assignment_operator")) p res -> ev (Rf "node_tag") p res.
Proof. intros H. exact (call_silent w sg (nm "node_tag") _ p res eq_refl eq_refl eq_refl eq_refl H). Qed.
Lemma node_tag_ok t g1 p l : tag_ok t = true -> gap g1 -> at_ p (35%N :: t ++ g1 ++ 61%N :: l) ->
  exists F, ok (Rf "node_tag") p (p + S (List.length t) + List.length g1 + 1) F /\ SM [SK MTagId (LTag t) []; sk MAssignmentOperator] F.
Proof.
  intros OK G1 H.
  assert (Fo : follow ident_char (g1 ++ 61%N :: l)) by (apply hard_follow_ident; [exact G1|reflexivity]).
  pose proof (tag_id_ok w sg t _ p OK Fo H) as X.
  assert (H1 : at_ (p + S (List.length t)) (g1 ++ 61%N :: l)).
  { replace (p + S (List.length t)) with (p + 1 + List.length t) by lia. apply at_app. exact (at_cons w p _ _ H). }
  pose proof (seq_tok w sg (Rf "tag_id") "assignment_operator" 61%N p _ _ g1 l eq_refl eq_refl eq_refl X G1 H1 (ge61 l)) as Y.
  eexists. split; [apply call_tag; exact Y|]. cbn [app]. apply SM_cons; [|apply SM_leaf; reflexivity].
  apply (SM_node w (mid MTagId) MTagId (LTag t) [] p _ [] eq_refl); [|apply SM_nil]. cbn [lex_ok].
  change (35%N :: t ++ g1 ++ 61%N :: l) with ((35%N :: t) ++ g1 ++ 61%N :: l) in H. apply (slice_at w p (35%N :: t) _ _ H). reflexivity.
Qed.
Lemma node_tag_no p l : at_ p l -> hd_ne 35%N l -> no (Rf "node_tag") p.
Proof. intros H N. apply call_tag. apply seq_no1. exact (tag_id_no w sg p l H N). Qed.
End Pre.
