(* C07 - tokenisation half, expression level, part 11: the expression rule on a printed expression (with or without
   a leading bar), and the step lemmas of the induction: one more postfix operator, one more prefix operator, a tag,
   one more infix operand, a parenthesised / pushed expression. *)
From Coq Require Import List Arith NArith ZArith Bool Lia String.
Import ListNotations.
Require Import PV.Comb.PState PV.Comb.Bytes PV.Comb.Utf8 PV.Iter.Queue PV.Peg.Ast PV.Peg.Spec PV.Peg.SpecFacts.
Require Import PV.Meta.Tokens PV.Meta.Unescape PV.Meta.Spell PV.Meta.LexProofs PV.Meta.Text PV.Meta.Proofs.
Require Import PV.Meta.PegRules PV.Meta.LexPeg PV.Meta.TokBase PV.Meta.TokLex PV.Meta.TokOps PV.Meta.TokPost PV.Meta.TokCount PV.Meta.TokOper.
Require Import PV.Meta.TokPre PV.Meta.TokAtom PV.Meta.TokAtom2 PV.Meta.TokTerm.
Local Open Scope string_scope.
Local Open Scope list_scope.

Section Expr.
Variable w : list byte.
Variable sg : list str.
Notation G := meta_grammar.
Notation mev := (evals G false (fun _ => None) w).
Notation at_ := (at_ w).
Notation ev := (ev w sg).
Notation ok := (ok w sg).
Notation no := (no w sg).
Notation skp := (skp w sg).
Notation SM := (SM w).
Notation urun := (urun w sg).
Notation lands := (lands w).
Notation PL := (PL w sg).
Notation RL := (RL w sg).
Notation TL := (TL w sg).
Notation EL := (EL w sg).
Notation Claims := (Claims w sg).

Lemma lands_eq q e e' : lands q e -> e = e' -> lands q e'.
Proof. now intros H <-. Qed.
Lemma urun_eq x a b b' F : urun x a b F -> b = b' -> urun x a b' F.
Proof. now intros H <-. Qed.

Lemma bar_gap_end (bar : bool) gb c wc l : HD c wc -> gap_end (opt_bar bar gb ++ wc ++ l).
Proof.
  intros (b0 & l0 & -> & Hh & _). destruct bar; cbn [opt_bar app]; [apply gap_end_byte; discriminate|now apply head_gap_end].
Qed.

(* expression on  |? c  followed by a closing parenthesis or brace *)
Lemma expr_ok c wc (bar : bool) gb g2 b r' p : Claims c wc -> gap gb -> gap g2 -> cstopb b = true ->
  at_ p (opt_bar bar gb ++ wc ++ g2 ++ b :: r') ->
  exists q F, ok EXPR p q F /\ lands q (p + List.length (opt_bar bar gb) + List.length wc + List.length g2) /\
    SM [SK MExpression LNone (sk_bar bar ++ fe c)] F.
Proof.
  intros (Hd & E & _) Gb G2 Hb H. pose proof (cstop_tstop b Hb) as Ht.
  assert (N1 : hd_ne 126%N (b :: r')) by (cbn; apply (cstop_ne b _ Hb); reflexivity).
  assert (N2 : hd_ne 124%N (b :: r')) by (cbn; apply (cstop_ne b _ Hb); reflexivity).
  destruct bar; cbn [opt_bar sk_bar] in *.
  - cbn [app] in H. pose proof (at_cons w p _ _ H) as H1. pose proof (at_app w _ gb _ H1) as H2.
    destruct (E _ g2 b r' H2 G2 Ht) as (pt & F1 & q & Ft & T & R & La & M).
    assert (B : ok (EOpt (Rf "choice_operator")) p (p + 1) [tnode "choice_operator" p (p + 1)]).
    { apply opt_some. exact (t1ok w sg "choice_operator" 124%N p _ eq_refl eq_refl eq_refl H). }
    assert (S : skp (p + 1) (p + 1 + List.length gb)).
    { apply (skp_gap w sg _ gb _ H1 Gb). destruct Hd as (b0 & l0 & -> & Hh & _). now apply head_gap_end. }
    destruct (expr_assemble w sg p _ _ _ pt F1 q Ft _ (b :: r') B S T R La (at_after w _ wc g2 b r' H2) N1 N2) as (qe & X & Le).
    eexists qe, _. split; [exact X|]. split; [apply (lands_eq qe _ _ Le); cbn [List.length]; lia|].
    eapply SM_node; [reflexivity|exact I|]. cbn [app]. apply SM_cons; [apply SM_leaf; reflexivity|exact M].
  - cbn [app List.length] in H |- *. destruct (E p g2 b r' H G2 Ht) as (pt & F1 & q & Ft & T & R & La & M).
    destruct Hd as (b0 & l0 & -> & Hh & _).
    assert (B : ok (EOpt (Rf "choice_operator")) p p []).
    { apply opt_none. apply (t1no w sg "choice_operator" 124%N p _ eq_refl eq_refl eq_refl H). cbn. apply (head_ne b0 _ Hh). reflexivity. }
    assert (S : skp p p) by (apply (skp_here w sg p _ H); now apply head_gap_end).
    destruct (expr_assemble w sg p _ _ _ pt F1 q Ft _ (b :: r') B S T R La (at_after w p _ g2 b r' H) N1 N2) as (qe & X & Le).
    eexists qe, _. split; [exact X|]. split; [apply (lands_eq qe _ _ Le); lia|].
    eapply SM_node; [reflexivity|exact I|]. cbn [app]. exact M.
Qed.

(* ---- an atom is a postfix chain of length 0 ---- *)
Lemma PL_of_atom c wc :
  (forall p g b r', at_ p (wc ++ g ++ b :: r') -> gap g -> stopb b = true -> exists F, ok NODE p (p + List.length wc) F /\ SM (tc c) F) -> PL c wc.
Proof.
  intros A p g b r' H Hg Hb. destruct (A p g b r' H Hg Hb) as (F & O & M). exists (p + List.length wc), F, []. split; [exact O|].
  split; [constructor|]. now rewrite app_nil_r.
Qed.

(* ---- one more postfix operator ---- *)
Lemma post_head k t : post_text k t -> exists t0 t', t = t0 :: t' /\ stopb t0 = true.
Proof. destruct 1; eexists; eexists; (split; [reflexivity|reflexivity]). Qed.

Lemma PL_extend c' w' c g1 k t : PL c' w' -> gap g1 -> post_text k t -> tc c = tc c' ++ [k] -> PL c (w' ++ g1 ++ t).
Proof.
  intros P G1 T Etc p g b r' H Hg Hb. destruct (post_head k t T) as (t0 & t' & Et & St).
  rewrite <- !app_assoc in H.
  assert (H0 : at_ p (w' ++ g1 ++ t0 :: (t' ++ g ++ b :: r'))) by (rewrite Et in H; exact H).
  destruct (P p g1 t0 _ H0 G1 St) as (pn & Fn & Fp & O & R & M).
  pose proof (at_app w _ g1 _ (at_app w p w' _ H)) as H2.
  destruct (postfix_ok w sg k t T _ _ H2) as (F & OF & MF).
  assert (S : skp (p + List.length w') (p + List.length w' + List.length g1)).
  { apply (skp_gap w sg _ g1 _ (at_app w p w' _ H) G1). rewrite Et. cbn [app]. apply hard_gap_end. now apply stop_hard. }
  exists pn, Fn, (Fp ++ F). split; [exact O|]. split.
  - apply (urun_eq _ _ _ _ _ (urun_snoc w sg POSTOP pn _ Fp _ _ F R S OF)). len.
  - rewrite Etc, app_assoc. now apply SM_app.
Qed.

(* ---- one more prefix operator ---- *)
Lemma RL_pre c' w' c (neg : bool) g1 : RL c' w' -> HD c' w' -> gap g1 ->
  tc c = sk (if neg then MNegativePredicateOperator else MPositivePredicateOperator) :: tc c' ->
  RL c ((if neg then 33%N else 38%N) :: g1 ++ w').
Proof.
  intros R Hd G1 Etc pt p g b r' La H Hg Hb. norm H.
  pose proof (at_cons w p _ _ H) as H1. pose proof (at_app w _ g1 _ H1) as H2.
  assert (La' : lands (p + 1) (p + 1 + List.length g1)).
  { apply (lands_gap w _ g1 _ _ H1 G1); [|reflexivity]. destruct Hd as (b0 & l0 & -> & Hh & _). now apply head_gap_end. }
  destruct (R (p + 1) _ g b r' La' H2 Hg Hb) as (qk & Fpre & pnode & pn & Fn & Fp & R1 & L1 & N1 & O & R2 & M).
  assert (X : exists nd, ok PREOP p (p + 1) [nd] /\ SM [sk (if neg then MNegativePredicateOperator else MPositivePredicateOperator)] [nd]).
  { destruct neg; eexists; split.
    - exact (prefix_neg w sg p _ H).
    - apply SM_leaf; reflexivity.
    - exact (prefix_pos w sg p _ H).
    - apply SM_leaf; reflexivity. }
  destruct X as (nd & X & Mn).
  exists qk, ([nd] ++ Fpre), pnode, pn, Fn, Fp. split; [exact (ur_cons w sg PREOP pt p (p + 1) [nd] qk Fpre (lands_sk w sg _ _ La) X R1)|].
  split; [exact L1|]. split; [exact N1|]. split; [exact O|]. split; [apply (urun_eq _ _ _ _ _ R2); cbn [List.length]; rewrite app_length; lia|].
  rewrite Etc. rewrite <- app_assoc. cbn [app]. now apply SM_cons.
Qed.

(* ---- a tag ---- *)
Lemma TL_tag c' w' c t g1 g2 : RL c' w' -> HD c' w' -> tag_ok t = true -> gap g1 -> gap g2 ->
  tc c = SK MTagId (LTag t) [] :: sk MAssignmentOperator :: tc c' ->
  TL c (35%N :: t ++ g1 ++ [61%N] ++ g2 ++ w').
Proof.
  intros R Hd OK G1 G2 Etc p g b r' H Hg Hb. pose proof (tstop_stop b Hb) as Hs.
  norm H.
  destruct (node_tag_ok w sg t g1 p _ OK G1 H) as (Ft & T & Mt).
  set (pt := p + S (List.length t) + List.length g1 + 1) in *.
  assert (H1 : at_ pt (g2 ++ w' ++ g ++ b :: r')).
  { unfold pt. replace (p + S (List.length t)) with (p + 1 + List.length t) by lia. apply (at_app_cons w _ g1 61%N). apply at_app. exact (at_cons w p _ _ H). }
  pose proof (at_app w _ g2 _ H1) as H2.
  assert (La : lands pt (pt + List.length g2)).
  { apply (lands_gap w _ g2 _ _ H1 G2); [|reflexivity]. destruct Hd as (b0 & l0 & -> & Hh & _). now apply head_gap_end. }
  destruct (R pt _ g b r' La H2 Hg Hs) as (qk & Fpre & pnode & pn & Fn & Fp & R1 & L1 & N1 & O & R2 & M).
  destruct (term_assemble w sg p pt Ft qk Fpre pnode pn Fn _ Fp _ (b :: r') (opt_some w sg _ _ _ _ T) R1 L1 N1 O R2
              (lands_after w _ w' g b r' H2 Hg Hs) (at_after w _ w' g b r' H2))
    as (qe & X & Le); try (cbn; apply (tstop_ne b _ Hb); reflexivity).
  eexists qe, _. split; [exact X|]. split.
  - apply (lands_eq qe _ _ Le). unfold pt. cbn [List.length]. rewrite !app_length. cbn [List.length]. lia.
  - eapply SM_node; [reflexivity|exact I|]. rewrite Etc.
    change (SK MTagId (LTag t) [] :: sk MAssignmentOperator :: tc c') with ([SK MTagId (LTag t) []; sk MAssignmentOperator] ++ tc c').
    now apply SM_app.
Qed.

(* ---- one more infix operand ---- *)
Lemma EL_infix a wa b' wb c (alt : bool) g1 g2 : EL a wa -> EL b' wb -> HD b' wb -> gap g1 -> gap g2 ->
  fe c = fe a ++ sk (if alt then MChoiceOperator else MSequenceOperator) :: fe b' ->
  EL c (wa ++ g1 ++ [if alt then 124%N else 126%N] ++ g2 ++ wb).
Proof.
  intros Ea Eb Hd G1 G2 Efe p g b r' H Hg Hb. norm H.
  set (x := if alt then 124%N else 126%N) in *.
  assert (Tx : tstopb x = true) by (unfold x; destruct alt; reflexivity).
  destruct (Ea p g1 x _ H G1 Tx) as (pt & F1 & qa & Fa & T & Ra & La & Ma).
  pose proof (at_after w p wa g1 x _ H) as H1. set (ea := p + List.length wa + List.length g1) in *.
  pose proof (at_cons w _ _ _ H1) as H2. pose proof (at_app w _ g2 _ H2) as H3.
  destruct (Eb _ g b r' H3 Hg Hb) as (ptb & F1b & qb & Fbt & Tb & Rb & Lb & Mb).
  assert (X : exists nd, ok INFIX ea (ea + 1) [nd] /\ SM [sk (if alt then MChoiceOperator else MSequenceOperator)] [nd]).
  { unfold x in H1. destruct alt; eexists; split.
    - exact (infix_choice w sg ea _ H1).
    - apply SM_leaf; reflexivity.
    - exact (infix_seq w sg ea _ H1).
    - apply SM_leaf; reflexivity. }
  destruct X as (nd & X & Mn).
  assert (S : skp (ea + 1) (ea + 1 + List.length g2)).
  { apply (skp_gap w sg _ g2 _ H2 G2). destruct Hd as (b0 & l0 & -> & Hh & _). now apply head_gap_end. }
  pose proof (seq_ok w sg INFIX TERM ea _ _ _ ptb F1b X S Tb) as Y.
  pose proof (urun_app w sg INFIXTERM pt ptb qb _ _ (urun_snoc w sg INFIXTERM pt qa Fa ea ptb _ Ra (lands_sk w sg _ _ La) Y) Rb) as Rall.
  exists pt, F1, qb, ((Fa ++ [nd] ++ F1b) ++ Fbt). split; [exact T|]. split; [exact Rall|]. split.
  - apply (lands_eq qb _ _ Lb). unfold ea. rewrite !app_length. cbn [List.length]. lia.
  - rewrite Efe. replace (F1 ++ (Fa ++ [nd] ++ F1b) ++ Fbt) with ((F1 ++ Fa) ++ [nd] ++ (F1b ++ Fbt)) by (rewrite <- !app_assoc; reflexivity).
    apply SM_app; [exact Ma|]. cbn [app]. now apply SM_cons.
Qed.
End Expr.
