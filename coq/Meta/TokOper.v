(* C07 - tokenisation half, expression level, part 6: postfix_operator, prefix_operator, infix_operator, modifier,
   node_tag: which alternative matches which spelling, and when they fail. *)
From Coq Require Import List Arith NArith ZArith Bool Lia String.
Import ListNotations.
Require Import PV.Comb.PState PV.Comb.Bytes PV.Comb.Utf8 PV.Iter.Queue PV.Peg.Ast PV.Peg.Spec PV.Peg.SpecFacts.
Require Import PV.Meta.Tokens PV.Meta.Unescape PV.Meta.Spell PV.Meta.LexProofs PV.Meta.Text PV.Meta.Proofs.
Require Import PV.Meta.PegRules PV.Meta.LexPeg PV.Meta.TokBase PV.Meta.TokLex PV.Meta.TokOps PV.Meta.TokPost PV.Meta.TokCount.
Local Open Scope string_scope.
Local Open Scope list_scope.

Section Oper.
Variable w : list byte.
Variable sg : list str.
Notation G := meta_grammar.
Notation mev := (evals G false (fun _ => None) w).
Notation at_ := (at_ w).
Notation ev := (ev w sg).
Notation ok := (ok w sg).
Notation no := (no w sg).
Notation SM := (SM w).

Definition post_tail : list expr :=
  [Rf "repeat_operator"; Rf "repeat_once_operator"; Rf "repeat_exact"; Rf "repeat_min"; Rf "repeat_max"; Rf "repeat_min_max"].

Lemma call_post p res : ev (fold_left EChoice post_tail (Rf "optional_operator")) p res -> ev POSTOP p res.
Proof. intros H. exact (call_silent w sg (nm "postfix_operator") _ p res eq_refl eq_refl eq_refl eq_refl H). Qed.

Lemma t1ok s c p l : plain_name (nm s) = true -> is_special (nm s) = false ->
  find_rule G (nm s) = Some {| rname := nm s; rty := RNormal; rexpr := EStr [c] |} -> at_ p (c :: l) ->
  ok (Rf s) p (p + 1) [tnode s p (p + 1)].
Proof. intros PN SP FR H. exact (tok1_ok w sg (nm s) c p l PN SP FR H). Qed.
Lemma t1no s c p l : plain_name (nm s) = true -> is_special (nm s) = false ->
  find_rule G (nm s) = Some {| rname := nm s; rty := RNormal; rexpr := EStr [c] |} -> at_ p l -> hd_ne c l -> no (Rf s) p.
Proof. intros PN SP FR H N. exact (tok1_no w sg (nm s) c p l PN SP FR H N). Qed.

Lemma hd_ne_cons (c b : byte) l : b <> c -> hd_ne c (b :: l).
Proof. auto. Qed.

Lemma postfix_ok k t : post_text k t -> forall p l, at_ p (t ++ l) -> exists F, ok POSTOP p (p + List.length t) F /\ SM [k] F.
Proof.
  intros T p l H.
  assert (N3 : forall x, t ++ l = 123%N :: x ->
            no (Rf "optional_operator") p /\ no (Rf "repeat_operator") p /\ no (Rf "repeat_once_operator") p).
  { intros x E. rewrite E in H. repeat split.
    - apply (t1no "optional_operator" 63%N p _ eq_refl eq_refl eq_refl H). cbn. discriminate.
    - apply (t1no "repeat_operator" 42%N p _ eq_refl eq_refl eq_refl H). cbn. discriminate.
    - apply (t1no "repeat_once_operator" 43%N p _ eq_refl eq_refl eq_refl H). cbn. discriminate. }
  destruct T as [| | |n nw g2 g3 S G2 G3|n nw g2 g3 g4 S G2 G3 G4|n nw g2 g3 g4 S G2 G3 G4|m n mw nw g2 g3 g4 g5 Sm Sn G2 G3 G4 G5].
  - cbn [app] in H. eexists. split; [apply call_post; apply chain_match; exact (t1ok "optional_operator" 63%N p l eq_refl eq_refl eq_refl H)|].
    apply SM_leaf. reflexivity.
  - cbn [app] in H. eexists. split.
    + apply call_post. apply (chain_select w NonAtomic true [] (Rf "repeat_operator") (tl post_tail) (Rf "optional_operator")).
      * apply (t1no "optional_operator" 63%N p _ eq_refl eq_refl eq_refl H). cbn. discriminate.
      * exact (t1ok "repeat_operator" 42%N p l eq_refl eq_refl eq_refl H).
    + apply SM_leaf. reflexivity.
  - cbn [app] in H. eexists. split.
    + apply call_post. apply (chain_select w NonAtomic true [Rf "repeat_operator"] (Rf "repeat_once_operator") (tl (tl post_tail)) (Rf "optional_operator")).
      * apply chain_fail; [|repeat constructor].
        -- apply (t1no "optional_operator" 63%N p _ eq_refl eq_refl eq_refl H). cbn. discriminate.
        -- apply (t1no "repeat_operator" 42%N p _ eq_refl eq_refl eq_refl H). cbn. discriminate.
      * exact (t1ok "repeat_once_operator" 43%N p l eq_refl eq_refl eq_refl H).
    + apply SM_leaf. reflexivity.
  - destruct (N3 _ ltac:(rewrite <- !app_assoc; reflexivity)) as (A & B & C). rewrite <- !app_assoc in H. cbn [app] in H.
    destruct (exact_ok w sg p g2 g3 n nw l H G2 G3 S) as (q & F & O & -> & M). exists F. split; [|exact M]. apply (ok_eq w sg _ p (p + 1 + List.length g2 + List.length nw + List.length g3 + 1)); [|len].
    apply call_post. apply (chain_select w NonAtomic true [Rf "repeat_operator"; Rf "repeat_once_operator"] (Rf "repeat_exact") _ (Rf "optional_operator")); [|exact O].
    apply chain_fail; [exact A|repeat constructor; assumption].
  - destruct (N3 _ ltac:(rewrite <- !app_assoc; reflexivity)) as (A & B & C). rewrite <- !app_assoc in H. cbn [app] in H.
    destruct (min_ok w sg p g2 g3 g4 n nw l H G2 G3 G4 S) as (q & F & O & -> & M). exists F. split; [|exact M]. apply (ok_eq w sg _ p (p + 1 + List.length g2 + List.length nw + List.length g3 + 1 + List.length g4 + 1)); [|len].
    apply call_post. apply (chain_select w NonAtomic true [Rf "repeat_operator"; Rf "repeat_once_operator"; Rf "repeat_exact"] (Rf "repeat_min") _ (Rf "optional_operator")); [|exact O].
    apply chain_fail; [exact A|repeat constructor; try assumption]. exact (exact_no_comma2 w sg p g2 g3 n nw _ H G2 G3 S).
  - destruct (N3 _ ltac:(rewrite <- !app_assoc; reflexivity)) as (A & B & C). rewrite <- !app_assoc in H. cbn [app] in H.
    destruct (max_ok w sg p g2 g3 g4 n nw l H G2 G3 G4 S) as (q & F & O & -> & M). exists F. split; [|exact M]. apply (ok_eq w sg _ p (p + 1 + List.length g2 + 1 + List.length g3 + List.length nw + List.length g4 + 1)); [|len].
    apply call_post. apply (chain_select w NonAtomic true [Rf "repeat_operator"; Rf "repeat_once_operator"; Rf "repeat_exact"; Rf "repeat_min"] (Rf "repeat_max") _ (Rf "optional_operator")); [|exact O].
    apply chain_fail; [exact A|repeat constructor; try assumption].
    + exact (exact_no_comma1 w sg p g2 _ H G2).
    + exact (min_no_comma1 w sg p g2 _ H G2).
  - destruct (N3 _ ltac:(rewrite <- !app_assoc; reflexivity)) as (A & B & C). rewrite <- !app_assoc in H. cbn [app] in H.
    destruct (min_max_ok w sg p g2 g3 g4 g5 m mw n nw l H G2 G3 G4 G5 Sm Sn) as (q & F & O & -> & M). exists F. split; [|exact M]. apply (ok_eq w sg _ p (p + 1 + List.length g2 + List.length mw + List.length g3 + 1 + List.length g4 + List.length nw + List.length g5 + 1)); [|len].
    apply call_post.
    apply (chain_select w NonAtomic true [Rf "repeat_operator"; Rf "repeat_once_operator"; Rf "repeat_exact"; Rf "repeat_min"; Rf "repeat_max"] (Rf "repeat_min_max") [] (Rf "optional_operator")); [|exact O].
    apply chain_fail; [exact A|repeat constructor; try assumption].
    + exact (exact_no_comma2 w sg p g2 g3 m mw _ H G2 G3 Sm).
    + exact (min_no_num w sg p g2 g3 g4 m mw n nw _ H G2 G3 G4 Sm Sn).
    + exact (max_no_num1 w sg p g2 m mw _ H G2 Sm).
Qed.

Lemma postfix_no p l : at_ p l -> hd_ne 63%N l -> hd_ne 42%N l -> hd_ne 43%N l -> hd_ne 123%N l -> no POSTOP p.
Proof.
  intros H N1 N2 N3 N4. destruct (counts_no w sg p l H N4) as (A & B & C & D). apply call_post. apply chain_fail.
  - exact (t1no "optional_operator" 63%N p l eq_refl eq_refl eq_refl H N1).
  - repeat constructor; try assumption.
    + exact (t1no "repeat_operator" 42%N p l eq_refl eq_refl eq_refl H N2).
    + exact (t1no "repeat_once_operator" 43%N p l eq_refl eq_refl eq_refl H N3).
Qed.
End Oper.
