(* C07 - facts about the lexical layer of the reader: number parsing and unescape are left inverses
   of the spellings of Spell.v (positional numerals with leading zeros, every escape form). *)
From Coq Require Import List Arith NArith ZArith Bool Lia.
Import ListNotations.
Require Import PV.Comb.PState PV.Comb.Bytes PV.Comb.Utf8 PV.Peg.Ast.
Require Import PV.Meta.Tokens PV.Meta.Unescape PV.Meta.Spell.
Local Open Scope N_scope.

(* ---------------- digits ---------------- *)
Lemma decval_bound b d : decval b = Some d -> d < 10 /\ 48 <= b <= 57.
Proof. unfold decval. destruct ((48 <=? b) && (b <=? 57)) eqn:E; [|discriminate]. intros H; inversion H; subst. lia. Qed.
Lemma hexval_bound b d : hexval b = Some d -> d < 16 /\ (48 <= b <= 57 \/ 97 <= b <= 102 \/ 65 <= b <= 70).
Proof.
  unfold hexval. destruct ((48 <=? b) && (b <=? 57)) eqn:E1; [intros H; inversion H; subst; lia|].
  destruct ((97 <=? b) && (b <=? 102)) eqn:E2; [intros H; inversion H; subst; lia|].
  destruct ((65 <=? b) && (b <=? 70)) eqn:E3; [intros H; inversion H; subst; lia|]. discriminate.
Qed.

Lemma digits_val_snoc radix dv l b acc :
  digits_val radix dv (l ++ [b]) acc =
  match digits_val radix dv l acc with
  | Some v => match dv b with Some d => Some (v * radix + d) | None => None end
  | None => None
  end.
Proof.
  revert acc. induction l as [|x l IH]; intros acc; cbn [app digits_val].
  - destruct (dv b); reflexivity.
  - destruct (dv x); [apply IH|reflexivity].
Qed.

Lemma spells_nat_val radix dv n l : spells_nat radix dv n l -> digits_val radix dv l 0 = Some n.
Proof.
  intros S. induction S as [b d H|n l b d S IH H].
  - cbn. rewrite H. reflexivity.
  - rewrite digits_val_snoc, IH, H. f_equal. lia.
Qed.
Lemma spells_nat_head radix dv n l : spells_nat radix dv n l -> exists b d r, l = b :: r /\ dv b = Some d.
Proof.
  intros S. induction S as [b d H|n l b d S (b0 & d0 & r & -> & H0) H].
  - now exists b, d, [].
  - now exists b0, d0, (r ++ [b]).
Qed.
Lemma spells_nat_all radix dv n l : spells_nat radix dv n l -> Forall (fun b => exists d, dv b = Some d) l.
Proof.
  intros S. induction S as [b d H|n l b d S IH H].
  - constructor; eauto.
  - apply Forall_app. split; [exact IH|]. constructor; eauto.
Qed.

Lemma parse_unsigned_spelled radix dv max n l :
  (forall d, dv 43 = Some d -> False) -> spells_nat radix dv n l -> n <= max -> parse_unsigned radix dv max l = Some n.
Proof.
  intros P S L. destruct (spells_nat_head _ _ _ _ S) as (b & d & r & -> & Hb).
  unfold parse_unsigned.
  assert (Hne : b <> 43) by (intros ->; eauto).
  assert (E : match b :: r with 43 :: r0 => r0 | _ => b :: r end = b :: r).
  { destruct b as [|p]; [reflexivity|]. do 6 (destruct p as [p|p|]; try reflexivity). exfalso. now apply Hne. }
  rewrite E, (spells_nat_val _ _ _ _ S). apply N.leb_le in L. now rewrite L.
Qed.

Lemma dec_no_plus d : decval 43 = Some d -> False. Proof. cbv. discriminate. Qed.
Lemma hex_no_plus d : hexval 43 = Some d -> False. Proof. cbv. discriminate. Qed.

Theorem parse_u32_spelled n l : spells_num n l -> n <= u32_max -> parse_u32 l = Some n.
Proof. intros. apply parse_unsigned_spelled; auto. exact dec_no_plus. Qed.

Theorem parse_i32_spelled z l : spells_int z l -> i32_ok z = true -> parse_i32 l = Some z.
Proof.
  unfold i32_ok, parse_i32. intros [[Hz S]|[Hz (l' & -> & S)]] B; apply andb_prop in B; destruct B as [B1 B2];
    apply Z.leb_le in B1, B2.
  - destruct (spells_nat_head _ _ _ _ S) as (b & d & r & -> & Hb). destruct (decval_bound _ _ Hb) as [_ Rb].
    assert (E : parse_signed 10 decval i32_max (b :: r) =
                match parse_unsigned 10 decval i32_max (b :: r) with Some v => Some (Z.of_N v) | None => None end).
    { unfold parse_signed. destruct b as [|p]; [reflexivity|]. do 6 (destruct p as [p|p|]; try reflexivity). lia. }
    rewrite E, (parse_unsigned_spelled 10 decval i32_max (Z.to_N z) (b :: r) dec_no_plus S); [|unfold i32_max in *; lia].
    f_equal. lia.
  - destruct (spells_nat_head _ _ _ _ S) as (b & d & r & -> & Hb).
    unfold parse_signed. rewrite (spells_nat_val _ _ _ _ S).
    assert (L : (Z.to_N (- z) <=? i32_max + 1) = true) by (apply N.leb_le; unfold i32_max in *; lia).
    rewrite L. f_equal. lia.
Qed.

(* ---------------- unescape ---------------- *)
Lemma prepend_app x y r : prepend x (prepend y r) = prepend (x ++ y) r.
Proof. destruct r; cbn; [now rewrite app_assoc|reflexivity]. Qed.
Lemma prepend_nil r : prepend [] r = r.
Proof. now destruct r. Qed.

Lemma unesc_copy l rest : Forall (fun b => b <> 92) l -> unesc (l ++ rest) None = prepend l (unesc rest None).
Proof.
  induction 1 as [|b l Hb _ IH]; [now rewrite prepend_nil|].
  cbn [app unesc]. apply N.eqb_neq in Hb. rewrite Hb, IH. now rewrite prepend_app.
Qed.

Lemma encode_no_backslash c : c <> 92 -> Forall (fun b => b <> 92) (encode c).
Proof.
  intros H. unfold encode.
  destruct (c <? 128) eqn:E1; [repeat constructor; exact H|].
  destruct (c <? 2048) eqn:E2; [repeat constructor; lia|].
  destruct (c <? 65536) eqn:E3; repeat constructor; lia.
Qed.

Lemma unesc_in_unicode ds rest acc : Forall (fun b => b <> 125) ds ->
  unesc (ds ++ 125 :: rest) (Some acc) =
  match unicode_escape (acc ++ ds) with Some x => prepend x (unesc rest None) | None => None end.
Proof.
  intros H. revert acc. induction H as [|b ds Hb _ IH]; intros acc.
  - cbn [app unesc]. rewrite app_nil_r. reflexivity.
  - cbn [app unesc]. apply N.eqb_neq in Hb. rewrite Hb, IH, <- app_assoc. reflexivity.
Qed.

Lemma unesc_named b rest : unesc (92 :: b :: rest) None =
  match named_escape b with
  | Some c => prepend [c] (unesc rest None)
  | None =>
    if b =? 120 then
      match rest with
      | h1 :: h2 :: r3 => if (h1 <? 128) && (h2 <? 128) then
                            match parse_hex_u8 [h1; h2] with Some v => prepend (encode v) (unesc r3 None) | None => None end
                          else None
      | _ => None
      end
    else if b =? 117 then match rest with 123 :: r3 => unesc r3 (Some []) | _ => None end
    else None
  end.
Proof.
  cbn [unesc]. replace (92 =? 92) with true by reflexivity. unfold named_escape.
  destruct (b =? 34); [reflexivity|]. destruct (b =? 92); [reflexivity|]. destruct (b =? 114); [reflexivity|].
  destruct (b =? 110); [reflexivity|]. destruct (b =? 116); [reflexivity|]. destruct (b =? 48); [reflexivity|].
  destruct (b =? 39); reflexivity.
Qed.

Lemma named_not_x b c : named_escape b = Some c -> True. Proof. trivial. Qed.

Lemma spells_hex_two c h1 h2 : spells_hex c [h1; h2] -> parse_hex_u8 [h1; h2] = Some c /\ h1 < 128 /\ h2 < 128.
Proof.
  intros S. pose proof (spells_nat_all _ _ _ _ S) as A. inversion A as [|? ? (d1 & H1) A2]; subst. inversion A2 as [|? ? (d2 & H2) _]; subst.
  destruct (hexval_bound _ _ H1) as [B1 R1]. destruct (hexval_bound _ _ H2) as [B2 R2].
  pose proof (spells_nat_val _ _ _ _ S) as V. cbn in V. rewrite H1, H2 in V. inversion V; subst.
  split; [|lia].
  unfold parse_hex_u8. apply parse_unsigned_spelled; [exact hex_no_plus|exact S|lia].
Qed.

Lemma unesc_char q c w1 rest : spells_char q c w1 -> unesc (w1 ++ rest) None = prepend (encode c) (unesc rest None).
Proof.
  intros S. destruct S as [c Sc Hb Hq|c b Hn|c h1 h2 Hh|c ds Sc Hh Hl].
  - apply unesc_copy. now apply encode_no_backslash.
  - cbn [app]. rewrite unesc_named, Hn.
    assert (encode c = [c]) as ->; [|reflexivity].
    unfold named_escape in Hn.
    destruct (b =? 34); [inversion Hn; reflexivity|]. destruct (b =? 92); [inversion Hn; reflexivity|].
    destruct (b =? 114); [inversion Hn; reflexivity|]. destruct (b =? 110); [inversion Hn; reflexivity|].
    destruct (b =? 116); [inversion Hn; reflexivity|]. destruct (b =? 48); [inversion Hn; reflexivity|].
    destruct (b =? 39); [inversion Hn; reflexivity|discriminate].
  - cbn [app]. rewrite unesc_named. replace (named_escape 120) with (@None N) by reflexivity.
    replace (120 =? 120) with true by reflexivity. cbv beta iota.
    destruct (spells_hex_two _ _ _ Hh) as (P & L1 & L2). apply N.ltb_lt in L1, L2. unfold byte in *. rewrite L1, L2, P. reflexivity.
  - rewrite <- !app_assoc. cbn [app]. rewrite unesc_named. replace (named_escape 117) with (@None N) by reflexivity.
    replace (117 =? 120) with false by reflexivity. replace (117 =? 117) with true by reflexivity. cbv beta iota.
    rewrite unesc_in_unicode.
    + cbn [app]. unfold unicode_escape.
      assert (L : ((length ds <? 2)%nat || (6 <? length ds)%nat) = false).
      { apply orb_false_iff. split; apply Nat.ltb_ge; lia. }
      rewrite L. unfold parse_hex_u32.
      rewrite (parse_unsigned_spelled 16 hexval u32_max c ds hex_no_plus Hh).
      * unfold push_char. apply scalarb_spec in Sc. now rewrite Sc.
      * apply scalar_lt in Sc. unfold u32_max. lia.
    + eapply Forall_impl; [|exact (spells_nat_all _ _ _ _ Hh)]. intros b (d & Hd) ->. cbv in Hd. discriminate.
Qed.

Theorem unesc_string q cs w rest : spells_string q cs w -> unesc (w ++ rest) None = prepend (utf8 cs) (unesc rest None).
Proof.
  induction 1 as [|c cs w1 w2 Hc _ IH]; [now rewrite prepend_nil|].
  rewrite <- app_assoc, (unesc_char q c w1 (w2 ++ rest) Hc), IH, prepend_app. reflexivity.
Qed.

(* theorem (2): unescape is a left inverse of every spelling *)
Theorem unescape_spelled q cs w : spells_string q cs w -> unescape w = Some (utf8 cs).
Proof.
  intros S. unfold unescape. rewrite <- (app_nil_r w), (unesc_string q cs w [] S). cbn. now rewrite app_nil_r.
Qed.

(* ---------------- what the reader slices out of the unescaped literal ---------------- *)
Local Close Scope N_scope.

Lemma scalars_spec cs : scalars cs = true -> Forall scalar cs.
Proof.
  unfold scalars. rewrite forallb_forall, Forall_forall. intros H c Hc. apply scalarb_spec. now apply H.
Qed.
Lemma utf8_valid cs : scalars cs = true -> valid_utf8 (utf8 cs).
Proof. intros H. exists cs. split; [now apply scalars_spec|reflexivity]. Qed.

Lemma nth_first_not_cont s (q : byte) : valid_utf8 s -> is_cont q = false -> is_cont (nth 0 (s ++ [q]) 0%N) = false.
Proof.
  intros V Q. destruct s as [|b r]; [exact Q|]. cbn. apply (valid_first_not_cont (b :: r) V). discriminate.
Qed.

Lemma str_slice_quoted (q : byte) s : is_cont q = false -> valid_utf8 s -> str_slice (q :: s ++ [q]) 1 = Some s.
Proof.
  intros Q V. unfold str_slice. cbn [length]. rewrite app_length. cbn [length].
  replace (length s + 1) with (S (length s)) by lia.
  assert (B1 : boundaryb (q :: s ++ [q]) 1 = true).
  { apply boundaryb_spec. right. cbn [length]. rewrite app_length. cbn [length]. split; [lia|].
    cbn [nth]. now apply nth_first_not_cont. }
  assert (B2 : boundaryb (q :: s ++ [q]) (S (length s)) = true).
  { apply boundaryb_spec. right. cbn [length]. rewrite app_length. cbn [length]. split; [lia|].
    cbn [nth]. rewrite app_nth2 by lia. now rewrite Nat.sub_diag. }
  rewrite B1, B2. replace (1 <=? S (length s)) with true by (symmetry; apply Nat.leb_le; lia).
  cbn [andb]. change (skipn 1 (q :: s ++ [q])) with (s ++ [q]). f_equal. replace (S (length s) - 1) with (length s + 0) by lia.
  rewrite firstn_app_2. cbn. now rewrite app_nil_r.
Qed.

Lemma str_slice_insens s : valid_utf8 s -> str_slice (94%N :: 34%N :: s ++ [34%N]) 2 = Some s.
Proof.
  intros V. unfold str_slice. cbn [length]. rewrite app_length. cbn [length].
  replace (S (length s + 1)) with (S (S (length s))) by lia.
  assert (B1 : boundaryb (94%N :: 34%N :: s ++ [34%N]) 2 = true).
  { apply boundaryb_spec. right. cbn [length]. rewrite app_length. cbn [length]. split; [lia|].
    cbn [nth]. now apply nth_first_not_cont. }
  assert (B2 : boundaryb (94%N :: 34%N :: s ++ [34%N]) (S (S (length s))) = true).
  { apply boundaryb_spec. right. cbn [length]. rewrite app_length. cbn [length]. split; [lia|].
    cbn [nth]. rewrite app_nth2 by lia. now rewrite Nat.sub_diag. }
  rewrite B1, B2. replace (2 <=? S (S (length s))) with true by (symmetry; apply Nat.leb_le; lia).
  cbn [andb]. change (skipn 2 (94%N :: 34%N :: s ++ [34%N])) with (s ++ [34%N]). f_equal. replace (S (S (length s)) - 2) with (length s + 0) by lia.
  rewrite firstn_app_2. cbn. now rewrite app_nil_r.
Qed.

Lemma ident_start_ascii b : ident_start b = true -> is_cont b = false.
Proof.
  unfold ident_start, is_cont. intros H.
  destruct (N.leb_spec 128 b); [|reflexivity]. destruct (N.ltb_spec b 192); [|reflexivity].
  exfalso. repeat (apply orb_prop in H; destruct H as [H|H]); try (apply andb_prop in H; destruct H as [H1 H2]);
    try apply N.eqb_eq in H; try apply N.leb_le in H1; try apply N.leb_le in H2; lia.
Qed.

Lemma str_from1_tag t : tag_ok t = true -> str_from1 (35%N :: t) = Some t.
Proof.
  intros H. unfold str_from1. cbn [length].
  assert (B : boundaryb (35%N :: t) 1 = true).
  { apply boundaryb_spec. destruct t as [|b r]; [discriminate|]. right. cbn [length]. split; [lia|].
    cbn [nth]. cbn in H. apply andb_prop in H. now apply ident_start_ascii. }
  rewrite B. reflexivity.
Qed.

Lemma unescape_quoted (q : byte) q' cs ew : q <> 92%N -> spells_string q' cs ew ->
  unescape (q :: ew ++ [q]) = Some (q :: utf8 cs ++ [q]).
Proof.
  intros Hq S. unfold unescape. cbn [unesc]. apply N.eqb_neq in Hq. rewrite Hq.
  rewrite (unesc_string q' cs ew [q] S). cbn [unesc]. rewrite Hq. cbn. reflexivity.
Qed.
Lemma unescape_quoted_char (q : byte) q' c ew : q <> 92%N -> spells_char q' c ew ->
  unescape (q :: ew ++ [q]) = Some (q :: encode c ++ [q]).
Proof.
  intros Hq S. unfold unescape. cbn [unesc]. apply N.eqb_neq in Hq. rewrite Hq.
  rewrite (unesc_char q' c ew [q] S). cbn [unesc]. rewrite Hq. cbn. reflexivity.
Qed.
Lemma unescape_insens q' cs ew : spells_string q' cs ew ->
  unescape (94%N :: 34%N :: ew ++ [34%N]) = Some (94%N :: 34%N :: utf8 cs ++ [34%N]).
Proof.
  intros S. unfold unescape. cbn [unesc]. replace (94 =? 92)%N with false by reflexivity.
  replace (34 =? 92)%N with false by reflexivity.
  rewrite (unesc_string q' cs ew [34%N] S). cbn. reflexivity.
Qed.
Lemma encode_valid c : scalar c -> valid_utf8 (encode c).
Proof. intros S. exists [c]. split; [constructor; auto|]. cbn. now rewrite app_nil_r. Qed.
