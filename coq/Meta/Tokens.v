(* C07 - the vocabulary of the grammar reader: the rules of pest's own grammar (meta/src/grammar.pest),
   token forests labelled with them, the text a token covers, and the meta-grammar itself as a
   Peg.Ast grammar (so that Peg.Spec.eval can run it).

   [mrule] is the `Rule` enum of pest_meta::parser (one constructor per rule of grammar.pest, in
   file order = the numeric ids Peg.Spec assigns; [MEOI] is the id one past the end).
   [meta_grammar] is a transcription of grammar.pest; on every run the harness prints the AST that the
   real reader produces for /repo/meta/src/grammar.pest and the runner compares it with this term. *)
From Coq Require Import List Arith NArith ZArith Bool String Ascii.
Import ListNotations.
Require Import PV.Comb.PState PV.Iter.Queue PV.Peg.Ast.

Inductive mrule :=
  MGrammarRules | MGrammarRule | MAssignmentOperator | MOpeningBrace | MClosingBrace | MOpeningParen
  | MClosingParen | MOpeningBrack | MClosingBrack | MModifier | MSilentModifier | MAtomicModifier |
  MCompoundAtomicModifier | MNonAtomicModifier | MTagId | MNodeTag | MExpression | MTerm | MNode |
  MTerminal | MPrefixOperator | MInfixOperator | MPostfixOperator | MPositivePredicateOperator |
  MNegativePredicateOperator | MSequenceOperator | MChoiceOperator | MOptionalOperator |
  MRepeatOperator | MRepeatOnceOperator | MRepeatExact | MRepeatMin | MRepeatMax | MRepeatMinMax |
  MNumber | MInteger | MComma | MPush | MPushLiteral | MPeekSlice | MIdentifier | MAlpha | MAlphaNum
  | MString | MInsensitiveString | MRange | MCharacter | MInnerStr | MInnerChr | MEscape | MCode |
  MUnicode | MHexDigit | MQuote | MSingleQuote | MRangeOperator | MNewline | MWhitespace |
  MLineComment | MBlockComment | MComment | MSpace | MGrammarDoc | MLineDoc | MInnerDoc | MEOI.
Definition all_mrules : list mrule :=
  [MGrammarRules; MGrammarRule; MAssignmentOperator; MOpeningBrace; MClosingBrace; MOpeningParen;
   MClosingParen; MOpeningBrack; MClosingBrack; MModifier; MSilentModifier; MAtomicModifier;
   MCompoundAtomicModifier; MNonAtomicModifier; MTagId; MNodeTag; MExpression; MTerm; MNode;
   MTerminal; MPrefixOperator; MInfixOperator; MPostfixOperator; MPositivePredicateOperator;
   MNegativePredicateOperator; MSequenceOperator; MChoiceOperator; MOptionalOperator;
   MRepeatOperator; MRepeatOnceOperator; MRepeatExact; MRepeatMin; MRepeatMax; MRepeatMinMax;
   MNumber; MInteger; MComma; MPush; MPushLiteral; MPeekSlice; MIdentifier; MAlpha; MAlphaNum;
   MString; MInsensitiveString; MRange; MCharacter; MInnerStr; MInnerChr; MEscape; MCode; MUnicode;
   MHexDigit; MQuote; MSingleQuote; MRangeOperator; MNewline; MWhitespace; MLineComment;
   MBlockComment; MComment; MSpace; MGrammarDoc; MLineDoc; MInnerDoc].
Definition mrule_name (r : mrule) : name :=
  match r with
  | MGrammarRules => nm "grammar_rules"
  | MGrammarRule => nm "grammar_rule"
  | MAssignmentOperator => nm "assignment_operator"
  | MOpeningBrace => nm "opening_brace"
  | MClosingBrace => nm "closing_brace"
  | MOpeningParen => nm "opening_paren"
  | MClosingParen => nm "closing_paren"
  | MOpeningBrack => nm "opening_brack"
  | MClosingBrack => nm "closing_brack"
  | MModifier => nm "modifier"
  | MSilentModifier => nm "silent_modifier"
  | MAtomicModifier => nm "atomic_modifier"
  | MCompoundAtomicModifier => nm "compound_atomic_modifier"
  | MNonAtomicModifier => nm "non_atomic_modifier"
  | MTagId => nm "tag_id"
  | MNodeTag => nm "node_tag"
  | MExpression => nm "expression"
  | MTerm => nm "term"
  | MNode => nm "node"
  | MTerminal => nm "terminal"
  | MPrefixOperator => nm "prefix_operator"
  | MInfixOperator => nm "infix_operator"
  | MPostfixOperator => nm "postfix_operator"
  | MPositivePredicateOperator => nm "positive_predicate_operator"
  | MNegativePredicateOperator => nm "negative_predicate_operator"
  | MSequenceOperator => nm "sequence_operator"
  | MChoiceOperator => nm "choice_operator"
  | MOptionalOperator => nm "optional_operator"
  | MRepeatOperator => nm "repeat_operator"
  | MRepeatOnceOperator => nm "repeat_once_operator"
  | MRepeatExact => nm "repeat_exact"
  | MRepeatMin => nm "repeat_min"
  | MRepeatMax => nm "repeat_max"
  | MRepeatMinMax => nm "repeat_min_max"
  | MNumber => nm "number"
  | MInteger => nm "integer"
  | MComma => nm "comma"
  | MPush => nm "_push"
  | MPushLiteral => nm "_push_literal"
  | MPeekSlice => nm "peek_slice"
  | MIdentifier => nm "identifier"
  | MAlpha => nm "alpha"
  | MAlphaNum => nm "alpha_num"
  | MString => nm "string"
  | MInsensitiveString => nm "insensitive_string"
  | MRange => nm "range"
  | MCharacter => nm "character"
  | MInnerStr => nm "inner_str"
  | MInnerChr => nm "inner_chr"
  | MEscape => nm "escape"
  | MCode => nm "code"
  | MUnicode => nm "unicode"
  | MHexDigit => nm "hex_digit"
  | MQuote => nm "quote"
  | MSingleQuote => nm "single_quote"
  | MRangeOperator => nm "range_operator"
  | MNewline => nm "newline"
  | MWhitespace => nm "WHITESPACE"
  | MLineComment => nm "line_comment"
  | MBlockComment => nm "block_comment"
  | MComment => nm "COMMENT"
  | MSpace => nm "space"
  | MGrammarDoc => nm "grammar_doc"
  | MLineDoc => nm "line_doc"
  | MInnerDoc => nm "inner_doc"
  | MEOI => nm "EOI"
  end.
Definition mid (r : mrule) : nat :=
  match r with
  | MGrammarRules => 0 | MGrammarRule => 1 | MAssignmentOperator => 2 | MOpeningBrace => 3 
  | MClosingBrace => 4 | MOpeningParen => 5 | MClosingParen => 6 | MOpeningBrack => 7 
  | MClosingBrack => 8 | MModifier => 9 | MSilentModifier => 10 | MAtomicModifier => 11 
  | MCompoundAtomicModifier => 12 | MNonAtomicModifier => 13 | MTagId => 14 | MNodeTag => 15 
  | MExpression => 16 | MTerm => 17 | MNode => 18 | MTerminal => 19 | MPrefixOperator => 20 
  | MInfixOperator => 21 | MPostfixOperator => 22 | MPositivePredicateOperator => 23 
  | MNegativePredicateOperator => 24 | MSequenceOperator => 25 | MChoiceOperator => 26 
  | MOptionalOperator => 27 | MRepeatOperator => 28 | MRepeatOnceOperator => 29 
  | MRepeatExact => 30 | MRepeatMin => 31 | MRepeatMax => 32 | MRepeatMinMax => 33 | MNumber => 34 
  | MInteger => 35 | MComma => 36 | MPush => 37 | MPushLiteral => 38 | MPeekSlice => 39 
  | MIdentifier => 40 | MAlpha => 41 | MAlphaNum => 42 | MString => 43 | MInsensitiveString => 44 
  | MRange => 45 | MCharacter => 46 | MInnerStr => 47 | MInnerChr => 48 | MEscape => 49 
  | MCode => 50 | MUnicode => 51 | MHexDigit => 52 | MQuote => 53 | MSingleQuote => 54 
  | MRangeOperator => 55 | MNewline => 56 | MWhitespace => 57 | MLineComment => 58 
  | MBlockComment => 59 | MComment => 60 | MSpace => 61 | MGrammarDoc => 62 | MLineDoc => 63 
  | MInnerDoc => 64 | MEOI => 65 
  end.

Definition mrule_of_nat (n : nat) : mrule := nth n all_mrules MEOI.

Definition mrule_eqb (a b : mrule) : bool := Nat.eqb (mid a) (mid b).

(* a token pair of the meta-grammar: rule, span, children.  (Node tags do not occur: grammar.pest has none.) *)
Inductive mtree := MT (r : mrule) (s e : nat) (ch : list mtree).
Definition m_rule (t : mtree) : mrule := match t with MT r _ _ _ => r end.
Definition m_start (t : mtree) : nat := match t with MT _ s _ _ => s end.
Definition m_end (t : mtree) : nat := match t with MT _ _ e _ => e end.
Definition m_children (t : mtree) : list mtree := match t with MT _ _ _ ch => ch end.

Fixpoint of_tree (t : tree) : mtree :=
  match t with
  | Node r _ s e ch => MT (mrule_of_nat r) s e (map of_tree ch)
  end.

Fixpoint msize (t : mtree) : nat :=
  match t with
  | MT _ _ _ ch => S ((fix fs (l : list mtree) : nat := match l with [] => 0 | c :: l' => msize c + fs l' end) ch)
  end.
Fixpoint mfsize (f : list mtree) : nat := match f with [] => 0 | t :: f' => msize t + mfsize f' end.

(* Pair::as_str : input[start..end] *)
Definition slice (w : list byte) (s e : nat) : list byte := firstn (e - s) (skipn s w).
Definition text (w : list byte) (t : mtree) : list byte := slice w (m_start t) (m_end t).

(* ---------------------------------------------------------------------------------------------
   grammar.pest
   --------------------------------------------------------------------------------------------- *)
Definition Rf (s : string) : expr := EIdent (nm s).
Definition Lt (s : string) : expr := EStr (nm s).
(* `a ~ b ~ c` and `a | b | c` are read as LEFT-nested trees (this very property) *)
Definition seql (x : expr) (l : list expr) : expr := fold_left ESeq l x.
Definition chol (x : expr) (l : list expr) : expr := fold_left EChoice l x.
Definition mk (n : string) (t : rtype) (e : expr) : rule := {| rname := nm n; rty := t; rexpr := e |}.

Definition meta_grammar : grammar := [
  mk "grammar_rules" RSilent (seql (Rf "SOI") [ERep (Rf "grammar_doc"); ERep (Rf "grammar_rule"); Rf "EOI"]);
  mk "grammar_rule" RNormal (chol (seql (Rf "identifier") [Rf "assignment_operator"; EOpt (Rf "modifier"); Rf "opening_brace"; Rf "expression"; Rf "closing_brace"]) [Rf "line_doc"]);
  mk "assignment_operator" RNormal (Lt "=");
  mk "opening_brace" RNormal (Lt "{");
  mk "closing_brace" RNormal (Lt "}");
  mk "opening_paren" RNormal (Lt "(");
  mk "closing_paren" RNormal (Lt ")");
  mk "opening_brack" RNormal (Lt "[");
  mk "closing_brack" RNormal (Lt "]");
  mk "modifier" RSilent (chol (Rf "silent_modifier") [Rf "atomic_modifier"; Rf "compound_atomic_modifier"; Rf "non_atomic_modifier"]);
  mk "silent_modifier" RNormal (Lt "_");
  mk "atomic_modifier" RNormal (Lt "@");
  mk "compound_atomic_modifier" RNormal (Lt "$");
  mk "non_atomic_modifier" RNormal (Lt "!");
  mk "tag_id" RAtomic (seql (Lt "#") [chol (Lt "_") [Rf "alpha"]; ERep (chol (Lt "_") [Rf "alpha_num"])]);
  mk "node_tag" RSilent (seql (Rf "tag_id") [Rf "assignment_operator"]);
  mk "expression" RNormal (seql (EOpt (Rf "choice_operator")) [Rf "term"; ERep (seql (Rf "infix_operator") [Rf "term"])]);
  mk "term" RNormal (seql (EOpt (Rf "node_tag")) [ERep (Rf "prefix_operator"); Rf "node"; ERep (Rf "postfix_operator")]);
  mk "node" RSilent (chol (seql (Rf "opening_paren") [Rf "expression"; Rf "closing_paren"]) [Rf "terminal"]);
  mk "terminal" RSilent (chol (Rf "_push_literal") [Rf "_push"; Rf "peek_slice"; Rf "identifier"; Rf "string"; Rf "insensitive_string"; Rf "range"]);
  mk "prefix_operator" RSilent (chol (Rf "positive_predicate_operator") [Rf "negative_predicate_operator"]);
  mk "infix_operator" RSilent (chol (Rf "sequence_operator") [Rf "choice_operator"]);
  mk "postfix_operator" RSilent (chol (Rf "optional_operator") [Rf "repeat_operator"; Rf "repeat_once_operator"; Rf "repeat_exact"; Rf "repeat_min"; Rf "repeat_max"; Rf "repeat_min_max"]);
  mk "positive_predicate_operator" RNormal (Lt "&");
  mk "negative_predicate_operator" RNormal (Lt "!");
  mk "sequence_operator" RNormal (Lt "~");
  mk "choice_operator" RNormal (Lt "|");
  mk "optional_operator" RNormal (Lt "?");
  mk "repeat_operator" RNormal (Lt "*");
  mk "repeat_once_operator" RNormal (Lt "+");
  mk "repeat_exact" RNormal (seql (Rf "opening_brace") [Rf "number"; Rf "closing_brace"]);
  mk "repeat_min" RNormal (seql (Rf "opening_brace") [Rf "number"; Rf "comma"; Rf "closing_brace"]);
  mk "repeat_max" RNormal (seql (Rf "opening_brace") [Rf "comma"; Rf "number"; Rf "closing_brace"]);
  mk "repeat_min_max" RNormal (seql (Rf "opening_brace") [Rf "number"; Rf "comma"; Rf "number"; Rf "closing_brace"]);
  mk "number" RAtomic (ERepOnce (ERange 48 57));
  mk "integer" RAtomic (chol (Rf "number") [seql (Lt "-") [ERep (Lt "0"); ERange 49 57; EOpt (Rf "number")]]);
  mk "comma" RNormal (Lt ",");
  mk "_push" RNormal (seql (Lt "PUSH") [Rf "opening_paren"; Rf "expression"; Rf "closing_paren"]);
  mk "_push_literal" RNormal (seql (Lt "PUSH_LITERAL") [Rf "opening_paren"; Rf "string"; Rf "closing_paren"]);
  mk "peek_slice" RNormal (seql (Lt "PEEK") [Rf "opening_brack"; EOpt (Rf "integer"); Rf "range_operator"; EOpt (Rf "integer"); Rf "closing_brack"]);
  mk "identifier" RAtomic (seql (ENegPred (Lt "PUSH")) [chol (Lt "_") [Rf "alpha"]; ERep (chol (Lt "_") [Rf "alpha_num"])]);
  mk "alpha" RSilent (chol (ERange 97 122) [ERange 65 90]);
  mk "alpha_num" RSilent (chol (Rf "alpha") [ERange 48 57]);
  mk "string" RCompound (seql (Rf "quote") [Rf "inner_str"; Rf "quote"]);
  mk "insensitive_string" RNormal (seql (Lt "^") [Rf "string"]);
  mk "range" RNormal (seql (Rf "character") [Rf "range_operator"; Rf "character"]);
  mk "character" RCompound (seql (Rf "single_quote") [Rf "inner_chr"; Rf "single_quote"]);
  mk "inner_str" RAtomic (seql (ERep (seql (ENegPred (chol (Lt """") [Lt "\"])) [Rf "ANY"])) [EOpt (seql (Rf "escape") [Rf "inner_str"])]);
  mk "inner_chr" RAtomic (chol (Rf "escape") [seql (ENegPred (chol (Lt "'") [Lt "\"])) [Rf "ANY"]]);
  mk "escape" RAtomic (seql (Lt "\") [chol (Lt """") [Lt "\"; Lt "r"; Lt "n"; Lt "t"; Lt "0"; Lt "'"; Rf "code"; Rf "unicode"]]);
  mk "code" RAtomic (seql (Lt "x") [ERepExact (Rf "hex_digit") 2]);
  mk "unicode" RAtomic (seql (Lt "u") [Rf "opening_brace"; ERepMinMax (Rf "hex_digit") 2 6; Rf "closing_brace"]);
  mk "hex_digit" RAtomic (chol (ERange 48 57) [ERange 97 102; ERange 65 70]);
  mk "quote" RNormal (Lt """");
  mk "single_quote" RNormal (Lt "'");
  mk "range_operator" RNormal (Lt "..");
  mk "newline" RSilent (chol (EStr [10%N]) [EStr [13%N; 10%N]]);
  mk "WHITESPACE" RSilent (chol (Lt " ") [EStr [9%N]; Rf "newline"]);
  mk "line_comment" RSilent (seql (Lt "//") [ENegPred (chol (Lt "/") [Lt "!"]); ERep (seql (ENegPred (Rf "newline")) [Rf "ANY"])]);
  mk "block_comment" RSilent (seql (Lt "/*") [ERep (chol (Rf "block_comment") [seql (ENegPred (Lt "*/")) [Rf "ANY"]]); Lt "*/"]);
  mk "COMMENT" RSilent (chol (Rf "block_comment") [Rf "line_comment"]);
  mk "space" RSilent (chol (Lt " ") [EStr [9%N]]);
  mk "grammar_doc" RCompound (seql (Lt "//!") [EOpt (Rf "space"); Rf "inner_doc"]);
  mk "line_doc" RCompound (seql (Lt "///") [EOpt (Rf "space"); Rf "inner_doc"]);
  mk "inner_doc" RAtomic (ERep (seql (ENegPred (Rf "newline")) [Rf "ANY"]))
].

(* the ids Peg.Spec gives to the rules are the positions in [all_mrules] *)
Example meta_grammar_names : map rname meta_grammar = map mrule_name all_mrules.
Proof. vm_compute. reflexivity. Qed.
Example mid_index : map mid all_mrules = seq 0 65.
Proof. vm_compute. reflexivity. Qed.
Lemma mrule_of_nat_mid r : mrule_of_nat (mid r) = r.
Proof. destruct r; reflexivity. Qed.
