(* C07 - the concrete syntax as TEXT: the relation "w is a spelling of the concrete grammar cg", with every
   freedom grammar.pest leaves: any amount of whitespace, nested block comments and line comments between
   any two tokens of a non-atomic rule (none inside the atomic / compound-atomic ones: identifiers, tags,
   numbers, string and character literals), `///` lines between rules, `//!` lines at the top, the escape
   forms of Spell.v, leading zeros, a leading `|` in any expression.
   [spells_grammar extras G text]: text is such a spelling of a well-parenthesised, writable concrete
   grammar whose abstraction is G.  This is the hypothesis of the pinned statement C07_statement. *)
From Coq Require Import List Arith NArith ZArith Bool.
Import ListNotations.
Require Import PV.Comb.PState PV.Comb.Bytes PV.Comb.Utf8 PV.Peg.Ast.
Require Import PV.Meta.Tokens PV.Meta.Unescape PV.Meta.Spell.
Local Open Scope N_scope.

Definition starts_with (p w : list byte) : Prop := exists r, w = p ++ r.

(* WHITESPACE = " " | "\t" | "\n" | "\r\n" *)
Inductive white : list byte -> Prop :=
| w_space : white [32] | w_tab : white [9] | w_lf : white [10] | w_crlf : white [13; 10].

(* block_comment = "/*" ~ (block_comment | !"*/" ~ ANY)* ~ "*/" *)
Inductive block_comment : list byte -> Prop :=
| bc_intro body : block_body body -> block_comment ([47; 42] ++ body ++ [42; 47])
with block_body : list byte -> Prop :=
| bb_nil : block_body []
| bb_nested c rest : block_comment c -> block_body rest -> block_body (c ++ rest)
| bb_char ch rest : scalar ch -> block_body rest ->
    ~ starts_with [42; 47] (encode ch ++ rest ++ [42; 47]) ->      (* not the closing star-slash *)
    ~ starts_with [47; 42] (encode ch ++ rest ++ [42; 47]) ->      (* a slash-star here would open a nested comment *)
    block_body (encode ch ++ rest).

(* line_comment = "//" ~ !("/" | "!") ~ (!newline ~ ANY)* ; followed by the newline that ends it *)
Definition line_comment (w : list byte) : Prop :=
  exists cs nl, w = [47; 47] ++ utf8 cs ++ nl /\ Forall scalar cs /\ ~ In 10 cs /\
    (match cs with c :: _ => c <> 47 /\ c <> 33 | [] => True end) /\
    last cs 0 <> 13 /\ (nl = [10] \/ nl = [13; 10]).

(* what the implicit skipping between tokens consumes *)
Inductive gap : list byte -> Prop :=
| gap_nil : gap []
| gap_white a g : white a -> gap g -> gap (a ++ g)
| gap_block a g : block_comment a -> gap g -> gap (a ++ g)
| gap_line a g : line_comment a -> gap g -> gap (a ++ g).

(* `///` or `//!` line: lead ~ space? ~ (!newline ~ ANY)* and its newline *)
Definition doc_line (lead : list byte) (w : list byte) : Prop :=
  exists cs nl, w = lead ++ utf8 cs ++ nl /\ Forall scalar cs /\ ~ In 10 cs /\ last cs 0 <> 13 /\ (nl = [10] \/ nl = [13; 10]).

Definition quoted (q : byte) (ew : list byte) : list byte := q :: ew ++ [q].
Definition opt_bar (bar : bool) (g : list byte) : list byte := if bar then 124 :: g else [].

Inductive spells_opt_int : option Z -> list byte -> Prop :=
| soi_none : spells_opt_int None []
| soi_some z l g : spells_int z l -> gap g -> spells_opt_int (Some z) (l ++ g).

Inductive prints : cexpr -> list byte -> Prop :=
| p_str cs ew : spells_string 34 cs ew -> prints (CStr cs) (quoted 34 ew)
| p_insens cs ew g : spells_string 34 cs ew -> gap g -> prints (CInsens cs) (94 :: g ++ quoted 34 ew)
| p_range lo hi e1 e2 g1 g2 : spells_char 39 lo e1 -> spells_char 39 hi e2 -> gap g1 -> gap g2 ->
    prints (CRange lo hi) (quoted 39 e1 ++ g1 ++ [46; 46] ++ g2 ++ quoted 39 e2)
| p_ident n : prints (CIdent n) n
| p_peek i j wi wj g1 g2 g3 : spells_opt_int i wi -> spells_opt_int j wj -> gap g1 -> gap g2 -> gap g3 ->
    prints (CPeek i j) ([80; 69; 69; 75] ++ g1 ++ [91] ++ g2 ++ wi ++ [46; 46] ++ g3 ++ wj ++ [93])
| p_pos c w g : prints c w -> gap g -> prints (CPos c) (38 :: g ++ w)
| p_neg c w g : prints c w -> gap g -> prints (CNeg c) (33 :: g ++ w)
| p_seq a b wa wb g1 g2 : prints a wa -> prints b wb -> gap g1 -> gap g2 -> prints (CSeq a b) (wa ++ g1 ++ [126] ++ g2 ++ wb)
| p_choice a b wa wb g1 g2 : prints a wa -> prints b wb -> gap g1 -> gap g2 -> prints (CChoice a b) (wa ++ g1 ++ [124] ++ g2 ++ wb)
| p_opt c w g : prints c w -> gap g -> prints (COpt c) (w ++ g ++ [63])
| p_rep c w g : prints c w -> gap g -> prints (CRep c) (w ++ g ++ [42])
| p_rep_once c w g : prints c w -> gap g -> prints (CRepOnce c) (w ++ g ++ [43])
| p_rep_exact c w n nw g1 g2 g3 : prints c w -> spells_num n nw -> gap g1 -> gap g2 -> gap g3 ->
    prints (CRepExact c n) (w ++ g1 ++ [123] ++ g2 ++ nw ++ g3 ++ [125])
| p_rep_min c w n nw g1 g2 g3 g4 : prints c w -> spells_num n nw -> gap g1 -> gap g2 -> gap g3 -> gap g4 ->
    prints (CRepMin c n) (w ++ g1 ++ [123] ++ g2 ++ nw ++ g3 ++ [44] ++ g4 ++ [125])
| p_rep_max c w n nw g1 g2 g3 g4 : prints c w -> spells_num n nw -> gap g1 -> gap g2 -> gap g3 -> gap g4 ->
    prints (CRepMax c n) (w ++ g1 ++ [123] ++ g2 ++ [44] ++ g3 ++ nw ++ g4 ++ [125])
| p_rep_min_max c w m n mw nw g1 g2 g3 g4 g5 : prints c w -> spells_num m mw -> spells_num n nw ->
    gap g1 -> gap g2 -> gap g3 -> gap g4 -> gap g5 ->
    prints (CRepMinMax c m n) (w ++ g1 ++ [123] ++ g2 ++ mw ++ g3 ++ [44] ++ g4 ++ nw ++ g5 ++ [125])
| p_push bar c w g1 g2 g3 gb : prints c w -> gap g1 -> gap g2 -> gap g3 -> gap gb ->
    prints (CPush bar c) ([80; 85; 83; 72] ++ g1 ++ [40] ++ g2 ++ opt_bar bar gb ++ w ++ g3 ++ [41])
| p_push_lit cs ew g1 g2 g3 : spells_string 34 cs ew -> gap g1 -> gap g2 -> gap g3 ->
    prints (CPushLit cs) ([80; 85; 83; 72; 95; 76; 73; 84; 69; 82; 65; 76] ++ g1 ++ [40] ++ g2 ++ quoted 34 ew ++ g3 ++ [41])
| p_tag c w t g1 g2 : prints c w -> gap g1 -> gap g2 -> prints (CTag c t) (35 :: t ++ g1 ++ [61] ++ g2 ++ w)
| p_paren bar c w g1 g2 gb : prints c w -> gap g1 -> gap g2 -> gap gb ->
    prints (CParen bar c) ([40] ++ g1 ++ opt_bar bar gb ++ w ++ g2 ++ [41]).

Definition modifier_text (t : rtype) : list byte :=
  match t with RNormal => [] | RSilent => [95] | RAtomic => [64] | RCompound => [36] | RNonAtomic => [33] end.

Inductive prints_docs (lead : list byte) : nat -> list byte -> Prop :=
| pd_nil : prints_docs lead 0 []
| pd_cons n d g rest : doc_line lead d -> gap g -> prints_docs lead n rest -> prints_docs lead (S n) (d ++ g ++ rest).

(* name = modifier? { |? body }  preceded by its `///` lines, followed by a gap *)
Inductive prints_rule : crule -> list byte -> Prop :=
| pr_intro r dw bw g1 g2 g3 g4 g5 g6 gb : prints_docs [47; 47; 47] (cr_docs r) dw -> prints (cr_body r) bw ->
    gap g1 -> gap g2 -> gap g3 -> gap g4 -> gap g5 -> gap g6 -> gap gb -> (cr_ty r = RNormal -> g3 = []) ->
    prints_rule r (dw ++ cr_name r ++ g1 ++ [61] ++ g2 ++ modifier_text (cr_ty r) ++ g3 ++ [123] ++ g4 ++
                   opt_bar (cr_bar r) gb ++ bw ++ g5 ++ [125] ++ g6).
Inductive prints_rules : list crule -> list byte -> Prop :=
| prs_nil : prints_rules [] []
| prs_cons r rs w1 w2 : prints_rule r w1 -> prints_rules rs w2 -> prints_rules (r :: rs) (w1 ++ w2).

(* gap  `//!` lines  rules  trailing `///` lines (the last one may end the text without a newline: not modelled) *)
Definition prints_grammar (g : cgrammar) (text : list byte) : Prop :=
  exists g0 gd rs tr, text = g0 ++ gd ++ rs ++ tr /\ gap g0 /\
    prints_docs [47; 47; 33] (cg_docs g) gd /\ prints_rules (cg_rules g) rs /\ prints_docs [47; 47; 47] (cg_trailing g) tr.

Definition spells_grammar (extras : bool) (G : grammar) (text : list byte) : Prop :=
  exists cg, abs_grammar cg = G /\ prints_grammar cg text /\ valid_utf8 text /\
    Forall (fun r => wp (cr_body r) = true /\ writable extras (cr_body r) = true /\ ident_ok (cr_name r) = true) (cg_rules cg).
