(* C07 - the reader model (Consume.v) reads every spelling (Spell.v) back as the grammar that was written.
   Structure of the proof of [consume_spelling]:
     A4  postfix chains over atoms / parentheses / PUSH            (levels >= 4)
     A3  prefix operators outside the postfix chain                (level 3)
     A2  the tag outermost in the term                             (level 2)
     E   expressions: the canonical Pratt tree of the flattened term list, PrattInst.pratt_canonical
   by one induction on the concrete expression, for every fuel >= its nesting depth. *)
From Coq Require Import List Arith NArith ZArith Bool Lia.
Import ListNotations.
Require Import PV.Comb.PState PV.Comb.Bytes PV.Comb.Utf8 PV.Peg.Ast.
Require PV.Pratt.Syntax PV.Pratt.Model.
Require Import PV.Meta.Tokens PV.Meta.Unescape PV.Meta.Consume PV.Meta.Spell PV.Meta.LexProofs PV.Meta.PrattInst.

(* ---------------- shapes ---------------- *)
Section Shape.
Variable st : bool.
Variable w : list byte.

Lemma smatch_unfold r lx ch t :
  smatch st w (SK r lx ch) t <-> m_rule t = r /\ lex_ok st lx (text w t) /\ smatch_list st w ch (m_children t).
Proof.
  cbn [smatch].
  assert (E : forall ks ts,
    (fix all2 (ks : list skel) (ts : list mtree) {struct ks} : Prop :=
       match ks, ts with
       | [], [] => True
       | k' :: ks', t' :: ts' => smatch st w k' t' /\ all2 ks' ts'
       | _, _ => False
       end) ks ts <-> smatch_list st w ks ts).
  { induction ks as [|k ks IH]; intros [|t' ts']; cbn; try tauto. rewrite IH. tauto. }
  rewrite E. tauto.
Qed.

Lemma smatch_nil_inv ts : smatch_list st w [] ts -> ts = [].
Proof. destruct ts; cbn; [auto|tauto]. Qed.
Lemma smatch_cons_inv k ks ts : smatch_list st w (k :: ks) ts ->
  exists t ts', ts = t :: ts' /\ smatch st w k t /\ smatch_list st w ks ts'.
Proof. destruct ts as [|t ts']; cbn; [tauto|]. intros [H1 H2]. eauto. Qed.
Lemma smatch_app_inv k1 k2 ts : smatch_list st w (k1 ++ k2) ts ->
  exists t1 t2, ts = t1 ++ t2 /\ smatch_list st w k1 t1 /\ smatch_list st w k2 t2.
Proof.
  revert ts. induction k1 as [|k k1 IH]; intros ts H.
  - exists [], ts. cbn. auto.
  - cbn [app] in H. destruct (smatch_cons_inv _ _ _ H) as (t & ts' & -> & Hk & Hr).
    destruct (IH _ Hr) as (t1 & t2 & -> & H1 & H2). exists (t :: t1), t2. cbn. auto.
Qed.
Lemma smatch_leaf r t : smatch st w (sk r) t -> m_rule t = r.
Proof. unfold sk. rewrite smatch_unfold. tauto. Qed.
End Shape.

Tactic Notation "inv_cons" hyp(H) "as" ident(t) ident(ts) ident(Hk) ident(Hr) :=
  destruct (smatch_cons_inv _ _ _ _ _ H) as (t & ts & -> & Hk & Hr).
Tactic Notation "inv_cons_eq" hyp(H) "as" ident(t) ident(ts) ident(Hk) ident(Hr) ident(He) :=
  destruct (smatch_cons_inv _ _ _ _ _ H) as (t & ts & He & Hk & Hr).
Tactic Notation "inv_nil" hyp(H) := apply smatch_nil_inv in H; subst.

(* ---------------- the reader, unfolded one step ---------------- *)
Section Reader.
Variable fx : fixes.
Variable extras : bool.
Variable w : list byte.
Notation st := (negb (fix_insens fx)).
Notation un := (unaries_with fx extras w).
Notation other' := (other fx extras w).
Notation terminal' := (terminal fx extras w).
Notation pfold := (postfix_fold w).
Notation pstep := (postfix_step w).

Definition dispatch (rec : list mtree -> cres expr) (t0 : mtree) (ts1 : list mtree) : cres expr :=
  match ukind_of t0 with
  | UParen => un rec ts1
  | UPos => cmap EPosPred (un rec ts1)
  | UNeg => cmap ENegPred (un rec ts1)
  | UOther => other' rec t0 ts1
  end.

Definition not_assign (t : mtree) : Prop := is_rule MAssignmentOperator t = false.
Definition second_ok (ts : list mtree) : Prop := match ts with _ :: t1 :: _ => not_assign t1 | _ => True end.

Lemma un_untagged rec t0 ts1 : second_ok (t0 :: ts1) -> un rec (t0 :: ts1) = dispatch rec t0 ts1.
Proof.
  unfold second_ok, not_assign, dispatch. destruct ts1 as [|t1 ts2]; intros H; cbn [unaries_with]; [reflexivity|].
  rewrite H. reflexivity.
Qed.
Lemma un_tagged rec t0 t1 t2 ts3 : is_rule MAssignmentOperator t1 = true ->
  un rec (t0 :: t1 :: t2 :: ts3) =
  match str_from1 (text w t0) with None => CPanic | Some tg => with_tag extras tg (dispatch rec t2 ts3) end.
Proof. intros H. cbn [unaries_with]. rewrite H. reflexivity. Qed.

Lemma pfold_app n l1 l2 : pfold n (l1 ++ l2) = match pfold n l1 with COk n' => pfold n' l2 | e => e end.
Proof.
  revert n. induction l1 as [|p l1 IH]; intros n; [reflexivity|]. cbn [app postfix_fold].
  destruct (pstep n p); auto.
Qed.

(* ---------------- atoms ---------------- *)
Lemma range_cp_encode c : scalar c -> range_cp (encode c) = c.
Proof.
  intros S. unfold range_cp. rewrite <- (app_nil_r (encode c)), decode1_encode; [reflexivity|now apply scalar_lt].
Qed.

Lemma cont34 : is_cont 34%N = false. Proof. reflexivity. Qed.
Lemma cont39 : is_cont 39%N = false. Proof. reflexivity. Qed.

Lemma literal_string t cs k : smatch st w (sk_string cs) t -> scalars cs = true ->
  literal fx w t 1 k = COk (k (utf8 cs)).
Proof.
  unfold sk_string. rewrite smatch_unfold. intros (_ & (ew & T & S) & _) V.
  pose proof (unescape_quoted 34%N 34%N cs ew ltac:(discriminate) S) as U.
  pose proof (str_slice_quoted 34%N (utf8 cs) cont34 (utf8_valid cs V)) as SL.
  unfold literal. unfold byte in *. rewrite T, U, SL. reflexivity.
Qed.
Lemma literal_char t c k : smatch st w (sk_char c) t -> scalarb c = true ->
  literal fx w t 1 k = COk (k (encode c)).
Proof.
  unfold sk_char. rewrite smatch_unfold. intros (_ & (ew & T & S) & _) V. apply scalarb_spec in V.
  pose proof (unescape_quoted_char 39%N 39%N c ew ltac:(discriminate) S) as U.
  pose proof (str_slice_quoted 39%N (encode c) cont39 (encode_valid c V)) as SL.
  unfold literal. unfold byte in *. rewrite T, U, SL. reflexivity.
Qed.

Definition atom (c : cexpr) : Prop :=
  match c with CStr _ | CInsens _ | CRange _ _ | CIdent _ | CPeek _ _ | CPushLit _ => True | _ => False end.

Lemma peek_int t z : smatch st w (sk_int z) t -> i32_ok z = true -> m_rule t = MInteger /\ peek_index fx w t = COk z.
Proof.
  unfold sk_int. rewrite smatch_unfold. intros (R & L & _) B. split; [exact R|].
  unfold peek_index. cbn [lex_ok] in L. now rewrite (parse_i32_spelled z _ L B).
Qed.

(* the atoms: one token, evaluated by `terminal` *)
Lemma terminal_atom rec c ts : atom c -> writable extras c = true -> smatch_list st w (tc c) ts ->
  exists t0, ts = [t0] /\ ukind_of t0 = UOther /\ not_assign t0 /\ terminal' rec t0 = COk (abs c).
Proof.
  destruct c; cbn [atom]; try tauto; intros _ Wr H; unfold tc in H; cbn [both mkt snd] in H;
    inv_cons H as t ts' Hk Hr; inv_nil Hr; exists t; split; try reflexivity.
  - (* CStr *) pose proof Hk as Hk'. unfold sk_string in Hk'. rewrite smatch_unfold in Hk'. destruct Hk' as (R & _).
    unfold ukind_of, not_assign, is_rule, terminal. rewrite R. repeat split; try reflexivity.
    cbn [writable] in Wr. now rewrite (literal_string t cs EStr Hk Wr).
  - (* CInsens *) rewrite smatch_unfold in Hk. destruct Hk as (R & L & Hc).
    unfold ukind_of, not_assign, is_rule, terminal. rewrite R. repeat split; try reflexivity.
    cbn [writable] in Wr. inv_cons Hc as s0 r0 Hs Hr0. inv_nil Hr0.
    destruct (fix_insens fx) eqn:F; cbn [negb lex_ok] in *.
    + now rewrite (literal_string s0 cs EInsens Hs Wr).
    + destruct L as (ew & T & S). pose proof (unescape_insens 34%N cs ew S) as U.
      pose proof (str_slice_insens (utf8 cs) (utf8_valid cs Wr)) as SL.
      unfold literal. unfold byte in *. rewrite T, U, SL. reflexivity.
  - (* CRange *) rewrite smatch_unfold in Hk. destruct Hk as (R & _ & Hc).
    unfold ukind_of, not_assign, is_rule, terminal. rewrite R. repeat split; try reflexivity.
    cbn [writable] in Wr. apply andb_prop in Wr. destruct Wr as [W1 W2].
    inv_cons Hc as c1 r1 H1 Hr1. inv_cons Hr1 as o1 r2 H2 Hr2. inv_cons Hr2 as c2 r3 H3 Hr3. inv_nil Hr3.
    rewrite (literal_char c1 lo EStr H1 W1), (literal_char c2 hi EStr H3 W2).
    apply scalarb_spec in W1, W2. now rewrite !range_cp_encode.
  - (* CIdent *) rewrite smatch_unfold in Hk. destruct Hk as (R & L & _).
    unfold ukind_of, not_assign, is_rule, terminal. rewrite R. repeat split; try reflexivity.
    cbn [lex_ok] in L. now rewrite L.
  - (* CPeek *) rewrite smatch_unfold in Hk. destruct Hk as (R & _ & Hc).
    unfold ukind_of, not_assign, is_rule, terminal. rewrite R. repeat split; try reflexivity.
    cbn [writable] in Wr. apply andb_prop in Wr. destruct Wr as [W1 W2].
    unfold peek_slice. inv_cons Hc as ob r1 Hob Hr1.
    destruct i as [zi|]; cbn [app] in Hr1.
    + inv_cons Hr1 as ti r2 Hti Hr2. destruct (peek_int _ _ Hti W1) as [Ri Pi].
      inv_cons Hr2 as rop r3 Hrop Hr3. rewrite Ri, Pi. cbn [cmap].
      destruct j as [zj|]; cbn [app] in Hr3.
      * inv_cons Hr3 as tj r4 Htj Hr4. destruct (peek_int _ _ Htj W2) as [Rj Pj]. inv_cons Hr4 as cb r5 Hcb Hr5.
        rewrite Rj, Pj. reflexivity.
      * inv_cons Hr3 as cb r4 Hcb Hr4. apply smatch_leaf in Hcb. rewrite Hcb. reflexivity.
    + inv_cons Hr1 as rop r2 Hrop Hr2. apply smatch_leaf in Hrop. rewrite Hrop.
      destruct j as [zj|]; cbn [app] in Hr2.
      * inv_cons Hr2 as tj r3 Htj Hr3. destruct (peek_int _ _ Htj W2) as [Rj Pj]. inv_cons Hr3 as cb r4 Hcb Hr4.
        rewrite Rj, Pj. reflexivity.
      * inv_cons Hr2 as cb r3 Hcb Hr3. apply smatch_leaf in Hcb. rewrite Hcb. reflexivity.
  - (* CPushLit *) rewrite smatch_unfold in Hk. destruct Hk as (R & _ & Hc).
    unfold ukind_of, not_assign, is_rule, terminal. rewrite R. repeat split; try reflexivity.
    cbn [writable] in Wr. apply andb_prop in Wr. destruct Wr as [W1 W2]. rewrite W1.
    inv_cons Hc as op r1 Hop Hr1. inv_cons Hr1 as s0 r2 Hs Hr2. now rewrite (literal_string s0 cs EPushLiteral Hs W2).
Qed.

(* ---------------- postfix operators ---------------- *)
Inductive postop := POpt | PRep | PRepOnce | PExact (n : N) | PMin (n : N) | PMax (n : N) | PMinMax (m n : N).
Definition post_sk (o : postop) : skel :=
  match o with
  | POpt => sk MOptionalOperator | PRep => sk MRepeatOperator | PRepOnce => sk MRepeatOnceOperator
  | PExact n => sk_count MRepeatExact [sk MOpeningBrace; sk_num n; sk MClosingBrace]
  | PMin n => sk_count MRepeatMin [sk MOpeningBrace; sk_num n; sk MComma; sk MClosingBrace]
  | PMax n => sk_count MRepeatMax [sk MOpeningBrace; sk MComma; sk_num n; sk MClosingBrace]
  | PMinMax m n => sk_count MRepeatMinMax [sk MOpeningBrace; sk_num m; sk MComma; sk_num n; sk MClosingBrace]
  end.
Definition post_expr (o : postop) (e : expr) : expr :=
  match o with
  | POpt => EOpt e | PRep => ERep e | PRepOnce => ERepOnce e | PExact n => ERepExact e n | PMin n => ERepMin e n
  | PMax n => ERepMax e n | PMinMax m n => ERepMinMax e m n
  end.
Definition post_ok (o : postop) : bool :=
  match o with
  | POpt | PRep | PRepOnce => true
  | PExact n | PMax n => u32_ok n && negb (n =? 0)%N
  | PMin n => u32_ok n
  | PMinMax m n => u32_ok m && u32_ok n && negb (n =? 0)%N
  end.

Lemma count_num A t n (k : N -> cres A) : smatch st w (sk_num n) t -> u32_ok n = true -> count_of w t k = k n.
Proof.
  unfold sk_num. rewrite smatch_unfold. intros (_ & L & _) B. unfold count_of. cbn [lex_ok] in L.
  unfold u32_ok in B. apply N.leb_le in B. now rewrite (parse_u32_spelled n _ L B).
Qed.

Lemma pstep_post o e p : smatch st w (post_sk o) p -> post_ok o = true -> pstep e p = COk (post_expr o e) /\ not_assign p.
Proof.
  destruct o; cbn [post_sk post_ok post_expr]; intros H B.
  - apply smatch_leaf in H. unfold postfix_step, not_assign, is_rule. rewrite H. split; reflexivity.
  - apply smatch_leaf in H. unfold postfix_step, not_assign, is_rule. rewrite H. split; reflexivity.
  - apply smatch_leaf in H. unfold postfix_step, not_assign, is_rule. rewrite H. split; reflexivity.
  - unfold sk_count in H. rewrite smatch_unfold in H. destruct H as (R & _ & Hc).
    apply andb_prop in B. destruct B as [B1 B2]. apply negb_true_iff in B2.
    unfold postfix_step, not_assign, is_rule. rewrite R. split; [|reflexivity].
    inv_cons Hc as ob r1 Hob Hr1. inv_cons Hr1 as nu r2 Hnu Hr2.
    rewrite (count_num _ nu n _ Hnu B1). unfold nonzero. now rewrite B2.
  - unfold sk_count in H. rewrite smatch_unfold in H. destruct H as (R & _ & Hc).
    unfold postfix_step, not_assign, is_rule. rewrite R. split; [|reflexivity].
    inv_cons Hc as ob r1 Hob Hr1. inv_cons Hr1 as nu r2 Hnu Hr2.
    now rewrite (count_num _ nu n _ Hnu B).
  - unfold sk_count in H. rewrite smatch_unfold in H. destruct H as (R & _ & Hc).
    apply andb_prop in B. destruct B as [B1 B2]. apply negb_true_iff in B2.
    unfold postfix_step, not_assign, is_rule. rewrite R. split; [|reflexivity].
    inv_cons Hc as ob r1 Hob Hr1. inv_cons Hr1 as co r2 Hco Hr2. inv_cons Hr2 as nu r3 Hnu Hr3.
    rewrite (count_num _ nu n _ Hnu B1). unfold nonzero. now rewrite B2.
  - unfold sk_count in H. rewrite smatch_unfold in H. destruct H as (R & _ & Hc).
    apply andb_prop in B. destruct B as [B B3]. apply andb_prop in B. destruct B as [B1 B2]. apply negb_true_iff in B3.
    unfold postfix_step, not_assign, is_rule. rewrite R. split; [|reflexivity].
    inv_cons Hc as ob r1 Hob Hr1. inv_cons Hr1 as n1 r2 Hn1 Hr2. inv_cons Hr2 as co r3 Hco Hr3. inv_cons Hr3 as n2 r4 Hn2 Hr4.
    rewrite (count_num _ n1 m _ Hn1 B1), (count_num _ n2 n _ Hn2 B2). unfold nonzero. now rewrite B3.
Qed.

(* ---------------- the claims ---------------- *)
Notation ptree := (Pratt.Syntax.tree mtree).
Notation yield := (@Pratt.Syntax.yield mtree).
Notation Leaf := (@Pratt.Syntax.Leaf mtree).
Notation Bin := (@Pratt.Syntax.Bin mtree).
Notation seqt := (@seqt mtree).
Notation chot := (@chot mtree).
Notation cexp := (consume_expr fx extras w).

Definition goodc (c : cexpr) : Prop :=
  wp c = true /\ writable extras c = true /\ (fix_bar fx = false -> nested_bar c = false).

Definition A4 (rec : list mtree -> cres expr) (c : cexpr) : Prop :=
  forall ts ps, smatch_list st w (tc c) ts -> Forall not_assign ps ->
  exists t0 ts1, ts = t0 :: ts1 /\ not_assign t0 /\ second_ok (ts ++ ps) /\ dispatch rec t0 (ts1 ++ ps) = pfold (abs c) ps.
Definition A3 (rec : list mtree -> cres expr) (c : cexpr) : Prop :=
  forall ts, smatch_list st w (tc c) ts ->
  exists t0 ts1, ts = t0 :: ts1 /\ not_assign t0 /\ second_ok ts /\ dispatch rec t0 ts1 = COk (abs c).
Definition A2 (rec : list mtree -> cres expr) (c : cexpr) : Prop :=
  forall ts, smatch_list st w (tc c) ts -> un rec ts = COk (abs c).
Definition E (rec : list mtree -> cres expr) (c : cexpr) : Prop :=
  forall ts, smatch_list st w (fe c) ts ->
  exists pt : ptree, yield pt = pratt_tokens ts /\ chot pt /\ (1 <= lvl c -> seqt pt) /\ (2 <= lvl c -> exists a, pt = Leaf a) /\
                     fold_ptree (un rec) pt = COk (abs c).

Lemma A4_A3 rec c : A4 rec c -> A3 rec c.
Proof.
  intros H ts M. destruct (H ts [] M (Forall_nil _)) as (t0 & ts1 & -> & N & S2 & D).
  rewrite !app_nil_r in *. exists t0, ts1. cbn [postfix_fold] in D. auto.
Qed.
Lemma A3_A2 rec c : A3 rec c -> A2 rec c.
Proof. intros H ts M. destruct (H ts M) as (t0 & ts1 & -> & N & S2 & D). now rewrite un_untagged. Qed.

Lemma fe_term c : 2 <= lvl c -> fe c = [SK MTerm LNone (tc c)].
Proof. destruct c; cbn [lvl]; try lia; intros _; reflexivity. Qed.

Lemma prim_term (t : mtree) : m_rule t = MTerm -> prim mtree (mid (m_rule t), t).
Proof. intros R. unfold prim. cbn [fst]. rewrite R. reflexivity. Qed.

Lemma A2_E rec c : 2 <= lvl c -> A2 rec c -> E rec c.
Proof.
  intros L H ts M. rewrite (fe_term c L) in M. inv_cons M as t r Hk Hr. inv_nil Hr.
  rewrite smatch_unfold in Hk. destruct Hk as (R & _ & Hc).
  exists (Leaf (mid (m_rule t), t)). split; [reflexivity|].
  pose proof (seqt_leaf mtree _ (prim_term t R)) as SL.
  split; [now apply chot_seq|]. split; [auto|]. split; [eauto|].
  cbn [fold_ptree snd]. now apply H.
Qed.

Lemma E_stage rec c ts : E rec c -> smatch_list st w (fe c) ts -> pratt_stage (un rec) ts = COk (abs c).
Proof.
  intros H M. destruct (H ts M) as (pt & Y & C & _ & _ & F).
  unfold pratt_stage. rewrite <- Y, (pratt_canonical mtree pt C). exact F.
Qed.

Lemma fe_head c : exists tcs rest, fe c = SK MTerm LNone tcs :: rest.
Proof.
  induction c; try (eexists _, _; reflexivity).
  - destruct IHc1 as (tcs & rest & E1). unfold fe in *. cbn [both fst]. rewrite E1. eexists _, _. reflexivity.
  - destruct IHc1 as (tcs & rest & E1). unfold fe in *. cbn [both fst]. rewrite E1. eexists _, _. reflexivity.
Qed.

(* a nested expression (parentheses, PUSH): one more unit of fuel *)
Lemma nested_expr f c (bar : bool) chs : E (cexp f) c -> (fix_bar fx = false -> bar = false) ->
  smatch_list st w (sk_bar bar ++ fe c) chs -> cexp (S f) chs = COk (abs c).
Proof.
  intros HE HB M. cbn [consume_expr].
  assert (X : exists ts, smatch_list st w (fe c) ts /\ (if fix_bar fx then skip_bar chs else chs) = ts).
  { destruct bar; cbn [sk_bar app] in M.
    - inv_cons M as b ts Hb Hts. exists ts. split; [exact Hts|].
      destruct (fix_bar fx) eqn:F; [|specialize (HB eq_refl); discriminate].
      apply smatch_leaf in Hb. unfold skip_bar, is_rule. rewrite Hb. reflexivity.
    - exists chs. split; [exact M|]. destruct (fix_bar fx); [|reflexivity].
      destruct (fe_head c) as (tcs & rest & Ef). rewrite Ef in M. inv_cons M as t ts Ht Hts.
      rewrite smatch_unfold in Ht. destruct Ht as (R & _). unfold skip_bar, is_rule. rewrite R. reflexivity. }
  destruct X as (ts & Mts & ->). now apply (E_stage _ c).
Qed.

Definition claims (f : nat) (c : cexpr) : Prop :=
  (4 <= lvl c -> A4 (cexp f) c) /\ (3 <= lvl c -> A3 (cexp f) c) /\ (2 <= lvl c -> A2 (cexp f) c) /\ E (cexp f) c.

Lemma claims_A4 f c : 4 <= lvl c -> A4 (cexp f) c -> claims f c.
Proof.
  intros L H. pose proof (A4_A3 _ _ H) as H3. pose proof (A3_A2 _ _ H3) as H2.
  repeat split; auto. apply A2_E; [lia|exact H2].
Qed.
Lemma claims_A3 f c : lvl c = 3 -> A3 (cexp f) c -> claims f c.
Proof.
  intros L H3. pose proof (A3_A2 _ _ H3) as H2.
  repeat split; auto; try lia. apply A2_E; [lia|exact H2].
Qed.
Lemma claims_A2 f c : lvl c = 2 -> A2 (cexp f) c -> claims f c.
Proof. intros L H2. repeat split; auto; try lia. apply A2_E; [lia|exact H2]. Qed.

Lemma atom_case f c : atom c -> writable extras c = true -> A4 (cexp f) c.
Proof.
  intros At Wr ts ps M NA. destruct (terminal_atom (cexp f) c ts At Wr M) as (t0 & -> & K & N0 & T).
  exists t0, []. split; [reflexivity|]. split; [exact N0|]. split.
  - cbn [app second_ok]. destruct ps as [|p ps']; [exact I|]. now inversion NA.
  - cbn [app]. unfold dispatch. rewrite K. unfold other. now rewrite T.
Qed.

Lemma post_case f c' o c : tc c = tc c' ++ [post_sk o] -> abs c = post_expr o (abs c') -> post_ok o = true ->
  A4 (cexp f) c' -> A4 (cexp f) c.
Proof.
  intros Etc Eabs Ok H ts ps M NA. rewrite Etc in M.
  destruct (smatch_app_inv _ _ _ _ _ M) as (ts' & pl & -> & M1 & M2).
  inv_cons M2 as p r Hp Hr. inv_nil Hr.
  destruct (pstep_post o (abs c') p Hp Ok) as [PS NAp].
  destruct (H ts' (p :: ps) M1 (Forall_cons _ NAp NA)) as (t0 & ts1 & -> & N0 & S2 & D).
  exists t0, (ts1 ++ [p]). split; [reflexivity|]. split; [exact N0|].
  rewrite <- ?app_assoc. cbn [app] in *. rewrite <- ?app_assoc. cbn [app].
  split; [exact S2|]. rewrite D. cbn [postfix_fold]. rewrite PS, Eabs. reflexivity.
Qed.

Lemma pre_case f c' c (neg : bool) :
  tc c = sk (if neg then MNegativePredicateOperator else MPositivePredicateOperator) :: tc c' ->
  abs c = (if neg then ENegPred (abs c') else EPosPred (abs c')) ->
  A3 (cexp f) c' -> A3 (cexp f) c.
Proof.
  intros Etc Eabs H ts M. rewrite Etc in M. inv_cons M as pp ts' Hp Hts. apply smatch_leaf in Hp.
  destruct (H ts' Hts) as (t0 & ts1 & -> & N0 & S2 & D).
  exists pp, (t0 :: ts1). split; [reflexivity|].
  assert (NP : not_assign pp) by (unfold not_assign, is_rule; rewrite Hp; now destruct neg).
  split; [exact NP|]. split; [exact N0|].
  unfold dispatch at 1. unfold ukind_of. rewrite Hp, Eabs.
  destruct neg; rewrite (un_untagged _ _ _ S2), D; reflexivity.
Qed.

Lemma ge_of_leb a b : (a <=? b) = true -> a <= b. Proof. apply Nat.leb_le. Qed.

Theorem main : forall c f, depth c <= f -> goodc c -> claims f c.
Proof.
  induction c; intros f D (W & Wr & NB); cbn [wp writable nested_bar depth] in *;
    try (apply claims_A4; [cbn [lvl]; lia|apply atom_case; [exact I|exact Wr]]).
  - (* CPos *) apply andb_prop in W. destruct W as [W1 W2]. apply ge_of_leb in W2.
    apply claims_A3; [reflexivity|]. apply (pre_case f c (CPos c) false); try reflexivity.
    apply (IHc f D); [repeat split; auto|exact W2].
  - (* CNeg *) apply andb_prop in W. destruct W as [W1 W2]. apply ge_of_leb in W2.
    apply claims_A3; [reflexivity|]. apply (pre_case f c (CNeg c) true); try reflexivity.
    apply (IHc f D); [repeat split; auto|exact W2].
  - (* CSeq *)
    apply andb_prop in W. destruct W as [W Lb]. apply andb_prop in W. destruct W as [W La].
    apply andb_prop in W. destruct W as [Wa Wb]. apply ge_of_leb in La, Lb.
    apply andb_prop in Wr. destruct Wr as [Wra Wrb].
    assert (Ga : goodc c1) by (repeat split; auto; intros F; specialize (NB F); now apply orb_false_iff in NB).
    assert (Gb : goodc c2) by (repeat split; auto; intros F; specialize (NB F); now apply orb_false_iff in NB).
    destruct (IHc1 f ltac:(lia) Ga) as (_ & _ & _ & Ea). destruct (IHc2 f ltac:(lia) Gb) as (_ & _ & _ & Eb).
    repeat split; cbn [lvl]; try lia.
    intros ts M. unfold fe in M. cbn [both fst] in M. fold (fe c1) (fe c2) in M.
    destruct (smatch_app_inv _ _ _ _ _ M) as (ta & r & -> & Ma & Mr). inv_cons Mr as op tb Hop Mb. apply smatch_leaf in Hop.
    destruct (Ea ta Ma) as (pa & Ya & _ & Sa & _ & Fa). destruct (Eb tb Mb) as (pb & Yb & _ & _ & Lfb & Fb).
    destruct (Lfb Lb) as (b0 & ->). specialize (Sa La).
    exists (Bin pa (mid (m_rule op), op) (Leaf b0)).
    assert (Pb : prim mtree b0).
    { destruct (fe_head c2) as (tcs & rest & Ef). rewrite Ef in Mb. inv_cons Mb as tb0 tbr Hb0 Hbr.
      rewrite smatch_unfold in Hb0. destruct Hb0 as (R & _).
      cbn [Pratt.Syntax.yield] in Yb. unfold pratt_tokens in Yb. cbn [map] in Yb. inversion Yb; subst. now apply prim_term. }
    assert (Sq : seqt (Bin pa (mid (m_rule op), op) (Leaf b0))) by (apply seqt_bin; auto; cbn [fst]; now rewrite Hop).
    split.
    { cbn [Pratt.Syntax.yield]. rewrite Ya. unfold pratt_tokens. rewrite map_app. cbn [map]. f_equal. f_equal.
      cbn [Pratt.Syntax.yield] in Yb. exact Yb. }
    split; [now apply chot_seq|]. split; [auto|]. split; [cbn [lvl]; lia|].
    cbn [fold_ptree] in *. rewrite Fa, Fb. cbn [fst]. rewrite Hop. reflexivity.
  - (* CChoice *)
    apply andb_prop in W. destruct W as [W Lb]. apply andb_prop in W. destruct W as [Wa Wb]. apply ge_of_leb in Lb.
    apply andb_prop in Wr. destruct Wr as [Wra Wrb].
    assert (Ga : goodc c1) by (repeat split; auto; intros F; specialize (NB F); now apply orb_false_iff in NB).
    assert (Gb : goodc c2) by (repeat split; auto; intros F; specialize (NB F); now apply orb_false_iff in NB).
    destruct (IHc1 f ltac:(lia) Ga) as (_ & _ & _ & Ea). destruct (IHc2 f ltac:(lia) Gb) as (_ & _ & _ & Eb).
    repeat split; cbn [lvl]; try lia.
    intros ts M. unfold fe in M. cbn [both fst] in M. fold (fe c1) (fe c2) in M.
    destruct (smatch_app_inv _ _ _ _ _ M) as (ta & r & -> & Ma & Mr). inv_cons Mr as op tb Hop Mb. apply smatch_leaf in Hop.
    destruct (Ea ta Ma) as (pa & Ya & Ca & _ & _ & Fa). destruct (Eb tb Mb) as (pb & Yb & _ & Sb & _ & Fb).
    specialize (Sb Lb).
    exists (Bin pa (mid (m_rule op), op) pb).
    split.
    { cbn [Pratt.Syntax.yield]. rewrite Ya, Yb. unfold pratt_tokens. rewrite map_app. reflexivity. }
    split; [apply chot_bin; auto; cbn [fst]; now rewrite Hop|]. split; [cbn [lvl]; lia|]. split; [cbn [lvl]; lia|].
    cbn [fold_ptree]. rewrite Fa, Fb. cbn [fst]. rewrite Hop. reflexivity.
  - (* COpt *) apply andb_prop in W. destruct W as [W1 W2]. apply ge_of_leb in W2.
    apply claims_A4; [cbn [lvl]; lia|]. apply (post_case f c POpt); try reflexivity.
    apply (IHc f D); [repeat split; auto|exact W2].
  - (* CRep *) apply andb_prop in W. destruct W as [W1 W2]. apply ge_of_leb in W2.
    apply claims_A4; [cbn [lvl]; lia|]. apply (post_case f c PRep); try reflexivity.
    apply (IHc f D); [repeat split; auto|exact W2].
  - (* CRepOnce *) apply andb_prop in W. destruct W as [W1 W2]. apply ge_of_leb in W2.
    apply claims_A4; [cbn [lvl]; lia|]. apply (post_case f c PRepOnce); try reflexivity.
    apply (IHc f D); [repeat split; auto|exact W2].
  - (* CRepExact *) apply andb_prop in W. destruct W as [W1 W2]. apply ge_of_leb in W2.
    apply andb_prop in Wr. destruct Wr as [Wr B2]. apply andb_prop in Wr. destruct Wr as [Wr B1].
    apply claims_A4; [cbn [lvl]; lia|]. apply (post_case f c (PExact n)); try reflexivity.
    + cbn [post_ok]. now rewrite B1, B2.
    + apply (IHc f D); [repeat split; auto|exact W2].
  - (* CRepMin *) apply andb_prop in W. destruct W as [W1 W2]. apply ge_of_leb in W2.
    apply andb_prop in Wr. destruct Wr as [Wr B1].
    apply claims_A4; [cbn [lvl]; lia|]. apply (post_case f c (PMin n)); try reflexivity; [exact B1|].
    apply (IHc f D); [repeat split; auto|exact W2].
  - (* CRepMax *) apply andb_prop in W. destruct W as [W1 W2]. apply ge_of_leb in W2.
    apply andb_prop in Wr. destruct Wr as [Wr B2]. apply andb_prop in Wr. destruct Wr as [Wr B1].
    apply claims_A4; [cbn [lvl]; lia|]. apply (post_case f c (PMax n)); try reflexivity.
    + cbn [post_ok]. now rewrite B1, B2.
    + apply (IHc f D); [repeat split; auto|exact W2].
  - (* CRepMinMax *) apply andb_prop in W. destruct W as [W1 W2]. apply ge_of_leb in W2.
    apply andb_prop in Wr. destruct Wr as [Wr B3]. apply andb_prop in Wr. destruct Wr as [Wr B2]. apply andb_prop in Wr. destruct Wr as [Wr B1].
    apply claims_A4; [cbn [lvl]; lia|]. apply (post_case f c (PMinMax m n)); try reflexivity.
    + cbn [post_ok]. now rewrite B1, B2, B3.
    + apply (IHc f D); [repeat split; auto|exact W2].
  - (* CPush *) destruct f as [|f']; [lia|].
    assert (G : goodc c) by (repeat split; auto; intros F; specialize (NB F); now apply orb_false_iff in NB).
    destruct (IHc f' ltac:(lia) G) as (_ & _ & _ & Ec).
    apply claims_A4; [cbn [lvl]; lia|]. intros ts ps M NA. unfold tc in M. cbn [both mkt snd] in M.
    inv_cons M as p r Hp Hr. inv_nil Hr. rewrite smatch_unfold in Hp. destruct Hp as (R & _ & Hc).
    inv_cons_eq Hc as op r1 Hop Hr1 Hch. inv_cons Hr1 as ex r2 Hex Hr2. rewrite smatch_unfold in Hex. destruct Hex as (Rx & _ & Hx).
    exists p, []. split; [reflexivity|].
    assert (NP : not_assign p) by (unfold not_assign, is_rule; now rewrite R).
    split; [exact NP|]. split.
    { cbn [app second_ok]. destruct ps as [|q ps']; [exact I|]. now inversion NA. }
    cbn [app]. unfold dispatch, ukind_of. rewrite R. unfold other, terminal. rewrite R, Hch.
    rewrite (nested_expr f' c bar (m_children ex) Ec); [reflexivity| |exact Hx].
    intros F. specialize (NB F). now apply orb_false_iff in NB.
  - (* CTag *) apply andb_prop in W. destruct W as [W1 W2]. apply ge_of_leb in W2.
    apply andb_prop in Wr. destruct Wr as [Wr T]. apply andb_prop in Wr. destruct Wr as [X Wr].
    apply claims_A2; [reflexivity|].
    destruct (IHc f D ltac:(repeat split; auto)) as (_ & H3 & _). specialize (H3 W2).
    intros ts M. unfold tc in M. cbn [both mkt snd] in M. fold (tc c) in M.
    inv_cons M as tg r1 Htg Hr1. inv_cons Hr1 as asg ts' Hasg Hts. apply smatch_leaf in Hasg.
    rewrite smatch_unfold in Htg. destruct Htg as (_ & L & _). cbn [lex_ok] in L.
    destruct (H3 ts' Hts) as (t0 & ts1 & -> & N0 & S2 & Dsp).
    rewrite un_tagged by (unfold is_rule; now rewrite Hasg).
    pose proof (str_from1_tag t T) as SF. unfold byte in *. rewrite L, SF, Dsp. unfold with_tag. rewrite X. reflexivity.
  - (* CParen *) destruct f as [|f']; [lia|].
    assert (G : goodc c) by (repeat split; auto; intros F; specialize (NB F); now apply orb_false_iff in NB).
    destruct (IHc f' ltac:(lia) G) as (_ & _ & _ & Ec).
    apply claims_A4; [cbn [lvl]; lia|]. intros ts ps M NA. unfold tc in M. cbn [both mkt snd] in M.
    inv_cons M as op r1 Hop Hr1. inv_cons Hr1 as ex r2 Hex Hr2. inv_cons Hr2 as cl r3 Hcl Hr3. inv_nil Hr3.
    apply smatch_leaf in Hop. apply smatch_leaf in Hcl.
    rewrite smatch_unfold in Hex. destruct Hex as (Rx & _ & Hx).
    exists op, [ex; cl]. split; [reflexivity|].
    assert (NP : not_assign op) by (unfold not_assign, is_rule; now rewrite Hop).
    split; [exact NP|]. split.
    { cbn [app second_ok]. unfold not_assign, is_rule. now rewrite Rx. }
    cbn [app]. unfold dispatch at 1. unfold ukind_of. rewrite Hop.
    rewrite un_untagged by (cbn [second_ok]; unfold not_assign, is_rule; now rewrite Hcl).
    unfold dispatch, ukind_of. rewrite Rx. unfold other, terminal. rewrite Rx.
    rewrite (nested_expr f' c bar (m_children ex) Ec); [| |exact Hx].
    + cbn [postfix_fold]. unfold postfix_step at 1. rewrite Hcl. reflexivity.
    + intros F. specialize (NB F). now apply orb_false_iff in NB.
Qed.

(* ---------------- fuel: the forest is larger than the nesting depth ---------------- *)
Lemma msize_children t : msize t = S (mfsize (m_children t)).
Proof.
  destruct t as [r s e ch]. reflexivity.
Qed.
Lemma mfsize_app a b : mfsize (a ++ b) = mfsize a + mfsize b.
Proof. induction a as [|t a IH]; [reflexivity|]. cbn [app mfsize]. rewrite IH. lia. Qed.
Lemma msize_pos t : 1 <= msize t. Proof. rewrite msize_children. lia. Qed.

Definition dsz (c : cexpr) : Prop :=
  (forall ts, smatch_list st w (fe c) ts -> depth c < mfsize ts) /\
  (2 <= lvl c -> forall ts, smatch_list st w (tc c) ts -> depth c < mfsize ts).

Lemma dsz_term c : 2 <= lvl c -> (forall ts, smatch_list st w (tc c) ts -> depth c < mfsize ts) -> dsz c.
Proof.
  intros L H. split; [|auto]. intros ts M. rewrite (fe_term c L) in M. inv_cons M as t r Hk Hr. inv_nil Hr.
  rewrite smatch_unfold in Hk. destruct Hk as (_ & _ & Hc). specialize (H _ Hc).
  cbn [mfsize]. rewrite msize_children. lia.
Qed.
Lemma dsz_nested c (bar : bool) chs : dsz c -> smatch_list st w (sk_bar bar ++ fe c) chs -> depth c < mfsize chs.
Proof.
  intros [H _] M. destruct (smatch_app_inv _ _ _ _ _ M) as (b & ts & -> & _ & Mt). rewrite mfsize_app. specialize (H _ Mt). lia.
Qed.
Lemma dsz_post c' c k : tc c = tc c' ++ [k] -> depth c = depth c' -> 4 <= lvl c -> 4 <= lvl c' -> dsz c' -> dsz c.
Proof.
  intros Etc Ed L L' [_ H]. apply dsz_term; [lia|]. intros ts M. rewrite Etc in M.
  destruct (smatch_app_inv _ _ _ _ _ M) as (ts' & pl & -> & M1 & _). rewrite mfsize_app, Ed.
  specialize (H ltac:(lia) _ M1). lia.
Qed.

Lemma depth_size c : wp c = true -> dsz c.
Proof.
  induction c; intros W; cbn [wp] in W;
    try (apply dsz_term; [cbn [lvl]; lia|]; intros ts M; unfold tc in M; cbn [both mkt snd] in M;
         inv_cons M as t r Hk Hr; cbn [depth mfsize]; pose proof (msize_pos t); lia).
  - (* CPos *) apply andb_prop in W. destruct W as [W1 W2]. apply ge_of_leb in W2. destruct (IHc W1) as [_ H].
    apply dsz_term; [cbn [lvl]; lia|]. intros ts M. unfold tc in M. cbn [both mkt snd] in M. fold (tc c) in M.
    inv_cons M as pp ts' Hp Hts. cbn [depth mfsize]. specialize (H ltac:(lia) _ Hts). lia.
  - (* CNeg *) apply andb_prop in W. destruct W as [W1 W2]. apply ge_of_leb in W2. destruct (IHc W1) as [_ H].
    apply dsz_term; [cbn [lvl]; lia|]. intros ts M. unfold tc in M. cbn [both mkt snd] in M. fold (tc c) in M.
    inv_cons M as pp ts' Hp Hts. cbn [depth mfsize]. specialize (H ltac:(lia) _ Hts). lia.
  - (* CSeq *) apply andb_prop in W. destruct W as [W _]. apply andb_prop in W. destruct W as [W _].
    apply andb_prop in W. destruct W as [Wa Wb]. destruct (IHc1 Wa) as [Ha _]. destruct (IHc2 Wb) as [Hb _].
    split; [|cbn [lvl]; lia]. intros ts M. unfold fe in M. cbn [both fst] in M. fold (fe c1) (fe c2) in M.
    destruct (smatch_app_inv _ _ _ _ _ M) as (ta & r & -> & Ma & Mr). inv_cons Mr as op tb Hop Mb.
    rewrite mfsize_app. cbn [depth mfsize]. specialize (Ha _ Ma). specialize (Hb _ Mb). lia.
  - (* CChoice *) apply andb_prop in W. destruct W as [W _]. apply andb_prop in W. destruct W as [Wa Wb].
    destruct (IHc1 Wa) as [Ha _]. destruct (IHc2 Wb) as [Hb _].
    split; [|cbn [lvl]; lia]. intros ts M. unfold fe in M. cbn [both fst] in M. fold (fe c1) (fe c2) in M.
    destruct (smatch_app_inv _ _ _ _ _ M) as (ta & r & -> & Ma & Mr). inv_cons Mr as op tb Hop Mb.
    rewrite mfsize_app. cbn [depth mfsize]. specialize (Ha _ Ma). specialize (Hb _ Mb). lia.
  - apply andb_prop in W. destruct W as [W1 W2]. apply ge_of_leb in W2. eapply (dsz_post c); try reflexivity; cbn [lvl]; auto.
  - apply andb_prop in W. destruct W as [W1 W2]. apply ge_of_leb in W2. eapply (dsz_post c); try reflexivity; cbn [lvl]; auto.
  - apply andb_prop in W. destruct W as [W1 W2]. apply ge_of_leb in W2. eapply (dsz_post c); try reflexivity; cbn [lvl]; auto.
  - apply andb_prop in W. destruct W as [W1 W2]. apply ge_of_leb in W2. eapply (dsz_post c); try reflexivity; cbn [lvl]; auto.
  - apply andb_prop in W. destruct W as [W1 W2]. apply ge_of_leb in W2. eapply (dsz_post c); try reflexivity; cbn [lvl]; auto.
  - apply andb_prop in W. destruct W as [W1 W2]. apply ge_of_leb in W2. eapply (dsz_post c); try reflexivity; cbn [lvl]; auto.
  - apply andb_prop in W. destruct W as [W1 W2]. apply ge_of_leb in W2. eapply (dsz_post c); try reflexivity; cbn [lvl]; auto.
  - (* CPush *) specialize (IHc W). apply dsz_term; [cbn [lvl]; lia|]. intros ts M. unfold tc in M. cbn [both mkt snd] in M.
    inv_cons M as p r Hp Hr. inv_nil Hr. rewrite smatch_unfold in Hp. destruct Hp as (_ & _ & Hc).
    inv_cons_eq Hc as op r1 Hop Hr1 Hch. inv_cons Hr1 as ex r2 Hex Hr2. rewrite smatch_unfold in Hex. destruct Hex as (_ & _ & Hx).
    pose proof (dsz_nested c bar _ IHc Hx). cbn [depth mfsize]. rewrite msize_children, Hch. cbn [mfsize]. rewrite (msize_children ex). lia.
  - (* CTag *) apply andb_prop in W. destruct W as [W1 W2]. apply ge_of_leb in W2. destruct (IHc W1) as [_ H].
    apply dsz_term; [cbn [lvl]; lia|]. intros ts M. unfold tc in M. cbn [both mkt snd] in M. fold (tc c) in M.
    inv_cons M as tg r1 Htg Hr1. inv_cons Hr1 as asg ts' Hasg Hts. cbn [depth mfsize]. specialize (H ltac:(lia) _ Hts). lia.
  - (* CParen *) specialize (IHc W). apply dsz_term; [cbn [lvl]; lia|]. intros ts M. unfold tc in M. cbn [both mkt snd] in M.
    inv_cons M as op r1 Hop Hr1. inv_cons Hr1 as ex r2 Hex Hr2. rewrite smatch_unfold in Hex. destruct Hex as (_ & _ & Hx).
    pose proof (dsz_nested c bar _ IHc Hx). cbn [depth mfsize]. rewrite (msize_children ex). lia.
Qed.

(* ---------------- rules ---------------- *)
Definition goodr (r : crule) : Prop := goodc (cr_body r).
Definition rule_sk (r : crule) : skel :=
  SK MGrammarRule LNone
     (SK MIdentifier (LName (cr_name r)) [] :: sk MAssignmentOperator :: sk_modifier (cr_ty r) ++
      [sk MOpeningBrace; SK MExpression LNone (sk_bar (cr_bar r) ++ fe (cr_body r)); sk MClosingBrace]).
Lemma tokens_of_rule_eq r : tokens_of_rule r = repeat sk_line_doc (cr_docs r) ++ [rule_sk r].
Proof. reflexivity. Qed.

Lemma body_expr f c (bar : bool) chs : E (cexp f) c -> (fix_bar fx = false -> nested_bar c = false) ->
  smatch_list st w (sk_bar bar ++ fe c) chs ->
  (if fix_bar fx then cexp (S f) chs
   else match chs with
        | [] => CPanic
        | c0 :: cr => cexp (S f) (if is_rule MChoiceOperator c0 then cr else c0 :: cr)
        end) = COk (abs c).
Proof.
  intros HE NB M. destruct (fix_bar fx) eqn:F.
  - apply (nested_expr f c bar chs HE); [rewrite F; discriminate|exact M].
  - destruct bar; cbn [sk_bar app] in M.
    + inv_cons M as b ts Hb Hts. apply smatch_leaf in Hb. unfold is_rule at 1. rewrite Hb.
      replace (mrule_eqb MChoiceOperator MChoiceOperator) with true by reflexivity.
      apply (nested_expr f c false ts HE); [auto|exact Hts].
    + destruct (fe_head c) as (tcs & rest & Ef). pose proof M as M'. rewrite Ef in M'. inv_cons M' as t ts Ht Hts.
      rewrite smatch_unfold in Ht. destruct Ht as (R & _). unfold is_rule at 1. rewrite R.
      replace (mrule_eqb MTerm MChoiceOperator) with false by reflexivity.
      apply (nested_expr f c false (t :: ts) HE); [auto|exact M].
Qed.

Lemma consume_rule_spelled f r p : goodr r -> depth (cr_body r) <= f -> smatch st w (rule_sk r) p ->
  consume_rule fx extras w (S f) p = COk (abs_rule r).
Proof.
  intros G D M. destruct (main (cr_body r) f D G) as (_ & _ & _ & HE). destruct G as (_ & _ & NB).
  unfold rule_sk in M. rewrite smatch_unfold in M. destruct M as (_ & _ & Hc).
  inv_cons_eq Hc as id r1 Hid Hr1 Hch. inv_cons Hr1 as asg r2 Hasg Hr2.
  rewrite smatch_unfold in Hid. destruct Hid as (_ & Lid & _). cbn [lex_ok] in Lid.
  unfold consume_rule. rewrite Hch. unfold abs_rule.
  assert (Fin : forall ob ex r5 (t : rtype), smatch st w (SK MExpression LNone (sk_bar (cr_bar r) ++ fe (cr_body r))) ex ->
     match ob :: ex :: r5 with
     | [] => CPanic
     | _ :: r5' =>
       match r5' with
       | [] => CPanic
       | ex' :: _ =>
         let mkrule := fun e => {| rname := text w id; rty := t; rexpr := e |} in
         if fix_bar fx then cmap mkrule (cexp (S f) (m_children ex'))
         else match m_children ex' with
              | [] => CPanic
              | c0 :: cr => let inner := if is_rule MChoiceOperator c0 then cr else c0 :: cr in cmap mkrule (cexp (S f) inner)
              end
       end
     end = COk {| rname := cr_name r; rty := t; rexpr := abs (cr_body r) |}).
  { intros ob ex r5 t Hex. rewrite smatch_unfold in Hex. destruct Hex as (_ & _ & Hx).
    pose proof (body_expr f (cr_body r) (cr_bar r) (m_children ex) HE NB Hx) as B. cbv zeta.
    destruct (fix_bar fx).
    - rewrite B. cbn [cmap]. now rewrite Lid.
    - destruct (m_children ex) as [|c0 cr]; [discriminate|]. cbv zeta. rewrite B. cbn [cmap]. now rewrite Lid. }
  destruct (cr_ty r); cbn [sk_modifier app] in Hr2.
  - inv_cons Hr2 as ob r3 Hob Hr3. inv_cons Hr3 as ex r4 Hex Hr4. apply smatch_leaf in Hob.
    unfold is_rule at 1. rewrite Hob. replace (mrule_eqb MOpeningBrace MOpeningBrace) with true by reflexivity.
    exact (Fin ob ex r4 RNormal Hex).
  - inv_cons Hr2 as md r3 Hmd Hr3. inv_cons Hr3 as ob r4 Hob Hr4. inv_cons Hr4 as ex r5 Hex Hr5. apply smatch_leaf in Hmd.
    unfold is_rule at 1. rewrite Hmd. replace (mrule_eqb MSilentModifier MOpeningBrace) with false by reflexivity.
    exact (Fin ob ex r5 RSilent Hex).
  - inv_cons Hr2 as md r3 Hmd Hr3. inv_cons Hr3 as ob r4 Hob Hr4. inv_cons Hr4 as ex r5 Hex Hr5. apply smatch_leaf in Hmd.
    unfold is_rule at 1. rewrite Hmd. replace (mrule_eqb MAtomicModifier MOpeningBrace) with false by reflexivity.
    exact (Fin ob ex r5 RAtomic Hex).
  - inv_cons Hr2 as md r3 Hmd Hr3. inv_cons Hr3 as ob r4 Hob Hr4. inv_cons Hr4 as ex r5 Hex Hr5. apply smatch_leaf in Hmd.
    unfold is_rule at 1. rewrite Hmd. replace (mrule_eqb MCompoundAtomicModifier MOpeningBrace) with false by reflexivity.
    exact (Fin ob ex r5 RCompound Hex).
  - inv_cons Hr2 as md r3 Hmd Hr3. inv_cons Hr3 as ob r4 Hob Hr4. inv_cons Hr4 as ex r5 Hex Hr5. apply smatch_leaf in Hmd.
    unfold is_rule at 1. rewrite Hmd. replace (mrule_eqb MNonAtomicModifier MOpeningBrace) with false by reflexivity.
    exact (Fin ob ex r5 RNonAtomic Hex).
Qed.

(* ---------------- grammars ---------------- *)
Notation cpairs := (consume_pairs fx extras w).

Lemma skip_line_docs n ks ts : smatch_list st w (repeat sk_line_doc n ++ ks) ts ->
  exists ds ts', ts = ds ++ ts' /\ smatch_list st w ks ts' /\ forall F, cpairs F ts = cpairs F ts'.
Proof.
  revert ts. induction n as [|n IH]; intros ts M; cbn [repeat app] in M.
  - exists [], ts. auto.
  - inv_cons M as d r Hd Hr. destruct (IH _ Hr) as (ds & ts' & -> & Mk & Eq).
    exists (d :: ds), ts'. split; [reflexivity|]. split; [exact Mk|]. intros F. rewrite <- Eq.
    unfold sk_line_doc in Hd. rewrite smatch_unfold in Hd. destruct Hd as (R & _ & Hc).
    inv_cons_eq Hc as ld r1 Hld Hr1 Hch. rewrite smatch_unfold in Hld. destruct Hld as (Rl & _).
    cbn [app consume_pairs]. unfold is_rule at 1. rewrite R. cbn [negb]. rewrite Hch. unfold is_rule at 1. rewrite Rl. reflexivity.
Qed.
Lemma skip_grammar_docs n ks ts : smatch_list st w (repeat (SK MGrammarDoc LNone [sk MInnerDoc]) n ++ ks) ts ->
  exists ds ts', ts = ds ++ ts' /\ smatch_list st w ks ts' /\ forall F, cpairs F ts = cpairs F ts'.
Proof.
  revert ts. induction n as [|n IH]; intros ts M; cbn [repeat app] in M.
  - exists [], ts. auto.
  - inv_cons M as d r Hd Hr. destruct (IH _ Hr) as (ds & ts' & -> & Mk & Eq).
    exists (d :: ds), ts'. split; [reflexivity|]. split; [exact Mk|]. intros F. rewrite <- Eq.
    rewrite smatch_unfold in Hd. destruct Hd as (R & _).
    cbn [app consume_pairs]. unfold is_rule at 1. rewrite R. reflexivity.
Qed.

Lemma rules_spelled rules : Forall goodr rules -> forall ks ts f,
  (forall r, In r rules -> depth (cr_body r) <= f) ->
  smatch_list st w (flat_map tokens_of_rule rules ++ ks) ts ->
  exists ds ts', ts = ds ++ ts' /\ smatch_list st w ks ts' /\
    forall tl, cpairs (S f) ts' = COk tl -> cpairs (S f) ts = COk (map abs_rule rules ++ tl).
Proof.
  induction 1 as [|r rules G _ IH]; intros ks ts f D M; cbn [flat_map app] in M.
  - exists [], ts. cbn. auto.
  - rewrite tokens_of_rule_eq, <- !app_assoc in M. cbn [app] in M.
    destruct (skip_line_docs _ _ _ M) as (d1 & t1 & -> & M1 & Eq1). inv_cons M1 as p t2 Hp M2.
    destruct (IH ks t2 f (fun r0 H0 => D r0 (or_intror H0)) M2) as (d2 & ts' & -> & Mk & Eq2).
    exists (d1 ++ p :: d2), ts'. split; [now rewrite <- app_assoc|]. split; [exact Mk|].
    intros tl Htl. rewrite Eq1. cbn [consume_pairs].
    pose proof Hp as Hp'. unfold rule_sk in Hp'. rewrite smatch_unfold in Hp'. destruct Hp' as (R & _ & Hc).
    inv_cons_eq Hc as id r1 Hid Hr1 Hch. rewrite smatch_unfold in Hid. destruct Hid as (Rid & _).
    unfold is_rule at 1. rewrite R. cbn [negb]. rewrite Hch. unfold is_rule at 1. rewrite Rid.
    replace (mrule_eqb MIdentifier MLineDoc) with false by reflexivity.
    rewrite (consume_rule_spelled f r p G (D r (or_introl eq_refl)) Hp), (Eq2 tl Htl). reflexivity.
Qed.

Lemma In_msize t ts : In t ts -> msize t <= mfsize ts.
Proof. induction ts as [|x ts IH]; [intros []|]. intros [->|H]; cbn [mfsize]; [lia|specialize (IH H); lia]. Qed.

Lemma rule_nodes rules : forall ks ts, smatch_list st w (flat_map tokens_of_rule rules ++ ks) ts ->
  forall r, In r rules -> exists p, In p ts /\ smatch st w (rule_sk r) p.
Proof.
  induction rules as [|r0 rules IH]; intros ks ts M r Hr; [destruct Hr|]. cbn [flat_map] in M.
  rewrite tokens_of_rule_eq, <- !app_assoc in M. cbn [app] in M.
  destruct (smatch_app_inv _ _ _ _ _ M) as (d1 & t1 & -> & _ & M1). inv_cons M1 as p t2 Hp M2.
  destruct Hr as [->|Hr].
  - exists p. split; [apply in_or_app; right; now left|exact Hp].
  - destruct (IH _ _ M2 r Hr) as (q & Hq & Mq). exists q. split; [apply in_or_app; right; now right|exact Mq].
Qed.

Lemma rule_depth r p : wp (cr_body r) = true -> smatch st w (rule_sk r) p -> S (depth (cr_body r)) < msize p.
Proof.
  intros W M. unfold rule_sk in M. rewrite smatch_unfold in M. destruct M as (_ & _ & Hc).
  rewrite msize_children.
  inv_cons_eq Hc as id q1 Hid Hq1 Hch. inv_cons Hq1 as asg q2 Hasg Hq2.
  destruct (smatch_app_inv _ _ _ _ _ Hq2) as (a & b & -> & _ & Mb).
  inv_cons Mb as ob r1 Hob Hr1. inv_cons Hr1 as ex r2 Hex Hr2. rewrite smatch_unfold in Hex. destruct Hex as (_ & _ & Hx).
  pose proof (dsz_nested (cr_body r) (cr_bar r) _ (depth_size _ W) Hx).
  rewrite Hch. cbn [mfsize]. rewrite mfsize_app. cbn [mfsize]. rewrite (msize_children ex). lia.
Qed.

(* theorem (1), for whole grammars *)
Theorem consume_spelling cg forest : Forall goodr (cg_rules cg) ->
  smatch_list st w (tokens_of_grammar cg) forest -> consume fx extras w forest = COk (abs_grammar cg).
Proof.
  intros G M. unfold consume.
  assert (D : forall r, In r (cg_rules cg) -> depth (cr_body r) <= pred (mfsize forest)).
  { intros r Hr. unfold tokens_of_grammar in M.
    destruct (smatch_app_inv _ _ _ _ _ M) as (d0 & t0 & -> & _ & M0).
    destruct (rule_nodes _ _ _ M0 r Hr) as (p & Hp & Mp).
    rewrite Forall_forall in G. destruct (G r Hr) as (W & _).
    pose proof (rule_depth r p W Mp). pose proof (In_msize p t0 Hp). rewrite mfsize_app. lia. }
  assert (Pos : mfsize forest = S (pred (mfsize forest))).
  { unfold tokens_of_grammar in M. destruct forest as [|t ts]; [|cbn [mfsize]; pose proof (msize_pos t); lia].
    exfalso. destruct (smatch_app_inv _ _ _ _ _ M) as (a & b & E1 & _ & M1). destruct (smatch_app_inv _ _ _ _ _ M1) as (a2 & b2 & -> & _ & M2).
    destruct (smatch_app_inv _ _ _ _ _ M2) as (a3 & b3 & -> & _ & M3). inv_cons M3 as e r He Hr.
    apply (f_equal (@length mtree)) in E1. rewrite !app_length in E1. cbn [length] in E1. lia. }
  rewrite Pos. unfold tokens_of_grammar in M.
  destruct (skip_grammar_docs _ _ _ M) as (d0 & t0 & -> & M0 & Eq0). rewrite Eq0.
  destruct (rules_spelled (cg_rules cg) G _ t0 (pred (mfsize (d0 ++ t0))) D M0) as (d1 & t1 & -> & M1 & Eq1).
  unfold abs_grammar. rewrite <- (app_nil_r (map abs_rule (cg_rules cg))). apply Eq1.
  destruct (skip_line_docs _ _ _ M1) as (d2 & t2 & -> & M2 & Eq2). rewrite Eq2.
  inv_cons M2 as e r He Hr. inv_nil Hr. apply smatch_leaf in He.
  cbn [consume_pairs]. unfold is_rule. rewrite He. reflexivity.
Qed.
End Reader.

(* ---------------- minimal parentheses: which trees are representable, and how ---------------- *)
Lemma lvl_paren_if k c : k <= 5 -> k <= lvl (paren_if k c).
Proof.
  intros K. unfold paren_if, needs_parens. destruct (lvl c <? k) eqn:E; [cbn [lvl]; exact K|]. apply Nat.ltb_ge in E. exact E.
Qed.
Lemma wp_paren_if k c : wp c = true -> wp (paren_if k c) = true.
Proof. intros W. unfold paren_if. destruct (needs_parens k c); [exact W|exact W]. Qed.
Lemma abs_paren_if k c : abs (paren_if k c) = abs c.
Proof. unfold paren_if. destruct (needs_parens k c); reflexivity. Qed.
Lemma nested_bar_paren_if k c : nested_bar (paren_if k c) = nested_bar c.
Proof. unfold paren_if. destruct (needs_parens k c); reflexivity. Qed.
Lemma writable_paren_if x k c : writable x (paren_if k c) = writable x c.
Proof. unfold paren_if. destruct (needs_parens k c); reflexivity. Qed.

Lemma leb_intro a b : a <= b -> (a <=? b) = true. Proof. apply Nat.leb_le. Qed.

(* every abstract tree gets a well-parenthesised spelling, without a leading `|` anywhere *)
Theorem min_parens_wp cps e : wp (min_parens cps e) = true /\ nested_bar (min_parens cps e) = false.
Proof.
  induction e; cbn [min_parens wp nested_bar]; try (split; reflexivity);
    repeat match goal with H : _ /\ _ |- _ => destruct H end;
    rewrite ?nested_bar_paren_if, ?wp_paren_if by assumption;
    rewrite ?leb_intro by (apply lvl_paren_if; lia);
    repeat match goal with H : nested_bar _ = false |- _ => rewrite H; clear H end;
    repeat match goal with H : wp _ = true |- _ => rewrite H; clear H end; split; reflexivity.
Qed.

(* strings: code points of valid UTF-8 *)
Lemma decode_all_utf8 cs : Forall scalar cs -> forall f, length cs <= f -> decode_all_fuel f (utf8 cs) = cs.
Proof.
  induction 1 as [|c cs Sc _ IH]; intros f L.
  - destruct f; reflexivity.
  - destruct f as [|f]; [cbn in L; lia|]. cbn [utf8 flat_map decode_all_fuel]. fold (utf8 cs).
    rewrite (decode1_encode c (utf8 cs) (scalar_lt c Sc)).
    rewrite skipn_app, skipn_all, Nat.sub_diag. cbn [app skipn]. rewrite IH; [reflexivity|cbn in L; lia].
Qed.
Lemma utf8_length cs : length cs <= length (utf8 cs).
Proof.
  induction cs as [|c cs IH]; [reflexivity|]. cbn [utf8 flat_map length]. rewrite app_length. fold (utf8 cs).
  pose proof (encode_length c). lia.
Qed.
Lemma utf8_decode_all s : valid_utf8 s -> utf8 (decode_all s) = s /\ scalars (decode_all s) = true.
Proof.
  intros (cs & F & ->). unfold decode_all. fold (utf8 cs). rewrite (decode_all_utf8 cs F _ (utf8_length cs)). split; [reflexivity|].
  unfold scalars. apply forallb_forall. intros c Hc. apply scalarb_spec. rewrite Forall_forall in F. now apply F.
Qed.

(* the abstract trees one can write down *)
Fixpoint ewritable (extras : bool) (e : expr) : Prop :=
  match e with
  | EStr s | EInsens s => valid_utf8 s
  | ERange lo hi => scalar lo /\ scalar hi
  | EIdent n => ident_ok n = true
  | EPeekSlice i j => i32_ok i = true /\ match j with Some z => i32_ok z = true | None => True end
  | EPosPred x | ENegPred x | EOpt x | ERep x | ERepOnce x | EPush x => ewritable extras x
  | ESeq a b | EChoice a b => ewritable extras a /\ ewritable extras b
  | ERepExact x n | ERepMax x n => ewritable extras x /\ u32_ok n = true /\ n <> 0%N
  | ERepMin x n => ewritable extras x /\ u32_ok n = true
  | ERepMinMax x m n => ewritable extras x /\ u32_ok m = true /\ u32_ok n = true /\ n <> 0%N
  | ESkip _ => False
  | EPushLiteral s => extras = true /\ valid_utf8 s
  | ENodeTag x t => extras = true /\ ewritable extras x /\ tag_ok t = true
  end.

Theorem min_parens_abs extras e : ewritable extras e ->
  abs (min_parens decode_all e) = e /\ writable extras (min_parens decode_all e) = true.
Proof.
  induction e; cbn [ewritable min_parens abs writable]; intros H;
    rewrite ?abs_paren_if, ?writable_paren_if.
  - destruct (utf8_decode_all s H) as [-> ->]. auto.
  - destruct (utf8_decode_all s H) as [-> ->]. auto.
  - destruct H as [H1 H2]. apply scalarb_spec in H1, H2. rewrite H1, H2. auto.
  - auto.
  - destruct H as [H1 H2]. rewrite H1. destruct j; [rewrite H2|]; auto.
  - destruct (IHe H) as [-> ->]. auto.
  - destruct (IHe H) as [-> ->]. auto.
  - destruct H as [H1 H2]. destruct (IHe1 H1) as [-> ->]. destruct (IHe2 H2) as [-> ->]. auto.
  - destruct H as [H1 H2]. destruct (IHe1 H1) as [-> ->]. destruct (IHe2 H2) as [-> ->]. auto.
  - destruct (IHe H) as [-> ->]. auto.
  - destruct (IHe H) as [-> ->]. auto.
  - destruct (IHe H) as [-> ->]. auto.
  - destruct H as (H1 & H2 & H3). destruct (IHe H1) as [-> ->]. rewrite H2. apply N.eqb_neq in H3. rewrite H3. auto.
  - destruct H as (H1 & H2). destruct (IHe H1) as [-> ->]. rewrite H2. auto.
  - destruct H as (H1 & H2 & H3). destruct (IHe H1) as [-> ->]. rewrite H2. apply N.eqb_neq in H3. rewrite H3. auto.
  - destruct H as (H1 & H2 & H3 & H4). destruct (IHe H1) as [-> ->]. rewrite H2, H3. apply N.eqb_neq in H4. rewrite H4. auto.
  - destruct H.
  - destruct (IHe H) as [-> ->]. auto.
  - destruct H as [-> H]. destruct (utf8_decode_all s H) as [-> ->]. auto.
  - destruct H as (-> & H1 & H2). destruct (IHe H1) as [-> ->]. rewrite H2. auto.
Qed.

(* the other direction: where [needs_parens] asks for parentheses and none are written, the spelling is that of
   another tree, so it cannot be read back as the intended one *)
Lemma collide_seq_right a b c : fe (CSeq a (CSeq b c)) = fe (CSeq (CSeq a b) c).
Proof. unfold fe. cbn [both fst]. now rewrite <- app_assoc. Qed.
Lemma collide_choice_right a b c : fe (CChoice a (CChoice b c)) = fe (CChoice (CChoice a b) c).
Proof. unfold fe. cbn [both fst]. now rewrite <- app_assoc. Qed.
Lemma collide_seq_choice a b c : fe (CSeq a (CChoice b c)) = fe (CChoice (CSeq a b) c).
Proof. unfold fe. cbn [both fst]. now rewrite <- app_assoc. Qed.
Lemma collide_choice_seq a b c : fe (CSeq (CChoice a b) c) = fe (CChoice a (CSeq b c)).
Proof. unfold fe. cbn [both fst]. now rewrite <- app_assoc. Qed.
Lemma collide_prefix_postfix a : tc (COpt (CNeg a)) = tc (CNeg (COpt a)) /\ tc (CRep (CPos a)) = tc (CPos (CRep a)).
Proof. split; reflexivity. Qed.
