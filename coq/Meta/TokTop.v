(* C07 - tokenisation half, part 15: grammar_rules on the text of a whole printed grammar:
   SOI ~ grammar_doc* ~ grammar_rule* ~ EOI, and the closing theorem  C07_tokenisation. *)
From Coq Require Import List Arith NArith ZArith Bool Lia String.
Import ListNotations.
Require Import PV.Comb.PState PV.Comb.Bytes PV.Comb.Utf8 PV.Iter.Queue PV.Peg.Ast PV.Peg.Spec PV.Peg.SpecFacts.
Require Import PV.Meta.Tokens PV.Meta.Unescape PV.Meta.Consume PV.Meta.Spell PV.Meta.LexProofs PV.Meta.Text PV.Meta.Proofs PV.Meta.Top.
Require Import PV.Meta.PegRules PV.Meta.LexPeg PV.Meta.TokBase PV.Meta.TokLex PV.Meta.TokOps PV.Meta.TokPost PV.Meta.TokCount PV.Meta.TokOper.
Require Import PV.Meta.TokPre PV.Meta.TokAtom PV.Meta.TokAtom2 PV.Meta.TokTerm PV.Meta.TokExpr PV.Meta.TokMain PV.Meta.TokInd PV.Meta.TokRule.
Local Open Scope string_scope.
Local Open Scope list_scope.

Definition good_rule (extras : bool) (r : crule) : Prop :=
  wp (cr_body r) = true /\ writable extras (cr_body r) = true /\ ident_ok (cr_name r) = true.

(* what follows a gap in front of doc lines / rules is no gap *)
Lemma doc_gap_end (c : byte) d l : (c = 47%N \/ c = 33%N) -> doc_line [47%N; 47%N; c] d -> gap_end (d ++ l).
Proof.
  intros Hc (cs & nl & -> & _). cbn [app]. split; [repeat split; reflexivity|]. split; [reflexivity|]. right.
  eexists. destruct Hc as [-> | ->]; [left|right]; reflexivity.
Qed.
Lemma docs_gap_end (c : byte) n dw l : (c = 47%N \/ c = 33%N) -> prints_docs [47%N; 47%N; c] n dw -> gap_end l -> gap_end (dw ++ l).
Proof. intros Hc [|n' d g rest D Hg P] GE; [exact GE|]. rewrite <- app_assoc. exact (doc_gap_end c d _ Hc D). Qed.
Lemma name_gap_end n l : ident_ok n = true -> gap_end (n ++ l).
Proof.
  unfold ident_ok. intros H. apply andb_prop in H. destruct H as [H _]. destruct n as [|b0 n0]; [discriminate|]. cbn [tag_ok] in H.
  apply andb_prop in H. destruct H as [H _]. cbn [app]. apply ident_gap_end. now apply ident_start_char.
Qed.
Lemma rule_gap_end extras r w1 l : good_rule extras r -> prints_rule r w1 -> gap_end (w1 ++ l).
Proof.
  intros (_ & _ & OK) P0. destruct P0 as [r dw bw g1 g2 g3 g4 g5 g6 gb D P G1 G2 G3 G4 G5 G6 Gb N]. rewrite <- !app_assoc.
  apply (docs_gap_end 47%N (cr_docs r) dw); [left; reflexivity|exact D|]. now apply name_gap_end.
Qed.
Lemma rules_gap_end extras rs w2 l : Forall (good_rule extras) rs -> prints_rules rs w2 -> gap_end l -> gap_end (w2 ++ l).
Proof.
  intros F P0 GE. destruct P0 as [|r rs' w1 w2' P1 P2]; [exact GE|]. inversion F as [|? ? Gr _]; subst. rewrite <- app_assoc.
  exact (rule_gap_end extras r w1 _ Gr P1).
Qed.

Section Top.
Variable w : list byte.
Variable sg : list str.
Variable extras : bool.
Notation G := meta_grammar.
Notation at_ := (at_ w).
Notation ok := (ok w sg).
Notation no := (no w sg).
Notation skp := (skp w sg).
Notation SM := (SM w).
Notation urun := (urun w sg).
Notation lands := (lands w).

Lemma nl_gap nl g : (nl = [10%N] \/ nl = [13%N; 10%N]) -> gap g -> gap (nl ++ g).
Proof. intros [-> | ->] Hg; apply gap_white; auto; constructor. Qed.

(* a run of doc lines, each one unit of a repetition of x *)
Lemma docs_run (c : byte) x k : (c = 47%N \/ c = 33%N) ->
  (forall d l p, doc_line [47%N; 47%N; c] d -> at_ p (d ++ l) ->
     exists q F nl, ok x p q F /\ SM [k] F /\ (nl = [10%N] \/ nl = [13%N; 10%N]) /\ at_ q (nl ++ l) /\ q + List.length nl = p + List.length d) ->
  forall n dw, prints_docs [47%N; 47%N; c] n dw -> forall q0 p l, lands q0 p -> at_ p (dw ++ l) -> gap_end l ->
  exists q1 F, urun x q0 q1 F /\ lands q1 (p + List.length dw) /\ SM (repeat k n) F.
Proof.
  intros Hc One n dw P. induction P as [|n d g rest D Hg P IH]; intros q0 p l La H GE.
  - exists q0, []. split; [constructor|]. split; [cbn [List.length]; now rewrite Nat.add_0_r|apply SM_nil].
  - rewrite <- !app_assoc in H. destruct (One d _ p D H) as (q & F & nl & O & M & Hnl & Hq & Eq).
    assert (La' : lands q (p + List.length d + List.length g)).
    { rewrite app_assoc in Hq. apply (lands_gap w q (nl ++ g) _ _ Hq (nl_gap nl g Hnl Hg)); [|unfold byte in *; rewrite app_length; lia].
      exact (docs_gap_end c n rest l Hc P GE). }
    destruct (IH q _ l La' (at_app w _ g _ (at_app w p d _ H)) GE) as (q1 & F1 & R & L1 & M1).
    exists q1, (F ++ F1). split; [exact (ur_cons w sg x q0 p q F q1 F1 (lands_sk w sg _ _ La) O R)|]. split.
    + apply (lands_eq w q1 _ _ L1). len.
    + cbn [repeat]. exact (SM_app w [k] _ F F1 M M1).
Qed.

Definition line_docs_run := docs_run 47%N GRULE sk_line_doc (or_introl eq_refl) (rule_doc_ok w sg).
Definition grammar_docs_run :=
  docs_run 33%N GDOC (SK MGrammarDoc LNone [sk MInnerDoc]) (or_intror eq_refl)
           (fun d l p => grammar_doc_ok w sg d l p eq_refl eq_refl eq_refl eq_refl).

Lemma tokens_of_rule_sk r : tokens_of_rule r = repeat sk_line_doc (cr_docs r) ++ [TokRule.rule_sk r].
Proof. reflexivity. Qed.

(* the rules: grammar_rule once per doc line and once per rule *)
Lemma rules_run rs text : prints_rules rs text -> Forall (good_rule extras) rs -> forall q0 p l, lands q0 p -> at_ p (text ++ l) -> gap_end l ->
  exists q1 F, urun GRULE q0 q1 F /\ lands q1 (p + List.length text) /\ SM (flat_map tokens_of_rule rs) F.
Proof.
  induction 1 as [|r rs w1 w2 P1 P2 IH]; intros Fg q0 p l La H GE.
  - exists q0, []. split; [constructor|]. split; [cbn [List.length]; now rewrite Nat.add_0_r|apply SM_nil].
  - inversion Fg as [|? ? Gr Fg']; subst. pose proof (rules_gap_end extras rs w2 l Fg' P2 GE) as GE2.
    destruct P1 as [r dw bw g1 g2 g3 g4 g5 g6 gb D P G1 G2 G3 G4 G5 G6 Gb N]. destruct Gr as (W & Wr & OK).
    norm H.
    destruct (line_docs_run (cr_docs r) dw D q0 p _ La H (name_gap_end (cr_name r) _ OK)) as (q1 & F1 & R1 & L1 & M1).
    pose proof (at_app w p dw _ H) as H1.
    destruct (rule_ok w sg extras r bw g1 g2 g3 g4 g5 gb _ _ P W Wr OK G1 G2 G3 G4 G5 Gb N H1) as (F2 & O2 & M2).
    match type of O2 with TokBase.ok _ _ _ _ ?e' _ => set (e := e') in * end.
    assert (He : at_ e (g6 ++ w2 ++ l)).
    { unfold e. apply (at_app_cons w _ g5 125%N). repeat apply at_app. apply (at_app_cons w _ g3 123%N). repeat apply at_app.
      apply (at_app_cons w _ g1 61%N). apply at_app. exact H1. }
    assert (La2 : lands e (e + List.length g6)) by (apply (lands_gap w e g6 _ _ He G6 GE2); reflexivity).
    destruct (IH Fg' e _ l La2 (at_app w _ g6 _ He) GE) as (q3 & F3 & R3 & L3 & M3).
    exists q3, ((F1 ++ F2) ++ F3). split; [exact (urun_app w sg GRULE q0 e q3 _ _ (urun_snoc w sg GRULE q0 q1 F1 _ e F2 R1 (lands_sk w sg _ _ L1) O2) R3)|].
    split; [apply (lands_eq w q3 _ _ L3); unfold e; len|].
    cbn [flat_map]. rewrite tokens_of_rule_sk. apply SM_app; [apply SM_app; assumption|exact M3].
Qed.

Lemma gdoc_no_rules rs tr text n : prints_rules rs text -> Forall (good_rule extras) rs -> prints_docs [47%N; 47%N; 47%N] n tr ->
  prefixb (nm "//!") (text ++ tr) = false.
Proof.
  assert (D : forall k dw l, prints_docs [47%N; 47%N; 47%N] k dw -> prefixb (nm "//!") l = false -> prefixb (nm "//!") (dw ++ l) = false).
  { intros k dw l [|k' d g rest (cs & nl & -> & _) Hg P] Hl; [exact Hl|reflexivity]. }
  intros P0 Fg Pt. destruct P0 as [|r rs' w1 w2 P1 P2].
  - cbn [app]. rewrite <- (app_nil_r tr). now apply (D n).
  - inversion Fg as [|? ? (_ & _ & OK) _]; subst. destruct P1 as [r dw bw g1 g2 g3 g4 g5 g6 gb Dd]. rewrite <- !app_assoc. apply (D (cr_docs r) dw); [exact Dd|].
    unfold ident_ok in OK. apply andb_prop in OK. destruct OK as [OK _]. destruct (cr_name r) as [|b0 n0]; [discriminate|]. cbn [tag_ok] in OK.
    apply andb_prop in OK. destruct OK as [Sb _]. cbn [app]. change (nm "//!") with (47%N :: [47; 33]%N). apply hd_ne_prefix. cbn. intros ->. discriminate.
Qed.
End Top.
