(* C07 - tokenisation half, expression level, part 3: doc lines, operators, modifiers, counts. *)
From Coq Require Import List Arith NArith ZArith Bool Lia String.
Import ListNotations.
Require Import PV.Comb.PState PV.Comb.Bytes PV.Comb.Utf8 PV.Iter.Queue PV.Peg.Ast PV.Peg.Spec PV.Peg.SpecFacts.
Require Import PV.Meta.Tokens PV.Meta.Unescape PV.Meta.Spell PV.Meta.LexProofs PV.Meta.Text PV.Meta.Proofs.
Require Import PV.Meta.PegRules PV.Meta.LexPeg PV.Meta.TokBase PV.Meta.TokLex.
Local Open Scope string_scope.
Local Open Scope list_scope.

Ltac len := unfold byte in *; repeat (progress (cbn [List.length]; rewrite ?app_length)); cbn [List.length]; lia.
(* right-nest the appends of a hypothesis about the text, singletons as conses *)
Ltac norm H := repeat (progress (rewrite <- ?app_assoc in H; cbn [app] in H)).

Section Ops.
Variable w : list byte.
Variable sg : list str.
Notation G := meta_grammar.
Notation mev := (evals G false (fun _ => None) w).
Notation at_ := (at_ w).
Notation ev := (ev w sg).
Notation ok := (ok w sg).
Notation no := (no w sg).
Notation skp := (skp w sg).
Notation SM := (SM w).

Lemma skp_gap p g l : at_ p (g ++ l) -> gap g -> gap_end l -> skp p (p + List.length g).
Proof. intros H Hg Hl. exact (gap_lex w g true sg p l Hg Hl H). Qed.
Lemma skp_here p l : at_ p l -> gap_end l -> skp p p.
Proof. intros H Hl. pose proof (skp_gap p [] l H gap_nil Hl) as X. cbn [List.length] in X. now rewrite Nat.add_0_r in X. Qed.

(* ---- doc lines:  lead ~ space? ~ inner_doc  in a compound-atomic rule ---- *)
Definition doc_body (lead : list byte) : expr := seql (EStr lead) [EOpt (Rf "space"); Rf "inner_doc"].

Lemma cskip p : skips G false (fun _ => None) w CompoundAtomic true p sg (SMatch p sg []).
Proof. now apply skips_atomic. Qed.

Lemma space_opt cs nl rest p : Forall scalar cs -> ~ In 10%N cs -> last cs 0%N <> 13%N -> (nl = [10%N] \/ nl = [13%N; 10%N]) ->
  at_ p (utf8 cs ++ nl ++ rest) ->
  exists pre cs2, utf8 cs = pre ++ utf8 cs2 /\ Forall scalar cs2 /\ ~ In 10%N cs2 /\ last cs2 0%N <> 13%N /\
    mev CompoundAtomic true (EOpt (Rf "space")) p sg (SMatch (p + List.length pre) sg []).
Proof.
  intros F NI NL Hnl H.
  assert (Call : forall res, mev CompoundAtomic true (EChoice (EStr (nm " ")) (EStr [9%N])) p sg res -> mev CompoundAtomic true (Rf "space") p sg res).
  { intros res X. pose proof (evals_call G false (fun _ => None) w CompoundAtomic true (nm "space") (mk "space" RSilent (chol (Lt " ") [EStr [9%N]])) p sg res eq_refl eq_refl X) as C.
    cbn [rule_mode is_special rty mk snd fst] in C. destruct res; exact C. }
  assert (Yes : forall c cs', cs = c :: cs' -> (c = 32%N \/ c = 9%N) ->
            exists pre cs2, utf8 cs = pre ++ utf8 cs2 /\ Forall scalar cs2 /\ ~ In 10%N cs2 /\ last cs2 0%N <> 13%N /\
              mev CompoundAtomic true (EOpt (Rf "space")) p sg (SMatch (p + List.length pre) sg [])).
  { intros c cs' -> Hc. exists [c], cs'. inversion F as [|? ? Sc F']; subst.
    assert (Ec : encode c = [c]) by (destruct Hc as [-> | ->]; reflexivity).
    split; [cbn [utf8 flat_map]; now rewrite Ec|]. split; [exact F'|]. split; [intros X; apply NI; now right|].
    split; [destruct cs' as [|c2 cs'']; [cbn; discriminate|exact NL]|].
    cbn [utf8 flat_map] in H. rewrite Ec in H. cbn [app] in H.
    pose proof (evals_opt G false (fun _ => None) w CompoundAtomic true (Rf "space") p sg (SMatch (p + 1) sg [])) as O. cbn in O. apply O. apply Call.
    destruct Hc as [-> | ->].
    - apply evals_choice_l. exact (str_yes w CompoundAtomic true (nm " ") p sg _ H).
    - apply evals_choice_r; [apply (str_no w CompoundAtomic true _ p sg _ H); reflexivity|]. exact (str_yes w CompoundAtomic true [9%N] p sg _ H). }
  assert (No : prefixb [32%N] (utf8 cs ++ nl ++ rest) = false -> prefixb [9%N] (utf8 cs ++ nl ++ rest) = false ->
            exists pre cs2, utf8 cs = pre ++ utf8 cs2 /\ Forall scalar cs2 /\ ~ In 10%N cs2 /\ last cs2 0%N <> 13%N /\
              mev CompoundAtomic true (EOpt (Rf "space")) p sg (SMatch (p + List.length pre) sg [])).
  { intros N1 N2. exists [], cs. split; [reflexivity|]. split; [exact F|]. split; [exact NI|]. split; [exact NL|].
    cbn [List.length]. rewrite Nat.add_0_r.
    pose proof (evals_opt G false (fun _ => None) w CompoundAtomic true (Rf "space") p sg SFail) as O. cbn in O. apply O. apply Call.
    apply evals_choice_r; [exact (str_no w CompoundAtomic true _ p sg _ H N1)|exact (str_no w CompoundAtomic true _ p sg _ H N2)]. }
  destruct cs as [|c cs'].
  - apply No; cbn [utf8 flat_map app]; destruct Hnl as [-> | ->]; reflexivity.
  - destruct (N.eq_dec c 32) as [E1|E1]; [apply (Yes c cs' eq_refl); now left|].
    destruct (N.eq_dec c 9) as [E2|E2]; [apply (Yes c cs' eq_refl); now right|].
    inversion F as [|? ? Sc F']; subst. apply No; cbn [utf8 flat_map]; rewrite <- app_assoc; apply first_byte_ne; auto; lia.
Qed.

Lemma doc_ok n lead r d rest p : plain_name n = true -> is_special n = false ->
  find_rule G n = Some {| rname := n; rty := RCompound; rexpr := doc_body lead |} -> mrule_of_nat (rule_id G n) = r ->
  doc_line lead d -> at_ p (d ++ rest) ->
  exists q F nl, ok (EIdent n) p q F /\ SM [SK r LNone [sk MInnerDoc]] F /\ (nl = [10%N] \/ nl = [13%N; 10%N]) /\
    at_ q (nl ++ rest) /\ q + List.length nl = p + List.length d.
Proof.
  intros PN SP FR ID (cs & nl & -> & F & NI & NL & Hnl) H. rewrite <- !app_assoc in H.
  pose proof (at_app w p lead _ H) as H1.
  destruct (space_opt cs nl rest (p + List.length lead) F NI NL Hnl H1) as (pre & cs2 & Eu & F2 & NI2 & NL2 & Sp).
  rewrite Eu in H1. rewrite <- app_assoc in H1. pose proof (at_app w _ pre _ H1) as H2.
  set (p2 := p + List.length lead + List.length pre) in *. set (q := p2 + List.length (utf8 cs2)).
  pose proof (at_app w _ (utf8 cs2) _ H2) as H3. fold q in H3.
  exists q, [Node (rule_id G n) None p q [Node (mid MInnerDoc) None p2 q []]], nl.
  split; [|split; [|split; [exact Hnl|split; [exact H3|]]]].
  - pose proof (evals_call G false (fun _ => None) w NonAtomic true n _ p sg (SMatch q sg [Node (mid MInnerDoc) None p2 q []]) PN FR) as C.
    rewrite SP in C. cbn [rule_mode rty rexpr snd fst] in C. apply C. clear C. unfold doc_body, seql. cbn [fold_left].
    pose proof (evals_seq G false (fun _ => None) w CompoundAtomic true (ESeq (EStr lead) (EOpt (Rf "space"))) (Rf "inner_doc")
                  p sg p2 sg [] p2 sg [] (SMatch q sg [Node (mid MInnerDoc) None p2 q []])) as S2. cbn [app] in S2. apply S2; clear S2.
    + pose proof (evals_seq G false (fun _ => None) w CompoundAtomic true (EStr lead) (EOpt (Rf "space"))
                    p sg (p + List.length lead) sg [] (p + List.length lead) sg [] (SMatch p2 sg [])) as S1. cbn [app] in S1. apply S1; clear S1.
      * exact (str_yes w CompoundAtomic true lead p sg _ H).
      * apply cskip.
      * exact Sp.
    + apply cskip.
    + pose proof (evals_call G false (fun _ => None) w CompoundAtomic true (nm "inner_doc") (mk "inner_doc" RAtomic (ERep (seql (ENegPred (Rf "newline")) [Rf "ANY"])))
                    p2 sg (SMatch q sg []) eq_refl eq_refl) as Ci.
      cbn [rule_mode is_special rty rexpr mk snd fst] in Ci. apply Ci. clear Ci.
      apply evals_rep_atomic; [reflexivity|]. exact (lc_loop w true sg nl rest Hnl cs2 p2 [] F2 NI2 NL2 H2).
  - apply (SM_node w (rule_id G n) r LNone [sk MInnerDoc] p q _ ID I). apply SM_leaf. reflexivity.
  - unfold q, p2. rewrite Eu. len.
Qed.

Lemma doc_no n lead p l : plain_name n = true -> is_special n = false ->
  find_rule G n = Some {| rname := n; rty := RCompound; rexpr := doc_body lead |} -> at_ p l -> prefixb lead l = false -> no (EIdent n) p.
Proof.
  intros PN SP FR H N. apply (call_compound_no w sg n _ p PN SP FR eq_refl). cbn [rexpr]. unfold doc_body, seql. cbn [fold_left].
  apply evals_seq_fail. apply evals_seq_fail. exact (str_no w CompoundAtomic true lead p sg l H N).
Qed.

Definition line_doc_ok := doc_ok (nm "line_doc") (nm "///") MLineDoc.
Definition grammar_doc_ok := doc_ok (nm "grammar_doc") (nm "//!") MGrammarDoc.
End Ops.
