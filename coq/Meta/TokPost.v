(* C07 - tokenisation half, expression level, part 4: prefix / infix / postfix operators, counts, modifiers. *)
From Coq Require Import List Arith NArith ZArith Bool Lia String.
Import ListNotations.
Require Import PV.Comb.PState PV.Comb.Bytes PV.Comb.Utf8 PV.Iter.Queue PV.Peg.Ast PV.Peg.Spec PV.Peg.SpecFacts.
Require Import PV.Meta.Tokens PV.Meta.Unescape PV.Meta.Spell PV.Meta.LexProofs PV.Meta.Text PV.Meta.Proofs.
Require Import PV.Meta.PegRules PV.Meta.LexPeg PV.Meta.TokBase PV.Meta.TokLex PV.Meta.TokOps.
Local Open Scope string_scope.
Local Open Scope list_scope.

Definition PREOP : expr := Rf "prefix_operator".
Definition POSTOP : expr := Rf "postfix_operator".
Definition INFIX : expr := Rf "infix_operator".
Definition TERM : expr := Rf "term".
Definition NODE : expr := Rf "node".
Definition EXPR : expr := Rf "expression".
Definition INFIXTERM : expr := ESeq INFIX TERM.

(* the spelling of a postfix operator and the token it becomes *)
Inductive post_text : skel -> list byte -> Prop :=
| pt_opt : post_text (sk MOptionalOperator) [63%N]
| pt_rep : post_text (sk MRepeatOperator) [42%N]
| pt_once : post_text (sk MRepeatOnceOperator) [43%N]
| pt_exact n nw g2 g3 : spells_num n nw -> gap g2 -> gap g3 ->
    post_text (sk_count MRepeatExact [sk MOpeningBrace; sk_num n; sk MClosingBrace]) ([123%N] ++ g2 ++ nw ++ g3 ++ [125%N])
| pt_min n nw g2 g3 g4 : spells_num n nw -> gap g2 -> gap g3 -> gap g4 ->
    post_text (sk_count MRepeatMin [sk MOpeningBrace; sk_num n; sk MComma; sk MClosingBrace]) ([123%N] ++ g2 ++ nw ++ g3 ++ [44%N] ++ g4 ++ [125%N])
| pt_max n nw g2 g3 g4 : spells_num n nw -> gap g2 -> gap g3 -> gap g4 ->
    post_text (sk_count MRepeatMax [sk MOpeningBrace; sk MComma; sk_num n; sk MClosingBrace]) ([123%N] ++ g2 ++ [44%N] ++ g3 ++ nw ++ g4 ++ [125%N])
| pt_min_max m n mw nw g2 g3 g4 g5 : spells_num m mw -> spells_num n nw -> gap g2 -> gap g3 -> gap g4 -> gap g5 ->
    post_text (sk_count MRepeatMinMax [sk MOpeningBrace; sk_num m; sk MComma; sk_num n; sk MClosingBrace])
              ([123%N] ++ g2 ++ mw ++ g3 ++ [44%N] ++ g4 ++ nw ++ g5 ++ [125%N]).

Section Post.
Variable w : list byte.
Variable sg : list str.
Notation G := meta_grammar.
Notation mev := (evals G false (fun _ => None) w).
Notation at_ := (at_ w).
Notation ev := (ev w sg).
Notation ok := (ok w sg).
Notation no := (no w sg).
Notation skp := (skp w sg).
Notation SM := (SM w).

Definition tnode (s : string) (p q : nat) : tree := Node (rule_id G (nm s)) None p q [].

(* ---- appending one more element to a sequence ---- *)
Lemma seq_tok X s c p q F g l : plain_name (nm s) = true -> is_special (nm s) = false ->
  find_rule G (nm s) = Some {| rname := nm s; rty := RNormal; rexpr := EStr [c] |} ->
  ok X p q F -> gap g -> at_ q (g ++ c :: l) -> gap_end (c :: l) ->
  ok (ESeq X (Rf s)) p (q + List.length g + 1) (F ++ [tnode s (q + List.length g) (q + List.length g + 1)]).
Proof.
  intros PN SP FR HX Hg H GE. apply (seq_ok w sg X (Rf s) p q F (q + List.length g)); [exact HX|exact (skp_gap w sg q g _ H Hg GE)|].
  exact (tok1_ok w sg (nm s) c _ l PN SP FR (at_app w q g _ H)).
Qed.
Lemma seq_tok_no X s c p q F g l : plain_name (nm s) = true -> is_special (nm s) = false ->
  find_rule G (nm s) = Some {| rname := nm s; rty := RNormal; rexpr := EStr [c] |} ->
  ok X p q F -> gap g -> at_ q (g ++ l) -> gap_end l -> hd_ne c l -> no (ESeq X (Rf s)) p.
Proof.
  intros PN SP FR HX Hg H GE N. apply (seq_no2 w sg X (Rf s) p q F (q + List.length g)); [exact HX|exact (skp_gap w sg q g _ H Hg GE)|].
  exact (tok1_no w sg (nm s) c _ l PN SP FR (at_app w q g _ H) N).
Qed.

Lemma digit_head n nw : spells_num n nw -> exists d r, nw = d :: r /\ (d < 128)%N /\ digitb d = true.
Proof.
  intros S. destruct (spells_num_digits n nw S) as [NE F]. destruct nw as [|d r]; [congruence|]. inversion F as [|? ? [L D] _]; subst.
  exists d, r. auto.
Qed.
Lemma digit_gap_end d l : digitb d = true -> gap_end (d :: l).
Proof.
  unfold digitb, in_range. intros H. apply andb_prop in H. destruct H as [H1 H2]. apply N.leb_le in H1, H2.
  apply gap_end_byte; lia.
Qed.
Lemma num_gap_end n nw l : spells_num n nw -> gap_end (nw ++ l).
Proof. intros S. destruct (digit_head n nw S) as (d & r & -> & _ & D). cbn [app]. now apply digit_gap_end. Qed.
Lemma num_hd_ne n nw l c : spells_num n nw -> digitb c = false -> hd_ne c (nw ++ l).
Proof. intros S Hc. destruct (digit_head n nw S) as (d & r & -> & _ & D). cbn. intros ->. congruence. Qed.

Lemma seq_num X p q F g n nw l : ok X p q F -> gap g -> at_ q (g ++ nw ++ l) -> spells_num n nw -> follow digitb l ->
  ok (ESeq X (Rf "number")) p (q + List.length g + List.length nw)
     (F ++ [Node (mid MNumber) None (q + List.length g) (q + List.length g + List.length nw) []]).
Proof.
  intros HX Hg H S Fo. apply (seq_ok w sg X (Rf "number") p q F (q + List.length g)); [exact HX| |].
  - exact (skp_gap w sg q g _ H Hg (num_gap_end n nw l S)).
  - exact (number_ok w sg n nw l _ S Fo (at_app w q g _ H)).
Qed.
Lemma seq_num_no X p q F g l : ok X p q F -> gap g -> at_ q (g ++ l) -> gap_end l -> follow digitb l -> no (ESeq X (Rf "number")) p.
Proof.
  intros HX Hg H GE Fo. apply (seq_no2 w sg X (Rf "number") p q F (q + List.length g)); [exact HX|exact (skp_gap w sg q g _ H Hg GE)|].
  exact (number_no w sg _ l (at_app w q g _ H) Fo).
Qed.

Lemma ge44 l : gap_end (44%N :: l). Proof. apply gap_end_byte; discriminate. Qed.
Lemma ge125 l : gap_end (125%N :: l). Proof. apply gap_end_byte; discriminate. Qed.
Lemma fo44 l : follow digitb (44%N :: l). Proof. split; [reflexivity|reflexivity]. Qed.
Lemma fo125 l : follow digitb (125%N :: l). Proof. split; [reflexivity|reflexivity]. Qed.
Lemma follow_gap_digit g c l : gap g -> (c < 128)%N -> digitb c = false -> follow digitb (g ++ c :: l).
Proof.
  intros Hg Lc Dc. apply follow_gap; auto. intros x Hx. destruct (gapb_cases x Hx) as [->|[->|[->|[->| ->]]]]; reflexivity.
Qed.

Lemma ob_ok p l : at_ p (123%N :: l) -> ok (Rf "opening_brace") p (p + 1) [tnode "opening_brace" p (p + 1)].
Proof. intros H. exact (tok1_ok w sg (nm "opening_brace") 123%N p l eq_refl eq_refl eq_refl H). Qed.
Lemma ob_no p l : at_ p l -> hd_ne 123%N l -> no (Rf "opening_brace") p.
Proof. intros H N. exact (tok1_no w sg (nm "opening_brace") 123%N p l eq_refl eq_refl eq_refl H N). Qed.

Definition num_node (p q : nat) : tree := Node (mid MNumber) None p q [].

Lemma SM_num n nw l p q : spells_num n nw -> at_ p (nw ++ l) -> q = p + List.length nw -> SM [sk_num n] [num_node p q].
Proof.
  intros S H E. apply (SM_node w (mid MNumber) MNumber (LNum n) [] p q [] eq_refl); [|apply SM_nil].
  cbn [lex_ok]. now rewrite (slice_at w p nw l q H E).
Qed.
End Post.
