(* C07 - tokenisation half, expression level, part 9: identifier (vs PUSH.. / PEEK[..]), peek_slice, _push_literal as nodes. *)
From Coq Require Import List Arith NArith ZArith Bool Lia String.
Import ListNotations.
Require Import PV.Comb.PState PV.Comb.Bytes PV.Comb.Utf8 PV.Iter.Queue PV.Peg.Ast PV.Peg.Spec PV.Peg.SpecFacts.
Require Import PV.Meta.Tokens PV.Meta.Unescape PV.Meta.Spell PV.Meta.LexProofs PV.Meta.Text PV.Meta.Proofs.
Require Import PV.Meta.PegRules PV.Meta.LexPeg PV.Meta.TokBase PV.Meta.TokLex PV.Meta.TokOps PV.Meta.TokPost PV.Meta.TokCount PV.Meta.TokOper PV.Meta.TokAtom.
Local Open Scope string_scope.
Local Open Scope list_scope.

Section Atom2.
Variable w : list byte.
Variable sg : list str.
Notation G := meta_grammar.
Notation mev := (evals G false (fun _ => None) w).
Notation at_ := (at_ w).
Notation ev := (ev w sg).
Notation ok := (ok w sg).
Notation no := (no w sg).
Notation skp := (skp w sg).
Notation SM := (SM w).

Lemma hard_ne b c : hardb b = true -> hardb c = false -> b <> c.
Proof. intros H1 H2 ->. congruence. Qed.

(* ---- identifier ---- *)
Lemma atom_ident n g b r' p : ident_ok n = true -> gap g -> hardb b = true -> b <> 91%N -> at_ p (n ++ g ++ b :: r') ->
  exists F, ok NODE p (p + List.length n) F /\ SM (tc (CIdent n)) F.
Proof.
  intros OK Hg Hb B91 H. pose proof OK as OK'. unfold ident_ok in OK'. apply andb_prop in OK'. destruct OK' as [TO NPn]. apply negb_true_iff in NPn.
  destruct n as [|b0 n0]; [discriminate|]. cbn [tag_ok] in TO. apply andb_prop in TO. destruct TO as [Sb Fr].
  pose proof (hard_follow_ident g b r' Hg Hb) as Fo.
  assert (NP : prefixb (nm "PUSH") ((b0 :: n0) ++ g ++ b :: r') = false) by (apply no_kw; [reflexivity|exact NPn|exact Fo]).
  exists [Node (mid MIdentifier) None p (p + List.length (b0 :: n0)) []]. split.
  - apply (node_of_terminal w sg p _ _ H); [cbn; intros ->; discriminate|]. apply call_terminal.
    apply (chain_select w NonAtomic true [Rf "_push"; Rf "peek_slice"] (Rf "identifier") _ (Rf "_push_literal")).
    + apply chain_fail; [exact (pushlit_no w sg p _ H NP)|]. repeat constructor; [exact (push_no w sg p _ H NP)|].
      destruct (prefixb (nm "PEEK") (b0 :: n0)) eqn:PK.
      * apply prefixb_starts in PK. destruct PK as (n' & En). rewrite En in H. rewrite <- app_assoc in H.
        destruct n' as [|c n''].
        -- cbn [app] in H. apply (peek_no2 w sg p g (b :: r') H Hg (hard_gap_end b r' Hb)). exact B91.
        -- assert (Ic : ident_char c = true).
           { cbn [app] in En. injection En as _ En. rewrite En in Fr. cbn [forallb] in Fr. now repeat (apply andb_prop in Fr; destruct Fr as [? Fr]). }
           apply (peek_no2 w sg p [] ((c :: n'') ++ g ++ b :: r')); [exact H|constructor|cbn [app]; now apply ident_gap_end|].
           cbn. intros ->. discriminate Ic.
      * apply (peek_no1 w sg p _ H). apply no_kw; [reflexivity|exact PK|exact Fo].
    + exact (identifier_ok w sg (b0 :: n0) _ p OK Fo H).
  - cbn [tc both mkt snd]. apply (SM_node w (mid MIdentifier) MIdentifier (LName (b0 :: n0)) [] p _ [] eq_refl); [|apply SM_nil].
    cbn [lex_ok]. exact (slice_at w p (b0 :: n0) _ _ H eq_refl).
Qed.

(* ---- PEEK[ i? .. j? ] ---- *)
Lemma int_gap_end z zw l : spells_int z zw -> gap_end (zw ++ l).
Proof.
  intros [[_ S]|[_ (l' & -> & S)]]; [exact (num_gap_end _ zw l S)|]. cbn [app]. apply gap_end_byte; discriminate.
Qed.
Lemma opt_int_gap_end o wo c l : spells_opt_int o wo -> gap_end (c :: l) -> gap_end (wo ++ c :: l).
Proof. intros [|z zw g S Hg] GE; [exact GE|]. rewrite <- app_assoc. exact (int_gap_end z zw _ S). Qed.
Definition sk_opt_int (o : option Z) : list skel := match o with Some z => [sk_int z] | None => [] end.

Lemma opt_int_step X p q0 q F o wo c l : ok X p q0 F -> skp q0 q -> spells_opt_int o wo -> at_ q (wo ++ c :: l) ->
  (c < 128)%N -> digitb c = false -> c <> 45%N -> gap_end (c :: l) ->
  exists q1 Fi, ok (ESeq X (EOpt (Rf "integer"))) p q1 (F ++ Fi) /\ skp q1 (q + List.length wo) /\ SM (sk_opt_int o) Fi.
Proof.
  intros HX Sk So H Lc Dc C45 GE. destruct So as [|z zw g S Hg].
  - cbn [app List.length] in *. exists q, []. rewrite Nat.add_0_r. split; [|split; [exact (skp_here w sg q _ H GE)|apply SM_nil]].
    apply (seq_ok w sg X _ p q0 F q q [] HX Sk). apply opt_none. apply (integer_no w sg q _ H); [split; assumption|exact C45].
  - rewrite <- app_assoc in H. exists (q + List.length zw), [Node (mid MInteger) None q (q + List.length zw) []]. split; [|split].
    + apply (seq_ok w sg X _ p q0 F q _ _ HX Sk). apply opt_some. apply (integer_ok w sg z zw (g ++ c :: l) q S); [|exact H].
      apply follow_gap_digit; assumption.
    + rewrite app_length, Nat.add_assoc. exact (skp_gap w sg (q + List.length zw) g (c :: l) (at_app w q zw (g ++ c :: l) H) Hg GE).
    + cbn [sk_opt_int]. apply (SM_node w (mid MInteger) MInteger (LInt z) [] q _ [] eq_refl); [|apply SM_nil].
      cbn [lex_ok]. now rewrite (slice_at w q zw _ _ H eq_refl).
Qed.

Lemma ge46 l : gap_end (46%N :: l). Proof. apply gap_end_byte; discriminate. Qed.
Lemma ge93 l : gap_end (93%N :: l). Proof. apply gap_end_byte; discriminate. Qed.
Lemma ge91 l : gap_end (91%N :: l). Proof. apply gap_end_byte; discriminate. Qed.

Lemma atom_peek i j wi wj g1 g2 g3 p l : spells_opt_int i wi -> spells_opt_int j wj -> gap g1 -> gap g2 -> gap g3 ->
  at_ p (nm "PEEK" ++ g1 ++ 91%N :: g2 ++ wi ++ 46%N :: 46%N :: g3 ++ wj ++ 93%N :: l) ->
  exists F, ok NODE p (p + 4 + List.length g1 + 1 + List.length g2 + List.length wi + 2 + List.length g3 + List.length wj + 1) F /\ SM (tc (CPeek i j)) F.
Proof.
  intros Si Sj G1 G2 G3 H.
  pose proof (at_app w p (nm "PEEK") _ H) as H1. change (List.length (nm "PEEK")) with 4 in H1.
  pose proof (at_app_cons w _ g1 _ _ H1) as H2. pose proof (at_app w _ g2 _ H2) as H3. pose proof (at_app w _ wi _ H3) as H4.
  pose proof (at_cons w _ _ _ (at_cons w _ _ _ H4)) as H5. pose proof (at_app w _ g3 _ H5) as H6. pose proof (at_app w _ wj _ H6) as H7.
  pose proof (str_ok w sg (nm "PEEK") p _ H) as X0. change (List.length (nm "PEEK")) with 4 in X0.
  pose proof (seq_tok w sg (Lt "PEEK") "opening_brack" 91%N p _ _ g1 _ eq_refl eq_refl eq_refl X0 G1 H1 (ge91 _)) as X1.
  pose proof (skp_gap w sg _ g2 _ H2 G2 (opt_int_gap_end i wi 46%N _ Si (ge46 _))) as K2.
  destruct (opt_int_step _ p _ _ _ i wi 46%N _ X1 K2 Si H3 eq_refl eq_refl ltac:(discriminate) (ge46 _)) as (q1 & Fi & X2 & K3 & Mi).
  pose proof (seq_ok w sg _ (Rf "range_operator") p q1 _ _ _ _ X2 K3
                (tok_ok w sg (nm "range_operator") [46%N; 46%N] _ _ eq_refl eq_refl eq_refl H4)) as X3. cbn [List.length] in X3.
  assert (H5' : at_ (p + 4 + List.length g1 + 1 + List.length g2 + List.length wi + 2) (g3 ++ wj ++ 93%N :: l)) by (apply (at_eq w _ _ _ H5); lia).
  assert (H6' : at_ (p + 4 + List.length g1 + 1 + List.length g2 + List.length wi + 2 + List.length g3) (wj ++ 93%N :: l)) by exact (at_app w _ g3 _ H5').
  pose proof (skp_gap w sg _ g3 _ H5' G3 (opt_int_gap_end j wj 93%N _ Sj (ge93 _))) as K4.
  destruct (opt_int_step _ p _ _ _ j wj 93%N _ X3 K4 Sj H6' eq_refl eq_refl ltac:(discriminate) (ge93 _)) as (q2 & Fj & X4 & K5 & Mj).
  pose proof (seq_ok w sg _ (Rf "closing_brack") p q2 _ _ _ _ X4 K5
                (tok1_ok w sg (nm "closing_brack") 93%N _ l eq_refl eq_refl eq_refl (at_app w _ wj _ H6'))) as X5.
  pose proof (call_normal w sg (nm "peek_slice") {| rname := nm "peek_slice"; rty := RNormal; rexpr := peek_body |} p _ _ eq_refl eq_refl eq_refl eq_refl X5) as X6.
  eexists. split.
  - assert (H' : at_ p (80%N :: 69%N :: 69%N :: 75%N :: g1 ++ 91%N :: g2 ++ wi ++ 46%N :: 46%N :: g3 ++ wj ++ 93%N :: l)) by exact H.
    apply (node_of_terminal w sg p _ _ H'); [cbn; discriminate|]. apply call_terminal.
    apply (chain_select w NonAtomic true [Rf "_push"] (Rf "peek_slice") _ (Rf "_push_literal")); [|exact X6].
    apply chain_fail; [apply (pushlit_no w sg p _ H'); reflexivity|]. repeat constructor. apply (push_no w sg p _ H'). reflexivity.
  - cbn [tc both mkt snd]. eapply SM_node; [reflexivity|exact I|]. cbn [app].
    fold (sk_opt_int i). fold (sk_opt_int j).
    apply SM_cons; [apply SM_leaf; reflexivity|].
    replace (sk_opt_int i ++ sk MRangeOperator :: sk_opt_int j ++ [sk MClosingBrack])
      with (((sk_opt_int i ++ [sk MRangeOperator]) ++ sk_opt_int j) ++ [sk MClosingBrack]) by (rewrite <- !app_assoc; reflexivity).
    repeat apply SM_app; try assumption; apply SM_leaf; reflexivity.
Qed.

(* ---- PUSH_LITERAL( "..." ) ---- *)
Lemma ge40 l : gap_end (40%N :: l). Proof. apply gap_end_byte; discriminate. Qed.
Lemma ge41 l : gap_end (41%N :: l). Proof. apply gap_end_byte; discriminate. Qed.
Lemma ge34 l : gap_end (34%N :: l). Proof. apply gap_end_byte; discriminate. Qed.

Lemma atom_pushlit cs ew g1 g2 g3 p l : spells_string 34%N cs ew -> gap g1 -> gap g2 -> gap g3 ->
  at_ p (nm "PUSH_LITERAL" ++ g1 ++ 40%N :: g2 ++ quoted 34%N ew ++ g3 ++ 41%N :: l) ->
  exists F, ok NODE p (p + 12 + List.length g1 + 1 + List.length g2 + List.length (quoted 34%N ew) + List.length g3 + 1) F /\ SM (tc (CPushLit cs)) F.
Proof.
  intros S G1 G2 G3 H.
  pose proof (at_app w p (nm "PUSH_LITERAL") _ H) as H1. change (List.length (nm "PUSH_LITERAL")) with 12 in H1.
  pose proof (at_app_cons w _ g1 _ _ H1) as H2. pose proof (at_app w _ g2 _ H2) as H3. pose proof (at_app w _ (quoted 34%N ew) _ H3) as H4.
  pose proof (str_ok w sg (nm "PUSH_LITERAL") p _ H) as X0. change (List.length (nm "PUSH_LITERAL")) with 12 in X0.
  pose proof (seq_tok w sg (Lt "PUSH_LITERAL") "opening_paren" 40%N p _ _ g1 _ eq_refl eq_refl eq_refl X0 G1 H1 (ge40 _)) as X1.
  pose proof (seq_ok w sg _ (Rf "string") p _ _ _ _ _ X1 (skp_gap w sg _ g2 _ H2 G2 (ge34 _)) (string_ok w sg cs ew _ _ S H3)) as X2.
  pose proof (seq_tok w sg _ "closing_paren" 41%N p _ _ g3 l eq_refl eq_refl eq_refl X2 G3 H4 (ge41 _)) as X3.
  pose proof (call_normal w sg (nm "_push_literal") {| rname := nm "_push_literal"; rty := RNormal; rexpr := pushlit_body |} p _ _ eq_refl eq_refl eq_refl eq_refl X3) as X4.
  eexists. split.
  - assert (H' : at_ p (80%N :: 85%N :: 83%N :: 72%N :: 95%N :: 76%N :: 73%N :: 84%N :: 69%N :: 82%N :: 65%N :: 76%N ::
                        g1 ++ 40%N :: g2 ++ quoted 34%N ew ++ g3 ++ 41%N :: l)) by exact H.
    apply (node_of_terminal w sg p _ _ H'); [cbn; discriminate|]. apply call_terminal. apply chain_match. exact X4.
  - cbn [tc both mkt snd]. eapply SM_node; [reflexivity|exact I|]. cbn [app].
    apply SM_cons; [apply SM_leaf; reflexivity|]. apply SM_cons; [exact (SM_string w cs ew _ _ S H3)|]. apply SM_leaf. reflexivity.
Qed.
End Atom2.
