(* C07 - assembling the statements of coq/props/C07.v. *)
From Coq Require Import List Arith NArith ZArith Bool String Lia.
Import ListNotations.
Require Import PV.Comb.PState PV.Comb.Bytes PV.Comb.Utf8 PV.Iter.Queue PV.Peg.Ast PV.Peg.Spec PV.Peg.SpecFacts.
Require Import PV.Meta.Tokens PV.Meta.Unescape PV.Meta.Consume PV.Meta.Spell PV.Meta.Text PV.Meta.LexProofs PV.Meta.Proofs.
Local Open Scope string_scope.
Local Open Scope list_scope.

(* reading succeeds with every sufficiently large fuel (fuel is a device of the Spec interpreter) *)
Definition reads (fx : fixes) (extras : bool) (text : list byte) (G : grammar) : Prop :=
  exists f0, forall f, f0 <= f -> read fx extras text f = COk G.

(* the first half of the reader: grammar.pest under the documented PEG semantics tokenises a spelling of cg
   as tokens_of_grammar cg, each leaf covering the lexeme it was written with *)
Definition tokenises (text : list byte) (cg : cgrammar) : Prop :=
  exists f0, forall f, f0 <= f -> exists p sg forest,
    spec_parse meta_grammar false (fun _ => None) text f (nm "grammar_rules") = SMatch p sg forest /\
    smatch_list false text (tokens_of_grammar cg) (map of_tree forest).

Lemma read_stable fx extras w f r : read fx extras w f = r -> r <> CFuel -> forall f', f <= f' -> read fx extras w f' = r.
Proof.
  unfold read, spec_parse. intros H N f' L.
  destruct (eval meta_grammar false (fun _ => None) w f NonAtomic true (EIdent (nm "grammar_rules")) 0 []) as [p sg fo| |] eqn:E.
  - rewrite (eval_mono meta_grammar false (fun _ => None) w f f' L _ _ _ _ _ _ E); [exact H|discriminate].
  - rewrite (eval_mono meta_grammar false (fun _ => None) w f f' L _ _ _ _ _ _ E); [exact H|discriminate].
  - subst r. congruence.
Qed.

(* second half + first half = the whole reader, for the repaired code *)
Theorem reduction extras G text :
  (forall cg, prints_grammar cg text -> valid_utf8 text ->
     Forall (fun r => wp (cr_body r) = true /\ writable extras (cr_body r) = true /\ ident_ok (cr_name r) = true) (cg_rules cg) ->
     tokenises text cg) ->
  spells_grammar extras G text -> reads repaired extras text G.
Proof.
  intros T (cg & <- & P & V & F). destruct (T cg P V F) as (f0 & H). exists f0. intros f L.
  destruct (H f L) as (p & sg & forest & E & M). unfold read. rewrite E.
  apply (consume_spelling repaired extras text cg); [|exact M].
  rewrite Forall_forall in *. intros r Hr. destruct (F r Hr) as (W & Wr & _). repeat split; auto. discriminate.
Qed.

(* the same for the code as shipped, for spellings outside the two known classes *)
Theorem reduction_shipped extras G text cg :
  abs_grammar cg = G ->
  Forall (fun r => wp (cr_body r) = true /\ writable extras (cr_body r) = true /\ nested_bar (cr_body r) = false) (cg_rules cg) ->
  (exists f0, forall f, f0 <= f -> exists p sg forest,
     spec_parse meta_grammar false (fun _ => None) text f (nm "grammar_rules") = SMatch p sg forest /\
     smatch_list true text (tokens_of_grammar cg) (map of_tree forest)) ->
  reads shipped extras text G.
Proof.
  intros <- F (f0 & H). exists f0. intros f L.
  destruct (H f L) as (p & sg & forest & E & M). unfold read. rewrite E.
  apply (consume_spelling shipped extras text cg); [|exact M].
  rewrite Forall_forall in *. intros r Hr. destruct (F r Hr) as (W & Wr & NB). repeat split; auto.
Qed.

(* ---- witnesses ---- *)
Lemma gap1 : gap [32%N].
Proof. apply (gap_white [32%N] [] w_space gap_nil). Qed.

Definition ascii_valid (l : list byte) : Prop := Forall (fun b => (b < 128)%N) l.
Lemma ascii_valid_utf8 l : ascii_valid l -> valid_utf8 l.
Proof.
  intros H. exists l. split.
  - eapply Forall_impl; [|exact H]. intros b Hb. cbv beta in Hb. unfold scalar. lia.
  - induction H as [|b l Hb _ IH]; [reflexivity|]. cbn [flat_map]. rewrite <- IH. unfold encode.
    apply N.ltb_lt in Hb. now rewrite Hb.
Qed.

Definition one_rule (body : cexpr) : cgrammar :=
  {| cg_docs := 0; cg_rules := [ {| cr_docs := 0; cr_name := nm "a"; cr_ty := RNormal; cr_bar := false; cr_body := body |} ]; cg_trailing := 0 |}.

(* a = { <body text> }  with single blanks *)
Lemma spells_one_rule extras body bw :
  prints body bw -> wp body = true -> writable extras body = true -> ascii_valid bw ->
  spells_grammar extras (abs_grammar (one_rule body)) (nm "a = { " ++ bw ++ nm " }").
Proof.
  intros P W Wr A. exists (one_rule body). split; [reflexivity|]. split; [|split].
  - exists [], [], (nm "a = { " ++ bw ++ nm " }"), []. split; [now rewrite app_nil_r|]. split; [constructor|].
    split; [constructor|]. split; [|constructor].
    rewrite <- (app_nil_r (nm "a = { " ++ bw ++ nm " }")). apply prs_cons; [|constructor].
    pose proof (pr_intro {| cr_docs := 0; cr_name := nm "a"; cr_ty := RNormal; cr_bar := false; cr_body := body |}
                  [] bw [32%N] [32%N] [] [32%N] [32%N] [] [] (pd_nil _) P gap1 gap1 gap_nil gap1 gap1 gap_nil gap_nil (fun _ => eq_refl)) as X.
    exact X.
  - apply ascii_valid_utf8. apply Forall_app. split; [repeat constructor; lia|]. apply Forall_app. split; [exact A|repeat constructor; lia].
  - repeat constructor; auto.
Qed.

Lemma not_reads fx extras text G f r : read fx extras text f = r -> r <> CFuel -> r <> COk G -> ~ reads fx extras text G.
Proof.
  intros E N D (f0 & H). specialize (H (Nat.max f0 f) (Nat.le_max_l _ _)).
  rewrite (read_stable fx extras text f r E N _ (Nat.le_max_r _ _)) in H. now apply D.
Qed.
Lemma reads_from fx extras text G f : read fx extras text f = COk G -> reads fx extras text G.
Proof. intros E. exists f. intros f' L. apply (read_stable fx extras text f _ E); [discriminate|exact L]. Qed.

(* D1:  a = { ^ "b" }  *)
Definition w1_body : cexpr := CInsens [98%N].
Definition w1_text : list byte := nm "a = { ^ ""b"" }".
Lemma w1_spells : spells_grammar false (abs_grammar (one_rule w1_body)) w1_text.
Proof.
  apply (spells_one_rule false w1_body (nm "^ ""b""")); try reflexivity; [|repeat constructor; lia].
  apply (p_insens [98%N] [98%N] [32%N]); [|exact gap1].
  apply (ss_cons 34%N 98%N [] [98%N] []); [|constructor].
  apply (sc_raw 34%N 98%N); [left; lia|discriminate|discriminate].
Qed.
Theorem insens_space_witness :
  spells_grammar false (abs_grammar (one_rule w1_body)) w1_text /\
  read shipped false w1_text 200 = COk [ {| rname := nm "a"; rty := RNormal; rexpr := EInsens (nm """b") |} ] /\
  ~ reads shipped false w1_text (abs_grammar (one_rule w1_body)) /\
  reads repaired false w1_text (abs_grammar (one_rule w1_body)).
Proof.
  split; [exact w1_spells|]. split; [vm_compute; reflexivity|]. split.
  - apply (not_reads shipped false w1_text _ 200 _ eq_refl); vm_compute; discriminate.
  - apply (reads_from repaired false w1_text _ 200). vm_compute. reflexivity.
Qed.

(* D2:  a = { (| b | c) }  *)
Definition w2_body : cexpr := CParen true (CChoice (CIdent (nm "b")) (CIdent (nm "c"))).
Definition w2_text : list byte := nm "a = { (| b | c) }".
Lemma w2_spells : spells_grammar false (abs_grammar (one_rule w2_body)) w2_text.
Proof.
  apply (spells_one_rule false w2_body (nm "(| b | c)")); try reflexivity; [|repeat constructor; lia].
  apply (p_paren true _ (nm "b | c") [] [] [32%N]); [|constructor|constructor|exact gap1].
  apply (p_choice (CIdent (nm "b")) (CIdent (nm "c")) (nm "b") (nm "c") [32%N] [32%N]); try exact gap1; constructor.
Qed.
Theorem nested_leading_bar_witness :
  spells_grammar false (abs_grammar (one_rule w2_body)) w2_text /\
  read shipped false w2_text 200 = CPanic /\
  ~ reads shipped false w2_text (abs_grammar (one_rule w2_body)) /\
  reads repaired false w2_text (abs_grammar (one_rule w2_body)).
Proof.
  split; [exact w2_spells|]. split; [vm_compute; reflexivity|]. split.
  - apply (not_reads shipped false w2_text _ 200 _ eq_refl); vm_compute; discriminate.
  - apply (reads_from repaired false w2_text _ 200). vm_compute. reflexivity.
Qed.
