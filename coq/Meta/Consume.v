(* C07 - executable model of the grammar reader's second half, meta/src/parser.rs:
     consume_rules_with_spans, get_node_tag, consume_expr (unaries, the postfix try_fold, the term and
     infix closures, the PrattParser instance), convert_rule / convert_node,
   written function by function over token forests of the meta-grammar ([mtree], Tokens.v).
   The matched text of a pair is read through its span from the source text [w].

   Every `unwrap` / `expect` / `unreachable!` / slice is an explicit [CPanic]; every `return Err(..)`
   an explicit [CErr].  Evaluation order where it is observable:
     - the primary closure runs DURING the Pratt parse, so a panic in any term wins over an Err in
       another term ([fold_ptree]: panics of both sides first, then `lhs?`, then `rhs?`);
     - `.map(..).collect::<Result<Vec<_>,_>>()` stops at the first Err: later rules are not looked at.
   What is not modelled: the spans stored in ParserNode (never part of the Ok result; Position::span
   cannot panic here, all positions belong to one input) and `validator::validate_ast`, which
   consume_rules runs between consume_rules_with_spans and convert_rule (property C06).
   The record [fixes] selects between the code as shipped and the code with fixes/C07-1, fixes/C07-2
   (= fixes/C09-3), fixes/C09-1, fixes/C09-2 applied (the driver probes the tree and passes the flags).
   Rust `Expr::Range(String, String)` is represented by Peg.Ast's `ERange lo hi` through the first
   char of each string (the same abstraction the harness uses, gram.rs `first_char`). *)
From Coq Require Import List Arith NArith ZArith Bool String.
Import ListNotations.
Local Open Scope string_scope.
Require Import PV.Comb.PState PV.Comb.Bytes PV.Comb.Utf8 PV.Iter.Queue PV.Peg.Ast PV.Peg.Spec.
Require PV.Pratt.Syntax PV.Pratt.Model.
Require Import PV.Meta.Tokens PV.Meta.Unescape.

Inductive cerr :=
| ENumOverflow          (* "number cannot overflow u32" *)
| EZeroRepeat           (* "cannot repeat 0 times" *)
| EPushLiteralFeature   (* "PUSH_LITERAL requires feature grammar-extras" *)
| EInvalidLiteral       (* "incorrect .. literal: escape is not a valid character" (fixes/C09-1) *)
| EPeekOverflow         (* "number cannot overflow i32" (fixes/C09-2) *)
| ESyntax.              (* the meta-grammar does not match the text (only from [read]) *)

Inductive cres (A : Type) :=
| COk (a : A)
| CErr (k : cerr) (s e : nat)      (* Err(vec![Error::new_from_span(.., span)]) *)
| CPanic
| CFuel.                           (* model artefact: never from the entry point [consume] on spellings (Proofs.v) *)
Arguments COk {A} a. Arguments CErr {A} k s e. Arguments CPanic {A}. Arguments CFuel {A}.

Definition cmap {A B : Type} (f : A -> B) (r : cres A) : cres B :=
  match r with COk x => COk (f x) | CErr k s e => CErr k s e | CPanic => CPanic | CFuel => CFuel end.

(* PrattParser::new().op(Op::infix(choice_operator, Left)).op(Op::infix(sequence_operator, Left)) *)
Definition meta_decl : Pratt.Model.decl :=
  [ ((mid MChoiceOperator, Pratt.Syntax.Infix Pratt.Syntax.ALeft), []); ((mid MSequenceOperator, Pratt.Syntax.Infix Pratt.Syntax.ALeft), []) ].
Definition meta_table : Pratt.Syntax.table := Pratt.Model.builder_get (Pratt.Model.builder_table meta_decl).
(* .map_primary(term).map_infix(infix) : no prefix / postfix closure *)
Definition meta_maps : Pratt.Model.maps := {| Pratt.Model.m_prefix := false; Pratt.Model.m_postfix := false; Pratt.Model.m_infix := true |}.

Definition is_rule (r : mrule) (t : mtree) : bool := mrule_eqb (m_rule t) r.

(* first char of a String (Expr::Range holds one-char strings) *)
Definition range_cp (s : list byte) : N := match decode1 s with Some (c, _) => c | None => 0%N end.

(* which repairs the tree has *)
Record fixes := {
  fix_insens : bool;       (* fixes/C07-1: the literal of ^".." is read from the inner `string` pair *)
  fix_bar : bool;          (* fixes/C07-2 = C09-3: consume_expr itself skips a leading choice_operator *)
  fix_literal_err : bool;  (* fixes/C09-1: an escape that is no character is an Err, not a panic *)
  fix_peek_err : bool      (* fixes/C09-2: a PEEK index outside i32 is an Err, not a panic *)
}.
Definition shipped : fixes := {| fix_insens := false; fix_bar := false; fix_literal_err := false; fix_peek_err := false |}.
Definition repaired : fixes := {| fix_insens := true; fix_bar := true; fix_literal_err := false; fix_peek_err := false |}.

Section Consume.
Variable fx : fixes.
Variable extras : bool.            (* cfg(feature = "grammar-extras") *)
Variable w : list byte.            (* the grammar text *)

Definition err_at {A : Type} (k : cerr) (t : mtree) : cres A := CErr k (m_start t) (m_end t).

(* number.as_str().parse::<u32>() or Err("number cannot overflow u32") *)
Definition count_of {A : Type} (t : mtree) (k : N -> cres A) : cres A :=
  match parse_u32 (text w t) with Some n => k n | None => err_at ENumOverflow t end.
Definition nonzero {A : Type} (t : mtree) (n : N) (r : cres A) : cres A :=
  if (n =? 0)%N then err_at EZeroRepeat t else r.

(* the closure of `pairs.try_fold(node, ..)` *)
Definition postfix_step (node : expr) (p : mtree) : cres expr :=
  match m_rule p with
  | MOptionalOperator => COk (EOpt node)
  | MRepeatOperator => COk (ERep node)
  | MRepeatOnceOperator => COk (ERepOnce node)
  | MRepeatExact =>
    match m_children p with
    | _ :: number :: _ => count_of number (fun n => nonzero number n (COk (ERepExact node n)))
    | _ => CPanic
    end
  | MRepeatMin =>
    match m_children p with
    | _ :: mn :: _ => count_of mn (fun n => COk (ERepMin node n))
    | _ => CPanic
    end
  | MRepeatMax =>
    match m_children p with
    | _ :: _ :: mx :: _ => count_of mx (fun n => nonzero mx n (COk (ERepMax node n)))
    | _ => CPanic
    end
  | MRepeatMinMax =>
    match m_children p with
    | _ :: mn :: r =>
      count_of mn (fun lo =>
        match r with
        | _ :: mx :: _ => count_of mx (fun hi => nonzero mx hi (COk (ERepMinMax node lo hi)))
        | _ => CPanic
        end)
    | _ => CPanic
    end
  | MClosingParen => COk node
  | _ => CPanic                                            (* unreachable!("node: {:?}", rule) *)
  end.

Fixpoint postfix_fold (node : expr) (ps : list mtree) : cres expr :=
  match ps with
  | [] => COk node
  | p :: r => match postfix_step node p with COk n => postfix_fold n r | e => e end
  end.

(* unescape(pair.as_str()).expect(..) then string[a..string.len() - 1] *)
Definition literal (t : mtree) (a : nat) (k : list byte -> expr) : cres expr :=
  match unescape (text w t) with
  | None => if fix_literal_err fx then err_at EInvalidLiteral t
            else CPanic                                    (* .expect("incorrect string literal" / "incorrect char literal") *)
  | Some s => match str_slice s a with Some x => COk (k x) | None => CPanic end
  end.

(* pair.as_str().parse::<i32>().unwrap()   (fixes/C09-2: parse_peek_index(&pair)?) *)
Definition peek_index (t : mtree) : cres Z :=
  match parse_i32 (text w t) with
  | Some z => COk z
  | None => if fix_peek_err fx then err_at EPeekOverflow t else CPanic
  end.

Definition peek_slice (pair : mtree) : cres expr :=
  match m_children pair with
  | _ :: ps :: r1 =>                                       (* opening_brack ; `..` or integer *)
    let start : cres (Z * list mtree) :=
      match m_rule ps with
      | MRangeOperator => COk (0%Z, r1)
      | MInteger =>
        match r1 with
        | _ :: r2 => cmap (fun z => (z, r2)) (peek_index ps)   (* pairs.next().unwrap() is the `..` *)
        | [] => CPanic
        end
      | _ => CPanic                                        (* unreachable!("peek start") *)
      end in
    match start with
    | COk (st, r) =>
      match r with
      | pe :: r' =>                                        (* integer or `]` *)
        match m_rule pe with
        | MClosingBrack => COk (EPeekSlice st None)
        | MInteger =>
          match r' with
          | _ :: _ => cmap (fun z => EPeekSlice st (Some z)) (peek_index pe)
          | [] => CPanic
          end
        | _ => CPanic                                      (* unreachable!("peek end") *)
        end
      | [] => CPanic
      end
    | CErr k s e => CErr k s e
    | CPanic => CPanic
    | CFuel => CFuel
    end
  | _ => CPanic
  end.

(* the `other_rule` arm of unaries, before the postfix fold; [rec] = consume_expr *)
Definition terminal (rec : list mtree -> cres expr) (pair : mtree) : cres expr :=
  match m_rule pair with
  | MExpression => rec (m_children pair)                   (* NB: as shipped, a leading choice_operator is not skipped here *)
  | MPush =>
    match m_children pair with
    | _ :: e :: _ => cmap EPush (rec (m_children e))
    | _ => CPanic
    end
  | MPushLiteral =>
    if extras then
      match m_children pair with
      | _ :: c :: _ => literal c 1 EPushLiteral
      | _ => CPanic
      end
    else err_at EPushLiteralFeature pair
  | MPeekSlice => peek_slice pair
  | MIdentifier => COk (EIdent (text w pair))
  | MString => literal pair 1 EStr
  | MInsensitiveString =>
    if fix_insens fx then
      match m_children pair with
      | lit :: _ => literal lit 1 EInsens                  (* pair.clone().into_inner().next().unwrap() : the `string` pair *)
      | [] => CPanic
      end
    else literal pair 2 EInsens                            (* the WHOLE text `^ .. "…"`, then [2..len-1] *)
  | MRange =>
    match m_children pair with
    | c1 :: r1 =>
      match literal c1 1 EStr with
      | COk (EStr lo) =>
        match r1 with
        | _ :: c2 :: _ =>
          match literal c2 1 EStr with
          | COk (EStr hi) => COk (ERange (range_cp lo) (range_cp hi))
          | CErr k s e => CErr k s e
          | _ => CPanic
          end
        | _ => CPanic
        end
      | CErr k s e => CErr k s e
      | _ => CPanic
      end
    | [] => CPanic
    end
  | _ => CPanic                                            (* unreachable!("other rule: {:?}", x) *)
  end.

Inductive ukind := UParen | UPos | UNeg | UOther.
Definition ukind_of (t : mtree) : ukind :=
  match m_rule t with
  | MOpeningParen => UParen
  | MPositivePredicateOperator => UPos
  | MNegativePredicateOperator => UNeg
  | _ => UOther
  end.

Definition other (rec : list mtree -> cres expr) (pair : mtree) (rest : list mtree) : cres expr :=
  match terminal rec pair with
  | COk node => postfix_fold node rest
  | e => e
  end.

Definition with_tag (tg : list byte) (r : cres expr) : cres expr :=
  if extras then cmap (fun e => ENodeTag e tg) r else r.

(* fn unaries(pairs, pratt), get_node_tag inlined; structural on the remaining pairs *)
Fixpoint unaries_with (rec : list mtree -> cres expr) (ts : list mtree) {struct ts} : cres expr :=
  match ts with
  | [] => CPanic                                           (* pairs.next().unwrap() *)
  | t0 :: ts1 =>
    let untagged (_ : unit) : cres expr :=
      match ukind_of t0 with
      | UParen => unaries_with rec ts1
      | UPos => cmap EPosPred (unaries_with rec ts1)
      | UNeg => cmap ENegPred (unaries_with rec ts1)
      | UOther => other rec t0 ts1
      end in
    match ts1 with
    | t1 :: ts2 =>
      if is_rule MAssignmentOperator t1 then
        match ts2 with
        | [] => CPanic                                     (* pairs.next().unwrap() *)
        | t2 :: ts3 =>
          match str_from1 (text w t0) with                 (* pair_or_tag.as_str()[1..] *)
          | None => CPanic
          | Some tg =>
            with_tag tg
              match ukind_of t2 with
              | UParen => unaries_with rec ts3
              | UPos => cmap EPosPred (unaries_with rec ts3)
              | UNeg => cmap ENegPred (unaries_with rec ts3)
              | UOther => other rec t2 ts3
              end
          end
        end
      else untagged tt
    | [] => untagged tt
    end
  end.

(* the infix closure on two evaluated sides *)
Definition infix (a : cres expr) (op : nat) (b : cres expr) : cres expr :=
  match a, b with
  | CPanic, _ | _, CPanic => CPanic
  | CFuel, _ | _, CFuel => CFuel
  | _, _ =>
    if Nat.eqb op (mid MSequenceOperator) then
      match a with COk x => match b with COk y => COk (ESeq x y) | e => e end | e => e end
    else if Nat.eqb op (mid MChoiceOperator) then
      match a with COk x => match b with COk y => COk (EChoice x y) | e => e end | e => e end
    else CPanic                                            (* unreachable!("infix") *)
  end.

Fixpoint fold_ptree (un : list mtree -> cres expr) (pt : Pratt.Syntax.tree mtree) : cres expr :=
  match pt with
  | Pratt.Syntax.Leaf a => un (m_children (snd a))                   (* term: unaries(pair.into_inner().peekable(), pratt) *)
  | Pratt.Syntax.Bin l o r => infix (fold_ptree un l) (fst o) (fold_ptree un r)
  | Pratt.Syntax.Pre _ _ | Pratt.Syntax.Post _ _ => CPanic                     (* no such closure; the table has no such operator *)
  end.

Definition pratt_tokens (ts : list mtree) : list (Pratt.Syntax.tok mtree) := map (fun t => (mid (m_rule t), t)) ts.

(* pratt.map_primary(term).map_infix(infix).parse(pairs) *)
Definition pratt_stage (un : list mtree -> cres expr) (ts : list mtree) : cres expr :=
  match Pratt.Model.pratt_parse meta_maps meta_table (pratt_tokens ts) with
  | Pratt.Syntax.Ok pt _ => fold_ptree un pt
  | Pratt.Syntax.Panic _ => CPanic
  | Pratt.Syntax.OutOfFuel => CFuel
  end.

(* fixes/C07-2: `if pairs.peek().map(|pair| pair.as_rule()) == Some(Rule::choice_operator) { pairs.next().unwrap(); }` *)
Definition skip_bar (ts : list mtree) : list mtree :=
  match ts with
  | c0 :: cr => if is_rule MChoiceOperator c0 then cr else ts
  | [] => []
  end.

(* fn consume_expr; one unit of fuel per nesting level of `expression` pairs *)
Fixpoint consume_expr (fuel : nat) (ts : list mtree) : cres expr :=
  match fuel with
  | O => CFuel
  | Datatypes.S f => pratt_stage (unaries_with (consume_expr f)) (if fix_bar fx then skip_bar ts else ts)
  end.

(* the `.map(|pair| ..)` closure of consume_rules_with_spans followed by convert_rule *)
Definition consume_rule (fuel : nat) (p : mtree) : cres rule :=
  match m_children p with
  | [] => CPanic
  | id :: r1 =>                                            (* identifier: span, name *)
    match r1 with
    | [] => CPanic
    | _ :: r2 =>                                           (* assignment_operator *)
      match r2 with
      | [] => CPanic                                       (* pairs.peek().unwrap() *)
      | m :: r3 =>
        let ty : option (rtype * list mtree) :=
          if is_rule MOpeningBrace m then Some (RNormal, r2)
          else match m_rule m with
               | MSilentModifier => Some (RSilent, r3)
               | MAtomicModifier => Some (RAtomic, r3)
               | MCompoundAtomicModifier => Some (RCompound, r3)
               | MNonAtomicModifier => Some (RNonAtomic, r3)
               | _ => None                                 (* unreachable!() *)
               end in
        match ty with
        | None => CPanic
        | Some (t, r4) =>
          match r4 with
          | [] => CPanic
          | _ :: r5 =>                                     (* opening_brace *)
            match r5 with
            | [] => CPanic
            | ex :: _ =>                                   (* expression *)
              let mkrule := fun e => {| rname := text w id; rty := t; rexpr := e |} in
              if fix_bar fx then cmap mkrule (consume_expr fuel (m_children ex))
              else
                match m_children ex with
                | [] => CPanic                             (* inner_nodes.peek().unwrap() *)
                | c0 :: cr =>                              (* "skip initial infix operators" *)
                  let inner := if is_rule MChoiceOperator c0 then cr else c0 :: cr in
                  cmap mkrule (consume_expr fuel inner)
                end
            end
          end
        end
      end
    end
  end.

(* pairs.filter(grammar_rule).filter(not line_doc).map(..).collect() *)
Fixpoint consume_pairs (fuel : nat) (ps : list mtree) : cres (list rule) :=
  match ps with
  | [] => COk []
  | p :: r =>
    if negb (is_rule MGrammarRule p) then consume_pairs fuel r
    else
      match m_children p with
      | [] => CPanic                                       (* pairs.next().unwrap() in the second filter *)
      | c :: _ =>
        if is_rule MLineDoc c then consume_pairs fuel r
        else
          match consume_rule fuel p with
          | COk x => cmap (cons x) (consume_pairs fuel r)
          | CErr k s e => CErr k s e
          | CPanic => CPanic
          | CFuel => CFuel
          end
      end
  end.

Definition consume (forest : list mtree) : cres (list rule) := consume_pairs (mfsize forest) forest.

(* the whole reader: the meta-grammar under the documented PEG semantics, then consume *)
Definition read (fuel : nat) : cres (list rule) :=
  match spec_parse meta_grammar false (fun _ => None) w fuel (nm "grammar_rules") with
  | SMatch _ _ f => consume (map of_tree f)
  | SFail => CErr ESyntax 0 0
  | SFuel => CFuel
  end.
End Consume.
