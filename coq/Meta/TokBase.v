(* C07 - tokenisation half, expression level, part 1: the toolkit.
   Everything is said about ONE text w and one (never changing) stack sg, in the mode in which the expression-level
   rules of grammar.pest run: NonAtomic, tokens emitted.
     [ok e p q F] / [no e p]  : e matches from p to q with forest F / fails at p      (fuel-free, PegRules.evals)
     [skp p q]                : the implicit skipping leads from p to q
     [urun x p q F]           : some rounds  (skip ; x)  of a repetition lead from p to q and yield F
     [lands q e]              : from q only a gap separates us from e, where something that is no gap begins
     [SM ks F]                : the forest F has the shape ks and its leaves cover the right lexemes           *)
From Coq Require Import List Arith NArith ZArith Bool Lia String.
Import ListNotations.
Require Import PV.Comb.PState PV.Comb.Bytes PV.Comb.Utf8 PV.Iter.Queue PV.Peg.Ast PV.Peg.Spec PV.Peg.SpecFacts.
Require Import PV.Meta.Tokens PV.Meta.Unescape PV.Meta.Spell PV.Meta.LexProofs PV.Meta.Text PV.Meta.Proofs.
Require Import PV.Meta.PegRules PV.Meta.LexPeg.
Local Open Scope string_scope.
Local Open Scope list_scope.

Section Base.
Variable w : list byte.
Variable sg : list str.
Notation G := meta_grammar.
Notation mev := (evals G false (fun _ => None) w).

Definition at_ (p : nat) (l : list byte) : Prop := skipn p w = l.
Definition ev (e : expr) (p : nat) (r : sres) : Prop := mev NonAtomic true e p sg r.
Definition ok (e : expr) (p q : nat) (F : list tree) : Prop := ev e p (SMatch q sg F).
Definition no (e : expr) (p : nat) : Prop := ev e p SFail.
Definition skp (p q : nat) : Prop := skips G false (fun _ => None) w NonAtomic true p sg (SMatch q sg []).

(* ---- the cursor ---- *)
Lemma at_app p s l : at_ p (s ++ l) -> at_ (p + List.length s) l.
Proof. apply at_advance. Qed.
Lemma at_cons p b l : at_ p (b :: l) -> at_ (p + 1) l.
Proof. intros H. apply (at_advance w p [b] l H). Qed.
Lemma at_eq p q l : at_ p l -> p = q -> at_ q l.
Proof. now intros H <-. Qed.

Lemma slice_at p s l q : at_ p (s ++ l) -> q = p + List.length s -> slice w p q = s.
Proof.
  intros H ->. unfold slice. replace (p + List.length s - p) with (List.length s) by lia. unfold at_ in H. rewrite H.
  rewrite firstn_app, firstn_all, Nat.sub_diag. cbn [firstn]. apply app_nil_r.
Qed.

Lemma ok_eq e p q q' F : ok e p q F -> q = q' -> ok e p q' F.
Proof. now intros H <-. Qed.

(* ---- sequence / choice / option in the NonAtomic emitting mode ---- *)
Lemma seq_ok l r p p1 f1 p2 p3 f3 : ok l p p1 f1 -> skp p1 p2 -> ok r p2 p3 f3 -> ok (ESeq l r) p p3 (f1 ++ f3).
Proof. intros A B C. exact (evals_seq G false _ w NonAtomic true l r p sg p1 sg f1 p2 sg [] (SMatch p3 sg f3) A B C). Qed.
Lemma seq_no1 l r p : no l p -> no (ESeq l r) p.
Proof. apply evals_seq_fail. Qed.
Lemma seq_no2 l r p p1 f1 p2 : ok l p p1 f1 -> skp p1 p2 -> no r p2 -> no (ESeq l r) p.
Proof. intros A B C. exact (evals_seq G false _ w NonAtomic true l r p sg p1 sg f1 p2 sg [] SFail A B C). Qed.
Lemma ch_l l r p q F : ok l p q F -> ok (EChoice l r) p q F.
Proof. apply evals_choice_l. Qed.
Lemma ch_r l r p res : no l p -> ev r p res -> ev (EChoice l r) p res.
Proof. apply evals_choice_r. Qed.
Lemma opt_some x p q F : ok x p q F -> ok (EOpt x) p q F.
Proof. intros H. exact (evals_opt G false _ w NonAtomic true x p sg _ H). Qed.
Lemma opt_none x p : no x p -> ok (EOpt x) p p [].
Proof. intros H. exact (evals_opt G false _ w NonAtomic true x p sg _ H). Qed.
Lemma str_ok s p l : at_ p (s ++ l) -> ok (EStr s) p (p + List.length s) [].
Proof. apply str_yes. Qed.
Lemma str_fail s p l : at_ p l -> prefixb s l = false -> no (EStr s) p.
Proof. apply str_no. Qed.

(* ---- rule calls ---- *)
Lemma call_silent n r p res : plain_name n = true -> is_special n = false -> find_rule G n = Some r -> rty r = RSilent ->
  ev (rexpr r) p res -> ev (EIdent n) p res.
Proof.
  intros PN SP FR K H. pose proof (evals_call G false (fun _ => None) w NonAtomic true n r p sg res PN FR) as C.
  rewrite SP, K in C. cbn [rule_mode snd fst] in C. specialize (C H). destruct res; exact C.
Qed.
Lemma call_normal n r p q F : plain_name n = true -> is_special n = false -> find_rule G n = Some r -> rty r = RNormal ->
  ok (rexpr r) p q F -> ok (EIdent n) p q [Node (rule_id G n) None p q F].
Proof.
  intros PN SP FR K H. pose proof (evals_call G false (fun _ => None) w NonAtomic true n r p sg (SMatch q sg F) PN FR) as C.
  rewrite SP, K in C. cbn [rule_mode snd fst tok andb negb atom_eqb] in C. exact (C H).
Qed.
Lemma call_normal_no n r p : plain_name n = true -> is_special n = false -> find_rule G n = Some r -> rty r = RNormal ->
  no (rexpr r) p -> no (EIdent n) p.
Proof.
  intros PN SP FR K H. pose proof (evals_call G false (fun _ => None) w NonAtomic true n r p sg SFail PN FR) as C.
  rewrite SP, K in C. cbn [rule_mode snd fst tok andb negb atom_eqb] in C. exact (C H).
Qed.

(* a rule whose body is one literal *)
Lemma tok_ok n s p l : plain_name n = true -> is_special n = false ->
  find_rule G n = Some {| rname := n; rty := RNormal; rexpr := EStr s |} -> at_ p (s ++ l) ->
  ok (EIdent n) p (p + List.length s) [Node (rule_id G n) None p (p + List.length s) []].
Proof. intros PN SP FR H. apply (call_normal n _ p _ [] PN SP FR eq_refl). cbn [rexpr]. now apply (str_ok s p l). Qed.
Lemma tok_no n s p l : plain_name n = true -> is_special n = false ->
  find_rule G n = Some {| rname := n; rty := RNormal; rexpr := EStr s |} -> at_ p l -> prefixb s l = false -> no (EIdent n) p.
Proof. intros PN SP FR H F. apply (call_normal_no n _ p PN SP FR eq_refl). cbn [rexpr]. now apply (str_fail s p l). Qed.

(* ---- rounds of a repetition ---- *)
Inductive urun (x : expr) : nat -> nat -> list tree -> Prop :=
| ur_nil q : urun x q q []
| ur_cons q ps p1 f1 q' F : skp q ps -> ok x ps p1 f1 -> urun x p1 q' F -> urun x q q' (f1 ++ F).

Lemma urun_app x a b c F1 F2 : urun x a b F1 -> urun x b c F2 -> urun x a c (F1 ++ F2).
Proof. induction 1 as [|q ps p1 f1 q' F S O R IH]; intros H; [exact H|]. rewrite <- app_assoc. eapply ur_cons; eauto. Qed.
Lemma urun_one x q ps p1 f1 : skp q ps -> ok x ps p1 f1 -> urun x q p1 f1.
Proof. intros S O. rewrite <- (app_nil_r f1). eapply ur_cons; [exact S|exact O|constructor]. Qed.
Lemma urun_snoc x a b F ps c f : urun x a b F -> skp b ps -> ok x ps c f -> urun x a c (F ++ f).
Proof. intros R S O. eapply urun_app; [exact R|]. eapply urun_one; eauto. Qed.

Lemma urun_reps x q q' F : urun x q q' F -> forall acc res,
  reps G false (fun _ => None) w NonAtomic true x q' sg (acc ++ F) res -> reps G false (fun _ => None) w NonAtomic true x q sg acc res.
Proof.
  induction 1 as [|q ps p1 f1 q' F S O R IH]; intros acc res H; [now rewrite app_nil_r in H|].
  apply (reps_step G false _ w NonAtomic true x q sg acc p1 sg f1).
  - exact (runits_intro G false _ w NonAtomic true x q sg ps sg [] (SMatch p1 sg f1) S O).
  - apply IH. now rewrite <- app_assoc.
Qed.

(* L ~ x* : the rounds, then a round that fails.  The match ends after the last round, or - when there is no
   round at all - after the skipping that follows L (pest's trailing-whitespace behaviour) *)
Lemma seq_rep L x p pt F1 q F qs : ok L p pt F1 -> urun x pt q F -> skp q qs -> no x qs ->
  exists qe, ok (ESeq L (ERep x)) p qe (F1 ++ F) /\ (qe = q \/ qe = qs).
Proof.
  intros HL R S N. destruct R as [q|q ps p1 f1 q' F S1 O1 R].
  - exists qs. split; [|now right]. apply (seq_ok L (ERep x) p q F1 qs qs [] HL S).
    exact (evals_rep G false _ w NonAtomic true x qs sg N).
  - exists q'. split; [|now left]. apply (seq_ok L (ERep x) p q F1 ps q' (f1 ++ F) HL S1).
    apply (evals_rep_more G false _ w NonAtomic true x ps sg p1 sg f1 _ O1).
    apply (urun_reps x p1 q' F R f1). apply reps_stop.
    exact (runits_intro G false _ w NonAtomic true x q' sg qs sg [] SFail S N).
Qed.

(* ---- gaps ---- *)
Lemma gap_app a b : gap a -> gap b -> gap (a ++ b).
Proof.
  induction 1 as [|x g Hx Hg IH|x g Hx Hg IH|x g Hx Hg IH]; intros Hb; [exact Hb| | |]; rewrite <- app_assoc.
  - apply gap_white; auto.
  - apply gap_block; auto.
  - apply gap_line; auto.
Qed.
Definition gapb (b : byte) : bool := (b =? 32)%N || (b =? 9)%N || (b =? 10)%N || (b =? 13)%N || (b =? 47)%N.
Lemma gap_head g : gap g -> g = [] \/ exists b l, g = b :: l /\ gapb b = true.
Proof.
  induction 1 as [|a g Wa Hg IH|a g Ba Hg IH|a g La Hg IH]; [now left|right..].
  - destruct Wa; eexists; eexists; (split; [reflexivity|reflexivity]).
  - destruct Ba. eexists; eexists; (split; [reflexivity|reflexivity]).
  - destruct La as (cs & nl & -> & _). eexists; eexists; (split; [reflexivity|reflexivity]).
Qed.
Lemma gapb_cases b : gapb b = true -> b = 32%N \/ b = 9%N \/ b = 10%N \/ b = 13%N \/ b = 47%N.
Proof. unfold gapb. intros H. repeat (apply orb_prop in H; destruct H as [H|H]); apply N.eqb_eq in H; auto. Qed.

(* a byte that can neither start nor continue a gap, nor continue an identifier or a number *)
Definition hardb (b : byte) : bool := (b <? 128)%N && negb (gapb b) && negb (ident_char b).
Lemma hard_gap_end b l : hardb b = true -> gap_end (b :: l).
Proof.
  unfold hardb. intros H. apply andb_prop in H. destruct H as [H _]. apply andb_prop in H. destruct H as [_ H].
  apply negb_true_iff in H. unfold gapb in H. repeat (apply orb_false_iff in H; destruct H as [H ?]).
  apply gap_end_byte; intros ->; discriminate.
Qed.
Lemma follow_gap P g b l : gap g -> (forall x, gapb x = true -> P x = false) -> (b < 128)%N -> P b = false -> follow P (g ++ b :: l).
Proof.
  intros Hg HP Lb Pb. destruct (gap_head g Hg) as [->|(x & l' & -> & Hx)]; [split; assumption|].
  cbn [app follow]. split; [|now apply HP]. destruct (gapb_cases x Hx) as [->|[->|[->|[->| ->]]]]; reflexivity.
Qed.
Lemma hard_follow_ident g b l : gap g -> hardb b = true -> follow ident_char (g ++ b :: l).
Proof.
  intros Hg H. unfold hardb in H. apply andb_prop in H. destruct H as [H H3]. apply andb_prop in H. destruct H as [H1 _].
  apply N.ltb_lt in H1. apply negb_true_iff in H3. apply follow_gap; auto.
  intros x Hx. destruct (gapb_cases x Hx) as [->|[->|[->|[->| ->]]]]; reflexivity.
Qed.
Lemma hard_follow_digit g b l : gap g -> hardb b = true -> follow digitb (g ++ b :: l).
Proof.
  intros Hg H. unfold hardb in H. apply andb_prop in H. destruct H as [H H3]. apply andb_prop in H. destruct H as [H1 _].
  apply N.ltb_lt in H1. apply negb_true_iff in H3. apply follow_gap; auto.
  - intros x Hx. destruct (gapb_cases x Hx) as [->|[->|[->|[->| ->]]]]; reflexivity.
  - unfold ident_char in H3. apply orb_false_iff in H3. destruct H3 as [_ H3]. exact H3.
Qed.

Definition lands (q e : nat) : Prop := exists g l, gap g /\ gap_end l /\ at_ q (g ++ l) /\ e = q + List.length g.
Lemma lands_sk q e : lands q e -> skp q e.
Proof. intros (g & l & Hg & Hl & H & ->). exact (gap_lex w g true sg q l Hg Hl H). Qed.
Lemma lands_at q e : lands q e -> exists l, at_ e l /\ gap_end l.
Proof. intros (g & l & Hg & Hl & H & ->). exists l. split; [now apply at_app|exact Hl]. Qed.
Lemma lands_refl e l : at_ e l -> gap_end l -> lands e e.
Proof. intros H Hl. exists [], l. split; [constructor|]. split; [exact Hl|]. split; [exact H|]. cbn. lia. Qed.
Lemma lands_end q e : lands q e -> lands e e.
Proof. intros H. destruct (lands_at q e H) as (l & A & B). exact (lands_refl e l A B). Qed.
Lemma lands_gap q g l e : at_ q (g ++ l) -> gap g -> gap_end l -> e = q + List.length g -> lands q e.
Proof. intros H Hg Hl ->. exists g, l. auto. Qed.
Lemma lands_or q e qe : lands q e -> qe = q \/ qe = e -> lands qe e.
Proof. intros H [-> | ->]; [exact H|exact (lands_end q e H)]. Qed.

(* ---- shapes ---- *)
Definition SM (ks : list skel) (F : list tree) : Prop := smatch_list false w ks (map of_tree F).
Lemma SM_nil : SM [] [].
Proof. exact I. Qed.
Lemma SM_app k1 k2 F1 F2 : SM k1 F1 -> SM k2 F2 -> SM (k1 ++ k2) (F1 ++ F2).
Proof.
  unfold SM. revert F1. induction k1 as [|k k1 IH]; intros [|t F1]; cbn [map app smatch_list]; try tauto.
  intros [A B] C. split; [exact A|]. now apply IH.
Qed.
Lemma SM_cons k ks t F : SM [k] [t] -> SM ks F -> SM (k :: ks) (t :: F).
Proof. intros A B. exact (SM_app [k] ks [t] F A B). Qed.
Lemma SM_node id r lx ch s e F : mrule_of_nat id = r -> lex_ok false lx (slice w s e) -> SM ch F -> SM [SK r lx ch] [Node id None s e F].
Proof.
  intros <- L H. unfold SM. cbn [map of_tree smatch_list]. split; [|exact I]. apply smatch_unfold.
  cbn [m_rule m_children text m_start m_end]. auto.
Qed.
Lemma SM_leaf id r s e : mrule_of_nat id = r -> SM [sk r] [Node id None s e []].
Proof. intros H. apply (SM_node id r LNone [] s e [] H I SM_nil). Qed.
End Base.
