(* C07 - tokenisation half, expression level, part 8: node / terminal and the alternatives of terminal that do not
   contain an expression: when each fails, and identifier / string / insensitive_string / range as a node. *)
From Coq Require Import List Arith NArith ZArith Bool Lia String.
Import ListNotations.
Require Import PV.Comb.PState PV.Comb.Bytes PV.Comb.Utf8 PV.Iter.Queue PV.Peg.Ast PV.Peg.Spec PV.Peg.SpecFacts.
Require Import PV.Meta.Tokens PV.Meta.Unescape PV.Meta.Spell PV.Meta.LexProofs PV.Meta.Text PV.Meta.Proofs.
Require Import PV.Meta.PegRules PV.Meta.LexPeg PV.Meta.TokBase PV.Meta.TokLex PV.Meta.TokOps PV.Meta.TokPost PV.Meta.TokCount PV.Meta.TokOper.
Local Open Scope string_scope.
Local Open Scope list_scope.

Definition OP : expr := Rf "opening_paren".
Definition CP : expr := Rf "closing_paren".
Definition push_body : expr := ESeq (ESeq (ESeq (Lt "PUSH") OP) EXPR) CP.
Definition pushlit_body : expr := ESeq (ESeq (ESeq (Lt "PUSH_LITERAL") OP) (Rf "string")) CP.
Definition peek_body : expr :=
  ESeq (ESeq (ESeq (ESeq (ESeq (Lt "PEEK") (Rf "opening_brack")) (EOpt (Rf "integer"))) (Rf "range_operator")) (EOpt (Rf "integer"))) (Rf "closing_brack").
Definition term_tail : list expr := [Rf "_push"; Rf "peek_slice"; Rf "identifier"; Rf "string"; Rf "insensitive_string"; Rf "range"].
Definition node_body : expr := EChoice (ESeq (ESeq OP EXPR) CP) (Rf "terminal").

Lemma prefixb_longer s s' l : prefixb s l = false -> prefixb (s ++ s') l = false.
Proof.
  revert l. induction s as [|a s IH]; intros l H; [discriminate|]. destruct l as [|x l']; [reflexivity|]. cbn [app prefixb] in *.
  destruct (a =? x)%N; [cbn [andb] in *; now apply IH|reflexivity].
Qed.
(* a keyword made of identifier characters cannot straddle the end of an identifier *)
Lemma no_kw s n rest : forallb ident_char s = true -> prefixb s n = false -> follow ident_char rest -> prefixb s (n ++ rest) = false.
Proof.
  revert n. induction s as [|a s IH]; intros n Hs H Fo; [discriminate|]. cbn [forallb] in Hs. apply andb_prop in Hs. destruct Hs as [Ha Hs].
  destruct n as [|c n'].
  - cbn [app]. destruct rest as [|x r]; [reflexivity|]. destruct Fo as [_ Fx]. cbn [prefixb].
    destruct (a =? x)%N eqn:E; [|reflexivity]. apply N.eqb_eq in E. subst x. congruence.
  - cbn [app prefixb] in *. destruct (a =? c)%N; [cbn [andb] in *; now apply IH|reflexivity].
Qed.
Lemma ident_gap_end c l : ident_char c = true -> gap_end (c :: l).
Proof. intros H. apply gap_end_byte; intros ->; discriminate H. Qed.

Section Atom.
Variable w : list byte.
Variable sg : list str.
Notation G := meta_grammar.
Notation mev := (evals G false (fun _ => None) w).
Notation at_ := (at_ w).
Notation ev := (ev w sg).
Notation ok := (ok w sg).
Notation no := (no w sg).
Notation skp := (skp w sg).
Notation SM := (SM w).

Lemma call_terminal p res : ev (fold_left EChoice term_tail (Rf "_push_literal")) p res -> ev (Rf "terminal") p res.
Proof. intros H. exact (call_silent w sg (nm "terminal") _ p res eq_refl eq_refl eq_refl eq_refl H). Qed.
Lemma call_node p res : ev node_body p res -> ev NODE p res.
Proof. intros H. exact (call_silent w sg (nm "node") _ p res eq_refl eq_refl eq_refl eq_refl H). Qed.
Lemma op_no p l : at_ p l -> hd_ne 40%N l -> no OP p.
Proof. intros H N. exact (t1no w sg "opening_paren" 40%N p l eq_refl eq_refl eq_refl H N). Qed.
Lemma node_of_terminal p l res : at_ p l -> hd_ne 40%N l -> ev (Rf "terminal") p res -> ev NODE p res.
Proof. intros H N T. apply call_node. apply ch_r; [|exact T]. apply seq_no1. apply seq_no1. exact (op_no p l H N). Qed.

Lemma push_no p l : at_ p l -> prefixb (nm "PUSH") l = false -> no (Rf "_push") p.
Proof.
  intros H N. apply (call_normal_no w sg (nm "_push") {| rname := nm "_push"; rty := RNormal; rexpr := push_body |} p eq_refl eq_refl eq_refl eq_refl).
  cbn [rexpr]. repeat apply seq_no1. exact (str_fail w sg _ p l H N).
Qed.
Lemma pushlit_no p l : at_ p l -> prefixb (nm "PUSH") l = false -> no (Rf "_push_literal") p.
Proof.
  intros H N.
  apply (call_normal_no w sg (nm "_push_literal") {| rname := nm "_push_literal"; rty := RNormal; rexpr := pushlit_body |} p eq_refl eq_refl eq_refl eq_refl).
  cbn [rexpr]. repeat apply seq_no1. apply (str_fail w sg _ p l H). exact (prefixb_longer (nm "PUSH") (nm "_LITERAL") l N).
Qed.
Lemma call_peek_no p : no peek_body p -> no (Rf "peek_slice") p.
Proof.
  intros H. exact (call_normal_no w sg (nm "peek_slice") {| rname := nm "peek_slice"; rty := RNormal; rexpr := peek_body |} p eq_refl eq_refl eq_refl eq_refl H).
Qed.
Lemma peek_no1 p l : at_ p l -> prefixb (nm "PEEK") l = false -> no (Rf "peek_slice") p.
Proof. intros H N. apply call_peek_no. repeat apply seq_no1. exact (str_fail w sg _ p l H N). Qed.
Lemma peek_no2 p g l : at_ p (nm "PEEK" ++ g ++ l) -> gap g -> gap_end l -> hd_ne 91%N l -> no (Rf "peek_slice") p.
Proof.
  intros H Hg GE N. apply call_peek_no. do 4 apply seq_no1.
  exact (seq_tok_no w sg (Lt "PEEK") "opening_brack" 91%N p _ [] g l eq_refl eq_refl eq_refl (str_ok w sg (nm "PEEK") p _ H) Hg (at_app w p _ _ H) GE N).
Qed.

(* the first four alternatives of terminal fail on anything that does not begin like an identifier *)
Lemma hd_not_start (b0 : byte) l0 c : ident_start b0 = false -> ident_start c = true -> hd_ne c (b0 :: l0).
Proof. intros H Hc. cbn. intros ->. congruence. Qed.
Lemma pre4_no p b0 l0 : at_ p (b0 :: l0) -> (b0 < 128)%N -> ident_start b0 = false ->
  mev NonAtomic true (fold_left EChoice [Rf "_push"; Rf "peek_slice"; Rf "identifier"] (Rf "_push_literal")) p sg SFail.
Proof.
  intros H L S.
  assert (NP : prefixb (nm "PUSH") (b0 :: l0) = false) by (change (nm "PUSH") with (80%N :: [85; 83; 72]%N); apply hd_ne_prefix; now apply hd_not_start).
  assert (NK : prefixb (nm "PEEK") (b0 :: l0) = false) by (change (nm "PEEK") with (80%N :: [69; 69; 75]%N); apply hd_ne_prefix; now apply hd_not_start).
  apply chain_fail; [exact (pushlit_no p _ H NP)|]. repeat constructor.
  - exact (push_no p _ H NP).
  - exact (peek_no1 p _ H NK).
  - apply (identifier_no w sg p _ H). split; assumption.
Qed.

(* ---- literals as nodes ---- *)
Lemma SM_string cs ew p l : spells_string 34%N cs ew -> at_ p (quoted 34%N ew ++ l) -> SM [sk_string cs] [string_node p ew].
Proof.
  intros S H. unfold string_node, sk_string. apply (SM_node w (mid MString) MString (LStr cs) _ p _ _ eq_refl).
  - cbn [lex_ok]. exists ew. split; [|exact S]. exact (slice_at w p (quoted 34%N ew) l _ H eq_refl).
  - apply SM_cons; [apply SM_leaf; reflexivity|]. apply SM_cons; apply SM_leaf; reflexivity.
Qed.
Lemma SM_char c e p l : spells_char 39%N c e -> at_ p (quoted 39%N e ++ l) -> SM [sk_char c] [char_node p e].
Proof.
  intros S H. unfold char_node, sk_char. apply (SM_node w (mid MCharacter) MCharacter (LChr c) _ p _ _ eq_refl).
  - cbn [lex_ok]. exists e. split; [|exact S]. exact (slice_at w p (quoted 39%N e) l _ H eq_refl).
  - apply SM_cons; [apply SM_leaf; reflexivity|]. apply SM_cons; apply SM_leaf; reflexivity.
Qed.

Lemma atom_str cs ew p l : spells_string 34%N cs ew -> at_ p (quoted 34%N ew ++ l) ->
  exists F, ok NODE p (p + List.length (quoted 34%N ew)) F /\ SM (tc (CStr cs)) F.
Proof.
  intros S H. exists [string_node p ew]. split; [|exact (SM_string cs ew p l S H)].
  assert (H' : at_ p (34%N :: (ew ++ [34%N]) ++ l)) by exact H.
  apply (node_of_terminal p _ _ H'); [cbn; discriminate|]. apply call_terminal.
  apply (chain_select w NonAtomic true [Rf "_push"; Rf "peek_slice"; Rf "identifier"] (Rf "string") _ (Rf "_push_literal")).
  - exact (pre4_no p _ _ H' eq_refl eq_refl).
  - exact (string_ok w sg cs ew l p S H).
Qed.

Lemma atom_insens cs ew g p l : spells_string 34%N cs ew -> gap g -> at_ p (94%N :: g ++ quoted 34%N ew ++ l) ->
  exists F, ok NODE p (p + 1 + List.length g + List.length (quoted 34%N ew)) F /\ SM (tc (CInsens cs)) F.
Proof.
  intros S Hg H. eexists. split.
  - apply (node_of_terminal p _ _ H); [cbn; discriminate|]. apply call_terminal.
    apply (chain_select w NonAtomic true [Rf "_push"; Rf "peek_slice"; Rf "identifier"; Rf "string"] (Rf "insensitive_string") _ (Rf "_push_literal")).
    + change [Rf "_push"; Rf "peek_slice"; Rf "identifier"; Rf "string"] with ([Rf "_push"; Rf "peek_slice"; Rf "identifier"] ++ [Rf "string"]).
      rewrite fold_left_app. cbn [fold_left]. apply evals_choice_r; [exact (pre4_no p _ _ H eq_refl eq_refl)|].
      apply (string_no w sg p _ H). cbn. discriminate.
    + exact (insens_ok w sg cs ew g l p S Hg H).
  - cbn [tc both mkt snd]. apply (SM_node w (mid MInsensitiveString) MInsensitiveString (LIns cs) _ p _ _ eq_refl I).
    apply (SM_string cs ew _ l S). replace (p + 1 + List.length g) with (p + 1 + List.length g) by reflexivity.
    apply at_app. exact (at_cons w p _ _ H).
Qed.

Lemma atom_range lo hi e1 e2 g1 g2 p l : spells_char 39%N lo e1 -> spells_char 39%N hi e2 -> gap g1 -> gap g2 ->
  at_ p (quoted 39%N e1 ++ g1 ++ [46%N; 46%N] ++ g2 ++ quoted 39%N e2 ++ l) ->
  exists F, ok NODE p (p + List.length (quoted 39%N e1) + List.length g1 + 2 + List.length g2 + List.length (quoted 39%N e2)) F /\
    SM (tc (CRange lo hi)) F.
Proof.
  intros S1 S2 G1 G2 H. eexists. split.
  - assert (H' : at_ p (39%N :: (e1 ++ [39%N]) ++ g1 ++ [46%N; 46%N] ++ g2 ++ quoted 39%N e2 ++ l)) by exact H.
    apply (node_of_terminal p _ _ H'); [cbn; discriminate|]. apply call_terminal.
    apply (chain_select w NonAtomic true [Rf "_push"; Rf "peek_slice"; Rf "identifier"; Rf "string"; Rf "insensitive_string"] (Rf "range") [] (Rf "_push_literal")).
    + change [Rf "_push"; Rf "peek_slice"; Rf "identifier"; Rf "string"; Rf "insensitive_string"]
        with ([Rf "_push"; Rf "peek_slice"; Rf "identifier"] ++ [Rf "string"; Rf "insensitive_string"]).
      rewrite fold_left_app. cbn [fold_left]. apply evals_choice_r; [apply evals_choice_r; [exact (pre4_no p _ _ H' eq_refl eq_refl)|]|].
      * apply (string_no w sg p _ H'). cbn. discriminate.
      * apply (insens_no w sg p _ H'). cbn. discriminate.
    + exact (range_ok w sg lo hi e1 e2 g1 g2 l p S1 S2 G1 G2 H).
  - cbn [tc both mkt snd]. apply (SM_node w (mid MRange) MRange LNone _ p _ _ eq_refl I).
    apply SM_cons; [exact (SM_char lo e1 p _ S1 H)|]. apply SM_cons; [apply SM_leaf; reflexivity|].
    apply (SM_char hi e2 _ l S2). apply at_app. apply (at_app w _ [46%N; 46%N]). apply at_app. exact (at_app w p _ _ H).
Qed.
End Atom.
