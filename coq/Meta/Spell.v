(* C07 - the SPECIFICATION side: what it means to write a grammar down.

   1. [cexpr]: a concrete expression = an abstract expression plus the spelling choices that change the
      token structure: explicit parentheses ([CParen], with or without a leading `|` inside), an
      omitted PEEK start, and (for rules) a leading `|`.  [abs] forgets them.
   2. Precedence, as derived from grammar.pest
          expression = choice_operator? term (infix_operator term)*
          term       = node_tag? prefix_operator* node postfix_operator*
          node       = ( expression ) | terminal
      levels (loosest first): 0 `|`  1 `~`  2 `#t =`  3 `&` `!`  4 postfix  5 atoms and ( .. ).
      [wp c]: every operand sits at a level its position admits without parentheses;
      [min_parens e]: the spelling of e with exactly the parentheses [needs_parens] demands.
   3. [fe c] / [tokens_of_grammar]: the token forest (as a [skel]: rule, what the reader will read from
      the node's text, children) that the meta-grammar produces for the spelling.
   4. The lexical spellings: numbers (positional notation, leading zeros allowed), integers,
      characters and strings with every escape form ([spells_char], [spells_string]).
   5. [smatch w k t]: the actual token tree t over the text w has the shape k and its leaves cover a
      legal spelling of the required content.  Positions are otherwise unconstrained, which is how
      "any spacing and comments" enters: the reader never looks at the text between tokens.
   Definitions only; the facts are in Proofs.v. *)
From Coq Require Import List Arith NArith ZArith Bool.
Import ListNotations.
Require Import PV.Comb.PState PV.Comb.Bytes PV.Comb.Utf8 PV.Peg.Ast.
Require Import PV.Meta.Tokens PV.Meta.Unescape.

(* ---------------------------------------------------------------------------------------------
   1. concrete expressions
   --------------------------------------------------------------------------------------------- *)
Inductive cexpr :=
| CStr (cs : list N)                       (* the string as code points *)
| CInsens (cs : list N)
| CRange (lo hi : N)
| CIdent (n : name)
| CPeek (i : option Z) (j : option Z)      (* PEEK[..j] has no start; it means 0 *)
| CPos (c : cexpr)
| CNeg (c : cexpr)
| CSeq (a b : cexpr)
| CChoice (a b : cexpr)
| COpt (c : cexpr)
| CRep (c : cexpr)
| CRepOnce (c : cexpr)
| CRepExact (c : cexpr) (n : N)
| CRepMin (c : cexpr) (n : N)
| CRepMax (c : cexpr) (n : N)
| CRepMinMax (c : cexpr) (m n : N)
| CPush (bar : bool) (c : cexpr)           (* PUSH( |? c ) *)
| CPushLit (cs : list N)                   (* grammar-extras *)
| CTag (c : cexpr) (t : name)              (* grammar-extras *)
| CParen (bar : bool) (c : cexpr).         (* ( |? c ) *)

Definition utf8 (cs : list N) : list byte := flat_map encode cs.

Fixpoint abs (c : cexpr) : expr :=
  match c with
  | CStr cs => EStr (utf8 cs)
  | CInsens cs => EInsens (utf8 cs)
  | CRange lo hi => ERange lo hi
  | CIdent n => EIdent n
  | CPeek i j => EPeekSlice (match i with Some z => z | None => 0%Z end) j
  | CPos c => EPosPred (abs c)
  | CNeg c => ENegPred (abs c)
  | CSeq a b => ESeq (abs a) (abs b)
  | CChoice a b => EChoice (abs a) (abs b)
  | COpt c => EOpt (abs c)
  | CRep c => ERep (abs c)
  | CRepOnce c => ERepOnce (abs c)
  | CRepExact c n => ERepExact (abs c) n
  | CRepMin c n => ERepMin (abs c) n
  | CRepMax c n => ERepMax (abs c) n
  | CRepMinMax c m n => ERepMinMax (abs c) m n
  | CPush _ c => EPush (abs c)
  | CPushLit cs => EPushLiteral (utf8 cs)
  | CTag c t => ENodeTag (abs c) t
  | CParen _ c => abs c
  end.

(* ---------------------------------------------------------------------------------------------
   2. precedence
   --------------------------------------------------------------------------------------------- *)
Definition lvl (c : cexpr) : nat :=
  match c with
  | CChoice _ _ => 0
  | CSeq _ _ => 1
  | CTag _ _ => 2
  | CPos _ | CNeg _ => 3
  | COpt _ | CRep _ | CRepOnce _ | CRepExact _ _ | CRepMin _ _ | CRepMax _ _ | CRepMinMax _ _ _ => 4
  | _ => 5
  end.

(* level an operand must have to stand where it stands without parentheses *)
Fixpoint wp (c : cexpr) : bool :=
  match c with
  | CChoice a b => wp a && wp b && (1 <=? lvl b)          (* a | b | c groups to the left: the LEFT operand may be a choice *)
  | CSeq a b => wp a && wp b && (1 <=? lvl a) && (2 <=? lvl b)
  | CTag c _ => wp c && (3 <=? lvl c)
  | CPos c | CNeg c => wp c && (3 <=? lvl c)               (* prefix operators apply to the whole postfix chain *)
  | COpt c | CRep c | CRepOnce c | CRepExact c _ | CRepMin c _ | CRepMax c _ | CRepMinMax c _ _ => wp c && (4 <=? lvl c)
  | CPush _ c | CParen _ c => wp c
  | _ => true
  end.

(* does operand c need parentheses where level k is required? *)
Definition needs_parens (k : nat) (c : cexpr) : bool := lvl c <? k.
Definition paren_if (k : nat) (c : cexpr) : cexpr := if needs_parens k c then CParen false c else c.

Definition elvl (e : expr) : nat :=
  match e with
  | EChoice _ _ => 0 | ESeq _ _ => 1 | ENodeTag _ _ => 2 | EPosPred _ | ENegPred _ => 3
  | EOpt _ | ERep _ | ERepOnce _ | ERepExact _ _ | ERepMin _ _ | ERepMax _ _ | ERepMinMax _ _ _ => 4
  | _ => 5
  end.

(* the minimal-parentheses spelling of an abstract expression whose strings are given as code points
   ([decode_all] below recovers them from UTF-8); ESkip cannot be written at all *)
Section MinParens.
Variable cps : list byte -> list N.
Fixpoint min_parens (e : expr) : cexpr :=
  match e with
  | EStr s => CStr (cps s)
  | EInsens s => CInsens (cps s)
  | ERange lo hi => CRange lo hi
  | EIdent n => CIdent n
  | EPeekSlice i j => CPeek (Some i) j
  | EPosPred x => CPos (paren_if 3 (min_parens x))
  | ENegPred x => CNeg (paren_if 3 (min_parens x))
  | ESeq a b => CSeq (paren_if 1 (min_parens a)) (paren_if 2 (min_parens b))
  | EChoice a b => CChoice (min_parens a) (paren_if 1 (min_parens b))
  | EOpt x => COpt (paren_if 4 (min_parens x))
  | ERep x => CRep (paren_if 4 (min_parens x))
  | ERepOnce x => CRepOnce (paren_if 4 (min_parens x))
  | ERepExact x n => CRepExact (paren_if 4 (min_parens x)) n
  | ERepMin x n => CRepMin (paren_if 4 (min_parens x)) n
  | ERepMax x n => CRepMax (paren_if 4 (min_parens x)) n
  | ERepMinMax x m n => CRepMinMax (paren_if 4 (min_parens x)) m n
  | ESkip _ => CIdent []
  | EPush x => CPush false (min_parens x)
  | EPushLiteral s => CPushLit (cps s)
  | ENodeTag x t => CTag (paren_if 3 (min_parens x)) t
  end.
End MinParens.

(* code points of a UTF-8 byte string (fuel = its length) *)
Fixpoint decode_all_fuel (fuel : nat) (l : list byte) : list N :=
  match fuel with
  | O => []
  | Datatypes.S f =>
    match decode1 l with
    | Some (c, n) => c :: decode_all_fuel f (skipn n l)
    | None => []
    end
  end.
Definition decode_all (l : list byte) : list N := decode_all_fuel (length l) l.

(* ---------------------------------------------------------------------------------------------
   3. token skeletons
   --------------------------------------------------------------------------------------------- *)
Inductive lex :=
| LNone                        (* the reader does not read this node's text *)
| LName (n : name)             (* identifier / rule name: exactly these bytes *)
| LTag (t : name)              (* `#` followed by the tag *)
| LNum (n : N)                 (* decimal number *)
| LInt (z : Z)                 (* integer of PEEK[..] *)
| LStr (cs : list N)           (* "..." *)
| LChr (c : N)                 (* '.' *)
| LIns (cs : list N).          (* ^"..." with nothing between ^ and the quote *)

Inductive skel := SK (r : mrule) (lx : lex) (ch : list skel).
Definition sk (r : mrule) : skel := SK r LNone [].
Definition sk_string (cs : list N) : skel := SK MString (LStr cs) [sk MQuote; sk MInnerStr; sk MQuote].
Definition sk_char (c : N) : skel := SK MCharacter (LChr c) [sk MSingleQuote; sk MInnerChr; sk MSingleQuote].
Definition sk_bar (bar : bool) : list skel := if bar then [sk MChoiceOperator] else [].
Definition sk_count (r : mrule) (ch : list skel) : skel := SK r LNone ch.
Definition sk_num (n : N) : skel := SK MNumber (LNum n) [].
Definition sk_int (z : Z) : skel := SK MInteger (LInt z) [].

(* (children of an `expression` pair, children of a `term` pair) *)
Definition mkt (tcs : list skel) : list skel * list skel := ([SK MTerm LNone tcs], tcs).

Fixpoint both (c : cexpr) : list skel * list skel :=
  match c with
  | CChoice a b => (fst (both a) ++ sk MChoiceOperator :: fst (both b), [])
  | CSeq a b => (fst (both a) ++ sk MSequenceOperator :: fst (both b), [])
  | CTag c t => mkt (SK MTagId (LTag t) [] :: sk MAssignmentOperator :: snd (both c))
  | CPos c => mkt (sk MPositivePredicateOperator :: snd (both c))
  | CNeg c => mkt (sk MNegativePredicateOperator :: snd (both c))
  | COpt c => mkt (snd (both c) ++ [sk MOptionalOperator])
  | CRep c => mkt (snd (both c) ++ [sk MRepeatOperator])
  | CRepOnce c => mkt (snd (both c) ++ [sk MRepeatOnceOperator])
  | CRepExact c n => mkt (snd (both c) ++ [sk_count MRepeatExact [sk MOpeningBrace; sk_num n; sk MClosingBrace]])
  | CRepMin c n => mkt (snd (both c) ++ [sk_count MRepeatMin [sk MOpeningBrace; sk_num n; sk MComma; sk MClosingBrace]])
  | CRepMax c n => mkt (snd (both c) ++ [sk_count MRepeatMax [sk MOpeningBrace; sk MComma; sk_num n; sk MClosingBrace]])
  | CRepMinMax c m n =>
      mkt (snd (both c) ++ [sk_count MRepeatMinMax [sk MOpeningBrace; sk_num m; sk MComma; sk_num n; sk MClosingBrace]])
  | CParen bar c => mkt [sk MOpeningParen; SK MExpression LNone (sk_bar bar ++ fst (both c)); sk MClosingParen]
  | CPush bar c =>
      mkt [SK MPush LNone [sk MOpeningParen; SK MExpression LNone (sk_bar bar ++ fst (both c)); sk MClosingParen]]
  | CPushLit cs => mkt [SK MPushLiteral LNone [sk MOpeningParen; sk_string cs; sk MClosingParen]]
  | CStr cs => mkt [sk_string cs]
  | CInsens cs => mkt [SK MInsensitiveString (LIns cs) [sk_string cs]]
  | CRange lo hi => mkt [SK MRange LNone [sk_char lo; sk MRangeOperator; sk_char hi]]
  | CIdent n => mkt [SK MIdentifier (LName n) []]
  | CPeek i j =>
      mkt [SK MPeekSlice LNone
             (sk MOpeningBrack :: (match i with Some z => [sk_int z] | None => [] end) ++ sk MRangeOperator ::
              (match j with Some z => [sk_int z] | None => [] end) ++ [sk MClosingBrack])]
  end.
Definition fe (c : cexpr) : list skel := fst (both c).      (* children of the `expression` pair *)
Definition tc (c : cexpr) : list skel := snd (both c).      (* children of the `term` pair (levels >= 2) *)

Record crule := { cr_docs : nat;          (* `///` lines in front of the rule *)
                  cr_name : name; cr_ty : rtype;
                  cr_bar : bool;           (* leading `|` of the rule body *)
                  cr_body : cexpr }.
Record cgrammar := { cg_docs : nat;       (* `//!` lines at the top *)
                     cg_rules : list crule;
                     cg_trailing : nat }.  (* `///` lines after the last rule *)

Definition abs_rule (r : crule) : rule := {| rname := cr_name r; rty := cr_ty r; rexpr := abs (cr_body r) |}.
Definition abs_grammar (g : cgrammar) : grammar := map abs_rule (cg_rules g).

Definition sk_line_doc : skel := SK MGrammarRule LNone [SK MLineDoc LNone [sk MInnerDoc]].
Definition sk_modifier (t : rtype) : list skel :=
  match t with
  | RNormal => [] | RSilent => [sk MSilentModifier] | RAtomic => [sk MAtomicModifier]
  | RCompound => [sk MCompoundAtomicModifier] | RNonAtomic => [sk MNonAtomicModifier]
  end.
Definition tokens_of_rule (r : crule) : list skel :=
  repeat sk_line_doc (cr_docs r) ++
  [SK MGrammarRule LNone
     (SK MIdentifier (LName (cr_name r)) [] :: sk MAssignmentOperator :: sk_modifier (cr_ty r) ++
      [sk MOpeningBrace; SK MExpression LNone (sk_bar (cr_bar r) ++ fe (cr_body r)); sk MClosingBrace])].
Definition tokens_of_grammar (g : cgrammar) : list skel :=
  repeat (SK MGrammarDoc LNone [sk MInnerDoc]) (cg_docs g) ++ flat_map tokens_of_rule (cg_rules g) ++
  repeat sk_line_doc (cg_trailing g) ++ [sk MEOI].

(* ---------------------------------------------------------------------------------------------
   4. lexical spellings
   --------------------------------------------------------------------------------------------- *)
Open Scope N_scope.

(* positional notation in base [radix] with digit values [dv]; leading zeros are spellings too *)
Inductive spells_nat (radix : N) (dv : byte -> option N) : N -> list byte -> Prop :=
| sn_one b d : dv b = Some d -> spells_nat radix dv d [b]
| sn_snoc n l b d : spells_nat radix dv n l -> dv b = Some d -> spells_nat radix dv (radix * n + d) (l ++ [b]).
Definition spells_num : N -> list byte -> Prop := spells_nat 10 decval.      (* number = '0'..'9'+ *)
Definition spells_hex : N -> list byte -> Prop := spells_nat 16 hexval.      (* hex_digit+ *)

(* integer = number | "-" "0"* '1'..'9' number? *)
Definition spells_int (z : Z) (l : list byte) : Prop :=
  (0 <= z)%Z /\ spells_num (Z.to_N z) l \/
  (z < 0)%Z /\ exists l', l = 45 :: l' /\ spells_num (Z.to_N (- z)) l'.

(* the one-letter escapes: letter after the backslash -> code point *)
Definition named_escape (b : byte) : option N :=
  if b =? 34 then Some 34 else if b =? 92 then Some 92 else if b =? 114 then Some 13
  else if b =? 110 then Some 10 else if b =? 116 then Some 9 else if b =? 48 then Some 0
  else if b =? 39 then Some 39 else None.

(* one character c inside quotes q *)
Inductive spells_char (q : byte) : N -> list byte -> Prop :=
| sc_raw c : scalar c -> c <> 92 -> c <> q -> spells_char q c (encode c)                 (* the character itself *)
| sc_named c b : named_escape b = Some c -> spells_char q c [92; b]                     (* the one-letter escapes *)
| sc_code c h1 h2 : spells_hex c [h1; h2] -> spells_char q c [92; 120; h1; h2]          (* \xHH : the code point HH *)
| sc_unicode c ds : scalar c -> spells_hex c ds -> (2 <= length ds <= 6)%nat ->
    spells_char q c ([92; 117; 123] ++ ds ++ [125]).                                     (* \u{H..H}, 2 to 6 digits *)
Inductive spells_string (q : byte) : list N -> list byte -> Prop :=
| ss_nil : spells_string q [] []
| ss_cons c cs w1 w2 : spells_char q c w1 -> spells_string q cs w2 -> spells_string q (c :: cs) (w1 ++ w2).
Close Scope N_scope.

(* what the reader must find under a leaf.  [strict]: the code as shipped reads the literal of ^".."
   from the text of the whole insensitive_string pair, so nothing may separate `^` from the quote;
   with fixes/C07-1 it reads the inner string pair ([LStr] on the child) and the outer text is free. *)
Definition lex_ok (strict : bool) (lx : lex) (txt : list byte) : Prop :=
  match lx with
  | LNone => True
  | LName n => txt = n
  | LTag t => txt = 35%N :: t
  | LNum n => spells_num n txt
  | LInt z => spells_int z txt
  | LStr cs => exists ew, txt = 34%N :: ew ++ [34%N] /\ spells_string 34%N cs ew
  | LChr c => exists ew, txt = 39%N :: ew ++ [39%N] /\ spells_char 39%N c ew
  | LIns cs => if strict then exists ew, txt = 94%N :: 34%N :: ew ++ [34%N] /\ spells_string 34%N cs ew else True
  end.

(* ---------------------------------------------------------------------------------------------
   5. a token tree over w has shape k and spells its leaves
   --------------------------------------------------------------------------------------------- *)
Fixpoint smatch (strict : bool) (w : list byte) (k : skel) (t : mtree) {struct k} : Prop :=
  match k with
  | SK r lx ch =>
    m_rule t = r /\ lex_ok strict lx (text w t) /\
    (fix all2 (ks : list skel) (ts : list mtree) {struct ks} : Prop :=
       match ks, ts with
       | [], [] => True
       | k' :: ks', t' :: ts' => smatch strict w k' t' /\ all2 ks' ts'
       | _, _ => False
       end) ch (m_children t)
  end.
Fixpoint smatch_list (strict : bool) (w : list byte) (ks : list skel) (ts : list mtree) : Prop :=
  match ks, ts with
  | [], [] => True
  | k :: ks', t :: ts' => smatch strict w k t /\ smatch_list strict w ks' ts'
  | _, _ => False
  end.

(* ---------------------------------------------------------------------------------------------
   which grammars the theorem speaks about
   --------------------------------------------------------------------------------------------- *)
Definition ident_start (b : byte) : bool :=
  (b =? 95)%N || ((97 <=? b)%N && (b <=? 122)%N) || ((65 <=? b)%N && (b <=? 90)%N).
Definition ident_char (b : byte) : bool := ident_start b || ((48 <=? b)%N && (b <=? 57)%N).
(* ("_" | alpha) ("_" | alpha_num)* *)
Definition tag_ok (n : name) : bool :=
  match n with b :: r => ident_start b && forallb ident_char r | [] => false end.
(* identifier = !"PUSH" ("_" | alpha) ("_" | alpha_num)* *)
Definition ident_ok (n : name) : bool := tag_ok n && negb (prefixb [80; 85; 83; 72]%N n).

Definition u32_ok (n : N) : bool := (n <=? u32_max)%N.
Definition i32_ok (z : Z) : bool := (- Z.of_N i32_max - 1 <=? z)%Z && (z <=? Z.of_N i32_max)%Z.
Definition scalars (cs : list N) : bool := forallb scalarb cs.

(* writable content: what every spelling needs, whatever the parentheses *)
Fixpoint writable (extras : bool) (c : cexpr) : bool :=
  match c with
  | CStr cs | CInsens cs => scalars cs
  | CRange lo hi => scalarb lo && scalarb hi
  | CIdent n => ident_ok n
  | CPeek i j => (match i with Some z => i32_ok z | None => true end) && (match j with Some z => i32_ok z | None => true end)
  | CPos c | CNeg c | COpt c | CRep c | CRepOnce c => writable extras c
  | CSeq a b | CChoice a b => writable extras a && writable extras b
  | CRepExact c n | CRepMax c n => writable extras c && u32_ok n && negb (n =? 0)%N   (* {0} is rejected by the reader, with an error *)
  | CRepMin c n => writable extras c && u32_ok n
  | CRepMinMax c m n => writable extras c && u32_ok m && u32_ok n && negb (n =? 0)%N
  | CPush _ c | CParen _ c => writable extras c
  | CPushLit cs => extras && scalars cs
  | CTag c t => extras && writable extras c && tag_ok t
  end.

(* the two places where the reader is known to deviate (see props/C07.v): a leading `|` in a nested
   expression; (the other one, text between `^` and the quote, is excluded by [LIns] itself) *)
Fixpoint nested_bar (c : cexpr) : bool :=
  match c with
  | CPush bar c | CParen bar c => bar || nested_bar c
  | CPos c | CNeg c | COpt c | CRep c | CRepOnce c | CRepExact c _ | CRepMin c _ | CRepMax c _ | CRepMinMax c _ _ | CTag c _ => nested_bar c
  | CSeq a b | CChoice a b => nested_bar a || nested_bar b
  | _ => false
  end.

Fixpoint depth (c : cexpr) : nat :=
  match c with
  | CPush _ c | CParen _ c => Datatypes.S (depth c)
  | CPos c | CNeg c | COpt c | CRep c | CRepOnce c | CRepExact c _ | CRepMin c _ | CRepMax c _ | CRepMinMax c _ _ | CTag c _ => depth c
  | CSeq a b | CChoice a b => Nat.max (depth a) (depth b)
  | _ => 0
  end.

(* ---------------------------------------------------------------------------------------------
   decidable companions used by the runner: the shape of an actual forest, and the known class on it
   --------------------------------------------------------------------------------------------- *)
Fixpoint shape_eqb (k : skel) (t : mtree) {struct k} : bool :=
  match k with
  | SK r _ ch =>
    mrule_eqb (m_rule t) r &&
    (fix all2 (ks : list skel) (ts : list mtree) {struct ks} : bool :=
       match ks, ts with
       | [], [] => true
       | k' :: ks', t' :: ts' => shape_eqb k' t' && all2 ks' ts'
       | _, _ => false
       end) ch (m_children t)
  end.
Fixpoint shape_list_eqb (ks : list skel) (ts : list mtree) : bool :=
  match ks, ts with
  | [], [] => true
  | k :: ks', t :: ts' => shape_eqb k t && shape_list_eqb ks' ts'
  | _, _ => false
  end.

(* KnownClass on a forest (decidable), for the code as shipped:
   (1) [known_insens_gap]: an insensitive_string pair whose string child does not start right after the `^`;
   (2) [known_nested_bar]: an expression pair that is not the body of a rule and starts with a choice_operator. *)
Fixpoint known_insens_gap (t : mtree) : bool :=
  match t with
  | MT r s e ch =>
    (match r, ch with
     | MInsensitiveString, c :: _ => negb (Nat.eqb (m_start c) (Datatypes.S s))
     | _, _ => false
     end) ||
    (fix any (l : list mtree) : bool := match l with [] => false | c :: l' => known_insens_gap c || any l' end) ch
  end.
Fixpoint known_nested_bar (top : bool) (t : mtree) : bool :=
  match t with
  | MT r s e ch =>
    (match r, ch with
     | MExpression, c :: _ => negb top && mrule_eqb (m_rule c) MChoiceOperator
     | _, _ => false
     end) ||
    (fix any (l : list mtree) : bool :=
       match l with [] => false | c :: l' => known_nested_bar (mrule_eqb r MGrammarRule) c || any l' end) ch
  end.
Definition known_class (f : list mtree) : bool := existsb known_insens_gap f || existsb (known_nested_bar false) f.
