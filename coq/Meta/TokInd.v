(* C07 - tokenisation half, expression level, part 13: the induction over the printed concrete expressions. *)
From Coq Require Import List Arith NArith ZArith Bool Lia String.
Import ListNotations.
Require Import PV.Comb.PState PV.Comb.Bytes PV.Comb.Utf8 PV.Iter.Queue PV.Peg.Ast PV.Peg.Spec PV.Peg.SpecFacts.
Require Import PV.Meta.Tokens PV.Meta.Unescape PV.Meta.Spell PV.Meta.LexProofs PV.Meta.Text PV.Meta.Proofs.
Require Import PV.Meta.PegRules PV.Meta.LexPeg PV.Meta.TokBase PV.Meta.TokLex PV.Meta.TokOps PV.Meta.TokPost PV.Meta.TokCount PV.Meta.TokOper.
Require Import PV.Meta.TokPre PV.Meta.TokAtom PV.Meta.TokAtom2 PV.Meta.TokTerm PV.Meta.TokExpr PV.Meta.TokMain.
Local Open Scope string_scope.
Local Open Scope list_scope.

Section Ind.
Variable w : list byte.
Variable sg : list str.
Variable extras : bool.
Notation at_ := (at_ w).
Notation ok := (ok w sg).
Notation SM := (SM w).
Notation PL := (PL w sg).
Notation RL := (RL w sg).
Notation TL := (TL w sg).
Notation EL := (EL w sg).
Notation Claims := (Claims w sg).

Lemma leb_ge (a b : nat) : Nat.leb a b = true -> a <= b.
Proof. apply Nat.leb_le. Qed.

Lemma post_case c' w' c g1 k t : Claims c' w' -> 4 <= lvl c' -> lvl c = 4 -> gap g1 -> post_text k t -> tc c = tc c' ++ [k] ->
  Claims c (w' ++ g1 ++ t).
Proof.
  intros (Hd & _ & _ & _ & P) L4 Lc G1 T E. apply claims4; [apply (HD_app c c'); [exact Hd|lia]|lia|].
  exact (PL_extend w sg c' w' c g1 k t (P L4) G1 T E).
Qed.

Theorem claims_all : forall c wc, prints c wc -> wp c = true -> writable extras c = true -> Claims c wc.
Proof.
  induction 1 as [cs ew S|cs ew g S Hg|lo hi e1 e2 g1 g2 S1 S2 G1 G2|n|i j wi wj g1 g2 g3 Si Sj G1 G2 G3
                 |c w0 g P IH Hg|c w0 g P IH Hg|a b wa wb g1 g2 Pa IHa Pb IHb G1 G2|a b wa wb g1 g2 Pa IHa Pb IHb G1 G2
                 |c w0 g P IH Hg|c w0 g P IH Hg|c w0 g P IH Hg
                 |c w0 n nw g1 g2 g3 P IH Sn G1 G2 G3|c w0 n nw g1 g2 g3 g4 P IH Sn G1 G2 G3 G4|c w0 n nw g1 g2 g3 g4 P IH Sn G1 G2 G3 G4
                 |c w0 m n mw nw g1 g2 g3 g4 g5 P IH Sm Sn G1 G2 G3 G4 G5
                 |bar c w0 g1 g2 g3 gb P IH G1 G2 G3 Gb|cs ew g1 g2 g3 S G1 G2 G3|c w0 t g1 g2 P IH G1 G2|bar c w0 g1 g2 gb P IH G1 G2 Gb];
    intros W Wr.
  - (* string *)
    apply claims4; [apply HD_byte; [reflexivity|discriminate|split; discriminate]|cbn; lia|].
    apply PL_of_atom. intros p g b r' H Hg Hb. exact (atom_str w sg cs ew p _ S H).
  - (* ^string *)
    apply claims4; [apply HD_byte; [reflexivity|discriminate|split; discriminate]|cbn; lia|].
    apply PL_of_atom. intros p g0 b r' H Hg0 Hb. norm H. destruct (atom_insens w sg cs ew g p _ S Hg H) as (F & O & M).
    exists F. split; [apply (ok_eq w sg _ p _ _ _ O); len|exact M].
  - (* range *)
    apply claims4; [apply HD_byte; [reflexivity|discriminate|split; discriminate]|cbn; lia|].
    apply PL_of_atom. intros p g b r' H Hg Hb. norm H. destruct (atom_range w sg lo hi e1 e2 g1 g2 p _ S1 S2 G1 G2 H) as (F & O & M).
    exists F. split; [apply (ok_eq w sg _ p _ _ _ O); len|exact M].
  - (* identifier *)
    cbn [writable] in Wr. pose proof Wr as OK. unfold ident_ok in Wr. apply andb_prop in Wr. destruct Wr as [TO _].
    destruct n as [|b0 n0]; [discriminate|]. cbn [tag_ok] in TO. apply andb_prop in TO. destruct TO as [Sb _].
    apply claims4; [apply HD_byte; [unfold headb; now rewrite Sb|intros _ ->; discriminate|intros _; split; intros ->; discriminate]|cbn; lia|].
    apply PL_of_atom. intros p g b r' H Hg Hb.
    exact (atom_ident w sg (b0 :: n0) g b r' p OK Hg (stop_hard b Hb) (stop_ne b 91%N Hb eq_refl) H).
  - (* PEEK[..] *)
    apply claims4; [apply HD_byte; [reflexivity|discriminate|split; discriminate]|cbn; lia|].
    apply PL_of_atom. intros p g b r' H Hg Hb. norm H. destruct (atom_peek w sg i j wi wj g1 g2 g3 p _ Si Sj G1 G2 G3 H) as (F & O & M).
    exists F. split; [apply (ok_eq w sg _ p _ _ _ O); len|exact M].
  - (* & *)
    cbn [wp writable] in W, Wr. apply andb_prop in W. destruct W as [W L]. apply leb_ge in L. specialize (IH W Wr).
    apply claims3; [apply HD_byte; [reflexivity|discriminate|cbn; lia]|reflexivity|].
    destruct IH as (Hd & _ & _ & R & _). exact (RL_pre w sg c w0 (CPos c) false g (R L) Hd Hg eq_refl).
  - (* ! *)
    cbn [wp writable] in W, Wr. apply andb_prop in W. destruct W as [W L]. apply leb_ge in L. specialize (IH W Wr).
    apply claims3; [apply HD_byte; [reflexivity|discriminate|cbn; lia]|reflexivity|].
    destruct IH as (Hd & _ & _ & R & _). exact (RL_pre w sg c w0 (CNeg c) true g (R L) Hd Hg eq_refl).
  - (* ~ *)
    cbn [wp writable] in W, Wr. apply andb_prop in W. destruct W as [W Lb]. apply andb_prop in W. destruct W as [W La]. apply andb_prop in W. destruct W as [Wa Wb].
    apply andb_prop in Wr. destruct Wr as [Wra Wrb]. apply leb_ge in La, Lb. specialize (IHa Wa Wra). specialize (IHb Wb Wrb).
    destruct IHa as (Hda & Ea & _). destruct IHb as (Hdb & Eb & _).
    apply claims1; [apply (HD_app _ a); [exact Hda|exact La]|cbn; lia|].
    exact (EL_infix w sg a wa b wb (CSeq a b) false g1 g2 Ea Eb Hdb G1 G2 eq_refl).
  - (* | *)
    cbn [wp writable] in W, Wr. apply andb_prop in W. destruct W as [W Lb]. apply andb_prop in W. destruct W as [Wa Wb].
    apply andb_prop in Wr. destruct Wr as [Wra Wrb]. specialize (IHa Wa Wra). specialize (IHb Wb Wrb).
    destruct IHa as (Hda & Ea & _). destruct IHb as (Hdb & Eb & _).
    apply claims1; [apply (HD_app _ a); [exact Hda|cbn; lia]|cbn; lia|].
    exact (EL_infix w sg a wa b wb (CChoice a b) true g1 g2 Ea Eb Hdb G1 G2 eq_refl).
  - (* ? *)
    cbn [wp writable] in W, Wr. apply andb_prop in W. destruct W as [W L]. apply leb_ge in L.
    exact (post_case c w0 (COpt c) g _ [63%N] (IH W Wr) L eq_refl Hg pt_opt eq_refl).
  - (* * *)
    cbn [wp writable] in W, Wr. apply andb_prop in W. destruct W as [W L]. apply leb_ge in L.
    exact (post_case c w0 (CRep c) g _ [42%N] (IH W Wr) L eq_refl Hg pt_rep eq_refl).
  - (* + *)
    cbn [wp writable] in W, Wr. apply andb_prop in W. destruct W as [W L]. apply leb_ge in L.
    exact (post_case c w0 (CRepOnce c) g _ [43%N] (IH W Wr) L eq_refl Hg pt_once eq_refl).
  - (* {n} *)
    cbn [wp writable] in W, Wr. apply andb_prop in W. destruct W as [W L]. apply leb_ge in L.
    apply andb_prop in Wr. destruct Wr as [Wr _]. apply andb_prop in Wr. destruct Wr as [Wr _].
    exact (post_case c w0 (CRepExact c n) g1 _ _ (IH W Wr) L eq_refl G1 (pt_exact n nw g2 g3 Sn G2 G3) eq_refl).
  - (* {n,} *)
    cbn [wp writable] in W, Wr. apply andb_prop in W. destruct W as [W L]. apply leb_ge in L.
    apply andb_prop in Wr. destruct Wr as [Wr _].
    exact (post_case c w0 (CRepMin c n) g1 _ _ (IH W Wr) L eq_refl G1 (pt_min n nw g2 g3 g4 Sn G2 G3 G4) eq_refl).
  - (* {,n} *)
    cbn [wp writable] in W, Wr. apply andb_prop in W. destruct W as [W L]. apply leb_ge in L.
    apply andb_prop in Wr. destruct Wr as [Wr _]. apply andb_prop in Wr. destruct Wr as [Wr _].
    exact (post_case c w0 (CRepMax c n) g1 _ _ (IH W Wr) L eq_refl G1 (pt_max n nw g2 g3 g4 Sn G2 G3 G4) eq_refl).
  - (* {m,n} *)
    cbn [wp writable] in W, Wr. apply andb_prop in W. destruct W as [W L]. apply leb_ge in L.
    apply andb_prop in Wr. destruct Wr as [Wr _]. apply andb_prop in Wr. destruct Wr as [Wr _]. apply andb_prop in Wr. destruct Wr as [Wr _].
    exact (post_case c w0 (CRepMinMax c m n) g1 _ _ (IH W Wr) L eq_refl G1 (pt_min_max m n mw nw g2 g3 g4 g5 Sm Sn G2 G3 G4 G5) eq_refl).
  - (* PUSH( ) *)
    cbn [wp writable] in W, Wr. apply claims4; [apply HD_byte; [reflexivity|discriminate|split; discriminate]|cbn; lia|].
    exact (PL_push w sg c w0 bar gb g1 g2 g3 (IH W Wr) G1 G2 G3 Gb).
  - (* PUSH_LITERAL( ) *)
    apply claims4; [apply HD_byte; [reflexivity|discriminate|split; discriminate]|cbn; lia|].
    apply PL_of_atom. intros p g b r' H Hg Hb. norm H. destruct (atom_pushlit w sg cs ew g1 g2 g3 p _ S G1 G2 G3 H) as (F & O & M).
    exists F. split; [apply (ok_eq w sg _ p _ _ _ O); len|exact M].
  - (* #t = *)
    cbn [wp writable] in W, Wr. apply andb_prop in W. destruct W as [W L]. apply leb_ge in L.
    apply andb_prop in Wr. destruct Wr as [Wr TO]. apply andb_prop in Wr. destruct Wr as [_ Wr]. specialize (IH W Wr).
    apply claims2; [apply HD_byte; [reflexivity|cbn; lia|cbn; lia]|reflexivity|].
    destruct IH as (Hd & _ & _ & R & _). exact (TL_tag w sg c w0 (CTag c t) t g1 g2 (R L) Hd TO G1 G2 eq_refl).
  - (* ( ) *)
    cbn [wp writable] in W, Wr. apply claims4; [apply HD_byte; [reflexivity|discriminate|split; discriminate]|cbn; lia|].
    exact (PL_paren w sg c w0 bar gb g1 g2 (IH W Wr) G1 G2 Gb).
Qed.
End Ind.
