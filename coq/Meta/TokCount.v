(* C07 - tokenisation half, expression level, part 5: the four counted repetitions {n} {n,} {,n} {m,n}, in the order
   postfix_operator tries them, and why the earlier alternatives fail on the later forms. *)
From Coq Require Import List Arith NArith ZArith Bool Lia String.
Import ListNotations.
Require Import PV.Comb.PState PV.Comb.Bytes PV.Comb.Utf8 PV.Iter.Queue PV.Peg.Ast PV.Peg.Spec PV.Peg.SpecFacts.
Require Import PV.Meta.Tokens PV.Meta.Unescape PV.Meta.Spell PV.Meta.LexProofs PV.Meta.Text PV.Meta.Proofs.
Require Import PV.Meta.PegRules PV.Meta.LexPeg PV.Meta.TokBase PV.Meta.TokLex PV.Meta.TokOps PV.Meta.TokPost.
Local Open Scope string_scope.
Local Open Scope list_scope.

Section Count.
Variable w : list byte.
Variable sg : list str.
Notation G := meta_grammar.
Notation at_ := (at_ w).
Notation ok := (ok w sg).
Notation no := (no w sg).
Notation SM := (SM w).
Notation tnode := (tnode).

Lemma at_app2 p a b l : at_ p (a ++ b ++ l) -> at_ (p + List.length a + List.length b) l.
Proof. intros H. apply at_app. now apply at_app. Qed.
Lemma at_app_cons p a (c : byte) l : at_ p (a ++ c :: l) -> at_ (p + List.length a + 1) l.
Proof. intros H. apply (at_cons w _ c). now apply at_app. Qed.

Definition OBNUM : expr := ESeq (Rf "opening_brace") (Rf "number").
Definition OBCOMMA : expr := ESeq (Rf "opening_brace") (Rf "comma").

Lemma obnum_ok p g2 n nw l : at_ p (123%N :: g2 ++ nw ++ l) -> gap g2 -> spells_num n nw -> follow digitb l ->
  ok OBNUM p (p + 1 + List.length g2 + List.length nw)
     [tnode "opening_brace" p (p + 1); num_node (p + 1 + List.length g2) (p + 1 + List.length g2 + List.length nw)].
Proof.
  intros H G2 S Fo.
  exact (seq_num w sg (Rf "opening_brace") p (p + 1) _ g2 n nw l (ob_ok w sg p _ H) G2 (at_cons w p _ _ H) S Fo).
Qed.
Lemma obnum_no p g2 l : at_ p (123%N :: g2 ++ 44%N :: l) -> gap g2 -> no OBNUM p.
Proof.
  intros H G2. exact (seq_num_no w sg (Rf "opening_brace") p (p + 1) _ g2 _ (ob_ok w sg p _ H) G2 (at_cons w p _ _ H) (ge44 l) (fo44 l)).
Qed.
Lemma obcomma_ok p g2 l : at_ p (123%N :: g2 ++ 44%N :: l) -> gap g2 ->
  ok OBCOMMA p (p + 1 + List.length g2 + 1) [tnode "opening_brace" p (p + 1); tnode "comma" (p + 1 + List.length g2) (p + 1 + List.length g2 + 1)].
Proof.
  intros H G2.
  exact (seq_tok w sg (Rf "opening_brace") "comma" 44%N p (p + 1) _ g2 l eq_refl eq_refl eq_refl (ob_ok w sg p _ H) G2 (at_cons w p _ _ H) (ge44 l)).
Qed.
Lemma obcomma_no p g2 n nw l : at_ p (123%N :: g2 ++ nw ++ l) -> gap g2 -> spells_num n nw -> no OBCOMMA p.
Proof.
  intros H G2 S.
  exact (seq_tok_no w sg (Rf "opening_brace") "comma" 44%N p (p + 1) _ g2 _ eq_refl eq_refl eq_refl (ob_ok w sg p _ H) G2 (at_cons w p _ _ H)
           (num_gap_end n nw l S) (num_hd_ne n nw l 44%N S eq_refl)).
Qed.

Definition body_exact : expr := ESeq OBNUM (Rf "closing_brace").
Definition body_min : expr := ESeq (ESeq OBNUM (Rf "comma")) (Rf "closing_brace").
Definition body_max : expr := ESeq (ESeq OBCOMMA (Rf "number")) (Rf "closing_brace").
Definition body_min_max : expr := ESeq (ESeq (ESeq OBNUM (Rf "comma")) (Rf "number")) (Rf "closing_brace").

Lemma call_count s body p q F : find_rule G (nm s) = Some {| rname := nm s; rty := RNormal; rexpr := body |} -> plain_name (nm s) = true ->
  is_special (nm s) = false -> ok body p q F -> ok (Rf s) p q [Node (rule_id G (nm s)) None p q F].
Proof. intros FR PN SP H. exact (call_normal w sg (nm s) _ p q F PN SP FR eq_refl H). Qed.
Lemma call_count_no s body p : find_rule G (nm s) = Some {| rname := nm s; rty := RNormal; rexpr := body |} -> plain_name (nm s) = true ->
  is_special (nm s) = false -> no body p -> no (Rf s) p.
Proof. intros FR PN SP H. exact (call_normal_no w sg (nm s) _ p PN SP FR eq_refl H). Qed.

(* {n} *)
Lemma exact_ok p g2 g3 n nw l : at_ p (123%N :: g2 ++ nw ++ g3 ++ 125%N :: l) -> gap g2 -> gap g3 -> spells_num n nw ->
  exists q F, ok (Rf "repeat_exact") p q F /\ q = p + 1 + List.length g2 + List.length nw + List.length g3 + 1 /\
    SM [sk_count MRepeatExact [sk MOpeningBrace; sk_num n; sk MClosingBrace]] F.
Proof.
  intros H G2 G3 S. pose proof (at_cons w p _ _ H) as H1. pose proof (at_app w _ g2 _ H1) as H2. pose proof (at_app w _ nw _ H2) as H3.
  pose proof (obnum_ok p g2 n nw _ H G2 S (follow_gap_digit g3 125%N l G3 eq_refl eq_refl)) as X.
  pose proof (seq_tok w sg OBNUM "closing_brace" 125%N p _ _ g3 l eq_refl eq_refl eq_refl X G3 H3 (ge125 l)) as Y.
  eexists. eexists. split; [exact (call_count "repeat_exact" body_exact p _ _ eq_refl eq_refl eq_refl Y)|]. split; [reflexivity|].
  eapply SM_node; [reflexivity|exact I|]. cbn [app].
  apply SM_cons; [apply SM_leaf; reflexivity|]. apply SM_cons; [exact (SM_num w n nw _ _ _ S H2 eq_refl)|]. apply SM_leaf. reflexivity.
Qed.
Lemma exact_no_comma2 p g2 g3 n nw l : at_ p (123%N :: g2 ++ nw ++ g3 ++ 44%N :: l) -> gap g2 -> gap g3 -> spells_num n nw -> no (Rf "repeat_exact") p.
Proof.
  intros H G2 G3 S. pose proof (at_app2 _ g2 nw _ (at_cons w p _ _ H)) as H3.
  pose proof (obnum_ok p g2 n nw _ H G2 S (follow_gap_digit g3 44%N l G3 eq_refl eq_refl)) as X.
  apply (call_count_no "repeat_exact" body_exact p eq_refl eq_refl eq_refl).
  refine (seq_tok_no w sg OBNUM "closing_brace" 125%N p _ _ g3 _ eq_refl eq_refl eq_refl X G3 H3 (ge44 l) _). cbn. discriminate.
Qed.
Lemma exact_no_comma1 p g2 l : at_ p (123%N :: g2 ++ 44%N :: l) -> gap g2 -> no (Rf "repeat_exact") p.
Proof. intros H G2. apply (call_count_no "repeat_exact" body_exact p eq_refl eq_refl eq_refl). apply seq_no1. exact (obnum_no p g2 l H G2). Qed.

(* {n,} *)
Lemma min_ok p g2 g3 g4 n nw l : at_ p (123%N :: g2 ++ nw ++ g3 ++ 44%N :: g4 ++ 125%N :: l) -> gap g2 -> gap g3 -> gap g4 -> spells_num n nw ->
  exists q F, ok (Rf "repeat_min") p q F /\ q = p + 1 + List.length g2 + List.length nw + List.length g3 + 1 + List.length g4 + 1 /\
    SM [sk_count MRepeatMin [sk MOpeningBrace; sk_num n; sk MComma; sk MClosingBrace]] F.
Proof.
  intros H G2 G3 G4 S. pose proof (at_cons w p _ _ H) as H1. pose proof (at_app w _ g2 _ H1) as H2. pose proof (at_app w _ nw _ H2) as H3.
  pose proof (at_app_cons _ g3 _ _ H3) as H4.
  pose proof (obnum_ok p g2 n nw _ H G2 S (follow_gap_digit g3 44%N _ G3 eq_refl eq_refl)) as X.
  pose proof (seq_tok w sg OBNUM "comma" 44%N p _ _ g3 _ eq_refl eq_refl eq_refl X G3 H3 (ge44 _)) as Y.
  pose proof (seq_tok w sg _ "closing_brace" 125%N p _ _ g4 l eq_refl eq_refl eq_refl Y G4 H4 (ge125 l)) as Z.
  eexists. eexists. split; [exact (call_count "repeat_min" body_min p _ _ eq_refl eq_refl eq_refl Z)|]. split; [reflexivity|].
  eapply SM_node; [reflexivity|exact I|]. cbn [app].
  apply SM_cons; [apply SM_leaf; reflexivity|]. apply SM_cons; [exact (SM_num w n nw _ _ _ S H2 eq_refl)|].
  apply SM_cons; apply SM_leaf; reflexivity.
Qed.
Lemma min_no_num p g2 g3 g4 n nw m mw l : at_ p (123%N :: g2 ++ nw ++ g3 ++ 44%N :: g4 ++ mw ++ l) -> gap g2 -> gap g3 -> gap g4 ->
  spells_num n nw -> spells_num m mw -> no (Rf "repeat_min") p.
Proof.
  intros H G2 G3 G4 S S'. pose proof (at_app2 _ g2 nw _ (at_cons w p _ _ H)) as H3. pose proof (at_app_cons _ g3 _ _ H3) as H4.
  pose proof (obnum_ok p g2 n nw _ H G2 S (follow_gap_digit g3 44%N _ G3 eq_refl eq_refl)) as X.
  pose proof (seq_tok w sg OBNUM "comma" 44%N p _ _ g3 _ eq_refl eq_refl eq_refl X G3 H3 (ge44 _)) as Y.
  apply (call_count_no "repeat_min" body_min p eq_refl eq_refl eq_refl).
  exact (seq_tok_no w sg _ "closing_brace" 125%N p _ _ g4 _ eq_refl eq_refl eq_refl Y G4 H4 (num_gap_end m mw l S') (num_hd_ne m mw l 125%N S' eq_refl)).
Qed.
Lemma min_no_comma1 p g2 l : at_ p (123%N :: g2 ++ 44%N :: l) -> gap g2 -> no (Rf "repeat_min") p.
Proof. intros H G2. apply (call_count_no "repeat_min" body_min p eq_refl eq_refl eq_refl). apply seq_no1. apply seq_no1. exact (obnum_no p g2 l H G2). Qed.

(* {,n} *)
Lemma max_ok p g2 g3 g4 n nw l : at_ p (123%N :: g2 ++ 44%N :: g3 ++ nw ++ g4 ++ 125%N :: l) -> gap g2 -> gap g3 -> gap g4 -> spells_num n nw ->
  exists q F, ok (Rf "repeat_max") p q F /\ q = p + 1 + List.length g2 + 1 + List.length g3 + List.length nw + List.length g4 + 1 /\
    SM [sk_count MRepeatMax [sk MOpeningBrace; sk MComma; sk_num n; sk MClosingBrace]] F.
Proof.
  intros H G2 G3 G4 S. pose proof (at_cons w p _ _ H) as H1. pose proof (at_app_cons _ g2 _ _ H1) as H2. pose proof (at_app w _ g3 _ H2) as H3.
  pose proof (at_app w _ nw _ H3) as H4.
  pose proof (obcomma_ok p g2 _ H G2) as X.
  pose proof (seq_num w sg OBCOMMA p _ _ g3 n nw _ X G3 H2 S (follow_gap_digit g4 125%N l G4 eq_refl eq_refl)) as Y.
  pose proof (seq_tok w sg _ "closing_brace" 125%N p _ _ g4 l eq_refl eq_refl eq_refl Y G4 H4 (ge125 l)) as Z.
  eexists. eexists. split; [exact (call_count "repeat_max" body_max p _ _ eq_refl eq_refl eq_refl Z)|]. split; [reflexivity|].
  eapply SM_node; [reflexivity|exact I|]. cbn [app].
  apply SM_cons; [apply SM_leaf; reflexivity|]. apply SM_cons; [apply SM_leaf; reflexivity|].
  apply SM_cons; [exact (SM_num w n nw _ _ _ S H3 eq_refl)|]. apply SM_leaf. reflexivity.
Qed.
Lemma max_no_num1 p g2 n nw l : at_ p (123%N :: g2 ++ nw ++ l) -> gap g2 -> spells_num n nw -> no (Rf "repeat_max") p.
Proof.
  intros H G2 S. apply (call_count_no "repeat_max" body_max p eq_refl eq_refl eq_refl). apply seq_no1. apply seq_no1.
  exact (obcomma_no p g2 n nw l H G2 S).
Qed.

(* {m,n} *)
Lemma min_max_ok p g2 g3 g4 g5 m mw n nw l : at_ p (123%N :: g2 ++ mw ++ g3 ++ 44%N :: g4 ++ nw ++ g5 ++ 125%N :: l) ->
  gap g2 -> gap g3 -> gap g4 -> gap g5 -> spells_num m mw -> spells_num n nw ->
  exists q F, ok (Rf "repeat_min_max") p q F /\
    q = p + 1 + List.length g2 + List.length mw + List.length g3 + 1 + List.length g4 + List.length nw + List.length g5 + 1 /\
    SM [sk_count MRepeatMinMax [sk MOpeningBrace; sk_num m; sk MComma; sk_num n; sk MClosingBrace]] F.
Proof.
  intros H G2 G3 G4 G5 Sm Sn. pose proof (at_cons w p _ _ H) as H1. pose proof (at_app w _ g2 _ H1) as H2. pose proof (at_app w _ mw _ H2) as H3.
  pose proof (at_app_cons _ g3 _ _ H3) as H4. pose proof (at_app w _ g4 _ H4) as H5. pose proof (at_app w _ nw _ H5) as H6.
  pose proof (obnum_ok p g2 m mw _ H G2 Sm (follow_gap_digit g3 44%N _ G3 eq_refl eq_refl)) as X.
  pose proof (seq_tok w sg OBNUM "comma" 44%N p _ _ g3 _ eq_refl eq_refl eq_refl X G3 H3 (ge44 _)) as Y.
  pose proof (seq_num w sg _ p _ _ g4 n nw _ Y G4 H4 Sn (follow_gap_digit g5 125%N l G5 eq_refl eq_refl)) as Z.
  pose proof (seq_tok w sg _ "closing_brace" 125%N p _ _ g5 l eq_refl eq_refl eq_refl Z G5 H6 (ge125 l)) as V.
  eexists. eexists. split; [exact (call_count "repeat_min_max" body_min_max p _ _ eq_refl eq_refl eq_refl V)|]. split; [reflexivity|].
  eapply SM_node; [reflexivity|exact I|]. cbn [app].
  apply SM_cons; [apply SM_leaf; reflexivity|]. apply SM_cons; [exact (SM_num w m mw _ _ _ Sm H2 eq_refl)|].
  apply SM_cons; [apply SM_leaf; reflexivity|]. apply SM_cons; [exact (SM_num w n nw _ _ _ Sn H5 eq_refl)|]. apply SM_leaf. reflexivity.
Qed.

(* nothing that does not begin with an opening brace is a count *)
Lemma counts_no p l : at_ p l -> hd_ne 123%N l ->
  no (Rf "repeat_exact") p /\ no (Rf "repeat_min") p /\ no (Rf "repeat_max") p /\ no (Rf "repeat_min_max") p.
Proof.
  intros H N. pose proof (ob_no w sg p l H N) as X. repeat split.
  - apply (call_count_no "repeat_exact" body_exact p eq_refl eq_refl eq_refl). repeat apply seq_no1. exact X.
  - apply (call_count_no "repeat_min" body_min p eq_refl eq_refl eq_refl). repeat apply seq_no1. exact X.
  - apply (call_count_no "repeat_max" body_max p eq_refl eq_refl eq_refl). repeat apply seq_no1. exact X.
  - apply (call_count_no "repeat_min_max" body_min_max p eq_refl eq_refl eq_refl). repeat apply seq_no1. exact X.
Qed.
End Count.
