(* C07 - tokenisation half, part 16: the closing theorem.  grammar.pest (Tokens.meta_grammar) under the documented PEG
   semantics (Peg.Spec) tokenises EVERY legal spelling of a concrete grammar cg (Text.prints_grammar: any gaps, comments,
   doc lines, escapes, leading bars, explicit parentheses) as tokens_of_grammar cg, each leaf covering its lexeme. *)
From Coq Require Import List Arith NArith ZArith Bool Lia String.
Import ListNotations.
Require Import PV.Comb.PState PV.Comb.Bytes PV.Comb.Utf8 PV.Iter.Queue PV.Peg.Ast PV.Peg.Spec PV.Peg.SpecFacts.
Require Import PV.Meta.Tokens PV.Meta.Unescape PV.Meta.Consume PV.Meta.Spell PV.Meta.LexProofs PV.Meta.Text PV.Meta.Proofs PV.Meta.Top.
Require Import PV.Meta.PegRules PV.Meta.LexPeg PV.Meta.TokBase PV.Meta.TokLex PV.Meta.TokOps PV.Meta.TokPost PV.Meta.TokCount PV.Meta.TokOper.
Require Import PV.Meta.TokPre PV.Meta.TokAtom PV.Meta.TokAtom2 PV.Meta.TokTerm PV.Meta.TokExpr PV.Meta.TokMain PV.Meta.TokInd PV.Meta.TokRule PV.Meta.TokTop.
Local Open Scope string_scope.
Local Open Scope list_scope.

Definition grules_body : expr := ESeq (ESeq (ESeq (Rf "SOI") (ERep GDOC)) (ERep GRULE)) (Rf "EOI").

Lemma gap_end_nil : gap_end [].
Proof. split; [repeat split; reflexivity|]. split; [reflexivity|]. now left. Qed.

Theorem tokenisation (extras : bool) (cg : cgrammar) (text : list byte) :
  prints_grammar cg text -> valid_utf8 text ->
  Forall (fun r => wp (cr_body r) = true /\ writable extras (cr_body r) = true /\ ident_ok (cr_name r) = true) (cg_rules cg) ->
  tokenises text cg.
Proof.
  intros (g0 & gd & rs & tr & Et & G0 & Pgd & Prs & Ptr) _ Fg.
  set (w := text). set (sg := @nil str).
  assert (H0 : at_ w 0 (g0 ++ gd ++ rs ++ tr ++ [])) by (unfold at_, w; cbn [skipn]; now rewrite app_nil_r).
  pose proof (docs_gap_end 47%N (cg_trailing cg) tr [] (or_introl eq_refl) Ptr gap_end_nil) as GE3.
  pose proof (rules_gap_end extras (cg_rules cg) rs _ Fg Prs GE3) as GE2.
  pose proof (docs_gap_end 33%N (cg_docs cg) gd _ (or_intror eq_refl) Pgd GE2) as GE1.
  (* SOI, the gap, the grammar docs *)
  assert (S0 : ok w sg (Rf "SOI") 0 0 []) by exact (evals_soi meta_grammar false (fun _ => None) w NonAtomic true 0 sg).
  assert (La0 : lands w 0 (0 + List.length g0)) by (apply (lands_gap w 0 g0 _ _ H0 G0 GE1); reflexivity).
  pose proof (at_app w 0 g0 _ H0) as H1.
  destruct (grammar_docs_run w sg (cg_docs cg) gd Pgd 0 _ _ La0 H1 GE2) as (q1 & Fd & R1 & L1 & M1).
  set (e1 := 0 + List.length g0 + List.length gd) in *. pose proof (at_app w _ gd _ H1) as H2. fold e1 in H2.
  assert (N1 : no w sg GDOC e1).
  { apply (doc_no w sg (nm "grammar_doc") (nm "//!") e1 _ eq_refl eq_refl eq_refl H2). rewrite app_nil_r.
    exact (gdoc_no_rules extras (cg_rules cg) tr rs (cg_trailing cg) Prs Fg Ptr). }
  destruct (seq_rep w sg (Rf "SOI") GDOC 0 0 [] q1 Fd e1 S0 R1 (lands_sk w sg _ _ L1) N1) as (qe1 & X1 & E1).
  pose proof (lands_or w q1 e1 qe1 L1 E1) as L1'.
  (* the rules and the trailing doc lines *)
  destruct (rules_run w sg extras (cg_rules cg) rs Prs Fg qe1 e1 _ L1' H2 GE3) as (q2 & Fr & R2 & L2 & M2).
  pose proof (at_app w _ rs _ H2) as H3.
  destruct (line_docs_run w sg (cg_trailing cg) tr Ptr q2 _ [] L2 H3 gap_end_nil) as (q3 & Ft & R3 & L3 & M3).
  set (e3 := e1 + List.length rs + List.length tr) in *. pose proof (at_app w _ tr _ H3) as H4. fold e3 in H4.
  pose proof (urun_app w sg GRULE qe1 q2 q3 Fr Ft R2 R3) as R23.
  destruct (seq_rep w sg _ GRULE 0 qe1 _ q3 (Fr ++ Ft) e3 X1 R23 (lands_sk w sg _ _ L3) (rule_no_end w sg e3 H4)) as (qe2 & X2 & E2).
  pose proof (lands_or w q3 e3 qe2 L3 E2) as L3'.
  (* EOI *)
  assert (Elen : e3 = List.length w).
  { unfold e3, e1, w. rewrite Et. unfold byte. rewrite !app_length. lia. }
  assert (S3 : ok w sg (Rf "EOI") e3 e3 [Node (rule_id meta_grammar (nm "EOI")) None e3 e3 []]).
  { pose proof (evals_eoi meta_grammar false (fun _ => None) w NonAtomic true e3 sg) as X.
    replace (Nat.eqb e3 (List.length w)) with true in X by (symmetry; apply Nat.eqb_eq; exact Elen). exact X. }
  pose proof (seq_ok w sg _ (Rf "EOI") 0 qe2 _ e3 e3 _ X2 (lands_sk w sg _ _ L3') S3) as X3.
  pose proof (call_silent w sg (nm "grammar_rules") {| rname := nm "grammar_rules"; rty := RSilent; rexpr := grules_body |} 0 _ eq_refl eq_refl eq_refl eq_refl X3) as X4.
  destruct X4 as (n & En & _). exists n. intros f Lf.
  eexists e3, sg, _. split.
  - unfold spec_parse. exact (evals_up meta_grammar false (fun _ => None) w NonAtomic true _ 0 sg _ n En (dM _ _ _) f Lf).
  - change (SM w (tokens_of_grammar cg) ((([] ++ Fd) ++ Fr ++ Ft) ++ [Node (rule_id meta_grammar (nm "EOI")) None e3 e3 []])).
    unfold tokens_of_grammar. cbn [app]. rewrite <- !app_assoc.
    apply SM_app; [exact M1|]. apply SM_app; [exact M2|]. apply SM_app; [exact M3|]. apply SM_leaf. reflexivity.
Qed.
