(* C07 - tokenisation half, part 14: grammar_rule on a printed rule and on a `///` line. *)
From Coq Require Import List Arith NArith ZArith Bool Lia String.
Import ListNotations.
Require Import PV.Comb.PState PV.Comb.Bytes PV.Comb.Utf8 PV.Iter.Queue PV.Peg.Ast PV.Peg.Spec PV.Peg.SpecFacts.
Require Import PV.Meta.Tokens PV.Meta.Unescape PV.Meta.Spell PV.Meta.LexProofs PV.Meta.Text PV.Meta.Proofs.
Require Import PV.Meta.PegRules PV.Meta.LexPeg PV.Meta.TokBase PV.Meta.TokLex PV.Meta.TokOps PV.Meta.TokPost PV.Meta.TokCount PV.Meta.TokOper.
Require Import PV.Meta.TokPre PV.Meta.TokAtom PV.Meta.TokAtom2 PV.Meta.TokTerm PV.Meta.TokExpr PV.Meta.TokMain PV.Meta.TokInd.
Local Open Scope string_scope.
Local Open Scope list_scope.

Definition GRULE : expr := Rf "grammar_rule".
Definition GDOC : expr := Rf "grammar_doc".
Definition rule_seq : expr :=
  ESeq (ESeq (ESeq (ESeq (ESeq (Rf "identifier") (Rf "assignment_operator")) (EOpt (Rf "modifier"))) (Rf "opening_brace")) EXPR) (Rf "closing_brace").
Definition grule_body : expr := EChoice rule_seq (Rf "line_doc").

Section Rule.
Variable w : list byte.
Variable sg : list str.
Variable extras : bool.
Notation G := meta_grammar.
Notation at_ := (at_ w).
Notation ok := (ok w sg).
Notation no := (no w sg).
Notation skp := (skp w sg).
Notation SM := (SM w).

Lemma ge123 l : gap_end (123%N :: l). Proof. apply gap_end_byte; discriminate. Qed.

Lemma call_grule p q F : ok grule_body p q F -> ok GRULE p q [Node (rule_id G (nm "grammar_rule")) None p q F].
Proof.
  intros H. exact (call_normal w sg (nm "grammar_rule") {| rname := nm "grammar_rule"; rty := RNormal; rexpr := grule_body |} p q F eq_refl eq_refl eq_refl eq_refl H).
Qed.
Lemma call_grule_no p : no grule_body p -> no GRULE p.
Proof.
  intros H. exact (call_normal_no w sg (nm "grammar_rule") {| rname := nm "grammar_rule"; rty := RNormal; rexpr := grule_body |} p eq_refl eq_refl eq_refl eq_refl H).
Qed.

Lemma rtype_eq_dec (a b : rtype) : {a = b} + {a <> b}.
Proof. decide equality. Qed.
Lemma mod_len ty : ty <> RNormal -> List.length (modifier_text ty) = 1.
Proof. destruct ty; [congruence|reflexivity..]. Qed.
Lemma mod_gap_end ty g3 l : (ty = RNormal -> g3 = []) -> gap_end (modifier_text ty ++ g3 ++ 123%N :: l).
Proof. intros N. destruct ty; cbn [modifier_text app]; [rewrite (N eq_refl); apply ge123|apply gap_end_byte; discriminate..]. Qed.

Lemma modifier_step X p q0 q Fx ty g3 l : ok X p q0 Fx -> skp q0 q -> gap g3 -> (ty = RNormal -> g3 = []) ->
  at_ q (modifier_text ty ++ g3 ++ 123%N :: l) ->
  exists qm Fm, ok (ESeq X (EOpt (Rf "modifier"))) p qm (Fx ++ Fm) /\ skp qm (q + List.length (modifier_text ty) + List.length g3) /\ SM (sk_modifier ty) Fm.
Proof.
  intros HX S G3 N H. destruct (rtype_eq_dec ty RNormal) as [->|NN].
  - rewrite (N eq_refl) in *. cbn [modifier_text app List.length] in *. exists q, []. rewrite !Nat.add_0_r.
    split; [|split; [exact (skp_here w sg q _ H (ge123 l))|apply SM_nil]].
    apply (seq_ok w sg X _ p q0 Fx q q [] HX S). apply opt_none. exact (modifier_no w sg q l H).
  - destruct (modifier_ok w sg ty q _ NN H) as (Fm & O & M). exists (q + 1), Fm. split; [|split; [|exact M]].
    + apply (seq_ok w sg X _ p q0 Fx q _ _ HX S). now apply opt_some.
    + rewrite (mod_len ty NN). pose proof (at_app w q _ _ H) as H1. rewrite (mod_len ty NN) in H1.
      exact (skp_gap w sg (q + 1) g3 (123%N :: l) H1 G3 (ge123 l)).
Qed.

Definition rule_sk (r : crule) : skel :=
  SK MGrammarRule LNone
     (SK MIdentifier (LName (cr_name r)) [] :: sk MAssignmentOperator :: sk_modifier (cr_ty r) ++
      [sk MOpeningBrace; SK MExpression LNone (sk_bar (cr_bar r) ++ fe (cr_body r)); sk MClosingBrace]).

(* name = modifier? { |? body }   (without the doc lines in front and the gap behind) *)
Lemma rule_ok r bw g1 g2 g3 g4 g5 gb p l :
  prints (cr_body r) bw -> wp (cr_body r) = true -> writable extras (cr_body r) = true -> ident_ok (cr_name r) = true ->
  gap g1 -> gap g2 -> gap g3 -> gap g4 -> gap g5 -> gap gb -> (cr_ty r = RNormal -> g3 = []) ->
  at_ p (cr_name r ++ g1 ++ 61%N :: g2 ++ modifier_text (cr_ty r) ++ g3 ++ 123%N :: g4 ++ opt_bar (cr_bar r) gb ++ bw ++ g5 ++ 125%N :: l) ->
  exists F, ok GRULE p (p + List.length (cr_name r) + List.length g1 + 1 + List.length g2 + List.length (modifier_text (cr_ty r)) + List.length g3 + 1 +
                        List.length g4 + List.length (opt_bar (cr_bar r) gb) + List.length bw + List.length g5 + 1) F /\ SM [rule_sk r] F.
Proof.
  intros P W Wr OK G1 G2 G3 G4 G5 Gb N H.
  pose proof (claims_all w sg extras (cr_body r) bw P W Wr) as C.
  pose proof (identifier_ok w sg (cr_name r) _ p OK (hard_follow_ident g1 61%N _ G1 eq_refl) H) as X0.
  pose proof (at_app w p _ _ H) as H1.
  pose proof (seq_tok w sg _ "assignment_operator" 61%N p _ _ g1 _ eq_refl eq_refl eq_refl X0 G1 H1 (ge61 _)) as X1.
  pose proof (at_app_cons w _ g1 _ _ H1) as H2. pose proof (at_app w _ g2 _ H2) as H3.
  pose proof (skp_gap w sg _ g2 _ H2 G2 (mod_gap_end (cr_ty r) g3 _ N)) as S2.
  destruct (modifier_step _ p _ _ _ (cr_ty r) g3 _ X1 S2 G3 N H3) as (qm & Fm & X2 & S3 & Mm).
  pose proof (at_app w _ g3 _ (at_app w _ (modifier_text (cr_ty r)) _ H3)) as H4.
  pose proof (seq_ok w sg _ (Rf "opening_brace") p qm _ _ _ _ X2 S3 (ob_ok w sg _ _ H4)) as X3.
  pose proof (at_cons w _ _ _ H4) as H5. pose proof (at_app w _ g4 _ H5) as H6.
  pose proof (skp_gap w sg _ g4 _ H5 G4 (bar_gap_end (cr_bar r) gb (cr_body r) bw _ ltac:(apply C))) as S4.
  destruct (expr_ok w sg (cr_body r) bw (cr_bar r) gb g5 125%N l _ C Gb G5 eq_refl H6) as (q & Fx & X & La & Mx).
  pose proof (seq_ok w sg _ EXPR p _ _ _ q Fx X3 S4 X) as X4.
  match type of La with TokBase.lands _ _ ?e' => set (e := e') in * end.
  assert (He : at_ e (125%N :: l)) by (unfold e; apply at_app; apply at_app; apply at_app; exact H6).
  pose proof (seq_ok w sg _ (Rf "closing_brace") p q _ e (e + 1) _ X4 (lands_sk w sg _ _ La)
                (t1ok w sg "closing_brace" 125%N e l eq_refl eq_refl eq_refl He)) as X5.
  eexists. split; [apply (ok_eq w sg _ p (e + 1)); [apply call_grule; apply ch_l; exact X5|unfold e; lia]|].
  unfold rule_sk. eapply SM_node; [reflexivity|exact I|].
  replace (SK MIdentifier (LName (cr_name r)) [] :: sk MAssignmentOperator :: sk_modifier (cr_ty r) ++
          [sk MOpeningBrace; SK MExpression LNone (sk_bar (cr_bar r) ++ fe (cr_body r)); sk MClosingBrace])
    with ((((([SK MIdentifier (LName (cr_name r)) []] ++ [sk MAssignmentOperator]) ++ sk_modifier (cr_ty r)) ++
           [sk MOpeningBrace]) ++ [SK MExpression LNone (sk_bar (cr_bar r) ++ fe (cr_body r))]) ++ [sk MClosingBrace])
    by (rewrite <- !app_assoc; reflexivity).
  repeat apply SM_app; try assumption; try (apply SM_leaf; reflexivity).
  apply (SM_node w (mid MIdentifier) MIdentifier (LName (cr_name r)) [] p _ [] eq_refl); [|apply SM_nil].
  cbn [lex_ok]. exact (slice_at w p (cr_name r) _ _ H eq_refl).
Qed.

(* a `///` line is a grammar_rule of its own *)
Lemma rule_doc_ok d l p : doc_line [47; 47; 47]%N d -> at_ p (d ++ l) ->
  exists q F nl, ok GRULE p q F /\ SM [sk_line_doc] F /\ (nl = [10%N] \/ nl = [13%N; 10%N]) /\ at_ q (nl ++ l) /\ q + List.length nl = p + List.length d.
Proof.
  intros D H. destruct (line_doc_ok w sg d l p eq_refl eq_refl eq_refl eq_refl D H) as (q & F & nl & O & M & Hnl & Hq & Eq).
  exists q, [Node (rule_id G (nm "grammar_rule")) None p q F], nl. split; [|split; [|auto]].
  - apply call_grule. apply ch_r; [|exact O]. do 5 apply seq_no1.
    destruct D as (cs & nl' & -> & _). apply (identifier_no w sg p _ H). cbn. split; reflexivity.
  - unfold sk_line_doc. eapply SM_node; [reflexivity|exact I|exact M].
Qed.

Lemma rule_no_end p : at_ p [] -> no GRULE p.
Proof.
  intros H. apply call_grule_no. apply ch_r.
  - do 5 apply seq_no1. apply (identifier_no w sg p [] H). exact I.
  - exact (doc_no w sg (nm "line_doc") (nm "///") p [] eq_refl eq_refl eq_refl H eq_refl).
Qed.
End Rule.
