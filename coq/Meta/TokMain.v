(* C07 - tokenisation half, expression level, part 12: ( e ) and PUSH( e ), and the induction over the printed
   concrete expressions: every well-parenthesised writable expression satisfies the claims of its level. *)
From Coq Require Import List Arith NArith ZArith Bool Lia String.
Import ListNotations.
Require Import PV.Comb.PState PV.Comb.Bytes PV.Comb.Utf8 PV.Iter.Queue PV.Peg.Ast PV.Peg.Spec PV.Peg.SpecFacts.
Require Import PV.Meta.Tokens PV.Meta.Unescape PV.Meta.Spell PV.Meta.LexProofs PV.Meta.Text PV.Meta.Proofs.
Require Import PV.Meta.PegRules PV.Meta.LexPeg PV.Meta.TokBase PV.Meta.TokLex PV.Meta.TokOps PV.Meta.TokPost PV.Meta.TokCount PV.Meta.TokOper.
Require Import PV.Meta.TokPre PV.Meta.TokAtom PV.Meta.TokAtom2 PV.Meta.TokTerm PV.Meta.TokExpr.
Local Open Scope string_scope.
Local Open Scope list_scope.

Lemma push_not_lit g1 l : gap g1 -> prefixb (nm "PUSH_LITERAL") (nm "PUSH" ++ g1 ++ 40%N :: l) = false.
Proof.
  intros G1. change (nm "PUSH_LITERAL") with ([80; 85; 83; 72]%N ++ 95%N :: [76; 73; 84; 69; 82; 65; 76]%N).
  change (nm "PUSH") with [80; 85; 83; 72]%N. cbn [app prefixb N.eqb Pos.eqb andb].
  destruct (gap_head g1 G1) as [->|(x & l' & -> & Hx)]; [reflexivity|]. cbn [app].
  destruct (gapb_cases x Hx) as [->|[->|[->|[->| ->]]]]; reflexivity.
Qed.

Section Main.
Variable w : list byte.
Variable sg : list str.
Variable extras : bool.
Notation G := meta_grammar.
Notation at_ := (at_ w).
Notation ok := (ok w sg).
Notation no := (no w sg).
Notation skp := (skp w sg).
Notation SM := (SM w).
Notation PL := (PL w sg).
Notation RL := (RL w sg).
Notation TL := (TL w sg).
Notation EL := (EL w sg).
Notation Claims := (Claims w sg).

(* ( |? c )  after whatever opened the parenthesis *)
Lemma group OPX p q1 Fo c' w' (bar : bool) gb g1 g2 l : Claims c' w' -> ok OPX p q1 Fo -> gap g1 -> gap gb -> gap g2 ->
  at_ q1 (g1 ++ opt_bar bar gb ++ w' ++ g2 ++ 41%N :: l) ->
  exists Fx cp, ok (ESeq (ESeq OPX EXPR) CP) p (q1 + List.length g1 + List.length (opt_bar bar gb) + List.length w' + List.length g2 + 1) (Fo ++ Fx ++ [cp]) /\
    SM [SK MExpression LNone (sk_bar bar ++ fe c')] Fx /\ SM [sk MClosingParen] [cp].
Proof.
  intros C O G1 Gb G2 H. pose proof (at_app w _ g1 _ H) as H1.
  assert (S : skp q1 (q1 + List.length g1)) by (apply (skp_gap w sg q1 g1 _ H G1); apply (bar_gap_end bar gb c' w'); apply C).
  destruct (expr_ok w sg c' w' bar gb g2 41%N l _ C Gb G2 eq_refl H1) as (q & Fx & X & La & Mx).
  set (e := q1 + List.length g1 + List.length (opt_bar bar gb) + List.length w' + List.length g2) in *.
  assert (He : at_ e (41%N :: l)) by (unfold e; apply at_app; apply at_app; apply at_app; exact H1).
  pose proof (seq_ok w sg _ CP p q _ e (e + 1) _ (seq_ok w sg OPX EXPR p q1 Fo _ q Fx O S X) (lands_sk w sg _ _ La)
                (t1ok w sg "closing_paren" 41%N e l eq_refl eq_refl eq_refl He)) as Y.
  exists Fx, (tnode "closing_paren" e (e + 1)). split; [|split; [exact Mx|apply SM_leaf; reflexivity]].
  rewrite <- app_assoc in Y. exact Y.
Qed.

Lemma PL_paren c' w' (bar : bool) gb g1 g2 : Claims c' w' -> gap g1 -> gap g2 -> gap gb ->
  PL (CParen bar c') ([40%N] ++ g1 ++ opt_bar bar gb ++ w' ++ g2 ++ [41%N]).
Proof.
  intros C G1 G2 Gb. apply PL_of_atom. intros p g b r' H Hg Hb. norm H.
  pose proof (t1ok w sg "opening_paren" 40%N p _ eq_refl eq_refl eq_refl H) as O.
  destruct (group OP p (p + 1) _ c' w' bar gb g1 g2 _ C O G1 Gb G2 (at_cons w p _ _ H)) as (Fx & cp & Y & Mx & Mc).
  eexists. split.
  - apply call_node. apply ch_l. apply (ok_eq w sg _ p _ _ _ Y). len.
  - cbn [tc both mkt snd]. fold (fe c'). cbn [app]. apply SM_cons; [apply SM_leaf; reflexivity|].
    exact (SM_app w [_] [_] Fx [cp] Mx Mc).
Qed.

Lemma pushlit_no' p l : at_ p l -> prefixb (nm "PUSH_LITERAL") l = false -> no (Rf "_push_literal") p.
Proof.
  intros H N.
  apply (call_normal_no w sg (nm "_push_literal") {| rname := nm "_push_literal"; rty := RNormal; rexpr := pushlit_body |} p eq_refl eq_refl eq_refl eq_refl).
  cbn [rexpr]. repeat apply seq_no1. exact (str_fail w sg _ p l H N).
Qed.

Lemma PL_push c' w' (bar : bool) gb g1 g2 g3 : Claims c' w' -> gap g1 -> gap g2 -> gap g3 -> gap gb ->
  PL (CPush bar c') ([80; 85; 83; 72]%N ++ g1 ++ [40%N] ++ g2 ++ opt_bar bar gb ++ w' ++ g3 ++ [41%N]).
Proof.
  intros C G1 G2 G3 Gb. apply PL_of_atom. intros p g b r' H Hg Hb. norm H.
  assert (H0 : at_ p (nm "PUSH" ++ g1 ++ 40%N :: g2 ++ opt_bar bar gb ++ w' ++ g3 ++ 41%N :: g ++ b :: r')) by exact H.
  pose proof (at_app w p (nm "PUSH") _ H0) as H1. change (List.length (nm "PUSH")) with 4 in H1.
  pose proof (str_ok w sg (nm "PUSH") p _ H0) as X0. change (List.length (nm "PUSH")) with 4 in X0.
  pose proof (seq_tok w sg (Lt "PUSH") "opening_paren" 40%N p _ _ g1 _ eq_refl eq_refl eq_refl X0 G1 H1 (ge40 _)) as X1.
  destruct (group (ESeq (Lt "PUSH") OP) p _ _ c' w' bar gb g2 g3 _ C X1 G2 Gb G3 (at_app_cons w _ g1 _ _ H1)) as (Fx & cp & Y & Mx & Mc).
  pose proof (call_normal w sg (nm "_push") {| rname := nm "_push"; rty := RNormal; rexpr := push_body |} p _ _ eq_refl eq_refl eq_refl eq_refl Y) as Z.
  eexists. split.
  - apply (node_of_terminal w sg p _ _ H); [cbn; discriminate|]. apply call_terminal.
    apply (chain_select w NonAtomic true [] (Rf "_push") (tl term_tail) (Rf "_push_literal")).
    + apply (pushlit_no' p _ H0). now apply push_not_lit.
    + apply (ok_eq w sg _ p _ _ _ Z). len.
  - cbn [tc both mkt snd]. fold (fe c'). eapply SM_node; [reflexivity|exact I|]. cbn [app].
    apply SM_cons; [apply SM_leaf; reflexivity|]. exact (SM_app w [_] [_] Fx [cp] Mx Mc).
Qed.

(* the head of a printed expression *)
Lemma HD_app c c' w' l : HD c' w' -> lvl c <= lvl c' -> HD c (w' ++ l).
Proof.
  intros (b0 & l0 & -> & Hh & H3 & H4) L. exists b0, (l0 ++ l). split; [reflexivity|]. split; [exact Hh|].
  split; intros; [apply H3|apply H4]; lia.
Qed.
Lemma HD_byte c (b0 : byte) l : headb b0 = true -> (3 <= lvl c -> b0 <> 35%N) -> (4 <= lvl c -> b0 <> 38%N /\ b0 <> 33%N) -> HD c (b0 :: l).
Proof. intros A B C. exists b0, l. auto. Qed.
End Main.
