(* C07 - fuel-free derived rules for Peg.Spec.eval: [evals a em e p sg r] says that the evaluation returns r
   (a match or a failure) with some fuel, hence with every larger fuel (SpecFacts.eval_mono).  One rule per
   equation of eval; they are what the proofs about grammar.pest use. *)
From Coq Require Import List Arith NArith ZArith Bool Lia String.
Import ListNotations.
Local Open Scope string_scope.
Local Open Scope list_scope.
Require Import PV.Comb.PState PV.Comb.Bytes PV.Iter.Queue PV.Peg.Ast PV.Peg.Spec PV.Peg.SpecFacts.

Section Rules.
Variable G : grammar.
Variable extras : bool.
Variable uprop : name -> option (N -> bool).
Variable w : list byte.
Notation eval := (eval G extras uprop w).

Definition definite (r : sres) : Prop := r <> SFuel.
Definition evals (a : atom) (em : bool) (e : expr) (p : nat) (sg : list str) (r : sres) : Prop :=
  exists n, eval n a em e p sg = r /\ definite r.
Definition skips (a : atom) (em : bool) (p : nat) (sg : list str) (r : sres) : Prop :=
  exists n, skip_with G (eval n) n a em p sg = r /\ definite r.
Definition runits (a : atom) (em : bool) (x : expr) (p : nat) (sg : list str) (r : sres) : Prop :=
  exists n, rep_unit G (eval n) n a em x p sg = r /\ definite r.
Definition reps (a : atom) (em : bool) (x : expr) (p : nat) (sg : list str) (acc : list tree) (r : sres) : Prop :=
  exists n, rep_from_with G (eval n) n a em x p sg acc = r /\ definite r.
Definition manys (a : atom) (em : bool) (nme : name) (p : nat) (sg : list str) (acc : list tree) (r : sres) : Prop :=
  exists n, many_with (eval n) n a em nme p sg acc = r /\ definite r.

Lemma evals_up a em e p sg r n : eval n a em e p sg = r -> definite r -> forall m, n <= m -> eval m a em e p sg = r.
Proof. intros H D m L. exact (eval_mono G extras uprop w n m L a em e p sg r H D). Qed.
Lemma ext_up n m : n <= m -> ext_ev (eval n) (eval m).
Proof. intros L. apply eval_mono. exact L. Qed.

Lemma dM p sg f : definite (SMatch p sg f). Proof. discriminate. Qed.
Lemma dF : definite SFail. Proof. discriminate. Qed.
Hint Resolve dM dF : core.

(* ---- leaves ---- *)
Lemma evals_str a em s p sg :
  evals a em (EStr s) p sg (match lit w s p with Some q => SMatch q sg [] | None => SFail end).
Proof. exists 1. split; [reflexivity|]. destruct (lit w s p); auto. Qed.
Lemma evals_range a em lo hi p sg : evals a em (ERange lo hi) p sg (one_char w (in_range lo hi) p sg).
Proof. exists 1. split; [reflexivity|]. unfold one_char. destruct (char_here w p) as [[c n]|]; [destruct (in_range lo hi c)|]; auto. Qed.

(* ---- rule call ---- *)
Definition plain_name (n : name) : bool :=
  negb (str_eqb n (nm "SOI") || str_eqb n (nm "EOI") || str_eqb n (nm "PEEK") || str_eqb n (nm "POP") || str_eqb n (nm "DROP") ||
        str_eqb n (nm "PEEK_ALL") || str_eqb n (nm "POP_ALL") || str_eqb n (nm "NEWLINE")) &&
  match ascii_builtin n with Some _ => false | None => true end.

Lemma evals_call a em n r p sg res : plain_name n = true -> find_rule G n = Some r ->
  evals (snd (rule_mode (is_special n) (rty r) a em)) em (rexpr r) p sg res ->
  evals a em (EIdent n) p sg
    (match res with
     | SMatch q sg2 f2 => SMatch q sg2 (if fst (rule_mode (is_special n) (rty r) a em) then [Node (rule_id G n) None p q f2] else f2)
     | x => x
     end).
Proof.
  intros PN FR (k & E & D). exists (S k). unfold plain_name in PN. apply andb_prop in PN. destruct PN as [P1 P2].
  apply negb_true_iff in P1. repeat (apply orb_false_iff in P1; destruct P1 as [P1 ?]).
  split.
  - cbn [Spec.eval].
    repeat match goal with H : str_eqb n _ = false |- _ => rewrite H; clear H end.
    destruct (ascii_builtin n); [discriminate|]. rewrite FR.
    destruct (rule_mode (is_special n) (rty r) a em) as [tk a2]. cbn [fst snd] in *. rewrite E. destruct res; reflexivity.
  - destruct res; auto.
Qed.

Lemma evals_any a em p sg : evals a em (EIdent (nm "ANY")) p sg (one_char w (fun _ => true) p sg).
Proof. exists 1. split; [reflexivity|]. unfold one_char. destruct (char_here w p) as [[c n]|]; auto. Qed.
Lemma evals_soi a em p sg : evals a em (EIdent (nm "SOI")) p sg (if Nat.eqb p 0 then SMatch p sg [] else SFail).
Proof. exists 1. split; [reflexivity|]. destruct (Nat.eqb p 0); auto. Qed.
Lemma evals_eoi a em p sg :
  evals a em (EIdent (nm "EOI")) p sg
    (if Nat.eqb p (List.length w) then SMatch p sg (if tok a em then [Node (rule_id G (nm "EOI")) None p p []] else []) else SFail).
Proof. exists 1. split; [reflexivity|]. destruct (Nat.eqb p (List.length w)); auto. Qed.

(* ---- skipping ---- *)
Lemma skips_atomic a em p sg : atom_eqb a NonAtomic = false -> skips a em p sg (SMatch p sg []).
Proof. intros H. exists 0. unfold skip_with. rewrite H. cbn. auto. Qed.

(* ---- sequence, choice, option, predicates ---- *)
Lemma evals_seq a em l r p sg p1 sg1 f1 p2 sg2 f2 res :
  evals a em l p sg (SMatch p1 sg1 f1) -> skips a em p1 sg1 (SMatch p2 sg2 f2) -> evals a em r p2 sg2 res ->
  evals a em (ESeq l r) p sg (match res with SMatch p3 sg3 f3 => SMatch p3 sg3 (f1 ++ f2 ++ f3) | x => x end).
Proof.
  intros (n1 & E1 & _) (n2 & E2 & _) (n3 & E3 & D3).
  set (m := Nat.max n1 (Nat.max n2 n3)). exists (S m). split.
  - cbn [Spec.eval]. rewrite (evals_up _ _ _ _ _ _ _ E1 (dM _ _ _) m) by lia.
    rewrite (skip_mono G (eval n2) (eval m) n2 m a em p1 sg1 _ (ext_up n2 m ltac:(lia)) ltac:(lia) E2 (dM _ _ _)).
    rewrite (evals_up _ _ _ _ _ _ _ E3 D3 m) by lia. destruct res; reflexivity.
  - destruct res; auto.
Qed.
Lemma evals_seq_fail a em l r p sg : evals a em l p sg SFail -> evals a em (ESeq l r) p sg SFail.
Proof. intros (n & E & _). exists (S n). split; [cbn [Spec.eval]; now rewrite E|auto]. Qed.

Lemma evals_choice_l a em l r p sg q sg' f : evals a em l p sg (SMatch q sg' f) -> evals a em (EChoice l r) p sg (SMatch q sg' f).
Proof. intros (n & E & _). exists (S n). split; [cbn [Spec.eval]; now rewrite E|auto]. Qed.
Lemma evals_choice_r a em l r p sg res : evals a em l p sg SFail -> evals a em r p sg res -> evals a em (EChoice l r) p sg res.
Proof.
  intros (n1 & E1 & _) (n2 & E2 & D2). exists (S (Nat.max n1 n2)). split; [|exact D2].
  cbn [Spec.eval]. rewrite (evals_up _ _ _ _ _ _ _ E1 dF (Nat.max n1 n2)) by lia. apply (evals_up _ _ _ _ _ _ _ E2 D2). lia.
Qed.

Lemma evals_opt a em x p sg res : evals a em x p sg res ->
  evals a em (EOpt x) p sg (match res with SFail => SMatch p sg [] | r => r end).
Proof. intros (n & E & D). exists (S n). split; [cbn [Spec.eval]; rewrite E; destruct res; reflexivity|destruct res; auto]. Qed.

Lemma evals_neg a em x p sg res : evals a false x p sg res ->
  evals a em (ENegPred x) p sg (match res with SMatch _ _ _ => SFail | SFail => SMatch p sg [] | SFuel => SFuel end).
Proof. intros (n & E & D). exists (S n). split; [cbn [Spec.eval]; rewrite E; destruct res; reflexivity|destruct res; auto]. Qed.

(* ---- repetition ---- *)
Lemma runits_intro a em x p sg p1 sg1 f1 res : skips a em p sg (SMatch p1 sg1 f1) -> evals a em x p1 sg1 res ->
  runits a em x p sg (match res with SMatch p2 sg2 f2 => SMatch p2 sg2 (f1 ++ f2) | r => r end).
Proof.
  intros (n1 & E1 & _) (n2 & E2 & D2). set (m := Nat.max n1 n2). exists m. split.
  - unfold rep_unit. rewrite (skip_mono G (eval n1) (eval m) n1 m a em p sg _ (ext_up n1 m ltac:(lia)) ltac:(lia) E1 (dM _ _ _)).
    rewrite (evals_up _ _ _ _ _ _ _ E2 D2 m) by lia. destruct res; reflexivity.
  - destruct res; auto.
Qed.

Lemma reps_stop a em x p sg acc : runits a em x p sg SFail -> reps a em x p sg acc (SMatch p sg acc).
Proof.
  intros (n & E & _). exists (S n). split; [|auto]. unfold rep_from_with. cbn [loop].
  rewrite (rep_unit_mono G (eval n) (eval (S n)) n (S n) a em x (ext_up n (S n) ltac:(lia)) ltac:(lia) p sg _ E dF). reflexivity.
Qed.
Lemma reps_step a em x p sg acc p1 sg1 f1 res : runits a em x p sg (SMatch p1 sg1 f1) -> reps a em x p1 sg1 (acc ++ f1) res ->
  reps a em x p sg acc res.
Proof.
  intros (n1 & E1 & _) (n2 & E2 & D2). set (m := Nat.max n1 n2). exists (S m). split; [|exact D2].
  unfold rep_from_with. cbn [loop].
  rewrite (rep_unit_mono G (eval n1) (eval (S m)) n1 (S m) a em x (ext_up n1 (S m) ltac:(lia)) ltac:(lia) p sg _ E1 (dM _ _ _)).
  apply (loop_mono n2 m (rep_unit G (eval n2) n2 a em x) (rep_unit G (eval (S m)) (S m) a em x) p1 sg1 (acc ++ f1) res
           (rep_unit_mono G (eval n2) (eval (S m)) n2 (S m) a em x (ext_up n2 (S m) ltac:(lia)) ltac:(lia)) ltac:(lia) E2 D2).
Qed.

Lemma evals_rep a em x p sg : evals a em x p sg SFail -> evals a em (ERep x) p sg (SMatch p sg []).
Proof. intros (n & E & _). exists (S n). split; [cbn [Spec.eval]; now rewrite E|auto]. Qed.
Lemma evals_rep_more a em x p sg p1 sg1 f1 res : evals a em x p sg (SMatch p1 sg1 f1) -> reps a em x p1 sg1 f1 res ->
  evals a em (ERep x) p sg res.
Proof.
  intros (n1 & E1 & _) (n2 & E2 & D2). set (m := Nat.max n1 n2). exists (S m). split; [|exact D2].
  cbn [Spec.eval]. rewrite (evals_up _ _ _ _ _ _ _ E1 (dM _ _ _) m) by lia.
  apply (rep_from_mono G (eval n2) (eval m) n2 m a em x p1 sg1 f1 res (ext_up n2 m ltac:(lia)) ltac:(lia) E2 D2).
Qed.

(* e+ without grammar-extras, and the bounded repetitions: defined by their unrolling *)
Lemma evals_rep_once a em x p sg res : extras = false -> evals a em (ESeq x (ERep x)) p sg res -> evals a em (ERepOnce x) p sg res.
Proof. intros X (n & E & D). exists (S n). split; [|exact D]. cbn [Spec.eval]. revert E. rewrite X. auto. Qed.
Lemma evals_unroll a em e u p sg res :
  match e with ERepExact _ _ | ERepMin _ _ | ERepMax _ _ | ERepMinMax _ _ _ => True | _ => False end ->
  unroll_node extras e = Some u -> evals a em u p sg res -> evals a em e p sg res.
Proof.
  intros K U (n & E & D). exists (S n). split; [|exact D].
  destruct e; try tauto; cbn [Spec.eval]; rewrite U; exact E.
Qed.

(* ---- implicit skipping in non-atomic rules of a grammar with WHITESPACE and COMMENT ---- *)
Lemma manys_stop a em nme p sg acc : evals a em (EIdent nme) p sg SFail -> manys a em nme p sg acc (SMatch p sg acc).
Proof.
  intros (n & E & _). exists (S n). split; [|auto]. unfold many_with. cbn [loop].
  rewrite (evals_up _ _ _ _ _ _ _ E dF (S n)) by lia. reflexivity.
Qed.
Lemma manys_step a em nme p sg acc p1 sg1 f1 res : evals a em (EIdent nme) p sg (SMatch p1 sg1 f1) ->
  manys a em nme p1 sg1 (acc ++ f1) res -> manys a em nme p sg acc res.
Proof.
  intros (n1 & E1 & _) (n2 & E2 & D2). set (m := Nat.max n1 n2). exists (S m). split; [|exact D2].
  unfold many_with. cbn [loop]. rewrite (evals_up _ _ _ _ _ _ _ E1 (dM _ _ _) (S m)) by lia.
  apply (loop_mono n2 m (fun p sg => eval n2 a em (EIdent nme) p sg) (fun p sg => eval (S m) a em (EIdent nme) p sg) p1 sg1 (acc ++ f1) res);
    [intros p0 sg0 r0; apply (ext_up n2 (S m)); lia|lia|exact E2|exact D2].
Qed.

Definition cunit (n : nat) (a : atom) (em : bool) : nat -> list str -> sres :=
  fun p sg => match eval n a em (EIdent (nm "COMMENT")) p sg with
              | SMatch p2 sg2 f2 => many_with (eval n) n a em (nm "WHITESPACE") p2 sg2 f2
              | r => r end.
Definition cloops (a : atom) (em : bool) (p : nat) (sg : list str) (acc : list tree) (r : sres) : Prop :=
  exists n, loop n (cunit n a em) p sg acc = r /\ definite r.

Lemma cunit_mono n m a em : n <= m -> ext_unit (cunit n a em) (cunit m a em).
Proof.
  intros L p sg r H D. unfold cunit in *.
  destruct (eval n a em (EIdent (nm "COMMENT")) p sg) as [p2 sg2 f2| |] eqn:E.
  - rewrite (evals_up _ _ _ _ _ _ _ E (dM _ _ _) m L). apply (many_mono (eval n) (eval m) n m a em _ p2 sg2 f2 r (ext_up n m L) L H D).
  - rewrite (evals_up _ _ _ _ _ _ _ E dF m L). exact H.
  - subst r. now elim D.
Qed.

Lemma cloops_stop a em p sg acc : evals a em (EIdent (nm "COMMENT")) p sg SFail -> cloops a em p sg acc (SMatch p sg acc).
Proof.
  intros (n & E & _). exists (S n). split; [|auto]. cbn [loop]. unfold cunit at 1.
  rewrite (evals_up _ _ _ _ _ _ _ E dF (S n)) by lia. reflexivity.
Qed.
Lemma cloops_step a em p sg acc p1 sg1 f1 p2 sg2 f2 res :
  evals a em (EIdent (nm "COMMENT")) p sg (SMatch p1 sg1 f1) -> manys a em (nm "WHITESPACE") p1 sg1 f1 (SMatch p2 sg2 f2) ->
  cloops a em p2 sg2 (acc ++ f2) res -> cloops a em p sg acc res.
Proof.
  intros (n1 & E1 & _) (n2 & E2 & _) (n3 & E3 & D3). set (m := Nat.max n1 (Nat.max n2 n3)). exists (S m). split; [|exact D3].
  cbn [loop]. unfold cunit at 1. rewrite (evals_up _ _ _ _ _ _ _ E1 (dM _ _ _) (S m)) by lia.
  rewrite (many_mono (eval n2) (eval (S m)) n2 (S m) a em _ p1 sg1 f1 _ (ext_up n2 (S m) ltac:(lia)) ltac:(lia) E2 (dM _ _ _)).
  apply (loop_mono n3 m (cunit n3 a em) (cunit (S m) a em) p2 sg2 (acc ++ f2) res (cunit_mono n3 (S m) a em ltac:(lia)) ltac:(lia) E3 D3).
Qed.

Lemma skips_both em p sg p1 sg1 f1 res :
  has_rule G (nm "WHITESPACE") = true -> has_rule G (nm "COMMENT") = true ->
  manys NonAtomic em (nm "WHITESPACE") p sg [] (SMatch p1 sg1 f1) -> cloops NonAtomic em p1 sg1 f1 res ->
  skips NonAtomic em p sg res.
Proof.
  intros HW HC (n1 & E1 & _) (n2 & E2 & D2). set (m := Nat.max n1 n2). exists m. split; [|exact D2].
  unfold skip_with. cbn [atom_eqb negb]. rewrite HW, HC.
  rewrite (many_mono (eval n1) (eval m) n1 m NonAtomic em _ p sg [] _ (ext_up n1 m ltac:(lia)) ltac:(lia) E1 (dM _ _ _)).
  apply (loop_mono n2 m (cunit n2 NonAtomic em) (cunit m NonAtomic em) p1 sg1 f1 res (cunit_mono n2 m NonAtomic em ltac:(lia)) ltac:(lia) E2 D2).
Qed.

Lemma eval_rep_S n a em x p sg :
  eval (S n) a em (ERep x) p sg =
  match eval n a em x p sg with
  | SMatch p1 sg1 f1 => rep_from_with G (eval n) n a em x p1 sg1 f1
  | SFail => SMatch p sg []
  | SFuel => SFuel
  end.
Proof. reflexivity. Qed.

(* in an atomic context x* is the plain loop (no implicit skipping) *)
Lemma evals_rep_atomic a em x p sg r : atom_eqb a NonAtomic = false -> reps a em x p sg [] r -> evals a em (ERep x) p sg r.
Proof.
  intros NA (n & E & D). destruct n as [|k]; [cbn in E; subst r; now elim D|].
  unfold rep_from_with in E. cbn [loop] in E. unfold rep_unit at 1 in E. unfold skip_with in E. rewrite NA in E. cbn [negb] in E.
  destruct (eval (S k) a em x p sg) as [p2 sg2 f2| |] eqn:Ex.
  - exists (S (S k)). split; [|exact D]. rewrite eval_rep_S, Ex.
    cbn [app] in E. unfold rep_from_with.
    apply (loop_mono k (S k) (rep_unit G (eval (S k)) (S k) a em x) (rep_unit G (eval (S k)) (S k) a em x) p2 sg2 f2 r); auto.
    intros p0 sg0 r0 H0 _. exact H0.
  - exists (S (S k)). split; [|exact D]. rewrite eval_rep_S, Ex. exact E.
  - subst r. now elim D.
Qed.
End Rules.
