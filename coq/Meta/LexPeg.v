(* C07 - the first half of the reader, lexical part: grammar.pest (Tokens.meta_grammar) under Peg.Spec tokenises
   the lexemes of Spell.v / Text.v.  Positions are described by the suffix of the text: skipn p w = lexeme ++ rest. *)
From Coq Require Import List Arith NArith ZArith Bool Lia String.
Import ListNotations.
Require Import PV.Comb.PState PV.Comb.Bytes PV.Comb.Utf8 PV.Iter.Queue PV.Peg.Ast PV.Peg.Spec PV.Peg.SpecFacts.
Require Import PV.Meta.Tokens PV.Meta.Unescape PV.Meta.Spell PV.Meta.LexProofs PV.Meta.Text.
Require Import PV.Meta.PegRules.
Local Open Scope string_scope.
Local Open Scope list_scope.

Section Lex.
Variable w : list byte.
Notation G := meta_grammar.
Notation mev := (evals G false (fun _ => None) w).
Notation mskips := (skips G false (fun _ => None) w).
Notation mreps := (reps G false (fun _ => None) w).
Notation mrunits := (runits G false (fun _ => None) w).

Definition node_if (b : bool) (r : mrule) (s e : nat) (ch : list tree) : list tree :=
  if b then [Node (mid r) None s e ch] else [].

(* ---- the text at a position ---- *)
Lemma prefixb_app s rest : prefixb s (s ++ rest) = true.
Proof. induction s as [|b s IH]; [reflexivity|]. cbn. now rewrite N.eqb_refl, IH. Qed.
Lemma skipn_plus (l : list byte) a b : skipn (a + b) l = skipn b (skipn a l).
Proof. revert l. induction a as [|a IH]; intros l; [reflexivity|]. destruct l; cbn [Nat.add skipn]; [now destruct b|apply IH]. Qed.
Lemma at_advance p s rest : skipn p w = s ++ rest -> skipn (p + List.length s) w = rest.
Proof. intros H. rewrite skipn_plus, H. rewrite skipn_app, skipn_all, Nat.sub_diag. reflexivity. Qed.
Lemma lit_here p s rest : skipn p w = s ++ rest -> lit w s p = Some (p + List.length s).
Proof. intros H. unfold lit. now rewrite H, prefixb_app. Qed.
Lemma lit_not p s l : skipn p w = l -> prefixb s l = false -> lit w s p = None.
Proof. intros H F. unfold lit. now rewrite H, F. Qed.

Definition follow (P : byte -> bool) (rest : list byte) : Prop :=
  match rest with [] => True | b :: _ => (b < 128)%N /\ P b = false end.

Lemma one_char_ascii P p sg b rest : skipn p w = b :: rest -> (b < 128)%N ->
  one_char w P p sg = if P b then SMatch (p + 1) sg [] else SFail.
Proof.
  intros H L. unfold one_char, char_here. rewrite H. cbn [decode1]. apply N.ltb_lt in L. now rewrite L.
Qed.
Lemma one_char_follow P p sg rest : skipn p w = rest -> follow P rest -> one_char w P p sg = SFail.
Proof.
  intros H F. destruct rest as [|b r].
  - unfold one_char, char_here. now rewrite H.
  - destruct F as [L Pb]. rewrite (one_char_ascii P p sg b r H L). now rewrite Pb.
Qed.

Lemma atomic_skip em p sg : mskips Atomic em p sg (SMatch p sg []).
Proof. now apply skips_atomic. Qed.

(* ---- x* over single ASCII characters of a class, in an atomic rule ---- *)
Definition digitb (b : byte) : bool := in_range 48 57 b.

Lemma class_star (P : byte -> bool) (x : expr) em sg :
  (forall p b rest, skipn p w = b :: rest -> (b < 128)%N -> P b = true -> mev Atomic em x p sg (SMatch (p + 1) sg [])) ->
  (forall p rest, skipn p w = rest -> follow P rest -> mev Atomic em x p sg SFail) ->
  forall ds rest p acc, Forall (fun b => (b < 128)%N /\ P b = true) ds -> follow P rest -> skipn p w = ds ++ rest ->
  mreps Atomic em x p sg acc (SMatch (p + List.length ds) sg acc).
Proof.
  intros Hyes Hno ds. induction ds as [|b ds IH]; intros rest p acc F Fo H.
  - cbn [List.length]. rewrite Nat.add_0_r. apply reps_stop.
    apply (runits_intro G false _ w Atomic em x p sg p sg [] SFail (atomic_skip em p sg)). apply (Hno p rest H Fo).
  - inversion F as [|? ? [Lb Pb] F']; subst. cbn [app] in H.
    apply (reps_step G false _ w Atomic em x p sg acc (p + 1) sg []).
    + apply (runits_intro G false _ w Atomic em x p sg p sg [] (SMatch (p + 1) sg []) (atomic_skip em p sg)).
      apply (Hyes p b (ds ++ rest) H Lb Pb).
    + rewrite app_nil_r. cbn [List.length]. replace (p + S (List.length ds)) with (p + 1 + List.length ds) by lia.
      apply (IH rest (p + 1) acc F' Fo). change (b :: ds ++ rest) with ([b] ++ (ds ++ rest)) in H. apply (at_advance p [b] _ H).
Qed.

Lemma range_yes lo hi em p sg b rest : skipn p w = b :: rest -> (b < 128)%N -> in_range lo hi b = true ->
  mev Atomic em (ERange lo hi) p sg (SMatch (p + 1) sg []).
Proof.
  intros H L R. pose proof (evals_range G false (fun _ => None) w Atomic em lo hi p sg) as E.
  rewrite (one_char_ascii _ p sg b rest H L), R in E. exact E.
Qed.
Lemma range_no lo hi em p sg rest : skipn p w = rest -> follow (in_range lo hi) rest -> mev Atomic em (ERange lo hi) p sg SFail.
Proof.
  intros H F. pose proof (evals_range G false (fun _ => None) w Atomic em lo hi p sg) as E.
  now rewrite (one_char_follow _ p sg rest H F) in E.
Qed.

(* number = @{ '0'..'9'+ } *)
Theorem lex_number a em ds rest p sg : ds <> [] -> Forall (fun b => (b < 128)%N /\ digitb b = true) ds ->
  follow digitb rest -> skipn p w = ds ++ rest ->
  mev a em (EIdent (nm "number")) p sg (SMatch (p + List.length ds) sg (node_if (tok a em) MNumber p (p + List.length ds) [])).
Proof.
  intros NE F Fo H. destruct ds as [|d ds]; [congruence|]. inversion F as [|? ? [Ld Pd] F']; subst.
  pose proof (evals_call G false (fun _ => None) w a em (nm "number") (mk "number" RAtomic (ERepOnce (ERange 48 57))) p sg
                (SMatch (p + List.length (d :: ds)) sg []) eq_refl eq_refl) as C.
  cbn [rule_mode is_special rty rexpr mk snd fst] in C.
  replace (rule_id G (nm "number")) with (mid MNumber) in C by reflexivity.
  unfold node_if. rewrite app_nil_r in C || idtac. apply C. clear C.
  apply evals_rep_once; [reflexivity|].
  cbn [app] in H.
  pose proof (evals_seq G false (fun _ => None) w Atomic em (ERange 48 57) (ERep (ERange 48 57)) p sg (p + 1) sg [] (p + 1) sg []
                (SMatch (p + List.length (d :: ds)) sg [])) as S.
  cbn [app] in S. apply S; clear S.
  - exact (range_yes 48 57 em p sg d (ds ++ rest) H Ld Pd).
  - apply atomic_skip.
  - assert (H1 : skipn (p + 1) w = ds ++ rest) by (change (d :: ds ++ rest) with ([d] ++ (ds ++ rest)) in H; apply (at_advance p [d] _ H)).
    cbn [List.length]. replace (p + S (List.length ds)) with (p + 1 + List.length ds) by lia.
    destruct ds as [|d2 ds'].
    + cbn [List.length]. rewrite Nat.add_0_r. apply evals_rep. apply (range_no 48 57 em (p + 1) sg rest H1 Fo).
    + inversion F' as [|? ? [Ld2 Pd2] F'']; subst. cbn [app] in H1.
      apply (evals_rep_more G false _ w Atomic em (ERange 48 57) (p + 1) sg (p + 1 + 1) sg []).
      * exact (range_yes 48 57 em (p + 1) sg d2 (ds' ++ rest) H1 Ld2 Pd2).
      * cbn [List.length]. replace (p + 1 + S (List.length ds')) with (p + 1 + 1 + List.length ds') by lia.
        apply (class_star digitb (ERange 48 57) em sg (fun p0 b0 r0 => range_yes 48 57 em p0 sg b0 r0) (fun p0 r0 => range_no 48 57 em p0 sg r0) ds' rest (p + 1 + 1) [] F'' Fo).
        change (d2 :: ds' ++ rest) with ([d2] ++ (ds' ++ rest)) in H1. apply (at_advance (p + 1) [d2] _ H1).
Qed.

(* ---- expressions that recognise exactly one ASCII character of a class (in an atomic rule) ---- *)
Definition recognises (P : byte -> bool) (x : expr) : Prop :=
  forall em sg,
  (forall p b rest, skipn p w = b :: rest -> (b < 128)%N -> P b = true -> mev Atomic em x p sg (SMatch (p + 1) sg [])) /\
  (forall p rest, skipn p w = rest -> follow P rest -> mev Atomic em x p sg SFail).

Lemma rec_range lo hi : recognises (in_range lo hi) (ERange lo hi).
Proof. intros em sg. split; [intros p b rest; apply range_yes|intros p rest; apply range_no]. Qed.

Lemma rec_char (c : byte) : (c < 128)%N -> recognises (N.eqb c) (EStr [c]).
Proof.
  intros Lc em sg. split.
  - intros p b rest H Lb E. apply N.eqb_eq in E. subst b.
    pose proof (evals_str G false (fun _ => None) w Atomic em [c] p sg) as X.
    change (c :: rest) with ([c] ++ rest) in H. now rewrite (lit_here p [c] rest H) in X.
  - intros p rest H F. pose proof (evals_str G false (fun _ => None) w Atomic em [c] p sg) as X.
    rewrite (lit_not p [c] rest H) in X; [exact X|].
    destruct rest as [|b r]; [reflexivity|]. destruct F as [_ F]. cbn. now rewrite F.
Qed.

Lemma follow_or_l P Q rest : follow (fun b => P b || Q b) rest -> follow P rest.
Proof. destruct rest as [|b r]; [auto|]. intros [L H]. apply orb_false_iff in H. destruct H. split; assumption. Qed.
Lemma follow_or_r P Q rest : follow (fun b => P b || Q b) rest -> follow Q rest.
Proof. destruct rest as [|b r]; [auto|]. intros [L H]. apply orb_false_iff in H. destruct H. split; assumption. Qed.

Lemma rec_choice P Q x y : recognises P x -> recognises Q y -> recognises (fun b => P b || Q b) (EChoice x y).
Proof.
  intros HP HQ em sg. destruct (HP em sg) as [Py Pn]. destruct (HQ em sg) as [Qy Qn]. split.
  - intros p b rest H L E. destruct (P b) eqn:EP.
    + apply evals_choice_l. now apply (Py p b rest).
    + apply evals_choice_r; [apply (Pn p (b :: rest) H); split; auto|]. cbn in E. now apply (Qy p b rest).
  - intros p rest H F. apply evals_choice_r; [apply (Pn p rest H); now apply follow_or_l in F|apply (Qn p rest H); now apply follow_or_r in F].
Qed.

Lemma rec_ext P Q x : (forall b, P b = Q b) -> recognises P x -> recognises Q x.
Proof.
  intros E H em sg. destruct (H em sg) as [Y N]. split.
  - intros p b rest Hs L Qb. apply (Y p b rest Hs L). now rewrite E.
  - intros p rest Hs F. apply (N p rest Hs). destruct rest as [|b r]; [exact I|]. destruct F as [L F]. split; [exact L|now rewrite E].
Qed.

(* a silent rule whose body recognises P *)
Lemma rec_silent P nme body : plain_name nme = true -> is_special nme = false ->
  find_rule G nme = Some {| rname := nme; rty := RSilent; rexpr := body |} -> recognises P body -> recognises P (EIdent nme).
Proof.
  intros PN SP FR H em sg. destruct (H em sg) as [Y N]. split.
  - intros p b rest Hs L Pb.
    pose proof (evals_call G false (fun _ => None) w Atomic em nme _ p sg (SMatch (p + 1) sg []) PN FR) as C.
    cbn [rule_mode rty rexpr snd fst] in C. rewrite SP in C. cbn [snd fst] in C. apply C. now apply (Y p b rest).
  - intros p rest Hs F.
    pose proof (evals_call G false (fun _ => None) w Atomic em nme _ p sg SFail PN FR) as C.
    cbn [rule_mode rty rexpr snd fst] in C. rewrite SP in C. cbn [snd fst] in C. apply C. now apply (N p rest).
Qed.

Definition alphab (b : byte) : bool := in_range 97 122 b || in_range 65 90 b.
Lemma rec_alpha : recognises alphab (EIdent (nm "alpha")).
Proof.
  apply (rec_silent alphab (nm "alpha") (chol (ERange 97 122) [ERange 65 90])); try reflexivity.
  apply rec_choice; apply rec_range.
Qed.
Definition alnumb (b : byte) : bool := alphab b || in_range 48 57 b.
Lemma rec_alpha_num : recognises alnumb (EIdent (nm "alpha_num")).
Proof.
  apply (rec_silent alnumb (nm "alpha_num") (chol (Rf "alpha") [ERange 48 57])); try reflexivity.
  apply rec_choice; [apply rec_alpha|apply rec_range].
Qed.
Lemma rec_ident_start : recognises ident_start (EChoice (EStr (nm "_")) (EIdent (nm "alpha"))).
Proof.
  apply (rec_ext (fun b => N.eqb 95%N b || alphab b)).
  - intros b. unfold ident_start, alphab, in_range. rewrite (N.eqb_sym 95%N b). now rewrite orb_assoc.
  - apply rec_choice; [apply (rec_char 95%N); reflexivity|apply rec_alpha].
Qed.
Lemma rec_ident_char : recognises ident_char (EChoice (EStr (nm "_")) (EIdent (nm "alpha_num"))).
Proof.
  apply (rec_ext (fun b => N.eqb 95%N b || alnumb b)).
  - intros b. unfold ident_char, ident_start, alnumb, alphab, in_range. rewrite (N.eqb_sym 95%N b). now rewrite !orb_assoc.
  - apply rec_choice; [apply (rec_char 95%N); reflexivity|apply rec_alpha_num].
Qed.

Lemma ident_char_ascii b : ident_char b = true -> (b < 128)%N.
Proof.
  unfold ident_char, ident_start. intros H.
  repeat (apply orb_prop in H; destruct H as [H|H]); try (apply andb_prop in H; destruct H as [H1 H2]);
    try apply N.eqb_eq in H; try apply N.leb_le in H1; try apply N.leb_le in H2; lia.
Qed.
Lemma ident_start_char b : ident_start b = true -> ident_char b = true.
Proof. unfold ident_char. intros ->. reflexivity. Qed.

Lemma star_of_class P x em sg ds rest p acc : recognises P x ->
  Forall (fun b => (b < 128)%N /\ P b = true) ds -> follow P rest -> skipn p w = ds ++ rest ->
  mreps Atomic em x p sg acc (SMatch (p + List.length ds) sg acc).
Proof. intros H. destruct (H em sg) as [Y N]. apply (class_star P x em sg Y N). Qed.

Lemma no_push n rest : n <> [] -> prefixb (nm "PUSH") n = false -> follow ident_char rest -> prefixb (nm "PUSH") (n ++ rest) = false.
Proof.
  intros NE NP F. destruct (prefixb (nm "PUSH") (n ++ rest)) eqn:E; [|reflexivity]. exfalso.
  destruct n as [|a [|b [|c [|d n']]]]; [congruence| | | |].
  - cbn in E. apply andb_prop in E. destruct E as [_ E]. destruct rest as [|x r]; [discriminate|]. apply andb_prop in E. destruct E as [E _].
    apply N.eqb_eq in E. subst x. destruct F as [_ F]. discriminate.
  - cbn in E. apply andb_prop in E. destruct E as [_ E]. apply andb_prop in E. destruct E as [_ E].
    destruct rest as [|x r]; [discriminate|]. apply andb_prop in E. destruct E as [E _].
    apply N.eqb_eq in E. subst x. destruct F as [_ F]. discriminate.
  - cbn in E. apply andb_prop in E. destruct E as [_ E]. apply andb_prop in E. destruct E as [_ E]. apply andb_prop in E. destruct E as [_ E].
    destruct rest as [|x r]; [discriminate|]. apply andb_prop in E. destruct E as [E _].
    apply N.eqb_eq in E. subst x. destruct F as [_ F]. discriminate.
  - cbn in E, NP. apply andb_prop in E. destruct E as [E1 E]. apply andb_prop in E. destruct E as [E2 E].
    apply andb_prop in E. destruct E as [E3 E]. apply andb_prop in E. destruct E as [E4 _].
    rewrite E1, E2, E3, E4 in NP. discriminate.
Qed.

(* identifier = @{ !"PUSH" ~ ("_" | alpha) ~ ("_" | alpha_num)* } *)
Theorem lex_identifier a em n rest p sg : ident_ok n = true -> follow ident_char rest -> skipn p w = n ++ rest ->
  mev a em (EIdent (nm "identifier")) p sg
      (SMatch (p + List.length n) sg (node_if (tok a em) MIdentifier p (p + List.length n) [])).
Proof.
  intros OK Fo H. unfold ident_ok in OK. apply andb_prop in OK. destruct OK as [TO NP]. apply negb_true_iff in NP.
  destruct n as [|b r]; [discriminate|]. cbn [tag_ok] in TO. apply andb_prop in TO. destruct TO as [Sb Fr].
  pose proof (evals_call G false (fun _ => None) w a em (nm "identifier")
                (mk "identifier" RAtomic (seql (ENegPred (Lt "PUSH")) [chol (Lt "_") [Rf "alpha"]; ERep (chol (Lt "_") [Rf "alpha_num"])]))
                p sg (SMatch (p + List.length (b :: r)) sg []) eq_refl eq_refl) as C.
  cbn [rule_mode is_special rty rexpr mk snd fst] in C.
  replace (rule_id G (nm "identifier")) with (mid MIdentifier) in C by reflexivity.
  unfold node_if. apply C. clear C. unfold seql, chol, Lt, Rf. cbn [fold_left].
  (* (!"PUSH" ~ first) ~ rest* *)
  assert (H1 : skipn (p + 1) w = r ++ rest) by (change ((b :: r) ++ rest) with ([b] ++ (r ++ rest)) in H; apply (at_advance p [b] _ H)).
  pose proof (evals_seq G false (fun _ => None) w Atomic em
                (ESeq (ENegPred (EStr (nm "PUSH"))) (EChoice (EStr (nm "_")) (EIdent (nm "alpha"))))
                (ERep (EChoice (EStr (nm "_")) (EIdent (nm "alpha_num")))) p sg (p + 1) sg [] (p + 1) sg []
                (SMatch (p + List.length (b :: r)) sg [])) as S. cbn [app] in S. apply S; clear S.
  - pose proof (evals_seq G false (fun _ => None) w Atomic em (ENegPred (EStr (nm "PUSH"))) (EChoice (EStr (nm "_")) (EIdent (nm "alpha")))
                  p sg p sg [] p sg [] (SMatch (p + 1) sg [])) as S. cbn [app] in S. apply S; clear S.
    + pose proof (evals_neg G false (fun _ => None) w Atomic em (EStr (nm "PUSH")) p sg SFail) as Ng. cbn in Ng. apply Ng.
      pose proof (evals_str G false (fun _ => None) w Atomic false (nm "PUSH") p sg) as X.
      rewrite (lit_not p (nm "PUSH") _ H (no_push (b :: r) rest ltac:(discriminate) NP Fo)) in X. exact X.
    + apply atomic_skip.
    + destruct (rec_ident_start em sg) as [Y _]. apply (Y p b (r ++ rest) H); [apply ident_char_ascii; now apply ident_start_char|exact Sb].
  - apply atomic_skip.
  - assert (Fr' : Forall (fun b0 => (b0 < 128)%N /\ ident_char b0 = true) r).
    { rewrite forallb_forall in Fr. apply Forall_forall. intros x Hx. split; [apply ident_char_ascii|]; now apply Fr. }
    cbn [List.length]. replace (p + S (List.length r)) with (p + 1 + List.length r) by lia.
    destruct r as [|c r'].
    + cbn [List.length]. rewrite Nat.add_0_r. apply evals_rep. destruct (rec_ident_char em sg) as [_ N]. apply (N (p + 1) rest H1 Fo).
    + inversion Fr' as [|? ? [Lc Pc] Fr'']; subst. cbn [app] in H1.
      apply (evals_rep_more G false _ w Atomic em _ (p + 1) sg (p + 1 + 1) sg []).
      * destruct (rec_ident_char em sg) as [Y _]. apply (Y (p + 1) c (r' ++ rest) H1 Lc Pc).
      * cbn [List.length]. replace (p + 1 + S (List.length r')) with (p + 1 + 1 + List.length r') by lia.
        apply (star_of_class ident_char _ em sg r' rest (p + 1 + 1) [] rec_ident_char Fr'' Fo).
        change (c :: r' ++ rest) with ([c] ++ (r' ++ rest)) in H1. apply (at_advance (p + 1) [c] _ H1).
Qed.

Lemma tok_atomic em : tok Atomic em = false.
Proof. now destruct em. Qed.

(* a non-special rule called in an atomic context produces no node and runs its body atomically *)
Lemma call_atomic em nme r p sg res : plain_name nme = true -> is_special nme = false -> find_rule G nme = Some r ->
  match rty r with RSilent | RAtomic | RNormal => True | _ => False end ->
  mev Atomic em (rexpr r) p sg res -> mev Atomic em (EIdent nme) p sg res.
Proof.
  intros PN SP FR K H.
  pose proof (evals_call G false (fun _ => None) w Atomic em nme r p sg res PN FR) as C.
  rewrite SP in C. destruct (rty r); try tauto; cbn [rule_mode snd fst] in C;
    rewrite ?tok_atomic in C; specialize (C H); destruct res; exact C.
Qed.

Lemma rec_rule P nme r : plain_name nme = true -> is_special nme = false -> find_rule G nme = Some r ->
  match rty r with RSilent | RAtomic | RNormal => True | _ => False end -> recognises P (rexpr r) -> recognises P (EIdent nme).
Proof.
  intros PN SP FR K H em sg. destruct (H em sg) as [Y N]. split.
  - intros p b rest Hs L Pb. apply (call_atomic em nme r p sg _ PN SP FR K). now apply (Y p b rest).
  - intros p rest Hs F. apply (call_atomic em nme r p sg _ PN SP FR K). now apply (N p rest).
Qed.

(* tag_id = @{ "#" ~ ("_" | alpha) ~ ("_" | alpha_num)* } *)
Theorem lex_tag_id a em t rest p sg : tag_ok t = true -> follow ident_char rest -> skipn p w = 35%N :: t ++ rest ->
  mev a em (EIdent (nm "tag_id")) p sg
      (SMatch (p + S (List.length t)) sg (node_if (tok a em) MTagId p (p + S (List.length t)) [])).
Proof.
  intros TO Fo H. destruct t as [|b r]; [discriminate|]. cbn [tag_ok] in TO. apply andb_prop in TO. destruct TO as [Sb Fr].
  pose proof (evals_call G false (fun _ => None) w a em (nm "tag_id")
                (mk "tag_id" RAtomic (seql (Lt "#") [chol (Lt "_") [Rf "alpha"]; ERep (chol (Lt "_") [Rf "alpha_num"])]))
                p sg (SMatch (p + S (List.length (b :: r))) sg []) eq_refl eq_refl) as C.
  cbn [rule_mode is_special rty rexpr mk snd fst] in C.
  replace (rule_id G (nm "tag_id")) with (mid MTagId) in C by reflexivity.
  unfold node_if. apply C. clear C. unfold seql, chol, Lt, Rf. cbn [fold_left].
  assert (H0 : skipn (p + 1) w = (b :: r) ++ rest) by (change (35%N :: (b :: r) ++ rest) with ([35%N] ++ ((b :: r) ++ rest)) in H; apply (at_advance p [35%N] _ H)).
  assert (H1 : skipn (p + 1 + 1) w = r ++ rest) by (change ((b :: r) ++ rest) with ([b] ++ (r ++ rest)) in H0; apply (at_advance (p + 1) [b] _ H0)).
  pose proof (evals_seq G false (fun _ => None) w Atomic em
                (ESeq (EStr (nm "#")) (EChoice (EStr (nm "_")) (EIdent (nm "alpha"))))
                (ERep (EChoice (EStr (nm "_")) (EIdent (nm "alpha_num")))) p sg (p + 1 + 1) sg [] (p + 1 + 1) sg []
                (SMatch (p + S (List.length (b :: r))) sg [])) as S. cbn [app] in S. apply S; clear S.
  - pose proof (evals_seq G false (fun _ => None) w Atomic em (EStr (nm "#")) (EChoice (EStr (nm "_")) (EIdent (nm "alpha")))
                  p sg (p + 1) sg [] (p + 1) sg [] (SMatch (p + 1 + 1) sg [])) as S. cbn [app] in S. apply S; clear S.
    + pose proof (evals_str G false (fun _ => None) w Atomic em (nm "#") p sg) as X.
      change (35%N :: (b :: r) ++ rest) with (nm "#" ++ ((b :: r) ++ rest)) in H. now rewrite (lit_here p (nm "#") _ H) in X.
    + apply atomic_skip.
    + destruct (rec_ident_start em sg) as [Y _]. apply (Y (p + 1) b (r ++ rest) H0); [apply ident_char_ascii; now apply ident_start_char|exact Sb].
  - apply atomic_skip.
  - assert (Fr' : Forall (fun b0 => (b0 < 128)%N /\ ident_char b0 = true) r).
    { rewrite forallb_forall in Fr. apply Forall_forall. intros x Hx. split; [apply ident_char_ascii|]; now apply Fr. }
    apply evals_rep_atomic; [reflexivity|].
    cbn [List.length]. replace (p + S (S (List.length r))) with (p + 1 + 1 + List.length r) by lia.
    apply (star_of_class ident_char _ em sg r rest (p + 1 + 1) [] rec_ident_char Fr' Fo H1).
Qed.

(* ---- integer = @{ number | "-" ~ "0"* ~ '1'..'9' ~ number? } ---- *)
Definition is_digit (b : byte) : Prop := (b < 128)%N /\ digitb b = true.

Lemma decval_digit b d : decval b = Some d -> is_digit b.
Proof.
  unfold decval, is_digit, digitb, in_range. destruct ((48 <=? b)%N && (b <=? 57)%N) eqn:E; [|discriminate]. intros _.
  split; [|reflexivity]. apply andb_prop in E. destruct E as [_ E]. apply N.leb_le in E. lia.
Qed.
Lemma spells_num_digits n l : spells_num n l -> l <> [] /\ Forall is_digit l.
Proof.
  intros S. split.
  - destruct (LexProofs.spells_nat_head _ _ _ _ S) as (b & d & r & -> & _). discriminate.
  - eapply Forall_impl; [|exact (LexProofs.spells_nat_all _ _ _ _ S)]. intros b (d & Hd). now apply (decval_digit b d).
Qed.
Lemma zeros_val zs acc : Forall (fun b => b = 48%N) zs -> digits_val 10 decval zs acc = Some (acc * 10 ^ N.of_nat (List.length zs))%N.
Proof.
  intros F. revert acc. induction F as [|b zs -> _ IH]; intros acc.
  - cbn. f_equal. lia.
  - cbn [digits_val List.length]. replace (decval 48%N) with (Some 0%N) by reflexivity. rewrite IH. f_equal.
    rewrite Nat2N.inj_succ, N.pow_succ_r'. lia.
Qed.
(* a numeral of a positive number: zeros, a non-zero digit, digits *)
Lemma positive_numeral l : Forall is_digit l -> (forall v, digits_val 10 decval l 0 = Some v -> v <> 0%N) ->
  exists zs d ds, l = zs ++ d :: ds /\ Forall (fun b => b = 48%N) zs /\ is_digit d /\ in_range 49 57 d = true /\ Forall is_digit ds.
Proof.
  induction 1 as [|b l Hb Hl IH]; intros NZ.
  - exfalso. now apply (NZ 0%N).
  - destruct (N.eq_dec b 48%N) as [->|Hne].
    + destruct IH as (zs & d & ds & -> & Z & D & R & Ds).
      * intros v Hv. apply (NZ v). cbn [digits_val]. replace (decval 48%N) with (Some 0%N) by reflexivity. exact Hv.
      * exists (48%N :: zs), d, ds. split; [reflexivity|]. split; [constructor; auto|]. split; [exact D|]. split; [exact R|exact Ds].
    + exists [], b, l. split; [reflexivity|]. split; [constructor|]. split; [exact Hb|]. split; [|exact Hl]. destruct Hb as [L D]. unfold digitb, in_range in *. apply andb_prop in D. destruct D as [D1 D2].
      apply N.leb_le in D1, D2. apply andb_true_intro. split; apply N.leb_le; lia.
Qed.

Definition zerob (b : byte) : bool := N.eqb 48%N b.

Theorem lex_integer a em z l rest p sg : spells_int z l -> follow digitb rest -> skipn p w = l ++ rest ->
  mev a em (EIdent (nm "integer")) p sg (SMatch (p + List.length l) sg (node_if (tok a em) MInteger p (p + List.length l) [])).
Proof.
  intros S Fo H.
  pose proof (evals_call G false (fun _ => None) w a em (nm "integer")
                (mk "integer" RAtomic (chol (Rf "number") [seql (Lt "-") [ERep (Lt "0"); ERange 49 57; EOpt (Rf "number")]]))
                p sg (SMatch (p + List.length l) sg []) eq_refl eq_refl) as C.
  cbn [rule_mode is_special rty rexpr mk snd fst] in C.
  replace (rule_id G (nm "integer")) with (mid MInteger) in C by reflexivity.
  unfold node_if. apply C. clear C. unfold seql, chol, Lt, Rf. cbn [fold_left].
  destruct S as [[Hz S]|[Hz (l' & -> & S)]].
  - (* a plain number *)
    destruct (spells_num_digits _ _ S) as [NE F]. apply evals_choice_l.
    pose proof (lex_number Atomic em l rest p sg NE F Fo H) as X. unfold node_if in X. now rewrite tok_atomic in X.
  - (* -0*[1-9]number? *)
    destruct (spells_num_digits _ _ S) as [NE F].
    destruct (positive_numeral l' F) as (zs & d & ds & -> & Z & D & R & Ds).
    { intros v Hv. rewrite (LexProofs.spells_nat_val _ _ _ _ S) in Hv. inversion Hv. lia. }
    apply evals_choice_r.
    + (* number fails on the minus sign *)
      apply (call_atomic em (nm "number") (mk "number" RAtomic (ERepOnce (ERange 48 57))) p sg SFail); try reflexivity.
      cbn [rexpr mk]. apply evals_rep_once; [reflexivity|]. apply evals_seq_fail.
      apply (range_no 48 57 em p sg _ H). cbn. split; [lia|reflexivity].
    + assert (H0 : skipn (p + 1) w = zs ++ d :: ds ++ rest).
      { change ((45%N :: zs ++ d :: ds) ++ rest) with ([45%N] ++ ((zs ++ d :: ds) ++ rest)) in H. rewrite <- app_assoc in H. apply (at_advance p [45%N] _ H). }
      assert (H1 : skipn (p + 1 + List.length zs) w = d :: ds ++ rest) by apply (at_advance (p + 1) zs _ H0).
      assert (H2 : skipn (p + 1 + List.length zs + 1) w = ds ++ rest).
      { change (d :: ds ++ rest) with ([d] ++ (ds ++ rest)) in H1. apply (at_advance _ [d] _ H1). }
      set (q := p + 1 + List.length zs + 1).
      assert (Len : p + List.length (45%N :: zs ++ d :: ds) = q + List.length ds).
      { unfold q. cbn [List.length]. rewrite app_length. cbn [List.length]. lia. }
      unfold byte in *. rewrite Len.
      pose proof (evals_seq G false (fun _ => None) w Atomic em
                    (ESeq (ESeq (EStr (nm "-")) (ERep (EStr (nm "0")))) (ERange 49 57)) (EOpt (EIdent (nm "number")))
                    p sg q sg [] q sg [] (SMatch (q + List.length ds) sg [])) as S3. cbn [app] in S3. apply S3; clear S3.
      * pose proof (evals_seq G false (fun _ => None) w Atomic em (ESeq (EStr (nm "-")) (ERep (EStr (nm "0")))) (ERange 49 57)
                      p sg (p + 1 + List.length zs) sg [] (p + 1 + List.length zs) sg [] (SMatch q sg [])) as S2. cbn [app] in S2. apply S2; clear S2.
        -- pose proof (evals_seq G false (fun _ => None) w Atomic em (EStr (nm "-")) (ERep (EStr (nm "0")))
                         p sg (p + 1) sg [] (p + 1) sg [] (SMatch (p + 1 + List.length zs) sg [])) as S1. cbn [app] in S1. apply S1; clear S1.
           ++ pose proof (evals_str G false (fun _ => None) w Atomic em (nm "-") p sg) as X.
              change ((45%N :: zs ++ d :: ds) ++ rest) with (nm "-" ++ ((zs ++ d :: ds) ++ rest)) in H. now rewrite (lit_here p (nm "-") _ H) in X.
           ++ apply atomic_skip.
           ++ apply evals_rep_atomic; [reflexivity|].
              apply (star_of_class zerob (EStr (nm "0")) em sg zs (d :: ds ++ rest) (p + 1) [] (rec_char 48%N ltac:(reflexivity))); [| |exact H0].
              ** eapply Forall_impl; [|exact Z]. intros b ->. split; [lia|reflexivity].
              ** destruct D as [Ld _]. split; [exact Ld|]. unfold zerob. apply N.eqb_neq. intros <-. discriminate.
        -- apply atomic_skip.
        -- destruct D as [Ld _]. apply (range_yes 49 57 em _ sg d (ds ++ rest) H1 Ld R).
      * apply atomic_skip.
      * destruct ds as [|d2 ds'].
        -- cbn [List.length]. rewrite Nat.add_0_r.
           pose proof (evals_opt G false (fun _ => None) w Atomic em (EIdent (nm "number")) q sg SFail) as O. cbn in O. apply O.
           apply (call_atomic em (nm "number") (mk "number" RAtomic (ERepOnce (ERange 48 57))) q sg SFail); try reflexivity.
           cbn [rexpr mk]. apply evals_rep_once; [reflexivity|]. apply evals_seq_fail. apply (range_no 48 57 em q sg _ H2 Fo).
        -- pose proof (evals_opt G false (fun _ => None) w Atomic em (EIdent (nm "number")) q sg (SMatch (q + List.length (d2 :: ds')) sg [])) as O.
           cbn in O. apply O.
           pose proof (lex_number Atomic em (d2 :: ds') rest q sg ltac:(discriminate) Ds Fo H2) as X. unfold node_if in X. now rewrite tok_atomic in X.
Qed.

(* ---- WHITESPACE and COMMENT, as the implicit skipping calls them ---- *)
Lemma call_special em nme r p sg res : plain_name nme = true -> is_special nme = true -> find_rule G nme = Some r ->
  rty r = RSilent -> mev Atomic em (rexpr r) p sg res -> mev NonAtomic em (EIdent nme) p sg res.
Proof.
  intros PN SP FR K H.
  pose proof (evals_call G false (fun _ => None) w NonAtomic em nme r p sg res PN FR) as C.
  rewrite SP, K in C. cbn [rule_mode snd fst] in C. specialize (C H). destruct res; exact C.
Qed.

Lemma str_yes a em s p sg rest : skipn p w = s ++ rest -> mev a em (EStr s) p sg (SMatch (p + List.length s) sg []).
Proof. intros H. pose proof (evals_str G false (fun _ => None) w a em s p sg) as X. now rewrite (lit_here p s rest H) in X. Qed.
Lemma str_no a em s p sg l : skipn p w = l -> prefixb s l = false -> mev a em (EStr s) p sg SFail.
Proof. intros H F. pose proof (evals_str G false (fun _ => None) w a em s p sg) as X. now rewrite (lit_not p s l H F) in X. Qed.

Definition ws_body : expr := chol (Lt " ") [EStr [9%N]; Rf "newline"].
Definition nl_body : expr := chol (EStr [10%N]) [EStr [13%N; 10%N]].

Lemma newline_yes em p sg a rest : (a = [10%N] \/ a = [13%N; 10%N]) -> skipn p w = a ++ rest ->
  mev Atomic em (EIdent (nm "newline")) p sg (SMatch (p + List.length a) sg []).
Proof.
  intros Ha H. apply (call_atomic em (nm "newline") (mk "newline" RSilent nl_body) p sg _); try reflexivity.
  cbn [rexpr mk]. unfold nl_body, chol. cbn [fold_left]. destruct Ha as [->| ->].
  - apply evals_choice_l. apply (str_yes Atomic em [10%N] p sg rest H).
  - apply evals_choice_r; [apply (str_no Atomic em [10%N] p sg _ H); reflexivity|]. apply (str_yes Atomic em [13%N; 10%N] p sg rest H).
Qed.
Lemma newline_no em p sg l : skipn p w = l -> prefixb [10%N] l = false -> prefixb [13%N; 10%N] l = false ->
  mev Atomic em (EIdent (nm "newline")) p sg SFail.
Proof.
  intros H F1 F2. apply (call_atomic em (nm "newline") (mk "newline" RSilent nl_body) p sg _); try reflexivity.
  cbn [rexpr mk]. unfold nl_body, chol. cbn [fold_left].
  apply evals_choice_r; [apply (str_no Atomic em _ p sg l H F1)|apply (str_no Atomic em _ p sg l H F2)].
Qed.

Lemma ws_yes em p sg a rest : white a -> skipn p w = a ++ rest ->
  mev NonAtomic em (EIdent (nm "WHITESPACE")) p sg (SMatch (p + List.length a) sg []).
Proof.
  intros Wa H. apply (call_special em (nm "WHITESPACE") (mk "WHITESPACE" RSilent ws_body) p sg _); try reflexivity.
  cbn [rexpr mk]. unfold ws_body, chol, Lt. cbn [fold_left]. destruct Wa.
  - apply evals_choice_l. apply evals_choice_l. apply (str_yes Atomic em (nm " ") p sg rest H).
  - apply evals_choice_l. apply evals_choice_r; [apply (str_no Atomic em _ p sg _ H); reflexivity|]. apply (str_yes Atomic em [9%N] p sg rest H).
  - apply evals_choice_r.
    + apply evals_choice_r; apply (str_no Atomic em _ p sg _ H); reflexivity.
    + apply (newline_yes em p sg [10%N] rest (or_introl eq_refl) H).
  - apply evals_choice_r.
    + apply evals_choice_r; apply (str_no Atomic em _ p sg _ H); reflexivity.
    + apply (newline_yes em p sg [13%N; 10%N] rest (or_intror eq_refl) H).
Qed.

Definition no_white (l : list byte) : Prop :=
  prefixb [32%N] l = false /\ prefixb [9%N] l = false /\ prefixb [10%N] l = false /\ prefixb [13%N; 10%N] l = false.
Lemma ws_no em p sg l : no_white l -> skipn p w = l -> mev NonAtomic em (EIdent (nm "WHITESPACE")) p sg SFail.
Proof.
  intros (F1 & F2 & F3 & F4) H. apply (call_special em (nm "WHITESPACE") (mk "WHITESPACE" RSilent ws_body) p sg _); try reflexivity.
  cbn [rexpr mk]. unfold ws_body, chol, Lt. cbn [fold_left].
  apply evals_choice_r; [apply evals_choice_r; [apply (str_no Atomic em _ p sg l H F1)|apply (str_no Atomic em _ p sg l H F2)]|].
  apply (newline_no em p sg l H F3 F4).
Qed.

(* ---- comments ---- *)
Definition bc_unit : expr := chol (Rf "block_comment") [seql (ENegPred (Lt "*/")) [Rf "ANY"]].
Definition bc_body : expr := seql (Lt "/*") [ERep bc_unit; Lt "*/"].
Definition lc_body : expr := seql (Lt "//") [ENegPred (chol (Lt "/") [Lt "!"]); ERep (seql (ENegPred (Rf "newline")) [Rf "ANY"])].

Lemma any_char em p sg c rest : scalar c -> skipn p w = encode c ++ rest ->
  mev Atomic em (EIdent (nm "ANY")) p sg (SMatch (p + List.length (encode c)) sg []).
Proof.
  intros Sc H. pose proof (evals_any G false (fun _ => None) w Atomic em p sg) as X.
  unfold one_char, char_here in X. rewrite H, (decode1_encode c rest (scalar_lt c Sc)) in X. exact X.
Qed.

Lemma prefixb_starts s l : prefixb s l = true <-> starts_with s l.
Proof.
  revert l. induction s as [|b s IH]; intros l; cbn.
  - split; [intros _; now exists l|auto].
  - destruct l as [|x l]; [split; [discriminate|intros (r & E); discriminate]|].
    split.
    + intros H. apply andb_prop in H. destruct H as [E H]. apply N.eqb_eq in E. subst x. apply IH in H. destruct H as (r & ->). now exists r.
    + intros (r & E). inversion E; subst. rewrite N.eqb_refl. apply IH. now exists r.
Qed.
Lemma not_starts s l : ~ starts_with s l -> prefixb s l = false.
Proof. intros H. destruct (prefixb s l) eqn:E; [|reflexivity]. apply prefixb_starts in E. contradiction. Qed.
(* a two-byte prefix is decided by any extension of a list that already has two bytes *)
Lemma starts2_app (x y : byte) l r : 2 <= List.length l -> starts_with [x; y] (l ++ r) -> starts_with [x; y] l.
Proof.
  destruct l as [|a [|b l']]; cbn [List.length]; try lia. intros _ (t & E). cbn in E. inversion E; subst. now exists l'.
Qed.

Scheme bc_mut := Induction for block_comment Sort Prop
  with bb_mut := Induction for block_body Sort Prop.

Lemma block_comment_lex :
  (forall a, block_comment a -> forall em p sg rest, skipn p w = a ++ rest ->
     mev Atomic em (EIdent (nm "block_comment")) p sg (SMatch (p + List.length a) sg [])) /\
  (forall b, block_body b -> forall em p sg rest acc, skipn p w = b ++ [42%N; 47%N] ++ rest ->
     mreps Atomic em bc_unit p sg acc (SMatch (p + List.length b) sg acc)).
Proof.
  assert (Call : forall em p sg res, mev Atomic em bc_body p sg res -> mev Atomic em (EIdent (nm "block_comment")) p sg res).
  { intros em p sg res H. apply (call_atomic em (nm "block_comment") (mk "block_comment" RSilent bc_body) p sg res); try reflexivity. exact H. }
  split.
  - (* comment *)
    intros a Ha. induction Ha using bc_mut with
      (P0 := fun b _ => forall em p sg rest acc, skipn p w = b ++ [42%N; 47%N] ++ rest -> mreps Atomic em bc_unit p sg acc (SMatch (p + List.length b) sg acc)).
    + (* bc_intro *) intros em p sg rest H. apply Call. unfold bc_body, seql, Lt. cbn [fold_left].
      rewrite <- !app_assoc in H. cbn [app] in H.
      assert (H0 : skipn (p + 2) w = body ++ [42%N; 47%N] ++ rest) by (change (47%N :: 42%N :: body ++ 42%N :: 47%N :: rest) with ([47%N; 42%N] ++ (body ++ [42%N; 47%N] ++ rest)) in H; apply (at_advance p [47%N; 42%N] _ H)).
      assert (H1 : skipn (p + 2 + List.length body) w = [42%N; 47%N] ++ rest) by apply (at_advance (p + 2) body _ H0).
      assert (Len : p + List.length ([47%N; 42%N] ++ body ++ [42%N; 47%N]) = p + 2 + List.length body + 2)
        by (rewrite !app_length; cbn [List.length]; lia).
      unfold byte in *. rewrite Len.
      pose proof (evals_seq G false (fun _ => None) w Atomic em (ESeq (EStr (nm "/*")) (ERep bc_unit)) (EStr (nm "*/"))
                    p sg (p + 2 + List.length body) sg [] (p + 2 + List.length body) sg [] (SMatch (p + 2 + List.length body + 2) sg [])) as S2.
      cbn [app] in S2. apply S2; clear S2.
      * pose proof (evals_seq G false (fun _ => None) w Atomic em (EStr (nm "/*")) (ERep bc_unit)
                      p sg (p + 2) sg [] (p + 2) sg [] (SMatch (p + 2 + List.length body) sg [])) as S1. cbn [app] in S1. apply S1; clear S1.
        -- change (47%N :: 42%N :: body ++ 42%N :: 47%N :: rest) with (nm "/*" ++ (body ++ 42%N :: 47%N :: rest)) in H.
           apply (str_yes Atomic em (nm "/*") p sg _ H).
        -- apply atomic_skip.
        -- apply evals_rep_atomic; [reflexivity|]. apply (IHHa em (p + 2) sg rest [] H0).
      * apply atomic_skip.
      * apply (str_yes Atomic em (nm "*/") _ sg rest H1).
    + (* bb_nil *) intros em p sg rest acc H. cbn [app List.length] in *. rewrite Nat.add_0_r. apply reps_stop.
      apply (runits_intro G false _ w Atomic em bc_unit p sg p sg [] SFail (atomic_skip em p sg)).
      unfold bc_unit, chol, seql, Rf, Lt. cbn [fold_left]. apply evals_choice_r.
      * apply Call. unfold bc_body, seql, Lt. cbn [fold_left]. apply evals_seq_fail. apply evals_seq_fail.
        apply (str_no Atomic em _ p sg _ H). reflexivity.
      * apply evals_seq_fail.
        pose proof (evals_neg G false (fun _ => None) w Atomic em (EStr (nm "*/")) p sg (SMatch (p + 2) sg [])) as Ng. cbn in Ng. apply Ng.
        change (42%N :: 47%N :: rest) with (nm "*/" ++ rest) in H. apply (str_yes Atomic false (nm "*/") p sg rest H).
    + (* bb_nested *) intros em p sg rest0 acc H. rewrite <- app_assoc in H.
      apply (reps_step G false _ w Atomic em bc_unit p sg acc (p + List.length c) sg []).
      * apply (runits_intro G false _ w Atomic em bc_unit p sg p sg [] (SMatch (p + List.length c) sg []) (atomic_skip em p sg)).
        unfold bc_unit, chol, Rf. cbn [fold_left]. apply evals_choice_l. apply (IHHa em p sg _ H).
      * rewrite app_nil_r, app_length, Nat.add_assoc. apply (IHHa0 em (p + List.length c) sg rest0 acc). apply (at_advance p c _ H).
    + (* bb_char *) intros em p sg rest0 acc H. rewrite <- app_assoc in H.
      pose proof (encode_length ch) as EL.
      assert (L2 : 2 <= List.length (encode ch ++ rest ++ [42%N; 47%N])) by (rewrite !app_length; cbn [List.length]; lia).
      assert (N1 : prefixb (nm "*/") (encode ch ++ (rest ++ [42%N; 47%N] ++ rest0)) = false).
      { apply not_starts. intros X. apply n. apply (starts2_app 42%N 47%N _ rest0 L2). now rewrite <- !app_assoc. }
      assert (N2 : prefixb (nm "/*") (encode ch ++ (rest ++ [42%N; 47%N] ++ rest0)) = false).
      { apply not_starts. intros X. apply n0. apply (starts2_app 47%N 42%N _ rest0 L2). now rewrite <- !app_assoc. }
      apply (reps_step G false _ w Atomic em bc_unit p sg acc (p + List.length (encode ch)) sg []).
      * apply (runits_intro G false _ w Atomic em bc_unit p sg p sg [] (SMatch (p + List.length (encode ch)) sg []) (atomic_skip em p sg)).
        unfold bc_unit, chol, seql, Rf, Lt. cbn [fold_left]. apply evals_choice_r.
        -- apply Call. unfold bc_body, seql, Lt. cbn [fold_left]. apply evals_seq_fail. apply evals_seq_fail.
           apply (str_no Atomic em _ p sg _ H N2).
        -- pose proof (evals_seq G false (fun _ => None) w Atomic em (ENegPred (EStr (nm "*/"))) (EIdent (nm "ANY"))
                         p sg p sg [] p sg [] (SMatch (p + List.length (encode ch)) sg [])) as S1. cbn [app] in S1. apply S1; clear S1.
           ++ pose proof (evals_neg G false (fun _ => None) w Atomic em (EStr (nm "*/")) p sg SFail) as Ng. cbn in Ng. apply Ng.
              apply (str_no Atomic false _ p sg _ H N1).
           ++ apply atomic_skip.
           ++ apply (any_char em p sg ch _ s H).
      * rewrite app_nil_r, app_length, Nat.add_assoc. apply (IHHa em (p + List.length (encode ch)) sg rest0 acc). apply (at_advance p (encode ch) _ H).
  - (* body: the same induction, second component *)
    intros b Hb. induction Hb using bb_mut with
      (P := fun a _ => forall em p sg rest, skipn p w = a ++ rest -> mev Atomic em (EIdent (nm "block_comment")) p sg (SMatch (p + List.length a) sg [])).
    all: try (intros em p sg rest0 acc H).
    + (* bc_intro *) intros em p sg rest H. apply Call. unfold bc_body, seql, Lt. cbn [fold_left].
      rewrite <- !app_assoc in H. cbn [app] in H.
      assert (H0 : skipn (p + 2) w = body ++ [42%N; 47%N] ++ rest) by (change (47%N :: 42%N :: body ++ 42%N :: 47%N :: rest) with ([47%N; 42%N] ++ (body ++ [42%N; 47%N] ++ rest)) in H; apply (at_advance p [47%N; 42%N] _ H)).
      assert (H1 : skipn (p + 2 + List.length body) w = [42%N; 47%N] ++ rest) by apply (at_advance (p + 2) body _ H0).
      assert (Len : p + List.length ([47%N; 42%N] ++ body ++ [42%N; 47%N]) = p + 2 + List.length body + 2)
        by (rewrite !app_length; cbn [List.length]; lia).
      unfold byte in *. rewrite Len.
      pose proof (evals_seq G false (fun _ => None) w Atomic em (ESeq (EStr (nm "/*")) (ERep bc_unit)) (EStr (nm "*/"))
                    p sg (p + 2 + List.length body) sg [] (p + 2 + List.length body) sg [] (SMatch (p + 2 + List.length body + 2) sg [])) as S2.
      cbn [app] in S2. apply S2; clear S2.
      * pose proof (evals_seq G false (fun _ => None) w Atomic em (EStr (nm "/*")) (ERep bc_unit)
                      p sg (p + 2) sg [] (p + 2) sg [] (SMatch (p + 2 + List.length body) sg [])) as S1. cbn [app] in S1. apply S1; clear S1.
        -- change (47%N :: 42%N :: body ++ 42%N :: 47%N :: rest) with (nm "/*" ++ (body ++ 42%N :: 47%N :: rest)) in H.
           apply (str_yes Atomic em (nm "/*") p sg _ H).
        -- apply atomic_skip.
        -- apply evals_rep_atomic; [reflexivity|]. apply (IHHb em (p + 2) sg rest [] H0).
      * apply atomic_skip.
      * apply (str_yes Atomic em (nm "*/") _ sg rest H1).
    + cbn [app List.length] in *. rewrite Nat.add_0_r. apply reps_stop.
      apply (runits_intro G false _ w Atomic em bc_unit p sg p sg [] SFail (atomic_skip em p sg)).
      unfold bc_unit, chol, seql, Rf, Lt. cbn [fold_left]. apply evals_choice_r.
      * apply Call. unfold bc_body, seql, Lt. cbn [fold_left]. apply evals_seq_fail. apply evals_seq_fail.
        apply (str_no Atomic em _ p sg _ H). reflexivity.
      * apply evals_seq_fail.
        pose proof (evals_neg G false (fun _ => None) w Atomic em (EStr (nm "*/")) p sg (SMatch (p + 2) sg [])) as Ng. cbn in Ng. apply Ng.
        change (42%N :: 47%N :: rest0) with (nm "*/" ++ rest0) in H. apply (str_yes Atomic false (nm "*/") p sg rest0 H).
    + rewrite <- app_assoc in H.
      apply (reps_step G false _ w Atomic em bc_unit p sg acc (p + List.length c) sg []).
      * apply (runits_intro G false _ w Atomic em bc_unit p sg p sg [] (SMatch (p + List.length c) sg []) (atomic_skip em p sg)).
        unfold bc_unit, chol, Rf. cbn [fold_left]. apply evals_choice_l. apply (IHHb em p sg _ H).
      * rewrite app_nil_r, app_length, Nat.add_assoc. apply (IHHb0 em (p + List.length c) sg rest0 acc). apply (at_advance p c _ H).
    + rewrite <- app_assoc in H.
      pose proof (encode_length ch) as EL.
      assert (L2 : 2 <= List.length (encode ch ++ rest ++ [42%N; 47%N])) by (rewrite !app_length; cbn [List.length]; lia).
      assert (N1 : prefixb (nm "*/") (encode ch ++ (rest ++ [42%N; 47%N] ++ rest0)) = false).
      { apply not_starts. intros X. apply n. apply (starts2_app 42%N 47%N _ rest0 L2). now rewrite <- !app_assoc. }
      assert (N2 : prefixb (nm "/*") (encode ch ++ (rest ++ [42%N; 47%N] ++ rest0)) = false).
      { apply not_starts. intros X. apply n0. apply (starts2_app 47%N 42%N _ rest0 L2). now rewrite <- !app_assoc. }
      apply (reps_step G false _ w Atomic em bc_unit p sg acc (p + List.length (encode ch)) sg []).
      * apply (runits_intro G false _ w Atomic em bc_unit p sg p sg [] (SMatch (p + List.length (encode ch)) sg []) (atomic_skip em p sg)).
        unfold bc_unit, chol, seql, Rf, Lt. cbn [fold_left]. apply evals_choice_r.
        -- apply Call. unfold bc_body, seql, Lt. cbn [fold_left]. apply evals_seq_fail. apply evals_seq_fail.
           apply (str_no Atomic em _ p sg _ H N2).
        -- pose proof (evals_seq G false (fun _ => None) w Atomic em (ENegPred (EStr (nm "*/"))) (EIdent (nm "ANY"))
                         p sg p sg [] p sg [] (SMatch (p + List.length (encode ch)) sg [])) as S1. cbn [app] in S1. apply S1; clear S1.
           ++ pose proof (evals_neg G false (fun _ => None) w Atomic em (EStr (nm "*/")) p sg SFail) as Ng. cbn in Ng. apply Ng.
              apply (str_no Atomic false _ p sg _ H N1).
           ++ apply atomic_skip.
           ++ apply (any_char em p sg ch _ s H).
      * rewrite app_nil_r, app_length, Nat.add_assoc. apply (IHHb em (p + List.length (encode ch)) sg rest0 acc). apply (at_advance p (encode ch) _ H).
Qed.

Lemma first_byte_ne c (x : byte) l : scalar c -> (x < 128)%N -> c <> x -> prefixb [x] (encode c ++ l) = false.
Proof.
  intros Sc Lx Ne. unfold encode.
  destruct (c <? 128)%N eqn:E1; [cbn; apply N.eqb_neq in Ne; rewrite N.eqb_sym, Ne; reflexivity|].
  destruct (c <? 2048)%N eqn:E2; [cbn; replace (x =? 192 + c / 64)%N with false; [reflexivity|symmetry; apply N.eqb_neq; lia]|].
  destruct (c <? 65536)%N eqn:E3; cbn.
  - replace (x =? 224 + c / 4096)%N with false; [reflexivity|symmetry; apply N.eqb_neq; lia].
  - replace (x =? 240 + c / 262144)%N with false; [reflexivity|symmetry; apply N.eqb_neq; lia].
Qed.

Lemma prefixb_cons (b : byte) s y l : prefixb (b :: s) (y :: l) = (b =? y)%N && prefixb s l.
Proof. reflexivity. Qed.

Definition lc_unit : expr := seql (ENegPred (Rf "newline")) [Rf "ANY"].

Lemma lc_loop em sg nl rest : (nl = [10%N] \/ nl = [13%N; 10%N]) ->
  forall cs p acc, Forall scalar cs -> ~ In 10%N cs -> last cs 0%N <> 13%N -> skipn p w = utf8 cs ++ nl ++ rest ->
  mreps Atomic em lc_unit p sg acc (SMatch (p + List.length (utf8 cs)) sg acc).
Proof.
  intros Hnl cs. induction cs as [|c cs IH]; intros p acc F NI NL H.
  - cbn [utf8 flat_map app List.length] in *. rewrite Nat.add_0_r. apply reps_stop.
    apply (runits_intro G false _ w Atomic em lc_unit p sg p sg [] SFail (atomic_skip em p sg)).
    unfold lc_unit, seql, Rf. cbn [fold_left]. apply evals_seq_fail.
    pose proof (evals_neg G false (fun _ => None) w Atomic em (EIdent (nm "newline")) p sg (SMatch (p + List.length nl) sg [])) as Ng.
    cbn in Ng. apply Ng. apply (newline_yes false p sg nl rest Hnl H).
  - inversion F as [|? ? Sc F']; subst. cbn [utf8 flat_map] in *. fold (utf8 cs) in *. rewrite <- app_assoc in H.
    assert (C10 : c <> 10%N) by (intros ->; apply NI; now left).
    assert (N1 : prefixb [10%N] (encode c ++ utf8 cs ++ nl ++ rest) = false) by (apply first_byte_ne; auto; lia).
    assert (N2 : prefixb [13%N; 10%N] (encode c ++ utf8 cs ++ nl ++ rest) = false).
    { destruct (N.eq_dec c 13) as [->|C13].
      - change (encode 13) with [13%N]. cbn [app]. rewrite prefixb_cons. replace (13 =? 13)%N with true by reflexivity. cbn [andb].
        destruct cs as [|c2 cs'].
        + exfalso. now apply NL.
        + cbn [utf8 flat_map]. rewrite <- app_assoc. inversion F' as [|? ? Sc2 _]; subst.
          apply first_byte_ne; [exact Sc2|lia|]. intros ->. apply NI. right. now left.
      - pose proof (first_byte_ne c 13%N (utf8 cs ++ nl ++ rest) Sc ltac:(lia) C13) as X.
        destruct (encode c ++ utf8 cs ++ nl ++ rest) as [|y l']; [reflexivity|]. rewrite prefixb_cons in *. cbn [prefixb] in X.
        rewrite andb_true_r in X. now rewrite X. }
    apply (reps_step G false _ w Atomic em lc_unit p sg acc (p + List.length (encode c)) sg []).
    + apply (runits_intro G false _ w Atomic em lc_unit p sg p sg [] (SMatch (p + List.length (encode c)) sg []) (atomic_skip em p sg)).
      unfold lc_unit, seql, Rf. cbn [fold_left].
      pose proof (evals_seq G false (fun _ => None) w Atomic em (ENegPred (EIdent (nm "newline"))) (EIdent (nm "ANY"))
                    p sg p sg [] p sg [] (SMatch (p + List.length (encode c)) sg [])) as S1. cbn [app] in S1. apply S1; clear S1.
      * pose proof (evals_neg G false (fun _ => None) w Atomic em (EIdent (nm "newline")) p sg SFail) as Ng. cbn in Ng. apply Ng.
        apply (newline_no false p sg _ H N1 N2).
      * apply atomic_skip.
      * apply (any_char em p sg c _ Sc H).
    + rewrite app_nil_r, app_length, Nat.add_assoc. apply (IH (p + List.length (encode c)) acc F').
      * intros X. apply NI. now right.
      * destruct cs as [|c2 cs']; [cbn; discriminate|]. exact NL.
      * apply (at_advance p (encode c) _ H).
Qed.

Lemma line_comment_lex em p sg cs nl rest : (nl = [10%N] \/ nl = [13%N; 10%N]) -> Forall scalar cs -> ~ In 10%N cs ->
  match cs with c :: _ => c <> 47%N /\ c <> 33%N | [] => True end -> last cs 0%N <> 13%N ->
  skipn p w = [47%N; 47%N] ++ utf8 cs ++ nl ++ rest ->
  mev Atomic em (EIdent (nm "line_comment")) p sg (SMatch (p + 2 + List.length (utf8 cs)) sg []).
Proof.
  intros Hnl F NI Hd NL H.
  apply (call_atomic em (nm "line_comment") (mk "line_comment" RSilent lc_body) p sg _); try reflexivity.
  cbn [rexpr mk]. unfold lc_body, seql, chol, Lt. cbn [fold_left]. fold lc_unit.
  assert (H0 : skipn (p + 2) w = utf8 cs ++ nl ++ rest) by apply (at_advance p [47%N; 47%N] _ H).
  pose proof (evals_seq G false (fun _ => None) w Atomic em
                (ESeq (EStr (nm "//")) (ENegPred (EChoice (EStr (nm "/")) (EStr (nm "!"))))) (ERep lc_unit)
                p sg (p + 2) sg [] (p + 2) sg [] (SMatch (p + 2 + List.length (utf8 cs)) sg [])) as S2. cbn [app] in S2. apply S2; clear S2.
  - pose proof (evals_seq G false (fun _ => None) w Atomic em (EStr (nm "//")) (ENegPred (EChoice (EStr (nm "/")) (EStr (nm "!"))))
                  p sg (p + 2) sg [] (p + 2) sg [] (SMatch (p + 2) sg [])) as S1. cbn [app] in S1. apply S1; clear S1.
    + apply (str_yes Atomic em (nm "//") p sg _ H).
    + apply atomic_skip.
    + pose proof (evals_neg G false (fun _ => None) w Atomic em (EChoice (EStr (nm "/")) (EStr (nm "!"))) (p + 2) sg SFail) as Ng. cbn in Ng. apply Ng.
      assert (X : prefixb [47%N] (utf8 cs ++ nl ++ rest) = false /\ prefixb [33%N] (utf8 cs ++ nl ++ rest) = false).
      { destruct cs as [|c cs'].
        - cbn [utf8 flat_map app]. destruct Hnl as [-> | ->]; split; reflexivity.
        - inversion F as [|? ? Sc _]; subst. destruct Hd as [D1 D2]. cbn [utf8 flat_map]. rewrite <- app_assoc.
          split; apply first_byte_ne; auto; lia. }
      destruct X as [X1 X2]. apply evals_choice_r; [apply (str_no Atomic false _ (p + 2) sg _ H0 X1)|apply (str_no Atomic false _ (p + 2) sg _ H0 X2)].
  - apply atomic_skip.
  - apply evals_rep_atomic; [reflexivity|]. apply (lc_loop em sg nl rest Hnl cs (p + 2) [] F NI NL H0).
Qed.

(* ---- the implicit skipping consumes a gap ---- *)
Notation mmanys := (manys G false (fun _ => None) w).
Notation mcloops := (cloops G false (fun _ => None) w).

Definition cm_body : expr := chol (Rf "block_comment") [Rf "line_comment"].

(* what may follow a gap: no blank, no comment opener (`///` and `//!` are not comments) *)
Definition gap_end (l : list byte) : Prop :=
  no_white l /\ prefixb (nm "/*") l = false /\
  (prefixb (nm "//") l = false \/ exists r, l = 47%N :: 47%N :: 47%N :: r \/ l = 47%N :: 47%N :: 33%N :: r).

Lemma comment_no em p sg l : gap_end l -> skipn p w = l -> mev NonAtomic em (EIdent (nm "COMMENT")) p sg SFail.
Proof.
  intros (_ & NB & NL) H. apply (call_special em (nm "COMMENT") (mk "COMMENT" RSilent cm_body) p sg _); try reflexivity.
  cbn [rexpr mk]. unfold cm_body, chol, Rf. cbn [fold_left]. apply evals_choice_r.
  - apply (call_atomic em (nm "block_comment") (mk "block_comment" RSilent bc_body) p sg _); try reflexivity.
    cbn [rexpr mk]. unfold bc_body, seql, Lt. cbn [fold_left]. apply evals_seq_fail. apply evals_seq_fail. apply (str_no Atomic em _ p sg l H NB).
  - apply (call_atomic em (nm "line_comment") (mk "line_comment" RSilent lc_body) p sg _); try reflexivity.
    cbn [rexpr mk]. unfold lc_body, seql, chol, Lt. cbn [fold_left]. apply evals_seq_fail.
    destruct NL as [NL|(r & [->| ->])].
    + apply evals_seq_fail. apply (str_no Atomic em _ p sg l H NL).
    + pose proof (evals_seq G false (fun _ => None) w Atomic em (EStr (nm "//")) (ENegPred (EChoice (EStr (nm "/")) (EStr (nm "!"))))
                    p sg (p + 2) sg [] (p + 2) sg [] SFail) as S1. cbn in S1. apply S1; clear S1.
      * change (47%N :: 47%N :: 47%N :: r) with (nm "//" ++ (47%N :: r)) in H. apply (str_yes Atomic em (nm "//") p sg _ H).
      * apply atomic_skip.
      * pose proof (evals_neg G false (fun _ => None) w Atomic em (EChoice (EStr (nm "/")) (EStr (nm "!"))) (p + 2) sg (SMatch (p + 2 + 1) sg [])) as Ng.
        cbn in Ng. apply Ng. apply evals_choice_l.
        change (47%N :: 47%N :: 47%N :: r) with ([47%N; 47%N] ++ (nm "/" ++ r)) in H. apply (str_yes Atomic false (nm "/") (p + 2) sg r (at_advance p _ _ H)).
    + pose proof (evals_seq G false (fun _ => None) w Atomic em (EStr (nm "//")) (ENegPred (EChoice (EStr (nm "/")) (EStr (nm "!"))))
                    p sg (p + 2) sg [] (p + 2) sg [] SFail) as S1. cbn in S1. apply S1; clear S1.
      * change (47%N :: 47%N :: 33%N :: r) with (nm "//" ++ (33%N :: r)) in H. apply (str_yes Atomic em (nm "//") p sg _ H).
      * apply atomic_skip.
      * pose proof (evals_neg G false (fun _ => None) w Atomic em (EChoice (EStr (nm "/")) (EStr (nm "!"))) (p + 2) sg (SMatch (p + 2 + 1) sg [])) as Ng.
        cbn in Ng. apply Ng.
        assert (H2 : skipn (p + 2) w = nm "!" ++ r) by (change (47%N :: 47%N :: 33%N :: r) with ([47%N; 47%N] ++ (nm "!" ++ r)) in H; apply (at_advance p _ _ H)).
        apply evals_choice_r; [apply (str_no Atomic false _ (p + 2) sg _ H2); reflexivity|apply (str_yes Atomic false (nm "!") (p + 2) sg r H2)].
Qed.

Lemma comment_block em p sg a rest : block_comment a -> skipn p w = a ++ rest ->
  mev NonAtomic em (EIdent (nm "COMMENT")) p sg (SMatch (p + List.length a) sg []).
Proof.
  intros Ha H. apply (call_special em (nm "COMMENT") (mk "COMMENT" RSilent cm_body) p sg _); try reflexivity.
  cbn [rexpr mk]. unfold cm_body, chol, Rf. cbn [fold_left]. apply evals_choice_l.
  destruct block_comment_lex as [B _]. apply (B a Ha em p sg rest H).
Qed.

Lemma comment_line em p sg cs nl rest : (nl = [10%N] \/ nl = [13%N; 10%N]) -> Forall scalar cs -> ~ In 10%N cs ->
  match cs with c :: _ => c <> 47%N /\ c <> 33%N | [] => True end -> last cs 0%N <> 13%N ->
  skipn p w = [47%N; 47%N] ++ utf8 cs ++ nl ++ rest ->
  mev NonAtomic em (EIdent (nm "COMMENT")) p sg (SMatch (p + 2 + List.length (utf8 cs)) sg []).
Proof.
  intros Hnl F NI Hd NL H. apply (call_special em (nm "COMMENT") (mk "COMMENT" RSilent cm_body) p sg _); try reflexivity.
  cbn [rexpr mk]. unfold cm_body, chol, Rf. cbn [fold_left]. apply evals_choice_r.
  - apply (call_atomic em (nm "block_comment") (mk "block_comment" RSilent bc_body) p sg _); try reflexivity.
    cbn [rexpr mk]. unfold bc_body, seql, Lt. cbn [fold_left]. apply evals_seq_fail. apply evals_seq_fail.
    apply (str_no Atomic em _ p sg _ H). reflexivity.
  - apply (line_comment_lex em p sg cs nl rest Hnl F NI Hd NL H).
Qed.

Definition phase (em : bool) (sg : list str) (p q : nat) : Prop :=
  exists p1, mmanys NonAtomic em (nm "WHITESPACE") p sg [] (SMatch p1 sg []) /\ mcloops NonAtomic em p1 sg [] (SMatch q sg []).

Lemma white_no_comment a l : white a -> no_white (a ++ l) -> False.
Proof. intros Wa (F1 & F2 & F3 & F4). destruct Wa; cbn in *; discriminate. Qed.

Theorem gap_phase g : gap g -> forall em sg p rest, gap_end rest -> skipn p w = g ++ rest -> phase em sg p (p + List.length g).
Proof.
  induction 1 as [|a g Wa Hg IH|a g Ba Hg IH|a g La Hg IH]; intros em sg p rest GE H.
  - cbn [app List.length] in *. rewrite Nat.add_0_r. exists p. split.
    + apply manys_stop. destruct GE as (NW & _). apply (ws_no em p sg rest NW H).
    + apply cloops_stop. apply (comment_no em p sg rest GE H).
  - rewrite <- app_assoc in H. destruct (IH em sg (p + List.length a) rest GE (at_advance p a _ H)) as (p1 & M & C).
    rewrite app_length, Nat.add_assoc. exists p1. split; [|exact C].
    apply (manys_step G false _ w NonAtomic em (nm "WHITESPACE") p sg [] (p + List.length a) sg []); [|exact M].
    apply (ws_yes em p sg a _ Wa H).
  - rewrite <- app_assoc in H. destruct (IH em sg (p + List.length a) rest GE (at_advance p a _ H)) as (p1 & M & C).
    rewrite app_length, Nat.add_assoc. exists p. split.
    + apply manys_stop. apply (ws_no em p sg (a ++ g ++ rest)); [|exact H]. inversion Ba; subst. repeat split; reflexivity.
    + apply (cloops_step G false _ w NonAtomic em p sg [] (p + List.length a) sg [] p1 sg [] _ (comment_block em p sg a _ Ba H) M C).
  - rewrite <- app_assoc in H. destruct La as (cs & nl & -> & F & NI & Hd & NL & Hnl).
    rewrite <- !app_assoc in H.
    assert (H1 : skipn (p + 2 + List.length (utf8 cs)) w = nl ++ g ++ rest).
    { apply (at_advance (p + 2) (utf8 cs) _). apply (at_advance p [47%N; 47%N] _ H). }
    assert (Wn : white nl) by (destruct Hnl as [-> | ->]; constructor).
    destruct (IH em sg (p + 2 + List.length (utf8 cs) + List.length nl) rest GE (at_advance _ nl _ H1)) as (p1 & M & C).
    assert (Len : p + List.length (([47%N; 47%N] ++ utf8 cs ++ nl) ++ g) = p + 2 + List.length (utf8 cs) + List.length nl + List.length g).
    { unfold byte. rewrite !app_length. cbn [List.length]. lia. }
    unfold byte in *. rewrite Len.
    exists p. split.
    + apply manys_stop. apply (ws_no em p sg ([47%N; 47%N] ++ utf8 cs ++ nl ++ g ++ rest)); [|exact H]. repeat split; reflexivity.
    + apply (cloops_step G false _ w NonAtomic em p sg [] (p + 2 + List.length (utf8 cs)) sg [] p1 sg [] _
               (comment_line em p sg cs nl (g ++ rest) Hnl F NI Hd NL H)); [|exact C].
      apply (manys_step G false _ w NonAtomic em (nm "WHITESPACE") _ sg [] (p + 2 + List.length (utf8 cs) + List.length nl) sg []); [|exact M].
      apply (ws_yes em _ sg nl _ Wn H1).
Qed.

Lemma has_ws : has_rule G (nm "WHITESPACE") = true. Proof. reflexivity. Qed.
Lemma has_cm : has_rule G (nm "COMMENT") = true. Proof. reflexivity. Qed.

(* between two tokens of a non-atomic rule: the gap is skipped, nothing else *)
Theorem gap_lex g em sg p rest : gap g -> gap_end rest -> skipn p w = g ++ rest ->
  mskips NonAtomic em p sg (SMatch (p + List.length g) sg []).
Proof.
  intros Hg GE H. destruct (gap_phase g Hg em sg p rest GE H) as (p1 & M & C).
  apply (skips_both G false _ w em p sg p1 sg [] _ has_ws has_cm M C).
Qed.

(* ---- choice chains ---- *)
Lemma chain_match a em l y p sg q sg' f : mev a em y p sg (SMatch q sg' f) -> mev a em (fold_left EChoice l y) p sg (SMatch q sg' f).
Proof. revert y. induction l as [|x l IH]; intros y H; [exact H|]. cbn [fold_left]. apply IH. now apply evals_choice_l. Qed.
Lemma chain_fail a em l y p sg : mev a em y p sg SFail -> Forall (fun x => mev a em x p sg SFail) l -> mev a em (fold_left EChoice l y) p sg SFail.
Proof.
  revert y. induction l as [|x l IH]; intros y H F; [exact H|]. inversion F; subst. cbn [fold_left]. apply IH; [|assumption].
  now apply evals_choice_r.
Qed.
Lemma chain_select a em l1 x l2 y p sg q sg' f : mev a em (fold_left EChoice l1 y) p sg SFail -> mev a em x p sg (SMatch q sg' f) ->
  mev a em (fold_left EChoice (l1 ++ x :: l2) y) p sg (SMatch q sg' f).
Proof. intros H1 H2. rewrite fold_left_app. cbn [fold_left]. apply chain_match. now apply evals_choice_r. Qed.

(* ---- hex digits, \xHH, \u{..} ---- *)
Definition hexb (b : byte) : bool := in_range 48 57 b || in_range 97 102 b || in_range 65 70 b.
Lemma rec_hex : recognises hexb (EIdent (nm "hex_digit")).
Proof.
  apply (rec_rule hexb (nm "hex_digit") (mk "hex_digit" RAtomic (chol (ERange 48 57) [ERange 97 102; ERange 65 70]))); try reflexivity.
  cbn [rexpr mk]. unfold chol. cbn [fold_left].
  apply (rec_ext (fun b => (in_range 48 57 b || in_range 97 102 b) || in_range 65 70 b)); [reflexivity|].
  apply rec_choice; [apply rec_choice|]; apply rec_range.
Qed.
Lemma hexval_hexb b d : hexval b = Some d -> (b < 128)%N /\ hexb b = true.
Proof.
  intros H. destruct (hexval_bound b d H) as [_ R]. split; [lia|]. unfold hexb, in_range.
  destruct R as [R|[R|R]]; destruct R as [R1 R2]; apply N.leb_le in R1, R2; rewrite R1, R2; cbn; rewrite ?orb_true_r; reflexivity.
Qed.
Definition is_hex (b : byte) : Prop := (b < 128)%N /\ hexb b = true.
Lemma spells_hex_digits c ds : spells_hex c ds -> Forall is_hex ds.
Proof. intros S. eapply Forall_impl; [|exact (spells_nat_all _ _ _ _ S)]. intros b (d & Hd). now apply (hexval_hexb b d). Qed.

Definition hx : expr := EIdent (nm "hex_digit").
(* the optional digits of hex_digit{2,6}: up to k more digits, then something that is no digit *)
Lemma hex_opts em sg k : forall ds rest p, 1 <= k -> List.length ds <= k -> Forall is_hex ds -> follow hexb rest -> skipn p w = ds ++ rest ->
  exists u, seq_of (repeatn k (EOpt hx)) = Some u /\ mev Atomic em u p sg (SMatch (p + List.length ds) sg []).
Proof.
  induction k as [|k IH]; intros ds rest p K L F Fo H; [lia|].
  destruct (rec_hex em sg) as [Y N].
  destruct k as [|k'].
  - (* the last optional digit *)
    exists (EOpt hx). split; [reflexivity|]. destruct ds as [|d [|d2 ds']]; [| |cbn in L; lia].
    + cbn [List.length]. rewrite Nat.add_0_r.
      pose proof (evals_opt G false (fun _ => None) w Atomic em hx p sg SFail) as O. cbn in O. apply O. apply (N p rest H Fo).
    + inversion F as [|? ? [Ld Pd] _]; subst.
      pose proof (evals_opt G false (fun _ => None) w Atomic em hx p sg (SMatch (p + 1) sg [])) as O. cbn in O. apply O. apply (Y p d rest H Ld Pd).
  - destruct ds as [|d ds'].
    + destruct (IH [] rest p ltac:(lia) ltac:(cbn; lia) F Fo H) as (u & Eu & Hu).
      exists (ESeq (EOpt hx) u). split; [cbn [repeatn repeat seq_of] in *; now rewrite Eu|].
      cbn [List.length] in *. rewrite Nat.add_0_r in *.
      pose proof (evals_seq G false (fun _ => None) w Atomic em (EOpt hx) u p sg p sg [] p sg [] (SMatch p sg [])) as S1. cbn [app] in S1. apply S1; clear S1.
      * pose proof (evals_opt G false (fun _ => None) w Atomic em hx p sg SFail) as O. cbn in O. apply O. apply (N p rest H Fo).
      * apply atomic_skip.
      * exact Hu.
    + inversion F as [|? ? [Ld Pd] F']; subst.
      assert (H1 : skipn (p + 1) w = ds' ++ rest) by (change ((d :: ds') ++ rest) with ([d] ++ (ds' ++ rest)) in H; apply (at_advance p [d] _ H)).
      destruct (IH ds' rest (p + 1) ltac:(lia) ltac:(cbn in L; lia) F' Fo H1) as (u & Eu & Hu).
      exists (ESeq (EOpt hx) u). split; [cbn [repeatn repeat seq_of] in *; now rewrite Eu|].
      cbn [List.length]. replace (p + S (List.length ds')) with (p + 1 + List.length ds') by lia.
      pose proof (evals_seq G false (fun _ => None) w Atomic em (EOpt hx) u p sg (p + 1) sg [] (p + 1) sg [] (SMatch (p + 1 + List.length ds') sg [])) as S1.
      cbn [app] in S1. apply S1; clear S1.
      * pose proof (evals_opt G false (fun _ => None) w Atomic em hx p sg (SMatch (p + 1) sg [])) as O. cbn in O. apply O. apply (Y p d _ H Ld Pd).
      * apply atomic_skip.
      * exact Hu.
Qed.

(* ---- the escape rule: a backslash, then one of the seven letters, or code (xHH), or unicode (u{H..H}) ---- *)
Definition code_rule : rule := mk "code" RAtomic (seql (Lt "x") [ERepExact (Rf "hex_digit") 2]).
Definition unicode_rule : rule := mk "unicode" RAtomic (seql (Lt "u") [Rf "opening_brace"; ERepMinMax (Rf "hex_digit") 2 6; Rf "closing_brace"]).
Definition esc_tail : list expr := [Lt "\"; Lt "r"; Lt "n"; Lt "t"; Lt "0"; Lt "'"; Rf "code"; Rf "unicode"].
Definition esc_alts : expr := chol (Lt """") esc_tail.
Definition escape_rule : rule := mk "escape" RAtomic (seql (Lt "\") [esc_alts]).

Lemma lit1 a em (x b : byte) q sg rest' : skipn q w = b :: rest' ->
  mev a em (EStr [x]) q sg (if (x =? b)%N then SMatch (q + 1) sg [] else SFail).
Proof.
  intros H. pose proof (evals_str G false (fun _ => None) w a em [x] q sg) as X. unfold lit in X. rewrite H in X. cbn [prefixb] in X.
  rewrite andb_true_r in X. cbn [List.length] in X. destruct (x =? b)%N; exact X.
Qed.

Lemma named_alt em b c q sg rest' : named_escape b = Some c -> skipn q w = b :: rest' ->
  mev Atomic em esc_alts q sg (SMatch (q + 1) sg []).
Proof.
  intros Hn H. unfold esc_alts, chol, esc_tail, Lt, Rf.
  assert (Lit : forall x : byte, mev Atomic em (EStr [x]) q sg (if (x =? b)%N then SMatch (q + 1) sg [] else SFail)) by (intros x; apply (lit1 Atomic em x b q sg rest' H)).
  unfold named_escape in Hn.
  destruct (b =? 34)%N eqn:E1; [apply N.eqb_eq in E1; subst b; apply chain_match; exact (Lit 34%N)|].
  destruct (b =? 92)%N eqn:E2.
  { apply N.eqb_eq in E2; subst b. apply (chain_select Atomic em [] (EStr (nm "\")) _ (EStr (nm """"))); [exact (Lit 34%N)|exact (Lit 92%N)]. }
  destruct (b =? 114)%N eqn:E3.
  { apply N.eqb_eq in E3; subst b. apply (chain_select Atomic em [EStr (nm "\")] (EStr (nm "r")) _ (EStr (nm """"))); [|exact (Lit 114%N)].
    apply chain_fail; [exact (Lit 34%N)|repeat constructor; exact (Lit 92%N)]. }
  destruct (b =? 110)%N eqn:E4.
  { apply N.eqb_eq in E4; subst b. apply (chain_select Atomic em [EStr (nm "\"); EStr (nm "r")] (EStr (nm "n")) _ (EStr (nm """"))); [|exact (Lit 110%N)].
    apply chain_fail; [exact (Lit 34%N)|repeat constructor; [exact (Lit 92%N)|exact (Lit 114%N)]]. }
  destruct (b =? 116)%N eqn:E5.
  { apply N.eqb_eq in E5; subst b. apply (chain_select Atomic em [EStr (nm "\"); EStr (nm "r"); EStr (nm "n")] (EStr (nm "t")) _ (EStr (nm """"))); [|exact (Lit 116%N)].
    apply chain_fail; [exact (Lit 34%N)|repeat constructor; [exact (Lit 92%N)|exact (Lit 114%N)|exact (Lit 110%N)]]. }
  destruct (b =? 48)%N eqn:E6.
  { apply N.eqb_eq in E6; subst b. apply (chain_select Atomic em [EStr (nm "\"); EStr (nm "r"); EStr (nm "n"); EStr (nm "t")] (EStr (nm "0")) _ (EStr (nm """"))); [|exact (Lit 48%N)].
    apply chain_fail; [exact (Lit 34%N)|repeat constructor; [exact (Lit 92%N)|exact (Lit 114%N)|exact (Lit 110%N)|exact (Lit 116%N)]]. }
  destruct (b =? 39)%N eqn:E7; [|discriminate].
  apply N.eqb_eq in E7; subst b.
  apply (chain_select Atomic em [EStr (nm "\"); EStr (nm "r"); EStr (nm "n"); EStr (nm "t"); EStr (nm "0")] (EStr (nm "'")) _ (EStr (nm """"))); [|exact (Lit 39%N)].
  apply chain_fail; [exact (Lit 34%N)|repeat constructor; [exact (Lit 92%N)|exact (Lit 114%N)|exact (Lit 110%N)|exact (Lit 116%N)|exact (Lit 48%N)]].
Qed.

(* the seven one-letter alternatives all fail on a letter that is none of them *)
Lemma letters_fail em (b : byte) q sg rest' : named_escape b = None -> skipn q w = b :: rest' ->
  mev Atomic em (fold_left EChoice [EStr (nm "\"); EStr (nm "r"); EStr (nm "n"); EStr (nm "t"); EStr (nm "0"); EStr (nm "'")] (EStr (nm """"))) q sg SFail.
Proof.
  intros Hn H.
  assert (Lit : forall x : byte, (x =? b)%N = false -> mev Atomic em (EStr [x]) q sg SFail).
  { intros x E. pose proof (lit1 Atomic em x b q sg rest' H) as X. now rewrite E in X. }
  unfold named_escape in Hn.
  destruct (b =? 34)%N eqn:E1; [discriminate|]. destruct (b =? 92)%N eqn:E2; [discriminate|]. destruct (b =? 114)%N eqn:E3; [discriminate|].
  destruct (b =? 110)%N eqn:E4; [discriminate|]. destruct (b =? 116)%N eqn:E5; [discriminate|]. destruct (b =? 48)%N eqn:E6; [discriminate|].
  destruct (b =? 39)%N eqn:E7; [discriminate|].
  apply chain_fail; [apply Lit; now rewrite N.eqb_sym|]. repeat constructor; apply Lit; now rewrite N.eqb_sym.
Qed.

Lemma code_lex em q sg h1 h2 c rest' : spells_hex c [h1; h2] -> skipn q w = 120%N :: h1 :: h2 :: rest' ->
  mev Atomic em (EIdent (nm "code")) q sg (SMatch (q + 3) sg []).
Proof.
  intros S H. pose proof (spells_hex_digits c _ S) as F. inversion F as [|? ? [L1 P1] F2]; subst. inversion F2 as [|? ? [L2 P2] _]; subst.
  apply (call_atomic em (nm "code") code_rule q sg _); try reflexivity. cbn [rexpr code_rule mk]. unfold seql, Lt, Rf. cbn [fold_left].
  assert (H1 : skipn (q + 1) w = h1 :: h2 :: rest') by (change (120%N :: h1 :: h2 :: rest') with ([120%N] ++ (h1 :: h2 :: rest')) in H; apply (at_advance q [120%N] _ H)).
  assert (H2 : skipn (q + 1 + 1) w = h2 :: rest') by (change (h1 :: h2 :: rest') with ([h1] ++ (h2 :: rest')) in H1; apply (at_advance (q + 1) [h1] _ H1)).
  pose proof (evals_seq G false (fun _ => None) w Atomic em (EStr (nm "x")) (ERepExact (EIdent (nm "hex_digit")) 2)
                q sg (q + 1) sg [] (q + 1) sg [] (SMatch (q + 3) sg [])) as S1. cbn [app] in S1. apply S1; clear S1.
  - change (120%N :: h1 :: h2 :: rest') with (nm "x" ++ (h1 :: h2 :: rest')) in H. apply (str_yes Atomic em (nm "x") q sg _ H).
  - apply atomic_skip.
  - apply (evals_unroll G false (fun _ => None) w Atomic em (ERepExact (EIdent (nm "hex_digit")) 2) (ESeq hx hx) (q + 1) sg _ I eq_refl).
    destruct (rec_hex em sg) as [Y _].
    pose proof (evals_seq G false (fun _ => None) w Atomic em hx hx (q + 1) sg (q + 1 + 1) sg [] (q + 1 + 1) sg [] (SMatch (q + 1 + 1 + 1) sg [])) as S2.
    cbn [app] in S2. replace (q + 3) with (q + 1 + 1 + 1) by lia. apply S2; clear S2.
    + apply (Y (q + 1) h1 _ H1 L1 P1).
    + apply atomic_skip.
    + apply (Y (q + 1 + 1) h2 _ H2 L2 P2).
Qed.

Lemma unicode_lex em q sg ds c rest' : spells_hex c ds -> 2 <= List.length ds <= 6 -> skipn q w = [117%N; 123%N] ++ ds ++ [125%N] ++ rest' ->
  mev Atomic em (EIdent (nm "unicode")) q sg (SMatch (q + 2 + List.length ds + 1) sg []).
Proof.
  intros Sp L H. pose proof (spells_hex_digits c _ Sp) as F.
  destruct ds as [|d1 [|d2 ds']]; cbn [List.length] in L; try lia.
  inversion F as [|? ? [L1 P1] F2]; subst. inversion F2 as [|? ? [L2 P2] F3]; subst.
  apply (call_atomic em (nm "unicode") unicode_rule q sg _); try reflexivity. cbn [rexpr unicode_rule mk]. unfold seql, Lt, Rf. cbn [fold_left].
  cbn [app] in H.
  assert (H1 : skipn (q + 1) w = 123%N :: d1 :: d2 :: ds' ++ 125%N :: rest') by (change (117%N :: 123%N :: d1 :: d2 :: ds' ++ 125%N :: rest') with ([117%N] ++ (123%N :: d1 :: d2 :: ds' ++ 125%N :: rest')) in H; apply (at_advance q [117%N] _ H)).
  assert (H2 : skipn (q + 1 + 1) w = d1 :: d2 :: ds' ++ 125%N :: rest') by (change (123%N :: d1 :: d2 :: ds' ++ 125%N :: rest') with ([123%N] ++ (d1 :: d2 :: ds' ++ 125%N :: rest')) in H1; apply (at_advance (q + 1) [123%N] _ H1)).
  assert (H3 : skipn (q + 1 + 1 + 1) w = d2 :: ds' ++ 125%N :: rest') by (change (d1 :: d2 :: ds' ++ 125%N :: rest') with ([d1] ++ (d2 :: ds' ++ 125%N :: rest')) in H2; apply (at_advance _ [d1] _ H2)).
  assert (H4 : skipn (q + 1 + 1 + 1 + 1) w = ds' ++ 125%N :: rest') by (change (d2 :: ds' ++ 125%N :: rest') with ([d2] ++ (ds' ++ 125%N :: rest')) in H3; apply (at_advance _ [d2] _ H3)).
  assert (H5 : skipn (q + 1 + 1 + 1 + 1 + List.length ds') w = 125%N :: rest') by apply (at_advance _ ds' _ H4).
  set (e := q + 1 + 1 + 1 + 1 + List.length ds'). cbn [List.length].
  replace (q + 2 + S (S (List.length ds')) + 1) with (e + 1) by (unfold e; lia).
  assert (Brace : forall nme c0 pos r0, skipn pos w = c0 :: r0 -> (c0 < 128)%N ->
            find_rule G nme = Some {| rname := nme; rty := RNormal; rexpr := EStr [c0] |} -> plain_name nme = true -> is_special nme = false ->
            mev Atomic em (EIdent nme) pos sg (SMatch (pos + 1) sg [])).
  { intros nme c0 pos r0 Hp Lc FR PN SP. apply (call_atomic em nme _ pos sg _ PN SP FR I). cbn [rexpr].
    change (c0 :: r0) with ([c0] ++ r0) in Hp. apply (str_yes Atomic em [c0] pos sg r0 Hp). }
  destruct (hex_opts em sg 4 ds' (125%N :: rest') (q + 1 + 1 + 1 + 1) ltac:(lia) ltac:(lia) F3 ltac:(split; [lia|reflexivity]) H4) as (u & Eu & Hu).
  cbn [repeatn repeat seq_of] in Eu. injection Eu as <-.
  (* ((("u" ~ opening_brace) ~ hex{2,6}) ~ closing_brace) *)
  pose proof (evals_seq G false (fun _ => None) w Atomic em
                (ESeq (ESeq (EStr (nm "u")) (EIdent (nm "opening_brace"))) (ERepMinMax (EIdent (nm "hex_digit")) 2 6)) (EIdent (nm "closing_brace"))
                q sg e sg [] e sg [] (SMatch (e + 1) sg [])) as S3. cbn [app] in S3. apply S3; clear S3.
  - pose proof (evals_seq G false (fun _ => None) w Atomic em (ESeq (EStr (nm "u")) (EIdent (nm "opening_brace"))) (ERepMinMax (EIdent (nm "hex_digit")) 2 6)
                  q sg (q + 1 + 1) sg [] (q + 1 + 1) sg [] (SMatch e sg [])) as S2. cbn [app] in S2. apply S2; clear S2.
    + pose proof (evals_seq G false (fun _ => None) w Atomic em (EStr (nm "u")) (EIdent (nm "opening_brace"))
                    q sg (q + 1) sg [] (q + 1) sg [] (SMatch (q + 1 + 1) sg [])) as S1. cbn [app] in S1. apply S1; clear S1.
      * change (117%N :: 123%N :: d1 :: d2 :: ds' ++ 125%N :: rest') with (nm "u" ++ (123%N :: d1 :: d2 :: ds' ++ 125%N :: rest')) in H.
        apply (str_yes Atomic em (nm "u") q sg _ H).
      * apply atomic_skip.
      * apply (Brace (nm "opening_brace") 123%N (q + 1) _ H1); reflexivity.
    + apply atomic_skip.
    + (* hex hex opt opt opt opt *)
      apply (evals_unroll G false (fun _ => None) w Atomic em (ERepMinMax (EIdent (nm "hex_digit")) 2 6) (ESeq hx (ESeq hx (ESeq (EOpt hx) (ESeq (EOpt hx) (ESeq (EOpt hx) (EOpt hx)))))) (q + 1 + 1) sg _ I).
      { reflexivity. }
      destruct (rec_hex em sg) as [Y _].
      pose proof (evals_seq G false (fun _ => None) w Atomic em hx (ESeq hx (ESeq (EOpt hx) (ESeq (EOpt hx) (ESeq (EOpt hx) (EOpt hx))))) (q + 1 + 1) sg (q + 1 + 1 + 1) sg [] (q + 1 + 1 + 1) sg [] (SMatch e sg [])) as Sa.
      cbn [app] in Sa. apply Sa; clear Sa.
      * apply (Y _ d1 _ H2 L1 P1).
      * apply atomic_skip.
      * pose proof (evals_seq G false (fun _ => None) w Atomic em hx (ESeq (EOpt hx) (ESeq (EOpt hx) (ESeq (EOpt hx) (EOpt hx)))) (q + 1 + 1 + 1) sg (q + 1 + 1 + 1 + 1) sg [] (q + 1 + 1 + 1 + 1) sg [] (SMatch e sg [])) as Sb.
        cbn [app] in Sb. apply Sb; clear Sb.
        -- apply (Y _ d2 _ H3 L2 P2).
        -- apply atomic_skip.
        -- exact Hu.
  - apply atomic_skip.
  - apply (Brace (nm "closing_brace") 125%N e _ H5); reflexivity.
Qed.

(* an escape as Spell.spells_char writes it (everything except the raw character) *)
Inductive escape_text : list byte -> Prop :=
| et_named b c : named_escape b = Some c -> escape_text [92%N; b]
| et_code c h1 h2 : spells_hex c [h1; h2] -> escape_text [92%N; 120%N; h1; h2]
| et_unicode c ds : spells_hex c ds -> 2 <= List.length ds <= 6 -> escape_text ([92%N; 117%N; 123%N] ++ ds ++ [125%N]).

Theorem escape_lex em p sg esc rest : escape_text esc -> skipn p w = esc ++ rest ->
  mev Atomic em (EIdent (nm "escape")) p sg (SMatch (p + List.length esc) sg []).
Proof.
  intros E H. apply (call_atomic em (nm "escape") escape_rule p sg _); try reflexivity. cbn [rexpr escape_rule mk]. unfold seql. cbn [fold_left].
  assert (Bs : mev Atomic em (Lt "\") p sg (SMatch (p + 1) sg [])).
  { destruct E; cbn [app] in H; [change (92%N :: b :: rest) with (nm "\" ++ (b :: rest)) in H
                               |change (92%N :: 120%N :: h1 :: h2 :: rest) with (nm "\" ++ (120%N :: h1 :: h2 :: rest)) in H
                               |change (92%N :: 117%N :: 123%N :: (ds ++ [125%N]) ++ rest) with (nm "\" ++ (117%N :: 123%N :: (ds ++ [125%N]) ++ rest)) in H];
      apply (str_yes Atomic em (nm "\") p sg _ H). }
  destruct E as [b c Hn|c h1 h2 Sh|c ds Sh L].
  - cbn [app List.length] in *.
    assert (H1 : skipn (p + 1) w = b :: rest) by (change (92%N :: b :: rest) with ([92%N] ++ (b :: rest)) in H; apply (at_advance p [92%N] _ H)).
    pose proof (evals_seq G false (fun _ => None) w Atomic em (Lt "\") esc_alts p sg (p + 1) sg [] (p + 1) sg [] (SMatch (p + 1 + 1) sg [])) as S1.
    cbn [app] in S1. replace (p + 2) with (p + 1 + 1) by lia. apply S1; [exact Bs|apply atomic_skip|]. apply (named_alt em b c (p + 1) sg rest Hn H1).
  - cbn [app List.length] in *.
    assert (H1 : skipn (p + 1) w = 120%N :: h1 :: h2 :: rest) by (change (92%N :: 120%N :: h1 :: h2 :: rest) with ([92%N] ++ (120%N :: h1 :: h2 :: rest)) in H; apply (at_advance p [92%N] _ H)).
    pose proof (evals_seq G false (fun _ => None) w Atomic em (Lt "\") esc_alts p sg (p + 1) sg [] (p + 1) sg [] (SMatch (p + 1 + 3) sg [])) as S1.
    cbn [app] in S1. replace (p + 4) with (p + 1 + 3) by lia. apply S1; [exact Bs|apply atomic_skip|].
    unfold esc_alts, chol, esc_tail, Lt, Rf.
    apply (chain_select Atomic em [EStr (nm "\"); EStr (nm "r"); EStr (nm "n"); EStr (nm "t"); EStr (nm "0"); EStr (nm "'")] (EIdent (nm "code")) [EIdent (nm "unicode")] (EStr (nm """"))).
    + apply (letters_fail em 120%N (p + 1) sg _ eq_refl H1).
    + apply (code_lex em (p + 1) sg h1 h2 c rest Sh H1).
  - rewrite <- !app_assoc in H. cbn [app] in H.
    assert (H1 : skipn (p + 1) w = [117%N; 123%N] ++ ds ++ [125%N] ++ rest).
    { change (92%N :: 117%N :: 123%N :: ds ++ 125%N :: rest) with ([92%N] ++ ([117%N; 123%N] ++ ds ++ [125%N] ++ rest)) in H. apply (at_advance p [92%N] _ H). }
    assert (Len : p + List.length ([92%N; 117%N; 123%N] ++ ds ++ [125%N]) = p + 1 + (2 + List.length ds + 1)) by (unfold byte; rewrite !app_length; cbn [List.length]; lia).
    unfold byte in *. rewrite Len.
    pose proof (evals_seq G false (fun _ => None) w Atomic em (Lt "\") esc_alts p sg (p + 1) sg [] (p + 1) sg [] (SMatch (p + 1 + (2 + List.length ds + 1)) sg [])) as S1.
    cbn [app] in S1. apply S1; [exact Bs|apply atomic_skip|].
    unfold esc_alts, chol, esc_tail, Lt, Rf.
    apply (chain_select Atomic em [EStr (nm "\"); EStr (nm "r"); EStr (nm "n"); EStr (nm "t"); EStr (nm "0"); EStr (nm "'"); EIdent (nm "code")] (EIdent (nm "unicode")) [] (EStr (nm """"))).
    + cbn [fold_left]. apply evals_choice_r.
      * apply (letters_fail em 117%N (p + 1) sg _ eq_refl H1).
      * apply (call_atomic em (nm "code") code_rule (p + 1) sg _); try reflexivity. cbn [rexpr code_rule mk]. unfold seql, Lt. cbn [fold_left].
        apply evals_seq_fail. apply (str_no Atomic em _ (p + 1) sg _ H1). reflexivity.
    + replace (p + 1 + (2 + List.length ds + 1)) with (p + 1 + 2 + List.length ds + 1) by lia.
      apply (unicode_lex em (p + 1) sg ds c rest Sh L H1).
Qed.

(* anything that does not begin with a backslash is no escape *)
Lemma escape_no em p sg l : skipn p w = l -> prefixb [92%N] l = false -> mev Atomic em (EIdent (nm "escape")) p sg SFail.
Proof.
  intros H F. apply (call_atomic em (nm "escape") escape_rule p sg _); try reflexivity. cbn [rexpr escape_rule mk]. unfold seql. cbn [fold_left].
  apply evals_seq_fail. apply (str_no Atomic em _ p sg l H F).
Qed.

(* ---- strings ---- *)
Lemma spells_char_cases q c e : spells_char q c e ->
  (scalar c /\ c <> 92%N /\ c <> q /\ e = encode c) \/ escape_text e.
Proof.
  intros [c0 Sc Hb Hq|c0 b Hn|c0 h1 h2 Hh|c0 ds Sc Hh Hl]; [left; auto|right..].
  - now apply (et_named b c0).
  - now apply (et_code c0 h1 h2).
  - now apply (et_unicode c0 ds).
Qed.

Definition raw_unit (q : byte) : expr := seql (ENegPred (chol (EStr [q]) [Lt "\"])) [Rf "ANY"].
Definition str_opt : expr := EOpt (seql (Rf "escape") [Rf "inner_str"]).
Definition inner_str_rule : rule := mk "inner_str" RAtomic (seql (ERep (raw_unit 34%N)) [str_opt]).

(* one raw character (not the quote, not a backslash) *)
Lemma raw_yes em (q : byte) p sg c rest : (q < 128)%N -> scalar c -> c <> 92%N -> c <> q -> skipn p w = encode c ++ rest ->
  mev Atomic em (raw_unit q) p sg (SMatch (p + List.length (encode c)) sg []).
Proof.
  intros Lq Sc Hb Hq H. unfold raw_unit, seql, chol, Lt, Rf. cbn [fold_left].
  pose proof (evals_seq G false (fun _ => None) w Atomic em (ENegPred (EChoice (EStr [q]) (EStr (nm "\")))) (EIdent (nm "ANY"))
                p sg p sg [] p sg [] (SMatch (p + List.length (encode c)) sg [])) as S1. cbn [app] in S1. apply S1; clear S1.
  - pose proof (evals_neg G false (fun _ => None) w Atomic em (EChoice (EStr [q]) (EStr (nm "\"))) p sg SFail) as Ng. cbn in Ng. apply Ng.
    apply evals_choice_r; [apply (str_no Atomic false _ p sg _ H); now apply first_byte_ne|apply (str_no Atomic false _ p sg _ H); apply first_byte_ne; auto; lia].
  - apply atomic_skip.
  - apply (any_char em p sg c rest Sc H).
Qed.
(* the raw run stops at the quote and at a backslash *)
Lemma raw_no em (q : byte) p sg b rest : (b = q \/ b = 92%N) -> skipn p w = b :: rest -> mev Atomic em (raw_unit q) p sg SFail.
Proof.
  intros Hb H. unfold raw_unit, seql, chol, Lt, Rf. cbn [fold_left]. apply evals_seq_fail.
  pose proof (evals_neg G false (fun _ => None) w Atomic em (EChoice (EStr [q]) (EStr (nm "\"))) p sg (SMatch (p + 1) sg [])) as Ng. cbn in Ng. apply Ng.
  pose proof (lit1 Atomic false q b p sg rest H) as X1. pose proof (lit1 Atomic false 92%N b p sg rest H) as X2.
  destruct Hb as [-> | ->].
  - rewrite N.eqb_refl in X1. now apply evals_choice_l.
  - destruct (q =? 92)%N; [now apply evals_choice_l|]. apply evals_choice_r; [exact X1|]. exact X2.
Qed.

Definition str_tail (em : bool) (sg : list str) (p q : nat) : Prop :=
  exists p1, mreps Atomic em (raw_unit 34%N) p sg [] (SMatch p1 sg []) /\ mev Atomic em str_opt p1 sg (SMatch q sg []).

Lemma inner_str_of_tail em sg p q : str_tail em sg p q -> mev Atomic em (EIdent (nm "inner_str")) p sg (SMatch q sg []).
Proof.
  intros (p1 & R & O). apply (call_atomic em (nm "inner_str") inner_str_rule p sg _); try reflexivity.
  cbn [rexpr inner_str_rule mk]. unfold seql. cbn [fold_left].
  pose proof (evals_seq G false (fun _ => None) w Atomic em (ERep (raw_unit 34%N)) str_opt p sg p1 sg [] p1 sg [] (SMatch q sg [])) as S1. cbn [app] in S1.
  apply S1; [apply evals_rep_atomic; [reflexivity|exact R]|apply atomic_skip|exact O].
Qed.

Theorem inner_str_tail em sg cs ew : spells_string 34%N cs ew -> forall p rest, skipn p w = ew ++ 34%N :: rest ->
  str_tail em sg p (p + List.length ew).
Proof.
  induction 1 as [|c cs e1 ew' Hc Hs IH]; intros p rest H.
  - cbn [app List.length] in *. rewrite Nat.add_0_r. exists p. split.
    + apply reps_stop. apply (runits_intro G false _ w Atomic em _ p sg p sg [] SFail (atomic_skip em p sg)).
      apply (raw_no em 34%N p sg 34%N rest (or_introl eq_refl) H).
    + unfold str_opt, seql. cbn [fold_left].
      pose proof (evals_opt G false (fun _ => None) w Atomic em (ESeq (Rf "escape") (Rf "inner_str")) p sg SFail) as O. cbn in O. apply O.
      apply evals_seq_fail. apply (escape_no em p sg _ H). reflexivity.
  - rewrite <- app_assoc in H. rewrite app_length, Nat.add_assoc.
    destruct (IH (p + List.length e1) rest (at_advance p e1 _ H)) as (p1 & R & O).
    destruct (spells_char_cases 34%N c e1 Hc) as [(Sc & Hb & Hq & ->)|Esc].
    + (* a raw character: one more iteration of the raw run *)
      exists p1. split; [|exact O].
      apply (reps_step G false _ w Atomic em _ p sg [] (p + List.length (encode c)) sg []); [|rewrite app_nil_r; exact R].
      apply (runits_intro G false _ w Atomic em _ p sg p sg [] (SMatch (p + List.length (encode c)) sg []) (atomic_skip em p sg)).
      apply (raw_yes em 34%N p sg c _ ltac:(reflexivity) Sc Hb Hq H).
    + (* an escape: the raw run is empty here, the optional part takes the escape and the rest of the string *)
      assert (B : exists r, e1 = 92%N :: r) by (destruct Esc; eexists; reflexivity). destruct B as (r & ->).
      exists p. split.
      * apply reps_stop. apply (runits_intro G false _ w Atomic em _ p sg p sg [] SFail (atomic_skip em p sg)).
        cbn [app] in H. apply (raw_no em 34%N p sg 92%N _ (or_intror eq_refl) H).
      * unfold str_opt, seql. cbn [fold_left].
        pose proof (evals_opt G false (fun _ => None) w Atomic em (ESeq (Rf "escape") (Rf "inner_str")) p sg
                      (SMatch (p + List.length (92%N :: r) + List.length ew') sg [])) as Op. cbn in Op. apply Op.
        pose proof (evals_seq G false (fun _ => None) w Atomic em (Rf "escape") (Rf "inner_str") p sg
                      (p + List.length (92%N :: r)) sg [] (p + List.length (92%N :: r)) sg [] (SMatch (p + List.length (92%N :: r) + List.length ew') sg [])) as S1.
        cbn [app] in S1. apply S1; clear S1.
        -- apply (escape_lex em p sg _ _ Esc H).
        -- apply atomic_skip.
        -- apply inner_str_of_tail. exists p1. split; assumption.
Qed.

Definition string_rule : rule := mk "string" RCompound (seql (Rf "quote") [Rf "inner_str"; Rf "quote"]).

(* string = ${ quote ~ inner_str ~ quote } : the token tree the reader will see *)
Theorem lex_string a sg cs ew p rest : spells_string 34%N cs ew -> skipn p w = quoted 34%N ew ++ rest ->
  mev a true (EIdent (nm "string")) p sg
      (SMatch (p + List.length (quoted 34%N ew)) sg
         [Node (mid MString) None p (p + List.length (quoted 34%N ew))
            [Node (mid MQuote) None p (p + 1) []; Node (mid MInnerStr) None (p + 1) (p + 1 + List.length ew) [];
             Node (mid MQuote) None (p + 1 + List.length ew) (p + 1 + List.length ew + 1) []]]).
Proof.
  intros Sp H. unfold quoted in *. cbn [app] in H. rewrite <- app_assoc in H. cbn [app] in H.
  assert (H1 : skipn (p + 1) w = ew ++ 34%N :: rest) by (change (34%N :: ew ++ 34%N :: rest) with ([34%N] ++ (ew ++ 34%N :: rest)) in H; apply (at_advance p [34%N] _ H)).
  assert (H2 : skipn (p + 1 + List.length ew) w = 34%N :: rest) by apply (at_advance (p + 1) ew _ H1).
  assert (Len : p + List.length (34%N :: ew ++ [34%N]) = p + 1 + List.length ew + 1) by (unfold byte; cbn [List.length]; rewrite app_length; cbn [List.length]; lia).
  unfold byte in *. rewrite Len.
  pose proof (evals_call G false (fun _ => None) w a true (nm "string") string_rule p sg
                (SMatch (p + 1 + List.length ew + 1) sg
                   [Node (mid MQuote) None p (p + 1) []; Node (mid MInnerStr) None (p + 1) (p + 1 + List.length ew) [];
                    Node (mid MQuote) None (p + 1 + List.length ew) (p + 1 + List.length ew + 1) []]) eq_refl eq_refl) as C.
  cbn [rule_mode is_special rty rexpr string_rule mk snd fst] in C.
  replace (rule_id G (nm "string")) with (mid MString) in C by reflexivity. apply C. clear C.
  unfold seql, Rf. cbn [fold_left].
  assert (Quote : forall pos r0, skipn pos w = 34%N :: r0 ->
            mev CompoundAtomic true (EIdent (nm "quote")) pos sg (SMatch (pos + 1) sg [Node (mid MQuote) None pos (pos + 1) []])).
  { intros pos r0 Hp.
    pose proof (evals_call G false (fun _ => None) w CompoundAtomic true (nm "quote") (mk "quote" RNormal (Lt """")) pos sg (SMatch (pos + 1) sg []) eq_refl eq_refl) as Cq.
    cbn [rule_mode is_special rty rexpr mk snd fst] in Cq. replace (rule_id G (nm "quote")) with (mid MQuote) in Cq by reflexivity. apply Cq.
    change (34%N :: r0) with (nm """" ++ r0) in Hp. apply (str_yes CompoundAtomic true (nm """") pos sg r0 Hp). }
  assert (Csk : forall pos, mskips CompoundAtomic true pos sg (SMatch pos sg [])) by (intros pos; now apply skips_atomic).
  pose proof (evals_seq G false (fun _ => None) w CompoundAtomic true (ESeq (EIdent (nm "quote")) (EIdent (nm "inner_str"))) (EIdent (nm "quote"))
                p sg (p + 1 + List.length ew) sg [Node (mid MQuote) None p (p + 1) []; Node (mid MInnerStr) None (p + 1) (p + 1 + List.length ew) []]
                (p + 1 + List.length ew) sg [] (SMatch (p + 1 + List.length ew + 1) sg [Node (mid MQuote) None (p + 1 + List.length ew) (p + 1 + List.length ew + 1) []])) as S2.
  cbn [app] in S2. apply S2; clear S2.
  - pose proof (evals_seq G false (fun _ => None) w CompoundAtomic true (EIdent (nm "quote")) (EIdent (nm "inner_str"))
                  p sg (p + 1) sg [Node (mid MQuote) None p (p + 1) []] (p + 1) sg []
                  (SMatch (p + 1 + List.length ew) sg [Node (mid MInnerStr) None (p + 1) (p + 1 + List.length ew) []])) as S1.
    cbn [app] in S1. apply S1; clear S1.
    + apply (Quote p _ H).
    + apply Csk.
    + (* inner_str called from the compound-atomic string: a node, atomic body *)
      pose proof (evals_call G false (fun _ => None) w CompoundAtomic true (nm "inner_str") inner_str_rule (p + 1) sg (SMatch (p + 1 + List.length ew) sg []) eq_refl eq_refl) as Ci.
      cbn [rule_mode is_special rty rexpr inner_str_rule mk snd fst] in Ci. replace (rule_id G (nm "inner_str")) with (mid MInnerStr) in Ci by reflexivity. apply Ci. clear Ci.
      destruct (inner_str_tail true sg cs ew Sp (p + 1) rest H1) as (p1 & R & O). unfold seql. cbn [fold_left].
      pose proof (evals_seq G false (fun _ => None) w Atomic true (ERep (raw_unit 34%N)) str_opt (p + 1) sg p1 sg [] p1 sg [] (SMatch (p + 1 + List.length ew) sg [])) as S0.
      cbn [app] in S0. apply S0; [apply evals_rep_atomic; [reflexivity|exact R]|apply atomic_skip|exact O].
  - apply Csk.
  - apply (Quote _ _ H2).
Qed.

(* ---- characters ---- *)
Definition inner_chr_rule : rule := mk "inner_chr" RAtomic (chol (Rf "escape") [raw_unit 39%N]).
Definition character_rule : rule := mk "character" RCompound (seql (Rf "single_quote") [Rf "inner_chr"; Rf "single_quote"]).

Lemma inner_chr_lex em sg c e p rest : spells_char 39%N c e -> skipn p w = e ++ rest ->
  mev Atomic em (rexpr inner_chr_rule) p sg (SMatch (p + List.length e) sg []).
Proof.
  intros Sp H. cbn [rexpr inner_chr_rule mk]. unfold chol, Rf. cbn [fold_left].
  destruct (spells_char_cases 39%N c e Sp) as [(Sc & Hb & Hq & ->)|Esc].
  - apply evals_choice_r.
    + apply (escape_no em p sg _ H). apply first_byte_ne; auto; lia.
    + apply (raw_yes em 39%N p sg c rest ltac:(reflexivity) Sc Hb Hq H).
  - apply evals_choice_l. apply (escape_lex em p sg e rest Esc H).
Qed.

Theorem lex_character a sg c e p rest : spells_char 39%N c e -> skipn p w = quoted 39%N e ++ rest ->
  mev a true (EIdent (nm "character")) p sg
      (SMatch (p + List.length (quoted 39%N e)) sg
         [Node (mid MCharacter) None p (p + List.length (quoted 39%N e))
            [Node (mid MSingleQuote) None p (p + 1) []; Node (mid MInnerChr) None (p + 1) (p + 1 + List.length e) [];
             Node (mid MSingleQuote) None (p + 1 + List.length e) (p + 1 + List.length e + 1) []]]).
Proof.
  intros Sp H. unfold quoted in *. cbn [app] in H. rewrite <- app_assoc in H. cbn [app] in H.
  assert (H1 : skipn (p + 1) w = e ++ 39%N :: rest) by (change (39%N :: e ++ 39%N :: rest) with ([39%N] ++ (e ++ 39%N :: rest)) in H; apply (at_advance p [39%N] _ H)).
  assert (H2 : skipn (p + 1 + List.length e) w = 39%N :: rest) by apply (at_advance (p + 1) e _ H1).
  assert (Len : p + List.length (39%N :: e ++ [39%N]) = p + 1 + List.length e + 1) by (unfold byte; cbn [List.length]; rewrite app_length; cbn [List.length]; lia).
  unfold byte in *. rewrite Len.
  pose proof (evals_call G false (fun _ => None) w a true (nm "character") character_rule p sg
                (SMatch (p + 1 + List.length e + 1) sg
                   [Node (mid MSingleQuote) None p (p + 1) []; Node (mid MInnerChr) None (p + 1) (p + 1 + List.length e) [];
                    Node (mid MSingleQuote) None (p + 1 + List.length e) (p + 1 + List.length e + 1) []]) eq_refl eq_refl) as C.
  cbn [rule_mode is_special rty rexpr character_rule mk snd fst] in C.
  replace (rule_id G (nm "character")) with (mid MCharacter) in C by reflexivity. apply C. clear C.
  unfold seql, Rf. cbn [fold_left].
  assert (Quote : forall pos r0, skipn pos w = 39%N :: r0 ->
            mev CompoundAtomic true (EIdent (nm "single_quote")) pos sg (SMatch (pos + 1) sg [Node (mid MSingleQuote) None pos (pos + 1) []])).
  { intros pos r0 Hp.
    pose proof (evals_call G false (fun _ => None) w CompoundAtomic true (nm "single_quote") (mk "single_quote" RNormal (Lt "'")) pos sg (SMatch (pos + 1) sg []) eq_refl eq_refl) as Cq.
    cbn [rule_mode is_special rty rexpr mk snd fst] in Cq. replace (rule_id G (nm "single_quote")) with (mid MSingleQuote) in Cq by reflexivity. apply Cq.
    change (39%N :: r0) with (nm "'" ++ r0) in Hp. apply (str_yes CompoundAtomic true (nm "'") pos sg r0 Hp). }
  assert (Csk : forall pos, mskips CompoundAtomic true pos sg (SMatch pos sg [])) by (intros pos; now apply skips_atomic).
  pose proof (evals_seq G false (fun _ => None) w CompoundAtomic true (ESeq (EIdent (nm "single_quote")) (EIdent (nm "inner_chr"))) (EIdent (nm "single_quote"))
                p sg (p + 1 + List.length e) sg [Node (mid MSingleQuote) None p (p + 1) []; Node (mid MInnerChr) None (p + 1) (p + 1 + List.length e) []]
                (p + 1 + List.length e) sg [] (SMatch (p + 1 + List.length e + 1) sg [Node (mid MSingleQuote) None (p + 1 + List.length e) (p + 1 + List.length e + 1) []])) as S2.
  cbn [app] in S2. apply S2; clear S2.
  - pose proof (evals_seq G false (fun _ => None) w CompoundAtomic true (EIdent (nm "single_quote")) (EIdent (nm "inner_chr"))
                  p sg (p + 1) sg [Node (mid MSingleQuote) None p (p + 1) []] (p + 1) sg []
                  (SMatch (p + 1 + List.length e) sg [Node (mid MInnerChr) None (p + 1) (p + 1 + List.length e) []])) as S1.
    cbn [app] in S1. apply S1; clear S1.
    + apply (Quote p _ H).
    + apply Csk.
    + pose proof (evals_call G false (fun _ => None) w CompoundAtomic true (nm "inner_chr") inner_chr_rule (p + 1) sg (SMatch (p + 1 + List.length e) sg []) eq_refl eq_refl) as Ci.
      cbn [rule_mode is_special rty snd fst] in Ci. replace (rule_id G (nm "inner_chr")) with (mid MInnerChr) in Ci by reflexivity. apply Ci. clear Ci.
      apply (inner_chr_lex true sg c e (p + 1) _ Sp H1).
  - apply Csk.
  - apply (Quote _ _ H2).
Qed.

(* ---- the two non-atomic lexical rules: gaps between their parts ---- *)
Lemma gap_end_byte (b : byte) l : b <> 32%N -> b <> 9%N -> b <> 10%N -> b <> 13%N -> b <> 47%N -> gap_end (b :: l).
Proof.
  intros N1 N2 N3 N4 N5.
  assert (E : forall x : byte, x <> b -> (x =? b)%N = false) by (intros x Hx; now apply N.eqb_neq).
  assert (P1 : forall (x : byte) s, x <> b -> prefixb (x :: s) (b :: l) = false) by (intros x s Hx; cbn [prefixb]; now rewrite (E x Hx)).
  unfold gap_end, no_white. repeat split; try left; apply P1; apply not_eq_sym; assumption.
Qed.

Definition insens_rule : rule := mk "insensitive_string" RNormal (seql (Lt "^") [Rf "string"]).
Definition string_node (p : nat) (ew : list byte) : tree :=
  Node (mid MString) None p (p + List.length (quoted 34%N ew))
    [Node (mid MQuote) None p (p + 1) []; Node (mid MInnerStr) None (p + 1) (p + 1 + List.length ew) [];
     Node (mid MQuote) None (p + 1 + List.length ew) (p + 1 + List.length ew + 1) []].

(* insensitive_string = { "^" ~ string } : any gap may separate the caret from the literal *)
Theorem lex_insens sg cs ew g p rest : spells_string 34%N cs ew -> gap g -> skipn p w = 94%N :: g ++ quoted 34%N ew ++ rest ->
  let q := p + 1 + List.length g in
  mev NonAtomic true (EIdent (nm "insensitive_string")) p sg
      (SMatch (q + List.length (quoted 34%N ew)) sg
         [Node (mid MInsensitiveString) None p (q + List.length (quoted 34%N ew)) [string_node q ew]]).
Proof.
  intros Sp Hg H q.
  assert (H1 : skipn (p + 1) w = g ++ quoted 34%N ew ++ rest) by (change (94%N :: g ++ quoted 34%N ew ++ rest) with ([94%N] ++ (g ++ quoted 34%N ew ++ rest)) in H; apply (at_advance p [94%N] _ H)).
  assert (H2 : skipn q w = quoted 34%N ew ++ rest) by apply (at_advance (p + 1) g _ H1).
  pose proof (evals_call G false (fun _ => None) w NonAtomic true (nm "insensitive_string") insens_rule p sg
                (SMatch (q + List.length (quoted 34%N ew)) sg [string_node q ew]) eq_refl eq_refl) as C.
  cbn [rule_mode is_special rty rexpr insens_rule mk snd fst] in C.
  replace (rule_id G (nm "insensitive_string")) with (mid MInsensitiveString) in C by reflexivity. apply C. clear C.
  unfold seql, Lt, Rf. cbn [fold_left].
  pose proof (evals_seq G false (fun _ => None) w NonAtomic true (EStr (nm "^")) (EIdent (nm "string")) p sg (p + 1) sg [] q sg []
                (SMatch (q + List.length (quoted 34%N ew)) sg [string_node q ew])) as S1. cbn [app] in S1. apply S1; clear S1.
  - change (94%N :: g ++ quoted 34%N ew ++ rest) with (nm "^" ++ (g ++ quoted 34%N ew ++ rest)) in H. apply (str_yes NonAtomic true (nm "^") p sg _ H).
  - apply (gap_lex g true sg (p + 1) (quoted 34%N ew ++ rest) Hg); [|exact H1]. unfold quoted. cbn [app]. apply gap_end_byte; discriminate.
  - apply (lex_string NonAtomic sg cs ew q rest Sp H2).
Qed.

Definition range_rule : rule := mk "range" RNormal (seql (Rf "character") [Rf "range_operator"; Rf "character"]).
Definition char_node (p : nat) (e : list byte) : tree :=
  Node (mid MCharacter) None p (p + List.length (quoted 39%N e))
    [Node (mid MSingleQuote) None p (p + 1) []; Node (mid MInnerChr) None (p + 1) (p + 1 + List.length e) [];
     Node (mid MSingleQuote) None (p + 1 + List.length e) (p + 1 + List.length e + 1) []].

(* range = { character ~ range_operator ~ character } *)
Theorem lex_range sg lo hi e1 e2 g1 g2 p rest : spells_char 39%N lo e1 -> spells_char 39%N hi e2 -> gap g1 -> gap g2 ->
  skipn p w = quoted 39%N e1 ++ g1 ++ [46%N; 46%N] ++ g2 ++ quoted 39%N e2 ++ rest ->
  let p1 := p + List.length (quoted 39%N e1) + List.length g1 in
  let p2 := p1 + 2 + List.length g2 in
  mev NonAtomic true (EIdent (nm "range")) p sg
      (SMatch (p2 + List.length (quoted 39%N e2)) sg
         [Node (mid MRange) None p (p2 + List.length (quoted 39%N e2))
            [char_node p e1; Node (mid MRangeOperator) None p1 (p1 + 2) []; char_node p2 e2]]).
Proof.
  intros S1 S2 Hg1 Hg2 H p1 p2.
  assert (Ha : skipn (p + List.length (quoted 39%N e1)) w = g1 ++ [46%N; 46%N] ++ g2 ++ quoted 39%N e2 ++ rest) by apply (at_advance p _ _ H).
  assert (Hb : skipn p1 w = [46%N; 46%N] ++ g2 ++ quoted 39%N e2 ++ rest) by apply (at_advance _ g1 _ Ha).
  assert (Hc : skipn (p1 + 2) w = g2 ++ quoted 39%N e2 ++ rest) by apply (at_advance p1 [46%N; 46%N] _ Hb).
  assert (Hd : skipn p2 w = quoted 39%N e2 ++ rest) by apply (at_advance (p1 + 2) g2 _ Hc).
  pose proof (evals_call G false (fun _ => None) w NonAtomic true (nm "range") range_rule p sg
                (SMatch (p2 + List.length (quoted 39%N e2)) sg [char_node p e1; Node (mid MRangeOperator) None p1 (p1 + 2) []; char_node p2 e2]) eq_refl eq_refl) as C.
  cbn [rule_mode is_special rty rexpr range_rule mk snd fst] in C.
  replace (rule_id G (nm "range")) with (mid MRange) in C by reflexivity. apply C. clear C.
  unfold seql, Rf. cbn [fold_left].
  pose proof (evals_seq G false (fun _ => None) w NonAtomic true (ESeq (EIdent (nm "character")) (EIdent (nm "range_operator"))) (EIdent (nm "character"))
                p sg (p1 + 2) sg [char_node p e1; Node (mid MRangeOperator) None p1 (p1 + 2) []] p2 sg []
                (SMatch (p2 + List.length (quoted 39%N e2)) sg [char_node p2 e2])) as Sb. cbn [app] in Sb. apply Sb; clear Sb.
  - pose proof (evals_seq G false (fun _ => None) w NonAtomic true (EIdent (nm "character")) (EIdent (nm "range_operator"))
                  p sg (p + List.length (quoted 39%N e1)) sg [char_node p e1] p1 sg []
                  (SMatch (p1 + 2) sg [Node (mid MRangeOperator) None p1 (p1 + 2) []])) as Sa. cbn [app] in Sa. apply Sa; clear Sa.
    + apply (lex_character NonAtomic sg lo e1 p _ S1 H).
    + apply (gap_lex g1 true sg _ ([46%N; 46%N] ++ g2 ++ quoted 39%N e2 ++ rest) Hg1); [|exact Ha]. apply gap_end_byte; discriminate.
    + pose proof (evals_call G false (fun _ => None) w NonAtomic true (nm "range_operator") (mk "range_operator" RNormal (Lt "..")) p1 sg (SMatch (p1 + 2) sg []) eq_refl eq_refl) as Cq.
      cbn [rule_mode is_special rty rexpr mk snd fst] in Cq. replace (rule_id G (nm "range_operator")) with (mid MRangeOperator) in Cq by reflexivity. apply Cq.
      apply (str_yes NonAtomic true (nm "..") p1 sg _ Hb).
  - apply (gap_lex g2 true sg _ (quoted 39%N e2 ++ rest) Hg2); [|exact Hc]. unfold quoted. cbn [app]. apply gap_end_byte; discriminate.
  - apply (lex_character NonAtomic sg hi e2 p2 rest S2 Hd).
Qed.
End Lex.
