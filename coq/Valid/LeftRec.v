(* The left-recursion check (repaired check_expr, fix_lr = true):
     lefts cur e    the rule references that check_expr visits inside e when the rule being
                    traversed is `cur` (the seed of the nullable test, trace.last())
     ledge v x      x is visited in the body of v
   check_none_lefts : a DFS that returns no error has looked at every such reference: none is the
                      root, and the DFS of every one not yet on the trace returned no error either;
   no_reentry       : if every root passes, then a duplicate-free chain of ledge-edges
                      v_k -> ... -> v_1 cannot be closed by an edge v_1 -> v_j (the DFS rooted at v_j
                      follows exactly that chain and would report it).                          *)
From Coq Require Import String Ascii List Arith NArith ZArith Bool Lia.
Import ListNotations.
Require Import PV.Comb.PState PV.Peg.Ast PV.Valid.Validator PV.Valid.Nullable.

Lemma NoDup_app_l {A} (a b : list A) : NoDup (a ++ b) -> NoDup a.
Proof.
  induction a as [|x a IH]; cbn; intros H; [constructor|].
  inversion H; subst. constructor; [|auto]. intros Hx. apply H2. apply in_or_app. auto.
Qed.

Section LeftRec.
Variable cfg : vcfg.
Variable G : grammar.
Hypothesis Hfix : fix_lr cfg = true.

Notation lookup := (lookup G).
Notation check := (check cfg G).
Notation check_e := (check_e cfg G).

Fixpoint lefts (cur : name) (e : expr) : list name :=
  match e with
  | EIdent n => [n]
  | ESeq l r => lefts cur l ++ match nullable_seeded G cur l with Some false => [] | _ => lefts cur r end
  | EChoice l r => lefts cur l ++ lefts cur r
  | ERep x | ERepOnce x | EOpt x | EPosPred x | ENegPred x | EPush x
  | ERepExact x _ | ERepMin x _ | ERepMax x _ | ERepMinMax x _ _ | ENodeTag x _ => lefts cur x
  | _ => []
  end.

Definition ledge (v x : name) : Prop := exists b, lookup v = Some b /\ In x (lefts v b).

Lemma vec_first_last l x : vec_first (l ++ [x]) = Some x.
Proof.
  induction l as [|y l IH]; [reflexivity|]. cbn [app vec_first].
  destruct (l ++ [x]) eqn:E; [destruct l; discriminate|]. exact IH.
Qed.

(* what a DFS without error has established *)
Lemma check_e_none_lefts rec cur T e :
  check_e rec (cur :: T) e = CNone ->
  forall y, In y (lefts cur e) ->
    (exists root, vec_first (cur :: T) = Some root /\ str_eqb root y = false) /\
    (mem y (cur :: T) = false -> forall b, lookup y = Some b -> rec (y :: cur :: T) b = CNone).
Proof.
  induction e; cbn [check_e lefts]; intros H y Hy; try (destruct Hy; fail); try (rewrite Hfix in H; auto; fail); auto.
  - (* EIdent *)
    destruct Hy as [<-|[]].
    destruct (vec_first (cur :: T)) as [root|] eqn:Ev; [|discriminate].
    destruct (str_eqb root n) eqn:Er; [discriminate|].
    split; [eauto|]. intros Hm b Hb. rewrite Hm in H. unfold Validator.lookup in *.
    destruct (find_rule G n); [|discriminate]. inversion Hb; subst. exact H.
  - (* ESeq *)
    rewrite Hfix in H.
    destruct (check_e rec (cur :: T) e1) eqn:E1; try discriminate.
    apply in_app_or in Hy. destruct Hy as [Hy|Hy]; [now apply IHe1|].
    destruct (nullable_seeded G cur e1) as [[|]|]; try discriminate; [now apply IHe2|destruct Hy].
  - (* EChoice *)
    destruct (check_e rec (cur :: T) e1) eqn:E1; try discriminate.
    apply in_app_or in Hy. destruct Hy as [Hy|Hy]; [now apply IHe1|now apply IHe2].
Qed.

Lemma check_none_lefts f cur T e :
  check f (cur :: T) e = CNone ->
  exists f', f = S f' /\
  forall y, In y (lefts cur e) ->
    (exists root, vec_first (cur :: T) = Some root /\ str_eqb root y = false) /\
    (mem y (cur :: T) = false -> forall b, lookup y = Some b -> check f' (y :: cur :: T) b = CNone).
Proof.
  destruct f as [|f]; [discriminate|]. cbn [Validator.check]. intros H. exists f. split; auto.
  now apply check_e_none_lefts.
Qed.

(* every DFS of left_recursion returned None *)
Definition lr_ok : Prop := forall x b, lookup x = Some b -> check (vfuel G) [x] b = CNone.

(* a chain of rules, each visited in the body of the next one: head = innermost *)
Fixpoint chain (V : list name) : Prop :=
  match V with
  | [] => True
  | v1 :: V' => (exists b, lookup v1 = Some b) /\ match V' with [] => True | v2 :: _ => ledge v2 v1 end /\ chain V'
  end.

Lemma chain_prefix l1 : forall x l2, chain (l1 ++ x :: l2) -> chain (l1 ++ [x]).
Proof.
  induction l1 as [|y l1 IH]; intros x l2 H.
  - cbn in *. tauto.
  - cbn [app chain] in *. destruct H as (H1 & H2 & H3). split; [auto|]. split.
    + destruct l1; cbn in *; auto.
    + eapply IH; eauto.
Qed.

Lemma chain_dfs : lr_ok -> forall S0, S0 <> [] -> NoDup S0 -> chain S0 ->
  exists f b1, lookup (hd [] S0) = Some b1 /\ check f S0 b1 = CNone.
Proof.
  intros Hok. induction S0 as [|v1 S' IH]; intros Hne Hnd Hch; [congruence|].
  cbn [chain] in Hch. destruct Hch as ((b1 & Hb1) & He & Hc). cbn [hd].
  destruct S' as [|v2 S''].
  - exists (vfuel G), b1. split; auto.
  - inversion Hnd as [|? ? Hni Hnd']; subst.
    destruct (IH ltac:(discriminate) Hnd' Hc) as (f & b2 & Hb2 & Hck). cbn [hd] in Hb2.
    destruct (check_none_lefts _ _ _ _ Hck) as (f' & -> & Hl).
    destruct He as (b2' & Hb2' & Hin). rewrite Hb2 in Hb2'. inversion Hb2'; subst b2'.
    destruct (Hl _ Hin) as [_ Hrec].
    exists f', b1. split; auto. apply Hrec; auto. now apply mem_false_In.
Qed.

(* the heart of the termination argument: a left-call chain cannot re-enter one of its rules *)
Theorem no_reentry : lr_ok -> forall V x, V <> [] -> NoDup V -> chain V -> ledge (hd [] V) x -> In x V -> False.
Proof.
  intros Hok V x Hne Hnd Hch Hedge Hin.
  destruct (in_split _ _ Hin) as (l1 & l2 & ->).
  assert (Hch' : chain (l1 ++ [x])) by (eapply chain_prefix; eauto).
  assert (Hnd' : NoDup (l1 ++ [x])).
  { replace (l1 ++ x :: l2) with ((l1 ++ [x]) ++ l2) in Hnd by (rewrite <- app_assoc; reflexivity).
    now apply NoDup_app_l in Hnd. }
  destruct (chain_dfs Hok (l1 ++ [x]) ltac:(destruct l1; discriminate) Hnd' Hch') as (f & b1 & Hb1 & Hck).
  assert (Hhd : hd [] (l1 ++ [x]) = hd [] (l1 ++ x :: l2)) by (destruct l1; reflexivity).
  rewrite Hhd in Hb1. destruct Hedge as (b & Hb & Hx). rewrite Hb1 in Hb. inversion Hb; subst b.
  destruct (l1 ++ [x]) as [|cur T] eqn:E; [destruct l1; discriminate|].
  assert (Hcur : cur = hd [] (l1 ++ x :: l2)).
  { cbn in Hhd. exact Hhd. }
  destruct (check_none_lefts _ _ _ _ Hck) as (f' & -> & Hl).
  rewrite <- Hcur in Hx. destruct (Hl _ Hx) as [(root & Hr & Hne') _].
  rewrite <- E, vec_first_last in Hr. inversion Hr; subst root. rewrite str_eqb_refl in Hne'. discriminate.
Qed.

End LeftRec.
