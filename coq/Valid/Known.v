(* Decidable classes and syntactic predicates used by the statements of C06 (executable part).

   ws_reaches_nonatomic G : the class of grammars in which the implicit WHITESPACE / COMMENT rule
   reaches (through rule references, at any position) a non-atomic (`!`) rule that is not itself
   WHITESPACE / COMMENT.  Such a rule switches the parser back to NonAtomic INSIDE the implicit
   skip, so the skip calls itself: check_expr knows nothing about implicit calls
   (witness: r = { "x" ~ "y" }  WHITESPACE = { n }  n = !{ "" ~ " " }).

   starts_with_char_b : the boolean version (fuelled through references) of `starts_with_char`. *)
From Coq Require Import List Arith NArith ZArith Bool String Ascii.
Import ListNotations.
Require Import PV.Comb.PState PV.Peg.Ast PV.Peg.Spec PV.Valid.Validator.

(* no node tags (what the meta-parser produces without the grammar-extras feature) *)
Fixpoint tag_free (e : expr) : bool :=
  match e with
  | ENodeTag _ _ => false
  | EPosPred x | ENegPred x | ERep x | ERepOnce x | ERepExact x _ | ERepMin x _ | ERepMax x _
  | ERepMinMax x _ _ | EOpt x | EPush x => tag_free x
  | ESeq l r | EChoice l r => tag_free l && tag_free r
  | _ => true
  end.
Definition no_tags (G : grammar) : bool := forallb (fun r => tag_free (rexpr r)) G.

Section Known.
Variable G : grammar.

Definition nonatomic_rule (n : name) : bool :=
  match find_rule G n with
  | Some r => negb (is_special n) && match rty r with RNonAtomic => true | _ => false end
  | None => false
  end.

(* DFS with the path as `trace` (as the validator does) *)
Fixpoint rna (fuel : nat) (trace : list name) (e : expr) {struct fuel} : bool :=
  match fuel with
  | O => true     (* out of fuel: conservatively in the class *)
  | S f =>
    existsb (fun x => negb (mem x trace) &&
                      match find_rule G x with
                      | Some r => nonatomic_rule x || rna f (x :: trace) (rexpr r)
                      | None => false
                      end) (idents e)
  end.

Definition ws_reaches_nonatomic : bool :=
  existsb (fun s => has_rule G s && rna (S (List.length G)) [] (EIdent s)) [nm "WHITESPACE"; nm "COMMENT"].

(* single-character built-in rules (when not shadowed by a user rule in the validator's eyes) *)
Definition char_builtin (uprop_name : name -> bool) (n : name) : bool :=
  negb (str_eqb n (nm "SOI") || str_eqb n (nm "EOI")) &&
  match ascii_builtin n with Some _ => true | None => str_eqb n (nm "NEWLINE") || uprop_name n end.

Fixpoint swc_e (uprop_name : name -> bool) (rec : expr -> bool) (e : expr) : bool :=
  match e with
  | EStr s | EInsens s => negb (is_nil s)
  | ERange _ _ => true
  | EIdent n => match find_rule G n with
                | Some r => negb (str_eqb n (nm "SOI") || str_eqb n (nm "EOI")) && rec (rexpr r)
                | None => char_builtin uprop_name n
                end
  | ESeq l _ => swc_e uprop_name rec l
  | EChoice l r => swc_e uprop_name rec l && swc_e uprop_name rec r
  | ERepOnce x | EPush x | ENodeTag x _ => swc_e uprop_name rec x
  | ERepExact x n | ERepMin x n | ERepMinMax x n _ => negb (n_is_zero n) && swc_e uprop_name rec x
  | _ => false
  end.
Fixpoint starts_with_char_b (uprop_name : name -> bool) (fuel : nat) (e : expr) {struct fuel} : bool :=
  match fuel with O => false | S f => swc_e uprop_name (starts_with_char_b uprop_name f) e end.

End Known.
