(* Termination of Layer S on accepted grammars, part 1: the vocabulary.
     reps_ok e     every `*`, `+`, `{n,}` body inside e is progressing in the validator's eyes
     ReachRef/NAfree, KnownWs   the class of grammars in which WHITESPACE / COMMENT reach a `!` rule
     Good / ModeOK / SemN       the invariants of the main induction (Termination.v)
     loop_term                  a loop whose unit terminates and progresses terminates           *)
From Coq Require Import String Ascii List Arith NArith ZArith Bool Lia.
Import ListNotations.
Require Import PV.Comb.PState PV.Comb.Bytes PV.Iter.Queue PV.Peg.Ast PV.Peg.Spec PV.Peg.SpecFacts.
Require Import PV.Valid.Validator PV.Valid.Known PV.Valid.Nullable PV.Valid.Progress.

Arguments Nat.sub : simpl never.
Arguments Nat.max : simpl never.

Section Base.
Variable G : grammar.
Variable extras : bool.
Variable uprop : name -> option (N -> bool).
Variable w : list byte.

Notation eval := (Spec.eval G extras uprop w).

Fixpoint reps_ok (e : expr) : Prop :=
  match e with
  | ERep x | ERepOnce x | ERepMin x _ => np G (vfuel G) [] x = Some false /\ reps_ok x
  | EPosPred x | ENegPred x | ERepExact x _ | ERepMax x _ | ERepMinMax x _ _ | EOpt x | EPush x | ENodeTag x _ => reps_ok x
  | ESeq l r | EChoice l r => reps_ok l /\ reps_ok r
  | _ => True
  end.

(* rules reachable through references (at any position) *)
Inductive ReachRef : expr -> name -> Prop :=
| RRhere e x : In x (idents e) -> ReachRef e x
| RRstep e y r x : In y (idents e) -> find_rule G y = Some r -> ReachRef (rexpr r) x -> ReachRef e x.

Definition NAfree (e : expr) : Prop := forall x, ReachRef e x -> nonatomic_rule G x = false.

(* the known class: the implicit WHITESPACE / COMMENT rule reaches a `!` rule *)
Definition KnownWs : Prop :=
  exists s x, is_special s = true /\ has_rule G s = true /\ ReachRef (EIdent s) x /\ nonatomic_rule G x = true.

Lemma NAfree_sub e e' : (forall x, In x (idents e') -> In x (idents e)) -> NAfree e -> NAfree e'.
Proof.
  intros Hi H x Hx. apply H. inversion Hx; subst.
  - apply RRhere; auto.
  - eapply RRstep; eauto.
Qed.
Lemma NAfree_body x r : NAfree (EIdent x) -> find_rule G x = Some r -> NAfree (rexpr r).
Proof. intros H Hf y Hy. apply H. eapply RRstep; eauto. cbn; auto. Qed.
Lemma NAfree_ident x : NAfree (EIdent x) -> nonatomic_rule G x = false.
Proof. intros H. apply H. apply RRhere. cbn; auto. Qed.

(* phase: ph = true inside the implicit WHITESPACE / COMMENT (never NonAtomic again) *)
Definition Good (ph : bool) (e : expr) : Prop :=
  stack_free e = true /\ reps_ok e /\ (ph = true -> NAfree e).
Definition ModeOK (ph : bool) (a : atom) : Prop := ph = true -> a <> NonAtomic.

Definition SemN (ph : bool) (p : nat) (N : Prop) (e : expr) : Prop :=
  forall a emit sg, ModeOK ph a ->
  exists n r, eval n a emit e p sg = r /\ r <> SFuel /\ (forall sg' f', r = SMatch p sg' f' -> N).
Definition Sem (ph : bool) (p : nat) (V : list name) (e : expr) : Prop := SemN ph p (Null G V e) e.

Definition SkipTerm (ph : bool) : Prop :=
  forall a emit p sg, ModeOK ph a -> p <= length w ->
  exists n r, skip_with G (eval n) n a emit p sg = r /\ r <> SFuel.

(* ---- fuel ---- *)
Lemma eval_up n m a emit e p sg r : n <= m -> eval n a emit e p sg = r -> r <> SFuel -> eval m a emit e p sg = r.
Proof. intros H. apply (eval_mono G extras uprop w n m H). Qed.
Lemma skip_up n m a emit p sg r : n <= m -> skip_with G (eval n) n a emit p sg = r -> r <> SFuel -> skip_with G (eval m) m a emit p sg = r.
Proof. intros H. apply skip_mono; auto. now apply eval_mono. Qed.

Lemma SemN_weaken ph p (N1 N2 : Prop) e : (N1 -> N2) -> SemN ph p N1 e -> SemN ph p N2 e.
Proof.
  intros HN H a emit sg Hm. destruct (H a emit sg Hm) as (n & r & E & Hr & Z).
  exists n, r. repeat split; auto. intros sg' f' Er. eapply HN, Z; eauto.
Qed.

(* ---- loops ---- *)
Lemma loop_term (U : nat -> nat -> list str -> sres) (q0 : nat) :
  (forall n m, n <= m -> ext_unit (U n) (U m)) ->
  (forall q sg, q0 <= q <= length w -> exists n r, U n q sg = r /\ r <> SFuel) ->
  (forall n q sg q' sg' f', q0 <= q <= length w -> U n q sg = SMatch q' sg' f' -> q < q' <= length w) ->
  forall q sg acc, q0 <= q <= length w -> exists n r, loop n (U n) q sg acc = r /\ r <> SFuel.
Proof.
  intros Umono Uterm Uprog q. remember (length w - q) as d eqn:Hd. revert q Hd.
  induction d as [d IH] using lt_wf_ind. intros q Hd sg acc Hq.
  destruct (Uterm q sg Hq) as (n1 & r1 & E1 & N1).
  destruct r1 as [q' sg' f'| |]; [| |congruence].
  - pose proof (Uprog _ _ _ _ _ _ Hq E1) as Hq'.
    destruct (IH (length w - q') ltac:(lia) q' eq_refl sg' (acc ++ f') ltac:(lia)) as (n2 & r2 & E2 & N2).
    exists (S (Nat.max n1 n2)), r2. split; auto. cbn [loop].
    rewrite (Umono n1 (S (Nat.max n1 n2)) ltac:(lia) _ _ _ E1) by discriminate.
    eapply loop_mono; [|  |exact E2|exact N2]; [apply Umono|]; lia.
  - exists (S n1), (SMatch q sg acc). split; [|discriminate]. cbn [loop].
    rewrite (Umono n1 (S n1) ltac:(lia) _ _ _ E1) by discriminate. reflexivity.
Qed.

End Base.
