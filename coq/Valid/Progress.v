(* Semantic facts about Layer S (Peg/Spec.v) used by C06:
     - eval_range : a match never moves backwards and stays inside the input;
     - np_sound   : soundness of is_non_progressing w.r.t. Layer S - an expression that the
                    validator calls progressing (result false) consumes at least one byte whenever
                    it matches, for grammars without the stack-reading built-ins.  The proof is
                    an induction on the evaluation fuel; the `trace` cut ("a rule already on the
                    trace counts as progressing") is justified by the induction hypothesis at
                    smaller fuel, so no assumption about left recursion is needed.            *)
From Coq Require Import String Ascii List Arith NArith ZArith Bool Lia.
Import ListNotations.
Require Import PV.Comb.PState PV.Comb.Bytes PV.Iter.Queue PV.Peg.Ast PV.Peg.Spec PV.Peg.SpecFacts.
Require Import PV.Valid.Validator PV.Valid.Nullable.

Arguments Nat.sub : simpl never.

(* ---------------------------------------------------------------------------------------- *)
(* bytes                                                                                    *)
(* ---------------------------------------------------------------------------------------- *)
Lemma prefixb_length a : forall b, prefixb a b = true -> length a <= length b.
Proof.
  induction a as [|x a IH]; intros [|y b]; cbn; intros H; try lia; try discriminate.
  apply andb_true_iff in H. destruct H as [_ H]. apply IH in H. lia.
Qed.
Lemma skipn_length_le {A} (l : list A) p : length (skipn p l) = length l - p.
Proof. apply skipn_length. Qed.

Lemma decode1_len l c n : decode1 l = Some (c, n) -> 1 <= n <= length l.
Proof.
  unfold decode1. destruct l as [|b0 r]; [discriminate|].
  destruct (b0 <? 128)%N; [intros H; inversion H; subst; cbn; lia|].
  destruct (b0 <? 192)%N; [discriminate|].
  destruct (b0 <? 224)%N.
  { destruct r as [|b1 r]; [discriminate|]. intros H; inversion H; subst; cbn; lia. }
  destruct (b0 <? 240)%N.
  { destruct r as [|b1 [|b2 r]]; try discriminate. intros H; inversion H; subst; cbn; lia. }
  destruct r as [|b1 [|b2 [|b3 r]]]; try discriminate. intros H; inversion H; subst; cbn; lia.
Qed.

Lemma skip_until_basic_from_range inp ss count : forall from, from + count = length inp ->
  from <= skip_until_basic_from inp ss from count <= length inp.
Proof.
  induction count as [|c IH]; intros from H; cbn [skip_until_basic_from]; [lia|].
  destruct (_ && _); [lia|]. specialize (IH (S from)). lia.
Qed.
Lemma skip_until_basic_range inp p ss : p <= length inp -> p <= skip_until_basic inp p ss <= length inp.
Proof. intros H. unfold skip_until_basic. apply skip_until_basic_from_range. lia. Qed.

Section Sem.
Variable G : grammar.
Variable extras : bool.
Variable uprop : name -> option (N -> bool).
Variable w : list byte.

Notation eval := (Spec.eval G extras uprop w).
Notation lit := (Spec.lit w).
Notation lit_all := (Spec.lit_all w).
Notation one_char := (Spec.one_char w).

Lemma lit_range s p q : lit s p = Some q -> p <= length w -> q = p + length s /\ q <= length w.
Proof.
  unfold Spec.lit. destruct (prefixb s (skipn p w)) eqn:E; [|discriminate].
  intros H Hp. inversion H; subst. apply prefixb_length in E. rewrite skipn_length in E. lia.
Qed.
Lemma lit_all_range l : forall p q, lit_all l p = Some q -> p <= length w -> p <= q <= length w.
Proof.
  induction l as [|s l IH]; cbn [Spec.lit_all]; intros p q H Hp.
  - inversion H; subst. lia.
  - destruct (lit s p) as [q1|] eqn:E; [|discriminate]. apply lit_range in E; auto.
    apply IH in H; lia.
Qed.
Lemma one_char_range ok p sg p' sg' f' : one_char ok p sg = SMatch p' sg' f' -> p <= length w -> p < p' <= length w.
Proof.
  unfold Spec.one_char, Spec.char_here. destruct (decode1 (skipn p w)) as [[c n]|] eqn:E; [|discriminate].
  destruct (ok c); [|discriminate]. intros H Hp. inversion H; subst.
  apply decode1_len in E. rewrite skipn_length in E. lia.
Qed.

(* ---------------------------------------------------------------------------------------- *)
(* range                                                                                    *)
(* ---------------------------------------------------------------------------------------- *)
Definition ranged (ev : evaluator) : Prop :=
  forall a emit e p sg p' sg' f', ev a emit e p sg = SMatch p' sg' f' -> p <= length w -> p <= p' <= length w.
Definition ranged_unit (u : nat -> list str -> sres) : Prop :=
  forall p sg p' sg' f', u p sg = SMatch p' sg' f' -> p <= length w -> p <= p' <= length w.

Lemma loop_range n u : ranged_unit u -> forall p sg acc p' sg' f',
  loop n u p sg acc = SMatch p' sg' f' -> p <= length w -> p <= p' <= length w.
Proof.
  intros Hu. induction n as [|n IH]; intros p sg acc p' sg' f' H Hp; cbn [loop] in H; [discriminate|].
  destruct (u p sg) as [p1 sg1 f1| |] eqn:E; try discriminate.
  - apply Hu in E; auto. apply IH in H; lia.
  - inversion H; subst. lia.
Qed.
Lemma many_range ev a emit nm0 : ranged ev -> ranged_unit (fun p sg => ev a emit (EIdent nm0) p sg).
Proof. intros He p sg p' sg' f' H Hp. eapply He; eauto. Qed.
Lemma skip_range ev n a emit p sg p' sg' f' : ranged ev ->
  skip_with G ev n a emit p sg = SMatch p' sg' f' -> p <= length w -> p <= p' <= length w.
Proof.
  intros He. unfold skip_with, many_with.
  destruct (negb (atom_eqb a NonAtomic)); [intros H; inversion H; subst; lia|].
  destruct (has_rule G _), (has_rule G _); try (intros H; inversion H; subst; lia).
  - destruct (loop n _ p sg []) as [p1 sg1 f1| |] eqn:E1; try discriminate.
    intros H Hp. apply loop_range in E1; auto; [|now apply many_range].
    apply loop_range in H; try lia.
    intros q sg0 q' sg0' f0' H0 Hq.
    destruct (ev a emit (EIdent _) q sg0) as [q2 sg2 f2| |] eqn:E2; try discriminate.
    apply He in E2; auto. apply loop_range in H0; try lia. now apply many_range.
  - intros H Hp. apply loop_range in H; auto. now apply many_range.
  - intros H Hp. apply loop_range in H; auto. now apply many_range.
Qed.
Lemma rep_unit_range ev n a emit x : ranged ev -> ranged_unit (rep_unit G ev n a emit x).
Proof.
  intros He p sg p' sg' f' H Hp. unfold rep_unit in H.
  destruct (skip_with G ev n a emit p sg) as [p1 sg1 f1| |] eqn:E1; try discriminate.
  apply skip_range in E1; auto.
  destruct (ev a emit x p1 sg1) as [p2 sg2 f2| |] eqn:E2; try discriminate.
  apply He in E2; try lia. inversion H; subst. lia.
Qed.
Lemma rep_from_range ev n a emit x p sg acc p' sg' f' : ranged ev ->
  rep_from_with G ev n a emit x p sg acc = SMatch p' sg' f' -> p <= length w -> p <= p' <= length w.
Proof. intros He. unfold rep_from_with. apply loop_range. now apply rep_unit_range. Qed.

Theorem eval_range n : ranged (eval n).
Proof.
  induction n as [|n IH]; intros a emit e p sg p' sg' f' H Hp; [cbn in H; discriminate|].
  cbn [Spec.eval] in H.
  destruct e.
  - destruct (lit s p) eqn:E; [|discriminate]. inversion H; subst. apply lit_range in E; auto. lia.
  - destruct (_ && _) eqn:E; [|discriminate]. inversion H; subst. apply andb_true_iff in E. destruct E as [E _].
    unfold boundaryb in E. destruct (Nat.compare_spec (p + length s) (length w)); try discriminate; lia.
  - apply one_char_range in H; auto. lia.
  - (* EIdent *)
    repeat match type of H with
           | (if str_eqb ?x ?y then _ else _) = _ => destruct (str_eqb x y) eqn:?
           end.
    + destruct (Nat.eqb p 0); [|discriminate]. inversion H; subst; lia.
    + destruct (Nat.eqb p (length w)); [|discriminate]. inversion H; subst; lia.
    + destruct sg as [|top sg0]; [discriminate|]. destruct (lit top p) eqn:E; [|discriminate]. inversion H; subst. apply lit_range in E; auto; lia.
    + destruct sg as [|top sg0]; [discriminate|]. destruct (lit top p) eqn:E; [|discriminate]. inversion H; subst. apply lit_range in E; auto; lia.
    + destruct sg as [|top sg0]; [discriminate|]. inversion H; subst; lia.
    + destruct (lit_all sg p) eqn:E; [|discriminate]. inversion H; subst. apply lit_all_range in E; auto.
    + destruct (lit_all sg p) eqn:E; [|discriminate]. inversion H; subst. apply lit_all_range in E; auto.
    + destruct (lit [10%N] p) eqn:E1; [inversion H; subst; apply lit_range in E1; auto; lia|].
      destruct (lit [13%N; 10%N] p) eqn:E2; [inversion H; subst; apply lit_range in E2; auto; lia|].
      destruct (lit [13%N] p) eqn:E3; [inversion H; subst; apply lit_range in E3; auto; lia|discriminate].
    + destruct (ascii_builtin n0); [apply one_char_range in H; auto; lia|].
      destruct (find_rule G n0) as [rl|].
      * destruct (rule_mode _ _ _ _) as [tk a2].
        destruct (Spec.eval G extras uprop w n a2 emit (rexpr rl) p sg) as [q sg2 f2| |] eqn:E; try discriminate.
        inversion H; subst. eapply IH; eauto.
      * destruct (uprop n0); [apply one_char_range in H; auto; lia|discriminate].
  - (* EPeekSlice *)
    destruct (norm_idx i (length sg)); [|discriminate].
    destruct (match j with Some j' => norm_idx j' (length sg) | None => Some (length sg) end); [|discriminate].
    destruct (Nat.leb _ _); [inversion H; subst; lia|].
    destruct (lit_all _ p) eqn:E; [|discriminate]. inversion H; subst. apply lit_all_range in E; auto.
  - destruct (Spec.eval G extras uprop w n a false e p sg); try discriminate. inversion H; subst; lia.
  - destruct (Spec.eval G extras uprop w n a false e p sg); try discriminate. inversion H; subst; lia.
  - (* ESeq *)
    destruct (Spec.eval G extras uprop w n a emit e1 p sg) as [p1 sg1 f1| |] eqn:E1; try discriminate.
    destruct (skip_with G _ n a emit p1 sg1) as [p2 sg2 f2| |] eqn:E2; try discriminate.
    destruct (Spec.eval G extras uprop w n a emit e2 p2 sg2) as [p3 sg3 f3| |] eqn:E3; try discriminate.
    inversion H; subst. apply IH in E1; auto. apply skip_range in E2; auto; try lia. apply IH in E3; lia.
  - destruct (Spec.eval G extras uprop w n a emit e1 p sg) as [p1 sg1 f1| |] eqn:E1; try discriminate.
    + inversion H; subst. eapply IH; eauto.
    + eapply IH; eauto.
  - destruct (Spec.eval G extras uprop w n a emit e p sg) as [p1 sg1 f1| |] eqn:E1; try discriminate.
    + inversion H; subst. eapply IH; eauto.
    + inversion H; subst; lia.
  - (* ERep *)
    destruct (Spec.eval G extras uprop w n a emit e p sg) as [p1 sg1 f1| |] eqn:E1; try discriminate.
    + apply IH in E1; auto. apply rep_from_range in H; auto; lia.
    + inversion H; subst; lia.
  - (* ERepOnce *)
    destruct extras.
    + destruct (Spec.eval G true uprop w n a emit e p sg) as [p1 sg1 f1| |] eqn:E1; try discriminate.
      pose proof (IH _ _ _ _ _ _ _ _ E1 Hp) as R1. apply rep_from_range in H; auto; lia.
    + eapply IH; eauto.
  - destruct (unroll_node extras (ERepExact e n0)); [eapply IH; eauto|discriminate].
  - destruct (unroll_node extras (ERepMin e n0)); [eapply IH; eauto|discriminate].
  - destruct (unroll_node extras (ERepMax e n0)); [eapply IH; eauto|discriminate].
  - destruct (unroll_node extras (ERepMinMax e m n0)); [eapply IH; eauto|discriminate].
  - inversion H; subst. now apply skip_until_basic_range.
  - destruct (Spec.eval G extras uprop w n a emit e p sg) as [p1 sg1 f1| |] eqn:E1; try discriminate.
    inversion H; subst. eapply IH; eauto.
  - inversion H; subst; lia.
  - destruct (Spec.eval G extras uprop w n a emit e p sg) as [p1 sg1 f1| |] eqn:E1; try discriminate.
    inversion H; subst. eapply IH; eauto.
Qed.


(* ---------------------------------------------------------------------------------------- *)
(* soundness of is_non_progressing                                                          *)
(* ---------------------------------------------------------------------------------------- *)
Hypothesis HS : no_stack_builtins G = true.

Lemma body_stack_free n r : find_rule G n = Some r -> stack_free (rexpr r) = true.
Proof.
  intros H. apply find_rule_In in H. destruct H as [H _].
  unfold no_stack_builtins in HS. rewrite forallb_forall in HS. now apply HS.
Qed.

Definition Prog (n : nat) (e : expr) : Prop :=
  forall m a emit p sg p' sg' f', m <= n -> p <= length w -> eval m a emit e p sg = SMatch p' sg' f' -> p < p'.

Lemma Prog_weaken n e : Prog (S n) e -> Prog n e.
Proof. intros H m a emit p sg p' sg' f' Hm. apply H. lia. Qed.

Lemma seq_first_progress n x rest u : Prog n x -> seq_of (x :: rest) = Some u -> Prog n u.
Proof.
  intros Hx Hu. cbn [seq_of] in Hu.
  assert (Hc : u = x \/ exists y, u = ESeq x y).
  { destruct rest as [|z rest']; [inversion Hu; auto|].
    destruct (seq_of (z :: rest')); inversion Hu; eauto. }
  destruct Hc as [->|[y ->]]; auto.
  intros m a emit p sg p' sg' f' Hm Hp H. destruct m as [|m]; [discriminate|]. cbn [Spec.eval] in H.
  destruct (Spec.eval G extras uprop w m a emit x p sg) as [p1 sg1 f1| |] eqn:E1; try discriminate.
  destruct (skip_with G _ m a emit p1 sg1) as [p2 sg2 f2| |] eqn:E2; try discriminate.
  destruct (Spec.eval G extras uprop w m a emit y p2 sg2) as [p3 sg3 f3| |] eqn:E3; try discriminate.
  inversion H; subst.
  assert (p < p1) by (eapply Hx; [|exact Hp|exact E1]; lia).
  pose proof (eval_range _ _ _ _ _ _ _ _ _ E1 Hp).
  assert (p1 <= p2 <= length w) by (eapply skip_range; [apply eval_range|exact E2|lia]).
  assert (p2 <= p' <= length w) by (eapply eval_range; [exact E3|lia]). lia.
Qed.

Lemma repeatn_S k x : repeatn (S k) x = x :: repeatn k x.
Proof. reflexivity. Qed.

Lemma nonzero_to_nat n : n_is_zero n = false -> exists k, N.to_nat n = S k.
Proof.
  unfold n_is_zero. intros H. apply N.eqb_neq in H. destruct (N.to_nat n) eqn:E; [lia|eauto].
Qed.

Lemma stack_name_false n : stack_name n = false ->
  str_eqb n (nm "PEEK") = false /\ str_eqb n (nm "POP") = false /\ str_eqb n (nm "DROP") = false /\
  str_eqb n (nm "PEEK_ALL") = false /\ str_eqb n (nm "POP_ALL") = false.
Proof.
  unfold stack_name. intros H. repeat (apply orb_false_iff in H; destruct H as [H ?]). auto.
Qed.

Theorem np_sound n : forall f t e, stack_free e = true -> np G f t e = Some false ->
  (forall x, In x t -> Prog n (EIdent x)) -> Prog n e.
Proof.
  induction n as [|n IH]; intros f t e Hst Hnp Ht m a emit p sg p' sg' f' Hm Hp H.
  { assert (m = 0) by lia. subst. discriminate. }
  destruct m as [|m]; [discriminate|]. assert (Hmn : m <= n) by lia.
  destruct f as [|f]; [discriminate|].
  assert (Ht' : forall x, In x t -> Prog n (EIdent x)) by (intros x Hx; apply Prog_weaken; auto).
  (* sub-expressions at the same validator fuel *)
  assert (SUB : forall x, stack_free x = true -> np_e G (np G f) t x = Some false -> Prog n x).
  { intros x Hsx Hx. apply (IH (S f) t x Hsx); auto. }
  cbn [np] in Hnp. cbn [Spec.eval] in H.
  destruct e; cbn [np_e] in Hnp; cbn [stack_free] in Hst; try discriminate.
  - (* EStr *)
    destruct (lit s p) eqn:E; [|discriminate]. inversion H; subst. apply lit_range in E; auto.
    destruct s; [discriminate|]. cbn [length] in E. lia.
  - (* EInsens *)
    destruct (_ && _); [|discriminate]. inversion H; subst. destruct s; [discriminate|]. cbn [length]. lia.
  - (* ERange *)
    apply one_char_range in H; auto. lia.
  - (* EIdent *)
    destruct (str_eqb n0 (nm "SOI") || str_eqb n0 (nm "EOI")) eqn:Es; [discriminate|].
    apply orb_false_iff in Es. destruct Es as [Es1 Es2].
    apply negb_true_iff in Hst. apply stack_name_false in Hst. destruct Hst as (S1 & S2 & S3 & S4 & S5).
    rewrite Es1, Es2, S1, S2, S3, S4, S5 in H.
    destruct (str_eqb n0 (nm "NEWLINE")) eqn:Enl.
    { destruct (lit [10%N] p) eqn:E1; [inversion H; subst; apply lit_range in E1; auto; cbn [length] in E1; lia|].
      destruct (lit [13%N; 10%N] p) eqn:E2; [inversion H; subst; apply lit_range in E2; auto; cbn [length] in E2; lia|].
      destruct (lit [13%N] p) eqn:E3; [inversion H; subst; apply lit_range in E3; auto; cbn [length] in E3; lia|discriminate]. }
    destruct (ascii_builtin n0) eqn:Eab; [apply one_char_range in H; auto; lia|].
    destruct (mem n0 t) eqn:Em.
    { (* the trace cut: the rule is on the trace, it progresses by assumption *)
      apply mem_In in Em. apply (Ht _ Em (S m) a emit p sg p' sg' f'); auto.
      cbn [Spec.eval]. rewrite Es1, Es2, S1, S2, S3, S4, S5, Enl, Eab. exact H. }
    unfold lookup in Hnp.
    destruct (find_rule G n0) as [rl|] eqn:Ef.
    + destruct (rule_mode _ _ _ _) as [tk a2].
      destruct (Spec.eval G extras uprop w m a2 emit (rexpr rl) p sg) as [q sg2 f2| |] eqn:E; try discriminate.
      inversion H; subst.
      assert (HP : Prog n (rexpr rl)).
      { apply (IH f (n0 :: t)); auto.
        - eapply body_stack_free; eauto.
        - intros x [Hx|Hx]; [subst x|auto].
          (* the rule itself, at smaller evaluation fuel: the induction hypothesis again *)
          apply (IH (S f) t (EIdent n0)); auto.
          + cbn [stack_free]. apply negb_true_iff. unfold stack_name. now rewrite S1, S2, S3, S4, S5.
          + cbn [np np_e]. rewrite Es1, Es2. cbn [orb]. rewrite Em. unfold lookup. rewrite Ef. exact Hnp. }
      eapply HP; [|exact Hp|exact E]. lia.
    + destruct (uprop n0); [apply one_char_range in H; auto; lia|discriminate].
  - (* ESeq *)
    apply andb_true_iff in Hst. destruct Hst as [Hs1 Hs2].
    destruct (Spec.eval G extras uprop w m a emit e1 p sg) as [p1 sg1 f1| |] eqn:E1; try discriminate.
    destruct (skip_with G _ m a emit p1 sg1) as [p2 sg2 f2| |] eqn:E2; try discriminate.
    destruct (Spec.eval G extras uprop w m a emit e2 p2 sg2) as [p3 sg3 f3| |] eqn:E3; try discriminate.
    inversion H; subst.
    pose proof (eval_range _ _ _ _ _ _ _ _ _ E1 Hp) as R1.
    assert (R2 : p1 <= p2 <= length w) by (eapply skip_range; [apply eval_range|exact E2|lia]).
    assert (R3 : p2 <= p' <= length w) by (eapply eval_range; [exact E3|lia]).
    destruct (np_e G (np G f) t e1) as [[|]|] eqn:N1; cbn [oand] in Hnp; try discriminate.
    + assert (p2 < p') by (eapply (SUB e2 Hs2 Hnp); [|idtac|exact E3]; lia). lia.
    + assert (p < p1) by (eapply (SUB e1 Hs1 N1); [|exact Hp|exact E1]; lia). lia.
  - (* EChoice *)
    apply andb_true_iff in Hst. destruct Hst as [Hs1 Hs2].
    destruct (np_e G (np G f) t e1) as [[|]|] eqn:N1; cbn [oor] in Hnp; try discriminate.
    destruct (Spec.eval G extras uprop w m a emit e1 p sg) as [p1 sg1 f1| |] eqn:E1; try discriminate.
    + inversion H; subst. eapply (SUB e1 Hs1 N1); [|exact Hp|exact E1]; lia.
    + eapply (SUB e2 Hs2 Hnp); [|exact Hp|exact H]; lia.
  - (* ERepOnce *)
    destruct extras eqn:Ex.
    + destruct (Spec.eval G true uprop w m a emit e p sg) as [p1 sg1 f1| |] eqn:E1; try discriminate.
      rewrite <- Ex in E1, H.
      assert (p < p1) by (eapply (SUB e Hst Hnp); [|exact Hp|exact E1]; lia).
      pose proof (eval_range _ _ _ _ _ _ _ _ _ E1 Hp) as R1.
      apply rep_from_range in H; [lia|apply eval_range|lia].
    + rewrite <- Ex in H.
      assert (HP : Prog n (ESeq e (ERep e))).
      { apply (seq_first_progress n e [ERep e]); auto. }
      eapply HP; [|exact Hp|exact H]; lia.
  - (* ERepExact *)
    destruct (n_is_zero n0) eqn:Ez; [discriminate|]. destruct (nonzero_to_nat _ Ez) as [k Hk].
    cbn [unroll_node] in H. rewrite Hk, repeatn_S in H.
    destruct (seq_of (e :: repeatn k e)) as [u|] eqn:Eu; [|discriminate].
    eapply (seq_first_progress n e _ u (SUB e Hst Hnp) Eu); [|exact Hp|exact H]; lia.
  - (* ERepMin *)
    destruct (n_is_zero n0) eqn:Ez; [discriminate|]. destruct (nonzero_to_nat _ Ez) as [k Hk].
    cbn [unroll_node] in H. rewrite Hk, repeatn_S in H. cbn [app] in H.
    destruct (seq_of (e :: repeatn k e ++ [ERep e])) as [u|] eqn:Eu; [|discriminate].
    eapply (seq_first_progress n e _ u (SUB e Hst Hnp) Eu); [|exact Hp|exact H]; lia.
  - (* ERepMinMax *)
    destruct (n_is_zero m0) eqn:Ez; [discriminate|]. destruct (nonzero_to_nat _ Ez) as [k Hk].
    cbn [unroll_node] in H. rewrite Hk in H.
    destruct (N.to_nat n0) as [|k2] eqn:Hk2.
    { cbn in H. discriminate. }
    replace (Nat.min (S k) (S k2)) with (S (Nat.min k k2)) in H by lia.
    rewrite repeatn_S in H. cbn [app] in H.
    destruct (seq_of (e :: _)) as [u|] eqn:Eu; [|discriminate].
    eapply (seq_first_progress n e _ u (SUB e Hst Hnp) Eu); [|exact Hp|exact H]; lia.
  - (* EPush *)
    destruct (Spec.eval G extras uprop w m a emit e p sg) as [p1 sg1 f1| |] eqn:E1; try discriminate.
    inversion H; subst. eapply (SUB e Hst Hnp); [|exact Hp|exact E1]; lia.
  - (* ENodeTag *)
    destruct (Spec.eval G extras uprop w m a emit e p sg) as [p1 sg1 f1| |] eqn:E1; try discriminate.
    inversion H; subst. eapply (SUB e Hst Hnp); [|exact Hp|exact E1]; lia.
Qed.

(* with the empty trace: no assumption at all *)
Corollary np_sound_nil f e m a emit p sg p' sg' f' :
  stack_free e = true -> np G f [] e = Some false -> p <= length w ->
  eval m a emit e p sg = SMatch p' sg' f' -> p < p'.
Proof.
  intros Hs Hn Hp H. eapply (np_sound m f [] e Hs Hn); [intros x []|apply le_n|exact Hp|exact H].
Qed.

End Sem.
