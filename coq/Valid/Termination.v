(* Termination of Layer S on grammars accepted by the REPAIRED validator, part 3: the main
   induction.  Measure: (remaining input, rules not yet on the chain of calls made at the current
   position, expression).  A rule call at the position where the chain started extends the chain;
   LeftRec.no_reentry says that it cannot be a rule of the chain.  Every match that does not move
   is explained by `Null V e` (nullability with the chain cut), which is what makes the seeded
   nullable test of check_expr (`[trace.last()]`) agree with what happens.                    *)
From Coq Require Import String Ascii List Arith NArith ZArith Bool Lia.
Import ListNotations.
Require Import PV.Comb.PState PV.Comb.Bytes PV.Iter.Queue PV.Peg.Ast PV.Peg.Spec PV.Peg.SpecFacts.
Require Import PV.Valid.Validator PV.Valid.Known PV.Valid.Nullable PV.Valid.Progress PV.Valid.LeftRec
               PV.Valid.TermBase PV.Valid.TermCons.

Arguments Nat.sub : simpl never.
Arguments Nat.max : simpl never.

Section Term.
Variable cfg : vcfg.
Variable G : grammar.
Variable extras : bool.
Variable uprop : name -> option (N -> bool).
Variable w : list byte.
Hypothesis Hfix : fix_lr cfg = true.
Hypothesis HS : no_stack_builtins G = true.
Hypothesis HLR : lr_ok cfg G.
Hypothesis HRep : forall r, In r G -> reps_ok G (rexpr r).
Hypothesis HWs : forall r, In r G -> is_ws_or_comment (rname r) = true -> np G (vfuel G) [] (rexpr r) = Some false.

Notation eval := (Spec.eval G extras uprop w).
Notation Good := (Good G).
Notation SemN := (SemN G extras uprop w).
Notation Sem := (Sem G extras uprop w).
Notation Null := (Null G).
Notation lefts := (lefts G).
Notation chain := (chain G).
Notation lookup := (Validator.lookup G).

Definition LeftIn (V : list name) (e : expr) : Prop :=
  match V with
  | [] => True
  | cur :: _ => exists b, lookup cur = Some b /\ incl (lefts cur e) (lefts cur b)
  end.

Lemma LeftIn_sub V e e' : (forall cur, incl (lefts cur e') (lefts cur e)) -> LeftIn V e -> LeftIn V e'.
Proof.
  intros Hi. destruct V as [|cur V']; cbn; auto. intros (b & Hb & Hin). exists b. split; auto.
  eapply incl_tran; eauto.
Qed.

Lemma eval_ident_rule n a emit x q sg r :
  str_eqb x (nm "SOI") = false -> str_eqb x (nm "EOI") = false -> stack_name x = false ->
  str_eqb x (nm "NEWLINE") = false -> ascii_builtin x = None -> find_rule G x = Some r ->
  eval (S n) a emit (EIdent x) q sg =
  let '(tk, a2) := rule_mode (is_special x) (rty r) a emit in
  match eval n a2 emit (rexpr r) q sg with
  | SMatch q' sg2 f2 => SMatch q' sg2 (if tk then [Node (rule_id G x) None q q' f2] else f2)
  | SFail => SFail
  | SFuel => SFuel
  end.
Proof.
  intros E1 E2 E3 E4 E5 E6. apply stack_name_false in E3. destruct E3 as (S1 & S2 & S3 & S4 & S5).
  cbn [Spec.eval]. rewrite E1, E2, S1, S2, S3, S4, S5, E4, E5, E6.
  destruct (rule_mode _ _ _ _). destruct (Spec.eval _ _ _ _ _ _ _ _ _ _); reflexivity.
Qed.

Lemma eval_ident_undef n a emit x q sg :
  str_eqb x (nm "SOI") = false -> str_eqb x (nm "EOI") = false -> stack_name x = false ->
  str_eqb x (nm "NEWLINE") = false -> ascii_builtin x = None -> find_rule G x = None ->
  eval (S n) a emit (EIdent x) q sg = match uprop x with Some ok => Spec.one_char w ok q sg | None => SFail end.
Proof.
  intros E1 E2 E3 E4 E5 E6. apply stack_name_false in E3. destruct E3 as (S1 & S2 & S3 & S4 & S5).
  cbn [Spec.eval]. rewrite E1, E2, S1, S2, S3, S4, S5, E4, E5, E6. reflexivity.
Qed.

Lemma one_char_not_fuel ok q sg : Spec.one_char w ok q sg <> SFuel.
Proof. unfold Spec.one_char. destruct (Spec.char_here w q) as [[c k]|]; [destruct (ok c)|]; discriminate. Qed.

Section AtPos.
Variable ph : bool.
Variable p : nat.
Hypothesis Hp : p <= length w.
Hypothesis Later : forall p', p < p' <= length w -> forall e, Good ph e -> SemN ph p' True e.
Hypothesis Hskip : SkipTerm G extras uprop w ph.

Lemma mode_ok_rule a emit x r : ModeOK ph a -> (ph = true -> nonatomic_rule G x = false) -> find_rule G x = Some r ->
  ModeOK ph (snd (rule_mode (is_special x) (rty r) a emit)).
Proof.
  intros Hm Hna Hf E. specialize (Hm E). specialize (Hna E). unfold nonatomic_rule in Hna. rewrite Hf in Hna.
  unfold rule_mode. destruct (is_special x); destruct (rty r); cbn in *; try discriminate; auto.
Qed.

Lemma good_body x r : Good ph (EIdent x) -> find_rule G x = Some r -> Good ph (rexpr r).
Proof.
  intros (H1 & H2 & H3) Hf. split; [eapply body_stack_free; eauto|]. split.
  - apply HRep. now apply find_rule_In in Hf.
  - intros E. eapply NAfree_body; eauto.
Qed.

Ltac secs := first [exact Hp | exact Later | exact Hskip | exact HS].

Lemma inner_step V : NoDup V -> incl V (defs G) -> chain V ->
  (forall V' e', length V < length V' -> NoDup V' -> incl V' (defs G) -> chain V' -> LeftIn V' e' -> Good ph e' -> Sem ph p V' e') ->
  forall e, LeftIn V e -> Good ph e -> Sem ph p V e.
Proof.
  intros Hnd Hincl Hch IHV. unfold Sem.
  induction e; intros HL Hg.
  - (* EStr *)
    intros a emit sg Hm. exists 1. eexists. split; [reflexivity|]. cbn [Spec.eval].
    destruct (Spec.lit w s p) eqn:E; split; try discriminate.
    intros sg' f' Er. inversion Er; subst. apply lit_range in E; auto. destruct s; [constructor|cbn [length] in E; lia].
  - (* EInsens *)
    intros a emit sg Hm. exists 1. eexists. split; [reflexivity|]. cbn [Spec.eval].
    destruct (_ && _); split; try discriminate.
    intros sg' f' Er. inversion Er. destruct s; [constructor|cbn [length] in *; lia].
  - (* ERange *)
    intros a emit sg Hm. exists 1. eexists. split; [reflexivity|]. cbn [Spec.eval].
    destruct (Spec.one_char w _ p sg) eqn:E; split; try discriminate; try (exfalso; eapply one_char_not_fuel; eauto; fail).
    intros sg' f' Er. inversion Er; subst. pose proof (one_char_range w _ _ _ _ _ _ E Hp). lia.
  - (* EIdent *)
    destruct Hg as (Hsf & Hro & Hna). pose proof Hsf as Hsf0. cbn [stack_free] in Hsf. apply negb_true_iff in Hsf.
    pose proof (stack_name_false _ Hsf) as (S1 & S2 & S3 & S4 & S5).
    destruct (str_eqb n (nm "SOI")) eqn:E1.
    { intros a emit sg Hm. exists 1. eexists. split; [reflexivity|]. cbn [Spec.eval]. rewrite E1.
      destruct (Nat.eqb p 0); split; try discriminate. intros. apply NSoi. unfold soi_eoi. now rewrite E1. }
    destruct (str_eqb n (nm "EOI")) eqn:E2.
    { intros a emit sg Hm. exists 1. eexists. split; [reflexivity|]. cbn [Spec.eval]. rewrite E1, E2.
      destruct (Nat.eqb p (length w)); split; try discriminate. intros. apply NSoi. unfold soi_eoi. rewrite E2. apply orb_true_r. }
    destruct (str_eqb n (nm "NEWLINE")) eqn:E3.
    { intros a emit sg Hm. exists 1. eexists. split; [reflexivity|]. cbn [Spec.eval]. rewrite E1, E2, S1, S2, S3, S4, S5, E3.
      destruct (Spec.lit w [10%N] p) eqn:L1; [split; [discriminate|]; intros sg' f' Er; inversion Er; subst; apply lit_range in L1; auto; cbn [length] in L1; lia|].
      destruct (Spec.lit w [13%N; 10%N] p) eqn:L2; [split; [discriminate|]; intros sg' f' Er; inversion Er; subst; apply lit_range in L2; auto; cbn [length] in L2; lia|].
      destruct (Spec.lit w [13%N] p) eqn:L3; [split; [discriminate|]; intros sg' f' Er; inversion Er; subst; apply lit_range in L3; auto; cbn [length] in L3; lia|].
      split; discriminate. }
    destruct (ascii_builtin n) eqn:E4.
    { intros a emit sg Hm. exists 1. eexists. split; [reflexivity|]. cbn [Spec.eval]. rewrite E1, E2, S1, S2, S3, S4, S5, E3, E4.
      destruct (Spec.one_char w _ p sg) eqn:E; split; try discriminate; try (exfalso; eapply one_char_not_fuel; eauto; fail).
      intros sg' f' Er. inversion Er; subst. pose proof (one_char_range w _ _ _ _ _ _ E Hp). lia. }
    destruct (find_rule G n) as [r|] eqn:E5.
    2:{ intros a emit sg Hm. exists 1. eexists. split; [reflexivity|]. cbn [Spec.eval]. rewrite E1, E2, S1, S2, S3, S4, S5, E3, E4, E5.
        destruct (uprop n); [|split; discriminate].
        destruct (Spec.one_char w _ p sg) eqn:E; split; try discriminate; try (exfalso; eapply one_char_not_fuel; eauto; fail).
        intros sg' f' Er. inversion Er; subst. pose proof (one_char_range w _ _ _ _ _ _ E Hp). lia. }
    (* a user rule: extend the chain *)
    assert (Hlk : lookup n = Some (rexpr r)) by (unfold Validator.lookup; now rewrite E5).
    assert (Hmem : ~ In n V).
    { intros Hin. destruct V as [|cur V']; [destruct Hin|].
      cbn in HL. destruct HL as (b & Hb & Hi).
      eapply (no_reentry cfg G Hfix HLR (cur :: V') n); eauto; [discriminate|].
      exists b. split; auto. apply Hi. cbn. auto. }
    assert (HS' : Sem ph p (n :: V) (rexpr r)).
    { apply IHV.
      - cbn. lia.
      - constructor; auto.
      - intros y [<-|Hy]; auto. eapply lookup_defs; eauto.
      - cbn [LeftRec.chain]. split; [eauto|]. split; auto.
        destruct V as [|cur V']; auto. cbn in HL. destruct HL as (b & Hb & Hi). exists b. split; auto. apply Hi. cbn. auto.
      - cbn. exists (rexpr r). split; auto. apply incl_refl.
      - eapply good_body; eauto. split; auto. }
    intros a emit sg Hm.
    pose proof (mode_ok_rule a emit n r Hm (fun E => NAfree_ident G n (Hna E)) E5) as Hm2.
    destruct (rule_mode (is_special n) (rty r) a emit) as [tk a2] eqn:Erm. cbn [snd] in Hm2.
    destruct (HS' a2 emit sg Hm2) as (n1 & r1 & Ev & R1 & Z1).
    exists (S n1). eexists. split; [reflexivity|].
    rewrite (eval_ident_rule n1 a emit n p sg r E1 E2 Hsf E3 E4 E5), Erm, Ev.
    destruct r1 as [q sg2 f2| |]; [|split; discriminate|congruence].
    split; [discriminate|]. intros sg' f' Er. inversion Er; subst q.
    eapply NIdent; eauto.
    + unfold soi_eoi. now rewrite E1, E2.
    + now apply mem_false_In.
  - (* EPeekSlice *) destruct Hg as (Hsf & _). discriminate.
  - (* EPosPred *)
    eapply SemN_pos; [constructor|]. apply IHe; [eapply LeftIn_sub; [|exact HL]; intros; apply incl_refl|].
    eapply good_un; [| | |exact Hg]; auto.
  - (* ENegPred *)
    eapply SemN_neg; [constructor|]. apply IHe; [eapply LeftIn_sub; [|exact HL]; intros; apply incl_refl|].
    eapply good_un; [| | |exact Hg]; auto.
  - (* ESeq *)
    destruct (good_seq G ph _ _ Hg) as [Hg1 Hg2].
    assert (HL1 : LeftIn V e1).
    { eapply LeftIn_sub; [|exact HL]. intros cur. cbn [LeftRec.lefts]. apply incl_appl, incl_refl. }
    eapply SemN_weaken; [|eapply (SemN_seq G extras uprop w) with (N1 := Null V e1) (N2 := Null V e2); try secs; [exact Hg2|exact (IHe1 HL1 Hg1)|]].
    + intros [A B]. now constructor.
    + intros HN. apply IHe2; auto.
      destruct V as [|cur V']; [exact I|]. cbn in HL |- *. destruct HL as (b & Hb & Hi). exists b. split; auto.
      eapply incl_tran; [|exact Hi]. cbn [LeftRec.lefts]. apply incl_appr.
      assert (Hn1 : Null [cur] e1).
      { eapply Null_antitone; [exact HN|]. intros x Hx. cbn in Hx. rewrite orb_false_r in Hx. apply str_eqb_eq in Hx. subst.
        cbn. rewrite str_eqb_refl. reflexivity. }
      pose proof (Null_np G (vfuel G) _ _ Hn1) as Hnp.
      unfold nullable_seeded. destruct (nf G (vfuel G) [cur] e1) as [[|]|]; cbn [oor]; try apply incl_refl.
      destruct (np G (vfuel G) [cur] e1) as [[|]|]; try apply incl_refl. congruence.
  - (* EChoice *)
    destruct (good_cho G ph _ _ Hg) as [Hg1 Hg2].
    eapply SemN_weaken; [|eapply (SemN_cho G extras uprop w) with (N1 := Null V e1) (N2 := Null V e2); try secs].
    + intros [A|B]; [now apply NChoL|now apply NChoR].
    + apply IHe1; auto. eapply LeftIn_sub; [|exact HL]. intros cur. cbn [LeftRec.lefts]. apply incl_appl, incl_refl.
    + apply IHe2; auto. eapply LeftIn_sub; [|exact HL]. intros cur. cbn [LeftRec.lefts]. apply incl_appr, incl_refl.
  - (* EOpt *)
    eapply SemN_opt; [constructor|]. apply IHe; [eapply LeftIn_sub; [|exact HL]; intros; apply incl_refl|].
    eapply good_un; [| | |exact Hg]; auto.
  - (* ERep *)
    assert (Hgx : Good ph e) by (eapply good_un; [| | |exact Hg]; auto; cbn; tauto).
    destruct Hg as (_ & (Hnp & _) & _).
    eapply (SemN_rep G extras uprop w); try secs; [constructor|exact Hgx|exact Hnp|].
    apply IHe; [exact HL|exact Hgx].
  - (* ERepOnce *)
    assert (Hgx : Good ph e) by (eapply good_un; [| | |exact Hg]; auto; cbn; tauto).
    destruct Hg as (_ & (Hnp & _) & _).
    eapply SemN_weaken; [|eapply (SemN_reponce G extras uprop w) with (N := Null V e); try secs; [exact Hgx|exact Hnp|]].
    + intros A. now constructor.
    + apply IHe; [exact HL|exact Hgx].
  - (* ERepExact *)
    assert (Hgx : Good ph e) by (eapply good_un; [| | |exact Hg]; auto).
    eapply SemN_weaken; [|eapply (SemN_repexact G extras uprop w) with (N := Null V e); try secs; [exact Hgx|]].
    + intros A. now apply NRepExact.
    + apply IHe; [exact HL|exact Hgx].
  - (* ERepMin *)
    assert (Hgx : Good ph e) by (eapply good_un; [| | |exact Hg]; auto; cbn; tauto).
    destruct Hg as (_ & (Hnp & _) & _).
    eapply SemN_weaken; [|eapply (SemN_repmin G extras uprop w) with (N := Null V e); try secs; [exact Hgx|exact Hnp|]].
    + intros [A|A]; [now apply NRepMin0|now apply NRepMin].
    + apply IHe; [exact HL|exact Hgx].
  - (* ERepMax *)
    assert (Hgx : Good ph e) by (eapply good_un; [| | |exact Hg]; auto).
    eapply (SemN_repmax G extras uprop w); try secs; [constructor|exact Hgx|].
    apply IHe; [exact HL|exact Hgx].
  - (* ERepMinMax *)
    assert (Hgx : Good ph e) by (eapply good_un; [| | |exact Hg]; auto).
    eapply SemN_weaken; [|eapply (SemN_repminmax G extras uprop w) with (N := Null V e); try secs; [exact Hgx|]].
    + intros [A|A]; [now apply NRepMinMax0|now apply NRepMinMax].
    + apply IHe; [exact HL|exact Hgx].
  - (* ESkip *)
    intros a emit sg Hm. exists 1. eexists. split; [reflexivity|]. cbn [Spec.eval]. split; [discriminate|]. intros. constructor.
  - (* EPush *)
    eapply SemN_weaken; [|apply SemN_push; apply IHe; [eapply LeftIn_sub; [|exact HL]; intros; apply incl_refl|eapply good_un; [| | |exact Hg]; auto]].
    intros A. now constructor.
  - (* EPushLiteral *)
    intros a emit sg0 Hm. exists 1. eexists. split; [reflexivity|]. cbn [Spec.eval]. split; [discriminate|]. intros. constructor.
  - (* ENodeTag *)
    eapply SemN_weaken; [|apply SemN_tag; apply IHe; [eapply LeftIn_sub; [|exact HL]; intros; apply incl_refl|eapply good_un; [| | |exact Hg]; auto]].
    intros A. now constructor.
Qed.


Lemma inner_all d : forall V, S (length G) - length V <= d -> NoDup V -> incl V (defs G) -> chain V ->
  forall e, LeftIn V e -> Good ph e -> Sem ph p V e.
Proof.
  induction d as [|d IH]; intros V Hd Hnd Hincl Hch e HL Hg.
  - pose proof (trace_bound G V Hnd Hincl). lia.
  - apply inner_step; auto. intros V' e' Hlen Hnd' Hincl' Hch' HL' Hg'.
    apply IH; auto. pose proof (trace_bound G V Hnd Hincl). lia.
Qed.

End AtPos.

(* ---------------------------------------------------------------------------------------- *)
(* all positions                                                                            *)
(* ---------------------------------------------------------------------------------------- *)
Theorem term_generic ph : SkipTerm G extras uprop w ph ->
  forall p, p <= length w -> forall e, Good ph e -> SemN ph p True e.
Proof.
  intros Hskip p. remember (length w - p) as d eqn:Hd. revert p Hd.
  induction d as [d IH] using lt_wf_ind. intros p Hd Hp e Hg.
  assert (Later : forall p', p < p' <= length w -> forall e, Good ph e -> SemN ph p' True e).
  { intros p' Hp' e' Hg'. apply (IH (length w - p')); [lia|reflexivity|lia|exact Hg']. }
  eapply SemN_weaken; [|apply (inner_all ph p Hp Later Hskip (S (length G)) []); auto].
  - auto.
  - constructor.
  - intros x [].
  - exact I.
  - exact I.
Qed.

(* phase 1: inside WHITESPACE / COMMENT the atomicity is never NonAtomic, so there is no implicit skip *)
Lemma skip_term_atomic : SkipTerm G extras uprop w true.
Proof.
  intros a emit p sg Hm Hp. exists 0. eexists. split; [reflexivity|].
  unfold skip_with. specialize (Hm eq_refl). destruct a; cbn; try discriminate. congruence.
Qed.
Definition term_atomic := term_generic true skip_term_atomic.

(* phase 0: the implicit skip terminates because WHITESPACE / COMMENT terminate (phase 1) and progress *)
Hypothesis HK : ~ KnownWs G.

Lemma special_cases s : is_special s = true -> s = nm "WHITESPACE" \/ s = nm "COMMENT".
Proof. unfold is_special. intros H. apply orb_true_iff in H. destruct H as [H|H]; apply str_eqb_eq in H; auto. Qed.

Lemma special_nafree s : is_special s = true -> has_rule G s = true -> NAfree G (EIdent s).
Proof.
  intros Hs Hh x Hx. destruct (nonatomic_rule G x) eqn:E; auto.
  exfalso. apply HK. exists s, x. auto.
Qed.

Lemma special_ident_term s a emit q sg : is_special s = true -> has_rule G s = true -> q <= length w ->
  exists n r, eval n a emit (EIdent s) q sg = r /\ r <> SFuel.
Proof.
  intros Hs Hh Hq. unfold has_rule in Hh. destruct (find_rule G s) as [r|] eqn:Ef; [|discriminate].
  assert (Hg : Good true (rexpr r)).
  { split; [eapply body_stack_free; eauto|]. split; [apply HRep; now apply find_rule_In in Ef|].
    intros _. eapply NAfree_body; eauto. apply special_nafree; auto. unfold has_rule. now rewrite Ef. }
  destruct (rule_mode (is_special s) (rty r) a emit) as [tk a2] eqn:Erm.
  assert (Hm2 : ModeOK true a2).
  { intros _. rewrite Hs in Erm. unfold rule_mode in Erm. destruct (rty r); inversion Erm; discriminate. }
  destruct (term_atomic q Hq (rexpr r) Hg a2 emit sg Hm2) as (n & r0 & E & R & _).
  exists (S n). eexists. split; [reflexivity|].
  rewrite (eval_ident_rule n a emit s q sg r); try exact Ef; try (destruct (special_cases s Hs) as [-> | ->]; reflexivity).
  rewrite Erm, E. destruct r0; congruence.
Qed.

Lemma special_ident_prog s n a emit q sg q' sg' f' : is_special s = true -> q <= length w ->
  eval n a emit (EIdent s) q sg = SMatch q' sg' f' -> q < q' <= length w.
Proof.
  intros Hs Hq H. pose proof (eval_range _ _ _ _ _ _ _ _ _ _ _ _ _ H Hq) as Rg. split; [|lia].
  destruct n as [|n]; [discriminate|].
  destruct (find_rule G s) as [r|] eqn:Ef.
  - rewrite (eval_ident_rule n a emit s q sg r) in H; try exact Ef; try (destruct (special_cases s Hs) as [-> | ->]; reflexivity).
    destruct (rule_mode _ _ _ _) as [tk a2].
    destruct (eval n a2 emit (rexpr r) q sg) as [q2 sg2 f2| |] eqn:E; try discriminate. inversion H; subst.
    pose proof (find_rule_In _ _ _ Ef) as [Hin Hname].
    eapply (np_sound_nil G extras uprop w HS (vfuel G) (rexpr r)); [eapply body_stack_free; eauto| |exact Hq|exact E].
    apply HWs; auto. rewrite Hname. exact Hs.
  - (* not defined: the name is matched as a Unicode property or fails *)
    rewrite (eval_ident_undef n a emit s q sg) in H; try exact Ef; try (destruct (special_cases s Hs) as [-> | ->]; reflexivity).
    destruct (uprop s); [pose proof (one_char_range w _ _ _ _ _ _ H Hq); lia|discriminate].
Qed.

Lemma many_term s a emit : is_special s = true -> has_rule G s = true ->
  forall q sg acc, q <= length w -> exists n r, many_with (eval n) n a emit s q sg acc = r /\ r <> SFuel.
Proof.
  intros Hs Hh q sg acc Hq. unfold many_with.
  apply (loop_term w (fun n q sg => eval n a emit (EIdent s) q sg) 0); [| | |lia].
  - intros n m Hnm q0 sg0 r. apply eval_mono. exact Hnm.
  - intros q0 sg0 Hq0. apply special_ident_term; auto; lia.
  - intros n q0 sg0 q' sg' f' Hq0 H. eapply special_ident_prog; eauto; lia.
Qed.

Lemma skip_term_nonatomic : SkipTerm G extras uprop w false.
Proof.
  intros a emit p sg _ Hp. unfold skip_with.
  destruct (negb (atom_eqb a NonAtomic)); [exists 0; eexists; split; [reflexivity|discriminate]|].
  destruct (has_rule G (nm "WHITESPACE")) eqn:Hw, (has_rule G (nm "COMMENT")) eqn:Hc.
  - (* both *)
    destruct (many_term (nm "WHITESPACE") a emit eq_refl Hw p sg [] Hp) as (n1 & r1 & E1 & R1).
    destruct r1 as [p1 sg1 f1| |]; [| |congruence].
    2:{ exists n1. eexists. rewrite E1. split; [reflexivity|discriminate]. }
    assert (Rg1 : p <= p1 <= length w).
    { unfold many_with in E1. eapply loop_range; [|exact E1|exact Hp]. apply many_range. apply eval_range. }
    destruct (loop_term w (fun n q sg => match eval n a emit (EIdent (nm "COMMENT")) q sg with
                                         | SMatch p2 sg2 f2 => many_with (eval n) n a emit (nm "WHITESPACE") p2 sg2 f2
                                         | SFail => SFail | SFuel => SFuel end) 0) with (q := p1) (sg := sg1) (acc := f1)
      as (n2 & r2 & E2 & R2); [| | |lia|].
    + intros n m Hnm q0 sg0 r H Hr.
      destruct (eval n a emit (EIdent (nm "COMMENT")) q0 sg0) as [p2 sg2 f2| |] eqn:E; try congruence.
      * rewrite (eval_up _ _ _ _ n m _ _ _ _ _ _ Hnm E) by discriminate. eapply many_mono; eauto. now apply eval_mono.
      * rewrite (eval_up _ _ _ _ n m _ _ _ _ _ _ Hnm E) by discriminate. exact H.
    + intros q0 sg0 Hq0.
      destruct (special_ident_term (nm "COMMENT") a emit q0 sg0 eq_refl Hc ltac:(lia)) as (m1 & x1 & F1 & X1).
      destruct x1 as [p2 sg2 f2| |]; [| |congruence].
      * pose proof (eval_range _ _ _ _ _ _ _ _ _ _ _ _ _ F1 ltac:(lia)) as Rg.
        destruct (many_term (nm "WHITESPACE") a emit eq_refl Hw p2 sg2 f2 ltac:(lia)) as (m2 & x2 & F2 & X2).
        exists (Nat.max m1 m2), x2. split; auto.
        rewrite (eval_up _ _ _ _ m1 (Nat.max m1 m2) _ _ _ _ _ _ ltac:(lia) F1) by discriminate.
        eapply many_mono; [apply eval_mono| |exact F2|exact X2]; lia.
      * exists m1, SFail. rewrite F1. split; [reflexivity|discriminate].
    + intros n q0 sg0 q' sg' f' Hq0 H.
      destruct (eval n a emit (EIdent (nm "COMMENT")) q0 sg0) as [p2 sg2 f2| |] eqn:E; try discriminate.
      pose proof (special_ident_prog (nm "COMMENT") _ _ _ _ _ _ _ _ eq_refl (proj2 Hq0) E) as Pg.
      unfold many_with in H. eapply loop_range in H; [| apply many_range; apply eval_range|lia]. lia.
    + exists (Nat.max n1 n2), r2. split; auto.
      rewrite (many_mono (eval n1) (eval (Nat.max n1 n2)) n1 (Nat.max n1 n2) _ _ _ _ _ _ _ ltac:(apply eval_mono; lia) ltac:(lia) E1) by discriminate.
      eapply loop_mono; [| |exact E2|exact R2]; [|lia].
      intros q0 sg0 r H Hr.
      destruct (eval n2 a emit (EIdent (nm "COMMENT")) q0 sg0) as [p2 sg2 f2| |] eqn:E; try congruence.
      * rewrite (eval_up _ _ _ _ n2 (Nat.max n1 n2) _ _ _ _ _ _ ltac:(lia) E) by discriminate.
        eapply many_mono; [apply eval_mono| |exact H|exact Hr]; lia.
      * rewrite (eval_up _ _ _ _ n2 (Nat.max n1 n2) _ _ _ _ _ _ ltac:(lia) E) by discriminate. exact H.
  - apply many_term; auto.
  - apply many_term; auto.
  - exists 0. eexists. split; [reflexivity|discriminate].
Qed.
Definition term_nonatomic := term_generic false skip_term_nonatomic.

(* ---------------------------------------------------------------------------------------- *)
(* the theorem                                                                              *)
(* ---------------------------------------------------------------------------------------- *)
Theorem terminates_from_every_name r : exists fuel, eval fuel NonAtomic true (EIdent r) 0 [] <> SFuel.
Proof.
  destruct (stack_name r) eqn:Es.
  - (* a stack built-in as start symbol: evaluated in one step on the empty stack *)
    exists 1. unfold stack_name in Es. cbn [Spec.eval].
    repeat match goal with |- context [if str_eqb ?x ?y then _ else _] => destruct (str_eqb x y) eqn:? end;
      try (destruct (Nat.eqb _ _); discriminate); try discriminate; try (cbn in Es; congruence).
  - assert (Hg : Good false (EIdent r)).
    { split; [cbn; now rewrite Es|]. split; [exact I|discriminate]. }
    destruct (term_nonatomic 0 ltac:(lia) (EIdent r) Hg NonAtomic true [] ltac:(discriminate)) as (n & r0 & E & R & _).
    exists n. now rewrite E.
Qed.

End Term.
