(* Facts about the validator's two over-approximations that do not involve the semantics:
   names / traces, the fuel of is_non_progressing / is_non_failing never runs out, and the
   inductive reading `Null trace e` of "is_non_progressing returns true" (least fixed point with
   the rules on the trace cut), which is antitone in the trace.                               *)
From Coq Require Import String Ascii List Arith NArith ZArith Bool Lia.
Import ListNotations.
Require Import PV.Comb.PState PV.Peg.Ast PV.Valid.Validator.

(* ---------------------------------------------------------------------------------------- *)
(* names                                                                                    *)
(* ---------------------------------------------------------------------------------------- *)
Lemma str_eqb_eq a b : str_eqb a b = true <-> a = b.
Proof.
  revert b. induction a as [|x a IH]; intros [|y b]; cbn; split; intros H; try congruence; try discriminate; auto.
  - apply andb_true_iff in H. destruct H as [H1 H2]. apply N.eqb_eq in H1. apply IH in H2. congruence.
  - inversion H; subst. rewrite N.eqb_refl. cbn. now apply IH.
Qed.
Lemma str_eqb_refl a : str_eqb a a = true.
Proof. now apply str_eqb_eq. Qed.
Lemma str_eqb_neq a b : str_eqb a b = false <-> a <> b.
Proof.
  split; intros H.
  - intros E. apply str_eqb_eq in E. congruence.
  - destruct (str_eqb a b) eqn:E; auto. apply str_eqb_eq in E. contradiction.
Qed.
Lemma str_eqb_sym a b : str_eqb a b = str_eqb b a.
Proof.
  destruct (str_eqb a b) eqn:E.
  - apply str_eqb_eq in E. subst. now rewrite str_eqb_refl.
  - symmetry. apply str_eqb_neq. apply str_eqb_neq in E. congruence.
Qed.

Lemma mem_In n t : mem n t = true <-> In n t.
Proof.
  unfold mem. rewrite existsb_exists. split.
  - intros (x & Hx & E). apply str_eqb_eq in E. now subst.
  - intros H. exists n. split; auto. apply str_eqb_refl.
Qed.
Lemma mem_false_In n t : mem n t = false <-> ~ In n t.
Proof.
  split; intros H.
  - intros Hi. apply mem_In in Hi. congruence.
  - destruct (mem n t) eqn:E; auto. apply mem_In in E. contradiction.
Qed.
Lemma mem_cons n x t : mem n (x :: t) = str_eqb n x || mem n t.
Proof. reflexivity. Qed.

Lemma find_rule_In G n r : find_rule G n = Some r -> In r G /\ rname r = n.
Proof.
  induction G as [|x G IH]; cbn; [discriminate|].
  destruct (find_rule G n) as [y|] eqn:E.
  - intros H. inversion H; subst. destruct (IH eq_refl) as [H1 H2]. auto.
  - destruct (str_eqb (rname x) n) eqn:E2; [|discriminate].
    intros H. inversion H; subst. apply str_eqb_eq in E2. auto.
Qed.
Lemma find_rule_defined G r : In r G -> exists r', find_rule G (rname r) = Some r'.
Proof.
  induction G as [|x G IH]; cbn; [tauto|].
  intros [H|H].
  - subst. destruct (find_rule G (rname r)) as [y|]; [eauto|]. rewrite str_eqb_refl. eauto.
  - destruct (IH H) as [r' Hr']. rewrite Hr'. eauto.
Qed.

Lemma lookup_In G n b : lookup G n = Some b -> exists r, In r G /\ rname r = n /\ rexpr r = b /\ find_rule G n = Some r.
Proof.
  unfold lookup. destruct (find_rule G n) as [r|] eqn:E; [|discriminate].
  intros H. inversion H; subst. destruct (find_rule_In _ _ _ E). eauto.
Qed.
Lemma lookup_defs G n b : lookup G n = Some b -> In n (defs G).
Proof.
  intros H. destruct (lookup_In _ _ _ H) as (r & Hr & Hn & _). subst. unfold defs. now apply in_map.
Qed.
Lemma lookup_rule G r : In r G -> exists b, lookup G (rname r) = Some b.
Proof. intros H. destruct (find_rule_defined _ _ H) as [r' Hr']. unfold lookup. rewrite Hr'. eauto. Qed.

Lemma defs_length G : length (defs G) = length G.
Proof. apply map_length. Qed.

(* a duplicate-free trace of defined names is no longer than the grammar *)
Lemma trace_bound G t : NoDup t -> incl t (defs G) -> length t <= length G.
Proof. intros H1 H2. rewrite <- defs_length. now apply NoDup_incl_length. Qed.

(* ---------------------------------------------------------------------------------------- *)
(* the fuel of is_non_progressing / is_non_failing never runs out                            *)
(* ---------------------------------------------------------------------------------------- *)
Section Fuel.
Variable G : grammar.

Lemma oand_not_none a b : a <> None -> (a = Some true -> b tt <> None) -> oand a b <> None.
Proof. destruct a as [[|]|]; cbn; auto; congruence. Qed.
Lemma oor_not_none a b : a <> None -> (a = Some false -> b tt <> None) -> oor a b <> None.
Proof. destruct a as [[|]|]; cbn; auto; congruence. Qed.

Lemma np_e_not_none rec t e :
  (forall n b, mem n t = false -> lookup G n = Some b -> rec (n :: t) b <> None) ->
  np_e G rec t e <> None.
Proof.
  intros Hrec. induction e; cbn [np_e]; try congruence; auto.
  - (* EIdent *)
    destruct (_ || _); [congruence|]. destruct (mem n t) eqn:Em; [congruence|].
    destruct (lookup G n) eqn:El; [|congruence]. now apply Hrec.
  - apply oand_not_none; auto.
  - apply oor_not_none; auto.
  - destruct (n_is_zero n); [congruence|auto].
  - destruct (n_is_zero n); [congruence|auto].
  - destruct (n_is_zero m); [congruence|auto].
Qed.
Lemma nf_e_not_none rec t e :
  (forall n b, mem n t = false -> lookup G n = Some b -> rec (n :: t) b <> None) ->
  nf_e G rec t e <> None.
Proof.
  intros Hrec. induction e; cbn [nf_e]; try congruence; auto.
  - destruct (mem n t) eqn:Em; [congruence|].
    destruct (lookup G n) eqn:El; [|congruence]. now apply Hrec.
  - apply oand_not_none; auto.
  - apply oor_not_none; auto.
  - destruct (n_is_zero n); [congruence|auto].
  - destruct (n_is_zero n); [congruence|auto].
  - destruct (n_is_zero m); [congruence|auto].
Qed.

Lemma np_fuel_ok f : forall t e, NoDup t -> incl t (defs G) -> length G < f + length t -> np G f t e <> None.
Proof.
  induction f as [|f IH]; intros t e Hnd Hin Hlen.
  - pose proof (trace_bound G t Hnd Hin). cbn in Hlen. lia.
  - cbn [np]. apply np_e_not_none. intros n b Hm Hl. apply IH.
    + constructor; auto. now apply mem_false_In.
    + intros x [Hx|Hx]; [subst; eapply lookup_defs; eauto|auto].
    + cbn [length]. lia.
Qed.
Lemma nf_fuel_ok f : forall t e, NoDup t -> incl t (defs G) -> length G < f + length t -> nf G f t e <> None.
Proof.
  induction f as [|f IH]; intros t e Hnd Hin Hlen.
  - pose proof (trace_bound G t Hnd Hin). cbn in Hlen. lia.
  - cbn [nf]. apply nf_e_not_none. intros n b Hm Hl. apply IH.
    + constructor; auto. now apply mem_false_In.
    + intros x [Hx|Hx]; [subst; eapply lookup_defs; eauto|auto].
    + cbn [length]. lia.
Qed.

Lemma np_vfuel_nil e : np G (vfuel G) [] e <> None.
Proof. apply np_fuel_ok; [constructor|intros x []|unfold vfuel; cbn; lia]. Qed.
Lemma nf_vfuel_nil e : nf G (vfuel G) [] e <> None.
Proof. apply nf_fuel_ok; [constructor|intros x []|unfold vfuel; cbn; lia]. Qed.
Lemma np_vfuel_one cur e : In cur (defs G) -> np G (vfuel G) [cur] e <> None.
Proof.
  intros H. apply np_fuel_ok; [repeat constructor; auto|intros x [Hx|[]]; now subst|unfold vfuel; cbn; lia].
Qed.
Lemma nf_vfuel_one cur e : In cur (defs G) -> nf G (vfuel G) [cur] e <> None.
Proof.
  intros H. apply nf_fuel_ok; [repeat constructor; auto|intros x [Hx|[]]; now subst|unfold vfuel; cbn; lia].
Qed.

(* ---------------------------------------------------------------------------------------- *)
(* Null: the inductive reading of is_non_progressing = true                                 *)
(* ---------------------------------------------------------------------------------------- *)
Definition soi_eoi (n : name) : bool := str_eqb n (nm "SOI") || str_eqb n (nm "EOI").

Inductive Null : list name -> expr -> Prop :=
| NStr t : Null t (EStr [])
| NInsens t : Null t (EInsens [])
| NSoi t n : soi_eoi n = true -> Null t (EIdent n)
| NIdent t n b : soi_eoi n = false -> mem n t = false -> lookup G n = Some b -> Null (n :: t) b -> Null t (EIdent n)
| NSeq t l r : Null t l -> Null t r -> Null t (ESeq l r)
| NChoL t l r : Null t l -> Null t (EChoice l r)
| NChoR t l r : Null t r -> Null t (EChoice l r)
| NPos t x : Null t (EPosPred x)
| NNeg t x : Null t (ENegPred x)
| NRep t x : Null t (ERep x)
| NOpt t x : Null t (EOpt x)
| NRepMax t x n : Null t (ERepMax x n)
| NRepExact0 t x n : n_is_zero n = true -> Null t (ERepExact x n)
| NRepExact t x n : Null t x -> Null t (ERepExact x n)
| NRepMin0 t x n : n_is_zero n = true -> Null t (ERepMin x n)
| NRepMin t x n : Null t x -> Null t (ERepMin x n)
| NRepMinMax0 t x m n : n_is_zero m = true -> Null t (ERepMinMax x m n)
| NRepMinMax t x m n : Null t x -> Null t (ERepMinMax x m n)
| NPush t x : Null t x -> Null t (EPush x)
| NPushLit t s : Null t (EPushLiteral s)
| NRepOnce t x : Null t x -> Null t (ERepOnce x)
| NTag t x tg : Null t x -> Null t (ENodeTag x tg)
| NSkip t ss : Null t (ESkip ss).

Lemma np_e_true_Null rec t e :
  (forall n b, rec (n :: t) b = Some true -> Null (n :: t) b) ->
  np_e G rec t e = Some true -> Null t e.
Proof.
  intros Hrec. induction e; cbn [np_e]; intros H; try discriminate; try (constructor; auto; fail).
  - destruct s; [constructor|discriminate].
  - destruct s; [constructor|discriminate].
  - destruct (_ || _) eqn:Es; [now apply NSoi|].
    destruct (mem n t) eqn:Em; [discriminate|].
    destruct (lookup G n) eqn:El; [|discriminate].
    eapply NIdent; eauto.
  - destruct (np_e G rec t e1) as [[|]|]; cbn in H; try discriminate. constructor; auto.
  - destruct (np_e G rec t e1) as [[|]|]; cbn in H; try discriminate; [apply NChoL|apply NChoR]; auto.
  - destruct (n_is_zero n) eqn:E; [now apply NRepExact0|apply NRepExact; auto].
  - destruct (n_is_zero n) eqn:E; [now apply NRepMin0|apply NRepMin; auto].
  - destruct (n_is_zero m) eqn:E; [now apply NRepMinMax0|apply NRepMinMax; auto].
Qed.
Lemma np_true_Null f : forall t e, np G f t e = Some true -> Null t e.
Proof.
  induction f as [|f IH]; intros t e; cbn [np]; [discriminate|].
  apply np_e_true_Null. intros n b. apply IH.
Qed.

Lemma Null_np_e t e :
  Null t e -> forall rec, (forall t' n b, Null (n :: t') b -> rec (n :: t') b <> Some false) ->
  np_e G rec t e <> Some false.
Proof.
  induction 1; intros rec Hrec; cbn [np_e]; try discriminate; auto.
  - unfold soi_eoi in H. rewrite H. discriminate.
  - unfold soi_eoi in H. rewrite H, H0, H1. now apply Hrec.
  - specialize (IHNull1 rec Hrec). specialize (IHNull2 rec Hrec).
    destruct (np_e G rec t l) as [[|]|]; cbn; congruence.
  - specialize (IHNull rec Hrec). destruct (np_e G rec t l) as [[|]|]; cbn; congruence.
  - specialize (IHNull rec Hrec). destruct (np_e G rec t l) as [[|]|]; cbn; congruence.
  - rewrite H. discriminate.
  - destruct (n_is_zero n); [discriminate|auto].
  - rewrite H. discriminate.
  - destruct (n_is_zero n); [discriminate|auto].
  - rewrite H. discriminate.
  - destruct (n_is_zero m); [discriminate|auto].
Qed.
Lemma Null_np f : forall t e, Null t e -> np G f t e <> Some false.
Proof.
  induction f as [|f IH]; intros t e H; cbn [np]; [discriminate|].
  apply Null_np_e; auto.
Qed.

(* fewer rules cut: more expressions nullable *)
Lemma Null_antitone t e : Null t e -> forall t', (forall x, mem x t' = true -> mem x t = true) -> Null t' e.
Proof.
  induction 1; intros t' Hsub; try (constructor; auto; fail).
  - eapply NIdent; eauto.
    + destruct (mem n t') eqn:E; auto. apply Hsub in E. congruence.
    + apply IHNull. intros x. rewrite !mem_cons. intros Hx. apply orb_true_iff in Hx. apply orb_true_iff.
      destruct Hx as [Hx|Hx]; auto.
Qed.

End Fuel.
