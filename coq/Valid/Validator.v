(* Layer F: executable model of meta/src/validator.rs (and of the two places of meta/src/parser.rs
   that decide acceptance before it: the name checks of validate_pairs and the "cannot repeat 0
   times" errors of the grammar reader) on the span-free AST of Peg/Ast.v.

   What is kept of the Rust code:
     - one error KIND per check (spans only locate errors and order the final vector);
     - the HashMap views: `lookup n` is to_hash_map(rules).get(n) (a later duplicate wins);
     - the `trace` vectors of is_non_failing / is_non_progressing / check_expr, as lists whose HEAD
       is the LAST element of the Rust Vec (push = cons, pop = tail, trace.last() = head,
       trace[0] = last element of the list);
     - the recursion through rule references is fuelled (fuel is consumed ONLY when a reference is
       unfolded, S (length G) is what `validate` passes; Nullable.v / LeftRec.v prove that it never
       runs out); running out of fuel is a visible outcome (None / CFuel / VFuel), never a default;
     - panic sites: trace[0], trace.last().unwrap() on an empty trace -> CPanic / VPanic
       (trace.pop().unwrap() follows a push, so it cannot fail; the `unreachable!` of the final
       sort needs a non-Span location, which new_from_span never builds).
   Two repairs are modelled behind flags (fixes/C06-1-..., fixes/C06-2-...):
     fix_lr  : check_expr descends into the left side of a sequence ALWAYS and into the right
               side when the left side may match empty, and descends into RepExact / RepMin /
               RepMax / RepMinMax / NodeTag;
     fix_tag : ParserNode::filter_map_top_down descends into NodeTag (grammar-extras).          *)
From Coq Require Import List Arith NArith ZArith Bool String Ascii.
Import ListNotations.
Require Import PV.Comb.PState PV.Peg.Ast.

Record vcfg := { fix_lr : bool; fix_tag : bool }.
Definition cfg_current : vcfg := {| fix_lr := false; fix_tag := false |}.
Definition cfg_fixed : vcfg := {| fix_lr := true; fix_tag := true |}.

Inductive verr :=
| VKeyword (n : name)            (* "{n} is a pest keyword" *)
| VDup (n : name)                (* "rule {n} already defined" *)
| VUndef (n : name)              (* "rule {n} is undefined" *)
| VZero                          (* "cannot repeat 0 times" (grammar reader) *)
| VRepNF                         (* "expression inside repetition cannot fail and will repeat infinitely" *)
| VRepNP                         (* "expression inside repetition is non-progressing and will repeat infinitely" *)
| VChoNF                         (* "expression cannot fail; following choices cannot be reached" *)
| VSpNF (n : name)               (* "{WHITESPACE|COMMENT} cannot fail and will repeat infinitely" *)
| VSpNP (n : name)               (* "{WHITESPACE|COMMENT} is non-progressing and will repeat infinitely" *)
| VLeftRec (chain : list name)   (* "rule .. is left-recursive (a -> b -> a)" *)
| VTagSilent                     (* grammar-extras: "tags on silent rules will not appear in the output" *)
| VTagBuiltin                    (* grammar-extras: "tags on built-in rules will not appear in the output" *)
| VFuel                          (* the model's fuel ran out (proved impossible) *)
| VPanic.                        (* a Rust panic site was reached (proved impossible) *)

Definition mem (n : name) (t : list name) : bool := existsb (str_eqb n) t.

Section Validator.
Variable kw : name -> bool.        (* PEST_KEYWORDS.contains *)
Variable builtin : name -> bool.   (* BUILTINS.contains (incl. the Unicode property names) *)
Variable cfg : vcfg.
Variable G : grammar.

(* to_hash_map(rules).get(n) *)
Definition lookup (n : name) : option expr :=
  match find_rule G n with Some r => Some (rexpr r) | None => None end.

(* ---------------------------------------------------------------------------------------- *)
(* is_non_progressing                                                                       *)
(* ---------------------------------------------------------------------------------------- *)
Definition is_nil (s : str) : bool := match s with [] => true | _ => false end.
Definition n_is_zero (n : N) : bool := N.eqb n 0.

(* Rust `a && b` / `a || b` on results that may have run out of fuel: b is evaluated only when needed *)
Definition oand (a : option bool) (b : unit -> option bool) : option bool :=
  match a with Some true => b tt | r => r end.
Definition oor (a : option bool) (b : unit -> option bool) : option bool :=
  match a with Some false => b tt | r => r end.

Fixpoint np_e (rec : list name -> expr -> option bool) (trace : list name) (e : expr) : option bool :=
  match e with
  | EStr s | EInsens s => Some (is_nil s)
  | EIdent ident =>
      if str_eqb ident (nm "SOI") || str_eqb ident (nm "EOI") then Some true
      else if mem ident trace then Some false
      else match lookup ident with
           | Some body => rec (ident :: trace) body
           | None => Some false
           end
  | ESeq l r => oand (np_e rec trace l) (fun _ => np_e rec trace r)
  | EChoice l r => oor (np_e rec trace l) (fun _ => np_e rec trace r)
  | EPosPred _ | ENegPred _ => Some true
  | ERep _ | EOpt _ | ERepMax _ _ => Some true
  | ERange _ _ => Some false
  | EPeekSlice _ _ => Some false
  | ERepExact x n | ERepMin x n | ERepMinMax x n _ => if n_is_zero n then Some true else np_e rec trace x
  | EPush x => np_e rec trace x
  | EPushLiteral _ => Some true
  | ERepOnce x => np_e rec trace x
  | ENodeTag x _ => np_e rec trace x
  | ESkip _ => Some true          (* not a ParserExpr: grammars with Skip are outside `readable` *)
  end.
Fixpoint np (fuel : nat) (trace : list name) (e : expr) {struct fuel} : option bool :=
  match fuel with O => None | S f => np_e (np f) trace e end.

(* ---------------------------------------------------------------------------------------- *)
(* is_non_failing                                                                           *)
(* ---------------------------------------------------------------------------------------- *)
Fixpoint nf_e (rec : list name -> expr -> option bool) (trace : list name) (e : expr) : option bool :=
  match e with
  | EStr s | EInsens s => Some (is_nil s)
  | EIdent ident =>
      if mem ident trace then Some false
      else match lookup ident with
           | Some body => rec (ident :: trace) body
           | None => Some false
           end
  | EOpt _ | ERep _ | ERepMax _ _ => Some true
  | ESeq l r => oand (nf_e rec trace l) (fun _ => nf_e rec trace r)
  | EChoice l r => oor (nf_e rec trace l) (fun _ => nf_e rec trace r)
  | ERange _ _ => Some false
  | EPeekSlice _ _ => Some false
  | ERepExact x n | ERepMin x n | ERepMinMax x n _ => if n_is_zero n then Some true else nf_e rec trace x
  | ENegPred _ => Some false
  | ERepOnce x => nf_e rec trace x
  | EPush x | EPosPred x => nf_e rec trace x
  | EPushLiteral _ => Some true
  | ENodeTag x _ => nf_e rec trace x
  | ESkip _ => Some true          (* not a ParserExpr *)
  end.
Fixpoint nf (fuel : nat) (trace : list name) (e : expr) {struct fuel} : option bool :=
  match fuel with O => None | S f => nf_e (nf f) trace e end.

Definition vfuel : nat := S (List.length G).

(* ---------------------------------------------------------------------------------------- *)
(* ParserNode::filter_map_top_down: the nodes it visits, in its (pre-)order                 *)
(* ---------------------------------------------------------------------------------------- *)
Fixpoint subnodes (e : expr) : list expr :=
  e :: match e with
       | EPosPred x | ENegPred x | ERep x | ERepOnce x | ERepExact x _ | ERepMin x _ | ERepMax x _
       | ERepMinMax x _ _ | EOpt x | EPush x => subnodes x
       | ESeq l r | EChoice l r => subnodes l ++ subnodes r
       | ENodeTag x _ => if fix_tag cfg then subnodes x else []
       | _ => []
       end.

(* ---------------------------------------------------------------------------------------- *)
(* validate_repetition / validate_choices / validate_whitespace_comment                     *)
(* ---------------------------------------------------------------------------------------- *)
Definition nf_np_errors (x : expr) (enf enp : verr) : list verr :=
  match nf vfuel [] x with
  | None => [VFuel]
  | Some true => [enf]
  | Some false =>
    match np vfuel [] x with
    | None => [VFuel]
    | Some true => [enp]
    | Some false => []
    end
  end.

Definition rep_node_errors (node : expr) : list verr :=
  match node with
  | ERep x | ERepOnce x | ERepMin x _ => nf_np_errors x VRepNF VRepNP
  | _ => []
  end.
Definition validate_repetition : list verr :=
  flat_map (fun r => flat_map rep_node_errors (subnodes (rexpr r))) G.

Definition cho_node_errors (node : expr) : list verr :=
  match node with
  | EChoice lhs _ =>
      let alt := match lhs with EChoice _ rhs => rhs | _ => lhs end in
      match nf vfuel [] alt with None => [VFuel] | Some true => [VChoNF] | Some false => [] end
  | _ => []
  end.
Definition validate_choices : list verr :=
  flat_map (fun r => flat_map cho_node_errors (subnodes (rexpr r))) G.

Definition is_ws_or_comment (n : name) : bool := str_eqb n (nm "WHITESPACE") || str_eqb n (nm "COMMENT").
Definition validate_whitespace_comment : list verr :=
  flat_map (fun r => if is_ws_or_comment (rname r) then nf_np_errors (rexpr r) (VSpNF (rname r)) (VSpNP (rname r)) else []) G.

(* ---------------------------------------------------------------------------------------- *)
(* left_recursion / check_expr                                                              *)
(* ---------------------------------------------------------------------------------------- *)
Inductive cres := CNone | CErr (chain : list name) | CFuel | CPanic.

(* trace[0] *)
Fixpoint vec_first (t : list name) : option name :=
  match t with [] => None | [x] => Some x | _ :: r => vec_first r end.

(* `is_non_failing(lhs, [trace.last()]) || is_non_progressing(lhs, [trace.last()])` *)
Definition nullable_seeded (cur : name) (l : expr) : option bool :=
  oor (nf vfuel [cur] l) (fun _ => np vfuel [cur] l).

Fixpoint check_e (rec : list name -> expr -> cres) (trace : list name) (e : expr) : cres :=
  match e with
  | EIdent other =>
      match vec_first trace with
      | None => CPanic
      | Some root =>
        if str_eqb root other then CErr (rev (other :: trace))
        else if mem other trace then CNone
        else match lookup other with
             | Some body => rec (other :: trace) body
             | None => CNone
             end
      end
  | ESeq l r =>
      if fix_lr cfg then
        match check_e rec trace l with
        | CNone =>
          match trace with
          | [] => CPanic
          | cur :: _ =>
            match nullable_seeded cur l with
            | None => CFuel
            | Some true => check_e rec trace r
            | Some false => CNone
            end
          end
        | x => x
        end
      else
        match trace with
        | [] => CPanic
        | cur :: _ =>
          match nullable_seeded cur l with
          | None => CFuel
          | Some true => check_e rec trace r
          | Some false => check_e rec trace l
          end
        end
  | EChoice l r => match check_e rec trace l with CNone => check_e rec trace r | x => x end
  | ERep x | ERepOnce x | EOpt x | EPosPred x | ENegPred x | EPush x => check_e rec trace x
  | ERepExact x _ | ERepMin x _ | ERepMax x _ | ERepMinMax x _ _ | ENodeTag x _ =>
      if fix_lr cfg then check_e rec trace x else CNone
  | _ => CNone
  end.
Fixpoint check (fuel : nat) (trace : list name) (e : expr) {struct fuel} : cres :=
  match fuel with O => CFuel | S f => check_e (check f) trace e end.

(* `for (name, node) in &rules { check_expr(node, &rules, &mut vec![name]) }`: one DFS per map entry;
   the map entry of a name is `lookup name` (for a grammar without duplicate definitions - the only
   ones that reach validate_ast - the entries are exactly the rules; iteration order is unspecified) *)
Definition check_root (n : name) : cres :=
  match lookup n with Some body => check vfuel [n] body | None => CNone end.
Definition validate_left_recursion : list verr :=
  flat_map (fun r => match check_root (rname r) with
                     | CNone => [] | CErr c => [VLeftRec c] | CFuel => [VFuel] | CPanic => [VPanic] end) G.

(* ---------------------------------------------------------------------------------------- *)
(* validate_tag_silent_rules (grammar-extras; without the feature the AST has no NodeTag)    *)
(* ---------------------------------------------------------------------------------------- *)
Fixpoint check_silent_builtin (e : expr) : list verr :=
  match e with
  | EIdent n =>
      match find_rule G n with
      | Some r => match rty r with RSilent => [VTagSilent] | _ => if builtin n then [VTagBuiltin] else [] end
      | None => if builtin n then [VTagBuiltin] else []
      end
  | ERep x | ERepMinMax x _ _ | ERepMax x _ | ERepMin x _ | ERepOnce x | ERepExact x _ | EOpt x | EPush x
  | EPosPred x | ENegPred x => check_silent_builtin x
  | _ => []
  end.
Definition tag_node_errors (node : expr) : list verr :=
  match node with ENodeTag x _ => check_silent_builtin x | _ => [] end.
Definition validate_tag_silent_rules : list verr :=
  flat_map (fun r => flat_map tag_node_errors (subnodes (rexpr r))) G.

Definition validate_ast : list verr :=
  validate_repetition ++ validate_choices ++ validate_whitespace_comment ++ validate_left_recursion
  ++ validate_tag_silent_rules.

(* ---------------------------------------------------------------------------------------- *)
(* validate_pairs: keywords, duplicates, undefined rules                                    *)
(* ---------------------------------------------------------------------------------------- *)
Definition defs : list name := map rname G.

Definition validate_pest_keywords : list verr :=
  flat_map (fun n => if kw n then [VKeyword n] else []) defs.

Fixpoint already_defined (seen : list name) (l : list name) : list verr :=
  match l with
  | [] => []
  | n :: r => if mem n seen then VDup n :: already_defined seen r else already_defined (n :: seen) r
  end.
Definition validate_already_defined : list verr := already_defined [] defs.

(* every `identifier` pair inside a rule's expression, in the order of Pairs::flatten *)
Fixpoint idents (e : expr) : list name :=
  match e with
  | EIdent n => [n]
  | EPosPred x | ENegPred x | ERep x | ERepOnce x | ERepExact x _ | ERepMin x _ | ERepMax x _
  | ERepMinMax x _ _ | EOpt x | EPush x | ENodeTag x _ => idents x
  | ESeq l r | EChoice l r => idents l ++ idents r
  | _ => []
  end.
Definition validate_undefined : list verr :=
  flat_map (fun r => flat_map (fun n => if mem n defs || builtin n then [] else [VUndef n]) (idents (rexpr r))) G.

Definition validate_pairs : list verr :=
  validate_pest_keywords ++ validate_already_defined ++ validate_undefined.

(* ---------------------------------------------------------------------------------------- *)
(* the grammar reader (consume_rules_with_spans): "cannot repeat 0 times"; the first error   *)
(* aborts the conversion (`?` / collect into Result), so exactly one error is reported       *)
(* ---------------------------------------------------------------------------------------- *)
Fixpoint zero_count (e : expr) : bool :=
  match e with
  | ERepExact x n | ERepMax x n | ERepMinMax x _ n => n_is_zero n || zero_count x
  | EPosPred x | ENegPred x | ERep x | ERepOnce x | ERepMin x _ | EOpt x | EPush x | ENodeTag x _ => zero_count x
  | ESeq l r | EChoice l r => zero_count l || zero_count r
  | _ => false
  end.
Definition reader_errors : list verr :=
  if existsb (fun r => zero_count (rexpr r)) G then [VZero] else [].

(* parse_and_optimize up to the optimizer: validate_pairs(..)?; consume_rules(..)? *)
Definition validate : list verr :=
  match validate_pairs with
  | [] => match reader_errors with [] => validate_ast | es => es end
  | es => es
  end.

End Validator.

(* ---------------------------------------------------------------------------------------- *)
(* the domain of the property                                                               *)
(* ---------------------------------------------------------------------------------------- *)
(* the stack built-ins that READ the stack (PUSH / PUSH_LITERAL only write it and are allowed) *)
Definition stack_name (n : name) : bool :=
  str_eqb n (nm "PEEK") || str_eqb n (nm "POP") || str_eqb n (nm "DROP") || str_eqb n (nm "PEEK_ALL") || str_eqb n (nm "POP_ALL").
Fixpoint stack_free (e : expr) : bool :=
  match e with
  | EIdent n => negb (stack_name n)
  | EPeekSlice _ _ => false
  | EPosPred x | ENegPred x | ERep x | ERepOnce x | ERepExact x _ | ERepMin x _ | ERepMax x _
  | ERepMinMax x _ _ | EOpt x | EPush x | ENodeTag x _ => stack_free x
  | ESeq l r | EChoice l r => stack_free l && stack_free r
  | _ => true
  end.
Definition no_stack_builtins (G : grammar) : bool := forallb (fun r => stack_free (rexpr r)) G.

(* what the meta-parser can produce: ParserExpr has no Skip *)
Fixpoint parser_expr (e : expr) : bool :=
  match e with
  | ESkip _ => false
  | EPosPred x | ENegPred x | ERep x | ERepOnce x | ERepExact x _ | ERepMin x _ | ERepMax x _
  | ERepMinMax x _ _ | EOpt x | EPush x | ENodeTag x _ => parser_expr x
  | ESeq l r | EChoice l r => parser_expr l && parser_expr r
  | _ => true
  end.
Definition readable (G : grammar) : bool := forallb (fun r => parser_expr (rexpr r)) G.
