(* Termination of Layer S on accepted grammars, part 2: at a fixed position p, assuming that
   everything terminates at later positions (Later) and that the implicit skip terminates
   (SkipTerm), each constructor preserves `SemN` (termination + "a match that does not move is
   explained by the validator's nullability").                                               *)
From Coq Require Import String Ascii List Arith NArith ZArith Bool Lia.
Import ListNotations.
Require Import PV.Comb.PState PV.Comb.Bytes PV.Iter.Queue PV.Peg.Ast PV.Peg.Spec PV.Peg.SpecFacts.
Require Import PV.Valid.Validator PV.Valid.Known PV.Valid.Nullable PV.Valid.Progress PV.Valid.TermBase.

Arguments Nat.sub : simpl never.
Arguments Nat.max : simpl never.

Section Cons.
Variable G : grammar.
Variable extras : bool.
Variable uprop : name -> option (N -> bool).
Variable w : list byte.
Hypothesis HS : no_stack_builtins G = true.

Notation eval := (Spec.eval G extras uprop w).
Notation Good := (Good G).
Notation SemN := (SemN G extras uprop w).
Notation Sem := (Sem G extras uprop w).
Notation Null := (Null G).

Variable ph : bool.
Variable p : nat.
Hypothesis Hp : p <= length w.
Hypothesis Later : forall p', p < p' <= length w -> forall e, Good ph e -> SemN ph p' True e.
Hypothesis Hskip : SkipTerm G extras uprop w ph.

Lemma max3 a b c : a <= Nat.max a (Nat.max b c) /\ b <= Nat.max a (Nat.max b c) /\ c <= Nat.max a (Nat.max b c).
Proof. lia. Qed.

Lemma good_seq l r : Good ph (ESeq l r) -> Good ph l /\ Good ph r.
Proof.
  intros (H1 & H2 & H3). cbn in H1, H2. apply andb_true_iff in H1. destruct H1, H2.
  split; (split; [auto|split; [auto|]]); intros E; specialize (H3 E);
    (eapply NAfree_sub; [|exact H3]); intros x Hx; cbn; apply in_or_app; auto.
Qed.
Lemma good_seq_mk l r : Good ph l -> Good ph r -> Good ph (ESeq l r).
Proof.
  intros (A1 & A2 & A3) (B1 & B2 & B3). split; [cbn; now rewrite A1, B1|]. split; [cbn; auto|].
  intros E x Hx. specialize (A3 E). specialize (B3 E).
  inversion Hx; subst.
  - cbn in H. apply in_app_or in H. destruct H; [apply A3|apply B3]; now apply RRhere.
  - cbn in H. apply in_app_or in H. destruct H; [apply A3|apply B3]; eapply RRstep; eauto.
Qed.
Lemma good_cho l r : Good ph (EChoice l r) -> Good ph l /\ Good ph r.
Proof.
  intros (H1 & H2 & H3). cbn in H1, H2. apply andb_true_iff in H1. destruct H1, H2.
  split; (split; [auto|split; [auto|]]); intros E; specialize (H3 E);
    (eapply NAfree_sub; [|exact H3]); intros x Hx; cbn; apply in_or_app; auto.
Qed.
(* unary constructors whose idents are those of the child *)
Lemma good_un (e x : expr) : stack_free e = stack_free x -> (reps_ok G e -> reps_ok G x) -> idents e = idents x ->
  Good ph e -> Good ph x.
Proof.
  intros E1 E2 E3 (H1 & H2 & H3). split; [congruence|]. split; [auto|].
  intros E. eapply NAfree_sub; [|exact (H3 E)]. intros y. now rewrite E3.
Qed.

(* evaluation at position q >= p: at p through the given SemN, later through Later *)
Lemma at_or_later (N : Prop) e q : p <= q <= length w -> Good ph e -> (q = p -> SemN ph p N e) ->
  forall a emit sg, ModeOK ph a ->
  exists n r, eval n a emit e q sg = r /\ r <> SFuel /\ (forall sg' f', r = SMatch p sg' f' -> N /\ q = p).
Proof.
  intros Hq Hg Hs a emit sg Hm.
  destruct (Nat.eq_dec q p) as [->|Hne].
  - destruct (Hs eq_refl a emit sg Hm) as (n & r & E & Hr & Z). exists n, r. repeat split; auto. eapply Z; eauto.
  - destruct (Later q ltac:(lia) e Hg a emit sg Hm) as (n & r & E & Hr & _). exists n, r.
    split; [auto|split; [auto|]]. intros sg' f' Er. rewrite Er in E. apply eval_range in E; lia.
Qed.

Lemma SemN_seq (N1 N2 : Prop) l r : Good ph r -> SemN ph p N1 l -> (N1 -> SemN ph p N2 r) -> SemN ph p (N1 /\ N2) (ESeq l r).
Proof.
  intros Hg Hl Hr a emit sg Hm.
  destruct (Hl a emit sg Hm) as (n1 & r1 & E1 & R1 & Z1).
  destruct r1 as [p1 sg1 f1| |]; [| |congruence].
  2:{ exists (S n1), SFail. split; [cbn [Spec.eval]; now rewrite E1|]. split; [discriminate|discriminate]. }
  pose proof (eval_range _ _ _ _ _ _ _ _ _ _ _ _ _ E1 Hp) as Rg1.
  destruct (Hskip a emit p1 sg1 Hm ltac:(lia)) as (n2 & r2 & E2 & R2).
  destruct r2 as [p2 sg2 f2| |]; [| |congruence].
  2:{ exists (S (Nat.max n1 n2)), SFail. split; [|split; discriminate]. cbn [Spec.eval].
      rewrite (eval_up _ _ _ _ n1 (Nat.max n1 n2) _ _ _ _ _ _ ltac:(lia) E1) by discriminate.
      rewrite (skip_up _ _ _ _ n2 (Nat.max n1 n2) _ _ _ _ _ ltac:(lia) E2) by discriminate. reflexivity. }
  assert (Rg2 : p1 <= p2 <= length w) by (eapply skip_range; [apply eval_range|exact E2|lia]).
  assert (Hr' : p2 = p -> SemN ph p N2 r).
  { intros ->. apply Hr. assert (p1 = p) by lia. subst p1. eapply Z1; eauto. }
  destruct (at_or_later N2 r p2 ltac:(lia) Hg Hr' a emit sg2 Hm) as (n3 & r3 & E3 & R3 & Z3).
  destruct (max3 n1 n2 n3) as (L1 & L2 & L3). set (M := Nat.max n1 (Nat.max n2 n3)) in *.
  assert (EV : eval (S M) a emit (ESeq l r) p sg =
               match r3 with SMatch p3 sg3 f3 => SMatch p3 sg3 (f1 ++ f2 ++ f3) | SFail => SFail | SFuel => SFuel end).
  { cbn [Spec.eval].
    rewrite (eval_up _ _ _ _ n1 M _ _ _ _ _ _ L1 E1) by discriminate.
    rewrite (skip_up _ _ _ _ n2 M _ _ _ _ _ L2 E2) by discriminate.
    rewrite (eval_up _ _ _ _ n3 M _ _ _ _ _ _ L3 E3) by exact R3. reflexivity. }
  exists (S M). eexists. split; [exact EV|].
  destruct r3 as [p3 sg3 f3| |]; [|split; discriminate|congruence].
  split; [discriminate|]. intros sg' f' Er. inversion Er; subst p3.
  destruct (Z3 _ _ eq_refl) as [HN2 ->]. assert (p1 = p) by lia. subst p1. split; auto. eapply Z1; eauto.
Qed.

Lemma SemN_cho (N1 N2 : Prop) l r : SemN ph p N1 l -> SemN ph p N2 r -> SemN ph p (N1 \/ N2) (EChoice l r).
Proof.
  intros Hl Hr a emit sg Hm.
  destruct (Hl a emit sg Hm) as (n1 & r1 & E1 & R1 & Z1).
  destruct r1 as [p1 sg1 f1| |]; [| |congruence].
  - exists (S n1), (SMatch p1 sg1 f1). split; [cbn [Spec.eval]; now rewrite E1|]. split; [discriminate|].
    intros sg' f' Er. inversion Er; subst. left. eapply Z1; eauto.
  - destruct (Hr a emit sg Hm) as (n2 & r2 & E2 & R2 & Z2).
    exists (S (Nat.max n1 n2)), r2. split; [|split; auto].
    + cbn [Spec.eval]. rewrite (eval_up _ _ _ _ n1 (Nat.max n1 n2) _ _ _ _ _ _ ltac:(lia) E1) by discriminate.
      apply (eval_up _ _ _ _ n2); auto; lia.
    + intros sg' f' Er. right. eapply Z2; eauto.
Qed.

Lemma SemN_opt (N N' : Prop) x : N' -> SemN ph p N x -> SemN ph p N' (EOpt x).
Proof.
  intros HN Hx a emit sg Hm. destruct (Hx a emit sg Hm) as (n1 & r1 & E1 & R1 & Z1).
  destruct r1 as [p1 sg1 f1| |]; [| |congruence].
  - exists (S n1), (SMatch p1 sg1 f1). split; [cbn [Spec.eval]; now rewrite E1|]. split; [discriminate|auto].
  - exists (S n1), (SMatch p sg []). split; [cbn [Spec.eval]; now rewrite E1|]. split; [discriminate|auto].
Qed.
Lemma SemN_pos (N N' : Prop) x : N' -> SemN ph p N x -> SemN ph p N' (EPosPred x).
Proof.
  intros HN Hx a emit sg Hm. destruct (Hx a false sg Hm) as (n1 & r1 & E1 & R1 & Z1).
  destruct r1 as [p1 sg1 f1| |]; [| |congruence].
  - exists (S n1), (SMatch p sg []). split; [cbn [Spec.eval]; now rewrite E1|]. split; [discriminate|auto].
  - exists (S n1), SFail. split; [cbn [Spec.eval]; now rewrite E1|]. split; discriminate.
Qed.
Lemma SemN_neg (N N' : Prop) x : N' -> SemN ph p N x -> SemN ph p N' (ENegPred x).
Proof.
  intros HN Hx a emit sg Hm. destruct (Hx a false sg Hm) as (n1 & r1 & E1 & R1 & Z1).
  destruct r1 as [p1 sg1 f1| |]; [| |congruence].
  - exists (S n1), SFail. split; [cbn [Spec.eval]; now rewrite E1|]. split; discriminate.
  - exists (S n1), (SMatch p sg []). split; [cbn [Spec.eval]; now rewrite E1|]. split; [discriminate|auto].
Qed.
Lemma SemN_push (N : Prop) x : SemN ph p N x -> SemN ph p N (EPush x).
Proof.
  intros Hx a emit sg Hm. destruct (Hx a emit sg Hm) as (n1 & r1 & E1 & R1 & Z1).
  destruct r1 as [p1 sg1 f1| |]; [| |congruence].
  - eexists (S n1), _. split; [cbn [Spec.eval]; rewrite E1; reflexivity|]. split; [discriminate|].
    intros sg' f' Er. inversion Er; subst. eapply Z1; eauto.
  - exists (S n1), SFail. split; [cbn [Spec.eval]; now rewrite E1|]. split; discriminate.
Qed.
Lemma SemN_tag (N : Prop) x t : SemN ph p N x -> SemN ph p N (ENodeTag x t).
Proof.
  intros Hx a emit sg Hm. destruct (Hx a emit sg Hm) as (n1 & r1 & E1 & R1 & Z1).
  destruct r1 as [p1 sg1 f1| |]; [| |congruence].
  - eexists (S n1), _. split; [cbn [Spec.eval]; rewrite E1; reflexivity|]. split; [discriminate|].
    intros sg' f' Er. inversion Er; subst. eapply Z1; eauto.
  - exists (S n1), SFail. split; [cbn [Spec.eval]; now rewrite E1|]. split; discriminate.
Qed.
Lemma SemN_step (N : Prop) e u : (forall n a emit q sg, eval (S n) a emit e q sg = eval n a emit u q sg) ->
  SemN ph p N u -> SemN ph p N e.
Proof.
  intros He Hu a emit sg Hm. destruct (Hu a emit sg Hm) as (n1 & r1 & E1 & R1 & Z1).
  exists (S n1), r1. rewrite He. auto.
Qed.


(* ---------------------------------------------------------------------------------------- *)
(* repetitions                                                                              *)
(* ---------------------------------------------------------------------------------------- *)
Lemma rep_from_term x f0 a emit : Good ph x -> np G f0 [] x = Some false -> ModeOK ph a ->
  forall q sg acc, S p <= q <= length w ->
  exists n r, rep_from_with G (eval n) n a emit x q sg acc = r /\ r <> SFuel.
Proof.
  intros Hg Hnp Hm. unfold rep_from_with.
  apply (loop_term w (fun n => rep_unit G (eval n) n a emit x) (S p)).
  - intros n m Hnm. apply rep_unit_mono; auto. now apply eval_mono.
  - intros q sg Hq. unfold rep_unit.
    destruct (Hskip a emit q sg Hm ltac:(lia)) as (n2 & r2 & E2 & R2).
    destruct r2 as [q1 sg1 f1| |]; [| |congruence].
    2:{ exists n2, SFail. rewrite E2. split; [auto|discriminate]. }
    assert (Rg : q <= q1 <= length w) by (eapply skip_range; [apply eval_range|exact E2|lia]).
    destruct (Later q1 ltac:(lia) x Hg a emit sg1 Hm) as (n3 & r3 & E3 & R3 & _).
    exists (Nat.max n2 n3). eexists. split.
    + rewrite (skip_up _ _ _ _ n2 (Nat.max n2 n3) _ _ _ _ _ ltac:(lia) E2) by discriminate.
      rewrite (eval_up _ _ _ _ n3 (Nat.max n2 n3) _ _ _ _ _ _ ltac:(lia) E3) by exact R3. reflexivity.
    + destruct r3; congruence.
  - intros n q sg q' sg' f' Hq H. unfold rep_unit in H.
    destruct (skip_with G (eval n) n a emit q sg) as [q1 sg1 f1| |] eqn:E1; try discriminate.
    assert (Rg : q <= q1 <= length w) by (eapply skip_range; [apply eval_range|exact E1|lia]).
    destruct (eval n a emit x q1 sg1) as [q2 sg2 f2| |] eqn:E2; try discriminate.
    inversion H; subst.
    destruct Hg as (Hsf & _).
    pose proof (np_sound_nil G extras uprop w HS f0 x n a emit q1 sg1 q' sg' f2 Hsf Hnp ltac:(lia) E2).
    pose proof (eval_range _ _ _ _ _ _ _ _ _ _ _ _ _ E2 ltac:(lia)). lia.
Qed.

Lemma SemN_rep (N N' : Prop) x f0 : N' -> Good ph x -> np G f0 [] x = Some false -> SemN ph p N x -> SemN ph p N' (ERep x).
Proof.
  intros HN Hg Hnp Hx a emit sg Hm. destruct (Hx a emit sg Hm) as (n1 & r1 & E1 & R1 & Z1).
  destruct r1 as [p1 sg1 f1| |]; [| |congruence].
  - destruct Hg as (Hsf & Hg2).
    pose proof (np_sound_nil G extras uprop w HS f0 x n1 a emit p sg p1 sg1 f1 Hsf Hnp Hp E1) as Hlt.
    pose proof (eval_range _ _ _ _ _ _ _ _ _ _ _ _ _ E1 Hp) as Rg.
    destruct (rep_from_term x f0 a emit (conj Hsf Hg2) Hnp Hm p1 sg1 f1 ltac:(lia)) as (n2 & r2 & E2 & R2).
    exists (S (Nat.max n1 n2)), r2. split; [|split; auto].
    cbn [Spec.eval]. rewrite (eval_up _ _ _ _ n1 (Nat.max n1 n2) _ _ _ _ _ _ ltac:(lia) E1) by discriminate.
    eapply rep_from_mono; [apply eval_mono| |exact E2|exact R2]; lia.
  - exists (S n1), (SMatch p sg []). split; [cbn [Spec.eval]; now rewrite E1|]. split; [discriminate|auto].
Qed.

Lemma eval_reponce_t n a emit x q sg : extras = true ->
  eval (S n) a emit (ERepOnce x) q sg =
  match eval n a emit x q sg with
  | SMatch p1 sg1 f1 => rep_from_with G (eval n) n a emit x p1 sg1 f1 | SFail => SFail | SFuel => SFuel end.
Proof. intros E. cbn [Spec.eval]. rewrite E. reflexivity. Qed.
Lemma eval_reponce_f n a emit x q sg : extras = false ->
  eval (S n) a emit (ERepOnce x) q sg = eval n a emit (ESeq x (ERep x)) q sg.
Proof. intros E. cbn [Spec.eval]. rewrite E. reflexivity. Qed.

Lemma SemN_reponce (N : Prop) x : Good ph x -> np G (vfuel G) [] x = Some false -> SemN ph p N x -> SemN ph p N (ERepOnce x).
Proof.
  intros Hg Hnp Hx.
  assert (Hc : extras = true \/ extras = false) by (destruct extras; auto).
  destruct Hc as [Ex|Ex].
  - intros a emit sg Hm. destruct (Hx a emit sg Hm) as (n1 & r1 & E1 & R1 & Z1).
    destruct r1 as [p1 sg1 f1| |]; [| |congruence].
    + destruct Hg as (Hsf & Hg2).
      pose proof (np_sound_nil G extras uprop w HS (vfuel G) x n1 a emit p sg p1 sg1 f1 Hsf Hnp Hp E1) as Hlt.
      pose proof (eval_range _ _ _ _ _ _ _ _ _ _ _ _ _ E1 Hp) as Rg.
      destruct (rep_from_term x (vfuel G) a emit (conj Hsf Hg2) Hnp Hm p1 sg1 f1 ltac:(lia)) as (n2 & r2 & E2 & R2).
      exists (S (Nat.max n1 n2)), r2. split; [|split; auto].
      * rewrite (eval_reponce_t _ _ _ _ _ _ Ex). rewrite (eval_up _ _ _ _ n1 (Nat.max n1 n2) _ _ _ _ _ _ ltac:(lia) E1) by discriminate.
        eapply rep_from_mono; [apply eval_mono| |exact E2|exact R2]; lia.
      * intros sg' f' Er. rewrite Er in E2. apply (rep_from_range G w) in E2; [lia|apply eval_range|lia].
    + exists (S n1), SFail. split; [rewrite (eval_reponce_t _ _ _ _ _ _ Ex); now rewrite E1|]. split; discriminate.
  - apply (SemN_step N (ERepOnce x) (ESeq x (ERep x))); [intros; now apply eval_reponce_f|].
    apply (SemN_weaken G extras uprop w ph p (N /\ True) N); [tauto|].
    apply SemN_seq; auto.
    + destruct Hg as (A1 & A2 & A3). split; [exact A1|]. split; [cbn; auto|].
      intros E. eapply NAfree_sub; [|exact (A3 E)]. auto.
    + intros _. eapply SemN_rep; eauto.
Qed.

(* ---------------------------------------------------------------------------------------- *)
(* the unrolled forms of bounded repetitions                                                *)
(* ---------------------------------------------------------------------------------------- *)
Lemma SemN_seq_of (Nf : expr -> Prop) l : l <> [] -> (forall e, In e l -> Good ph e /\ SemN ph p (Nf e) e) ->
  exists u, seq_of l = Some u /\ Good ph u /\ SemN ph p (forall e, In e l -> Nf e) u.
Proof.
  induction l as [|e l IH]; intros Hne H; [congruence|].
  destruct l as [|e2 l'].
  - exists e. split; [reflexivity|]. destruct (H e (or_introl eq_refl)) as [Hg Hs]. split; auto.
    eapply SemN_weaken; [|exact Hs]. intros HN e' [<-|[]]. exact HN.
  - destruct IH as (u' & Eu & Gu & Su); [discriminate|intros e' He'; apply H; now right|].
    exists (ESeq e u'). split; [cbn [seq_of] in *; now rewrite Eu|].
    destruct (H e (or_introl eq_refl)) as [Hg Hs]. split; [now apply good_seq_mk|].
    eapply SemN_weaken; [|apply (SemN_seq (Nf e) (forall e0, In e0 (e2 :: l') -> Nf e0)); [exact Gu|exact Hs|intros _; exact Su]].
    intros [A B] e' [<-|He']; auto.
Qed.

Lemma eval_unroll n a emit e q sg : (match e with ERepExact _ _ | ERepMin _ _ | ERepMax _ _ | ERepMinMax _ _ _ => True | _ => False end) ->
  eval (S n) a emit e q sg = match unroll_node extras e with Some u => eval n a emit u q sg | None => SFail end.
Proof. destruct e; intros []; reflexivity. Qed.

Lemma SemN_unrolled (N : Prop) e l : (match e with ERepExact _ _ | ERepMin _ _ | ERepMax _ _ | ERepMinMax _ _ _ => True | _ => False end) ->
  unroll_node extras e = seq_of l -> (l <> [] -> exists Nf, (forall x, In x l -> Good ph x /\ SemN ph p (Nf x) x) /\ ((forall x, In x l -> Nf x) -> N)) ->
  SemN ph p N e.
Proof.
  intros He Hu Hl. destruct l as [|x0 l0].
  - intros a emit sg Hm. exists 1, SFail. rewrite eval_unroll, Hu by exact He. cbn. split; [auto|split; discriminate].
  - destruct (Hl ltac:(discriminate)) as (Nf & HA & HB).
    destruct (SemN_seq_of Nf (x0 :: l0) ltac:(discriminate) HA) as (u & Eu & Gu & Su).
    intros a emit sg Hm. destruct (Su a emit sg Hm) as (n & r & E & R & Z).
    exists (S n), r. rewrite eval_unroll, Hu, Eu by exact He. split; [auto|split; [auto|]].
    intros sg' f' Er. apply HB. eapply Z; eauto.
Qed.

Lemma in_repeatn k (x y : expr) : In y (repeatn k x) -> y = x.
Proof. unfold repeatn. apply repeat_spec. Qed.

Lemma SemN_repexact (N : Prop) x k : Good ph x -> SemN ph p N x -> SemN ph p N (ERepExact x k).
Proof.
  intros Hg Hx. apply (SemN_unrolled N _ (repeatn (N.to_nat k) x)); [exact I|reflexivity|].
  intros Hne. exists (fun _ => N). split.
  - intros y Hy. apply in_repeatn in Hy. subst. auto.
  - intros H. destruct (repeatn (N.to_nat k) x) as [|y l] eqn:E; [congruence|]. apply (H y). now left.
Qed.
Lemma SemN_repmax (N N' : Prop) x k : N' -> Good ph x -> SemN ph p N x -> SemN ph p N' (ERepMax x k).
Proof.
  intros HN Hg Hx. apply (SemN_unrolled N' _ (repeatn (N.to_nat k) (EOpt x))); [exact I|reflexivity|].
  intros Hne. exists (fun _ => True). split; [|auto].
  intros y Hy. apply in_repeatn in Hy. subst. split.
  - eapply good_un; [| | |exact Hg]; auto.
  - eapply SemN_opt; eauto.
Qed.
Lemma SemN_repmin (N : Prop) x k : Good ph x -> np G (vfuel G) [] x = Some false -> SemN ph p N x ->
  SemN ph p (n_is_zero k = true \/ N) (ERepMin x k).
Proof.
  intros Hg Hnp Hx. apply (SemN_unrolled _ _ (repeatn (N.to_nat k) x ++ [ERep x])); [exact I|reflexivity|].
  intros _. exists (fun y => y = x -> N). split.
  - intros y Hy. apply in_app_or in Hy. destruct Hy as [Hy|[<-|[]]].
    + apply in_repeatn in Hy. subst. split; auto. eapply SemN_weaken; [|exact Hx]. auto.
    + split.
      * destruct Hg as (A1 & A2 & A3). split; [exact A1|]. split; [cbn; auto|].
        intros E. eapply NAfree_sub; [|exact (A3 E)]. auto.
      * eapply SemN_rep; eauto. intros E. exfalso. clear -E. induction x; try discriminate. inversion E. auto.
  - intros H. destruct (N.to_nat k) as [|k'] eqn:Ek.
    + left. unfold n_is_zero. apply N.eqb_eq. lia.
    + right. apply (H x); auto. rewrite repeatn_S. now left.
Qed.
Lemma SemN_repminmax (N : Prop) x m k : Good ph x -> SemN ph p N x ->
  SemN ph p (n_is_zero m = true \/ N) (ERepMinMax x m k).
Proof.
  intros Hg Hx.
  apply (SemN_unrolled _ _ (repeatn (Nat.min (N.to_nat m) (N.to_nat k)) x ++ repeatn (N.to_nat k - N.to_nat m) (EOpt x))); [exact I|reflexivity|].
  intros Hne. exists (fun y => y = x -> N). split.
  - intros y Hy. apply in_app_or in Hy. destruct Hy as [Hy|Hy]; apply in_repeatn in Hy; subst.
    + split; auto. eapply SemN_weaken; [|exact Hx]. auto.
    + split; [eapply good_un; [| | |exact Hg]; auto|].
      eapply SemN_opt; [|exact Hx]. intros E. exfalso. clear -E. induction x; try discriminate. inversion E. auto.
  - intros H. destruct (N.to_nat m) as [|m'] eqn:Em.
    + left. unfold n_is_zero. apply N.eqb_eq. lia.
    + right. destruct (N.to_nat k) as [|k'] eqn:Ek.
      * exfalso. apply Hne. reflexivity.
      * apply (H x); auto. replace (Nat.min (S m') (S k')) with (S (Nat.min m' k')) by lia. rewrite repeatn_S. now left.
Qed.

End Cons.
