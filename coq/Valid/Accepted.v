(* What `validate ... = []` gives: the hypotheses of Termination.v, and the termination theorem
   for the repaired validator.                                                               *)
From Coq Require Import String Ascii List Arith NArith ZArith Bool Lia.
Import ListNotations.
Require Import PV.Comb.PState PV.Comb.Bytes PV.Iter.Queue PV.Peg.Ast PV.Peg.Spec.
Require Import PV.Valid.Validator PV.Valid.Known PV.Valid.Nullable PV.Valid.Progress PV.Valid.LeftRec
               PV.Valid.TermBase PV.Valid.TermCons PV.Valid.Termination.

Lemma flat_map_nil {A B} (f : A -> list B) l : flat_map f l = [] -> forall x, In x l -> f x = [].
Proof.
  induction l as [|y l IH]; cbn; intros H x Hx; [destruct Hx|].
  apply app_eq_nil in H. destruct H as [H1 H2]. destruct Hx as [<-|Hx]; auto.
Qed.

Section Accepted.
Variable kw builtin : name -> bool.
Variable cfg : vcfg.
Variable G : grammar.

Lemma validate_nil : validate kw builtin cfg G = [] ->
  validate_pairs kw builtin G = [] /\ reader_errors G = [] /\ validate_ast builtin cfg G = [].
Proof.
  unfold validate. destruct (validate_pairs kw builtin G); [|discriminate].
  destruct (reader_errors G); [|discriminate]. auto.
Qed.

Lemma validate_ast_nil : validate_ast builtin cfg G = [] ->
  validate_repetition cfg G = [] /\ validate_choices cfg G = [] /\ validate_whitespace_comment G = [] /\
  validate_left_recursion cfg G = [] /\ validate_tag_silent_rules builtin cfg G = [].
Proof.
  unfold validate_ast. intros H.
  apply app_eq_nil in H. destruct H as [H1 H]. apply app_eq_nil in H. destruct H as [H2 H].
  apply app_eq_nil in H. destruct H as [H3 H]. apply app_eq_nil in H. destruct H as [H4 H5]. auto.
Qed.

Lemma nf_np_errors_nil x e1 e2 : nf_np_errors G x e1 e2 = [] -> nf G (vfuel G) [] x = Some false /\ np G (vfuel G) [] x = Some false.
Proof.
  unfold nf_np_errors. destruct (nf G (vfuel G) [] x) as [[|]|]; try discriminate.
  destruct (np G (vfuel G) [] x) as [[|]|]; try discriminate. auto.
Qed.

Lemma lr_ok_of_validate : validate_left_recursion cfg G = [] -> lr_ok cfg G.
Proof.
  intros H x b Hb. destruct (lookup_In _ _ _ Hb) as (r & Hr & Hn & _).
  pose proof (flat_map_nil _ _ H r Hr) as Hc. cbn in Hc. rewrite Hn in Hc.
  unfold check_root in Hc. rewrite Hb in Hc.
  destruct (check cfg G (vfuel G) [x] b); try discriminate. reflexivity.
Qed.

Lemma ws_ok_of_validate : validate_whitespace_comment G = [] ->
  forall r, In r G -> is_ws_or_comment (rname r) = true -> np G (vfuel G) [] (rexpr r) = Some false.
Proof.
  intros H r Hr Hs. pose proof (flat_map_nil _ _ H r Hr) as Hc. cbn in Hc. rewrite Hs in Hc.
  now apply nf_np_errors_nil in Hc.
Qed.

Lemma reps_ok_of_nodes e : (fix_tag cfg = true \/ tag_free e = true) ->
  (forall node, In node (subnodes cfg e) -> rep_node_errors G node = []) -> reps_ok G e.
Proof.
  induction e; intros Ht H; cbn [reps_ok]; auto;
    try (apply IHe; [destruct Ht as [Ht|Ht]; [now left|right; exact Ht]|intros node Hn; apply H; cbn [subnodes]; right; exact Hn]; fail).
  - (* ESeq *) split.
    + apply IHe1; [destruct Ht as [Ht|Ht]; [now left|right; cbn in Ht; apply andb_true_iff in Ht; tauto]|].
      intros node Hn. apply H. cbn [subnodes]. right. apply in_or_app. auto.
    + apply IHe2; [destruct Ht as [Ht|Ht]; [now left|right; cbn in Ht; apply andb_true_iff in Ht; tauto]|].
      intros node Hn. apply H. cbn [subnodes]. right. apply in_or_app. auto.
  - (* EChoice *) split.
    + apply IHe1; [destruct Ht as [Ht|Ht]; [now left|right; cbn in Ht; apply andb_true_iff in Ht; tauto]|].
      intros node Hn. apply H. cbn [subnodes]. right. apply in_or_app. auto.
    + apply IHe2; [destruct Ht as [Ht|Ht]; [now left|right; cbn in Ht; apply andb_true_iff in Ht; tauto]|].
      intros node Hn. apply H. cbn [subnodes]. right. apply in_or_app. auto.
  - (* ERep *) split.
    + pose proof (H (ERep e) ltac:(cbn; auto)) as Hc. cbn in Hc. now apply nf_np_errors_nil in Hc.
    + apply IHe; [destruct Ht as [Ht|Ht]; [now left|right; exact Ht]|intros node Hn; apply H; cbn [subnodes]; right; exact Hn].
  - (* ERepOnce *) split.
    + pose proof (H (ERepOnce e) ltac:(cbn; auto)) as Hc. cbn in Hc. now apply nf_np_errors_nil in Hc.
    + apply IHe; [destruct Ht as [Ht|Ht]; [now left|right; exact Ht]|intros node Hn; apply H; cbn [subnodes]; right; exact Hn].
  - (* ERepMin *) split.
    + pose proof (H (ERepMin e n) ltac:(cbn; auto)) as Hc. cbn in Hc. now apply nf_np_errors_nil in Hc.
    + apply IHe; [destruct Ht as [Ht|Ht]; [now left|right; exact Ht]|intros node Hn; apply H; cbn [subnodes]; right; exact Hn].
  - (* ENodeTag *)
    destruct Ht as [Ht|Ht]; [|discriminate].
    apply IHe; [now left|]. intros node Hn. apply H. cbn [subnodes]. right. now rewrite Ht.
Qed.

Lemma reps_ok_of_validate : (fix_tag cfg = true \/ no_tags G = true) -> validate_repetition cfg G = [] ->
  forall r, In r G -> reps_ok G (rexpr r).
Proof.
  intros Ht H r Hr. apply reps_ok_of_nodes.
  - destruct Ht as [Ht|Ht]; [now left|right]. unfold no_tags in Ht. rewrite forallb_forall in Ht. now apply Ht.
  - intros node Hn. pose proof (flat_map_nil _ _ H r Hr) as Hc. cbn in Hc. exact (flat_map_nil _ _ Hc node Hn).
Qed.

(* (=>) for the repaired validator, outside the known class *)
Theorem termination_fixed :
  fix_lr cfg = true -> (fix_tag cfg = true \/ no_tags G = true) ->
  validate kw builtin cfg G = [] -> no_stack_builtins G = true -> ~ KnownWs G ->
  forall extras uprop w r, exists fuel, eval G extras uprop w fuel NonAtomic true (EIdent r) 0 [] <> SFuel.
Proof.
  intros Hfix Ht Hv Hs Hk extras uprop w r.
  destruct (validate_nil Hv) as (_ & _ & Hast). destruct (validate_ast_nil Hast) as (H1 & _ & H3 & H4 & _).
  eapply (terminates_from_every_name cfg G extras uprop w Hfix Hs).
  - now apply lr_ok_of_validate.
  - now apply reps_ok_of_validate.
  - now apply ws_ok_of_validate.
  - exact Hk.
Qed.

End Accepted.
