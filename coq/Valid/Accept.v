(* (<=) Acceptance of well-formed grammars.
   starts_with_char e : e begins by matching at least one character through a non-empty literal,
   a range or a single-character built-in (closed under the left operand of `~`, both operands of
   `|`, `+`, `{n}` / `{n,}` / `{m,n}` with a positive lower bound, PUSH, node tags, and references
   to rules whose body starts with a character).
   If names are well-formed, counts are legal, and every unbounded-repetition body, the
   WHITESPACE / COMMENT bodies, every non-final alternative starts with a character, and no cycle
   of rule references consists of UNGUARDED references only (a reference is guarded when, in its
   body, an element that starts with a character precedes it in a sequence), then `validate`
   reports nothing - for the validator as it is and for the repaired one.                     *)
From Coq Require Import String Ascii List Arith NArith ZArith Bool Lia.
Import ListNotations.
Require Import PV.Comb.PState PV.Peg.Ast PV.Peg.Spec PV.Valid.Validator PV.Valid.Known PV.Valid.Nullable.

Fixpoint subexprs (e : expr) : list expr :=
  e :: match e with
       | EPosPred x | ENegPred x | ERep x | ERepOnce x | ERepExact x _ | ERepMin x _ | ERepMax x _
       | ERepMinMax x _ _ | EOpt x | EPush x | ENodeTag x _ => subexprs x
       | ESeq l r | EChoice l r => subexprs l ++ subexprs r
       | _ => []
       end.

Lemma subnodes_subexprs cfg e : incl (subnodes cfg e) (subexprs e).
Proof.
  induction e; cbn [subnodes subexprs]; try apply incl_refl;
    try (apply incl_cons; [now left|apply incl_tl; auto]; fail).
  - apply incl_cons; [now left|]. apply incl_tl. apply incl_app; [apply incl_appl|apply incl_appr]; auto.
  - apply incl_cons; [now left|]. apply incl_tl. apply incl_app; [apply incl_appl|apply incl_appr]; auto.
  - apply incl_cons; [now left|]. apply incl_tl. destruct (fix_tag cfg); [auto|intros x []].
Qed.

Section Accept.
Variable kw builtin uprop_name : name -> bool.
Variable G : grammar.

Inductive starts_with_char : expr -> Prop :=
| SwStr s : s <> [] -> starts_with_char (EStr s)
| SwInsens s : s <> [] -> starts_with_char (EInsens s)
| SwRange lo hi : starts_with_char (ERange lo hi)
| SwBuiltin n : find_rule G n = None -> char_builtin uprop_name n = true -> starts_with_char (EIdent n)
| SwRule n r : soi_eoi n = false -> find_rule G n = Some r -> starts_with_char (rexpr r) -> starts_with_char (EIdent n)
| SwSeq l r : starts_with_char l -> starts_with_char (ESeq l r)
| SwCho l r : starts_with_char l -> starts_with_char r -> starts_with_char (EChoice l r)
| SwRepOnce x : starts_with_char x -> starts_with_char (ERepOnce x)
| SwRepExact x n : n_is_zero n = false -> starts_with_char x -> starts_with_char (ERepExact x n)
| SwRepMin x n : n_is_zero n = false -> starts_with_char x -> starts_with_char (ERepMin x n)
| SwRepMinMax x m n : n_is_zero m = false -> starts_with_char x -> starts_with_char (ERepMinMax x m n)
| SwPush x : starts_with_char x -> starts_with_char (EPush x)
| SwTag x t : starts_with_char x -> starts_with_char (ENodeTag x t).

(* the validator agrees: neither non-progressing nor non-failing, whatever the trace *)
Lemma swc_np e : starts_with_char e -> forall f tr, np G f tr e <> Some true.
Proof.
  induction 1; intros f tr; (destruct f as [|f]; [discriminate|]); cbn [np np_e]; try discriminate.
  - destruct s; [congruence|discriminate].
  - destruct s; [congruence|discriminate].
  - unfold char_builtin in H0. apply andb_true_iff in H0. destruct H0 as [H0 _]. apply negb_true_iff in H0. rewrite H0.
    destruct (mem n tr); [discriminate|]. unfold lookup. rewrite H. discriminate.
  - unfold soi_eoi in H. rewrite H. destruct (mem n tr); [discriminate|]. unfold lookup. rewrite H0. apply IHstarts_with_char.
  - specialize (IHstarts_with_char (S f) tr). cbn [np] in IHstarts_with_char.
    destruct (np_e G (np G f) tr l) as [[|]|]; cbn; congruence.
  - specialize (IHstarts_with_char1 (S f) tr). specialize (IHstarts_with_char2 (S f) tr). cbn [np] in *.
    destruct (np_e G (np G f) tr l) as [[|]|]; cbn; congruence.
  - apply (IHstarts_with_char (S f) tr).
  - rewrite H. apply (IHstarts_with_char (S f) tr).
  - rewrite H. apply (IHstarts_with_char (S f) tr).
  - rewrite H. apply (IHstarts_with_char (S f) tr).
  - apply (IHstarts_with_char (S f) tr).
  - apply (IHstarts_with_char (S f) tr).
Qed.
Lemma swc_nf e : starts_with_char e -> forall f tr, nf G f tr e <> Some true.
Proof.
  induction 1; intros f tr; (destruct f as [|f]; [discriminate|]); cbn [nf nf_e]; try discriminate.
  - destruct s; [congruence|discriminate].
  - destruct s; [congruence|discriminate].
  - destruct (mem n tr); [discriminate|]. unfold lookup. rewrite H. discriminate.
  - destruct (mem n tr); [discriminate|]. unfold lookup. rewrite H0. apply IHstarts_with_char.
  - specialize (IHstarts_with_char (S f) tr). cbn [nf] in IHstarts_with_char.
    destruct (nf_e G (nf G f) tr l) as [[|]|]; cbn; congruence.
  - specialize (IHstarts_with_char1 (S f) tr). specialize (IHstarts_with_char2 (S f) tr). cbn [nf] in *.
    destruct (nf_e G (nf G f) tr l) as [[|]|]; cbn; congruence.
  - apply (IHstarts_with_char (S f) tr).
  - rewrite H. apply (IHstarts_with_char (S f) tr).
  - rewrite H. apply (IHstarts_with_char (S f) tr).
  - rewrite H. apply (IHstarts_with_char (S f) tr).
  - apply (IHstarts_with_char (S f) tr).
  - apply (IHstarts_with_char (S f) tr).
Qed.

Lemma swc_np_false e : starts_with_char e -> np G (vfuel G) [] e = Some false.
Proof.
  intros H. pose proof (swc_np e H (vfuel G) []). pose proof (np_vfuel_nil G e).
  destruct (np G (vfuel G) [] e) as [[|]|]; congruence.
Qed.
Lemma swc_nf_false e : starts_with_char e -> nf G (vfuel G) [] e = Some false.
Proof.
  intros H. pose proof (swc_nf e H (vfuel G) []). pose proof (nf_vfuel_nil G e).
  destruct (nf G (vfuel G) [] e) as [[|]|]; congruence.
Qed.
Lemma swc_not_nullable cur e : In cur (defs G) -> starts_with_char e -> nullable_seeded G cur e = Some false.
Proof.
  intros Hc H. unfold nullable_seeded.
  pose proof (swc_nf e H (vfuel G) [cur]). pose proof (nf_vfuel_one G cur e Hc).
  pose proof (swc_np e H (vfuel G) [cur]). pose proof (np_vfuel_one G cur e Hc).
  destruct (nf G (vfuel G) [cur] e) as [[|]|]; try congruence. cbn [oor].
  destruct (np G (vfuel G) [cur] e) as [[|]|]; congruence.
Qed.


(* ---------------------------------------------------------------------------------------- *)
(* unguarded references and the left-recursion check                                        *)
(* ---------------------------------------------------------------------------------------- *)
(* y occurs in e at a place not preceded (in a sequence) by something that starts with a character *)
Inductive Ung : expr -> name -> Prop :=
| UgIdent y : Ung (EIdent y) y
| UgSeqL l r y : Ung l y -> Ung (ESeq l r) y
| UgSeqR l r y : ~ starts_with_char l -> Ung r y -> Ung (ESeq l r) y
| UgChoL l r y : Ung l y -> Ung (EChoice l r) y
| UgChoR l r y : Ung r y -> Ung (EChoice l r) y
| UgRep x y : Ung x y -> Ung (ERep x) y
| UgRepOnce x y : Ung x y -> Ung (ERepOnce x) y
| UgOpt x y : Ung x y -> Ung (EOpt x) y
| UgPos x y : Ung x y -> Ung (EPosPred x) y
| UgNeg x y : Ung x y -> Ung (ENegPred x) y
| UgPush x y : Ung x y -> Ung (EPush x) y
| UgRepExact x n y : Ung x y -> Ung (ERepExact x n) y
| UgRepMin x n y : Ung x y -> Ung (ERepMin x n) y
| UgRepMax x n y : Ung x y -> Ung (ERepMax x n) y
| UgRepMinMax x m n y : Ung x y -> Ung (ERepMinMax x m n) y
| UgTag x t y : Ung x y -> Ung (ENodeTag x t) y.

Definition uedge (v y : name) : Prop := exists b, lookup G v = Some b /\ Ung b y.
Inductive UPath : name -> name -> Prop :=
| UP1 v y : uedge v y -> UPath v y
| UPS v m y : uedge v m -> UPath m y -> UPath v y.

Variable cfg : vcfg.

Lemma vec_first_cons x T : T <> [] -> vec_first (x :: T) = vec_first T.
Proof. destruct T; [congruence|reflexivity]. Qed.

(* an error of the DFS is a path of unguarded references to the root *)
Lemma check_e_err rec cur T e c root :
  In cur (defs G) -> vec_first (cur :: T) = Some root ->
  (forall y b c', lookup G y = Some b -> rec (y :: cur :: T) b = CErr c' -> exists z, Ung b z /\ (z = root \/ UPath z root)) ->
  check_e cfg G rec (cur :: T) e = CErr c -> exists z, Ung e z /\ (z = root \/ UPath z root).
Proof.
  intros Hcur Hroot Hrec. induction e; cbn [check_e]; intros H; try discriminate;
    try (destruct (fix_lr cfg); [|discriminate]);
    try (destruct (IHe H) as (z & Hz & Hp); exists z; split; [constructor; exact Hz|exact Hp]; fail).
  - (* EIdent *)
    rewrite Hroot in H. destruct (str_eqb root n) eqn:Er.
    + apply str_eqb_eq in Er. subst. exists n. split; [constructor|now left].
    + destruct (mem n (cur :: T)); [discriminate|].
      destruct (lookup G n) as [b|] eqn:El; [|discriminate].
      destruct (Hrec _ _ _ El H) as (z & Hz & Hp). exists n. split; [constructor|]. right.
      destruct Hp as [->|Hp]; [apply UP1|eapply UPS; [|exact Hp]]; exists b; auto.
  - (* ESeq *)
    destruct (fix_lr cfg).
    + destruct (check_e cfg G rec (cur :: T) e1) eqn:E1; try discriminate.
      * destruct (nullable_seeded G cur e1) as [[|]|] eqn:En; try discriminate.
        destruct (IHe2 H) as (z & Hz & Hp). exists z. split; auto. apply UgSeqR; auto.
        intros Hs. rewrite (swc_not_nullable cur e1 Hcur Hs) in En. discriminate.
      * inversion H; subst. destruct (IHe1 eq_refl) as (z & Hz & Hp). exists z. split; auto. now apply UgSeqL.
    + destruct (nullable_seeded G cur e1) as [[|]|] eqn:En; try discriminate.
      * destruct (IHe2 H) as (z & Hz & Hp). exists z. split; auto. apply UgSeqR; auto.
        intros Hs. rewrite (swc_not_nullable cur e1 Hcur Hs) in En. discriminate.
      * destruct (IHe1 H) as (z & Hz & Hp). exists z. split; auto. now apply UgSeqL.
  - (* EChoice *)
    destruct (check_e cfg G rec (cur :: T) e1) eqn:E1; try discriminate.
    + destruct (IHe2 H) as (z & Hz & Hp). exists z. split; auto. now apply UgChoR.
    + inversion H; subst. destruct (IHe1 eq_refl) as (z & Hz & Hp). exists z. split; auto. now apply UgChoL.
Qed.

Lemma check_err f : forall cur T e c root, In cur (defs G) -> vec_first (cur :: T) = Some root ->
  check cfg G f (cur :: T) e = CErr c -> exists z, Ung e z /\ (z = root \/ UPath z root).
Proof.
  induction f as [|f IH]; intros cur T e c root Hcur Hroot H; [discriminate|].
  cbn [check] in H. eapply check_e_err; eauto.
  intros y b c' Hb Hc. eapply (IH y (cur :: T)); [eapply lookup_defs; eauto| |exact Hc].
  rewrite vec_first_cons by discriminate. exact Hroot.
Qed.

(* no panic, and the fuel does not run out *)
Lemma check_e_total rec cur T e :
  In cur (defs G) ->
  (forall y b, mem y (cur :: T) = false -> lookup G y = Some b -> rec (y :: cur :: T) b <> CFuel /\ rec (y :: cur :: T) b <> CPanic) ->
  check_e cfg G rec (cur :: T) e <> CFuel /\ check_e cfg G rec (cur :: T) e <> CPanic.
Proof.
  intros Hcur Hrec. induction e; cbn [check_e]; try (split; discriminate); auto;
    try (destruct (fix_lr cfg); [auto|split; discriminate]; fail).
  - (* EIdent *)
    destruct (vec_first (cur :: T)) eqn:Ev.
    2:{ exfalso. clear -Ev. revert cur Ev. induction T as [|y T IH]; intros cur Ev; [discriminate|]. cbn in Ev. eapply IH; eauto. }
    destruct (str_eqb n0 n); [split; discriminate|].
    destruct (mem n (cur :: T)) eqn:Em; [split; discriminate|].
    destruct (lookup G n) eqn:El; [auto|split; discriminate].
  - (* ESeq *)
    assert (Hn : nullable_seeded G cur e1 <> None).
    { unfold nullable_seeded. pose proof (nf_vfuel_one G cur e1 Hcur). pose proof (np_vfuel_one G cur e1 Hcur).
      destruct (nf G (vfuel G) [cur] e1) as [[|]|]; cbn [oor]; congruence. }
    destruct (fix_lr cfg).
    + destruct (check_e cfg G rec (cur :: T) e1); try tauto; try (split; discriminate).
      destruct (nullable_seeded G cur e1) as [[|]|]; try congruence; auto; split; discriminate.
    + destruct (nullable_seeded G cur e1) as [[|]|]; try congruence; auto.
  - (* EChoice *)
    destruct (check_e cfg G rec (cur :: T) e1); try tauto; try (split; discriminate).
Qed.
Lemma check_total f : forall cur T e, NoDup (cur :: T) -> incl (cur :: T) (defs G) -> length G < f + length (cur :: T) ->
  check cfg G f (cur :: T) e <> CFuel /\ check cfg G f (cur :: T) e <> CPanic.
Proof.
  induction f as [|f IH]; intros cur T e Hnd Hincl Hlen.
  - pose proof (trace_bound G _ Hnd Hincl) as Hb. cbn [length plus] in *. lia.
  - cbn [check]. apply check_e_total; [apply Hincl; now left|].
    intros y b Hm Hb. apply IH.
    + constructor; auto. now apply mem_false_In.
    + intros z [<-|Hz]; [eapply lookup_defs; eauto|auto].
    + cbn [length] in *. lia.
Qed.

(* ---------------------------------------------------------------------------------------- *)
(* the hypotheses of (<=)                                                                   *)
(* ---------------------------------------------------------------------------------------- *)
Definition wellformed_names : Prop :=
  (forall r, In r G -> kw (rname r) = false) /\
  NoDup (defs G) /\
  (forall r n, In r G -> In n (idents (rexpr r)) -> In n (defs G) \/ builtin n = true).
Definition legal_counts : Prop := forall r, In r G -> zero_count (rexpr r) = false.
(* the bodies of the unbounded repetitions `*`, `+`, `{n,}` (bounded ones need no condition) *)
Definition rep_body (e x : expr) : Prop :=
  In (ERep x) (subexprs e) \/ In (ERepOnce x) (subexprs e) \/ exists n, In (ERepMin x n) (subexprs e).
Definition tags_ok : Prop := forall r x t, In r G -> In (ENodeTag x t) (subexprs (rexpr r)) -> check_silent_builtin builtin G x = [].
Definition starts_with_char_everywhere : Prop :=
  (forall r x, In r G -> rep_body (rexpr r) x -> starts_with_char x) /\
  (forall r, In r G -> is_ws_or_comment (rname r) = true -> starts_with_char (rexpr r)) /\
  (forall r l r', In r G -> In (EChoice l r') (subexprs (rexpr r)) -> starts_with_char l) /\
  (forall x, ~ UPath x x).

Lemma flat_map_all_nil {A B} (f : A -> list B) l : (forall x, In x l -> f x = []) -> flat_map f l = [].
Proof.
  induction l as [|y l IH]; cbn; intros H; [reflexivity|]. rewrite (H y) by now left. apply IH. intros x Hx. apply H. now right.
Qed.

Lemma already_defined_nil l : forall seen, NoDup l -> (forall x, In x l -> ~ In x seen) -> already_defined seen l = [].
Proof.
  induction l as [|n l IH]; intros seen Hnd Hs; [reflexivity|]. cbn [already_defined].
  inversion Hnd; subst.
  destruct (mem n seen) eqn:Em.
  - apply mem_In in Em. exfalso. apply (Hs n); [now left|exact Em].
  - apply IH; auto. intros x Hx [<-|Hin]; [contradiction|]. apply (Hs x); [now right|exact Hin].
Qed.

Theorem acceptance : wellformed_names -> legal_counts -> tags_ok -> starts_with_char_everywhere ->
  validate kw builtin cfg G = [].
Proof.
  intros (Hkw & Hnd & Hdef) Hcnt Htag (Hrep & Hws & Hcho & Hcyc).
  assert (P1 : validate_pairs kw builtin G = []).
  { unfold validate_pairs, validate_pest_keywords, validate_already_defined, validate_undefined.
    rewrite flat_map_all_nil, already_defined_nil, flat_map_all_nil; auto.
    - intros r Hr. apply flat_map_all_nil. intros n Hn. destruct (Hdef r n Hr Hn) as [Hd|Hb].
      + apply mem_In in Hd. now rewrite Hd.
      + rewrite Hb. now rewrite orb_true_r.
    - intros n Hn. unfold defs in Hn. apply in_map_iff in Hn. destruct Hn as (r & <- & Hr). now rewrite Hkw. }
  assert (P2 : reader_errors G = []).
  { unfold reader_errors. destruct (existsb _ G) eqn:E; auto. apply existsb_exists in E. destruct E as (r & Hr & Hz).
    rewrite Hcnt in Hz by auto. discriminate. }
  unfold validate. rewrite P1, P2. unfold validate_ast.
  assert (Q1 : validate_repetition cfg G = []).
  { apply flat_map_all_nil. intros r Hr. apply flat_map_all_nil. intros node Hn. apply subnodes_subexprs in Hn.
    assert (HB : forall x, rep_body (rexpr r) x -> nf_np_errors G x VRepNF VRepNP = []).
    { intros x Hx. unfold nf_np_errors. rewrite (swc_nf_false x), (swc_np_false x); eauto. }
    destruct node; cbn [rep_node_errors]; auto; apply HB; unfold rep_body; eauto. }
  assert (Q2 : validate_choices cfg G = []).
  { apply flat_map_all_nil. intros r Hr. apply flat_map_all_nil. intros node Hn. apply subnodes_subexprs in Hn.
    destruct node; cbn [cho_node_errors]; auto.
    pose proof (Hcho r _ _ Hr Hn) as Hs.
    assert (Ha : starts_with_char (match node1 with EChoice _ rhs => rhs | _ => node1 end)).
    { destruct node1; auto. now inversion Hs. }
    now rewrite (swc_nf_false _ Ha). }
  assert (Q3 : validate_whitespace_comment G = []).
  { apply flat_map_all_nil. intros r Hr. destruct (is_ws_or_comment (rname r)) eqn:E; auto.
    unfold nf_np_errors. rewrite (swc_nf_false _ (Hws r Hr E)), (swc_np_false _ (Hws r Hr E)). reflexivity. }
  assert (Q4 : validate_left_recursion cfg G = []).
  { apply flat_map_all_nil. intros r Hr. unfold check_root. destruct (lookup G (rname r)) as [b|] eqn:El; auto.
    assert (Hd : In (rname r) (defs G)) by (eapply lookup_defs; eauto).
    destruct (check_total (vfuel G) (rname r) [] b) as [F1 F2].
    { repeat constructor. intros []. } { intros z [<-|[]]; auto. } { unfold vfuel. cbn. lia. }
    destruct (check cfg G (vfuel G) [rname r] b) as [|c| |] eqn:Ec; try congruence.
    exfalso. destruct (check_err (vfuel G) (rname r) [] b c (rname r) Hd eq_refl Ec) as (z & Hz & Hp).
    apply (Hcyc (rname r)). destruct Hp as [->|Hp]; [apply UP1|eapply UPS; [|exact Hp]]; exists b; auto. }
  assert (Q5 : validate_tag_silent_rules builtin cfg G = []).
  { apply flat_map_all_nil. intros r Hr. apply flat_map_all_nil. intros node Hn. apply subnodes_subexprs in Hn.
    destruct node; cbn [tag_node_errors]; auto. eapply Htag; eauto. }
  now rewrite Q1, Q2, Q3, Q4, Q5.
Qed.


(* ---------------------------------------------------------------------------------------- *)
(* the cycle condition as the property words it                                             *)
(* ---------------------------------------------------------------------------------------- *)
(* x refers to y (anywhere in its body); RefReach = reflexive-transitive closure *)
Definition refers (x y : name) : Prop := exists b, lookup G x = Some b /\ In y (idents b).
Inductive RefReach : name -> name -> Prop :=
| RR0 x : RefReach x x
| RRS x m y : refers x m -> RefReach m y -> RefReach x y.

Lemma Ung_idents e y : Ung e y -> In y (idents e).
Proof. induction 1; cbn [idents]; auto; try (apply in_or_app; auto); now left. Qed.

Lemma UPath_RefReach x y : UPath x y -> RefReach x y.
Proof.
  induction 1.
  - destruct H as (b & Hb & Hu). apply (RRS v y y); [exists b; split; [exact Hb|now apply Ung_idents]|apply RR0].
  - destruct H as (b & Hb & Hu). apply (RRS v m y); [exists b; split; [exact Hb|now apply Ung_idents]|exact IHUPath].
Qed.

(* "every path from a rule back to itself begins by matching at least one character": a reference
   that can lead back to the rule is never unguarded *)
Definition every_cycle_starts_with_char : Prop := forall r x, uedge r x -> ~ RefReach x r.

Lemma cycles_text : every_cycle_starts_with_char -> forall x, ~ UPath x x.
Proof.
  intros H x Hp. inversion Hp; subst.
  - apply (H x x H0). apply RR0.
  - apply (H x m H0). now apply UPath_RefReach.
Qed.

(* ---------------------------------------------------------------------------------------- *)
(* the model's fuel never runs out and no panic site is reached                              *)
(* ---------------------------------------------------------------------------------------- *)
Definition clean (e : verr) : Prop := e <> VFuel /\ e <> VPanic.

Lemma Forall_flat_map {A B} (P : B -> Prop) (f : A -> list B) l : (forall x, In x l -> Forall P (f x)) -> Forall P (flat_map f l).
Proof.
  induction l as [|y l IH]; cbn; intros H; [constructor|]. apply Forall_app. split; [apply H; now left|apply IH; intros x Hx; apply H; now right].
Qed.
Lemma clean1 e : clean e -> Forall clean [e].
Proof. intros H. repeat constructor; apply H. Qed.

Lemma nf_np_errors_clean x e1 e2 : clean e1 -> clean e2 -> Forall clean (nf_np_errors G x e1 e2).
Proof.
  intros A B. unfold nf_np_errors.
  pose proof (nf_vfuel_nil G x). pose proof (np_vfuel_nil G x).
  destruct (nf G (vfuel G) [] x) as [[|]|]; try congruence; [now apply clean1|].
  destruct (np G (vfuel G) [] x) as [[|]|]; try congruence; [now apply clean1|constructor].
Qed.

Theorem validate_clean : Forall clean (validate kw builtin cfg G).
Proof.
  assert (C : forall e, (match e with VFuel | VPanic => False | _ => True end) -> clean e) by (intros []; cbn; intros []; split; discriminate).
  assert (HP : Forall clean (validate_pairs kw builtin G)).
  { unfold validate_pairs, validate_pest_keywords, validate_already_defined, validate_undefined.
    apply Forall_app; split; [|apply Forall_app; split].
    - apply Forall_flat_map. intros n _. destruct (kw n); [apply clean1, C; exact I|constructor].
    - generalize (@nil name) as seen. induction (defs G) as [|n l IH]; intros seen; cbn [already_defined]; [constructor|].
      destruct (mem n seen); [constructor; [apply C; exact I|apply IH]|apply IH].
    - apply Forall_flat_map. intros r _. apply Forall_flat_map. intros n _. destruct (_ || _); [constructor|apply clean1, C; exact I]. }
  assert (HR : Forall clean (reader_errors G)).
  { unfold reader_errors. destruct (existsb _ G); [apply clean1, C; exact I|constructor]. }
  assert (HV : Forall clean (validate_ast builtin cfg G)).
  { unfold validate_ast. repeat (apply Forall_app; split).
    - apply Forall_flat_map. intros r _. apply Forall_flat_map. intros node _.
      destruct node; cbn [rep_node_errors]; try constructor; apply nf_np_errors_clean; apply C; exact I.
    - apply Forall_flat_map. intros r _. apply Forall_flat_map. intros node _.
      destruct node; cbn [cho_node_errors]; try constructor.
      match goal with |- Forall _ (match nf G (vfuel G) [] ?a with _ => _ end) =>
        pose proof (nf_vfuel_nil G a); destruct (nf G (vfuel G) [] a) as [[|]|]; try congruence; [apply clean1, C; exact I|constructor] end.
    - apply Forall_flat_map. intros r _. destruct (is_ws_or_comment (rname r)); [|constructor].
      apply nf_np_errors_clean; apply C; exact I.
    - apply Forall_flat_map. intros r _. unfold check_root.
      destruct (lookup G (rname r)) as [b|] eqn:El; [|constructor].
      assert (Hd : In (rname r) (defs G)) by (eapply lookup_defs; eauto).
      destruct (check_total (vfuel G) (rname r) [] b) as [F1 F2].
      { repeat constructor. intros []. } { intros z [<-|[]]; auto. } { unfold vfuel. cbn. lia. }
      destruct (check cfg G (vfuel G) [rname r] b); try congruence; [constructor|apply clean1, C; exact I].
    - apply Forall_flat_map. intros r _. apply Forall_flat_map. intros node _.
      destruct node; cbn [tag_node_errors]; try constructor.
      induction node; cbn [check_silent_builtin]; try constructor; auto.
      destruct (find_rule G n) as [r0|]; [destruct (rty r0)|]; try destruct (builtin n); try constructor; try (apply C; exact I); constructor. }
  unfold validate. destruct (validate_pairs kw builtin G); [destruct (reader_errors G); auto|auto].
Qed.

(* the model's fuel never runs out and no panic site of validator.rs is reached *)
Corollary validate_total : ~ In VFuel (validate kw builtin cfg G) /\ ~ In VPanic (validate kw builtin cfg G).
Proof.
  pose proof validate_clean as H. rewrite Forall_forall in H.
  split; intros Hin; destruct (H _ Hin); congruence.
Qed.

End Accept.
