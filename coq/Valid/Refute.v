(* Non-termination witnesses: accepted grammars on which Layer S returns SFuel for EVERY fuel.
     LS_loops   a rule whose body reaches a call of the rule itself along a "left spine" (through
                ?, *, +, !, &, PUSH, #tag, {n}, the left side of ~ and |, and other rules with
                such bodies) runs out of fuel for every fuel, at every position, in every mode;
     ws_loops   the implicit-skip witness (WHITESPACE reaches a `!` rule);
     tag_loops  the grammar-extras witness (a repetition of "" under a node tag).            *)
From Coq Require Import String Ascii List Arith NArith ZArith Bool Lia.
Import ListNotations.
Require Import PV.Comb.PState PV.Comb.Bytes PV.Iter.Queue PV.Peg.Ast PV.Peg.Spec PV.Peg.SpecFacts.
Require Import PV.Valid.Validator PV.Valid.Known PV.Valid.Nullable PV.Valid.Progress PV.Valid.Termination.

Definition user_nameb (x : name) : bool :=
  negb (str_eqb x (nm "SOI")) && negb (str_eqb x (nm "EOI")) && negb (stack_name x) && negb (str_eqb x (nm "NEWLINE")) &&
  match ascii_builtin x with None => true | Some _ => false end.

Section Loop.
Variable G : grammar.
Variable extras : bool.
Variable uprop : name -> option (N -> bool).
Variable w : list byte.
Notation eval := (Spec.eval G extras uprop w).

Lemma eval_user_rule n a emit x q sg r : user_nameb x = true -> find_rule G x = Some r ->
  eval (S n) a emit (EIdent x) q sg =
  let '(tk, a2) := rule_mode (is_special x) (rty r) a emit in
  match eval n a2 emit (rexpr r) q sg with
  | SMatch q' sg2 f2 => SMatch q' sg2 (if tk then [Node (rule_id G x) None q q' f2] else f2)
  | SFail => SFail
  | SFuel => SFuel
  end.
Proof.
  unfold user_nameb. intros H Hf. repeat (apply andb_true_iff in H; destruct H as [H ?]).
  apply eval_ident_rule; auto; try (now apply negb_true_iff).
  destruct (ascii_builtin x); [discriminate|reflexivity].
Qed.

Variable x : name.

Inductive LS : expr -> Prop :=
| LS_self : LS (EIdent x)
| LS_ident y r : user_nameb y = true -> find_rule G y = Some r -> LS (rexpr r) -> LS (EIdent y)
| LS_seq l r : LS l -> LS (ESeq l r)
| LS_cho l r : LS l -> LS (EChoice l r)
| LS_opt e : LS e -> LS (EOpt e)
| LS_rep e : LS e -> LS (ERep e)
| LS_reponce e : LS e -> LS (ERepOnce e)
| LS_pos e : LS e -> LS (EPosPred e)
| LS_neg e : LS e -> LS (ENegPred e)
| LS_push e : LS e -> LS (EPush e)
| LS_tag e t : LS e -> LS (ENodeTag e t)
| LS_repexact e k : n_is_zero k = false -> LS e -> LS (ERepExact e k).

Hypothesis Hx : user_nameb x = true.
Variable rx : rule.
Hypothesis Hrx : find_rule G x = Some rx.
Hypothesis Hbody : LS (rexpr rx).

Theorem LS_loops n : forall e, LS e -> forall a emit p sg, eval n a emit e p sg = SFuel.
Proof.
  induction n as [|n IH]; intros e He a emit p sg; [reflexivity|].
  inversion He; subst.
  - rewrite (eval_user_rule n a emit x p sg rx Hx Hrx). destruct (rule_mode _ _ _ _). now rewrite (IH _ Hbody).
  - rewrite (eval_user_rule n a emit y p sg r H H0). destruct (rule_mode _ _ _ _). now rewrite (IH _ H1).
  - cbn [Spec.eval]. now rewrite (IH _ H).
  - cbn [Spec.eval]. now rewrite (IH _ H).
  - cbn [Spec.eval]. now rewrite (IH _ H).
  - cbn [Spec.eval]. now rewrite (IH _ H).
  - cbn [Spec.eval]. destruct extras eqn:Ex.
    + now rewrite (IH _ H).
    + apply IH. now apply LS_seq.
  - cbn [Spec.eval]. now rewrite (IH _ H).
  - cbn [Spec.eval]. now rewrite (IH _ H).
  - cbn [Spec.eval]. now rewrite (IH _ H).
  - cbn [Spec.eval]. now rewrite (IH _ H).
  - cbn [Spec.eval unroll_node]. destruct (nonzero_to_nat _ H) as [k' ->]. rewrite repeatn_S. cbn [seq_of].
    destruct (repeatn k' e0) as [|z l'] eqn:El; [now apply IH|].
    destruct (seq_of (z :: l')); [apply IH; now apply LS_seq|now apply IH].
Qed.

Corollary LS_rule_loops : forall n a emit p sg, eval n a emit (EIdent x) p sg = SFuel.
Proof. intros. apply LS_loops. constructor. Qed.

End Loop.

(* ---------------------------------------------------------------------------------------- *)
(* the witnesses                                                                            *)
(* ---------------------------------------------------------------------------------------- *)
Definition lit_x : expr := EStr (nm "x").
Definition ra : name := nm "a".
Definition rb : name := nm "b".

(* a = { a? ~ "x" } *)
Definition W_opt : grammar := [{| rname := ra; rty := RNormal; rexpr := ESeq (EOpt (EIdent ra)) lit_x |}].
(* a = { !a ~ "x" } *)
Definition W_neg : grammar := [{| rname := ra; rty := RNormal; rexpr := ESeq (ENegPred (EIdent ra)) lit_x |}].
(* a = { a{2} } *)
Definition W_exact : grammar := [{| rname := ra; rty := RNormal; rexpr := ERepExact (EIdent ra) 2 |}].
(* a = { b ~ "x" }  b = { a? } *)
Definition W_mutual : grammar :=
  [{| rname := ra; rty := RNormal; rexpr := ESeq (EIdent rb) lit_x |}; {| rname := rb; rty := RNormal; rexpr := EOpt (EIdent ra) |}].
(* r = { "x" ~ "y" }  WHITESPACE = { n }  n = !{ "" ~ " " } *)
Definition W_ws : grammar :=
  [{| rname := nm "r"; rty := RNormal; rexpr := ESeq lit_x (EStr (nm "y")) |};
   {| rname := nm "WHITESPACE"; rty := RNormal; rexpr := EIdent (nm "n") |};
   {| rname := nm "n"; rty := RNonAtomic; rexpr := ESeq (EStr []) (EStr (nm " ")) |}].
(* r = { #t = (""* ) }   (grammar-extras) *)
Definition W_tag : grammar := [{| rname := nm "r"; rty := RNormal; rexpr := ENodeTag (ERep (EStr [])) (nm "t") |}].

Lemma W_opt_loops extras uprop w n : eval W_opt extras uprop w n NonAtomic true (EIdent ra) 0 [] = SFuel.
Proof.
  eapply (LS_rule_loops W_opt extras uprop w ra eq_refl); [reflexivity|].
  cbn. apply LS_seq, LS_opt, LS_self.
Qed.
Lemma W_neg_loops extras uprop w n : eval W_neg extras uprop w n NonAtomic true (EIdent ra) 0 [] = SFuel.
Proof.
  eapply (LS_rule_loops W_neg extras uprop w ra eq_refl); [reflexivity|].
  cbn. apply LS_seq, LS_neg, LS_self.
Qed.
Lemma W_exact_loops extras uprop w n : eval W_exact extras uprop w n NonAtomic true (EIdent ra) 0 [] = SFuel.
Proof.
  eapply (LS_rule_loops W_exact extras uprop w ra eq_refl); [reflexivity|].
  cbn. apply LS_repexact; [reflexivity|apply LS_self].
Qed.
Lemma W_mutual_loops extras uprop w n : eval W_mutual extras uprop w n NonAtomic true (EIdent ra) 0 [] = SFuel.
Proof.
  eapply (LS_rule_loops W_mutual extras uprop w ra eq_refl); [reflexivity|].
  cbn. apply LS_seq. eapply (LS_ident _ _ rb); [reflexivity|reflexivity|]. cbn. apply LS_opt, LS_self.
Qed.

(* the implicit skip inside the `!` rule calls WHITESPACE again *)
Lemma W_ws_loops extras uprop w : forall n a emit p sg, eval W_ws extras uprop w n a emit (EIdent (nm "WHITESPACE")) p sg = SFuel.
Proof.
  induction n as [n IH] using lt_wf_ind. intros a emit p sg.
  destruct n as [|n1]; [reflexivity|].
  rewrite (eval_user_rule W_ws extras uprop w n1 a emit (nm "WHITESPACE") p sg _ eq_refl eq_refl).
  destruct (rule_mode _ _ _ _) as [tk a2] eqn:Erm.
  assert (Ha2 : a2 = Atomic) by (compute in Erm; now inversion Erm). subst a2.
  destruct n1 as [|n2]; [reflexivity|]. cbn [rexpr].
  rewrite (eval_user_rule W_ws extras uprop w n2 Atomic emit (nm "n") p sg _ eq_refl eq_refl).
  destruct (rule_mode (is_special (nm "n")) _ _ _) as [tk3 a3] eqn:Erm3.
  assert (Ha3 : a3 = NonAtomic) by (compute in Erm3; now inversion Erm3). subst a3. cbn [rexpr].
  destruct n2 as [|n3]; [reflexivity|].
  cbn [Spec.eval].
  destruct n3 as [|n4]; [reflexivity|].
  change (Spec.eval W_ws extras uprop w (S n4) NonAtomic emit (EStr []) p sg) with (SMatch (p + 0) sg []).
  unfold skip_with. change (negb (atom_eqb NonAtomic NonAtomic)) with false. cbn iota.
  change (has_rule W_ws (nm "WHITESPACE")) with true. change (has_rule W_ws (nm "COMMENT")) with false. cbn iota.
  unfold many_with. cbn [loop]. rewrite IH by lia. reflexivity.
Qed.

(* a repetition whose body always matches runs out of iterations *)
Lemma loop_always n u : (forall p sg, exists p' sg' f', u p sg = SMatch p' sg' f') -> forall p sg acc, loop n u p sg acc = SFuel.
Proof.
  intros Hu. induction n as [|n IH]; intros p sg acc; [reflexivity|]. cbn [loop].
  destruct (Hu p sg) as (p' & sg' & f' & ->). apply IH.
Qed.
Lemma W_tag_loops extras uprop w n : eval W_tag extras uprop w n NonAtomic true (EIdent (nm "r")) 0 [] = SFuel.
Proof.
  destruct n as [|n1]; [reflexivity|].
  rewrite (eval_user_rule W_tag extras uprop w n1 NonAtomic true (nm "r") 0 [] _ eq_refl eq_refl).
  destruct (rule_mode _ _ _ _) as [tk a2] eqn:Erm.
  assert (Ha2 : a2 = NonAtomic) by (compute in Erm; now inversion Erm). subst a2. cbn [rexpr].
  destruct n1 as [|n2]; [reflexivity|]. cbn [Spec.eval].
  destruct n2 as [|n3]; [reflexivity|]. cbn [Spec.eval].
  destruct n3 as [|n4]; [reflexivity|].
  change (Spec.eval W_tag extras uprop w (S n4) NonAtomic true (EStr []) 0 []) with (SMatch 0 ([] : list str) []).
  cbn iota. unfold rep_from_with. rewrite loop_always; [reflexivity|].
  intros p sg. unfold rep_unit, skip_with. cbn. unfold Spec.lit. cbn. eauto.
Qed.
