(* The boolean `ws_reaches_nonatomic` (a DFS with the path as trace, as the validator's own
   searches) decides the known class `KnownWs` from above: whenever WHITESPACE / COMMENT reach a
   `!` rule, the boolean is true.  (Completeness of a path-cut DFS: take a path, cut it after
   the last occurrence of the node just entered.)                                            *)
From Coq Require Import String Ascii List Arith NArith ZArith Bool Lia.
Import ListNotations.
Require Import PV.Comb.PState PV.Peg.Ast PV.Peg.Spec PV.Valid.Validator PV.Valid.Known PV.Valid.Nullable PV.Valid.TermBase.

Section KP.
Variable G : grammar.

Inductive Path : expr -> list name -> Prop :=
| Path1 e x : In x (idents e) -> nonatomic_rule G x = true -> Path e [x]
| PathS e x r l : In x (idents e) -> find_rule G x = Some r -> Path (rexpr r) l -> Path e (x :: l).

Lemma reach_path e x : ReachRef G e x -> nonatomic_rule G x = true -> exists l, Path e l.
Proof.
  induction 1; intros Hn.
  - exists [x]. now constructor.
  - destruct (IHReachRef Hn) as [l Hl]. exists (y :: l). econstructor; eauto.
Qed.

Lemma path_last e l : Path e l -> exists l0 z, l = l0 ++ [z] /\ nonatomic_rule G z = true.
Proof.
  induction 1.
  - exists [], x. auto.
  - destruct IHPath as (l0 & z & -> & Hz). exists (x :: l0), z. auto.
Qed.

Lemma path_suffix l1 : forall e x l2, Path e (l1 ++ x :: l2) -> l2 <> [] -> exists r, find_rule G x = Some r /\ Path (rexpr r) l2.
Proof.
  induction l1 as [|y l1 IH]; intros e x l2 H Hne; cbn [app] in H; inversion H; subst.
  - congruence.
  - eauto.
  - destruct l1; discriminate.
  - eapply IH; eauto.
Qed.

Lemma path_avoid n : forall l, length l <= n -> forall x r, find_rule G x = Some r -> nonatomic_rule G x = false ->
  Path (rexpr r) l -> exists l', Path (rexpr r) l' /\ ~ In x l' /\ incl l' l.
Proof.
  induction n as [|n IH]; intros l Hlen x r Hf Hna Hp.
  - destruct l; [inversion Hp|cbn in Hlen; lia].
  - destruct (mem x l) eqn:Em.
    2:{ exists l. split; auto. split; [now apply mem_false_In|apply incl_refl]. }
    apply mem_In in Em. destruct (in_split _ _ Em) as (l1 & l2 & ->).
    destruct l2 as [|z l2].
    + exfalso. destruct (path_last _ _ Hp) as (l0 & z & E & Hz).
      apply app_inj_tail in E. destruct E as [_ <-]. congruence.
    + destruct (path_suffix _ _ _ _ Hp ltac:(discriminate)) as (r' & Hf' & Hp').
      rewrite Hf in Hf'. inversion Hf'; subst r'.
      destruct (IH (z :: l2)) with (x := x) (r := r) as (l' & A & B & C); auto.
      { rewrite app_length in Hlen. cbn [length] in *. lia. }
      exists l'. split; auto. split; auto. eapply incl_tran; [exact C|]. apply incl_appr. apply incl_tl. apply incl_refl.
Qed.

Lemma rna_complete f : forall t e l, Path e l -> (forall y, In y l -> mem y t = false) -> rna G f t e = true.
Proof.
  induction f as [|f IH]; intros t e l Hp Hav; [reflexivity|].
  cbn [rna]. apply existsb_exists.
  inversion Hp; subst.
  - exists x. split; auto. rewrite (Hav x) by now left. cbn [negb andb].
    pose proof H0 as Hn. unfold nonatomic_rule in H0. destruct (find_rule G x); [|discriminate]. now rewrite Hn.
  - exists x. split; auto. rewrite (Hav x) by now left. cbn [negb andb]. rewrite H0.
    destruct (nonatomic_rule G x) eqn:Hn; [reflexivity|]. cbn [orb].
    destruct (path_avoid (length l0) l0 (le_n _) x r H0 Hn H1) as (l' & A & B & C).
    apply (IH _ _ l'); auto. intros y Hy. rewrite mem_cons. apply orb_false_iff. split.
    + apply str_eqb_neq. intros ->. contradiction.
    + apply Hav. right. now apply C.
Qed.

Theorem ws_reaches_nonatomic_complete : KnownWs G -> ws_reaches_nonatomic G = true.
Proof.
  intros (s & x & Hs & Hh & Hr & Hn). unfold ws_reaches_nonatomic.
  destruct (reach_path _ _ Hr Hn) as [l Hl].
  assert (Hrna : rna G (S (length G)) [] (EIdent s) = true) by (eapply rna_complete; eauto).
  unfold is_special in Hs. apply orb_true_iff in Hs. destruct Hs as [Hs|Hs]; apply str_eqb_eq in Hs; subst s;
    cbn [existsb]; rewrite Hh, Hrna; cbn; auto. now rewrite orb_true_r.
Qed.

Corollary not_known_ws : ws_reaches_nonatomic G = false -> ~ KnownWs G.
Proof. intros H Hk. apply ws_reaches_nonatomic_complete in Hk. congruence. Qed.

End KP.
