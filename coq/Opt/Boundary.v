(* Positions stay on char boundaries and the stack holds valid UTF-8 along every derivation, for a valid
   input and a grammar whose literals are valid UTF-8 (every Rust String is).  This is the state invariant
   under which the byte-level laws of concatenate (adjacent case-insensitive literals) and skip hold.  *)
From Coq Require Import List Arith NArith ZArith Bool String Lia.
Import ListNotations.
Require Import PV.Comb.PState PV.Comb.Bytes PV.Comb.Utf8 PV.Comb.Utf8b PV.Iter.Queue PV.Peg.Ast PV.Peg.Spec
  PV.Opt.Sem PV.Opt.SemProofs PV.Opt.SemCong PV.Opt.SemTransfer.

Definition on_boundary (w : list byte) : state_inv := fun p sg => boundaryb w p = true /\ Forall valid_utf8 sg.

Section Boundary.
Variable G : grammar.
Variable extras : bool.
Variable uprop : name -> option (N -> bool).
Variable w : list byte.
Hypothesis Vw : valid_utf8 w.
Hypothesis VG : forall n r, find_rule G n = Some r -> Forall valid_utf8 (estrs (rexpr r)).

Notation bs := (bs G extras uprop w).
Notation Inv := (on_boundary w).

Lemma In_firstn' {A} (x : A) n : forall l, In x (firstn n l) -> In x l.
Proof. intros l H. rewrite <- (firstn_skipn n l). apply in_or_app. now left. Qed.
Lemma In_skipn' {A} (x : A) n : forall l, In x (skipn n l) -> In x l.
Proof. intros l H. rewrite <- (firstn_skipn n l). apply in_or_app. now right. Qed.

Lemma lit_boundary s p q : boundaryb w p = true -> valid_utf8 s -> lit w s p = Some q -> boundaryb w q = true.
Proof.
  intros B Vs. unfold lit. destruct (prefixb s (skipn p w)) eqn:P; [|discriminate]. intros [= <-].
  apply (match_string_boundary w p s); auto. unfold match_string. now rewrite P.
Qed.

Lemma lit_all_boundary : forall l p q, boundaryb w p = true -> Forall valid_utf8 l -> lit_all w l p = Some q -> boundaryb w q = true.
Proof.
  induction l as [|s l IH]; intros p q B V; cbn [lit_all]; [now intros [= <-]|].
  inversion V; subst. destruct (lit w s p) as [q1|] eqn:L; [|discriminate]. apply IH; auto. eapply lit_boundary; eauto.
Qed.

Lemma one_char_boundary ok p sg p' sg' f : Inv p sg -> one_char w ok p sg = SMatch p' sg' f -> Inv p' sg'.
Proof.
  intros [B V]. unfold one_char, char_here.
  destruct (char_at_valid w p Vw B) as [[_ E]|(c & l' & Hc & Es & V' & E & B')]; unfold char_at in E; rewrite B in E; injection E as E; rewrite E.
  - discriminate.
  - destruct (ok c); [|discriminate]. intros [= <- <- _]. split; auto.
Qed.

Lemma valid_byte10 : valid_utf8 [10%N]. Proof. exists [10%N]. split; [repeat constructor; left; reflexivity|reflexivity]. Qed.
Lemma valid_byte13 : valid_utf8 [13%N]. Proof. exists [13%N]. split; [repeat constructor; left; reflexivity|reflexivity]. Qed.
Lemma valid_crlf : valid_utf8 [13%N; 10%N]. Proof. exists [13%N; 10%N]. split; [repeat constructor; left; reflexivity|reflexivity]. Qed.

Lemma leaf_boundary a emit e p sg p' sg' f : leaf G e = true -> Forall valid_utf8 (estrs e) -> Inv p sg ->
  eval G extras uprop w 1 a emit e p sg = SMatch p' sg' f -> Inv p' sg'.
Proof.
  intros L V I. pose proof I as [B Vs]. destruct e; cbn [leaf] in L; try discriminate; cbn [Spec.eval estrs] in *.
  - destruct (lit w s p) eqn:E; [|discriminate]. intros [= <- <- _]. split; auto. eapply lit_boundary; [exact B| |exact E]. now inversion V.
  - destruct (boundaryb w (p + List.length s)) eqn:E; cbn [andb]; [|discriminate]. destruct (prefixb_ci _ _); [|discriminate].
    intros [= <- <- _]. split; auto.
  - now apply one_char_boundary.
  - destruct (str_eqb n (nm "SOI")). { destruct (Nat.eqb p 0); [now intros [= <- <- _]|discriminate]. }
    destruct (str_eqb n (nm "EOI")). { destruct (Nat.eqb p (List.length w)); [now intros [= <- <- _]|discriminate]. }
    destruct (str_eqb n (nm "PEEK")).
    { destruct sg as [|top rest]; [discriminate|]. destruct (lit w top p) eqn:E; [|discriminate]. intros [= <- <- _].
      split; auto. eapply lit_boundary; [exact B| |exact E]. now inversion Vs. }
    destruct (str_eqb n (nm "POP")).
    { destruct sg as [|top rest]; [discriminate|]. destruct (lit w top p) eqn:E; [|discriminate]. intros [= <- <- _].
      inversion Vs; subst. split; auto. eapply lit_boundary; [exact B| |exact E]. assumption. }
    destruct (str_eqb n (nm "DROP")).
    { destruct sg as [|top rest]; [discriminate|]. intros [= <- <- _]. inversion Vs; subst. split; auto. }
    destruct (str_eqb n (nm "PEEK_ALL")).
    { destruct (lit_all w sg p) eqn:E; [|discriminate]. intros [= <- <- _]. split; auto. eapply lit_all_boundary; [exact B| |exact E]. assumption. }
    destruct (str_eqb n (nm "POP_ALL")).
    { destruct (lit_all w sg p) eqn:E; [|discriminate]. intros [= <- <- _]. split; [|constructor]. eapply lit_all_boundary; [exact B| |exact E]. assumption. }
    destruct (str_eqb n (nm "NEWLINE")).
    { destruct (lit w [10%N] p) eqn:E1; [intros [= <- <- _]; split; auto; eapply lit_boundary; [exact B|apply valid_byte10|exact E1]|].
      destruct (lit w [13%N; 10%N] p) eqn:E2; [intros [= <- <- _]; split; auto; eapply lit_boundary; [exact B|apply valid_crlf|exact E2]|].
      destruct (lit w [13%N] p) eqn:E3; [intros [= <- <- _]; split; auto; eapply lit_boundary; [exact B|apply valid_byte13|exact E3]|discriminate]. }
    destruct (ascii_builtin n); [now apply one_char_boundary|].
    destruct (find_rule G n); [destruct (rule_mode _ _ _ _); discriminate|]. destruct (uprop n); [now apply one_char_boundary|discriminate].
  - destruct (norm_idx i _) as [s0|]; [|discriminate]. destruct (match j with Some _ => _ | None => _ end) as [e0|]; [|discriminate].
    destruct (Nat.leb e0 s0); [now intros [= <- <- _]|].
    destruct (lit_all _ _ _) eqn:E; [|discriminate]. intros [= <- <- _]. split; auto. eapply lit_all_boundary; [exact B| |exact E].
    apply Forall_forall. intros x Hx. apply In_firstn' in Hx. rewrite Forall_forall in Vs. apply Vs.
    apply in_rev. eapply In_skipn'; eauto.
  - intros [= <- <- _]. split; auto. apply skip_until_basic_boundary. now apply boundaryb_le.
  - intros [= <- <- _]. split; auto. constructor; auto. now inversion V.
Qed.

Definition res_inv (r : sres) : Prop := match r with SMatch p sg _ => Inv p sg | _ => True end.

Theorem bs_boundary a emit j p sg res : bs a emit j p sg res -> jvalid valid_utf8 j -> Inv p sg -> res_inv res.
Proof.
  induction 1; intros V I; cbn [jvalid estrs] in V; try (apply Forall_app in V; destruct V as [V1 V2]); cbn [res_inv]; auto.
  - (* leaf *) unfold res_inv. destruct (eval G extras uprop w 1 a emit e p sg) eqn:E; auto. eapply leaf_boundary; eauto.
  - (* call *) assert (R := IHbs (VG _ _ H0) I). destruct res; cbn in *; auto.
  - (* seq *) assert (R1 := IHbs1 V1 I). assert (R2 := IHbs2 Logic.I R1). assert (R3 := IHbs3 V2 R2). destruct res; cbn in *; auto.
  - (* cho_l *) apply (IHbs V1 I).
  - (* opt *) assert (R := IHbs V I). destruct res; cbn in *; auto.
  - (* rep *) apply IHbs2; auto. apply (IHbs1 V I).
  - (* rep1x *) apply IHbs2; auto. apply (IHbs1 V I).
  - (* rep1d *) apply IHbs; auto. cbn [jvalid estrs]. apply Forall_app; auto.
  - (* bounded *) apply IHbs; auto. cbn [jvalid]. eapply unroll_node_strs; eauto.
  - (* pos *) destruct res; cbn; auto.
  - (* neg *) destruct res; cbn; auto.
  - (* push *) assert (R := IHbs V I). destruct res as [q sg2 f2| |]; cbn in *; auto. destruct R as [Bq Vq]. split; auto. constructor; auto.
    destruct I as [Bp _]. destruct (Nat.le_gt_cases p q) as [L|L]; [now apply valid_slice|].
    replace (q - p) with 0 by lia. apply valid_nil.
  - (* tag *) assert (R := IHbs V I). destruct res; cbn in *; auto.
  - (* many_step *) apply IHbs2; auto. apply (IHbs1 (Forall_nil _) I).
  - (* cw_step *) apply IHbs3; auto. apply (IHbs2 Logic.I). apply (IHbs1 (Forall_nil _) I).
  - (* rep_step *) apply IHbs3; auto. apply (IHbs2 V). apply (IHbs1 Logic.I I).
  - (* skip_both *) apply IHbs2; auto. apply (IHbs1 Logic.I I).
Qed.

Corollary boundary_preserved : preserved G extras uprop w valid_utf8 Inv.
Proof. intros a emit j p sg p' sg' f V H I. exact (bs_boundary _ _ _ _ _ _ H V I). Qed.

End Boundary.
