(* Layer F: meta/src/optimizer/factorizer.rs.  Top-down; the match arms in the order written
   (the guarded second arm falls through when the rule is neither atomic nor compound-atomic). *)
From Coq Require Import List Arith NArith ZArith Bool.
Import ListNotations.
Require Import PV.Comb.PState PV.Peg.Ast PV.Opt.MapExpr.

Definition atomic_ty (ty : rtype) : bool := match ty with RAtomic | RCompound => true | _ => false end.

Definition factor_fn (ty : rtype) (e : expr) : expr :=
  match e with
  | EChoice lhs rhs =>
      match lhs, rhs with
      | ESeq l1 r1, ESeq l2 r2 => if expr_eqb l1 l2 then ESeq l1 (EChoice r1 r2) else e
      | ESeq l1 l2, r =>
          if atomic_ty ty then (if expr_eqb l1 r then ESeq l1 (EOpt l2) else e)
          else e                     (* third arm needs rhs = Seq, which the first arm has taken: fourth arm *)
      | l, ESeq r1 r2 => if expr_eqb l r1 then l else e
      | _, _ => e
      end
  | _ => e
  end.

Definition factor_expr (ty : rtype) (e : expr) : option expr := map_top_down (S (esize e)) (fun x => Some (factor_fn ty x)) e.
Definition factor_rule (r : rule) : option rule := with_expr r (factor_expr (rty r) (rexpr r)).
