(* From the per-pass grammar theorems to the vocabulary of the C05 statement. *)
From Coq Require Import List Arith NArith ZArith Bool String Lia.
Import ListNotations.
Require Import PV.Comb.PState PV.Comb.Bytes PV.Comb.Utf8 PV.Iter.Queue PV.Peg.Ast PV.Peg.Spec
  PV.Opt.Sem PV.Opt.SemProofs PV.Opt.SemCong PV.Opt.MapExpr PV.Opt.MapExprProofs PV.Opt.PassProofs
  PV.Opt.Rotate PV.Opt.Skip PV.Opt.Unroll PV.Opt.Concat PV.Opt.Factor PV.Opt.List PV.Opt.Restore PV.Opt.Pipeline
  PV.Opt.RotateProofs PV.Opt.UnrollProofs PV.Opt.ConcatProofs PV.Opt.FactorProofs PV.Opt.ListProofs PV.Opt.Statement.

Lemma same_meaning_refl extras G : same_meaning extras G G.
Proof. intros uprop w a emit e p sg r _ _ _ _. tauto. Qed.
Lemma same_meaning_trans extras G1 G2 G3 : same_meaning extras G1 G2 -> same_meaning extras G2 G3 -> same_meaning extras G1 G3.
Proof. intros H1 H2 uprop w a emit e p sg r Vw Ve B Vs. rewrite (H2 uprop w a emit e p sg r Vw Ve B Vs). now apply H1. Qed.

Lemma same_meaning_of_bs extras G G' :
  (forall uprop w a emit e p sg res, valid_utf8 w -> Forall valid_utf8 (estrs e) -> boundaryb w p = true -> Forall valid_utf8 sg ->
     (bs G' extras uprop w a emit (JE e) p sg res <-> bs G extras uprop w a emit (JE e) p sg res)) ->
  same_meaning extras G G'.
Proof. intros H uprop w a emit e p sg r Vw Ve B Vs. rewrite <- !bs_iff_evaluates. now apply H. Qed.

Theorem rotate_preserves extras G : pass_preserves extras 0 G.
Proof. intros G' H. apply same_meaning_of_bs. intros. now apply (rotate_grammar G G'). Qed.

Theorem unroll_preserves extras G : pass_preserves extras 2 G.
Proof. intros G' H. apply same_meaning_of_bs. intros. now apply (unroll_grammar G G'). Qed.

Theorem concat_preserves extras G : literals_valid G -> pass_preserves extras 3 G.
Proof. intros V G' H. apply same_meaning_of_bs. intros. now apply (concat_grammar G G'). Qed.

Theorem factor_preserves extras G : pass_preserves extras 4 G.
Proof. intros G' H. apply same_meaning_of_bs. intros. now apply (factor_grammar G G'). Qed.

(* the lister outside its class: the pass is the identity *)
Theorem list_preserves_outside_class extras G : lister_applies G = false -> pass_preserves extras 5 G.
Proof.
  intros L G' H. unfold apply_pass in H. change (map_rules (fun r => list_rule r) G) with (map_rules list_rule G) in H.
  rewrite (lister_identity G L) in H. injection H as <-. apply same_meaning_refl.
Qed.
