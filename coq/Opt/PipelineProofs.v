(* From the per-pass grammar theorems to the vocabulary of the C05 statement. *)
From Coq Require Import List Arith NArith ZArith Bool String Lia.
Import ListNotations.
Require Import PV.Comb.PState PV.Comb.Bytes PV.Comb.Utf8 PV.Iter.Queue PV.Peg.Ast PV.Peg.Spec
  PV.Opt.Sem PV.Opt.SemProofs PV.Opt.SemCong PV.Opt.MapExpr PV.Opt.MapExprProofs PV.Opt.PassProofs
  PV.Opt.Rotate PV.Opt.Skip PV.Opt.Unroll PV.Opt.Concat PV.Opt.Factor PV.Opt.List PV.Opt.Restore PV.Opt.Pipeline
  PV.Opt.RotateProofs PV.Opt.UnrollProofs PV.Opt.ConcatProofs PV.Opt.FactorProofs PV.Opt.ListProofs PV.Opt.Statement.

Lemma same_meaning_refl extras G : same_meaning extras G G.
Proof. intros uprop w a emit e p sg r _ _ _ _. tauto. Qed.
Lemma same_meaning_trans extras G1 G2 G3 : same_meaning extras G1 G2 -> same_meaning extras G2 G3 -> same_meaning extras G1 G3.
Proof. intros H1 H2 uprop w a emit e p sg r Vw Ve B Vs. rewrite (H2 uprop w a emit e p sg r Vw Ve B Vs). now apply H1. Qed.

Lemma same_meaning_of_bs extras G G' :
  (forall uprop w a emit e p sg res, valid_utf8 w -> Forall valid_utf8 (estrs e) -> boundaryb w p = true -> Forall valid_utf8 sg ->
     (bs G' extras uprop w a emit (JE e) p sg res <-> bs G extras uprop w a emit (JE e) p sg res)) ->
  same_meaning extras G G'.
Proof. intros H uprop w a emit e p sg r Vw Ve B Vs. rewrite <- !bs_iff_evaluates. now apply H. Qed.

Theorem rotate_preserves extras G : pass_preserves extras 0 G.
Proof. intros ovf G' H. apply same_meaning_of_bs. intros. now apply (rotate_grammar G G'). Qed.

Theorem unroll_preserves extras G : pass_preserves extras 2 G.
Proof. intros ovf G' H. apply same_meaning_of_bs. intros. now apply (unroll_grammar ovf G G'). Qed.

Theorem concat_preserves extras G : literals_valid G -> pass_preserves extras 3 G.
Proof. intros V ovf G' H. apply same_meaning_of_bs. intros. now apply (concat_grammar G G'). Qed.

Theorem factor_preserves extras G : pass_preserves extras 4 G.
Proof. intros ovf G' H. apply same_meaning_of_bs. intros. now apply (factor_grammar G G'). Qed.

(* the lister outside its class: the pass is the identity *)
Theorem list_preserves_outside_class extras G : lister_applies G = false -> pass_preserves extras 5 G.
Proof.
  intros L ovf G' H. unfold apply_pass in H. change (map_rules (fun r => list_rule r) G) with (map_rules list_rule G) in H.
  rewrite (lister_identity G L) in H. injection H as <-. apply same_meaning_refl.
Qed.

(* ---------- skip on its own (the map is the grammar itself, as in verif_apply_pass) ---------- *)
Require Import PV.Opt.Boundary PV.Opt.SkipProofs PV.Opt.SemTransfer.

Lemma gvalid_map G : literals_valid G -> forall n body, map_get G n = Some body -> Forall valid_utf8 (estrs body).
Proof.
  intros V n body H. unfold map_get in H. destruct (find_rule G n) as [r|] eqn:F; [|discriminate]. injection H as <-.
  apply V. eapply find_rule_In; eauto.
Qed.

Lemma same_meaning_of_bs_inv extras G G' :
  (forall uprop w a emit e p sg res, valid_utf8 w -> Forall valid_utf8 (estrs e) -> on_boundary w p sg ->
     (bs G' extras uprop w a emit (JE e) p sg res <-> bs G extras uprop w a emit (JE e) p sg res)) ->
  same_meaning extras G G'.
Proof. intros H. apply same_meaning_of_bs. intros. apply H; auto. split; auto. Qed.

Theorem skip_step_preserves extras M G G' : literals_valid M -> literals_valid G -> agrees M G ->
  map_rules (skip_rule M) G = Some G' -> same_meaning extras G G'.
Proof.
  intros VM V A H. apply same_meaning_of_bs_inv. intros uprop w a emit e p sg res Vw Ve I.
  apply (skip_grammar M G G' extras uprop w Vw (gvalid_map M VM) V A H); auto.
Qed.

Theorem skip_preserves extras G : valid_grammar G -> pass_preserves extras 1 G.
Proof. intros (V & N & _) ovf G' H. apply (skip_step_preserves extras G G G'); auto. now apply agrees_self. Qed.

(* ---------- literal validity along the pipeline ---------- *)
Lemma rot_seq_strs l : forall r, estrs (rot_seq l r) = estrs l ++ estrs r.
Proof. induction l; intros r; cbn [rot_seq estrs]; auto. rewrite IHl1. cbn [estrs]. now rewrite app_assoc. Qed.
Lemma rot_cho_strs l : forall r, estrs (rot_cho l r) = estrs l ++ estrs r.
Proof. induction l; intros r; cbn [rot_cho estrs]; auto. rewrite IHl1. cbn [estrs]. now rewrite app_assoc. Qed.
Lemma rotate_internal_strs e : estrs (rotate_internal e) = estrs e.
Proof. destruct e; cbn [rotate_internal]; auto; [apply rot_seq_strs|apply rot_cho_strs]. Qed.

Lemma gvalid_step (F : rule -> option rule) G G' :
  (forall r r', F r = Some r' -> Forall valid_utf8 (estrs (rexpr r)) -> Forall valid_utf8 (estrs (rexpr r'))) ->
  literals_valid G -> map_rules F G = Some G' -> literals_valid G'.
Proof.
  intros HF V H. apply map_rules_F2 in H. induction H as [|r r' G G' Hr HG IH]; intros x Hx; [destruct Hx|].
  destruct Hx as [<-|Hx]; [eapply HF; eauto; apply V; now left|apply IH; auto; intros y Hy; apply V; now right].
Qed.

Lemma rotate_gvalid G G' : literals_valid G -> map_rules rotate_rule G = Some G' -> literals_valid G'.
Proof.
  apply gvalid_step. intros r r' H V. apply with_expr_inv in H. unfold rotate_expr in H.
  eapply (map_top_down_lits valid_utf8 (fun x => Some (rotate_internal x))); [|exact V|exact H].
  intros x y Vx [= <-]. now rewrite rotate_internal_strs.
Qed.

Lemma unroll_fn_strs ovf extras e u : unroll_fn ovf extras e = Some u -> Forall valid_utf8 (estrs e) -> Forall valid_utf8 (estrs u).
Proof.
  intros H V. destruct e; cbn [unroll_fn] in H;
    try (cbn [unroll_node] in H; injection H as <-; exact V);
    try (destruct (negb ovf || fits _); [|discriminate]; eapply unroll_node_strs; eauto; reflexivity).
  cbn [unroll_node] in H. destruct extras; injection H as <-; [exact V|]. cbn [estrs] in *. apply Forall_app; auto.
Qed.
Lemma unroll_gvalid ovf extras G G' : literals_valid G -> map_rules (unroll_rule ovf extras) G = Some G' -> literals_valid G'.
Proof.
  apply gvalid_step. intros r r' H V. apply with_expr_inv in H. unfold unroll_expr in H.
  eapply (map_bottom_up_lits valid_utf8 (unroll_fn ovf extras)); [|exact V|exact H].
  intros x y Vx Hxy. eapply unroll_fn_strs; eauto.
Qed.

(* rules that populate_choices can inline are left alone by rotate *)
Lemma pcs_rotate_fixed : forall fuel e, esize e < fuel -> pcs e -> map_top_down fuel (fun x => Some (rotate_internal x)) e = Some e.
Proof.
  induction fuel as [|n IH]; intros e L P; [lia|]. cbn [map_top_down].
  destruct e; cbn [pcs] in P; try contradiction; cbn [rotate_internal obind]; auto.
  destruct e1; try contradiction; cbn [pcs] in P; cbn [esize] in L; cbn [rot_cho obind].
  - rewrite (IH (EStr s)) by (cbn; auto; lia). rewrite (IH e2) by (auto; lia). reflexivity.
  - rewrite (IH (EIdent n0)) by (cbn; auto; lia). rewrite (IH e2) by (auto; lia). reflexivity.
Qed.

Lemma agrees_after_rotate M G G' : map_rules rotate_rule G = Some G' -> agrees M G -> agrees M G'.
Proof.
  intros H A n body Hm P. destruct (A n body Hm P) as (r & F & E & NB).
  pose proof (F2_find rotate_rule (fun r r' => with_expr_sig r _ r') _ _ (map_rules_F2 _ _ _ H) n) as X. rewrite F in X.
  destruct (find_rule G' n) as [r'|]; [|contradiction]. destruct X as [X _].
  exists r'. split; [reflexivity|]. split; [|exact NB].
  apply with_expr_inv in X. unfold rotate_expr in X. rewrite pcs_rotate_fixed in X by (try lia; congruence). congruence.
Qed.

(* ---------- the pipeline as a sequence of grammar-level passes ---------- *)
Lemma map_rules_compose (f g : rule -> option rule) : forall G,
  map_rules (fun r => obind (f r) g) G = obind (map_rules f G) (map_rules g).
Proof.
  induction G as [|r G IH]; cbn [map_rules obind]; [reflexivity|].
  destruct (f r) as [r1|]; cbn [obind]; [|reflexivity]. rewrite IH.
  destruct (map_rules f G) as [G1|]; cbn [obind map_rules].
  - destruct (g r1); reflexivity.
  - destruct (g r1); reflexivity.
Qed.

Lemma optimize_ast_stages ovf extras G G6 : optimize_ast ovf extras G = Some G6 ->
  exists G1 G2 G3 G4 G5, map_rules rotate_rule G = Some G1 /\ map_rules (skip_rule G) G1 = Some G2 /\
    map_rules (unroll_rule ovf extras) G2 = Some G3 /\ map_rules concat_rule G3 = Some G4 /\ map_rules factor_rule G4 = Some G5 /\
    map_rules list_rule G5 = Some G6 /\ front5 ovf extras G = Some G5.
Proof.
  unfold optimize_ast, front5, ast_pipeline_rule, front5_rule. intros H.
  rewrite map_rules_compose in H. rewrite map_rules_compose.
  destruct (map_rules rotate_rule G) as [G1|] eqn:E1; cbn [obind] in *; [|discriminate].
  rewrite map_rules_compose in H. rewrite map_rules_compose.
  destruct (map_rules (skip_rule G) G1) as [G2|] eqn:E2; cbn [obind] in *; [|discriminate].
  rewrite map_rules_compose in H. rewrite map_rules_compose.
  destruct (map_rules (unroll_rule ovf extras) G2) as [G3|] eqn:E3; cbn [obind] in *; [|discriminate].
  rewrite map_rules_compose in H. rewrite map_rules_compose.
  destruct (map_rules concat_rule G3) as [G4|] eqn:E4; cbn [obind] in *; [|discriminate].
  rewrite map_rules_compose in H.
  change (map_rules (fun r4 => factor_rule r4) G4) with (map_rules factor_rule G4).
  destruct (map_rules factor_rule G4) as [G5|] eqn:E5; cbn [obind] in *; [|discriminate].
  change (map_rules (fun r5 => list_rule r5) G5) with (map_rules list_rule G5) in H.
  exists G1, G2, G3, G4, G5. repeat split; auto.
Qed.

(* the composition, outside the lister class *)
Theorem pipeline_preserves_outside_class extras G : valid_grammar G -> (forall ovf, lister_class ovf extras G = false) -> pipeline_preserves extras G.
Proof.
  intros (V & N & _) L0 ovf G6 H. pose proof (L0 ovf) as L.
  destruct (optimize_ast_stages _ _ _ _ H) as (G1 & G2 & G3 & G4 & G5 & H1 & H2 & H3 & H4 & H5 & H6 & F5).
  unfold lister_class in L. rewrite F5 in L.
  assert (V1 := rotate_gvalid _ _ V H1).
  assert (A1 : agrees G G1) by (eapply agrees_after_rotate; eauto; now apply agrees_self).
  assert (V2 : literals_valid G2) by (eapply skip_gvalid; eauto; now apply gvalid_map).
  assert (V3 := unroll_gvalid _ _ _ _ V2 H3).
  eapply same_meaning_trans; [exact (rotate_preserves extras G ovf G1 H1)|].
  eapply same_meaning_trans; [exact (skip_step_preserves extras G G1 G2 V V1 A1 H2)|].
  eapply same_meaning_trans; [exact (unroll_preserves extras G2 ovf G3 H3)|].
  eapply same_meaning_trans; [exact (concat_preserves extras G3 V3 ovf G4 H4)|].
  eapply same_meaning_trans; [exact (factor_preserves extras G4 ovf G5 H5)|].
  exact (list_preserves_outside_class extras G5 L ovf G6 H6).
Qed.

(* ---------- the conversion: names are kept, no RestoreOnErr yet ---------- *)
Require Import PV.Opt.RestoreProofs.

Lemma to_optimized_noroe extras : forall e o, to_optimized extras e = Some o -> noroe o.
Proof.
  induction e; intros o H; cbn [to_optimized] in H; try (injection H as <-; exact I); try discriminate;
    try (destruct (to_optimized extras e) as [y|]; [|discriminate]; injection H as <-; cbn; now apply IHe).
  - destruct (to_optimized extras e1) as [y1|]; [|discriminate]. destruct (to_optimized extras e2) as [y2|]; [|discriminate].
    injection H as <-. cbn. split; [now apply IHe1|now apply IHe2].
  - destruct (to_optimized extras e1) as [y1|]; [|discriminate]. destruct (to_optimized extras e2) as [y2|]; [|discriminate].
    injection H as <-. cbn. split; [now apply IHe1|now apply IHe2].
  - destruct extras; [|discriminate]. destruct (to_optimized true e) as [y|]; [|discriminate]. injection H as <-. cbn. now apply IHe.
Qed.

Lemma map_orules_facts extras : forall G OG, map_orules (rule_to_optimized_rule extras) G = Some OG ->
  map oname OG = map rname G /\ (forall r, In r OG -> noroe (oexpr_of r)).
Proof.
  induction G as [|r G IH]; intros OG H; cbn [map_orules] in H.
  - injection H as <-. split; [reflexivity|intros r []].
  - unfold rule_to_optimized_rule in H at 1. destruct (to_optimized extras (rexpr r)) as [o|] eqn:E; [|discriminate]. cbn [option_map obind] in H.
    destruct (map_orules (rule_to_optimized_rule extras) G) as [OG'|]; [|discriminate]. cbn [obind] in H. injection H as <-.
    destruct (IH _ eq_refl) as [A B]. split; [cbn; now rewrite A|].
    intros q [<-|Hq]; [cbn; eapply to_optimized_noroe; eauto|now apply B].
Qed.

Theorem restorer_fixed extras G : valid_grammar G -> forall OG, to_optimized_rules extras true true false G = Some OG -> restorer_ok true true OG.
Proof.
  intros (_ & _ & U) OG H. unfold to_optimized_rules in H. destruct (map_orules (rule_to_optimized_rule extras) G) as [OG0|] eqn:E; [|discriminate].
  injection H as <-. destruct (map_orules_facts _ _ _ E) as [A B]. apply restorer_sound; [|exact B]. rewrite A. exact U.
Qed.
