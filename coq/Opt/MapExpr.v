(* Layer F, part 1: the generic traversals of meta/src/ast.rs (Expr) and meta/src/optimizer/mod.rs
   (OptimizedExpr), and derived equality of Expr.
   Conventions: a pass returns `option`: None = the Rust code does not return normally (panic:
   unwrap on None, unreachable!, arithmetic overflow; or unbounded recursion = stack overflow).
   `map_top_down` applies f to a node and THEN descends into the children of the result, so its
   termination depends on f: the model takes fuel; the pass files prove that the fuel they supply
   suffices (MapExprProofs.v).                                                              *)
From Coq Require Import List Arith NArith ZArith Bool.
Import ListNotations.
Require Import PV.Comb.PState PV.Peg.Ast.

(* ---------- #[derive(PartialEq)] on Expr ---------- *)
Fixpoint strs_eqb (a b : list str) : bool :=
  match a, b with
  | [], [] => true
  | x :: a', y :: b' => str_eqb x y && strs_eqb a' b'
  | _, _ => false
  end.
Definition optz_eqb (a b : option Z) : bool :=
  match a, b with None, None => true | Some x, Some y => Z.eqb x y | _, _ => false end.

Fixpoint expr_eqb (a b : expr) : bool :=
  match a, b with
  | EStr s, EStr t => str_eqb s t
  | EInsens s, EInsens t => str_eqb s t
  | ERange l h, ERange l' h' => N.eqb l l' && N.eqb h h'
  | EIdent n, EIdent m => str_eqb n m
  | EPeekSlice i j, EPeekSlice i' j' => Z.eqb i i' && optz_eqb j j'
  | EPosPred x, EPosPred y => expr_eqb x y
  | ENegPred x, ENegPred y => expr_eqb x y
  | ESeq x1 x2, ESeq y1 y2 => expr_eqb x1 y1 && expr_eqb x2 y2
  | EChoice x1 x2, EChoice y1 y2 => expr_eqb x1 y1 && expr_eqb x2 y2
  | EOpt x, EOpt y => expr_eqb x y
  | ERep x, ERep y => expr_eqb x y
  | ERepOnce x, ERepOnce y => expr_eqb x y
  | ERepExact x n, ERepExact y m => expr_eqb x y && N.eqb n m
  | ERepMin x n, ERepMin y m => expr_eqb x y && N.eqb n m
  | ERepMax x n, ERepMax y m => expr_eqb x y && N.eqb n m
  | ERepMinMax x n1 n2, ERepMinMax y m1 m2 => expr_eqb x y && N.eqb n1 m1 && N.eqb n2 m2
  | ESkip ss, ESkip ts => strs_eqb ss ts
  | EPush x, EPush y => expr_eqb x y
  | EPushLiteral s, EPushLiteral t => str_eqb s t
  | ENodeTag x t, ENodeTag y u => expr_eqb x y && str_eqb t u
  | _, _ => false
  end.

Fixpoint esize (e : expr) : nat :=
  match e with
  | EPosPred x | ENegPred x | EOpt x | ERep x | ERepOnce x | ERepExact x _ | ERepMin x _ | ERepMax x _
  | ERepMinMax x _ _ | EPush x | ENodeTag x _ => S (esize x)
  | ESeq a b | EChoice a b => S (esize a + esize b)
  | _ => 1
  end.
Definition gsize (g : grammar) : nat := fold_right (fun r acc => esize (rexpr r) + acc) 0 g.

Definition obind {A B} (o : option A) (f : A -> option B) : option B := match o with Some x => f x | None => None end.

(* ---------- Expr::map_top_down / map_bottom_up: every constructor with a child is descended into
   (NodeTag exists only with grammar-extras, where it is descended into as well) ---------- *)
Fixpoint map_top_down (fuel : nat) (f : expr -> option expr) (e : expr) : option expr :=
  match fuel with
  | O => None
  | S n =>
    let go := map_top_down n f in
    obind (f e) (fun e1 =>
    match e1 with
    | EPosPred x => option_map EPosPred (go x)
    | ENegPred x => option_map ENegPred (go x)
    | ESeq l r => obind (go l) (fun l' => obind (go r) (fun r' => Some (ESeq l' r')))
    | EChoice l r => obind (go l) (fun l' => obind (go r) (fun r' => Some (EChoice l' r')))
    | ERep x => option_map ERep (go x)
    | ERepOnce x => option_map ERepOnce (go x)
    | ERepExact x k => option_map (fun y => ERepExact y k) (go x)
    | ERepMin x k => option_map (fun y => ERepMin y k) (go x)
    | ERepMax x k => option_map (fun y => ERepMax y k) (go x)
    | ERepMinMax x k1 k2 => option_map (fun y => ERepMinMax y k1 k2) (go x)
    | EOpt x => option_map EOpt (go x)
    | EPush x => option_map EPush (go x)
    | ENodeTag x t => option_map (fun y => ENodeTag y t) (go x)
    | x => Some x
    end)
  end.

Fixpoint map_bottom_up (f : expr -> option expr) (e : expr) : option expr :=
  let go := map_bottom_up f in
  obind
    (match e with
     | EPosPred x => option_map EPosPred (go x)
     | ENegPred x => option_map ENegPred (go x)
     | ESeq l r => obind (go l) (fun l' => obind (go r) (fun r' => Some (ESeq l' r')))
     | EChoice l r => obind (go l) (fun l' => obind (go r) (fun r' => Some (EChoice l' r')))
     | ERep x => option_map ERep (go x)
     | ERepOnce x => option_map ERepOnce (go x)
     | ERepExact x k => option_map (fun y => ERepExact y k) (go x)
     | ERepMin x k => option_map (fun y => ERepMin y k) (go x)
     | ERepMax x k => option_map (fun y => ERepMax y k) (go x)
     | ERepMinMax x k1 k2 => option_map (fun y => ERepMinMax y k1 k2) (go x)
     | EOpt x => option_map EOpt (go x)
     | EPush x => option_map EPush (go x)
     | ENodeTag x t => option_map (fun y => ENodeTag y t) (go x)
     | x => Some x
     end) f.

(* ---------- OptimizedExpr::map_bottom_up / iter_top_down (map_top_down, unused by the optimizer, has the same shape) ----------
   As written, neither descends into RepOnce, NodeTag (grammar-extras) or RestoreOnErr.
   `fixmap = true` models fixes/C05-2: RepOnce and NodeTag are descended into.           *)
Fixpoint omap_bottom_up (fixmap : bool) (f : oexpr -> oexpr) (e : oexpr) : oexpr :=
  let go := omap_bottom_up fixmap f in
  f (match e with
     | OPosPred x => OPosPred (go x)
     | ONegPred x => ONegPred (go x)
     | OSeq l r => OSeq (go l) (go r)
     | OChoice l r => OChoice (go l) (go r)
     | ORep x => ORep (go x)
     | OOpt x => OOpt (go x)
     | OPush x => OPush (go x)
     | ORepOnce x => if fixmap then ORepOnce (go x) else e
     | ONodeTag x t => if fixmap then ONodeTag (go x) t else e
     | x => x
     end).

(* the nodes yielded by OptimizedExprTopDownIterator, in order (pre-order, left before right) *)
Fixpoint oiter_top_down (fixmap : bool) (e : oexpr) : list oexpr :=
  e :: match e with
       | OSeq l r | OChoice l r => oiter_top_down fixmap l ++ oiter_top_down fixmap r
       | OPosPred x | ONegPred x | ORep x | OOpt x | OPush x => oiter_top_down fixmap x
       | ORepOnce x | ONodeTag x _ => if fixmap then oiter_top_down fixmap x else []
       | _ => []
       end.

(* a pass applied to every rule of a grammar (`rules.into_iter().map(pass).collect()`) *)
Fixpoint map_rules (f : rule -> option rule) (g : grammar) : option grammar :=
  match g with
  | [] => Some []
  | r :: g' => obind (f r) (fun r' => obind (map_rules f g') (fun g'' => Some (r' :: g'')))
  end.
Definition with_expr (r : rule) (o : option expr) : option rule :=
  option_map (fun e => {| rname := rname r; rty := rty r; rexpr := e |}) o.

Definition rtype_eqb (a b : rtype) : bool :=
  match a, b with
  | RNormal, RNormal | RSilent, RSilent | RAtomic, RAtomic | RCompound, RCompound | RNonAtomic, RNonAtomic => true
  | _, _ => false
  end.

(* HashMap<String, Expr> built by to_hash_map: a later rule with the same name overwrites an earlier one *)
Definition map_get (g : grammar) (n : name) : option expr := option_map rexpr (find_rule g n).
Definition omap_get (g : ogrammar) (n : name) : option oexpr := option_map oexpr_of (find_orule g n).
