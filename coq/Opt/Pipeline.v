(* Layer F: meta/src/optimizer/mod.rs: rule_to_optimized_rule and `optimize`. *)
From Coq Require Import List Arith NArith ZArith Bool.
Import ListNotations.
Require Import PV.Comb.PState PV.Peg.Ast PV.Opt.MapExpr PV.Opt.Rotate PV.Opt.Skip PV.Opt.Unroll PV.Opt.Concat
  PV.Opt.Factor PV.Opt.List PV.Opt.Restore.

(* to_optimized: None = unreachable!("No valid transformation to OptimizedRule") *)
Fixpoint to_optimized (extras : bool) (e : expr) : option oexpr :=
  match e with
  | EStr s => Some (OStr s)
  | EInsens s => Some (OInsens s)
  | ERange lo hi => Some (ORange lo hi)
  | EIdent n => Some (OIdent n)
  | EPeekSlice i j => Some (OPeekSlice i j)
  | EPosPred x => option_map OPosPred (to_optimized extras x)
  | ENegPred x => option_map ONegPred (to_optimized extras x)
  | ESeq l r => obind (to_optimized extras l) (fun l' => obind (to_optimized extras r) (fun r' => Some (OSeq l' r')))
  | EChoice l r => obind (to_optimized extras l) (fun l' => obind (to_optimized extras r) (fun r' => Some (OChoice l' r')))
  | EOpt x => option_map OOpt (to_optimized extras x)
  | ERep x => option_map ORep (to_optimized extras x)
  | ESkip ss => Some (OSkip ss)
  | EPush x => option_map OPush (to_optimized extras x)
  | EPushLiteral s => Some (OPushLiteral s)                                   (* variant exists with grammar-extras only *)
  | ENodeTag x t => option_map (fun y => ONodeTag y t) (to_optimized extras x)  (* idem *)
  | ERepOnce x => if extras then option_map ORepOnce (to_optimized extras x) else None
  | ERepExact _ _ | ERepMin _ _ | ERepMax _ _ | ERepMinMax _ _ _ => None
  end.

Definition rule_to_optimized_rule (extras : bool) (r : rule) : option orule :=
  option_map (fun e => {| oname := rname r; oty := rty r; oexpr_of := e |}) (to_optimized extras (rexpr r)).

Fixpoint map_orules (f : rule -> option orule) (g : grammar) : option ogrammar :=
  match g with
  | [] => Some []
  | r :: g' => obind (f r) (fun r' => obind (map_orules f g') (fun g'' => Some (r' :: g'')))
  end.

(* verif_apply_pass(rules, pass): the HashMap is built from the rules the pass is applied to *)
Definition apply_pass (ovf extras : bool) (pass : nat) (g : grammar) : option grammar :=
  map_rules (fun r =>
    match pass with
    | 0 => rotate_rule r
    | 1 => skip_rule g r
    | 2 => unroll_rule ovf extras r
    | 3 => concat_rule r
    | 4 => factor_rule r
    | 5 => list_rule r
    | _ => Some r
    end) g.

(* verif_to_optimized(rules, restore) *)
Definition to_optimized_rules (extras fixpop fixmap restore : bool) (g : grammar) : option ogrammar :=
  option_map (fun og => if restore then restore_all fixpop fixmap og else og) (map_orules (rule_to_optimized_rule extras) g).

(* the six AST passes, rule by rule as the iterator chain does; the skipper's map holds the ORIGINAL rules *)
Definition ast_pipeline_rule (ovf extras : bool) (map : grammar) (r : rule) : option rule :=
  obind (rotate_rule r) (fun r1 => obind (skip_rule map r1) (fun r2 => obind (unroll_rule ovf extras r2) (fun r3 =>
  obind (concat_rule r3) (fun r4 => obind (factor_rule r4) (fun r5 => list_rule r5))))).
Definition front5_rule (ovf extras : bool) (map : grammar) (r : rule) : option rule :=
  obind (rotate_rule r) (fun r1 => obind (skip_rule map r1) (fun r2 => obind (unroll_rule ovf extras r2) (fun r3 =>
  obind (concat_rule r3) (fun r4 => factor_rule r4)))).
Definition optimize_ast (ovf extras : bool) (g : grammar) : option grammar := map_rules (ast_pipeline_rule ovf extras g) g.
Definition front5 (ovf extras : bool) (g : grammar) : option grammar := map_rules (front5_rule ovf extras g) g.

Definition optimize (ovf extras fixpop fixmap : bool) (g : grammar) : option ogrammar :=
  obind (optimize_ast ovf extras g) (to_optimized_rules extras fixpop fixmap true).

(* the known class: the lister rewrite changes some rule of the grammar (after the five passes before it) *)
Definition lister_class (ovf extras : bool) (g : grammar) : bool :=
  match front5 ovf extras g with Some g5 => lister_applies g5 | None => false end.
