(* Layer F: meta/src/optimizer/unroller.rs.  Bottom-up; `(1..num + 1)` is u32 arithmetic: with the maximal
   count the addition overflows (panic with overflow checks; without them it wraps to an empty range and the
   `.unwrap()` of the empty fold panics): None either way.  A count that yields no element (e{0}, e{,0},
   e{m,0}) is the `.unwrap()` of an empty fold: None.  e+ is unrolled only without grammar-extras. *)
From Coq Require Import List Arith NArith ZArith Bool.
Import ListNotations.
Require Import PV.Comb.PState PV.Peg.Ast PV.Opt.MapExpr.

Definition u32_max : N := 4294967295.
Definition fits (n : N) : bool := (n <=? u32_max)%N.

Definition unroll_fn (extras : bool) (e : expr) : option expr :=
  match e with
  | ERepExact _ n | ERepMax _ n | ERepMinMax _ _ n => if fits (n + 1) then unroll_node extras e else None
  | ERepMin _ n => if fits (n + 2) then unroll_node extras e else None
  | _ => unroll_node extras e
  end.

Definition unroll_expr (extras : bool) (e : expr) : option expr := map_bottom_up (unroll_fn extras) e.
Definition unroll_rule (extras : bool) (r : rule) : option rule := with_expr r (unroll_expr extras (rexpr r)).
