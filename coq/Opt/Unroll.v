(* Layer F: meta/src/optimizer/unroller.rs.  Bottom-up.  A count that yields no element (e{0}, e{,0}, e{m,0}) is the
   `.unwrap()` of an empty fold: None.  e+ is unrolled only without grammar-extras.
   ovf = true models the ranges as originally written, `(1..num + 1)` / `(1..min + 2)` in u32 arithmetic: with the
   maximal count the addition overflows (panic with overflow checks; without them it wraps to an empty range and the
   `.unwrap()` of the empty fold panics): None either way.  ovf = false models the inclusive ranges `(1..=num)` /
   `(0..=min)` of the repaired unroller (fix: commit c169d99), which cannot overflow.                          *)
From Coq Require Import List Arith NArith ZArith Bool.
Import ListNotations.
Require Import PV.Comb.PState PV.Peg.Ast PV.Opt.MapExpr.

Definition u32_max : N := 4294967295.
Definition fits (n : N) : bool := (n <=? u32_max)%N.

Definition unroll_fn (ovf extras : bool) (e : expr) : option expr :=
  match e with
  | ERepExact _ n | ERepMax _ n | ERepMinMax _ _ n => if negb ovf || fits (n + 1) then unroll_node extras e else None
  | ERepMin _ n => if negb ovf || fits (n + 2) then unroll_node extras e else None
  | _ => unroll_node extras e
  end.

Definition unroll_expr (ovf extras : bool) (e : expr) : option expr := map_bottom_up (unroll_fn ovf extras) e.
Definition unroll_rule (ovf extras : bool) (r : rule) : option rule := with_expr r (unroll_expr ovf extras (rexpr r)).
