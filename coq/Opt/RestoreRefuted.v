(* The restorer clause of the C05 statement is false of the code as shipped: an alternative that child_modifies_state
   does not flag (POP_ALL), resp. that the traversal never reaches (inside #t = .. / (..)+), fails with a modified stack. *)
From Coq Require Import List Arith NArith ZArith Bool String Lia.
Import ListNotations.
Require Import PV.Stack.Model PV.Stack.Proofs PV.Comb.PState PV.Comb.Bytes PV.Comb.Prog PV.Comb.Exec PV.Comb.Frame
  PV.Iter.Queue PV.Peg.Ast PV.Peg.Spec PV.Peg.VmCompile PV.Opt.MapExpr PV.Opt.Restore PV.Opt.Pipeline PV.Opt.Statement PV.Opt.RestoreWitness.

(* a state with the stack [top = b; a] in front of the input "X" *)
Definition two_pushed (x y : string) (rest : string) : pst :=
  set_stack (init (nm rest) None false) (push (push (@empty (list byte)) (nm x)) (nm y)).
Lemma two_pushed_ok x y rest : wf (two_pushed x y rest) /\ Inv (stack (two_pushed x y rest)) (spush (spush (@sempty (list byte)) (nm x)) (nm y)).
Proof. split; [unfold wf; cbn; lia|]. cbn. apply inv_push, inv_push, inv_empty. Qed.

Theorem restorer_pop_all_not_ok : forall extras OG, to_optimized_rules extras false false false G_popall = Some OG -> ~ restorer_ok false false OG.
Proof.
  intros extras OG H R. assert (OG = [{| oname := nm "r"; oty := RNormal;
      oexpr_of := OSeq (OSeq (OPush (OStr (nm "a"))) (OPush (OStr (nm "b")))) (OChoice (OIdent (nm "POP_ALL")) (OIdent (nm "PEEK_ALL"))) |}]) as ->
    by (destruct extras; vm_compute in H; injection H as <-; reflexivity).
  specialize (R _ (or_introl eq_refl) (OIdent (nm "POP_ALL")) ltac:(vm_compute; tauto)).
  destruct (two_pushed_ok "a" "b" "bX") as [W I].
  specialize (R wcfg no_uranges 5 _ _ (set_stack (two_pushed "a" "b" "bX") (@empty (list byte))) W I ltac:(vm_compute; reflexivity)).
  vm_compute in R. discriminate.
Qed.

(* grammar-extras, POP_ALL repaired, traversals as shipped: the alternatives under the tag are not wrapped *)
Theorem restorer_map_not_ok : forall OG, to_optimized_rules true true false false G_nodetag = Some OG -> ~ restorer_ok true false OG.
Proof.
  intros OG H R. vm_compute in H. injection H as <-.
  specialize (R _ (or_introl eq_refl) (OIdent (nm "POP")) ltac:(vm_compute; tauto)).
  destruct (two_pushed_ok "x" "y" "x") as [W I].
  specialize (R wcfg no_uranges 5 _ _ (set_stack (two_pushed "x" "y" "x") (push (@empty (list byte)) (nm "x"))) W I ltac:(vm_compute; reflexivity)).
  vm_compute in R. discriminate.
Qed.
