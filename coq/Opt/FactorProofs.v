(* factor preserves the documented meaning: the three rewrites rest on the determinism of the semantics (a
   re-evaluated common head gives the same result) and on a failing alternative leaving no state behind.   *)
From Coq Require Import List Arith NArith ZArith Bool String Lia.
Import ListNotations.
Require Import PV.Comb.PState PV.Comb.Bytes PV.Iter.Queue PV.Peg.Ast PV.Peg.Spec PV.Opt.Sem PV.Opt.SemProofs PV.Opt.SemCong
  PV.Opt.SemTransfer PV.Opt.SemLaws PV.Opt.MapExpr PV.Opt.MapExprProofs PV.Opt.PassProofs PV.Opt.Factor.

Lemma factor_fn_size ty e : esize (factor_fn ty e) <= esize e.
Proof.
  destruct e; cbn [factor_fn]; auto.
  destruct e1, e2; cbn [esize]; try lia;
    repeat match goal with |- context [if ?c then _ else _] => destruct c end; cbn [esize]; lia.
Qed.

Theorem factor_expr_total ty e : exists e', factor_expr ty e = Some e'.
Proof.
  unfold factor_expr. apply map_top_down_total; [|lia].
  intros x. eexists; split; [reflexivity|]. apply factor_fn_size.
Qed.

Section FactorSem.
Variable G : grammar.
Variable extras : bool.
Variable uprop : name -> option (N -> bool).
Variable w : list byte.
Variable Inv : state_inv.
Hypothesis HP : preserved G extras uprop w (fun _ => True) Inv.
Notation equiv := (equiv G extras uprop w Inv).

Lemma body_atom_atomic ty a : atomic_ty ty = true -> body_atom ty a -> atom_eqb a NonAtomic = false.
Proof. destruct ty; cbn; try discriminate; intros _ ->; reflexivity. Qed.

Lemma factor_fn_equiv ty a e : body_atom ty a -> equiv a e (factor_fn ty e).
Proof.
  intros BA. destruct e; cbn [factor_fn]; try apply equiv_refl.
  destruct e1, e2; try apply equiv_refl;
    repeat match goal with
    | |- context [if expr_eqb ?x ?y then _ else _] => destruct (expr_eqb x y) eqn:?E
    | |- context [if atomic_ty ?t then _ else _] => destruct (atomic_ty t) eqn:?AT
    end; try apply equiv_refl;
    repeat match goal with E : expr_eqb _ _ = true |- _ => apply expr_eqb_eq in E; try subst end;
    try (apply factor_common); try (apply factor_absorb); try (apply factor_opt; eapply body_atom_atomic; eauto);
    try (match goal with E : _ = _ |- _ => rewrite <- E end; apply factor_opt; eapply body_atom_atomic; eauto);
    try (match goal with E : _ = _ |- _ => rewrite <- E end; apply factor_absorb).
Qed.

Theorem factor_expr_equiv ty a e e' : body_atom ty a -> factor_expr ty e = Some e' -> equiv a e e'.
Proof.
  unfold factor_expr. intros BA H.
  apply (map_top_down_equiv G extras uprop w (fun _ => True) Inv HP a (fun x => Some (factor_fn ty x))) in H.
  - tauto.
  - intros x y _ [= <-]. split; [now apply factor_fn_equiv|apply Forall_True].
  - apply Forall_True.
Qed.
End FactorSem.

Theorem factor_grammar G G' extras uprop w : map_rules factor_rule G = Some G' ->
  forall a emit j p sg res, bs G' extras uprop w a emit j p sg res <-> bs G extras uprop w a emit j p sg res.
Proof.
  intros H a emit j p sg res.
  assert (Fsig : forall r r', factor_rule r = Some r' -> rname r' = rname r /\ rty r' = rty r) by (intros r r'; apply with_expr_sig).
  assert (Law : forall Gx r r' a0, factor_rule r = Some r' -> body_atom (rty r) a0 -> equiv Gx extras uprop w (fun _ _ => True) a0 (rexpr r) (rexpr r')).
  { intros Gx r r' a0 E BA. apply with_expr_inv in E. eapply factor_expr_equiv; [apply preserved_True|exact BA|exact E]. }
  split; intros B.
  - eapply (pass_backward G G' extras uprop w (fun _ => True) (fun _ _ => True) factor_rule); eauto using preserved_True, Forall_True', jvalid_True.
  - eapply (pass_forward G G' extras uprop w (fun _ => True) (fun _ _ => True) factor_rule); eauto using preserved_True, Forall_True', jvalid_True.
Qed.
