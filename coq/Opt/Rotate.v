(* Layer F: meta/src/optimizer/rotator.rs.  rotate_internal turns left-nested sequences/choices into
   right-nested ones at the node it is applied to; map_top_down applies it to every node on the way down. *)
From Coq Require Import List Arith NArith ZArith Bool.
Import ListNotations.
Require Import PV.Comb.PState PV.Peg.Ast PV.Opt.MapExpr.

(* rotate_internal(Seq(lhs, rhs)): while lhs is itself Seq(ll, lr), continue with Seq(ll, Seq(lr, rhs)) *)
Fixpoint rot_seq (lhs rhs : expr) : expr :=
  match lhs with
  | ESeq ll lr => rot_seq ll (ESeq lr rhs)
  | _ => ESeq lhs rhs
  end.
Fixpoint rot_cho (lhs rhs : expr) : expr :=
  match lhs with
  | EChoice ll lr => rot_cho ll (EChoice lr rhs)
  | _ => EChoice lhs rhs
  end.
Definition rotate_internal (e : expr) : expr :=
  match e with
  | ESeq l r => rot_seq l r
  | EChoice l r => rot_cho l r
  | _ => e
  end.

Definition rotate_expr (e : expr) : option expr := map_top_down (S (esize e)) (fun x => Some (rotate_internal x)) e.
Definition rotate_rule (r : rule) : option rule := with_expr r (rotate_expr (rexpr r)).
