(* The lister rewrite `(l1 ~ l2)* ~ l1  =>  l1 ~ (l2 ~ l1)*` is NOT meaning-preserving: refuted on Layer S by
   evaluation.  What can be said: where the rewrite does not fire the pass is the identity.                 *)
From Coq Require Import List Arith NArith ZArith Bool String Lia.
Import ListNotations.
Require Import PV.Comb.PState PV.Comb.Bytes PV.Iter.Queue PV.Peg.Ast PV.Peg.Spec PV.Opt.MapExpr PV.Opt.MapExprProofs PV.Opt.List.

(* r = { ("a" ~ "b")* ~ "a" } on "abab" *)
Definition lister_G : grammar :=
  [{| rname := nm "r"; rty := RNormal; rexpr := ESeq (ERep (ESeq (EStr (nm "a")) (EStr (nm "b")))) (EStr (nm "a")) |}].
Definition lister_input : list byte := nm "abab".

Theorem lister_refuted :
  exists G G' w fuel, map_rules list_rule G = Some G' /\
    eval G false (fun _ => None) w fuel NonAtomic true (EIdent (nm "r")) 0 [] = SFail /\
    eval G' false (fun _ => None) w fuel NonAtomic true (EIdent (nm "r")) 0 [] = SMatch 3 [] [Node 0 None 0 3 []].
Proof.
  exists lister_G, [{| rname := nm "r"; rty := RNormal; rexpr := ESeq (EStr (nm "a")) (ERep (ESeq (EStr (nm "b")) (EStr (nm "a")))) |}],
         lister_input, 20.
  split; [vm_compute; reflexivity|]. split; vm_compute; reflexivity.
Qed.

(* the same with grammar-extras (the rewrite does not depend on the feature set) *)
Theorem lister_refuted_extras :
  exists G G' w fuel, map_rules list_rule G = Some G' /\
    eval G true (fun _ => None) w fuel NonAtomic true (EIdent (nm "r")) 0 [] = SFail /\
    (exists p sg f, eval G' true (fun _ => None) w fuel NonAtomic true (EIdent (nm "r")) 0 [] = SMatch p sg f).
Proof.
  exists lister_G, [{| rname := nm "r"; rty := RNormal; rexpr := ESeq (EStr (nm "a")) (ERep (ESeq (EStr (nm "b")) (EStr (nm "a")))) |}],
         lister_input, 20.
  split; [vm_compute; reflexivity|]. split; [vm_compute; reflexivity|]. eexists _, _, _. vm_compute. reflexivity.
Qed.

(* outside the class: the pass does nothing *)
Lemma expr_eqb_refl : forall e, expr_eqb e e = true.
Proof.
  assert (S : forall s, str_eqb s s = true) by (induction s; cbn; auto; now rewrite N.eqb_refl).
  assert (SS : forall l, strs_eqb l l = true) by (induction l; cbn; auto; now rewrite S).
  induction e; cbn [expr_eqb]; rewrite ?S, ?SS, ?N.eqb_refl, ?Z.eqb_refl, ?IHe, ?IHe1, ?IHe2; auto.
  destruct j; cbn; auto using Z.eqb_refl.
Qed.

Lemma lister_identity G : lister_applies G = false -> map_rules list_rule G = Some G.
Proof.
  induction G as [|r G IH]; cbn [lister_applies existsb map_rules]; [reflexivity|].
  intros H. apply orb_false_iff in H. destruct H as [H1 H2]. unfold lister_applies_rule in H1.
  unfold list_rule at 1. unfold with_expr. destruct (list_expr (rexpr r)) as [e|]; [|discriminate].
  apply negb_false_iff in H1. apply expr_eqb_eq in H1. subst e. cbn [option_map obind].
  unfold lister_applies in IH. rewrite (IH H2). cbn [obind]. destruct r; reflexivity.
Qed.
