(* unroll preserves the documented meaning (bounded repetitions are defined by their unrolling; e+ is e ~ e* without
   grammar-extras and a primitive with it), and it returns normally for counts the grammar reader accepts.   *)
From Coq Require Import List Arith NArith ZArith Bool String Lia.
Import ListNotations.
Require Import PV.Comb.PState PV.Comb.Bytes PV.Iter.Queue PV.Peg.Ast PV.Peg.Spec PV.Opt.Sem PV.Opt.SemProofs PV.Opt.SemCong
  PV.Opt.SemTransfer PV.Opt.SemLaws PV.Opt.MapExpr PV.Opt.MapExprProofs PV.Opt.PassProofs PV.Opt.Unroll.

Section UnrollSem.
Variable ovf : bool.
Variable G : grammar.
Variable extras : bool.
Variable uprop : name -> option (N -> bool).
Variable w : list byte.
Variable Inv : state_inv.
Hypothesis HP : preserved G extras uprop w (fun _ => True) Inv.
Notation equiv := (equiv G extras uprop w Inv).
Notation bs := (bs G extras uprop w).

Lemma bounded_equiv a e u : is_bounded e = true -> unroll_node extras e = Some u -> equiv a e u.
Proof.
  intros B U. split; intros emit p sg res _ H.
  - inversion H; subst; clear H; try (cbn in B; discriminate B);
      try (match goal with L : leaf _ _ = true |- _ => destruct e; discriminate end); congruence.
  - eapply bs_bounded; eauto.
Qed.

Lemma reponce_equiv a x : extras = false -> equiv a (ERepOnce x) (ESeq x (ERep x)).
Proof.
  intros X. split; intros emit p sg res _ H.
  - inv H; try (rewrite X in *; discriminate). assumption.
  - apply bs_rep1d; [now rewrite X|assumption].
Qed.

Lemma unroll_fn_equiv a e u : unroll_fn ovf extras e = Some u -> equiv a e u.
Proof.
  destruct e; cbn [unroll_fn]; try (cbn [unroll_node]; intros [= <-]; apply equiv_refl).
  - cbn [unroll_node]. assert (K : forall v, (if extras then Some (ERepOnce e) else Some (ESeq e (ERep e))) = Some v ->
                 v = ERepOnce e \/ (extras = false /\ v = ESeq e (ERep e))) by (destruct extras; intros v [= <-]; auto).
    intros H. destruct (K _ H) as [->|[X ->]]; [apply equiv_refl|now apply reponce_equiv].
  - destruct (negb ovf || fits _); [|discriminate]. now apply bounded_equiv.
  - destruct (negb ovf || fits _); [|discriminate]. now apply bounded_equiv.
  - destruct (negb ovf || fits _); [|discriminate]. now apply bounded_equiv.
  - destruct (negb ovf || fits _); [|discriminate]. now apply bounded_equiv.
Qed.

Theorem unroll_expr_equiv a e e' : unroll_expr ovf extras e = Some e' -> equiv a e e'.
Proof.
  unfold unroll_expr. intros H.
  apply (map_bottom_up_equiv G extras uprop w (fun _ => True) Inv HP a (unroll_fn ovf extras)) in H.
  - tauto.
  - intros x y _ E. split; [now apply unroll_fn_equiv|apply Forall_True].
  - apply Forall_True.
Qed.
End UnrollSem.

Theorem unroll_grammar ovf G G' extras uprop w : map_rules (unroll_rule ovf extras) G = Some G' ->
  forall a emit j p sg res, bs G' extras uprop w a emit j p sg res <-> bs G extras uprop w a emit j p sg res.
Proof.
  intros H a emit j p sg res.
  assert (Fsig : forall r r', unroll_rule ovf extras r = Some r' -> rname r' = rname r /\ rty r' = rty r) by (intros r r'; apply with_expr_sig).
  assert (Law : forall Gx r r' a0, unroll_rule ovf extras r = Some r' -> equiv Gx extras uprop w (fun _ _ => True) a0 (rexpr r) (rexpr r')).
  { intros Gx r r' a0 E. apply with_expr_inv in E. eapply unroll_expr_equiv; [apply preserved_True|exact E]. }
  split; intros B.
  - eapply (pass_backward G G' extras uprop w (fun _ => True) (fun _ _ => True) (unroll_rule ovf extras)); eauto using preserved_True, Forall_True', jvalid_True.
  - eapply (pass_forward G G' extras uprop w (fun _ => True) (fun _ _ => True) (unroll_rule ovf extras)); eauto using preserved_True, Forall_True', jvalid_True.
Qed.

(* ---------- no panic: counts as the grammar reader produces them (non-zero where required, below u32::MAX) ---------- *)
Fixpoint counts_ok (e : expr) : bool :=
  match e with
  | ERepExact x n | ERepMax x n => counts_ok x && (0 <? n)%N && (n <? u32_max)%N
  | ERepMin x n => counts_ok x && (n + 1 <? u32_max)%N
  | ERepMinMax x _ n => counts_ok x && (0 <? n)%N && (n <? u32_max)%N
  | EPosPred x | ENegPred x | EOpt x | ERep x | ERepOnce x | EPush x | ENodeTag x _ => counts_ok x
  | ESeq a b | EChoice a b => counts_ok a && counts_ok b
  | _ => true
  end.

Lemma seq_of_nonempty l : l <> [] -> exists u, seq_of l = Some u.
Proof. destruct l as [|e r]; [congruence|]. intros _. destruct r as [|e2 r]; cbn [seq_of]; [eauto|]. destruct (match r with [] => _ | _ => _ end); eauto. Qed.

Lemma repeat_nonempty {A} (x : A) n : 0 < n -> repeat x n <> [].
Proof. destruct n; [lia|]. discriminate. Qed.

Theorem unroll_expr_total ovf extras e : counts_ok e = true -> exists e', unroll_expr ovf extras e = Some e'.
Proof.
  unfold unroll_expr.
  induction e; cbn [counts_ok map_bottom_up]; intros C;
    repeat (apply andb_true_iff in C; destruct C as [C ?]);
    try (cbn [obind unroll_fn unroll_node]; eexists; reflexivity);
    try (destruct (IHe C) as [y ->]; cbn [option_map obind unroll_fn unroll_node]);
    try (eexists; reflexivity).
  - destruct (IHe1 C) as [y1 ->]. destruct (IHe2 H) as [y2 ->]. cbn. eexists; reflexivity.
  - destruct (IHe1 C) as [y1 ->]. destruct (IHe2 H) as [y2 ->]. cbn. eexists; reflexivity.
  - destruct extras; eexists; reflexivity.
  - apply N.ltb_lt in H, H0. unfold fits. replace (n + 1 <=? u32_max)%N with true by (symmetry; apply N.leb_le; lia). rewrite orb_true_r.
    apply seq_of_nonempty. apply repeat_nonempty. lia.
  - apply N.ltb_lt in H. unfold fits. replace (n + 2 <=? u32_max)%N with true by (symmetry; apply N.leb_le; lia). rewrite orb_true_r.
    apply seq_of_nonempty. unfold repeatn. destruct (repeat y (N.to_nat n)); discriminate.
  - apply N.ltb_lt in H, H0. unfold fits. replace (n + 1 <=? u32_max)%N with true by (symmetry; apply N.leb_le; lia). rewrite orb_true_r.
    apply seq_of_nonempty. apply repeat_nonempty. lia.
  - apply N.ltb_lt in H, H0. unfold fits. replace (n + 1 <=? u32_max)%N with true by (symmetry; apply N.leb_le; lia). rewrite orb_true_r.
    apply seq_of_nonempty. unfold repeatn. intros E. apply app_eq_nil in E. destruct E as [E1 E2].
    assert (L : List.length (repeat y (Nat.min (N.to_nat m) (N.to_nat n))) + List.length (repeat (EOpt y) (N.to_nat n - N.to_nat m)) = 0)
      by (rewrite E1, E2; reflexivity).
    rewrite !repeat_length in L. lia.
Qed.
