(* From a per-rule law to a grammar-level equivalence.  A pass maps every rule to a rule with the same name and
   type; if each new body is equivalent to the old one (at the atomicities the rule type allows, in both the old
   and the new grammar), then the old and the new grammar have the same derivations.                        *)
From Coq Require Import List Arith NArith ZArith Bool String Lia.
Import ListNotations.
Require Import PV.Comb.PState PV.Comb.Bytes PV.Iter.Queue PV.Peg.Ast PV.Peg.Spec PV.Opt.Sem PV.Opt.SemProofs PV.Opt.SemCong
  PV.Opt.SemTransfer PV.Opt.MapExpr.

(* the atomicities under which the body of a rule of type ty is evaluated *)
Definition body_atom (ty : rtype) (a : atom) : Prop :=
  match ty with RAtomic => a = Atomic | RCompound => a = CompoundAtomic | _ => True end.
Lemma rule_mode_body_atom sp ty a emit : body_atom ty (snd (rule_mode sp ty a emit)).
Proof. destruct sp, ty; cbn; auto. Qed.

Lemma map_rules_F2 (F : rule -> option rule) : forall G G', map_rules F G = Some G' -> Forall2 (fun r r' => F r = Some r') G G'.
Proof.
  induction G as [|r G IH]; intros G' H; cbn [map_rules] in H.
  - injection H as <-. constructor.
  - destruct (F r) as [r'|] eqn:E; [|discriminate]. cbn [obind] in H. destruct (map_rules F G) as [G''|]; [|discriminate].
    cbn [obind] in H. injection H as <-. constructor; auto.
Qed.

Section Sig.
Variable F : rule -> option rule.
Hypothesis Fsig : forall r r', F r = Some r' -> rname r' = rname r /\ rty r' = rty r.

Lemma F2_names G G' : Forall2 (fun r r' => F r = Some r') G G' -> map rname G' = map rname G.
Proof. induction 1; cbn; [reflexivity|]. destruct (Fsig _ _ H) as [-> _]. now rewrite IHForall2. Qed.

Lemma F2_find G G' : Forall2 (fun r r' => F r = Some r') G G' -> forall n,
  match find_rule G n, find_rule G' n with
  | Some r, Some r' => F r = Some r' /\ In r G
  | None, None => True
  | _, _ => False
  end.
Proof.
  induction 1 as [|r r' G G' Hr HG IH]; intros n; cbn [find_rule]; [exact I|].
  specialize (IH n). destruct (find_rule G n) as [x|], (find_rule G' n) as [x'|]; try contradiction.
  - destruct IH as [A B]. split; [exact A|now right].
  - destruct (Fsig _ _ Hr) as [-> _]. destruct (str_eqb (rname r) n); [split; [exact Hr|now left]|exact I].
Qed.

Lemma F2_length {A B} (R : A -> B -> Prop) l l' : Forall2 R l l' -> List.length l = List.length l'.
Proof. induction 1; cbn; auto. Qed.
Lemma F2_rule_id G G' : Forall2 (fun r r' => F r = Some r') G G' -> forall n, rule_id G' n = rule_id G n.
Proof. intros H n. unfold rule_id, rule_names. rewrite (F2_names _ _ H). now rewrite (F2_length _ _ _ H). Qed.
End Sig.

Section Pass.
Variables G G' : grammar.
Variable extras : bool.
Variable uprop : name -> option (N -> bool).
Variable w : list byte.
Variable Q : str -> Prop.
Variable Inv : state_inv.
Variable F : rule -> option rule.
Hypothesis Fsig : forall r r', F r = Some r' -> rname r' = rname r /\ rty r' = rty r.
Hypothesis HF : map_rules F G = Some G'.
Hypothesis HP : preserved G extras uprop w Q Inv.
Hypothesis HP' : preserved G' extras uprop w Q Inv.
Hypothesis HQ : forall r, In r G -> Forall Q (estrs (rexpr r)).
Hypothesis HQ' : forall r, In r G' -> Forall Q (estrs (rexpr r)).
Hypothesis LawG : forall r r' a, In r G -> F r = Some r' -> body_atom (rty r) a -> equiv G extras uprop w Inv a (rexpr r) (rexpr r').
Hypothesis LawG' : forall r r' a, In r G -> F r = Some r' -> body_atom (rty r) a -> equiv G' extras uprop w Inv a (rexpr r) (rexpr r').

Lemma find_rule_In g n r : find_rule g n = Some r -> In r g.
Proof.
  induction g as [|x g IH]; cbn [find_rule]; [discriminate|].
  destruct (find_rule g n) as [y|]; [intros [= <-]; right; now apply IH|].
  destruct (str_eqb (rname x) n); [intros [= <-]; now left|discriminate].
Qed.

Theorem pass_forward a emit j p sg res : bs G extras uprop w a emit j p sg res -> jvalid Q j -> Inv p sg -> bs G' extras uprop w a emit j p sg res.
Proof.
  pose proof (map_rules_F2 _ _ _ HF) as F2.
  refine (transfer G G' extras uprop w Q Inv _ _ HP _ _ a emit j p sg res).
  - intros n. pose proof (F2_find F Fsig _ _ F2 n) as X. destruct (find_rule G n), (find_rule G' n); auto.
    destruct X as [X _]. destruct (Fsig _ _ X) as [_ T]. now rewrite T.
  - intros n. symmetry. now apply (F2_rule_id F Fsig).
  - intros n r Fr. apply HQ. eapply find_rule_In; eauto.
  - intros n r1 r2 a0 emit0 F1 F2'. pose proof (F2_find F Fsig _ _ F2 n) as X. rewrite F1, F2' in X. destruct X as [X Y].
    apply (LawG' r1 r2); auto. apply rule_mode_body_atom.
Qed.

Theorem pass_backward a emit j p sg res : bs G' extras uprop w a emit j p sg res -> jvalid Q j -> Inv p sg -> bs G extras uprop w a emit j p sg res.
Proof.
  pose proof (map_rules_F2 _ _ _ HF) as F2.
  refine (transfer G' G extras uprop w Q Inv _ _ HP' _ _ a emit j p sg res).
  - intros n. pose proof (F2_find F Fsig _ _ F2 n) as X. destruct (find_rule G n), (find_rule G' n); auto.
    destruct X as [X _]. destruct (Fsig _ _ X) as [_ T]. now rewrite T.
  - intros n. now apply (F2_rule_id F Fsig).
  - intros n r Fr. apply HQ'. eapply find_rule_In; eauto.
  - intros n r1 r2 a0 emit0 F1 F2'. pose proof (F2_find F Fsig _ _ F2 n) as X. rewrite F1, F2' in X. destruct X as [X Y].
    destruct (Fsig _ _ X) as [_ T]. rewrite T.
    apply (LawG r2 r1); auto. apply rule_mode_body_atom.
Qed.

End Pass.

Lemma with_expr_sig r o r' : with_expr r o = Some r' -> rname r' = rname r /\ rty r' = rty r.
Proof. unfold with_expr. destruct o; [|discriminate]. intros [= <-]. auto. Qed.
Lemma with_expr_inv r o r' : with_expr r o = Some r' -> o = Some (rexpr r').
Proof. unfold with_expr. destruct o; [|discriminate]. intros [= <-]. reflexivity. Qed.

Lemma preserved_True G extras uprop w Q : preserved G extras uprop w Q (fun _ _ => True).
Proof. intros a emit j p sg p' sg' f _ _ _. exact I. Qed.
Lemma Forall_True' {A} (l : list A) : Forall (fun _ => True) l.
Proof. induction l; constructor; auto. Qed.
Lemma jvalid_True j : jvalid (fun _ => True) j.
Proof. destruct j; cbn; auto using Forall_True'. Qed.
