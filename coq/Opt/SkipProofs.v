(* skip preserves the documented meaning: in an atomic rule, (!(s1 | .. | sn) ~ ANY)* - with rule names among the
   alternatives inlined through the map of the original rules - advances char by char to the first boundary at which
   one of the strings is a prefix, which is what Skip [s1..sn] is defined to do (Comb.Utf8b.skip_until_basic_spec). *)
From Coq Require Import List Arith NArith ZArith Bool String Lia.
Import ListNotations.
Require Import PV.Comb.PState PV.Comb.Bytes PV.Comb.Utf8 PV.Comb.Utf8b PV.Iter.Queue PV.Peg.Ast PV.Peg.Spec
  PV.Opt.Sem PV.Opt.SemProofs PV.Opt.SemCong PV.Opt.SemTransfer PV.Opt.SemLaws PV.Opt.MapExpr PV.Opt.MapExprProofs PV.Opt.PassProofs
  PV.Opt.Boundary PV.Opt.ConcatProofs PV.Opt.Skip.

(* the shape populate_choices accepts: a right-nested choice of strings and rule names *)
Fixpoint pcs (e : expr) : Prop :=
  match e with
  | EStr _ | EIdent _ => True
  | EChoice (EStr _) r | EChoice (EIdent _) r => pcs r
  | _ => False
  end.

Lemma pc_pcs M : forall fuel e ch ss, populate_choices fuel M e ch = PcSkip ss -> pcs e.
Proof.
  induction fuel as [|n IH]; intros e ch ss H; [discriminate|]. cbn [populate_choices] in H.
  destruct e; try discriminate; cbn [pcs]; auto.
  destruct e1; try discriminate.
  - eapply IH; eauto.
  - destruct (map_get M n0); [|discriminate]. destruct (populate_choices n M e [] ) eqn:E; try discriminate. eapply IH; eauto.
Qed.

(* skip_fn leaves such expressions alone, at every depth *)
Lemma pcs_skip_fixed M : forall fuel e, esize e < fuel -> pcs e -> map_top_down fuel (skip_fn M) e = Some e.
Proof.
  induction fuel as [|n IH]; intros e L P; [lia|]. cbn [map_top_down].
  destruct e; cbn [pcs] in P; try contradiction; cbn [skip_fn obind]; auto.
  destruct e1; try contradiction; cbn [pcs] in P; cbn [esize] in L.
  - rewrite (IH (EStr s)) by (cbn; auto; lia). rewrite (IH e2) by (auto; lia). reflexivity.
  - rewrite (IH (EIdent n0)) by (cbn; auto; lia). rewrite (IH e2) by (auto; lia). reflexivity.
Qed.

Section SkipSem.
Variable M : grammar.          (* the HashMap handed to the skipper: the rules before optimization *)
Variable G : grammar.          (* the grammar under which expressions are evaluated *)
Variable extras : bool.
Variable uprop : name -> option (N -> bool).
Variable w : list byte.
Hypothesis Vw : valid_utf8 w.

(* G agrees with M on every rule that populate_choices can inline, and such a name is really a rule call *)
Definition agrees : Prop := forall n body, map_get M n = Some body -> pcs body ->
  exists r, find_rule G n = Some r /\ rexpr r = body /\ builtin_name n = false.
Hypothesis HA : agrees.

Notation bs := (bs G extras uprop w).
Definition hits (ss : list str) (p : nat) : bool := existsb (fun s => prefixb s (skipn p w)) ss.

Lemma hits_app a b p : hits (a ++ b) p = hits a p || hits b p.
Proof. unfold hits. apply existsb_app. Qed.

(* what a choice of strings means under a look-ahead (emit = false) *)
Definition pc_meaning (e : expr) (ss : list str) : Prop :=
  forall a p sg, if hits ss p then exists q sg' f, bs a false (JE e) p sg (SMatch q sg' f) else bs a false (JE e) p sg SFail.

Lemma str_meaning s : pc_meaning (EStr s) [s].
Proof.
  intros a p sg. unfold hits. cbn [existsb]. rewrite orb_false_r.
  pose proof (bs_leaf G extras uprop w a false (EStr s) p sg eq_refl) as B. cbn [Spec.eval] in B. unfold lit in B.
  destruct (prefixb s (skipn p w)); eauto.
Qed.

Lemma call_meaning n body ss : map_get M n = Some body -> pcs body -> pc_meaning body ss -> pc_meaning (EIdent n) ss.
Proof.
  intros Hm P HB a p sg. destruct (HA _ _ Hm P) as (r & F & <- & NB).
  assert (C : calls_rule G n = true) by (unfold calls_rule, has_rule; now rewrite NB, F).
  specialize (HB (snd (rule_mode (is_special n) (rty r) a false)) p sg).
  destruct (hits ss p).
  - destruct HB as (q & sg' & f & HB). pose proof (bs_call G extras uprop w a false n r p sg _ C F HB) as B. cbn in B. eauto.
  - exact (bs_call G extras uprop w a false n r p sg _ C F HB).
Qed.

Lemma cho_meaning l r sl sr : pc_meaning l sl -> pc_meaning r sr -> pc_meaning (EChoice l r) (sl ++ sr).
Proof.
  intros Hl Hr a p sg. rewrite hits_app. specialize (Hl a p sg). specialize (Hr a p sg).
  destruct (hits sl p); cbn [orb].
  - destruct Hl as (q & sg' & f & B). exists q, sg', f. now apply bs_cho_l.
  - destruct (hits sr p).
    + destruct Hr as (q & sg' & f & B). exists q, sg', f. now apply bs_cho_r.
    + now apply bs_cho_r.
Qed.

Lemma pc_sem : forall fuel e ch ss, populate_choices fuel M e ch = PcSkip ss -> exists ss0, ss = ch ++ ss0 /\ pc_meaning e ss0.
Proof.
  induction fuel as [|n IH]; intros e ch ss H; [discriminate|]. cbn [populate_choices] in H.
  destruct e; try discriminate.
  - injection H as <-. exists [s]. split; [reflexivity|apply str_meaning].
  - destruct (map_get M n0) as [body|] eqn:Hm; [|discriminate].
    destruct (IH _ _ _ H) as (ss0 & -> & Hb). exists ss0. split; [reflexivity|].
    eapply call_meaning; eauto. eapply pc_pcs; eauto.
  - destruct e1; try discriminate.
    + destruct (IH _ _ _ H) as (ss0 & -> & Hb). exists (s :: ss0). split; [now rewrite <- app_assoc|].
      apply (cho_meaning (EStr s) e2 [s] ss0); [apply str_meaning|exact Hb].
    + destruct (map_get M n0) as [body|] eqn:Hm; [|discriminate].
      destruct (populate_choices n M body []) as [inl| |] eqn:E; try discriminate.
      destruct (IH _ _ _ E) as (si & -> & Hi). cbn [app] in *.
      destruct (IH _ _ _ H) as (ss0 & -> & Hb). exists (si ++ ss0). split; [now rewrite <- app_assoc|].
      apply cho_meaning; [|exact Hb]. eapply call_meaning; eauto. eapply pc_pcs; eauto.
Qed.

(* ---------- the scan: positions ---------- *)
Lemma from_skip ss : forall k from count, (forall i, i < k -> hit w ss (from + i) = false) -> k <= count ->
  skip_until_basic_from w ss from count = skip_until_basic_from w ss (from + k) (count - k).
Proof.
  induction k as [|k IH]; intros from count H L.
  - now rewrite Nat.add_0_r, Nat.sub_0_r.
  - destruct count as [|count]; [lia|]. cbn [skip_until_basic_from]. fold (hit w ss from).
    rewrite <- (Nat.add_0_r from) at 1. rewrite (H 0) by lia.
    rewrite (IH (S from) count); [f_equal; lia| |lia]. intros i Hi. replace (S from + i) with (from + S i) by lia. apply H. lia.
Qed.

Lemma inside_char q c l' i : q <= List.length w -> skipn q w = encode c ++ l' -> scalar c -> 0 < i < List.length (encode c) ->
  boundaryb w (q + i) = false.
Proof.
  intros Lq E Hc Hi. rewrite <- (firstn_skipn q w), E. rewrite boundaryb_app_ge; rewrite firstn_length_le by lia; [|lia].
  replace (q + i - q) with i by lia. apply boundaryb_inside; [now apply scalar_lt|exact Hi].
Qed.

(* the scan started on a boundary: stop here on a hit or at the end, otherwise go on behind the char *)
Lemma scan_here ss q : boundaryb w q = true -> hits ss q = true -> skip_until_basic w q ss = q.
Proof.
  intros B H. unfold skip_until_basic. pose proof (boundaryb_le _ _ B) as L.
  destruct (List.length w - q) as [|k] eqn:E; cbn [skip_until_basic_from]; [lia|]. unfold hits in H. now rewrite B, H.
Qed.
Lemma scan_end ss : skip_until_basic w (List.length w) ss = List.length w.
Proof. unfold skip_until_basic. now rewrite Nat.sub_diag. Qed.
Lemma scan_next ss q c l' : boundaryb w q = true -> hits ss q = false -> skipn q w = encode c ++ l' -> scalar c ->
  skip_until_basic w q ss = skip_until_basic w (q + List.length (encode c)) ss.
Proof.
  intros B H E Hc. pose proof (boundaryb_le _ _ B) as L. unfold skip_until_basic.
  assert (Ln : List.length (encode c) <= List.length w - q).
  { assert (X : List.length (skipn q w) = List.length (encode c ++ l')) by now rewrite E. rewrite skipn_length, app_length in X. lia. }
  rewrite (from_skip ss (List.length (encode c)) q (List.length w - q)); [f_equal; lia| |exact Ln].
  intros i Hi. unfold hit. destruct i as [|i].
  - rewrite Nat.add_0_r. unfold hits in H. now rewrite H, andb_false_r.
  - rewrite (inside_char q c l' (S i)); auto; lia.
Qed.

(* ---------- the scan: derivations ---------- *)
Section Loop.
Variable c : expr.
Variable ss : list str.
Hypothesis Hc : pc_meaning c ss.
Notation ANY := (EIdent (nm "ANY")).
Notation X := (ESeq (ENegPred c) ANY).

Lemma any_leaf : leaf G ANY = true. Proof. reflexivity. Qed.

Lemma neg_fail emit q sg : hits ss q = true -> bs Atomic emit (JE (ENegPred c)) q sg SFail.
Proof.
  intros H. specialize (Hc Atomic q sg). rewrite H in Hc. destruct Hc as (q' & sg' & f & B).
  exact (bs_neg G extras uprop w Atomic emit c q sg _ B).
Qed.
Lemma neg_ok emit q sg : hits ss q = false -> bs Atomic emit (JE (ENegPred c)) q sg (SMatch q sg []).
Proof. intros H. specialize (Hc Atomic q sg). rewrite H in Hc. exact (bs_neg G extras uprop w Atomic emit c q sg _ Hc). Qed.

Lemma any_at emit q sg : bs Atomic emit (JE ANY) q sg
  (match decode1 (skipn q w) with Some (_, n) => SMatch (q + n) sg [] | None => SFail end).
Proof.
  eapply bs_res; [apply bs_leaf; apply any_leaf|]. cbn. unfold one_char, char_here. destruct (decode1 (skipn q w)) as [[ch n]|]; reflexivity.
Qed.

Lemma x_fail_hit emit q sg : hits ss q = true -> bs Atomic emit (JE X) q sg SFail.
Proof. intros H. apply bs_seq_l. now apply neg_fail. Qed.
Lemma x_fail_end emit sg : hits ss (List.length w) = false -> bs Atomic emit (JE X) (List.length w) sg SFail.
Proof.
  intros H. eapply bs_seq_r_fail; [now apply neg_ok|now apply bs_skip_atomic|].
  eapply bs_res; [apply any_at|]. now rewrite skipn_all.
Qed.
Lemma x_step emit q sg ch l' : hits ss q = false -> skipn q w = encode ch ++ l' -> scalar ch ->
  bs Atomic emit (JE X) q sg (SMatch (q + List.length (encode ch)) sg []).
Proof.
  intros H E Hs. eapply bs_res; [eapply bs_seq_ok; [now apply neg_ok|now apply bs_skip_atomic|]|reflexivity].
  eapply bs_res; [apply any_at|]. rewrite E, decode1_encode_scalar by assumption. reflexivity.
Qed.

Lemma rep_scan emit sg acc : forall k q, List.length w - q <= k -> boundaryb w q = true ->
  bs Atomic emit (JRep X acc) q sg (SMatch (skip_until_basic w q ss) sg acc).
Proof.
  induction k as [|k IH]; intros q Lk B; pose proof (boundaryb_le _ _ B) as Lq.
  - assert (q = List.length w) as -> by lia. rewrite scan_end.
    destruct (hits ss (List.length w)) eqn:H.
    + eapply bs_rep_stop; [now apply bs_skip_atomic|now apply x_fail_hit].
    + eapply bs_rep_stop; [now apply bs_skip_atomic|now apply x_fail_end].
  - destruct (hits ss q) eqn:H.
    + rewrite scan_here by assumption. eapply bs_rep_stop; [now apply bs_skip_atomic|now apply x_fail_hit].
    + destruct (char_at_valid w q Vw B) as [[E _]|(ch & l' & Hs & E & V' & _ & B')].
      * subst q. rewrite scan_end. eapply bs_rep_stop; [now apply bs_skip_atomic|now apply x_fail_end].
      * rewrite (scan_next ss q ch l') by assumption.
        eapply bs_rep_step; [now apply bs_skip_atomic|eapply x_step; eauto|].
        rewrite app_nil_r. apply IH; [|exact B']. pose proof (encode_length ch). lia.
Qed.

Lemma skip_law emit p sg : boundaryb w p = true ->
  bs Atomic emit (JE (ERep X)) p sg (SMatch (skip_until_basic w p ss) sg []).
Proof.
  intros B. pose proof (boundaryb_le _ _ B) as Lp.
  destruct (hits ss p) eqn:H.
  - rewrite scan_here by assumption. apply bs_rep_0. now apply x_fail_hit.
  - destruct (char_at_valid w p Vw B) as [[E _]|(ch & l' & Hs & E & V' & _ & B')].
    + subst p. rewrite scan_end. apply bs_rep_0. now apply x_fail_end.
    + rewrite (scan_next ss p ch l') by assumption.
      eapply bs_rep; [eapply x_step; eauto|]. apply (rep_scan emit sg [] (List.length w)); [lia|exact B'].
Qed.

(* (!(c) ~ ANY)*  =  Skip ss, from every boundary *)
Theorem skip_equiv : equiv G extras uprop w (on_boundary w) Atomic (ERep X) (ESkip ss).
Proof.
  split; intros emit p sg res [B _] H.
  - pose proof (bs_deterministic _ _ _ _ _ _ _ _ _ _ _ H (skip_law emit p sg B)) as ->.
    eapply bs_res; [now apply bs_leaf|reflexivity].
  - apply (leaf_inv G extras uprop w) in H; [|reflexivity]. subst res. now apply skip_law.
Qed.
End Loop.

(* ---------- the node function and the traversal ---------- *)
Hypothesis VG : forall n r, find_rule G n = Some r -> Forall valid_utf8 (estrs (rexpr r)).
Hypothesis VM : forall n body, map_get M n = Some body -> Forall valid_utf8 (estrs body).

Lemma pc_lits : forall fuel e ch ss, populate_choices fuel M e ch = PcSkip ss ->
  Forall valid_utf8 ch -> Forall valid_utf8 (estrs e) -> Forall valid_utf8 ss.
Proof.
  induction fuel as [|n IH]; intros e ch ss H Vc Ve; [discriminate|]. cbn [populate_choices] in H.
  destruct e; try discriminate.
  - injection H as <-. apply Forall_app; auto.
  - destruct (map_get M n0) as [body|] eqn:Hm; [|discriminate]. eapply IH; eauto.
  - cbn [estrs] in Ve. apply Forall_app in Ve. destruct Ve as [V1 V2]. destruct e1; try discriminate.
    + eapply IH; eauto. apply Forall_app; auto.
    + destruct (map_get M n0) as [body|] eqn:Hm; [|discriminate].
      destruct (populate_choices n M body []) as [inl| |] eqn:E; try discriminate.
      eapply IH; eauto. apply Forall_app; split; auto. eapply (IH body [] inl); eauto.
Qed.

Lemma skip_fn_equiv e e' : Forall valid_utf8 (estrs e) -> skip_fn M e = Some e' ->
  equiv G extras uprop w (on_boundary w) Atomic e e' /\ Forall valid_utf8 (estrs e').
Proof.
  intros V H. assert (Same : e' = e -> equiv G extras uprop w (on_boundary w) Atomic e e' /\ Forall valid_utf8 (estrs e'))
    by (intros ->; split; [apply equiv_refl|exact V]).
  destruct e; try (injection H as <-; now apply Same). cbn [skip_fn] in H.
  destruct e; try (injection H as <-; now apply Same).
  destruct e1; try (injection H as <-; now apply Same).
  destruct e2; try (injection H as <-; now apply Same).
  destruct (str_eqb n (nm "ANY")) eqn:EA; [|injection H as <-; now apply Same].
  apply str_eqb_eq in EA. subst n.
  destruct (populate_choices (pc_fuel M e1) M e1 []) as [ss| |] eqn:P; [|injection H as <-; now apply Same|discriminate].
  injection H as <-. destruct (pc_sem _ _ _ _ P) as (ss0 & -> & Hm). cbn [app]. split.
  - now apply skip_equiv.
  - cbn [estrs] in *. rewrite app_nil_r in V. exact (pc_lits _ _ _ _ P (Forall_nil _) V).
Qed.

Theorem skip_expr_equiv ty a e e' : body_atom ty a -> Forall valid_utf8 (estrs e) -> skip_expr M ty e = Some e' ->
  equiv G extras uprop w (on_boundary w) a e e' /\ Forall valid_utf8 (estrs e').
Proof.
  intros BA V H. unfold skip_expr in H. destruct (rtype_eqb ty RAtomic) eqn:T.
  - assert (a = Atomic) as -> by (destruct ty; try discriminate; exact BA).
    eapply (map_top_down_equiv G extras uprop w valid_utf8 (on_boundary w) (boundary_preserved G extras uprop w Vw VG) Atomic (skip_fn M)); eauto.
    intros x y Vx Hx. now apply skip_fn_equiv.
  - injection H as <-. split; [apply equiv_refl|exact V].
Qed.

End SkipSem.

(* ---------- grammar level ---------- *)
Lemma find_rule_name g : forall n r, find_rule g n = Some r -> rname r = n.
Proof.
  induction g as [|x g IH]; intros n r; cbn [find_rule]; [discriminate|].
  destruct (find_rule g n) as [y|] eqn:E; [intros [= <-]; now apply IH|].
  destruct (str_eqb (rname x) n) eqn:S; [intros [= <-]; now apply str_eqb_eq|discriminate].
Qed.

Definition names_ok' (G : grammar) : Prop := forall r, In r G -> builtin_name (rname r) = false.

Lemma agrees_self G : names_ok' G -> agrees G G.
Proof.
  intros N n body Hm _. unfold map_get in Hm. destruct (find_rule G n) as [r|] eqn:F; [|discriminate]. injection Hm as <-.
  exists r. split; [reflexivity|]. split; [reflexivity|]. rewrite <- (find_rule_name _ _ _ F). apply N. eapply find_rule_In; eauto.
Qed.

Lemma skip_rule_pcs M r r' : skip_rule M r = Some r' -> pcs (rexpr r) -> rexpr r' = rexpr r.
Proof.
  intros H P. apply with_expr_inv in H. unfold skip_expr in H. destruct (rtype_eqb (rty r) RAtomic); [|congruence].
  rewrite pcs_skip_fixed in H by (auto; lia). congruence.
Qed.

Lemma agrees_after_skip M G G' : map_rules (skip_rule M) G = Some G' -> agrees M G -> agrees M G'.
Proof.
  intros H A n body Hm P. destruct (A n body Hm P) as (r & F & E & NB).
  pose proof (F2_find (skip_rule M) (fun r r' => with_expr_sig r _ r') _ _ (map_rules_F2 _ _ _ H) n) as X. rewrite F in X.
  destruct (find_rule G' n) as [r'|]; [|contradiction]. destruct X as [X _].
  exists r'. split; [reflexivity|]. split; [|exact NB]. rewrite (skip_rule_pcs M r r' X); congruence.
Qed.

Lemma skip_gvalid M G G' : (forall n body, map_get M n = Some body -> Forall valid_utf8 (estrs body)) -> gvalid G ->
  map_rules (skip_rule M) G = Some G' -> gvalid G'.
Proof.
  intros VM V H. apply map_rules_F2 in H. induction H as [|r r' G G' Hr HG IH]; intros x Hx; [destruct Hx|].
  destruct Hx as [<-|Hx]; [|apply IH; auto; intros y Hy; apply V; now right].
  apply with_expr_inv in Hr. unfold skip_expr in Hr. destruct (rtype_eqb (rty r) RAtomic); [|injection Hr as <-; apply V; now left].
  eapply (map_top_down_lits valid_utf8 (skip_fn M)); [|apply V; now left|exact Hr].
  intros x y Vx Hxy.
  (* literals of a Skip node come from the alternatives and the inlined rules *)
  destruct x; try (injection Hxy as <-; exact Vx). cbn [skip_fn] in Hxy.
  destruct x; try (injection Hxy as <-; exact Vx). destruct x1; try (injection Hxy as <-; exact Vx). destruct x2; try (injection Hxy as <-; exact Vx).
  destruct (str_eqb n (nm "ANY")); [|injection Hxy as <-; exact Vx].
  destruct (populate_choices (pc_fuel M x1) M x1 []) as [ss| |] eqn:P; [|injection Hxy as <-; exact Vx|discriminate].
  injection Hxy as <-. cbn [estrs] in *. rewrite app_nil_r in Vx. exact (pc_lits M VM _ _ _ _ P (Forall_nil _) Vx).
Qed.

Theorem skip_grammar M G G' extras uprop w : valid_utf8 w ->
  (forall n body, map_get M n = Some body -> Forall valid_utf8 (estrs body)) -> gvalid G -> agrees M G ->
  map_rules (skip_rule M) G = Some G' ->
  forall a emit j p sg res, jvalid valid_utf8 j -> on_boundary w p sg ->
    (bs G' extras uprop w a emit j p sg res <-> bs G extras uprop w a emit j p sg res).
Proof.
  intros Vw VM V A H a emit j p sg res VJ I.
  assert (V' := skip_gvalid _ _ _ VM V H). assert (A' := agrees_after_skip _ _ _ H A).
  assert (VGf : forall Gx, gvalid Gx -> forall n r, find_rule Gx n = Some r -> Forall valid_utf8 (estrs (rexpr r)))
    by (intros Gx Vx n r F; apply Vx; eapply find_rule_In; eauto).
  assert (Fsig : forall r r', skip_rule M r = Some r' -> rname r' = rname r /\ rty r' = rty r) by (intros r r'; apply with_expr_sig).
  assert (Law : forall Gx, gvalid Gx -> agrees M Gx -> forall r r' a0, In r G -> skip_rule M r = Some r' -> body_atom (rty r) a0 ->
                 equiv Gx extras uprop w (on_boundary w) a0 (rexpr r) (rexpr r')).
  { intros Gx Vx Ax r r' a0 Hin E BA. apply with_expr_inv in E.
    eapply (skip_expr_equiv M Gx extras uprop w Vw Ax (VGf Gx Vx) VM); [exact BA|now apply V|exact E]. }
  split; intros B.
  - eapply (pass_backward G G' extras uprop w valid_utf8 (on_boundary w) (skip_rule M)); eauto using boundary_preserved.
  - eapply (pass_forward G G' extras uprop w valid_utf8 (on_boundary w) (skip_rule M)); eauto using boundary_preserved.
Qed.
