(* restore_on_err with fixes/C05-1 and C05-2 applied (fixpop = fixmap = true): every alternative of every restored rule
   fails clean.  Two parts:
   (A) child_modifies_state is a sound reachability analysis: when it answers `false` for e, the names in its final cache
       form a set closed under "the rule's body mentions only harmless nodes and names of the set" and e itself mentions
       only such nodes (depth-first search with a visited set; a `true` anywhere would have propagated to the answer);
   (B) an expression all of whose reachable nodes are harmless cannot fail with a modified stack, when run by the VM on the
       RESTORED rules (sequences, repetitions, look-aheads and RestoreOnErr restore by themselves: Comb.Contracts).      *)
From Coq Require Import List Arith NArith ZArith Bool String Lia.
Import ListNotations.
Require Import PV.Stack.Model PV.Stack.Proofs PV.Comb.PState PV.Comb.Bytes PV.Comb.Prog PV.Comb.Exec PV.Comb.Frame PV.Comb.Contracts
  PV.Peg.Ast PV.Peg.VmCompile PV.Opt.MapExpr PV.Opt.MapExprProofs PV.Opt.Restore PV.Opt.Statement.

(* ---------- (A) the analysis ---------- *)
Definition indom (c : ccache) (n : name) : Prop := cache_get c n <> None.

Definition node_ok (D : name -> Prop) (x : oexpr) : Prop :=
  match x with
  | OPush _ => False
  | OIdent n => str_eqb n (nm "DROP") = false /\ str_eqb n (nm "POP") = false /\ str_eqb n (nm "POP_ALL") = false /\ D n
  | _ => True
  end.
Definition nodes_ok (D : name -> Prop) (e : oexpr) : Prop := Forall (node_ok D) (oiter_top_down true e).

Lemma node_ok_mono (D D' : name -> Prop) x : (forall n, D n -> D' n) -> node_ok D x -> node_ok D' x.
Proof. intros H. destruct x; cbn; auto. intros (A & B & C & E). auto. Qed.
Lemma nodes_ok_mono (D D' : name -> Prop) l : (forall n, D n -> D' n) -> Forall (node_ok D) l -> Forall (node_ok D') l.
Proof. intros H F. eapply Forall_impl; [|exact F]. intros x. now apply node_ok_mono. Qed.

Lemma str_eqb_refl' s : str_eqb s s = true.
Proof. induction s; cbn; auto. now rewrite N.eqb_refl. Qed.
Lemma indom_set c n v m : indom c m -> indom (cache_set c n v) m.
Proof. unfold indom, cache_set. cbn. destruct (str_eqb n m); [discriminate|auto]. Qed.
Lemma indom_set_same c n v : indom (cache_set c n v) n.
Proof. unfold indom, cache_set. cbn. now rewrite str_eqb_refl'. Qed.
Lemma indom_set_inv c n v m : indom (cache_set c n v) m -> indom c m \/ str_eqb n m = true.
Proof. unfold indom, cache_set. cbn. destruct (str_eqb n m); auto. Qed.

Section Analysis.
Variable rules : ogrammar.

(* what a `false` answer establishes, relative to the cache before (c) and after (c') *)
Definition closed_new (c c' : ccache) : Prop :=
  forall n, indom c' n -> ~ indom c n -> forall b, omap_get rules n = Some b -> nodes_ok (indom c') b.
Definition false_post (l : list oexpr) (c c' : ccache) : Prop :=
  (forall n, indom c n -> indom c' n) /\ Forall (node_ok (indom c')) l /\ closed_new c c'.

Lemma false_post_trans x l c c1 c' : false_post [x] c c1 -> false_post l c1 c' -> false_post (x :: l) c c'.
Proof.
  intros (M1 & N1 & C1) (M2 & N2 & C2). split; [auto|]. split.
  - constructor; [|exact N2]. inversion N1; subst. eapply node_ok_mono; [|eassumption]. exact M2.
  - intros n I' NI b Hb. destruct (cache_get c1 n) as [v|] eqn:E.
    + assert (I1 : indom c1 n) by (unfold indom; congruence). eapply nodes_ok_mono; [exact M2|]. eapply C1; eauto.
    + eapply C2; eauto; unfold indom; congruence.
Qed.

Section Rec.
Variable rec : oexpr -> ccache -> option (bool * ccache).
Hypothesis Hrec : forall e c c', rec e c = Some (false, c') -> false_post (oiter_top_down true e) c c'.

Lemma visit_false x c c' : cms_visit true rules rec x c = Some (false, c') -> false_post [x] c c'.
Proof.
  assert (Triv : forall y, node_ok (indom c) y -> false_post [y] c c).
  { intros y Hy. split; [auto|]. split; [constructor; [exact Hy|constructor]|]. intros n I NI. contradiction. }
  destruct x; cbn [cms_visit]; try (intros [= <-]; apply Triv; exact I); try discriminate.
  destruct (str_eqb n (nm "DROP")) eqn:E1; [discriminate|]. destruct (str_eqb n (nm "POP")) eqn:E2; [discriminate|].
  cbn [andb]. destruct (str_eqb n (nm "POP_ALL")) eqn:E3; [discriminate|].
  destruct (cache_get c n) as [[cached|]|] eqn:G.
  - intros [= -> <-]. apply Triv. cbn. repeat split; auto. unfold indom. congruence.
  - intros [= <-]. split; [intros m; apply indom_set|]. split.
    + constructor; [|constructor]. cbn. repeat split; auto. apply indom_set_same.
    + intros m I' NI. apply indom_set_inv in I'. destruct I' as [I'|I']; [contradiction|].
      apply str_eqb_eq in I'. subst m. exfalso. apply NI. unfold indom. congruence.
  - set (c1 := cache_set c n None).
    assert (Fin : forall c2, false_post (match omap_get rules n with Some b => oiter_top_down true b | None => [] end) c1 c2 ->
                             false_post [OIdent n] c (cache_set c2 n (Some false))).
    { intros c2 (M & N & C). split; [intros m Im; apply indom_set, M, indom_set; exact Im|]. split.
      - constructor; [|constructor]. cbn. repeat split; auto. apply indom_set_same.
      - intros m I' NI b Hb. apply indom_set_inv in I'. destruct I' as [I'|I'].
        + destruct (cache_get c1 m) as [v|] eqn:Gm.
          * assert (I1 : indom c1 m) by (unfold indom; congruence). apply indom_set_inv in I1. destruct I1 as [I1|I1]; [contradiction|].
            apply str_eqb_eq in I1. subst m. rewrite Hb in N. eapply nodes_ok_mono; [|exact N]. intros k; apply indom_set.
          * eapply nodes_ok_mono; [intros k; apply indom_set|]. eapply C; eauto; unfold indom; congruence.
        + apply str_eqb_eq in I'. subst m. rewrite Hb in N. eapply nodes_ok_mono; [|exact N]. intros k; apply indom_set. }
    destruct (omap_get rules n) as [body|] eqn:Hm.
    + destruct (rec body c1) as [[[|] c2]|] eqn:R; try discriminate. intros [= <-]. apply Fin. now apply Hrec.
    + intros [= <-]. apply Fin. split; [auto|]. split; [constructor|]. intros m I' NI. contradiction.
Qed.

Lemma any_false : forall l c c', cms_any true rules rec l c = Some (false, c') -> false_post l c c'.
Proof.
  induction l as [|x l IH]; intros c c' H; cbn [cms_any] in H.
  - injection H as <-. split; [auto|]. split; [constructor|]. intros n I NI. contradiction.
  - destruct (cms_visit true rules rec x c) as [[[|] c1]|] eqn:V; try discriminate.
    eapply false_post_trans; [exact (visit_false _ _ _ V)|exact (IH _ _ H)].
Qed.
End Rec.

Lemma cms_false : forall fuel e c c', cms true true rules fuel e c = Some (false, c') -> false_post (oiter_top_down true e) c c'.
Proof.
  induction fuel as [|n IH]; intros e c c' H; [discriminate|]. cbn [cms] in H. eapply any_false; [|exact H]. exact IH.
Qed.

(* the top-level call starts from an empty cache: the final domain is closed *)
Theorem child_modifies_state_closed e : child_modifies_state true true rules e = false ->
  exists D : name -> Prop, nodes_ok D e /\ (forall n b, D n -> omap_get rules n = Some b -> nodes_ok D b).
Proof.
  unfold child_modifies_state. destruct (cms true true rules (cms_fuel rules) e []) as [[[|] c']|] eqn:H; try discriminate. intros _.
  destruct (cms_false _ _ _ _ H) as (M & N & C). exists (indom c'). split; [exact N|].
  intros n b Dn Hb. eapply C; eauto; unfold indom; cbn; congruence.
Qed.
End Analysis.

(* ---------- (B) harmless expressions fail clean ---------- *)
Definition safe_prim (o : prim) : bool :=
  match o with MStackPop | MStackMatchPop | MStackDrop => false | _ => true end.
Fixpoint safe_prog (p : prog) : bool :=
  match p with PPrim o => safe_prim o | POrElse a b => safe_prog a && safe_prog b | _ => false end.

Lemma apply_pres_err_stack s r t x : apply_pres s r t = RErr x -> stack x = stack s.
Proof.
  unfold apply_pres. destruct r as [p| |]; try discriminate.
  destruct t as [tk|]; [destruct (pa_enabled s)|]; intros [= <-]; auto.
  destruct (handle_token_core s (pos s) tk false) as [C _]. exact (c_stack _ _ C).
Qed.

Lemma peek_slice_err_stack s i j d x : peek_slice s i j d = RErr x -> stack x = stack s.
Proof.
  unfold peek_slice. destruct (constrain_idxs _ _ _) as [[a b]|]; [|now intros [= <-]].
  destruct (Nat.leb b a); [discriminate|]. destruct (match_all _ _ _); [discriminate|now intros [= <-]].
Qed.

Lemma safe_prim_err cfg o s x : safe_prim o = true -> exec_prim cfg o s = RErr x -> stack x = stack s.
Proof.
  destruct o; cbn [safe_prim exec_prim]; try discriminate; intros _.
  all: try (unfold st_match_string; apply apply_pres_err_stack).
  all: try apply peek_slice_err_stack.
  all: try (now intros [= <-]).
  all: try (destruct (skip_until _ _ _ _); discriminate).
  all: try (match goal with |- (if ?c then _ else _) = _ -> _ => destruct c; [discriminate|now intros [= <-]] end).
  all: try (destruct (peek (stack s)); [|discriminate]; unfold st_match_string; apply apply_pres_err_stack).
  all: try (destruct (negb _); [discriminate|]; destruct (queue s) as [|[]]; discriminate).
Qed.

Section Clean.
Variable cfg : config.
Variable RG : ogrammar.                               (* the rules the VM runs: the restored ones *)
Variable uranges : name -> option (list (N * N)).
Notation E := (vm_env RG uranges).
Notation vme := (vm_expr RG uranges).

Lemma safe_prog_err : forall p fuel s sa x, safe_prog p = true -> wf s -> Inv (stack s) sa -> exec cfg E fuel p s = RErr x -> stack x = stack s.
Proof.
  induction p; intros fuel s sa x S W I H; try discriminate; destruct fuel as [|fuel]; try discriminate; cbn [exec] in H.
  - eapply safe_prim_err; eauto.
  - cbn [safe_prog] in S. apply andb_true_iff in S. destruct S as [S1 S2].
    pose proof (exec_post cfg E fuel p1 s sa W I) as P.
    destruct (exec cfg E fuel p1 s) as [y|y|k|] eqn:E1; try discriminate.
    cbn in P. destruct P as (F & Wy & ay & Iy & _).
    rewrite (IHp2 fuel y ay x S2 Wy Iy H). eapply IHp1; eauto.
Qed.

(* wrappers that only pass a failure on *)
Lemma inc_call_stack s s1 : inc_call s = Some s1 -> stack s1 = stack s /\ (wf s -> wf s1).
Proof. intros H. destruct (inc_call_frame _ _ H) as (_ & A & B & _ & C & _). split; [exact A|]. unfold wf. congruence. Qed.

Lemma rule_err_stack r fr s x : rule_err r fr s = RErr x -> stack x = stack s.
Proof.
  unfold rule_err. destruct (negb (lk_eqb (lookahead s) LNeg)).
  - set (t := track s r (rf_pos fr) (rf_pai fr) (rf_nai fr) (rf_attempts fr)).
    pose proof (track_same s r (rf_pos fr) (rf_pai fr) (rf_nai fr) (rf_attempts fr)) as T. fold t in T.
    destruct (pa_enabled t).
    + destruct (try_add_rule_to_stack t r (rf_csn fr) (rf_max fr)) as [y|] eqn:Y; [|discriminate].
      apply try_add_rule_to_stack_core in Y. intros [= <-]. destruct (emits y); cbn; rewrite (c_stack _ _ Y); exact (t_stack _ _ T).
    + intros [= <-]. destruct (emits t); cbn; exact (t_stack _ _ T).
  - intros [= <-]. destruct (emits s); reflexivity.
Qed.
Lemma rule_ok_not_err r fr s x : rule_ok r fr s <> RErr x.
Proof.
  unfold rule_ok. destruct (emits _).
  - destruct (set_start_end _ _ _); [|discriminate]. destruct (pa_enabled _); [|discriminate].
    destruct (try_add_rule_to_stack _ _ _ _); discriminate.
  - destruct (pa_enabled _); [|discriminate]. destruct (try_add_rule_to_stack _ _ _ _); discriminate.
Qed.

Lemma prule_err fuel r p s x : exec cfg E (S fuel) (PRule r p) s = RErr x -> wf s ->
  x = s \/ exists s2 s3, exec cfg E fuel p s2 = RErr s3 /\ stack s2 = stack s /\ wf s2 /\ stack x = stack s3.
Proof.
  cbn [exec]. intros H W. destruct (inc_call s) as [s1|] eqn:Ei; [|left; now injection H].
  destruct (inc_call_stack _ _ Ei) as [S1 W1]. right.
  destruct (rule_enter s1) as [fr s2] eqn:Er.
  destruct (rule_enter_spec s1) as (_ & _ & _ & _ & _ & SQ). rewrite Er in SQ. cbn [snd] in SQ.
  destruct (exec cfg E fuel p s2) as [y|y|k|] eqn:Ex; try discriminate.
  - exfalso. eapply rule_ok_not_err; eauto.
  - exists s2, y. split; [exact Ex|]. split; [rewrite (q_stack _ _ SQ); exact S1|]. split.
    + unfold wf. rewrite (q_pos _ _ SQ), (q_input _ _ SQ). now apply W1.
    + eapply rule_err_stack; eauto.
Qed.

Lemma patomic_err fuel a0 p s x : exec cfg E (S fuel) (PAtomic a0 p) s = RErr x -> wf s ->
  x = s \/ exists s2 s3, exec cfg E fuel p s2 = RErr s3 /\ stack s2 = stack s /\ wf s2 /\ stack x = stack s3.
Proof.
  cbn [exec]. intros H W. destruct (inc_call s) as [s1|] eqn:Ei; [|left; now injection H].
  destruct (inc_call_stack _ _ Ei) as [S1 W1]. right.
  set (s2 := if negb (atom_eqb (atomicity s1) a0) then set_atomicity s1 a0 else s1) in *.
  assert (E2 : stack s2 = stack s1 /\ wf s2) by (unfold s2; destruct (negb _); cbn; split; auto; now apply W1).
  destruct (exec cfg E fuel p s2) as [y|y|k|] eqn:Ex; try discriminate.
  exists s2, y. split; [exact Ex|]. split; [destruct E2; congruence|]. split; [tauto|].
  injection H as <-. destruct (negb _); reflexivity.
Qed.

Lemma proe_err fuel p s a x : wf s -> Inv (stack s) a -> exec cfg E fuel (PRestoreOnErr p) s = RErr x -> cache (stack x) = cache (stack s).
Proof.
  intros W I H. destruct fuel as [|fuel]; [discriminate|]. cbn [exec] in H.
  assert (I1 : Inv (stack (checkpoint s)) (ssnapshot a)) by (cbn; now apply inv_snapshot).
  pose proof (exec_post cfg E fuel p (checkpoint s) (ssnapshot a) W I1) as P.
  destruct (exec cfg E fuel p (checkpoint s)) as [y|y|k|]; try discriminate.
  - cbn in P. destruct P as (_ & _ & a2 & I2 & _). unfold checkpoint_ok in H. destruct (inv_clear I2) as (st & Ec & _). rewrite Ec in H. discriminate.
  - cbn in P. destruct P as (_ & _ & a2 & I2 & S2). unfold restore_st in H. destruct (inv_restore I2) as (st & Er & I3).
    rewrite Er in H. cbn in H. injection H as <-. cbn. rewrite (inv_cache _ _ I3). unfold srestore. rewrite S2. cbn.
    symmetry. now apply inv_cache.
Qed.

(* the closure a rule name is called through *)
Lemma index_of_some names n : forall k0 k, index_of names n k0 = Some k ->
  exists i x, k = k0 + i /\ nth_error names i = Some x /\ str_eqb x n = true.
Proof.
  induction names as [|y names IH]; intros k0 k H; cbn [index_of] in H; [discriminate|].
  destruct (str_eqb y n) eqn:Sy.
  - injection H as <-. exists 0, y. split; [lia|]. split; [reflexivity|exact Sy].
  - destruct (IH _ _ H) as (i & x & -> & A & B). exists (S i), x. split; [lia|]. split; [exact A|exact B].
Qed.
Lemma index_of_none names n : forall k0, index_of names n k0 = None -> forall x, In x names -> str_eqb x n = false.
Proof.
  induction names as [|y names IH]; intros k0 H x Hx; [destruct Hx|]. cbn [index_of] in H.
  destruct (str_eqb y n) eqn:Sy; [discriminate|]. destruct Hx as [<-|Hx]; [exact Sy|eapply IH; eauto].
Qed.
Lemma find_orule_in g : forall n r, find_orule g n = Some r -> In r g /\ str_eqb (oname r) n = true.
Proof.
  induction g as [|x g IH]; intros n r; cbn [find_orule]; [discriminate|].
  destruct (find_orule g n) as [y|] eqn:F; [intros [= <-]; destruct (IH _ _ F); split; [now right|assumption]|].
  destruct (str_eqb (oname x) n) eqn:Sx; [intros [= <-]; split; [now left|exact Sx]|discriminate].
Qed.

Lemma orule_id_nth n : has_orule RG n = true -> exists r, nth_error RG (orule_id RG n) = Some r /\ oname r = n.
Proof.
  unfold has_orule, orule_id, onames. destruct (find_orule RG n) as [r0|] eqn:F; [|discriminate]. intros _.
  destruct (find_orule_in _ _ _ F) as [Hin Hs].
  destruct (index_of (map oname RG) n 0) as [k|] eqn:I.
  - destruct (index_of_some _ _ _ _ I) as (i & x & -> & A & B). cbn [Nat.add].
    rewrite nth_error_map in A. destruct (nth_error RG i) as [r|]; [|discriminate]. injection A as <-.
    exists r. split; [reflexivity|]. now apply str_eqb_eq.
  - exfalso. pose proof (index_of_none _ _ _ I (oname r0) (in_map oname _ _ Hin)). congruence.
Qed.

Fixpoint okx (D : name -> Prop) (e : oexpr) : Prop :=
  match e with
  | OPush _ => False
  | OIdent n => str_eqb n (nm "DROP") = false /\ str_eqb n (nm "POP") = false /\ str_eqb n (nm "POP_ALL") = false /\ D n
  | OChoice l r => okx D l /\ okx D r
  | ONodeTag x _ => okx D x
  | _ => True
  end.

(* the rule/atomic wrappers around a rule body (vm_rule_body) only pass a failure on *)
Inductive wraps (b : prog) : prog -> Prop :=
| w_base : wraps b b
| w_rule id q : wraps b q -> wraps b (PRule id q)
| w_atomic at0 q : wraps b q -> wraps b (PAtomic at0 q).

Lemma wraps_clean b n :
  (forall f1 s1 a1 x1, f1 <= n -> wf s1 -> Inv (stack s1) a1 -> exec cfg E f1 b s1 = RErr x1 -> cache (stack x1) = cache (stack s1)) ->
  forall q, wraps b q -> forall f1 s1 a1 x1, f1 <= n -> wf s1 -> Inv (stack s1) a1 -> exec cfg E f1 q s1 = RErr x1 -> cache (stack x1) = cache (stack s1).
Proof.
  intros Body q Wq. induction Wq as [|id q Wq IHq|at0 q Wq IHq]; intros f1 s1 a1 x1 L1 W1 I1 H1.
  - eapply Body; eauto.
  - destruct f1 as [|f2]; [discriminate|]. destruct (prule_err _ _ _ _ _ H1 W1) as [->|(s2 & s3 & X & S2 & W2 & S3)]; [reflexivity|].
    rewrite S3, <- S2. apply (IHq f2 s2 a1 s3); [lia|exact W2|now rewrite S2|exact X].
  - destruct f1 as [|f2]; [discriminate|]. destruct (patomic_err _ _ _ _ _ H1 W1) as [->|(s2 & s3 & X & S2 & W2 & S3)]; [reflexivity|].
    rewrite S3, <- S2. apply (IHq f2 s2 a1 s3); [lia|exact W2|now rewrite S2|exact X].
Qed.

Lemma vm_rule_body_wraps r : wraps (vme (oexpr_of r)) (vm_rule_body RG uranges r).
Proof. unfold vm_rule_body. destruct (is_special_name (oname r)), (oty r); repeat constructor. Qed.

Variable D : name -> Prop.
Hypothesis DC : forall r, In r RG -> D (oname r) -> okx D (oexpr_of r).

Lemma safe_clean p fuel s a x : safe_prog p = true -> wf s -> Inv (stack s) a -> exec cfg E fuel p s = RErr x -> cache (stack x) = cache (stack s).
Proof. intros S W I H. now rewrite (safe_prog_err p fuel s a x S W I H). Qed.

Theorem okx_clean : forall n fuel, fuel <= n -> forall e s a x, okx D e -> wf s -> Inv (stack s) a ->
  exec cfg E fuel (vme e) s = RErr x -> cache (stack x) = cache (stack s).
Proof.
  induction n as [|n IH]; intros fuel Hle e s a x O W I H; (destruct fuel as [|fuel]; [discriminate|]); [lia|].
  assert (Hf : fuel <= n) by lia.
  destruct e; cbn [vm_expr okx] in O, H; try (refine (safe_clean _ _ _ _ _ _ W I H); reflexivity).
  - (* OIdent *)
    destruct O as (ND & NP & NA & Dn). unfold vm_call in H.
    case_eq (has_orule RG n0); intros HR; rewrite HR in H.
    { (* a rule of the grammar (it shadows the hard-coded names) *)
      destruct (orule_id_nth _ HR) as (r & Nth & Nm). cbn [exec] in H. unfold vm_env in H. rewrite Nth in H. cbn [option_map] in H.
      assert (Hin : In r RG) by (eapply nth_error_In; eauto).
      assert (OB : okx D (oexpr_of r)) by (apply DC; auto; now rewrite Nm).
      pose proof (wraps_clean (vme (oexpr_of r)) n (fun f1 s1 a1 x1 L1 W1 I1 H1 => IH f1 L1 (oexpr_of r) s1 a1 x1 OB W1 I1 H1)) as WC.
      pose proof (vm_rule_body_wraps r) as WR.
      exact (WC _ WR fuel s a x Hf W I H). }
    cbv match in H.
    repeat match type of H with
    | exec _ _ _ (if str_eqb n0 ?k then _ else _) _ = _ => destruct (str_eqb n0 k) eqn:?; try discriminate
    end; try (refine (safe_clean _ _ _ _ _ _ W I H); reflexivity).
    + (* EOI *) destruct (prule_err _ _ _ _ _ H W) as [->|(s2 & s3 & X & S2 & W2 & S3)]; [reflexivity|].
      rewrite S3, <- S2. f_equal. eapply (safe_prog_err (PPrim MEoi) _ s2 a s3 eq_refl W2); [rewrite S2; exact I|exact X].
    + (* a Unicode property *)
      cbv match in H.
      case_eq (uranges n0); [intros rs Hu|intros Hu]; rewrite Hu in H; [refine (safe_clean _ _ _ _ _ _ W I H); reflexivity|].
      assert (Nn : nth_error RG (S (List.length RG)) = None) by (apply nth_error_None; apply Nat.le_succ_diag_r).
      cbn [exec] in H. unfold vm_env in H. rewrite Nn in H. discriminate H.
  - (* OPosPred *) eapply lookahead_restores; eauto.
  - (* ONegPred *) eapply lookahead_restores; eauto.
  - (* OSeq *) eapply sequence_err_restores; eauto.
  - (* OChoice *) destruct O as [Ol Or]. cbn [exec] in H.
    pose proof (exec_post cfg E fuel (vme e1) s a W I) as P.
    destruct (exec cfg E fuel (vme e1) s) as [y|y|k|] eqn:E1; try discriminate.
    cbn in P. destruct P as (_ & Wy & ay & Iy & _).
    rewrite (IH fuel Hf e2 y ay x Or Wy Iy H). exact (IH fuel Hf e1 s a y Ol W I E1).
  - (* OOpt *) cbn [exec] in H. destruct (inc_call s); [|now injection H as <-]. destruct (exec _ _ _ _ _); discriminate.
  - (* ORep *) eapply sequence_err_restores; eauto.
  - (* ORepOnce *) eapply sequence_err_restores; eauto.
  - (* OPush *) contradiction.
  - (* ONodeTag *) cbn [exec] in H. destruct (exec cfg E fuel (vme e) s) as [y|y|k|] eqn:E1; try discriminate.
    + destruct fuel as [|f1]; [discriminate|]. cbn [exec exec_prim] in H. destruct (negb _); [discriminate|]. destruct (queue y) as [|[]]; discriminate.
    + injection H as <-. eapply IH; eauto.
  - (* ORestoreOnErr *) eapply proe_err; eauto.
Qed.
End Clean.

(* ---------- putting (A) and (B) together ---------- *)
Lemma nodes_ok_okx D : forall e, nodes_ok D e -> okx D e.
Proof.
  unfold nodes_ok. induction e; cbn [oiter_top_down okx]; intros H; inversion H as [|? ? H0 H1]; subst; auto.
  - apply Forall_app in H1. destruct H1. split; auto.
Qed.

Section Assembly.
Variable OG : ogrammar.                                  (* the optimized rules before restoration *)
Notation RG := (restore_all true true OG).
Notation cmsb := (child_modifies_state true true OG).
Notation wrapif := (wrap_if true true OG).
Notation rest := (restore_expr true true OG).

Lemma restore_okx D : forall e, nodes_ok D e -> okx D (rest e).
Proof.
  unfold nodes_ok, restore_expr.
  induction e; cbn [oiter_top_down omap_bottom_up wrap_branching_exprs okx]; intros H; inversion H as [|? ? H0 H1]; subst; auto.
  - apply Forall_app in H1. destruct H1 as [Ha Hb]. unfold wrap_if.
    split; [destruct (child_modifies_state _ _ _ _); [exact I|now apply IHe1]|destruct (child_modifies_state _ _ _ _); [exact I|now apply IHe2]].
Qed.

Fixpoint noroe (e : oexpr) : Prop :=
  match e with
  | ORestoreOnErr _ => False
  | OSeq l r | OChoice l r => noroe l /\ noroe r
  | OPosPred x | ONegPred x | OOpt x | ORep x | ORepOnce x | OPush x | ONodeTag x _ => noroe x
  | _ => True
  end.

Lemma alts_wrapif y : alternatives (wrapif y) = alternatives y.
Proof. unfold wrap_if. destruct (child_modifies_state _ _ _ _); reflexivity. Qed.

Lemma alt_wrapped : forall e, noroe e -> forall c, In c (alternatives (rest e)) -> exists c0, c = wrapif c0.
Proof.
  unfold restore_expr.
  induction e; cbn [noroe omap_bottom_up wrap_branching_exprs alternatives]; intros N c Hc; try contradiction; auto.
  - destruct N as [N1 N2]. apply in_app_or in Hc. destruct Hc; auto.
  - destruct N as [N1 N2]. destruct Hc as [<-|[<-|Hc]]; eauto. rewrite !alts_wrapif in Hc. apply in_app_or in Hc. destruct Hc; auto.
  - destruct Hc as [<-|Hc]; eauto. rewrite alts_wrapif in Hc. auto.
  - destruct Hc as [<-|Hc]; eauto. rewrite alts_wrapif in Hc. auto.
Qed.

Hypothesis Huniq : NoDup (map oname OG).

Lemma find_orule_uniq : forall g r, NoDup (map oname g) -> In r g -> find_orule g (oname r) = Some r.
Proof.
  induction g as [|x g IH]; intros r ND Hin; [destruct Hin|]. cbn [map] in ND. inversion ND as [|? ? Nx ND']; subst. cbn [find_orule].
  destruct Hin as [<-|Hin].
  - destruct (find_orule g (oname x)) as [y|] eqn:F.
    + exfalso. destruct (find_orule_in _ _ _ F) as [Hy Sy]. apply str_eqb_eq in Sy. apply Nx. rewrite <- Sy. now apply in_map.
    + now rewrite str_eqb_refl'.
  - now rewrite (IH r ND' Hin).
Qed.

Theorem restorer_sound : (forall r, In r OG -> noroe (oexpr_of r)) -> restorer_ok true true OG.
Proof.
  intros NR r Hr c Hc. unfold restore_all in Hr. apply in_map_iff in Hr. destruct Hr as (r0 & <- & Hr0). cbn [restore_rule oexpr_of] in Hc.
  destruct (alt_wrapped _ (NR _ Hr0) _ Hc) as [c0 ->].
  intros cfg uranges fuel s a s' W I H. unfold wrap_if in *. destruct (child_modifies_state true true OG c0) eqn:CM.
  - eapply proe_err; eauto.
  - destruct (child_modifies_state_closed OG c0 CM) as (D & N0 & CL).
    eapply (okx_clean cfg RG uranges D) with (n := fuel) (fuel := fuel); eauto using nodes_ok_okx.
    intros q Hq Dq. unfold restore_all in Hq. apply in_map_iff in Hq. destruct Hq as (q0 & <- & Hq0). cbn [restore_rule oexpr_of oname] in *.
    apply restore_okx. apply (CL (oname q0)); auto. unfold omap_get. now rewrite (find_orule_uniq OG q0 Huniq Hq0).
Qed.
End Assembly.
