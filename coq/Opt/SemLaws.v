(* Algebraic laws of the documented semantics used by the optimizer passes, over the big-step presentation. *)
From Coq Require Import List Arith NArith ZArith Bool String Lia.
Import ListNotations.
Require Import PV.Comb.PState PV.Comb.Bytes PV.Iter.Queue PV.Peg.Ast PV.Peg.Spec PV.Opt.Sem PV.Opt.SemProofs PV.Opt.SemCong.

Section Laws.
Variable G : grammar.
Variable extras : bool.
Variable uprop : name -> option (N -> bool).
Variable w : list byte.

Notation bs := (bs G extras uprop w).

Lemma bs_res a emit j p sg r r' : bs a emit j p sg r -> r = r' -> bs a emit j p sg r'.
Proof. now intros H <-. Qed.

Lemma map_forest_fail g r : map_forest g r = SFail -> r = SFail.
Proof. destruct r; cbn; congruence. Qed.
Lemma map_forest_match g r p sg f : map_forest g r = SMatch p sg f -> exists f0, r = SMatch p sg f0 /\ f = g f0.
Proof. destruct r; cbn; try congruence. intros [= -> -> <-]. eauto. Qed.

(* inversion principles in a convenient form *)
Lemma seq_inv a emit l r p sg res : bs a emit (JE (ESeq l r)) p sg res ->
  (bs a emit (JE l) p sg SFail /\ res = SFail) \/
  (exists p1 sg1 f1 p2 sg2 f2 res', bs a emit (JE l) p sg (SMatch p1 sg1 f1) /\ bs a emit JSkip p1 sg1 (SMatch p2 sg2 f2) /\
     bs a emit (JE r) p2 sg2 res' /\ res = map_forest (fun f3 => f1 ++ f2 ++ f3) res').
Proof. intros H. inv H; [left; auto|right; repeat eexists; eauto]. Qed.

Lemma cho_inv a emit l r p sg res : bs a emit (JE (EChoice l r)) p sg res ->
  (exists p1 sg1 f1, bs a emit (JE l) p sg (SMatch p1 sg1 f1) /\ res = SMatch p1 sg1 f1) \/
  (bs a emit (JE l) p sg SFail /\ bs a emit (JE r) p sg res).
Proof. intros H. inv H; [left; eauto|right; auto]. Qed.

Lemma opt_inv a emit x p sg res : bs a emit (JE (EOpt x)) p sg res ->
  (exists p1 sg1 f1, bs a emit (JE x) p sg (SMatch p1 sg1 f1) /\ res = SMatch p1 sg1 f1) \/
  (bs a emit (JE x) p sg SFail /\ res = SMatch p sg []).
Proof.
  intros H. inv H.
  match goal with H5 : Sem.bs _ _ _ _ _ _ (JE x) _ _ ?r |- _ => pose proof (bs_definite _ _ _ _ _ _ _ _ _ _ H5) as D; destruct r end;
    [left; eauto|right; auto|now elim D].
Qed.

Lemma skip_atomic_inv a emit p sg res : atom_eqb a NonAtomic = false -> bs a emit JSkip p sg res -> res = SMatch p sg [].
Proof. intros A H. inv H; congruence. Qed.

(* a sequence in which the right operand has failed *)
Lemma bs_seq_r_fail a emit l r p sg p1 sg1 f1 p2 sg2 f2 :
  bs a emit (JE l) p sg (SMatch p1 sg1 f1) -> bs a emit JSkip p1 sg1 (SMatch p2 sg2 f2) -> bs a emit (JE r) p2 sg2 SFail ->
  bs a emit (JE (ESeq l r)) p sg SFail.
Proof. intros A B C. exact (bs_seq G extras uprop w a emit l r p sg p1 sg1 f1 p2 sg2 f2 SFail A B C). Qed.
Lemma bs_seq_ok a emit l r p sg p1 sg1 f1 p2 sg2 f2 p3 sg3 f3 :
  bs a emit (JE l) p sg (SMatch p1 sg1 f1) -> bs a emit JSkip p1 sg1 (SMatch p2 sg2 f2) -> bs a emit (JE r) p2 sg2 (SMatch p3 sg3 f3) ->
  bs a emit (JE (ESeq l r)) p sg (SMatch p3 sg3 (f1 ++ f2 ++ f3)).
Proof. intros A B C. exact (bs_seq G extras uprop w a emit l r p sg p1 sg1 f1 p2 sg2 f2 _ A B C). Qed.

Section WithInv.
Variable Inv : state_inv.
Notation equiv := (equiv G extras uprop w Inv).
Notation refines := (refines G extras uprop w Inv).

(* ---------- associativity (rotator) ---------- *)
Lemma seq_assoc a x y z : equiv a (ESeq (ESeq x y) z) (ESeq x (ESeq y z)).
Proof.
  split; intros emit p sg res _ H.
  - destruct (seq_inv _ _ _ _ _ _ _ H) as [[H1 ->]|(p1 & sg1 & f1 & p2 & sg2 & f2 & res' & H1 & H2 & H3 & ->)].
    + destruct (seq_inv _ _ _ _ _ _ _ H1) as [[H2 _]|(pa & sga & fa & pb & sgb & fb & r' & A & B & C & E)].
      * now apply bs_seq_l.
      * symmetry in E. apply map_forest_fail in E. subst r'. eapply bs_seq_r_fail; eauto. now apply bs_seq_l.
    + destruct (seq_inv _ _ _ _ _ _ _ H1) as [[_ E]|(pa & sga & fa & pb & sgb & fb & r' & A & B & C & E)]; [discriminate|].
      symmetry in E. apply map_forest_match in E. destruct E as (fy & -> & ->).
      eapply bs_res; [eapply bs_seq; [exact A|exact B|eapply bs_seq; [exact C|exact H2|exact H3]]|].
      destruct res'; cbn; auto. now rewrite <- !app_assoc.
  - destruct (seq_inv _ _ _ _ _ _ _ H) as [[H1 ->]|(p1 & sg1 & f1 & p2 & sg2 & f2 & res' & H1 & H2 & H3 & ->)].
    + apply bs_seq_l. now apply bs_seq_l.
    + destruct (seq_inv _ _ _ _ _ _ _ H3) as [[H4 ->]|(pa & sga & fa & pb & sgb & fb & r' & A & B & C & ->)].
      * apply bs_seq_l. eapply bs_seq_r_fail; eauto.
      * eapply bs_res; [eapply bs_seq; [eapply bs_seq_ok; [exact H1|exact H2|exact A]|exact B|exact C]|].
        destruct r'; cbn; auto. now rewrite <- !app_assoc.
Qed.

Lemma cho_assoc a x y z : equiv a (EChoice (EChoice x y) z) (EChoice x (EChoice y z)).
Proof.
  split; intros emit p sg res _ H.
  - destruct (cho_inv _ _ _ _ _ _ _ H) as [(p1 & sg1 & f1 & H1 & ->)|[H1 H2]].
    + destruct (cho_inv _ _ _ _ _ _ _ H1) as [(pa & sga & fa & A & [= -> -> ->])|[A B]].
      * now apply bs_cho_l.
      * apply bs_cho_r; auto. now apply bs_cho_l.
    + destruct (cho_inv _ _ _ _ _ _ _ H1) as [(pa & sga & fa & A & E)|[A B]]; [discriminate|].
      apply bs_cho_r; auto. now apply bs_cho_r.
  - destruct (cho_inv _ _ _ _ _ _ _ H) as [(p1 & sg1 & f1 & H1 & ->)|[H1 H2]].
    + apply bs_cho_l. now apply bs_cho_l.
    + destruct (cho_inv _ _ _ _ _ _ _ H2) as [(pa & sga & fa & A & ->)|[A B]].
      * apply bs_cho_l. now apply bs_cho_r.
      * apply bs_cho_r; auto. now apply bs_cho_r.
Qed.


(* ---------- factoring (factorizer); these need that bs is a function ---------- *)
Ltac det := repeat match goal with
  | H1 : Sem.bs _ _ _ _ ?a ?e ?j ?p ?sg ?r1, H2 : Sem.bs _ _ _ _ ?a ?e ?j ?p ?sg ?r2 |- _ =>
      assert_fails (constr_eq r1 r2);
      let E := fresh "E" in pose proof (bs_deterministic _ _ _ _ _ _ _ _ _ _ _ H1 H2) as E; try discriminate E; first [injection E as ? ? ?; subst | subst]
  end.

Lemma factor_common a l r1 r2 : equiv a (EChoice (ESeq l r1) (ESeq l r2)) (ESeq l (EChoice r1 r2)).
Proof.
  split; intros emit p sg res _ H.
  - destruct (cho_inv _ _ _ _ _ _ _ H) as [(p1 & sg1 & f1 & H1 & ->)|[H1 H2]].
    + destruct (seq_inv _ _ _ _ _ _ _ H1) as [[_ E]|(pa & sga & fa & pb & sgb & fb & r' & A & B & C & E)]; [discriminate|].
      symmetry in E. apply map_forest_match in E. destruct E as (f0 & -> & ->).
      eapply bs_res; [eapply bs_seq; [exact A|exact B|apply bs_cho_l; exact C]|reflexivity].
    + destruct (seq_inv _ _ _ _ _ _ _ H1) as [[A _]|(pa & sga & fa & pb & sgb & fb & r' & A & B & C & E)].
      * destruct (seq_inv _ _ _ _ _ _ _ H2) as [[_ ->]|(pa' & sga' & fa' & pb' & sgb' & fb' & r'' & A' & B' & C' & ->)]; [now apply bs_seq_l|det].
      * symmetry in E. apply map_forest_fail in E. subst r'.
        destruct (seq_inv _ _ _ _ _ _ _ H2) as [[A' _]|(pa' & sga' & fa' & pb' & sgb' & fb' & r'' & A' & B' & C' & ->)]; [det|].
        det. det. eapply bs_seq; [exact A|exact B|]. now apply bs_cho_r.
  - destruct (seq_inv _ _ _ _ _ _ _ H) as [[H1 ->]|(p1 & sg1 & f1 & p2 & sg2 & f2 & res' & H1 & H2 & H3 & ->)].
    + apply bs_cho_r; now apply bs_seq_l.
    + destruct (cho_inv _ _ _ _ _ _ _ H3) as [(pa & sga & fa & A & ->)|[A B]].
      * apply bs_cho_l. eapply bs_seq_ok; eauto.
      * apply bs_cho_r; [eapply bs_seq_r_fail; eauto|eapply bs_seq; eauto].
Qed.

Lemma factor_opt a l1 l2 : atom_eqb a NonAtomic = false -> equiv a (EChoice (ESeq l1 l2) l1) (ESeq l1 (EOpt l2)).
Proof.
  intros NA. split; intros emit p sg res _ H.
  - destruct (cho_inv _ _ _ _ _ _ _ H) as [(p1 & sg1 & f1 & H1 & ->)|[H1 H2]].
    + destruct (seq_inv _ _ _ _ _ _ _ H1) as [[_ E]|(pa & sga & fa & pb & sgb & fb & r' & A & B & C & E)]; [discriminate|].
      symmetry in E. apply map_forest_match in E. destruct E as (f0 & -> & ->).
      eapply bs_res; [eapply bs_seq; [exact A|exact B|apply bs_opt; exact C]|reflexivity].
    + destruct (seq_inv _ _ _ _ _ _ _ H1) as [[A _]|(pa & sga & fa & pb & sgb & fb & r' & A & B & C & E)].
      * det. now apply bs_seq_l.
      * symmetry in E. apply map_forest_fail in E. subst r'. det.
        pose proof (skip_atomic_inv _ _ _ _ _ NA B) as [= -> -> ->].
        eapply bs_res; [eapply bs_seq; [exact A|exact B|apply bs_opt; exact C]|]. cbn. now rewrite app_nil_r.
  - destruct (seq_inv _ _ _ _ _ _ _ H) as [[H1 ->]|(p1 & sg1 & f1 & p2 & sg2 & f2 & res' & H1 & H2 & H3 & ->)].
    + apply bs_cho_r; [now apply bs_seq_l|assumption].
    + destruct (opt_inv _ _ _ _ _ _ H3) as [(pa & sga & fa & A & ->)|[A ->]].
      * apply bs_cho_l. eapply bs_seq_ok; eauto.
      * pose proof (skip_atomic_inv _ _ _ _ _ NA H2) as [= -> -> ->]. cbn. rewrite app_nil_r.
        apply bs_cho_r; [eapply bs_seq_r_fail; eauto|assumption].
Qed.

Lemma factor_absorb a l r : equiv a (EChoice l (ESeq l r)) l.
Proof.
  split; intros emit p sg res _ H.
  - destruct (cho_inv _ _ _ _ _ _ _ H) as [(p1 & sg1 & f1 & H1 & ->)|[H1 H2]]; [assumption|].
    destruct (seq_inv _ _ _ _ _ _ _ H2) as [[_ ->]|(pa & sga & fa & pb & sgb & fb & r' & A & B & C & ->)]; [assumption|det].
  - pose proof (bs_definite _ _ _ _ _ _ _ _ _ _ H) as D. destruct res; [now apply bs_cho_l| |now elim D].
    apply bs_cho_r; [assumption|now apply bs_seq_l].
Qed.

End WithInv.
End Laws.
