(* The vocabulary of the C05 statement (coq/props/C05.v). *)
From Coq Require Import List Arith NArith ZArith Bool String Lia.
Import ListNotations.
Require Import PV.Stack.Model PV.Stack.Proofs PV.Comb.PState PV.Comb.Bytes PV.Comb.Utf8 PV.Comb.Prog PV.Comb.Exec PV.Comb.Frame
  PV.Iter.Queue PV.Peg.Ast PV.Peg.Spec PV.Peg.VmCompile
  PV.Opt.Sem PV.Opt.SemCong PV.Opt.MapExpr PV.Opt.Rotate PV.Opt.Skip PV.Opt.Unroll PV.Opt.Concat PV.Opt.Factor PV.Opt.List
  PV.Opt.Restore PV.Opt.Pipeline.

(* ---------- valid grammars ---------- *)
(* literals are Rust Strings, i.e. valid UTF-8; a user rule never bears a name that the semantics resolves as a built-in
   before it looks at the user's rules, and no two rules have the same name (the validator rejects such grammars) *)
Definition literals_valid (G : grammar) : Prop := forall r, In r G -> Forall valid_utf8 (estrs (rexpr r)).
Definition names_ok (G : grammar) : Prop := forall r, In r G -> builtin_name (rname r) = false.
Definition unique_names (G : grammar) : Prop := NoDup (map rname G).
Definition valid_grammar (G : grammar) : Prop := literals_valid G /\ names_ok G /\ unique_names G.

(* ---------- "the same meaning": the same definite results of Peg.Spec.eval, at whatever fuel suffices, for every
   expression (in particular every rule name), atomicity, emit flag, position and stack, on every valid input ---------- *)
Definition same_meaning (extras : bool) (G G' : grammar) : Prop :=
  forall uprop w a emit e p sg r, valid_utf8 w -> Forall valid_utf8 (estrs e) -> boundaryb w p = true -> Forall valid_utf8 sg ->
    (evaluates G' extras uprop w a emit e p sg r <-> evaluates G extras uprop w a emit e p sg r).

(* pass k (0 rotate, 1 skip, 2 unroll, 3 concatenate, 4 factor, 5 list) applied to every rule, as verif_apply_pass does;
   ovf selects the unroller's range arithmetic (before / after the fix of the u32 overflow), see Opt/Unroll.v *)
Definition pass_preserves (extras : bool) (k : nat) (G : grammar) : Prop :=
  forall ovf G', apply_pass ovf extras k G = Some G' -> same_meaning extras G G'.
Definition pipeline_preserves (extras : bool) (G : grammar) : Prop :=
  forall ovf G', optimize_ast ovf extras G = Some G' -> same_meaning extras G G'.

(* ---------- restore_on_err: operational (Layer B/C) ---------- *)
(* the sub-expressions whose failure is followed by something else being tried from the state they leave:
   the child of `?` and of `*`, both sides of `|` *)
Fixpoint alternatives (e : oexpr) : list oexpr :=
  match e with
  | OOpt x | ORep x => x :: alternatives x
  | OChoice l r => l :: r :: alternatives l ++ alternatives r
  | OSeq l r => alternatives l ++ alternatives r
  | OPosPred x | ONegPred x | OPush x | ORepOnce x | ONodeTag x _ | ORestoreOnErr x => alternatives x
  | _ => []
  end.
(* "an expression which fails to match leaves the stack unmodified for the alternative tried next" *)
Definition fails_clean (OG : ogrammar) (c : oexpr) : Prop :=
  forall cfg uranges fuel s a s', wf s -> Inv (stack s) a ->
    exec cfg (vm_env OG uranges) fuel (vm_expr OG uranges c) s = RErr s' -> cache (stack s') = cache (stack s).
Definition restorer_ok (fixpop fixmap : bool) (OG : ogrammar) : Prop :=
  forall r, In r (restore_all fixpop fixmap OG) -> forall c, In c (alternatives (oexpr_of r)) -> fails_clean (restore_all fixpop fixmap OG) c.

(* the whole pipeline returns normally on grammars the front end can produce *)
Definition C05_statement_for (fixpop fixmap : bool) : Prop :=
  forall extras G, valid_grammar G ->
    (forall k, k <= 5 -> pass_preserves extras k G) /\
    pipeline_preserves extras G /\
    (forall OG, to_optimized_rules extras fixpop fixmap false G = Some OG -> restorer_ok fixpop fixmap OG).
