(* Layer F: meta/src/optimizer/skipper.rs.  In atomic rules `(!(s1 | .. | sn) ~ ANY)*` becomes Skip [s1..sn];
   alternatives that are rule names are inlined through the HashMap of the ORIGINAL rules.        *)
From Coq Require Import List Arith NArith ZArith Bool String.
Import ListNotations.
Require Import PV.Comb.PState PV.Peg.Ast PV.Opt.MapExpr.

(* Option<Expr> of populate_choices, plus the case in which the Rust recursion never returns
   (a rule that reaches itself through first alternatives / tails: stack overflow) *)
Inductive pc_res := PcSkip (ss : list str) | PcNone | PcOverflow.

Fixpoint populate_choices (fuel : nat) (map : grammar) (e : expr) (choices : list str) : pc_res :=
  match fuel with
  | O => PcOverflow
  | S n =>
    match e with
    | EChoice lhs rhs =>
        match lhs with
        | EStr s => populate_choices n map rhs (choices ++ [s])
        | EIdent name =>
            match map_get map name with
            | Some body =>
                match populate_choices n map body [] with
                | PcSkip inlined => populate_choices n map rhs (choices ++ inlined)
                | r => r
                end
            | None => PcNone
            end
        | _ => PcNone
        end
    | EStr s => PcSkip (choices ++ [s])
    | EIdent name =>
        match map_get map name with
        | Some body => populate_choices n map body choices
        | None => PcNone
        end
    | _ => PcNone
    end
  end.

(* a call chain longer than the number of expression nodes involved revisits a node: the recursion is unbounded *)
Definition pc_fuel (map : grammar) (e : expr) : nat := S (esize e + gsize map).

Definition skip_fn (map : grammar) (e : expr) : option expr :=
  match e with
  | ERep (ESeq (ENegPred c) (EIdent id)) =>
      if str_eqb id (nm "ANY") then
        match populate_choices (pc_fuel map c) map c [] with
        | PcSkip ss => Some (ESkip ss)
        | PcNone => Some e
        | PcOverflow => None
        end
      else Some e
  | _ => Some e
  end.

Definition skip_expr (map : grammar) (ty : rtype) (e : expr) : option expr :=
  if rtype_eqb ty RAtomic then map_top_down (S (esize e)) (skip_fn map) e else Some e.
Definition skip_rule (map : grammar) (r : rule) : option rule := with_expr r (skip_expr map (rty r) (rexpr r)).
