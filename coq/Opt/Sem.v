(* A big-step (fuel-free) presentation of Layer S, used to reason about the optimizer.
   `bs G extras uprop w a emit j p sg r` holds exactly when `eval`, given enough fuel, returns the
   definite result r (Adequacy: SemProofs.v).  Judgements: an expression, the implicit-whitespace
   skip, and the three loops of Spec.v (many_with, the comment/whitespace loop, rep_from_with). *)
From Coq Require Import List Arith NArith ZArith Bool String Lia.
Import ListNotations.
Require Import PV.Comb.PState PV.Comb.Bytes PV.Iter.Queue PV.Peg.Ast PV.Peg.Spec.

Inductive judg :=
| JE (e : expr)
| JSkip
| JMany (n : name) (acc : list tree)
| JCW (acc : list tree)
| JRep (x : expr) (acc : list tree).

Definition map_forest (g : list tree -> list tree) (r : sres) : sres :=
  match r with SMatch p s f => SMatch p s (g f) | SFail => SFail | SFuel => SFuel end.
Definition wrap_call (tk : bool) (id : nat) (p : nat) (r : sres) : sres :=
  match r with SMatch q sg2 f2 => SMatch q sg2 (if tk then [Node id None p q f2] else f2) | SFail => SFail | SFuel => SFuel end.

Definition is_bounded (e : expr) : bool :=
  match e with ERepExact _ _ | ERepMin _ _ | ERepMax _ _ | ERepMinMax _ _ _ => true | _ => false end.

Section Sem.
Variable G : grammar.
Variable extras : bool.
Variable uprop : name -> option (N -> bool).
Variable w : list byte.

(* names that `eval` resolves before it looks at the user's rules *)
Definition builtin_name (n : name) : bool :=
  str_eqb n (nm "SOI") || str_eqb n (nm "EOI") || str_eqb n (nm "PEEK") || str_eqb n (nm "POP") || str_eqb n (nm "DROP")
  || str_eqb n (nm "PEEK_ALL") || str_eqb n (nm "POP_ALL") || str_eqb n (nm "NEWLINE")
  || match ascii_builtin n with Some _ => true | None => false end.
Definition calls_rule (n : name) : bool := negb (builtin_name n) && has_rule G n.

(* expressions whose value `eval` computes without evaluating anything else *)
Definition leaf (e : expr) : bool :=
  match e with
  | EStr _ | EInsens _ | ERange _ _ | EPeekSlice _ _ | EPushLiteral _ | ESkip _ => true
  | EIdent n => negb (calls_rule n)
  | _ => false
  end.

Notation ev1 := (eval G extras uprop w 1).
Notation WS := (nm "WHITESPACE").
Notation CM := (nm "COMMENT").

Inductive bs : atom -> bool -> judg -> nat -> list str -> sres -> Prop :=
| bs_leaf a emit e p sg : leaf e = true -> bs a emit (JE e) p sg (ev1 a emit e p sg)
| bs_call a emit n r p sg res :
    calls_rule n = true -> find_rule G n = Some r ->
    bs (snd (rule_mode (is_special n) (rty r) a emit)) emit (JE (rexpr r)) p sg res ->
    bs a emit (JE (EIdent n)) p sg (wrap_call (fst (rule_mode (is_special n) (rty r) a emit)) (rule_id G n) p res)
| bs_seq_l a emit l r p sg : bs a emit (JE l) p sg SFail -> bs a emit (JE (ESeq l r)) p sg SFail
| bs_seq a emit l r p sg p1 sg1 f1 p2 sg2 f2 res :
    bs a emit (JE l) p sg (SMatch p1 sg1 f1) -> bs a emit JSkip p1 sg1 (SMatch p2 sg2 f2) -> bs a emit (JE r) p2 sg2 res ->
    bs a emit (JE (ESeq l r)) p sg (map_forest (fun f3 => f1 ++ f2 ++ f3) res)
| bs_cho_l a emit l r p sg p1 sg1 f1 : bs a emit (JE l) p sg (SMatch p1 sg1 f1) -> bs a emit (JE (EChoice l r)) p sg (SMatch p1 sg1 f1)
| bs_cho_r a emit l r p sg res : bs a emit (JE l) p sg SFail -> bs a emit (JE r) p sg res -> bs a emit (JE (EChoice l r)) p sg res
| bs_opt a emit x p sg res : bs a emit (JE x) p sg res ->
    bs a emit (JE (EOpt x)) p sg (match res with SFail => SMatch p sg [] | SMatch p1 sg1 f1 => SMatch p1 sg1 f1 | SFuel => SFuel end)
| bs_rep_0 a emit x p sg : bs a emit (JE x) p sg SFail -> bs a emit (JE (ERep x)) p sg (SMatch p sg [])
| bs_rep a emit x p sg p1 sg1 f1 res :
    bs a emit (JE x) p sg (SMatch p1 sg1 f1) -> bs a emit (JRep x f1) p1 sg1 res -> bs a emit (JE (ERep x)) p sg res
| bs_rep1x_0 a emit x p sg : negb extras = false -> bs a emit (JE x) p sg SFail -> bs a emit (JE (ERepOnce x)) p sg SFail
| bs_rep1x a emit x p sg p1 sg1 f1 res : negb extras = false ->
    bs a emit (JE x) p sg (SMatch p1 sg1 f1) -> bs a emit (JRep x f1) p1 sg1 res -> bs a emit (JE (ERepOnce x)) p sg res
| bs_rep1d a emit x p sg res : negb extras = true -> bs a emit (JE (ESeq x (ERep x))) p sg res -> bs a emit (JE (ERepOnce x)) p sg res
| bs_bounded a emit e u p sg res : is_bounded e = true -> unroll_node extras e = Some u -> bs a emit (JE u) p sg res -> bs a emit (JE e) p sg res
| bs_bounded_none a emit e p sg : is_bounded e = true -> unroll_node extras e = None -> bs a emit (JE e) p sg SFail
| bs_pos a emit x p sg res : bs a false (JE x) p sg res ->
    bs a emit (JE (EPosPred x)) p sg (match res with SMatch _ _ _ => SMatch p sg [] | SFail => SFail | SFuel => SFuel end)
| bs_neg a emit x p sg res : bs a false (JE x) p sg res ->
    bs a emit (JE (ENegPred x)) p sg (match res with SMatch _ _ _ => SFail | SFail => SMatch p sg [] | SFuel => SFuel end)
| bs_push a emit x p sg res : bs a emit (JE x) p sg res ->
    bs a emit (JE (EPush x)) p sg (match res with SMatch q sg2 f2 => SMatch q (firstn (q - p) (skipn p w) :: sg2) f2 | SFail => SFail | SFuel => SFuel end)
| bs_tag a emit x t p sg res : bs a emit (JE x) p sg res ->
    bs a emit (JE (ENodeTag x t)) p sg (match res with SMatch q sg2 f2 => SMatch q sg2 (tag_last f2 (tag_id t)) | SFail => SFail | SFuel => SFuel end)
(* loops *)
| bs_many_stop a emit n acc p sg : bs a emit (JE (EIdent n)) p sg SFail -> bs a emit (JMany n acc) p sg (SMatch p sg acc)
| bs_many_step a emit n acc p sg p1 sg1 f1 res :
    bs a emit (JE (EIdent n)) p sg (SMatch p1 sg1 f1) -> bs a emit (JMany n (acc ++ f1)) p1 sg1 res -> bs a emit (JMany n acc) p sg res
| bs_cw_stop a emit acc p sg : bs a emit (JE (EIdent CM)) p sg SFail -> bs a emit (JCW acc) p sg (SMatch p sg acc)
| bs_cw_step a emit acc p sg p2 sg2 f2 p3 sg3 f3 res :
    bs a emit (JE (EIdent CM)) p sg (SMatch p2 sg2 f2) -> bs a emit (JMany WS f2) p2 sg2 (SMatch p3 sg3 f3) ->
    bs a emit (JCW (acc ++ f3)) p3 sg3 res -> bs a emit (JCW acc) p sg res
| bs_rep_stop a emit x acc p sg p1 sg1 f1 :
    bs a emit JSkip p sg (SMatch p1 sg1 f1) -> bs a emit (JE x) p1 sg1 SFail -> bs a emit (JRep x acc) p sg (SMatch p sg acc)
| bs_rep_step a emit x acc p sg p1 sg1 f1 p2 sg2 f2 res :
    bs a emit JSkip p sg (SMatch p1 sg1 f1) -> bs a emit (JE x) p1 sg1 (SMatch p2 sg2 f2) ->
    bs a emit (JRep x (acc ++ (f1 ++ f2))) p2 sg2 res -> bs a emit (JRep x acc) p sg res
(* implicit whitespace *)
| bs_skip_atomic a emit p sg : atom_eqb a NonAtomic = false -> bs a emit JSkip p sg (SMatch p sg [])
| bs_skip_none a emit p sg : atom_eqb a NonAtomic = true -> has_rule G WS = false -> has_rule G CM = false -> bs a emit JSkip p sg (SMatch p sg [])
| bs_skip_ws a emit p sg res : atom_eqb a NonAtomic = true -> has_rule G WS = true -> has_rule G CM = false ->
    bs a emit (JMany WS []) p sg res -> bs a emit JSkip p sg res
| bs_skip_cm a emit p sg res : atom_eqb a NonAtomic = true -> has_rule G WS = false -> has_rule G CM = true ->
    bs a emit (JMany CM []) p sg res -> bs a emit JSkip p sg res
| bs_skip_both a emit p sg p1 sg1 f1 res : atom_eqb a NonAtomic = true -> has_rule G WS = true -> has_rule G CM = true ->
    bs a emit (JMany WS []) p sg (SMatch p1 sg1 f1) -> bs a emit (JCW f1) p1 sg1 res -> bs a emit JSkip p sg res.

(* (the side conditions on `extras` are written with negb so that `subst` leaves the section variable alone) *)
(* the functional counterpart of a judgement, for an evaluator and an iteration budget *)
Definition cw_unit (ev : evaluator) (f : nat) (a : atom) (emit : bool) : nat -> list str -> sres :=
  fun p sg => match ev a emit (EIdent CM) p sg with
              | SMatch p2 sg2 f2 => many_with ev f a emit WS p2 sg2 f2
              | r => r end.
Definition run (ev : evaluator) (f : nat) (a : atom) (emit : bool) (j : judg) (p : nat) (sg : list str) : sres :=
  match j with
  | JE e => ev a emit e p sg
  | JSkip => skip_with G ev f a emit p sg
  | JMany n acc => many_with ev f a emit n p sg acc
  | JCW acc => loop f (cw_unit ev f a emit) p sg acc
  | JRep x acc => rep_from_with G ev f a emit x p sg acc
  end.

End Sem.

(* semantic equality of (grammar, expression) pairs in terms of `eval`: the same definite results, at whatever fuel *)
Definition definite (r : sres) : Prop := r <> SFuel.
Definition evaluates (G : grammar) (extras : bool) uprop (w : list byte) (a : atom) (emit : bool) (e : expr) (p : nat) (sg : list str) (r : sres) : Prop :=
  exists fuel, eval G extras uprop w fuel a emit e p sg = r /\ definite r.
