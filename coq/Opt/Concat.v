(* Layer F: meta/src/optimizer/concatenator.rs.  Bottom-up, only in rules of type Atomic. *)
From Coq Require Import List Arith NArith ZArith Bool.
Import ListNotations.
Require Import PV.Comb.PState PV.Peg.Ast PV.Opt.MapExpr.

Definition concat_fn (ty : rtype) (e : expr) : expr :=
  if rtype_eqb ty RAtomic then
    match e with
    | ESeq (EStr a) (EStr b) => EStr (a ++ b)
    | ESeq (EInsens a) (EInsens b) => EInsens (a ++ b)
    | _ => e
    end
  else e.

Definition concat_expr (ty : rtype) (e : expr) : option expr := map_bottom_up (fun x => Some (concat_fn ty x)) e.
Definition concat_rule (r : rule) : option rule := with_expr r (concat_expr (rty r) (rexpr r)).
