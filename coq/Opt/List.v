(* Layer F: meta/src/optimizer/lister.rs.  Bottom-up: `(l1 ~ l2)* ~ r` with l1 == r becomes `l1 ~ (l2 ~ r)*`. *)
From Coq Require Import List Arith NArith ZArith Bool.
Import ListNotations.
Require Import PV.Comb.PState PV.Peg.Ast PV.Opt.MapExpr.

Definition list_fn (e : expr) : expr :=
  match e with
  | ESeq (ERep (ESeq l1 l2)) r => if expr_eqb l1 r then ESeq l1 (ERep (ESeq l2 r)) else e
  | _ => e
  end.

Definition list_expr (e : expr) : option expr := map_bottom_up (fun x => Some (list_fn x)) e.
Definition list_rule (r : rule) : option rule := with_expr r (list_expr (rexpr r)).

(* does the rewrite fire anywhere?  (decidable class of the known finding C05-lister) *)
Definition lister_applies_rule (r : rule) : bool :=
  match list_expr (rexpr r) with Some e => negb (expr_eqb e (rexpr r)) | None => true end.
Definition lister_applies (g : grammar) : bool := existsb lister_applies_rule g.
