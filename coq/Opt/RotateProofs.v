(* rotate preserves the documented meaning: associativity of sequence (with the implicit skip between all
   adjacent elements) and of ordered choice.                                                              *)
From Coq Require Import List Arith NArith ZArith Bool String Lia.
Import ListNotations.
Require Import PV.Comb.PState PV.Comb.Bytes PV.Iter.Queue PV.Peg.Ast PV.Peg.Spec PV.Opt.Sem PV.Opt.SemProofs PV.Opt.SemCong
  PV.Opt.SemTransfer PV.Opt.SemLaws PV.Opt.MapExpr PV.Opt.MapExprProofs PV.Opt.PassProofs PV.Opt.Rotate.

Lemma rot_seq_size l : forall r, esize (rot_seq l r) = S (esize l + esize r).
Proof. induction l; intros r; cbn [rot_seq esize]; auto. rewrite IHl1. cbn [esize]. lia. Qed.
Lemma rot_cho_size l : forall r, esize (rot_cho l r) = S (esize l + esize r).
Proof. induction l; intros r; cbn [rot_cho esize]; auto. rewrite IHl1. cbn [esize]. lia. Qed.
Lemma rotate_internal_size e : esize (rotate_internal e) = esize e.
Proof. destruct e; cbn [rotate_internal]; auto; [apply rot_seq_size|apply rot_cho_size]. Qed.

Theorem rotate_expr_total e : exists e', rotate_expr e = Some e'.
Proof.
  unfold rotate_expr. apply map_top_down_total; [|lia].
  intros x. eexists; split; [reflexivity|]. rewrite rotate_internal_size. lia.
Qed.

Section RotateSem.
Variable G : grammar.
Variable extras : bool.
Variable uprop : name -> option (N -> bool).
Variable w : list byte.
Variable Inv : state_inv.
Hypothesis HP : preserved G extras uprop w (fun _ => True) Inv.
Notation equiv := (equiv G extras uprop w Inv).

Lemma rot_seq_equiv a l : forall r, equiv a (ESeq l r) (rot_seq l r).
Proof.
  induction l; intros r; cbn [rot_seq]; try apply equiv_refl.
  eapply equiv_trans; [apply seq_assoc|apply IHl1].
Qed.
Lemma rot_cho_equiv a l : forall r, equiv a (EChoice l r) (rot_cho l r).
Proof.
  induction l; intros r; cbn [rot_cho]; try apply equiv_refl.
  eapply equiv_trans; [apply cho_assoc|apply IHl1].
Qed.
Lemma rotate_internal_equiv a e : equiv a e (rotate_internal e).
Proof. destruct e; cbn [rotate_internal]; try apply equiv_refl; [apply rot_seq_equiv|apply rot_cho_equiv]. Qed.

Theorem rotate_expr_equiv a e e' : rotate_expr e = Some e' -> equiv a e e'.
Proof.
  unfold rotate_expr. intros H.
  apply (map_top_down_equiv G extras uprop w (fun _ => True) Inv HP a (fun x => Some (rotate_internal x))) in H.
  - tauto.
  - intros x y _ [= <-]. split; [apply rotate_internal_equiv|apply Forall_True].
  - apply Forall_True.
Qed.
End RotateSem.

(* grammar level: the rotated grammar has exactly the derivations of the original one *)
Theorem rotate_grammar G G' extras uprop w : map_rules rotate_rule G = Some G' ->
  forall a emit j p sg res, bs G' extras uprop w a emit j p sg res <-> bs G extras uprop w a emit j p sg res.
Proof.
  intros H a emit j p sg res.
  assert (Fsig : forall r r', rotate_rule r = Some r' -> rname r' = rname r /\ rty r' = rty r) by (intros r r'; apply with_expr_sig).
  assert (Law : forall Gx r r' a0, rotate_rule r = Some r' -> equiv Gx extras uprop w (fun _ _ => True) a0 (rexpr r) (rexpr r')).
  { intros Gx r r' a0 E. apply with_expr_inv in E. eapply rotate_expr_equiv; [apply preserved_True|exact E]. }
  split; intros B.
  - eapply (pass_backward G G' extras uprop w (fun _ => True) (fun _ _ => True) rotate_rule); eauto using preserved_True, Forall_True', jvalid_True.
  - eapply (pass_forward G G' extras uprop w (fun _ => True) (fun _ _ => True) rotate_rule); eauto using preserved_True, Forall_True', jvalid_True.
Qed.
