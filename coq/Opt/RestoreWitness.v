(* restore_on_err as shipped does not deliver "a failing alternative leaves the stack unmodified":
   the witnesses of DESIGN.md section 4 row 3, evaluated on the models (optimizer model -> VM compile -> exec)
   against Layer S; and the same inputs on the model of the patched code (fixes/C05-1, C05-2).          *)
From Coq Require Import List Arith NArith ZArith Bool String.
Import ListNotations.
Require Import PV.Stack.Model PV.Comb.PState PV.Comb.Bytes PV.Comb.Prog PV.Comb.Exec PV.Iter.Queue PV.Peg.Ast PV.Peg.Spec PV.Peg.VmCompile
  PV.Opt.MapExpr PV.Opt.Restore PV.Opt.Pipeline.

Definition wcfg : config := {| memchr := false; fixed3 := true; fixedlim := false |}.
Definition no_uranges : name -> option (list (N * N)) := fun _ => None.
Definition no_uprop : name -> option (N -> bool) := fun _ => None.

(* the real pipeline on the model: optimize, compile for the VM, run from rule r *)
Definition vm_accepts (extras fixpop fixmap : bool) (G : grammar) (w : list byte) (fuel : nat) : option bool :=
  match optimize false extras fixpop fixmap G with
  | None => None
  | Some OG =>
      match parse_with wcfg (vm_env OG no_uranges) fuel (vm_start OG no_uranges (nm "r")) w None false with
      | OPairs _ => Some true
      | OParsingError _ _ _ => Some false
      | _ => None
      end
  end.
Definition spec_accepts (extras : bool) (G : grammar) (w : list byte) (fuel : nat) : option bool :=
  match spec_parse G extras no_uprop w fuel (nm "r") with SMatch _ _ _ => Some true | SFail => Some false | SFuel => None end.

Definition rule_r (e : expr) : rule := {| rname := nm "r"; rty := RNormal; rexpr := e |}.
Definition pushs (s : string) : expr := EPush (EStr (nm s)).
Definition idn (s : string) : expr := EIdent (nm s).

(* r = { PUSH("a") ~ PUSH("b") ~ (POP_ALL | PEEK_ALL) } on "abbX" *)
Definition G_popall : grammar := [rule_r (ESeq (ESeq (pushs "a") (pushs "b")) (EChoice (idn "POP_ALL") (idn "PEEK_ALL")))].
(* grammar-extras: r = { PUSH("x") ~ PUSH("y") ~ (!EOI ~ (POP | PEEK))+ } and r = { PUSH("x") ~ PUSH("y") ~ #t = (POP | PEEK) } on "xyx" *)
Definition G_reponce : grammar :=
  [rule_r (ESeq (ESeq (pushs "x") (pushs "y")) (ERepOnce (ESeq (ENegPred (idn "EOI")) (EChoice (idn "POP") (idn "PEEK")))))].
Definition G_nodetag : grammar :=
  [rule_r (ESeq (ESeq (pushs "x") (pushs "y")) (ENodeTag (EChoice (idn "POP") (idn "PEEK")) (nm "t")))].
(* r = { PUSH("a") ~ PUSH("b") ~ (#t = p)? ~ PEEK }  p = { POP }  on "aba": iter_top_down stops at the tag *)
Definition G_itertag : grammar :=
  [rule_r (ESeq (ESeq (ESeq (pushs "a") (pushs "b")) (EOpt (ENodeTag (idn "p") (nm "t")))) (idn "PEEK"));
   {| rname := nm "p"; rty := RNormal; rexpr := idn "POP" |}].

Theorem restorer_pop_all_refuted :
  vm_accepts false false false G_popall (nm "abbX") 60 = Some true /\ spec_accepts false G_popall (nm "abbX") 60 = Some false /\
  vm_accepts true false false G_popall (nm "abbX") 60 = Some true /\ spec_accepts true G_popall (nm "abbX") 60 = Some false.
Proof. repeat split; vm_compute; reflexivity. Qed.

Theorem restorer_pop_all_patched :
  vm_accepts false true false G_popall (nm "abbX") 60 = Some false /\ vm_accepts true true true G_popall (nm "abbX") 60 = Some false.
Proof. repeat split; vm_compute; reflexivity. Qed.

Theorem restorer_map_refuted :
  vm_accepts true true false G_reponce (nm "xyx") 60 = Some true /\ spec_accepts true G_reponce (nm "xyx") 60 = Some false /\
  vm_accepts true true false G_nodetag (nm "xyx") 60 = Some true /\ spec_accepts true G_nodetag (nm "xyx") 60 = Some false /\
  vm_accepts true true false G_itertag (nm "aba") 60 = Some true /\ spec_accepts true G_itertag (nm "aba") 60 = Some false.
Proof. repeat split; vm_compute; reflexivity. Qed.

Theorem restorer_map_patched :
  vm_accepts true true true G_reponce (nm "xyx") 60 = Some false /\ vm_accepts true true true G_nodetag (nm "xyx") 60 = Some false /\
  vm_accepts true true true G_itertag (nm "aba") 60 = Some false.
Proof. repeat split; vm_compute; reflexivity. Qed.
