(* Generic facts about the traversals: a traversal whose node function is semantics-preserving (equiv) is
   semantics-preserving; map_top_down with the fuel S (esize e) returns when the node function does not grow
   expressions; rule-wise maps keep names and types, hence rule lookup and rule ids.                        *)
From Coq Require Import List Arith NArith ZArith Bool String Lia.
Import ListNotations.
Require Import PV.Comb.PState PV.Comb.Bytes PV.Iter.Queue PV.Peg.Ast PV.Peg.Spec PV.Opt.Sem PV.Opt.SemProofs PV.Opt.SemCong PV.Opt.MapExpr.

Section MapSound.
Variable G : grammar.
Variable extras : bool.
Variable uprop : name -> option (N -> bool).
Variable w : list byte.
Variable Q : str -> Prop.
Variable Inv : state_inv.
Hypothesis HP : preserved G extras uprop w Q Inv.
Variable a : atom.
Variable f : expr -> option expr.

Notation equiv := (equiv G extras uprop w Inv a).
Definition SV (e : expr) : Prop := Forall Q (estrs e).
Hypothesis Hf : forall e e', SV e -> f e = Some e' -> equiv e e' /\ SV e'.

Lemma SV_app x y : SV x -> SV y -> Forall Q (estrs x ++ estrs y).
Proof. intros. apply Forall_app; auto. Qed.


Theorem map_top_down_equiv : forall fuel e e', SV e -> map_top_down fuel f e = Some e' -> equiv e e' /\ SV e'.
Proof.
  induction fuel as [|n IH]; intros e e' S H; [discriminate|]. cbn [map_top_down] in H.
  destruct (f e) as [e1|] eqn:F; [|discriminate]. cbn [obind] in H.
  destruct (Hf _ _ S F) as [E1 S1].
  assert (T : forall e2, equiv e1 e2 -> SV e2 -> equiv e e2 /\ SV e2) by (intros e2 A B; split; [eapply equiv_trans; eauto|exact B]).
  destruct e1;
    try (injection H as <-; split; assumption);
    try (destruct (map_top_down n f e1) as [y|] eqn:M; [|discriminate]; cbn in H; injection H as <-;
         assert (S1' : SV e1) by exact S1; destruct (IH _ _ S1' M) as [Ey Sy]; apply T; [|exact Sy]).
  - now apply eqv_pos. - now apply eqv_neg.
  - destruct (map_top_down n f e1_1) as [y1|] eqn:M1; [|discriminate]. destruct (map_top_down n f e1_2) as [y2|] eqn:M2; [|discriminate].
    cbn in H. injection H as <-. unfold SV in S1. cbn [estrs] in S1. apply Forall_app in S1. destruct S1 as [Sa Sb].
    destruct (IH _ _ Sa M1) as [E1' S1']. destruct (IH _ _ Sb M2) as [E2' S2']. apply T; [now apply (eqv_seq G extras uprop w Q Inv HP)|now apply SV_app].
  - destruct (map_top_down n f e1_1) as [y1|] eqn:M1; [|discriminate]. destruct (map_top_down n f e1_2) as [y2|] eqn:M2; [|discriminate].
    cbn in H. injection H as <-. unfold SV in S1. cbn [estrs] in S1. apply Forall_app in S1. destruct S1 as [Sa Sb].
    destruct (IH _ _ Sa M1) as [E1' S1']. destruct (IH _ _ Sb M2) as [E2' S2']. apply T; [now apply eqv_cho|now apply SV_app].
  - now apply eqv_opt. - now apply (eqv_rep G extras uprop w Q Inv HP). - now apply (eqv_rep1 G extras uprop w Q Inv HP). - now apply (eqv_repexact G extras uprop w Q Inv HP). - now apply (eqv_repmin G extras uprop w Q Inv HP).
  - now apply (eqv_repmax G extras uprop w Q Inv HP). - now apply (eqv_repminmax G extras uprop w Q Inv HP). - now apply eqv_push. - now apply eqv_tag.
Qed.

Theorem map_bottom_up_equiv : forall e e', SV e -> map_bottom_up f e = Some e' -> equiv e e' /\ SV e'.
Proof.
  assert (T : forall e e1 e', equiv e e1 -> SV e1 -> f e1 = Some e' -> equiv e e' /\ SV e').
  { intros e e1 e' A B C. destruct (Hf _ _ B C) as [D E]. split; [eapply equiv_trans; eauto|exact E]. }
  induction e; intros e' S H; cbn [map_bottom_up] in H;
    try (cbn [obind] in H; refine (T _ _ _ _ _ H); [apply equiv_refl|exact S]);
    try (destruct (map_bottom_up f e) as [y|] eqn:M; cbn [option_map obind] in H; [|discriminate];
         assert (S' : SV e) by exact S; destruct (IHe _ S' eq_refl) as [Ey Sy]; refine (T _ _ _ _ _ H); [|exact Sy]).
  - now apply eqv_pos. - now apply eqv_neg.
  - destruct (map_bottom_up f e1) as [y1|] eqn:M1; cbn [obind] in H; [|discriminate]. destruct (map_bottom_up f e2) as [y2|] eqn:M2; cbn [obind] in H; [|discriminate]. unfold SV in S. cbn [estrs] in S. apply Forall_app in S. destruct S as [Sa Sb].
    destruct (IHe1 _ Sa eq_refl) as [E1' S1']. destruct (IHe2 _ Sb eq_refl) as [E2' S2']. refine (T _ _ _ _ _ H); [now apply (eqv_seq G extras uprop w Q Inv HP)|now apply SV_app].
  - destruct (map_bottom_up f e1) as [y1|] eqn:M1; cbn [obind] in H; [|discriminate]. destruct (map_bottom_up f e2) as [y2|] eqn:M2; cbn [obind] in H; [|discriminate]. unfold SV in S. cbn [estrs] in S. apply Forall_app in S. destruct S as [Sa Sb].
    destruct (IHe1 _ Sa eq_refl) as [E1' S1']. destruct (IHe2 _ Sb eq_refl) as [E2' S2']. refine (T _ _ _ _ _ H); [now apply eqv_cho|now apply SV_app].
  - now apply eqv_opt. - now apply (eqv_rep G extras uprop w Q Inv HP). - now apply (eqv_rep1 G extras uprop w Q Inv HP). - now apply (eqv_repexact G extras uprop w Q Inv HP). - now apply (eqv_repmin G extras uprop w Q Inv HP).
  - now apply (eqv_repmax G extras uprop w Q Inv HP). - now apply (eqv_repminmax G extras uprop w Q Inv HP). - now apply eqv_push. - now apply eqv_tag.
Qed.

End MapSound.

(* ---------- termination of map_top_down for node functions that do not grow expressions ---------- *)
Lemma map_top_down_total (f : expr -> option expr) :
  (forall x, exists y, f x = Some y /\ esize y <= esize x) ->
  forall fuel e, esize e < fuel -> exists e', map_top_down fuel f e = Some e'.
Proof.
  intros Hf. induction fuel as [|n IH]; intros e Hs; [lia|]. cbn [map_top_down].
  destruct (Hf e) as [e1 [E1 L1]]. rewrite E1. cbn [obind].
  destruct e1; cbn [esize] in L1; try (eexists; reflexivity);
    try (destruct (IH e1 ltac:(lia)) as [y ->]; eexists; reflexivity).
  - destruct (IH e1_1 ltac:(lia)) as [y1 ->]. destruct (IH e1_2 ltac:(lia)) as [y2 ->]. eexists; reflexivity.
  - destruct (IH e1_1 ltac:(lia)) as [y1 ->]. destruct (IH e1_2 ltac:(lia)) as [y2 ->]. eexists; reflexivity.
Qed.

Lemma Forall_True {A} (l : list A) : Forall (fun _ => True) l.
Proof. induction l; constructor; auto. Qed.

(* ---------- the derived equality decides Leibniz equality ---------- *)
Lemma str_eqb_eq : forall a b, str_eqb a b = true -> a = b.
Proof.
  induction a as [|x a IH]; intros [|y b]; cbn; try discriminate; auto.
  intros H. apply andb_true_iff in H. destruct H as [H1 H2]. apply N.eqb_eq in H1. f_equal; auto.
Qed.
Lemma strs_eqb_eq : forall a b, strs_eqb a b = true -> a = b.
Proof.
  induction a as [|x a IH]; intros [|y b]; cbn; try discriminate; auto.
  intros H. apply andb_true_iff in H. destruct H as [H1 H2]. apply str_eqb_eq in H1. f_equal; auto.
Qed.
Lemma expr_eqb_eq : forall a b, expr_eqb a b = true -> a = b.
Proof.
  induction a; intros b; destruct b; cbn [expr_eqb]; try discriminate; intros H;
    repeat (apply andb_true_iff in H; destruct H as [H ?]);
    repeat match goal with
    | E : str_eqb _ _ = true |- _ => apply str_eqb_eq in E
    | E : strs_eqb _ _ = true |- _ => apply strs_eqb_eq in E
    | E : N.eqb _ _ = true |- _ => apply N.eqb_eq in E
    | E : Z.eqb _ _ = true |- _ => apply Z.eqb_eq in E
    | E : expr_eqb _ _ = true |- _ => first [apply IHa in E | apply IHa1 in E | apply IHa2 in E]
    end; subst; try reflexivity.
  destruct j, j0; cbn in *; try discriminate; try reflexivity. apply Z.eqb_eq in H0. now subst.
Qed.

(* ---------- the traversals keep a condition on literals that the node function keeps ---------- *)
Section MapLits.
Variable Q : str -> Prop.
Variable f : expr -> option expr.
Notation SV := (fun e => Forall Q (estrs e)).
Hypothesis Hf : forall x y, SV x -> f x = Some y -> SV y.

Lemma map_bottom_up_lits : forall e e', SV e -> map_bottom_up f e = Some e' -> SV e'.
Proof.
  induction e; intros e' S H; cbn [map_bottom_up] in H;
    try (cbn [obind] in H; eapply Hf; [|exact H]; exact S);
    try (destruct (map_bottom_up f e) as [y|] eqn:M; cbn [option_map obind] in H; [|discriminate];
         eapply Hf; [|exact H]; cbn [estrs]; apply (IHe y); [exact S|reflexivity]).
  - destruct (map_bottom_up f e1) as [y1|] eqn:M1; cbn [obind] in H; [|discriminate]. destruct (map_bottom_up f e2) as [y2|] eqn:M2; cbn [obind] in H; [|discriminate].
    cbn [estrs] in S. apply Forall_app in S. destruct S as [Sa Sb]. eapply Hf; [|exact H]. cbn [estrs]. apply Forall_app. split; [apply (IHe1 y1 Sa eq_refl)|apply (IHe2 y2 Sb eq_refl)].
  - destruct (map_bottom_up f e1) as [y1|] eqn:M1; cbn [obind] in H; [|discriminate]. destruct (map_bottom_up f e2) as [y2|] eqn:M2; cbn [obind] in H; [|discriminate].
    cbn [estrs] in S. apply Forall_app in S. destruct S as [Sa Sb]. eapply Hf; [|exact H]. cbn [estrs]. apply Forall_app. split; [apply (IHe1 y1 Sa eq_refl)|apply (IHe2 y2 Sb eq_refl)].
Qed.

Lemma map_top_down_lits : forall fuel e e', SV e -> map_top_down fuel f e = Some e' -> SV e'.
Proof.
  induction fuel as [|n IH]; intros e e' S H; [discriminate|]. cbn [map_top_down] in H.
  destruct (f e) as [e1|] eqn:F; [|discriminate]. cbn [obind] in H. pose proof (Hf _ _ S F) as S1.
  destruct e1; try (injection H as <-; exact S1);
    try (destruct (map_top_down n f e1) as [y|] eqn:M; [|discriminate]; cbn in H; injection H as <-; cbn [estrs] in *; apply (IH _ _ S1 M)).
  - destruct (map_top_down n f e1_1) as [y1|] eqn:M1; [|discriminate]. destruct (map_top_down n f e1_2) as [y2|] eqn:M2; [|discriminate].
    cbn in H. injection H as <-. cbn [estrs] in *. apply Forall_app in S1. destruct S1 as [Sa Sb]. apply Forall_app. split; [apply (IH _ _ Sa M1)|apply (IH _ _ Sb M2)].
  - destruct (map_top_down n f e1_1) as [y1|] eqn:M1; [|discriminate]. destruct (map_top_down n f e1_2) as [y2|] eqn:M2; [|discriminate].
    cbn in H. injection H as <-. cbn [estrs] in *. apply Forall_app in S1. destruct S1 as [Sa Sb]. apply Forall_app. split; [apply (IH _ _ Sa M1)|apply (IH _ _ Sb M2)].
Qed.
End MapLits.
