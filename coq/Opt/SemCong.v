(* Reasoning principles over the big-step semantics (Sem.v):
   - `refines`: e2 has every definite behaviour of e1 (at one atomicity, from states satisfying an invariant);
   - refinement is a congruence for every constructor with sub-expressions;
   - `transfer`: between two grammars with the same rule names and types whose bodies refine each other
     in the target grammar, every derivation carries over (induction on derivations; this is what lets a
     per-expression law be applied rule by rule although the rules call each other).                  *)
From Coq Require Import List Arith NArith ZArith Bool String Lia.
Import ListNotations.
Require Import PV.Comb.PState PV.Comb.Bytes PV.Iter.Queue PV.Peg.Ast PV.Peg.Spec PV.Peg.SpecFacts PV.Opt.Sem PV.Opt.SemProofs.

Ltac inv H := inversion H; subst; clear H; try discriminate.

(* all string literals of an expression; side conditions of laws are stated as Forall Q (estrs e) *)
Fixpoint estrs (e : expr) : list str :=
  match e with
  | EStr s | EInsens s | EPushLiteral s => [s]
  | ESkip ss => ss
  | EPosPred x | ENegPred x | EOpt x | ERep x | ERepOnce x | ERepExact x _ | ERepMin x _ | ERepMax x _
  | ERepMinMax x _ _ | EPush x | ENodeTag x _ => estrs x
  | ESeq a b | EChoice a b => estrs a ++ estrs b
  | _ => []
  end.
Definition jvalid (Q : str -> Prop) (j : judg) : Prop :=
  match j with JE e | JRep e _ => Forall Q (estrs e) | _ => True end.

Definition state_inv := nat -> list str -> Prop.
(* a state invariant kept by every derivation of a judgement whose literals satisfy Q *)
Definition preserved (G : grammar) (extras : bool) uprop (w : list byte) (Q : str -> Prop) (Inv : state_inv) : Prop :=
  forall a emit j p sg p' sg' f, jvalid Q j -> bs G extras uprop w a emit j p sg (SMatch p' sg' f) -> Inv p sg -> Inv p' sg'.
Definition refines (G : grammar) (extras : bool) uprop (w : list byte) (Inv : state_inv) (a : atom) (e1 e2 : expr) : Prop :=
  forall emit p sg res, Inv p sg -> bs G extras uprop w a emit (JE e1) p sg res -> bs G extras uprop w a emit (JE e2) p sg res.
Definition equiv G extras uprop w Inv a e1 e2 : Prop := refines G extras uprop w Inv a e1 e2 /\ refines G extras uprop w Inv a e2 e1.

Section Cong.
Variable G : grammar.
Variable extras : bool.
Variable uprop : name -> option (N -> bool).
Variable w : list byte.
Variable Q : str -> Prop.
Variable Inv : state_inv.
Hypothesis HP : preserved G extras uprop w Q Inv.
Notation SV := (fun e => Forall Q (estrs e)).

Notation bs := (bs G extras uprop w).
Notation refines := (refines G extras uprop w Inv).
Notation equiv := (equiv G extras uprop w Inv).

(* the invariant at a state reached by derivations we hold *)
Ltac pres := repeat match goal with
  | |- Inv _ _ => assumption
  | H : Sem.bs _ _ _ _ _ _ _ _ _ (SMatch ?p ?sg _) |- Inv ?p ?sg => refine (HP _ _ _ _ _ _ _ _ _ H _); [cbn [jvalid]; try exact I; auto|]
  end.

Lemma refines_refl a e : refines a e e.
Proof. intros emit p sg res _ H. exact H. Qed.
Lemma refines_trans a e1 e2 e3 : refines a e1 e2 -> refines a e2 e3 -> refines a e1 e3.
Proof. intros H1 H2 emit p sg res I H. apply H2; auto. Qed.
Lemma equiv_refl a e : equiv a e e.
Proof. split; apply refines_refl. Qed.
Lemma equiv_sym a e1 e2 : equiv a e1 e2 -> equiv a e2 e1.
Proof. intros [H1 H2]. split; assumption. Qed.
Lemma equiv_trans a e1 e2 e3 : equiv a e1 e2 -> equiv a e2 e3 -> equiv a e1 e3.
Proof. intros [A1 A2] [B1 B2]. split; eapply refines_trans; eauto. Qed.

Lemma ref_seq a l l' r r' : SV l -> refines a l l' -> refines a r r' -> refines a (ESeq l r) (ESeq l' r').
Proof.
  intros Vl Hl Hr emit p sg res I H. inv H.
  - apply bs_seq_l. now apply Hl.
  - eapply bs_seq; [apply Hl; eauto|eauto|]. apply Hr; auto. pres.
Qed.

Lemma ref_cho a l l' r r' : refines a l l' -> refines a r r' -> refines a (EChoice l r) (EChoice l' r').
Proof.
  intros Hl Hr emit p sg res I H. inv H.
  - apply bs_cho_l. now apply Hl.
  - apply bs_cho_r; [now apply Hl|now apply Hr].
Qed.

Lemma ref_opt a x x' : refines a x x' -> refines a (EOpt x) (EOpt x').
Proof. intros Hx emit p sg res I H. inv H. apply bs_opt. now apply Hx. Qed.
Lemma ref_pos a x x' : refines a x x' -> refines a (EPosPred x) (EPosPred x').
Proof. intros Hx emit p sg res I H. inv H. apply bs_pos. now apply Hx. Qed.
Lemma ref_neg a x x' : refines a x x' -> refines a (ENegPred x) (ENegPred x').
Proof. intros Hx emit p sg res I H. inv H. apply bs_neg. now apply Hx. Qed.
Lemma ref_push a x x' : refines a x x' -> refines a (EPush x) (EPush x').
Proof. intros Hx emit p sg res I H. inv H. apply bs_push. now apply Hx. Qed.
Lemma ref_tag a x x' t : refines a x x' -> refines a (ENodeTag x t) (ENodeTag x' t).
Proof. intros Hx emit p sg res I H. inv H. apply bs_tag. now apply Hx. Qed.

Lemma ref_loop a x x' : SV x -> refines a x x' -> forall emit j p sg res, bs a emit j p sg res -> forall acc, j = JRep x acc -> Inv p sg ->
  bs a emit (JRep x' acc) p sg res.
Proof.
  intros Vx Hx emit j p sg res H. induction H; intros acc0 Ej I; try discriminate; injection Ej as -> ->.
  - eapply bs_rep_stop; [eassumption|]. apply Hx; [pres|assumption].
  - eapply bs_rep_step; [eassumption| |].
    + apply Hx; [pres|eassumption].
    + apply IHbs3; auto. pres.
Qed.

Lemma ref_rep a x x' : SV x -> refines a x x' -> refines a (ERep x) (ERep x').
Proof.
  intros Vx Hx emit p sg res I H. inv H.
  - apply bs_rep_0. now apply Hx.
  - eapply bs_rep; [apply Hx; eauto|]. eapply (ref_loop a x x' Vx Hx); eauto; pres.
Qed.

Lemma ref_rep1 a x x' : SV x -> refines a x x' -> refines a (ERepOnce x) (ERepOnce x').
Proof.
  intros Vx Hx emit p sg res I H. inv H.
  - apply bs_rep1x_0; auto.
  - eapply bs_rep1x; [auto|apply Hx; eauto|]. eapply (ref_loop a x x' Vx Hx); eauto; pres.
  - apply bs_rep1d; [auto|].
    match goal with H : Sem.bs _ _ _ _ _ _ (JE (ESeq x (ERep x))) _ _ _ |- _ => revert H end. apply ref_seq; auto. now apply ref_rep.
Qed.

(* bounded repetitions: through their unrolling *)
Lemma seq_of_cons_some e r : exists u, seq_of (e :: r) = Some u.
Proof. destruct r as [|e2 r]; cbn [seq_of]; [eauto|]. destruct (match r with [] => _ | _ => _ end); eauto. Qed.

Lemma ref_seq_of a : forall l l', Forall2 (refines a) l l' -> Forall (fun e => Forall Q (estrs e)) l ->
  (forall u, seq_of l = Some u -> exists u', seq_of l' = Some u' /\ refines a u u') /\ (seq_of l = None -> seq_of l' = None).
Proof.
  induction 1 as [|e e' r r' He Hr IH]; intros V.
  - split; [discriminate|reflexivity].
  - inversion V as [|? ? Ve Vr]; subst. destruct (IH Vr) as [IH1 IH2]. split.
    + intros u. destruct Hr as [|e2 e2' r2 r2' H2 Hr2].
      * cbn [seq_of]. intros [= <-]. eauto.
      * change (seq_of (e :: e2 :: r2)) with (match seq_of (e2 :: r2) with Some x => Some (ESeq e x) | None => Some e end).
        change (seq_of (e' :: e2' :: r2')) with (match seq_of (e2' :: r2') with Some x => Some (ESeq e' x) | None => Some e' end).
        destruct (seq_of_cons_some e2 r2) as [v Ev]. rewrite Ev. intros [= <-].
        destruct (IH1 _ Ev) as [v' [Ev' Rv]]. rewrite Ev'. eexists; split; [reflexivity|]. now apply ref_seq.
    + destruct (seq_of_cons_some e r) as [v Ev]. rewrite Ev. discriminate.
Qed.

Lemma ref_unroll a e e' : is_bounded e = true -> is_bounded e' = true ->
  (forall u, unroll_node extras e = Some u -> exists u', unroll_node extras e' = Some u' /\ refines a u u') ->
  (unroll_node extras e = None -> unroll_node extras e' = None) -> refines a e e'.
Proof.
  intros B B' HS HN emit p sg res I H. inversion H; subst; clear H;
    try (cbn in B; discriminate B); try (match goal with L : leaf _ _ = true |- _ => destruct e; discriminate end).
  - match goal with U : unroll_node _ _ = Some _ |- _ => destruct (HS _ U) as [u' [E' R]] end. eapply bs_bounded; eauto.
  - apply bs_bounded_none; auto.
Qed.

Lemma Forall2_repeat {A} (R : A -> A -> Prop) x y n : R x y -> Forall2 R (repeat x n) (repeat y n).
Proof. intros H. induction n; cbn; constructor; auto. Qed.
Lemma Forall_repeat {A} (P : A -> Prop) x n : P x -> Forall P (repeat x n).
Proof. intros H. induction n; cbn; constructor; auto. Qed.

Lemma ref_repexact a x x' n : SV x -> refines a x x' -> refines a (ERepExact x n) (ERepExact x' n).
Proof.
  intros Vx Hx. assert (F := ref_seq_of a _ _ (Forall2_repeat _ x x' (N.to_nat n) Hx) (Forall_repeat _ x _ Vx)).
  apply ref_unroll; auto; cbn [unroll_node]; unfold repeatn; apply F.
Qed.
Lemma ref_repmax a x x' n : SV x -> refines a x x' -> refines a (ERepMax x n) (ERepMax x' n).
Proof.
  intros Vx Hx. assert (F := ref_seq_of a _ _ (Forall2_repeat _ (EOpt x) (EOpt x') (N.to_nat n) (ref_opt a _ _ Hx)) (Forall_repeat _ (EOpt x) _ Vx)).
  apply ref_unroll; auto; cbn [unroll_node]; unfold repeatn; apply F.
Qed.
Lemma ref_repmin a x x' n : SV x -> refines a x x' -> refines a (ERepMin x n) (ERepMin x' n).
Proof.
  intros Vx Hx.
  assert (F : Forall2 (refines a) (repeat x (N.to_nat n) ++ [ERep x]) (repeat x' (N.to_nat n) ++ [ERep x']))
    by (apply Forall2_app; [now apply Forall2_repeat|constructor; [now apply ref_rep|constructor]]).
  assert (V : Forall (fun e => Forall Q (estrs e)) (repeat x (N.to_nat n) ++ [ERep x]))
    by (apply Forall_app; split; [now apply Forall_repeat|constructor; [exact Vx|constructor]]).
  pose proof (ref_seq_of a _ _ F V) as K.
  apply ref_unroll; auto; cbn [unroll_node]; unfold repeatn; apply K.
Qed.
Lemma ref_repminmax a x x' m n : SV x -> refines a x x' -> refines a (ERepMinMax x m n) (ERepMinMax x' m n).
Proof.
  intros Vx Hx.
  assert (F : Forall2 (refines a) (repeat x (Nat.min (N.to_nat m) (N.to_nat n)) ++ repeat (EOpt x) (N.to_nat n - N.to_nat m))
                                 (repeat x' (Nat.min (N.to_nat m) (N.to_nat n)) ++ repeat (EOpt x') (N.to_nat n - N.to_nat m)))
    by (apply Forall2_app; apply Forall2_repeat; auto; now apply ref_opt).
  assert (V : Forall (fun e => Forall Q (estrs e)) (repeat x (Nat.min (N.to_nat m) (N.to_nat n)) ++ repeat (EOpt x) (N.to_nat n - N.to_nat m)))
    by (apply Forall_app; split; now apply Forall_repeat).
  pose proof (ref_seq_of a _ _ F V) as K.
  apply ref_unroll; auto; cbn [unroll_node]; unfold repeatn; apply K.
Qed.

(* the same, for equivalence (both sides must satisfy the literal condition) *)
Ltac eqv L := intros; repeat match goal with H : equiv _ _ _ |- _ => destruct H end; split; apply L; assumption.
Lemma eqv_seq a l l' r r' : SV l -> SV l' -> equiv a l l' -> equiv a r r' -> equiv a (ESeq l r) (ESeq l' r'). Proof. eqv ref_seq. Qed.
Lemma eqv_cho a l l' r r' : equiv a l l' -> equiv a r r' -> equiv a (EChoice l r) (EChoice l' r'). Proof. eqv ref_cho. Qed.
Lemma eqv_opt a x x' : equiv a x x' -> equiv a (EOpt x) (EOpt x'). Proof. eqv ref_opt. Qed.
Lemma eqv_pos a x x' : equiv a x x' -> equiv a (EPosPred x) (EPosPred x'). Proof. eqv ref_pos. Qed.
Lemma eqv_neg a x x' : equiv a x x' -> equiv a (ENegPred x) (ENegPred x'). Proof. eqv ref_neg. Qed.
Lemma eqv_push a x x' : equiv a x x' -> equiv a (EPush x) (EPush x'). Proof. eqv ref_push. Qed.
Lemma eqv_tag a x x' t : equiv a x x' -> equiv a (ENodeTag x t) (ENodeTag x' t). Proof. eqv ref_tag. Qed.
Lemma eqv_rep a x x' : SV x -> SV x' -> equiv a x x' -> equiv a (ERep x) (ERep x'). Proof. eqv ref_rep. Qed.
Lemma eqv_rep1 a x x' : SV x -> SV x' -> equiv a x x' -> equiv a (ERepOnce x) (ERepOnce x'). Proof. eqv ref_rep1. Qed.
Lemma eqv_repexact a x x' n : SV x -> SV x' -> equiv a x x' -> equiv a (ERepExact x n) (ERepExact x' n). Proof. eqv ref_repexact. Qed.
Lemma eqv_repmin a x x' n : SV x -> SV x' -> equiv a x x' -> equiv a (ERepMin x n) (ERepMin x' n). Proof. eqv ref_repmin. Qed.
Lemma eqv_repmax a x x' n : SV x -> SV x' -> equiv a x x' -> equiv a (ERepMax x n) (ERepMax x' n). Proof. eqv ref_repmax. Qed.
Lemma eqv_repminmax a x x' m n : SV x -> SV x' -> equiv a x x' -> equiv a (ERepMinMax x m n) (ERepMinMax x' m n). Proof. eqv ref_repminmax. Qed.

End Cong.
