(* Adequacy of the big-step presentation (Sem.v) for Peg.Spec.eval:
     bs_sound    : a derivation gives a fuel from which on `eval` (and the loop helpers) return that definite result;
     bs_complete : a definite result of `eval` at any fuel has a derivation;
   hence bs is a function (bs_deterministic) and `evaluates` (exists fuel, eval .. = r definite) coincides with bs. *)
From Coq Require Import List Arith NArith ZArith Bool String Lia.
Import ListNotations.
Require Import PV.Comb.PState PV.Comb.Bytes PV.Iter.Queue PV.Peg.Ast PV.Peg.Spec PV.Peg.SpecFacts PV.Opt.Sem.

Section Adequacy.
Variable G : grammar.
Variable extras : bool.
Variable uprop : name -> option (N -> bool).
Variable w : list byte.

Notation eval := (eval G extras uprop w).
Notation bs := (bs G extras uprop w).
Notation run := (run G).
Notation WS := (nm "WHITESPACE").
Notation CM := (nm "COMMENT").

Lemma one_char_definite ok p sg : one_char w ok p sg <> SFuel.
Proof. unfold one_char. destruct (char_here w p) as [[c n]|]; [destruct (ok c)|]; discriminate. Qed.

Lemma not_calls n : calls_rule G n = false -> builtin_name n = true \/ find_rule G n = None.
Proof.
  unfold calls_rule. intros H. apply andb_false_iff in H. destruct H as [H|H].
  - left. now apply negb_false_iff in H.
  - right. unfold has_rule in H. destruct (find_rule G n); [discriminate|reflexivity].
Qed.

Lemma eval_leaf n a emit e p sg : leaf G e = true -> eval (S n) a emit e p sg = eval 1 a emit e p sg.
Proof.
  destruct e; cbn [leaf]; try discriminate; intros H; cbn [Spec.eval]; try reflexivity.
  apply negb_true_iff in H. apply not_calls in H. unfold builtin_name in H.
  repeat match goal with |- (if ?c then _ else _) = _ => destruct c; [reflexivity|] end.
  destruct (ascii_builtin n0); [reflexivity|].
  destruct H as [H|H]; [cbn in H; discriminate|]. rewrite H. reflexivity.
Qed.

Lemma leaf_definite a emit e p sg : leaf G e = true -> definite (eval 1 a emit e p sg).
Proof.
  unfold definite. destruct e; cbn [leaf]; try discriminate; intros H; cbn [Spec.eval].
  - destruct (lit w s p); discriminate.
  - destruct (_ && _); discriminate.
  - apply one_char_definite.
  - apply negb_true_iff in H. apply not_calls in H. unfold builtin_name in H.
    repeat match goal with |- (if ?c then _ else _) <> _ => destruct c end;
      try (destruct (Nat.eqb _ _); discriminate);
      try (destruct sg as [|top rest]; [discriminate|]; try destruct (lit w top p); discriminate);
      try (destruct (lit_all w sg p); discriminate).
    + destruct (lit w [10%N] p); [discriminate|]. destruct (lit w [13%N; 10%N] p); [discriminate|]. destruct (lit w [13%N] p); discriminate.
    + destruct (ascii_builtin n); [apply one_char_definite|].
      destruct H as [H|H]; [cbn in H; discriminate|]. rewrite H.
      destruct (uprop n); [apply one_char_definite|discriminate].
  - destruct (norm_idx i _); [|discriminate]. destruct (match j with Some _ => _ | None => _ end); [|discriminate].
    destruct (Nat.leb _ _); [discriminate|]. destruct (lit_all _ _ _); discriminate.
Qed.

Lemma eval_call k a emit n r p sg : calls_rule G n = true -> find_rule G n = Some r ->
  eval (S k) a emit (EIdent n) p sg =
  wrap_call (fst (rule_mode (is_special n) (rty r) a emit)) (rule_id G n) p
            (eval k (snd (rule_mode (is_special n) (rty r) a emit)) emit (rexpr r) p sg).
Proof.
  unfold calls_rule, builtin_name. intros H F. apply andb_true_iff in H. destruct H as [H _]. apply negb_true_iff in H.
  repeat (apply orb_false_iff in H; destruct H as [H ?]).
  cbn [Spec.eval].
  repeat match goal with E : str_eqb n ?x = false |- _ => rewrite E; clear E end.
  destruct (ascii_builtin n); [discriminate|]. rewrite F.
  destruct (rule_mode _ _ _ _) as [tk a2]. cbn [fst snd]. unfold wrap_call.
  destruct (Spec.eval _ _ _ _ _ _ _ _ _ _); reflexivity.
Qed.

(* ---------- monotonicity of the judgement runner ---------- *)
Lemma cw_unit_mono e1 e2 n m a emit : ext_ev e1 e2 -> n <= m -> ext_unit (cw_unit e1 n a emit) (cw_unit e2 m a emit).
Proof.
  intros HE Hm p sg r H Hr. unfold cw_unit in *.
  destruct (e1 a emit (EIdent CM) p sg) as [p2 sg2 f2| |] eqn:E1; try congruence.
  - rewrite (HE _ _ _ _ _ _ E1) by discriminate. revert H Hr. now apply many_mono.
  - rewrite (HE _ _ _ _ _ _ E1) by discriminate. exact H.
Qed.

Lemma run_mono_gen e1 e2 n m a emit j p sg r : ext_ev e1 e2 -> n <= m ->
  run e1 n a emit j p sg = r -> r <> SFuel -> run e2 m a emit j p sg = r.
Proof.
  intros HE Hm. destruct j; cbn [Sem.run].
  - apply HE.
  - now apply skip_mono.
  - now apply many_mono.
  - apply loop_mono; auto. now apply cw_unit_mono.
  - now apply rep_from_mono.
Qed.

Lemma run_mono n m a emit j p sg r : n <= m ->
  run (eval n) n a emit j p sg = r -> r <> SFuel -> run (eval m) m a emit j p sg = r.
Proof. intros Hm. apply run_mono_gen; auto. now apply eval_mono. Qed.

Lemma eval_up n m a emit e p sg r : n <= m -> eval n a emit e p sg = r -> r <> SFuel -> eval m a emit e p sg = r.
Proof. intros Hm. now apply eval_mono. Qed.

Lemma loop_S n u p sg acc :
  loop (S n) u p sg acc = match u p sg with SMatch p' sg' f => loop n u p' sg' (acc ++ f) | SFail => SMatch p sg acc | SFuel => SFuel end.
Proof. reflexivity. Qed.

Lemma eval_rep1_x n a emit x p sg : negb extras = false ->
  eval (S n) a emit (ERepOnce x) p sg =
  match eval n a emit x p sg with SMatch p1 sg1 f1 => rep_from_with G (eval n) n a emit x p1 sg1 f1 | r => r end.
Proof. intros H. cbn [Spec.eval]. destruct extras; [reflexivity|discriminate]. Qed.
Lemma eval_rep1_d n a emit x p sg : negb extras = true -> eval (S n) a emit (ERepOnce x) p sg = eval n a emit (ESeq x (ERep x)) p sg.
Proof. intros H. cbn [Spec.eval]. destruct extras; [discriminate|reflexivity]. Qed.

(* ---------- soundness: a derivation yields a sufficient fuel ---------- *)
Definition sound_at (a : atom) (emit : bool) (j : judg) (p : nat) (sg : list str) (res : sres) : Prop :=
  definite res /\ exists n, run (eval n) n a emit j p sg = res.

Ltac IHs := repeat match goal with IH : _ /\ (exists n, _) |- _ =>
  let D := fresh "DF" in let n := fresh "fu" in let E := fresh "EQ" in destruct IH as [D [n E]] end.
(* lift every fuel equation to the common fuel N *)
Ltac lift_all N := repeat match goal with
  | E : Sem.run _ _ ?k _ _ _ _ _ = _ |- _ => tryif constr_eq k N then fail else (apply (run_mono _ N) in E; [|lia|assumption || discriminate]) end.
Ltac rw := repeat (match goal with E : ?l = _ |- context [?l] => tryif is_var l then fail else rewrite E end; cbv iota beta).
Ltac fin N := lift_all N; exists (S N); cbn [Sem.run] in *; cbn [Spec.eval]; rw.

Theorem bs_sound a emit j p sg res : bs a emit j p sg res -> sound_at a emit j p sg res.
Proof.
  unfold sound_at, definite.
  induction 1; IHs.
  - (* leaf *) split; [now apply leaf_definite|]. exists 1. reflexivity.
  - (* call *) split; [destruct res; cbn; congruence|]. exists (S fu). cbn [Sem.run] in *. rewrite (eval_call fu a emit n r p sg H H0). now rewrite EQ.
  - (* seq_l *) split; [discriminate|]. fin fu. reflexivity.
  - (* seq *) split; [destruct res; cbn; congruence|]. set (N := fu + fu0 + fu1). fin N. destruct res; reflexivity.
  - (* cho_l *) split; [discriminate|]. fin fu. reflexivity.
  - (* cho_r *) split; [assumption|]. set (N := fu + fu0). fin N. reflexivity.
  - (* opt *) split; [destruct res; congruence|]. fin fu. destruct res; congruence.
  - (* rep_0 *) split; [discriminate|]. fin fu. reflexivity.
  - (* rep *) split; [assumption|]. set (N := fu + fu0). fin N. reflexivity.
  - (* rep1x_0 *) split; [discriminate|]. exists (S fu). cbn [Sem.run] in *. rewrite eval_rep1_x by assumption. now rewrite EQ.
  - (* rep1x *) split; [assumption|]. set (N := fu + fu0). lift_all N. exists (S N). cbn [Sem.run] in *. rewrite eval_rep1_x by assumption. now rewrite EQ0.
  - (* rep1d *) split; [assumption|]. exists (S fu). cbn [Sem.run] in *. rewrite eval_rep1_d by assumption. exact EQ.
  - (* bounded *) split; [assumption|]. exists (S fu). cbn [Sem.run] in *.
    destruct e; try discriminate; cbn [Spec.eval]; rewrite H0; exact EQ.
  - (* bounded_none *) split; [discriminate|]. exists 1. cbn [Sem.run].
    destruct e; try discriminate; cbn [Spec.eval]; rewrite H0; reflexivity.
  - (* pos *) split; [destruct res; congruence|]. fin fu. destruct res; reflexivity.
  - (* neg *) split; [destruct res; congruence|]. fin fu. destruct res; reflexivity.
  - (* push *) split; [destruct res; congruence|]. fin fu. destruct res; reflexivity.
  - (* tag *) split; [destruct res; congruence|]. fin fu. destruct res; reflexivity.
  - (* many_stop *) split; [discriminate|]. exists (S fu). cbn [Sem.run] in *. unfold many_with. rewrite loop_S.
    rewrite (eval_up fu (S fu) _ _ _ _ _ _ ltac:(lia) EQ ltac:(discriminate)). reflexivity.
  - (* many_step *) split; [assumption|]. set (N := fu + fu0). lift_all N.
    exists (S N). cbn [Sem.run] in *. unfold many_with. rewrite loop_S.
    rewrite (eval_up N (S N) _ _ _ _ _ _ ltac:(lia) EQ0 ltac:(discriminate)).
    revert EQ DF. apply many_mono; [apply eval_mono|]; lia.
  - (* cw_stop *) split; [discriminate|]. exists (S fu). cbn [Sem.run] in *. rewrite loop_S. unfold cw_unit.
    rewrite (eval_up fu (S fu) _ _ _ _ _ _ ltac:(lia) EQ ltac:(discriminate)). reflexivity.
  - (* cw_step *) split; [assumption|]. set (N := fu + fu0 + fu1). lift_all N.
    exists (S N). cbn [Sem.run] in *. rewrite loop_S. unfold cw_unit at 1.
    rewrite (eval_up N (S N) _ _ _ _ _ _ ltac:(lia) EQ1 ltac:(discriminate)).
    rewrite (many_mono _ _ N (S N) _ _ _ _ _ _ _ (eval_mono G extras uprop w N (S N) ltac:(lia)) ltac:(lia) EQ0) by discriminate.
    revert EQ DF. apply loop_mono; [|lia]. apply cw_unit_mono; [apply eval_mono|]; lia.
  - (* rep_stop *) split; [discriminate|]. set (N := fu + fu0). lift_all N.
    exists (S N). cbn [Sem.run] in *. unfold rep_from_with. rewrite loop_S. unfold rep_unit at 1.
    rewrite (skip_mono G _ _ N (S N) _ _ _ _ _ (eval_mono G extras uprop w N (S N) ltac:(lia)) ltac:(lia) EQ0) by discriminate.
    rewrite (eval_up N (S N) _ _ _ _ _ _ ltac:(lia) EQ ltac:(discriminate)). reflexivity.
  - (* rep_step *) split; [assumption|]. set (N := fu + fu0 + fu1). lift_all N.
    exists (S N). cbn [Sem.run] in *. unfold rep_from_with in *. rewrite loop_S. unfold rep_unit at 1.
    rewrite (skip_mono G _ _ N (S N) _ _ _ _ _ (eval_mono G extras uprop w N (S N) ltac:(lia)) ltac:(lia) EQ1) by discriminate.
    rewrite (eval_up N (S N) _ _ _ _ _ _ ltac:(lia) EQ0 ltac:(discriminate)).
    revert EQ DF. apply loop_mono; [|lia]. apply rep_unit_mono; [apply eval_mono|]; lia.
  - (* skip_atomic *) split; [discriminate|]. exists 0. cbn [Sem.run]. unfold skip_with. now rewrite H.
  - (* skip_none *) split; [discriminate|]. exists 0. cbn [Sem.run]. unfold skip_with. now rewrite H, H0, H1.
  - (* skip_ws *) split; [assumption|]. exists fu. cbn [Sem.run] in *. unfold skip_with. now rewrite H, H0, H1.
  - (* skip_cm *) split; [assumption|]. exists fu. cbn [Sem.run] in *. unfold skip_with. now rewrite H, H0, H1.
  - (* skip_both *) split; [assumption|]. set (N := fu + fu0). lift_all N.
    exists N. cbn [Sem.run] in *. unfold skip_with. rewrite H, H0, H1. cbn [negb]. rewrite EQ0. exact EQ.
Qed.

(* ---------- completeness: a definite result of eval has a derivation ---------- *)
Lemma loop_not_fail k u p sg acc : loop k u p sg acc <> SFail.
Proof. revert p sg acc; induction k as [|k IH]; intros p sg acc; cbn [loop]; [discriminate|]. destruct (u p sg); auto; discriminate. Qed.

Lemma skip_not_fail ev k a emit p sg : skip_with G ev k a emit p sg <> SFail.
Proof.
  unfold skip_with. destruct (negb _); [discriminate|]. destruct (has_rule G _), (has_rule G _); try discriminate; try apply loop_not_fail.
  unfold many_with. destruct (loop k _ p sg []) eqn:E; try discriminate; [apply loop_not_fail|]. now apply loop_not_fail in E.
Qed.

Section Level.
Variable n : nat.
Hypothesis HE : forall a emit e p sg res, eval n a emit e p sg = res -> definite res -> bs a emit (JE e) p sg res.

Lemma many_complete k a emit nm0 : forall acc p sg res,
  many_with (eval n) k a emit nm0 p sg acc = res -> definite res -> bs a emit (JMany nm0 acc) p sg res.
Proof.
  unfold many_with, definite. induction k as [|k IH]; intros acc p sg res H D; [cbn in H; congruence|].
  rewrite loop_S in H. destruct (eval n a emit (EIdent nm0) p sg) as [p1 sg1 f1| |] eqn:E; [| |congruence].
  - eapply bs_many_step; [apply HE; [exact E|discriminate]|]. now apply IH.
  - subst res. apply bs_many_stop. apply HE; [exact E|discriminate].
Qed.

Lemma cw_complete k' a emit k : forall acc p sg res,
  loop k (cw_unit (eval n) k' a emit) p sg acc = res -> definite res -> bs a emit (JCW acc) p sg res.
Proof.
  unfold definite. induction k as [|k IH]; intros acc p sg res H D; [cbn in H; congruence|].
  rewrite loop_S in H. unfold cw_unit at 1 in H.
  destruct (eval n a emit (EIdent CM) p sg) as [p2 sg2 f2| |] eqn:E; [| |congruence].
  - destruct (many_with (eval n) k' a emit WS p2 sg2 f2) as [p3 sg3 f3| |] eqn:M; [| |congruence].
    + eapply bs_cw_step; [apply HE; [exact E|discriminate]|eapply many_complete; [exact M|discriminate]|]. now apply IH.
    + exfalso. revert M. apply loop_not_fail.
  - subst res. apply bs_cw_stop. apply HE; [exact E|discriminate].
Qed.

Lemma skip_complete k a emit p sg res : skip_with G (eval n) k a emit p sg = res -> definite res -> bs a emit JSkip p sg res.
Proof.
  unfold skip_with, definite. intros H D.
  destruct (atom_eqb a NonAtomic) eqn:A; cbn [negb] in H; [|subst res; now apply bs_skip_atomic].
  destruct (has_rule G WS) eqn:HW, (has_rule G CM) eqn:HC.
  - destruct (many_with (eval n) k a emit WS p sg []) as [p1 sg1 f1| |] eqn:M.
    + eapply bs_skip_both; auto; [eapply many_complete; [exact M|discriminate]|]. eapply cw_complete; [exact H|exact D].
    + exfalso. revert M. apply loop_not_fail.
    + congruence.
  - apply bs_skip_ws; auto. eapply many_complete; eauto.
  - apply bs_skip_cm; auto. eapply many_complete; eauto.
  - subst res. now apply bs_skip_none.
Qed.

Lemma rep_complete k' a emit x k : forall acc p sg res,
  loop k (rep_unit G (eval n) k' a emit x) p sg acc = res -> definite res -> bs a emit (JRep x acc) p sg res.
Proof.
  unfold definite. induction k as [|k IH]; intros acc p sg res H D; [cbn in H; congruence|].
  rewrite loop_S in H. unfold rep_unit at 1 in H.
  destruct (skip_with G (eval n) k' a emit p sg) as [p1 sg1 f1| |] eqn:S1; [| |congruence].
  - destruct (eval n a emit x p1 sg1) as [p2 sg2 f2| |] eqn:E; [| |congruence].
    + eapply bs_rep_step; [eapply skip_complete; [exact S1|discriminate]|apply HE; [exact E|discriminate]|]. now apply IH.
    + subst res. eapply bs_rep_stop; [eapply skip_complete; [exact S1|discriminate]|apply HE; [exact E|discriminate]].
  - exfalso. revert S1. apply skip_not_fail.
Qed.
End Level.

Theorem bs_complete : forall n a emit e p sg res, eval n a emit e p sg = res -> definite res -> bs a emit (JE e) p sg res.
Proof.
  unfold definite. induction n as [|n IH]; intros a emit e p sg res H D; [cbn in H; congruence|].
  destruct (leaf G e) eqn:L.
  { rewrite eval_leaf in H by assumption. subst res. now apply bs_leaf. }
  assert (SK := skip_complete n IH). assert (RP := rep_complete n IH).
  destruct e; cbn [leaf] in L; try discriminate.
  - (* EIdent: a rule call *)
    apply negb_false_iff in L. assert (C := L). unfold calls_rule in C. apply andb_true_iff in C. destruct C as [_ C].
    unfold has_rule in C. destruct (find_rule G n0) as [r|] eqn:F; [|discriminate].
    rewrite (eval_call n a emit n0 r p sg L F) in H. subst res. apply bs_call; auto.
    apply IH; [reflexivity|]. intros X. rewrite X in D. cbn in D. congruence.
  - (* EPosPred *) cbn [Spec.eval] in H. subst res. apply (bs_pos G extras uprop w a emit e p sg (eval n a false e p sg)). apply IH; [reflexivity|].
    intros X. rewrite X in D. congruence.
  - (* ENegPred *) cbn [Spec.eval] in H. subst res. apply (bs_neg G extras uprop w a emit e p sg (eval n a false e p sg)). apply IH; [reflexivity|].
    intros X. rewrite X in D. congruence.
  - (* ESeq *) cbn [Spec.eval] in H.
    destruct (eval n a emit e1 p sg) as [p1 sg1 f1| |] eqn:E1; [| |congruence].
    + destruct (skip_with G (eval n) n a emit p1 sg1) as [p2 sg2 f2| |] eqn:E2; [| |congruence].
      * assert (B3 : bs a emit (JE e2) p2 sg2 (eval n a emit e2 p2 sg2)).
        { apply IH; [reflexivity|]. intros X. rewrite X in H. congruence. }
        pose proof (bs_seq G extras uprop w a emit e1 e2 p sg p1 sg1 f1 p2 sg2 f2 _ (IH _ _ _ _ _ _ E1 ltac:(discriminate)) (SK _ _ _ _ _ _ E2 ltac:(discriminate)) B3) as B.
        subst res. exact B.
      * exfalso. revert E2. apply skip_not_fail.
    + subst res. apply bs_seq_l. apply IH; [exact E1|discriminate].
  - (* EChoice *) cbn [Spec.eval] in H.
    destruct (eval n a emit e1 p sg) as [p1 sg1 f1| |] eqn:E1; [| |congruence].
    + subst res. apply bs_cho_l. apply IH; [exact E1|discriminate].
    + apply bs_cho_r; [apply IH; [exact E1|discriminate]|now apply IH].
  - (* EOpt *) cbn [Spec.eval] in H. subst res. apply (bs_opt G extras uprop w a emit e p sg (eval n a emit e p sg)). apply IH; [reflexivity|].
    intros X. rewrite X in D. congruence.
  - (* ERep *) cbn [Spec.eval] in H.
    destruct (eval n a emit e p sg) as [p1 sg1 f1| |] eqn:E1; [| |congruence].
    + eapply bs_rep; [apply IH; [exact E1|discriminate]|]. eapply RP; eauto.
    + subst res. apply bs_rep_0. apply IH; [exact E1|discriminate].
  - (* ERepOnce *)
    destruct (Bool.bool_dec (negb extras) false) as [X|X]; [|apply not_false_is_true in X].
    + rewrite eval_rep1_x in H by assumption.
      destruct (eval n a emit e p sg) as [p1 sg1 f1| |] eqn:E1; [| |congruence].
      * eapply bs_rep1x; [exact X|apply IH; [exact E1|discriminate]|]. eapply RP; eauto.
      * subst res. apply bs_rep1x_0; [exact X|]. apply IH; [exact E1|discriminate].
    + rewrite eval_rep1_d in H by assumption. apply bs_rep1d; [exact X|]. now apply IH.
  - cbn [Spec.eval] in H. destruct (unroll_node extras (ERepExact e n0)) as [u|] eqn:U.
    + eapply bs_bounded; eauto. + subst res. now apply bs_bounded_none.
  - cbn [Spec.eval] in H. destruct (unroll_node extras (ERepMin e n0)) as [u|] eqn:U.
    + eapply bs_bounded; eauto. + subst res. now apply bs_bounded_none.
  - cbn [Spec.eval] in H. destruct (unroll_node extras (ERepMax e n0)) as [u|] eqn:U.
    + eapply bs_bounded; eauto. + subst res. now apply bs_bounded_none.
  - cbn [Spec.eval] in H. destruct (unroll_node extras (ERepMinMax e m n0)) as [u|] eqn:U.
    + eapply bs_bounded; eauto. + subst res. now apply bs_bounded_none.
  - (* EPush *) cbn [Spec.eval] in H. subst res. apply (bs_push G extras uprop w a emit e p sg (eval n a emit e p sg)). apply IH; [reflexivity|].
    intros X. rewrite X in D. congruence.
  - (* ENodeTag *) cbn [Spec.eval] in H. subst res. apply (bs_tag G extras uprop w a emit e t p sg (eval n a emit e p sg)). apply IH; [reflexivity|].
    intros X. rewrite X in D. congruence.
Qed.

(* ---------- consequences ---------- *)
Theorem bs_iff_evaluates a emit e p sg res : bs a emit (JE e) p sg res <-> evaluates G extras uprop w a emit e p sg res.
Proof.
  split.
  - intros H. destruct (bs_sound _ _ _ _ _ _ H) as [D [n E]]. exists n. split; assumption.
  - intros [n [E D]]. eapply bs_complete; eauto.
Qed.

Lemma bs_definite a emit j p sg res : bs a emit j p sg res -> definite res.
Proof. intros H. apply (bs_sound _ _ _ _ _ _ H). Qed.

Theorem bs_deterministic a emit j p sg r1 r2 : bs a emit j p sg r1 -> bs a emit j p sg r2 -> r1 = r2.
Proof.
  intros H1 H2. destruct (bs_sound _ _ _ _ _ _ H1) as [D1 [n1 E1]]. destruct (bs_sound _ _ _ _ _ _ H2) as [D2 [n2 E2]].
  apply (run_mono n1 (n1 + n2)) in E1; [|lia|exact D1]. apply (run_mono n2 (n1 + n2)) in E2; [|lia|exact D2]. congruence.
Qed.

End Adequacy.
