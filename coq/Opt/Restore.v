(* Layer F: meta/src/optimizer/restorer.rs.
   child_modifies_state walks `expr.iter_top_down()` with `.any(..)` (short-circuit), following rule names
   through the HashMap of the optimized (not yet restored) rules with a cache HashMap<String, Option<bool>>:
   absent = not visited, Some(None) = being visited, Some(Some(b)) = result known.
   Flags: fixpop = fixes/C05-1 (POP_ALL is a state-modifying name), fixmap = fixes/C05-2 (OptimizedExpr
   traversals descend into RepOnce / NodeTag).                                                   *)
From Coq Require Import List Arith NArith ZArith Bool String.
Import ListNotations.
Require Import PV.Comb.PState PV.Peg.Ast PV.Opt.MapExpr.

Definition ccache := list (name * option bool).
Fixpoint cache_get (c : ccache) (n : name) : option (option bool) :=
  match c with [] => None | (k, v) :: r => if str_eqb k n then Some v else cache_get r n end.
Definition cache_set (c : ccache) (n : name) (v : option bool) : ccache := (n, v) :: c.   (* insert: newest binding wins *)

Section Cms.
Variable fixpop fixmap : bool.
Variable rules : ogrammar.

(* what the closure passed to `.any(..)` does with one node; `rec` is child_modifies_state itself (one level deeper) *)
Definition cms_visit (rec : oexpr -> ccache -> option (bool * ccache)) (x : oexpr) (c : ccache) : option (bool * ccache) :=
  match x with
  | OPush _ => Some (true, c)
  | OIdent name =>
      if str_eqb name (nm "DROP") then Some (true, c)
      else if str_eqb name (nm "POP") then Some (true, c)
      else if fixpop && str_eqb name (nm "POP_ALL") then Some (true, c)
      else match cache_get c name with
           | Some (Some cached) => Some (cached, c)
           | Some None => Some (false, cache_set c name (Some false))
           | None =>
               let c1 := cache_set c name None in
               match (match omap_get rules name with
                      | Some body => rec body c1
                      | None => Some (false, c1)
                      end) with
               | Some (result, c2) => Some (result, cache_set c2 name (Some result))
               | None => None
               end
           end
  | _ => Some (false, c)
  end.
(* Iterator::any over the nodes, short-circuiting *)
Fixpoint cms_any (rec : oexpr -> ccache -> option (bool * ccache)) (l : list oexpr) (c : ccache) : option (bool * ccache) :=
  match l with
  | [] => Some (false, c)
  | x :: rest =>
      match cms_visit rec x c with
      | Some (true, c') => Some (true, c')
      | Some (false, c') => cms_any rec rest c'
      | None => None
      end
  end.
(* fuel: every recursive call is made for a name that is not in the cache yet and is a key of `rules` *)
Fixpoint cms (fuel : nat) (e : oexpr) (c : ccache) : option (bool * ccache) :=
  match fuel with
  | O => None
  | S n => cms_any (cms n) (oiter_top_down fixmap e) c
  end.

Definition cms_fuel : nat := S (S (List.length rules)).
(* child_modifies_state(&e, rules, &mut HashMap::new()); running out of fuel is impossible (RestoreProofs) and is
   mapped to `true` (wrap) here so that the function is total *)
Definition child_modifies_state (e : oexpr) : bool :=
  match cms cms_fuel e [] with Some (b, _) => b | None => true end.

Definition wrap_if (e : oexpr) : oexpr := if child_modifies_state e then ORestoreOnErr e else e.
Definition wrap_branching_exprs (e : oexpr) : oexpr :=
  match e with
  | OOpt x => OOpt (wrap_if x)
  | OChoice l r => OChoice (wrap_if l) (wrap_if r)
  | ORep x => ORep (wrap_if x)
  | _ => e
  end.

Definition restore_expr (e : oexpr) : oexpr := omap_bottom_up fixmap wrap_branching_exprs e.
Definition restore_rule (r : orule) : orule := {| oname := oname r; oty := oty r; oexpr_of := restore_expr (oexpr_of r) |}.
End Cms.

(* restore_on_err over all rules, with the map built from the rules before restoration *)
Definition restore_all (fixpop fixmap : bool) (g : ogrammar) : ogrammar := map (restore_rule fixpop fixmap g) g.
