(* Transfer of derivations between two grammars with the same rule names/types whose bodies refine each
   other IN THE TARGET grammar.  Induction on derivations: at a rule call the induction hypothesis moves the
   body's derivation to the target grammar, where the per-rule refinement finishes the step.           *)
From Coq Require Import List Arith NArith ZArith Bool String Lia.
Import ListNotations.
Require Import PV.Comb.PState PV.Comb.Bytes PV.Iter.Queue PV.Peg.Ast PV.Peg.Spec PV.Peg.SpecFacts PV.Opt.Sem PV.Opt.SemProofs PV.Opt.SemCong.

Section Transfer.
Variables G1 G2 : grammar.
Variable extras : bool.
Variable uprop : name -> option (N -> bool).
Variable w : list byte.
Variable Q : str -> Prop.
Variable Inv : state_inv.

Hypothesis Hsig : forall n, match find_rule G1 n, find_rule G2 n with
                            | Some r1, Some r2 => rty r1 = rty r2
                            | None, None => True
                            | _, _ => False
                            end.
Hypothesis Hid : forall n, rule_id G1 n = rule_id G2 n.
Hypothesis HP1 : preserved G1 extras uprop w Q Inv.
Hypothesis HQ1 : forall n r, find_rule G1 n = Some r -> Forall Q (estrs (rexpr r)).
Hypothesis Hbody : forall n r1 r2 a emit, find_rule G1 n = Some r1 -> find_rule G2 n = Some r2 ->
  refines G2 extras uprop w Inv (snd (rule_mode (is_special n) (rty r1) a emit)) (rexpr r1) (rexpr r2).

Lemma has_rule_eq n : has_rule G1 n = has_rule G2 n.
Proof. unfold has_rule. specialize (Hsig n). destruct (find_rule G1 n), (find_rule G2 n); tauto. Qed.
Lemma calls_rule_eq n : calls_rule G1 n = calls_rule G2 n.
Proof. unfold calls_rule. now rewrite has_rule_eq. Qed.
Lemma leaf_eq e : leaf G1 e = leaf G2 e.
Proof. destruct e; cbn [leaf]; auto. now rewrite calls_rule_eq. Qed.

Lemma leaf_eval_eq a emit e p sg : leaf G1 e = true ->
  eval G1 extras uprop w 1 a emit e p sg = eval G2 extras uprop w 1 a emit e p sg.
Proof.
  destruct e; cbn [leaf]; try discriminate; intros H; cbn [Spec.eval]; try reflexivity.
  apply negb_true_iff in H. apply not_calls in H. unfold builtin_name in H.
  rewrite (Hid (nm "EOI")).
  repeat match goal with |- (if ?c then _ else _) = _ => destruct c; [reflexivity|] end.
  destruct (ascii_builtin n); [reflexivity|].
  destruct H as [H|H]; [cbn in H; discriminate|]. specialize (Hsig n). rewrite H in *.
  destruct (find_rule G2 n); [contradiction|reflexivity].
Qed.

(* literals of an unrolling are literals of the repeated expression *)
Lemma seq_of_strs : forall l u, seq_of l = Some u -> forall s, In s (estrs u) -> exists e, In e l /\ In s (estrs e).
Proof.
  induction l as [|e r IH]; intros u H s Hs; [discriminate|].
  destruct r as [|e2 r2].
  - cbn in H. injection H as <-. exists e. split; [now left|exact Hs].
  - change (seq_of (e :: e2 :: r2)) with (match seq_of (e2 :: r2) with Some x => Some (ESeq e x) | None => Some e end) in H.
    destruct (seq_of (e2 :: r2)) as [v|] eqn:Ev.
    + injection H as <-. cbn [estrs] in Hs. apply in_app_or in Hs. destruct Hs as [Hs|Hs].
      * exists e. split; [now left|exact Hs].
      * destruct (IH _ eq_refl _ Hs) as [e0 [A B]]. exists e0. split; [now right|exact B].
    + injection H as <-. exists e. split; [now left|exact Hs].
Qed.

Lemma unroll_node_strs e u : is_bounded e = true -> unroll_node extras e = Some u -> Forall Q (estrs e) -> Forall Q (estrs u).
Proof.
  intros B U V. apply Forall_forall. intros s Hs. rewrite Forall_forall in V. apply V.
  destruct e; try discriminate; cbn [unroll_node] in U; unfold repeatn in U; destruct (seq_of_strs _ _ U _ Hs) as [e0 [A C]]; cbn [estrs];
    repeat (apply in_app_or in A; destruct A as [A|A]); try (apply repeat_spec in A; subst e0; exact C);
    try (destruct A as [<-|[]]; exact C).
Qed.

Ltac pres1 := repeat match goal with
  | |- Inv _ _ => assumption
  | H : bs G1 _ _ _ _ _ _ _ _ (SMatch ?p ?sg _) |- Inv ?p ?sg => refine (HP1 _ _ _ _ _ _ _ _ _ H _); [cbn [jvalid estrs]; try exact I; auto|]
  end.
Ltac jv := cbn [jvalid estrs]; try exact I; auto.

Theorem transfer a emit j p sg res :
  bs G1 extras uprop w a emit j p sg res -> jvalid Q j -> Inv p sg -> bs G2 extras uprop w a emit j p sg res.
Proof.
  induction 1; intros V I; cbn [jvalid estrs] in V; try (apply Forall_app in V; destruct V as [V1 V2]).
  - rewrite leaf_eval_eq by assumption. apply bs_leaf. now rewrite <- leaf_eq.
  - pose proof (Hsig n) as S. rewrite H0 in S. destruct (find_rule G2 n) as [r2|] eqn:F2; [|contradiction].
    rewrite Hid, S. apply bs_call; [now rewrite <- calls_rule_eq|exact F2|].
    rewrite <- S. eapply Hbody; eauto; try (apply IHbs; [cbn [jvalid]; eapply HQ1; eauto|auto]).
  - apply bs_seq_l; auto.
  - eapply bs_seq; [apply IHbs1; auto|apply IHbs2; [jv|pres1]|apply IHbs3; [jv|pres1]].
  - apply bs_cho_l; auto.
  - apply bs_cho_r; auto.
  - apply bs_opt; auto.
  - apply bs_rep_0; auto.
  - eapply bs_rep; [apply IHbs1; auto|apply IHbs2; [jv|pres1]].
  - apply bs_rep1x_0; auto.
  - eapply bs_rep1x; [assumption|apply IHbs1; auto|apply IHbs2; [jv|pres1]].
  - apply bs_rep1d; auto. apply IHbs; auto. cbn [jvalid estrs]. apply Forall_app; auto.
  - eapply bs_bounded; eauto. apply IHbs; auto. cbn [jvalid]. eapply unroll_node_strs; eauto.
  - apply bs_bounded_none; auto.
  - apply bs_pos; auto.
  - apply bs_neg; auto.
  - apply bs_push; auto.
  - apply bs_tag; auto.
  - apply bs_many_stop; auto; try (apply IHbs; [jv|auto]).
  - eapply bs_many_step; [apply IHbs1; [jv|auto]|apply IHbs2; [jv|pres1]].
  - apply bs_cw_stop; auto; try (apply IHbs; [jv|auto]).
  - eapply bs_cw_step; [apply IHbs1; [jv|auto]|apply IHbs2; [jv|pres1]|apply IHbs3; [jv|pres1]].
  - eapply bs_rep_stop; [apply IHbs1; [jv|auto]|apply IHbs2; [jv|pres1]].
  - eapply bs_rep_step; [apply IHbs1; [jv|auto]|apply IHbs2; [jv|pres1]|apply IHbs3; [jv|pres1]].
  - now apply bs_skip_atomic.
  - apply bs_skip_none; auto; now rewrite <- has_rule_eq.
  - apply bs_skip_ws; auto; try (now rewrite <- has_rule_eq); try (apply IHbs; [jv|auto]).
  - apply bs_skip_cm; auto; try (now rewrite <- has_rule_eq); try (apply IHbs; [jv|auto]).
  - eapply bs_skip_both; auto; try (now rewrite <- has_rule_eq); try (apply IHbs1; [jv|auto]); try (apply IHbs2; [jv|pres1]).
Qed.

End Transfer.
