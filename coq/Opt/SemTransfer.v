(* Transfer of derivations between two grammars with the same rule names/types whose bodies refine each
   other IN THE TARGET grammar.  Induction on derivations: at a rule call the induction hypothesis moves the
   body's derivation to the target grammar, where the per-rule refinement finishes the step.           *)
From Coq Require Import List Arith NArith ZArith Bool String Lia.
Import ListNotations.
Require Import PV.Comb.PState PV.Comb.Bytes PV.Iter.Queue PV.Peg.Ast PV.Peg.Spec PV.Peg.SpecFacts PV.Opt.Sem PV.Opt.SemProofs PV.Opt.SemCong.

Section Transfer.
Variables G1 G2 : grammar.
Variable extras : bool.
Variable uprop : name -> option (N -> bool).
Variable w : list byte.
Variable Inv : state_inv.

Hypothesis Hsig : forall n, match find_rule G1 n, find_rule G2 n with
                            | Some r1, Some r2 => rty r1 = rty r2
                            | None, None => True
                            | _, _ => False
                            end.
Hypothesis Hid : forall n, rule_id G1 n = rule_id G2 n.
Hypothesis HP1 : preserved G1 extras uprop w Inv.
Hypothesis Hbody : forall n r1 r2 a emit, find_rule G1 n = Some r1 -> find_rule G2 n = Some r2 ->
  refines G2 extras uprop w Inv (snd (rule_mode (is_special n) (rty r1) a emit)) (rexpr r1) (rexpr r2).

Lemma has_rule_eq n : has_rule G1 n = has_rule G2 n.
Proof. unfold has_rule. specialize (Hsig n). destruct (find_rule G1 n), (find_rule G2 n); tauto. Qed.
Lemma calls_rule_eq n : calls_rule G1 n = calls_rule G2 n.
Proof. unfold calls_rule. now rewrite has_rule_eq. Qed.
Lemma leaf_eq e : leaf G1 e = leaf G2 e.
Proof. destruct e; cbn [leaf]; auto. now rewrite calls_rule_eq. Qed.

Lemma leaf_eval_eq a emit e p sg : leaf G1 e = true ->
  eval G1 extras uprop w 1 a emit e p sg = eval G2 extras uprop w 1 a emit e p sg.
Proof.
  destruct e; cbn [leaf]; try discriminate; intros H; cbn [Spec.eval]; try reflexivity.
  apply negb_true_iff in H. apply not_calls in H. unfold builtin_name in H.
  rewrite (Hid (nm "EOI")).
  repeat match goal with |- (if ?c then _ else _) = _ => destruct c; [reflexivity|] end.
  destruct (ascii_builtin n); [reflexivity|].
  destruct H as [H|H]; [cbn in H; discriminate|]. specialize (Hsig n). rewrite H in *.
  destruct (find_rule G2 n); [contradiction|reflexivity].
Qed.

Ltac pres1 := repeat match goal with
  | |- Inv _ _ => assumption
  | H : bs G1 _ _ _ _ _ _ _ _ (SMatch ?p ?sg _) |- Inv ?p ?sg => apply (HP1 _ _ _ _ _ _ _ _ H)
  end.

Theorem transfer a emit j p sg res :
  bs G1 extras uprop w a emit j p sg res -> Inv p sg -> bs G2 extras uprop w a emit j p sg res.
Proof.
  induction 1; intros I.
  - rewrite leaf_eval_eq by assumption. apply bs_leaf. now rewrite <- leaf_eq.
  - pose proof (Hsig n) as S. rewrite H0 in S. destruct (find_rule G2 n) as [r2|] eqn:F2; [|contradiction].
    rewrite Hid, S. apply bs_call; [now rewrite <- calls_rule_eq|exact F2|].
    rewrite <- S. eapply Hbody; eauto.
  - apply bs_seq_l; auto.
  - eapply bs_seq; [apply IHbs1; auto|apply IHbs2; pres1|apply IHbs3; pres1].
  - apply bs_cho_l; auto.
  - apply bs_cho_r; auto.
  - apply bs_opt; auto.
  - apply bs_rep_0; auto.
  - eapply bs_rep; [apply IHbs1; auto|apply IHbs2; pres1].
  - apply bs_rep1x_0; auto.
  - eapply bs_rep1x; [assumption|apply IHbs1; auto|apply IHbs2; pres1].
  - apply bs_rep1d; auto.
  - eapply bs_bounded; eauto.
  - apply bs_bounded_none; auto.
  - apply bs_pos; auto.
  - apply bs_neg; auto.
  - apply bs_push; auto.
  - apply bs_tag; auto.
  - apply bs_many_stop; auto.
  - eapply bs_many_step; [apply IHbs1; auto|apply IHbs2; pres1].
  - apply bs_cw_stop; auto.
  - eapply bs_cw_step; [apply IHbs1; auto|apply IHbs2; pres1|apply IHbs3; pres1].
  - eapply bs_rep_stop; [apply IHbs1; auto|apply IHbs2; pres1].
  - eapply bs_rep_step; [apply IHbs1; auto|apply IHbs2; pres1|apply IHbs3; pres1].
  - now apply bs_skip_atomic.
  - apply bs_skip_none; auto; now rewrite <- has_rule_eq.
  - apply bs_skip_ws; auto; now rewrite <- has_rule_eq.
  - apply bs_skip_cm; auto; now rewrite <- has_rule_eq.
  - eapply bs_skip_both; auto; try (now rewrite <- has_rule_eq). apply IHbs2; pres1.
Qed.

End Transfer.
