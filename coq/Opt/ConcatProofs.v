(* concatenate preserves the documented meaning.  It is applied in Atomic rules only, where `~` skips nothing;
   "a" ~ "b" = "ab" is a fact about byte prefixes; ^"a" ~ ^"b" = ^"ab" additionally needs that the char boundary
   required after ^"a" is implied by the match of ^"ab": true because the literal b is valid UTF-8 (its first byte is
   not a continuation byte, and ASCII case folding never turns a continuation byte into another class).       *)
From Coq Require Import List Arith NArith ZArith Bool String Lia.
Import ListNotations.
Require Import PV.Comb.PState PV.Comb.Bytes PV.Comb.Utf8 PV.Iter.Queue PV.Peg.Ast PV.Peg.Spec PV.Opt.Sem PV.Opt.SemProofs PV.Opt.SemCong
  PV.Opt.SemTransfer PV.Opt.SemLaws PV.Opt.MapExpr PV.Opt.MapExprProofs PV.Opt.PassProofs PV.Opt.Concat.

Lemma skipn_add' {A} (p k : nat) : forall l : list A, skipn (p + k) l = skipn k (skipn p l).
Proof. induction p as [|p IH]; intros l; [reflexivity|]. destruct l as [|x l]; [now rewrite !skipn_nil|]. cbn [Nat.add skipn]. apply IH. Qed.

Lemma prefixb_app x y : forall l, prefixb (x ++ y) l = prefixb x l && prefixb y (skipn (List.length x) l).
Proof.
  induction x as [|b x IH]; intros l; [reflexivity|]. destruct l as [|c l]; [reflexivity|].
  cbn [app prefixb List.length skipn]. rewrite IH. now rewrite andb_assoc.
Qed.
Lemma prefixb_ci_app x y : forall l, prefixb_ci (x ++ y) l = prefixb_ci x l && prefixb_ci y (skipn (List.length x) l).
Proof.
  induction x as [|b x IH]; intros l; [reflexivity|]. destruct l as [|c l]; [reflexivity|].
  cbn [app prefixb_ci List.length skipn]. rewrite IH. now rewrite andb_assoc.
Qed.

Lemma ascii_lower_cont b c : ascii_lower b = ascii_lower c -> is_cont b = is_cont c.
Proof.
  unfold ascii_lower, is_cont.
  destruct (65 <=? b)%N eqn:A1, (b <=? 90)%N eqn:A2, (65 <=? c)%N eqn:B1, (c <=? 90)%N eqn:B2; cbn [andb]; intros E;
    repeat match goal with
    | H : (_ <=? _)%N = true |- _ => apply N.leb_le in H
    | H : (_ <=? _)%N = false |- _ => apply N.leb_gt in H
    end; try (subst; reflexivity);
    destruct (128 <=? b)%N eqn:C1, (128 <=? c)%N eqn:C2, (b <? 192)%N eqn:D1, (c <? 192)%N eqn:D2; cbn [andb]; try reflexivity;
    repeat match goal with
    | H : (_ <=? _)%N = true |- _ => apply N.leb_le in H
    | H : (_ <=? _)%N = false |- _ => apply N.leb_gt in H
    | H : (_ <? _)%N = true |- _ => apply N.ltb_lt in H
    | H : (_ <? _)%N = false |- _ => apply N.ltb_ge in H
    end; lia.
Qed.

Section ConcatSem.
Variable G : grammar.
Variable extras : bool.
Variable uprop : name -> option (N -> bool).
Variable w : list byte.
Variable Inv : state_inv.
Hypothesis HP : preserved G extras uprop w valid_utf8 Inv.
Notation equiv := (equiv G extras uprop w Inv).
Notation bs := (bs G extras uprop w).
Notation ev1 := (eval G extras uprop w 1).

Lemma leaf_inv a emit e p sg res : leaf G e = true -> bs a emit (JE e) p sg res -> res = ev1 a emit e p sg.
Proof.
  intros L H. inversion H; subst; clear H; try reflexivity; try (cbn in L; discriminate L).
  - cbn [leaf] in L. rewrite H1 in L. discriminate.
  - destruct e; discriminate.
  - destruct e; discriminate.
Qed.

Lemma lit_app x y p : lit w (x ++ y) p = match lit w x p with Some q => lit w y q | None => None end.
Proof.
  unfold lit. rewrite prefixb_app. destruct (prefixb x (skipn p w)); cbn [andb]; [|reflexivity].
  rewrite <- skipn_add'. rewrite app_length. destruct (prefixb y _); [f_equal; lia|reflexivity].
Qed.

Definition ins_ok (s : str) (p : nat) : bool := boundaryb w (p + List.length s) && prefixb_ci s (skipn p w).

Lemma prefixb_ci_head y l b y' : y = b :: y' -> prefixb_ci y l = true -> exists c l', l = c :: l' /\ ascii_lower b = ascii_lower c.
Proof. intros -> H. destruct l as [|c l']; [discriminate|]. cbn in H. apply andb_true_iff in H. destruct H as [H _]. apply N.eqb_eq in H. eauto. Qed.

Lemma ins_app x y p : valid_utf8 y -> ins_ok (x ++ y) p = ins_ok x p && ins_ok y (p + List.length x).
Proof.
  intros Vy. unfold ins_ok. rewrite prefixb_ci_app, app_length, <- skipn_add', Nat.add_assoc.
  destruct (prefixb_ci x (skipn p w)) eqn:Cx; [|now rewrite !andb_false_r].
  destruct (prefixb_ci y (skipn (p + List.length x) w)) eqn:Cy; [|now rewrite !andb_false_r].
  rewrite !andb_true_r.
  destruct (boundaryb w (p + List.length x + List.length y)) eqn:B2; [|now rewrite andb_false_r].
  rewrite andb_true_r. symmetry.
  destruct y as [|b y'].
  - now rewrite Nat.add_0_r in B2.
  - destruct (prefixb_ci_head _ _ b y' eq_refl Cy) as (c & l' & El & Eb).
    assert (Nc : is_cont c = false).
    { rewrite <- (ascii_lower_cont _ _ Eb). apply (valid_first_not_cont (b :: y') Vy). discriminate. }
    unfold boundaryb. assert (Lt : p + List.length x < List.length w).
    { assert (List.length (skipn (p + List.length x) w) > 0) by (rewrite El; cbn; lia). rewrite skipn_length in H. lia. }
    apply Nat.compare_lt_iff in Lt. rewrite Lt.
    assert (nth (p + List.length x) w 0%N = c) as ->; [|now rewrite Nc].
    rewrite <- (firstn_skipn (p + List.length x) w) at 1. rewrite app_nth2; rewrite firstn_length; [|lia].
    apply Nat.compare_lt_iff in Lt. replace (p + List.length x - Nat.min (p + List.length x) (List.length w)) with 0 by lia.
    now rewrite El.
Qed.

Lemma ev1_str a emit s p sg : ev1 a emit (EStr s) p sg = match lit w s p with Some q => SMatch q sg [] | None => SFail end.
Proof. reflexivity. Qed.
Lemma ev1_ins a emit s p sg : ev1 a emit (EInsens s) p sg = if ins_ok s p then SMatch (p + List.length s) sg [] else SFail.
Proof. reflexivity. Qed.

(* a sequence of two leaves in a context without implicit whitespace *)
Lemma seq_leaves a x y z : atom_eqb a NonAtomic = false -> leaf G x = true -> leaf G y = true -> leaf G z = true ->
  (forall emit p sg, ev1 a emit z p sg =
     match ev1 a emit x p sg with
     | SMatch p1 sg1 f1 => map_forest (fun f3 => f1 ++ [] ++ f3) (ev1 a emit y p1 sg1)
     | r => r end) ->
  equiv a (ESeq x y) z.
Proof.
  intros NA Lx Ly Lz E. split; intros emit p sg res _ H.
  - eapply bs_res; [now apply bs_leaf|]. rewrite E.
    destruct (seq_inv _ _ _ _ _ _ _ _ _ _ _ H) as [[H1 ->]|(p1 & sg1 & f1 & p2 & sg2 & f2 & res' & H1 & H2 & H3 & ->)].
    + apply leaf_inv in H1; auto. now rewrite <- H1.
    + apply leaf_inv in H1; auto. pose proof (skip_atomic_inv _ _ _ _ _ _ _ _ _ NA H2) as [= -> -> ->].
      apply leaf_inv in H3; auto. rewrite <- H1. now subst res'.
  - apply leaf_inv in H; auto. rewrite E in H. subst res.
    destruct (ev1 a emit x p sg) as [p1 sg1 f1| |] eqn:Ex.
    + eapply bs_seq; [eapply bs_res; [now apply bs_leaf|exact Ex]|now apply bs_skip_atomic|now apply bs_leaf].
    + apply bs_seq_l. eapply bs_res; [now apply bs_leaf|exact Ex].
    + exfalso. revert Ex. now apply leaf_definite.
Qed.

Lemma concat_str a x y : atom_eqb a NonAtomic = false -> equiv a (ESeq (EStr x) (EStr y)) (EStr (x ++ y)).
Proof.
  intros NA. apply seq_leaves; auto. intros emit p sg. rewrite !ev1_str, lit_app.
  destruct (lit w x p) as [q|]; [|reflexivity]. rewrite ev1_str. destruct (lit w y q); reflexivity.
Qed.

Lemma concat_ins a x y : atom_eqb a NonAtomic = false -> valid_utf8 y -> equiv a (ESeq (EInsens x) (EInsens y)) (EInsens (x ++ y)).
Proof.
  intros NA Vy. apply seq_leaves; auto. intros emit p sg. rewrite !ev1_ins, ins_app by assumption.
  destruct (ins_ok x p); cbn [andb]; [|reflexivity]. rewrite ev1_ins. rewrite app_length, Nat.add_assoc.
  destruct (ins_ok y (p + List.length x)); reflexivity.
Qed.

Lemma concat_fn_equiv ty a e : body_atom ty a -> Forall valid_utf8 (estrs e) ->
  equiv a e (concat_fn ty e) /\ Forall valid_utf8 (estrs (concat_fn ty e)).
Proof.
  intros BA V. unfold concat_fn. destruct (rtype_eqb ty RAtomic) eqn:T; [|split; [apply equiv_refl|exact V]].
  assert (NA : atom_eqb a NonAtomic = false) by (destruct ty; try discriminate; cbn in BA; now subst a).
  destruct e; try (split; [apply equiv_refl|exact V]).
  destruct e1; try (split; [apply equiv_refl|exact V]); destruct e2; try (split; [apply equiv_refl|exact V]);
    cbn [estrs app] in V; inversion V as [|? ? V1 V']; inversion V' as [|? ? V2 _]; subst.
  - split; [now apply concat_str|]. cbn [estrs]. constructor; [now apply valid_app|constructor].
  - split; [now apply concat_ins|]. cbn [estrs]. constructor; [now apply valid_app|constructor].
Qed.

Theorem concat_expr_equiv ty a e e' : body_atom ty a -> Forall valid_utf8 (estrs e) -> concat_expr ty e = Some e' ->
  equiv a e e' /\ Forall valid_utf8 (estrs e').
Proof.
  unfold concat_expr. intros BA V H.
  apply (map_bottom_up_equiv G extras uprop w valid_utf8 Inv HP a (fun x => Some (concat_fn ty x))) in H; auto.
  intros x y Vx [= <-]. now apply concat_fn_equiv.
Qed.
End ConcatSem.

(* grammar level *)
Definition gvalid (G : grammar) : Prop := forall r, In r G -> Forall valid_utf8 (estrs (rexpr r)).

Lemma concat_fn_lits ty e : Forall valid_utf8 (estrs e) -> Forall valid_utf8 (estrs (concat_fn ty e)).
Proof.
  intros V. unfold concat_fn. destruct (rtype_eqb ty RAtomic); [|exact V].
  destruct e; try exact V. destruct e1; try exact V; destruct e2; try exact V;
    cbn [estrs app] in *; inversion V as [|? ? V1 V']; inversion V' as [|? ? V2 _]; subst; (constructor; [now apply valid_app|constructor]).
Qed.

Lemma concat_gvalid G G' : gvalid G -> map_rules concat_rule G = Some G' -> gvalid G'.
Proof.
  intros V H. apply map_rules_F2 in H. induction H as [|r r' G G' Hr HG IH]; intros x Hx; [destruct Hx|].
  destruct Hx as [<-|Hx]; [|apply IH; auto; intros y Hy; apply V; now right].
  apply with_expr_inv in Hr. unfold concat_expr in Hr.
  eapply (map_bottom_up_lits valid_utf8 (fun x => Some (concat_fn (rty r) x))); [|apply V; now left|exact Hr].
  intros x y Vx [= <-]. now apply concat_fn_lits.
Qed.

Theorem concat_grammar G G' extras uprop w : gvalid G -> map_rules concat_rule G = Some G' ->
  forall a emit j p sg res, jvalid valid_utf8 j ->
    (bs G' extras uprop w a emit j p sg res <-> bs G extras uprop w a emit j p sg res).
Proof.
  intros V H a emit j p sg res VJ.
  assert (V' := concat_gvalid _ _ V H).
  assert (Fsig : forall r r', concat_rule r = Some r' -> rname r' = rname r /\ rty r' = rty r) by (intros r r'; apply with_expr_sig).
  assert (Law : forall Gx r r' a0, In r G -> concat_rule r = Some r' -> body_atom (rty r) a0 ->
                 equiv Gx extras uprop w (fun _ _ => True) a0 (rexpr r) (rexpr r')).
  { intros Gx r r' a0 Hin E BA. apply with_expr_inv in E.
    eapply (concat_expr_equiv Gx extras uprop w (fun _ _ => True)); [apply preserved_True|exact BA|now apply V|exact E]. }
  split; intros B.
  - eapply (pass_backward G G' extras uprop w valid_utf8 (fun _ _ => True) concat_rule); eauto using preserved_True.
  - eapply (pass_forward G G' extras uprop w valid_utf8 (fun _ _ => True) concat_rule); eauto using preserved_True.
Qed.
