Debugger/Progress.vo Debugger/Progress.glob Debugger/Progress.v.beautified Debugger/Progress.required_vo: Debugger/Progress.v Debugger/Proto.vo Debugger/Spec.vo Debugger/Tactics.vo Debugger/Struct.vo Debugger/Quiet.vo
Debugger/Progress.vio: Debugger/Progress.v Debugger/Proto.vio Debugger/Spec.vio Debugger/Tactics.vio Debugger/Struct.vio Debugger/Quiet.vio
Debugger/Progress.vos Debugger/Progress.vok Debugger/Progress.required_vos: Debugger/Progress.v Debugger/Proto.vos Debugger/Spec.vos Debugger/Tactics.vos Debugger/Struct.vos Debugger/Quiet.vos
Debugger/Proto.vo Debugger/Proto.glob Debugger/Proto.v.beautified Debugger/Proto.required_vo: Debugger/Proto.v 
Debugger/Proto.vio: Debugger/Proto.v 
Debugger/Proto.vos Debugger/Proto.vok Debugger/Proto.required_vos: Debugger/Proto.v 
Debugger/Quiet.vo Debugger/Quiet.glob Debugger/Quiet.v.beautified Debugger/Quiet.required_vo: Debugger/Quiet.v Debugger/Proto.vo Debugger/Spec.vo Debugger/Tactics.vo
Debugger/Quiet.vio: Debugger/Quiet.v Debugger/Proto.vio Debugger/Spec.vio Debugger/Tactics.vio
Debugger/Quiet.vos Debugger/Quiet.vok Debugger/Quiet.required_vos: Debugger/Quiet.v Debugger/Proto.vos Debugger/Spec.vos Debugger/Tactics.vos
Debugger/Safety.vo Debugger/Safety.glob Debugger/Safety.v.beautified Debugger/Safety.required_vo: Debugger/Safety.v Debugger/Proto.vo Debugger/Spec.vo Debugger/Tactics.vo Debugger/Struct.vo
Debugger/Safety.vio: Debugger/Safety.v Debugger/Proto.vio Debugger/Spec.vio Debugger/Tactics.vio Debugger/Struct.vio
Debugger/Safety.vos Debugger/Safety.vok Debugger/Safety.required_vos: Debugger/Safety.v Debugger/Proto.vos Debugger/Spec.vos Debugger/Tactics.vos Debugger/Struct.vos
Debugger/Spec.vo Debugger/Spec.glob Debugger/Spec.v.beautified Debugger/Spec.required_vo: Debugger/Spec.v Debugger/Proto.vo
Debugger/Spec.vio: Debugger/Spec.v Debugger/Proto.vio
Debugger/Spec.vos Debugger/Spec.vok Debugger/Spec.required_vos: Debugger/Spec.v Debugger/Proto.vos
Debugger/Struct.vo Debugger/Struct.glob Debugger/Struct.v.beautified Debugger/Struct.required_vo: Debugger/Struct.v Debugger/Proto.vo Debugger/Spec.vo Debugger/Tactics.vo
Debugger/Struct.vio: Debugger/Struct.v Debugger/Proto.vio Debugger/Spec.vio Debugger/Tactics.vio
Debugger/Struct.vos Debugger/Struct.vok Debugger/Struct.required_vos: Debugger/Struct.v Debugger/Proto.vos Debugger/Spec.vos Debugger/Tactics.vos
Debugger/Tactics.vo Debugger/Tactics.glob Debugger/Tactics.v.beautified Debugger/Tactics.required_vo: Debugger/Tactics.v Debugger/Proto.vo
Debugger/Tactics.vio: Debugger/Tactics.v Debugger/Proto.vio
Debugger/Tactics.vos Debugger/Tactics.vok Debugger/Tactics.required_vos: Debugger/Tactics.v Debugger/Proto.vos
Extract/DebuggerExtract.vo Extract/DebuggerExtract.glob Extract/DebuggerExtract.v.beautified Extract/DebuggerExtract.required_vo: Extract/DebuggerExtract.v Debugger/Proto.vo
Extract/DebuggerExtract.vio: Extract/DebuggerExtract.v Debugger/Proto.vio
Extract/DebuggerExtract.vos Extract/DebuggerExtract.vok Extract/DebuggerExtract.required_vos: Extract/DebuggerExtract.v Debugger/Proto.vos
