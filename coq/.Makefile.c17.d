Debugger/Count.vo Debugger/Count.glob Debugger/Count.v.beautified Debugger/Count.required_vo: Debugger/Count.v Debugger/Proto.vo Debugger/Spec.vo Debugger/Tactics.vo Debugger/Struct.vo Debugger/Quiet.vo Debugger/Progress.vo
Debugger/Count.vio: Debugger/Count.v Debugger/Proto.vio Debugger/Spec.vio Debugger/Tactics.vio Debugger/Struct.vio Debugger/Quiet.vio Debugger/Progress.vio
Debugger/Count.vos Debugger/Count.vok Debugger/Count.required_vos: Debugger/Count.v Debugger/Proto.vos Debugger/Spec.vos Debugger/Tactics.vos Debugger/Struct.vos Debugger/Quiet.vos Debugger/Progress.vos
Debugger/Progress.vo Debugger/Progress.glob Debugger/Progress.v.beautified Debugger/Progress.required_vo: Debugger/Progress.v Debugger/Proto.vo Debugger/Spec.vo Debugger/Tactics.vo Debugger/Struct.vo Debugger/Quiet.vo
Debugger/Progress.vio: Debugger/Progress.v Debugger/Proto.vio Debugger/Spec.vio Debugger/Tactics.vio Debugger/Struct.vio Debugger/Quiet.vio
Debugger/Progress.vos Debugger/Progress.vok Debugger/Progress.required_vos: Debugger/Progress.v Debugger/Proto.vos Debugger/Spec.vos Debugger/Tactics.vos Debugger/Struct.vos Debugger/Quiet.vos
Debugger/Proto.vo Debugger/Proto.glob Debugger/Proto.v.beautified Debugger/Proto.required_vo: Debugger/Proto.v 
Debugger/Proto.vio: Debugger/Proto.v 
Debugger/Proto.vos Debugger/Proto.vok Debugger/Proto.required_vos: Debugger/Proto.v 
Debugger/Quiet.vo Debugger/Quiet.glob Debugger/Quiet.v.beautified Debugger/Quiet.required_vo: Debugger/Quiet.v Debugger/Proto.vo Debugger/Spec.vo Debugger/Tactics.vo
Debugger/Quiet.vio: Debugger/Quiet.v Debugger/Proto.vio Debugger/Spec.vio Debugger/Tactics.vio
Debugger/Quiet.vos Debugger/Quiet.vok Debugger/Quiet.required_vos: Debugger/Quiet.v Debugger/Proto.vos Debugger/Spec.vos Debugger/Tactics.vos
Debugger/Rerun.vo Debugger/Rerun.glob Debugger/Rerun.v.beautified Debugger/Rerun.required_vo: Debugger/Rerun.v Debugger/Proto.vo Debugger/Spec.vo Debugger/Tactics.vo Debugger/Struct.vo Debugger/Quiet.vo Debugger/Progress.vo
Debugger/Rerun.vio: Debugger/Rerun.v Debugger/Proto.vio Debugger/Spec.vio Debugger/Tactics.vio Debugger/Struct.vio Debugger/Quiet.vio Debugger/Progress.vio
Debugger/Rerun.vos Debugger/Rerun.vok Debugger/Rerun.required_vos: Debugger/Rerun.v Debugger/Proto.vos Debugger/Spec.vos Debugger/Tactics.vos Debugger/Struct.vos Debugger/Quiet.vos Debugger/Progress.vos
Debugger/Safety.vo Debugger/Safety.glob Debugger/Safety.v.beautified Debugger/Safety.required_vo: Debugger/Safety.v Debugger/Proto.vo Debugger/Spec.vo Debugger/Tactics.vo Debugger/Struct.vo
Debugger/Safety.vio: Debugger/Safety.v Debugger/Proto.vio Debugger/Spec.vio Debugger/Tactics.vio Debugger/Struct.vio
Debugger/Safety.vos Debugger/Safety.vok Debugger/Safety.required_vos: Debugger/Safety.v Debugger/Proto.vos Debugger/Spec.vos Debugger/Tactics.vos Debugger/Struct.vos
Debugger/Spec.vo Debugger/Spec.glob Debugger/Spec.v.beautified Debugger/Spec.required_vo: Debugger/Spec.v Debugger/Proto.vo
Debugger/Spec.vio: Debugger/Spec.v Debugger/Proto.vio
Debugger/Spec.vos Debugger/Spec.vok Debugger/Spec.required_vos: Debugger/Spec.v Debugger/Proto.vos
Debugger/Struct.vo Debugger/Struct.glob Debugger/Struct.v.beautified Debugger/Struct.required_vo: Debugger/Struct.v Debugger/Proto.vo Debugger/Spec.vo Debugger/Tactics.vo
Debugger/Struct.vio: Debugger/Struct.v Debugger/Proto.vio Debugger/Spec.vio Debugger/Tactics.vio
Debugger/Struct.vos Debugger/Struct.vok Debugger/Struct.required_vos: Debugger/Struct.v Debugger/Proto.vos Debugger/Spec.vos Debugger/Tactics.vos
Debugger/Tactics.vo Debugger/Tactics.glob Debugger/Tactics.v.beautified Debugger/Tactics.required_vo: Debugger/Tactics.v Debugger/Proto.vo
Debugger/Tactics.vio: Debugger/Tactics.v Debugger/Proto.vio
Debugger/Tactics.vos Debugger/Tactics.vok Debugger/Tactics.required_vos: Debugger/Tactics.v Debugger/Proto.vos
Debugger/Witness.vo Debugger/Witness.glob Debugger/Witness.v.beautified Debugger/Witness.required_vo: Debugger/Witness.v Debugger/Proto.vo Debugger/Spec.vo
Debugger/Witness.vio: Debugger/Witness.v Debugger/Proto.vio Debugger/Spec.vio
Debugger/Witness.vos Debugger/Witness.vok Debugger/Witness.required_vos: Debugger/Witness.v Debugger/Proto.vos Debugger/Spec.vos
props/C17.vo props/C17.glob props/C17.v.beautified props/C17.required_vo: props/C17.v Debugger/Proto.vo Debugger/Spec.vo Debugger/Quiet.vo Debugger/Safety.vo Debugger/Count.vo Debugger/Rerun.vo Debugger/Witness.vo
props/C17.vio: props/C17.v Debugger/Proto.vio Debugger/Spec.vio Debugger/Quiet.vio Debugger/Safety.vio Debugger/Count.vio Debugger/Rerun.vio Debugger/Witness.vio
props/C17.vos props/C17.vok props/C17.required_vos: props/C17.v Debugger/Proto.vos Debugger/Spec.vos Debugger/Quiet.vos Debugger/Safety.vos Debugger/Count.vos Debugger/Rerun.vos Debugger/Witness.vos
Extract/DebuggerExtract.vo Extract/DebuggerExtract.glob Extract/DebuggerExtract.v.beautified Extract/DebuggerExtract.required_vo: Extract/DebuggerExtract.v Debugger/Proto.vo
Extract/DebuggerExtract.vio: Extract/DebuggerExtract.v Debugger/Proto.vio
Extract/DebuggerExtract.vos Extract/DebuggerExtract.vok Extract/DebuggerExtract.required_vos: Extract/DebuggerExtract.v Debugger/Proto.vos
