(* C18 - every JSON text per Rfc8259.v is valid UTF-8 (RFC 8259 section 8.1), so restricting the theorem to the
   byte sequences that are Rust strings loses nothing on the RFC side. *)
From Coq Require Import List Arith NArith Bool Lia ZifyN ZifyBool.
Import ListNotations.
Require Import PV.Comb.PState PV.Comb.Bytes PV.Comb.Utf8 PV.Comb.Utf8b.
Require Import PV.Json.Rfc8259 PV.Json.Recogniser PV.Json.Utf8Facts PV.Json.RfcStructure.

Lemma ascii_valid s : Forall ascii s -> valid_utf8 s.
Proof.
  induction 1 as [|b s Hb _ IH]; [apply valid_nil|]. unfold ascii in Hb.
  pose proof (valid_cons b s) as H. rewrite (encode_ascii b Hb) in H. apply H; [unfold scalar; lia|exact IH].
Qed.
Lemma Forall_impl' {A} (P Q : A -> Prop) l : (forall x, P x -> Q x) -> Forall P l -> Forall Q l.
Proof. intros H. induction 1; constructor; auto. Qed.
Lemma ws_ascii s : ws s -> Forall ascii s.
Proof. apply Forall_impl'. unfold is_ws, ascii. lia. Qed.
Lemma digits_ascii s : digits s -> Forall ascii s.
Proof. apply Forall_impl'. unfold is_digit, ascii. lia. Qed.
Lemma jnumber_ascii s : jnumber s -> Forall ascii s.
Proof.
  intros (m & i & f & e & -> & Jm & Ji & Jf & Je). repeat (apply Forall_app; split).
  - destruct Jm as [->| <-]; repeat constructor.
  - destruct Ji as [|d ds Hd D]; [repeat constructor|]. constructor; [unfold is_digit19, ascii in *; lia|now apply digits_ascii].
  - destruct Jf as [->|[ds [_ D]]]; [constructor|]. constructor; [reflexivity|now apply digits_ascii].
  - destruct Je as [->|[x sg ds Hx Hs [_ D]]]; [constructor|]. constructor; [unfold ascii; lia|]. apply Forall_app. split; [|now apply digits_ascii].
    destruct Hs as [->|[->| ->]]; repeat constructor.
Qed.
Lemma jchar_valid c : jchar c -> valid_utf8 c.
Proof.
  intros [x S U|x Hx|h1 h2 h3 h4 H1 H2 H3 H4].
  - rewrite <- (app_nil_r (encode x)). apply valid_cons; [exact S|apply valid_nil].
  - apply ascii_valid. constructor; [reflexivity|]. constructor; [|constructor]. unfold simple_escapes in Hx. cbn [In] in Hx. unfold ascii. lia.
  - apply ascii_valid. unfold is_hex in *. repeat constructor; unfold ascii; lia.
Qed.
Lemma jchars_valid s : jchars s -> valid_utf8 s.
Proof. induction 1 as [|c r Hc _ IH]; [apply valid_nil|]. apply valid_app; [now apply jchar_valid|exact IH]. Qed.
Lemma jstring_valid s : jstring s -> valid_utf8 s.
Proof.
  intros (body & -> & J). change (34%N :: body ++ [34%N]) with ([34%N] ++ body ++ [34%N]).
  apply valid_app; [apply ascii_valid; repeat constructor|]. apply valid_app; [now apply jchars_valid|apply ascii_valid; repeat constructor].
Qed.
Lemma valid_wrap op s cl : ascii op -> ascii cl -> valid_utf8 s -> valid_utf8 (op :: s ++ [cl]).
Proof.
  intros Ho Hc V. change (op :: s ++ [cl]) with ([op] ++ s ++ [cl]).
  apply valid_app; [apply ascii_valid; repeat constructor; exact Ho|]. apply valid_app; [exact V|apply ascii_valid; repeat constructor; exact Hc].
Qed.

Theorem json_valid_utf8 :
  (forall o s d, jvalue o s d -> valid_utf8 s) /\ (forall o s d, jelement o s d -> valid_utf8 s) /\
  (forall o s ds, jelements o s ds -> valid_utf8 s) /\ (forall o s m, jmember o s m -> valid_utf8 s) /\
  (forall o s ms, jmembers o s ms -> valid_utf8 s).
Proof.
  apply json_mutind; intros.
  - apply ascii_valid. repeat constructor.
  - apply ascii_valid. repeat constructor.
  - apply ascii_valid. repeat constructor.
  - apply ascii_valid. now apply jnumber_ascii.
  - now apply jstring_valid.
  - apply valid_wrap; [reflexivity|reflexivity|]. apply ascii_valid. now apply ws_ascii.
  - apply valid_wrap; [reflexivity|reflexivity|assumption].
  - apply valid_wrap; [reflexivity|reflexivity|]. apply ascii_valid. now apply ws_ascii.
  - apply valid_wrap; [reflexivity|reflexivity|assumption].
  - apply valid_app; [apply ascii_valid; now apply ws_ascii|]. apply valid_app; [assumption|apply ascii_valid; now apply ws_ascii].
  - assumption.
  - apply valid_app; [assumption|]. change (44%N :: r) with ([44%N] ++ r). apply valid_app; [apply ascii_valid; repeat constructor|assumption].
  - apply valid_app; [apply ascii_valid; now apply ws_ascii|]. apply valid_app; [now apply jstring_valid|].
    apply valid_app; [apply ascii_valid; now apply ws_ascii|]. change (58%N :: s) with ([58%N] ++ s). apply valid_app; [apply ascii_valid; repeat constructor|assumption].
  - assumption.
  - apply valid_app; [assumption|]. change (44%N :: r) with ([44%N] ++ r). apply valid_app; [apply ascii_valid; repeat constructor|assumption].
Qed.
Corollary json_text_valid_utf8 w : json_text w -> valid_utf8 w.
Proof. intros [d J]. exact (proj1 (proj2 json_valid_utf8) _ _ _ J). Qed.
