(* C18 - the recogniser is sound and complete for RFC 8259:
     rfc_parse_correct : rfc_parse w = Some d  <->  json_doc w d
   hence json_doc is functional (the document of a text is unique) and json_text is decidable.
   Pure list reasoning over Rfc8259.v / Recogniser.v, no PEG. *)
From Coq Require Import List Arith NArith Bool Lia ZifyN ZifyBool.
Import ListNotations.
Require Import PV.Comb.PState PV.Comb.Bytes PV.Comb.Utf8 PV.Comb.Utf8b PV.Peg.Ast.
Require Import PV.Json.Rfc8259 PV.Json.Recogniser PV.Json.Utf8Facts PV.Json.RfcLexical PV.Json.RfcString PV.Json.RfcList.

Definition bytes_null : list byte := [110; 117; 108; 108]%N.
Definition bytes_true : list byte := [116; 114; 117; 101]%N.
Definition bytes_false : list byte := [102; 97; 108; 115; 101]%N.
Lemma lit_null_bytes : lit_null = bytes_null.   Proof. reflexivity. Qed.
Lemma lit_true_bytes : lit_true = bytes_true.   Proof. reflexivity. Qed.
Lemma lit_false_bytes : lit_false = bytes_false. Proof. reflexivity. Qed.

(* ================= soundness ================= *)
Lemma psound_scan sc (T : list byte -> Prop) :
  (forall l n, sc l = Some n -> exists s r, split_at l n s r /\ T s) ->
  psound (p_scan sc) (fun o s sp => T s /\ sp = (o, o + length s)).
Proof.
  intros H o l sp n. unfold p_scan. destruct (sc l) as [k|] eqn:E; [|discriminate]. intros [= <- <-].
  destruct (H _ _ E) as (s & r & Sp & Ts). exists s, r. split; [exact Sp|]. destruct Sp as [_ <-]. auto.
Qed.
Lemma psound_lit s0 : psound (p_lit s0) (fun _ s _ => s = s0).
Proof.
  intros o l a n. unfold p_lit. destruct (prefixb s0 l) eqn:E; [|discriminate]. intros [= <- <-].
  apply prefixb_iff in E. destruct E as [r ->]. exists s0, r. split; [split; reflexivity|reflexivity].
Qed.
Lemma psound_span {A B} (f : nat -> nat -> A -> B) p R :
  psound p R -> psound (p_span f p) (fun o s y => exists a, y = f o (o + length s) a /\ R o s a).
Proof.
  intros Hp o l y n. unfold p_span. destruct (p o l) as [[a k]|] eqn:E; [|discriminate]. intros [= <- <-].
  destruct (Hp _ _ _ _ E) as (s & r & Sp & Ra). exists s, r. split; [exact Sp|]. exists a. destruct Sp as [_ <-]. auto.
Qed.

(* the text of a member without the surrounding whitespace:  string ws ":" ws value *)
Definition mem_rel (VR : nat -> list byte -> jdoc -> Prop) (o : nat) (c : list byte) (m : nat * nat * jdoc) : Prop :=
  exists k w2 w1' v, c = k ++ w2 ++ 58%N :: w1' ++ v /\ jstring k /\ ws w2 /\ ws w1' /\
    VR (o + length k + length w2 + 1 + length w1') v (snd m) /\ fst m = (o, o + length k).

Lemma p_pair_sound pv VR : psound pv VR -> psound (p_pair pv) (mem_rel VR).
Proof.
  intros Hv. unfold p_pair. eapply psound_weaken.
  - apply psound_map. apply psound_seq; [apply psound_seq; [apply (psound_scan scan_string jstring scan_string_sound)|apply psound_byte]|exact Hv].
  - intros o s m ([[sp u] d] & -> & H). cbn [fst snd] in H. destruct H as (s12 & w1' & v & -> & W1' & H & Rv).
    cbn [fst snd] in H. destruct H as (k & w2 & c & -> & W2 & (Jk & Esp) & Ec). cbn [fst snd] in *. subst sp c.
    exists k, w2, w1', v. split; [rewrite <- !app_assoc; reflexivity|]. repeat split; auto.
    cbn [snd]. rewrite !app_length in Rv. cbn [length] in Rv. off_eq Rv.
Qed.

Lemma elements_of_seps : forall o s ds, seps jdoc jvalue o s ds -> jelements o s ds.
Proof.
  induction 1 as [o s d (w1 & v & w2 & -> & W1 & W2 & Jv)|o s d r ds (w1 & v & w2 & -> & W1 & W2 & Jv) _ IH].
  - apply els_one. now constructor.
  - apply els_cons; [now constructor|exact IH].
Qed.
Lemma member_of_elem o s m : Elem _ (mem_rel jvalue) o s m -> jmember o s m.
Proof.
  intros (w1 & c & w2' & -> & W1 & W2' & (k & w2 & w1' & v & -> & Jk & W2 & W1' & Jv & Em)).
  destruct m as [[ks ke] d]. cbn [fst snd] in *. injection Em as -> ->.
  match goal with |- jmember _ ?s _ => replace s with (w1 ++ k ++ w2 ++ 58%N :: (w1' ++ v ++ w2'))
    by (rewrite <- !app_assoc; cbn [app]; rewrite <- !app_assoc; reflexivity) end.
  apply mem_intro; auto; constructor; auto; off_eq Jv.
Qed.
Lemma members_of_seps : forall o s ms, seps _ (mem_rel jvalue) o s ms -> jmembers o s ms.
Proof.
  induction 1 as [o s m E|o s m r ms E _ IH].
  - apply mems_one. now apply member_of_elem.
  - apply mems_cons; [now apply member_of_elem|exact IH].
Qed.

Theorem parse_value_sound : forall f, psound (parse_value f) jvalue.
Proof.
  induction f as [|f IH]; [intros o l d n; discriminate|].
  intros o l d n. cbn [parse_value]. revert o l d n. repeat apply psound_or.
  - unfold p_string. eapply psound_weaken; [apply psound_map; apply (psound_scan scan_string jstring scan_string_sound)|].
    intros o s d (sp & -> & Js & ->). now constructor.
  - unfold p_number. eapply psound_weaken; [apply psound_map; apply (psound_scan scan_number jnumber scan_number_sound)|].
    intros o s d (sp & -> & Js & ->). now constructor.
  - eapply psound_weaken; [apply psound_span; apply (p_list_sound _ (mem_rel jvalue)); apply p_pair_sound; exact IH|].
    intros o s d (ms & -> & [(-> & w1 & W1 & ->)|(body & -> & Sp)]).
    + match goal with |- jvalue _ _ (JObject _ ?e _) => replace e with (o + length w1 + 2) by (len; blia) end. now constructor.
    + match goal with |- jvalue _ _ (JObject _ ?e _) => replace e with (o + length body + 2) by (len; blia) end. constructor. now apply members_of_seps.
  - eapply psound_weaken; [apply psound_span; apply (p_list_sound _ jvalue); exact IH|].
    intros o s d (ds & -> & [(-> & w1 & W1 & ->)|(body & -> & Sp)]).
    + match goal with |- jvalue _ _ (JArray _ ?e _) => replace e with (o + length w1 + 2) by (len; blia) end. now constructor.
    + match goal with |- jvalue _ _ (JArray _ ?e _) => replace e with (o + length body + 2) by (len; blia) end. constructor. now apply elements_of_seps.
  - unfold p_bool. eapply psound_weaken.
    + apply psound_span. apply (psound_or _ _ (fun _ s (b : bool) => (b = true /\ s = lit_true) \/ (b = false /\ s = lit_false))).
      * eapply psound_weaken; [apply psound_map; apply psound_lit|]. intros o s b (u & -> & ->). now left.
      * eapply psound_weaken; [apply psound_map; apply psound_lit|]. intros o s b (u & -> & ->). now right.
    + intros o s d (b & -> & [[-> ->]|[-> ->]]); constructor.
  - unfold p_null. eapply psound_weaken; [apply psound_span; apply psound_lit|].
    intros o s d (u & -> & ->). constructor.
Qed.

Theorem rfc_parse_sound w d : rfc_parse w = Some d -> json_doc w d.
Proof.
  unfold rfc_parse, json_doc. destruct (skip_ws_sound w) as (w1 & r1 & Sp1 & W1). rewrite (split_skipn _ _ _ _ Sp1).
  destruct (parse_value _ _ r1) as [[d' n]|] eqn:Pv; [|discriminate].
  destruct (parse_value_sound _ _ _ _ _ Pv) as (v & r2 & Sp2 & Jv).
  pose proof (split_app _ _ _ _ _ _ _ Sp1 Sp2) as Sp12. rewrite (split_skipn _ _ _ _ Sp12).
  destruct (skip_ws_sound r2) as (w2 & r3 & Sp3 & W2).
  destruct (Nat.eqb_spec (skip_ws w + n + skip_ws r2) (length w)) as [E|E]; [|discriminate]. intros [= <-].
  pose proof (split_app _ _ _ _ _ _ _ Sp12 Sp3) as [Ew Lw].
  assert (Hl : length w = length ((w1 ++ v) ++ w2) + length r3) by (rewrite Ew at 1; now rewrite app_length).
  assert (r3 = []) by (destruct r3; [reflexivity|cbn [length] in Hl; blia]). subst r3. rewrite app_nil_r in Ew.
  rewrite Ew, <- app_assoc. constructor; auto. destruct Sp1 as [_ L1]. cbn [Nat.add]. rewrite L1. exact Jv.
Qed.

(* ================= completeness ================= *)
(* the first byte decides which alternative of `value` can succeed *)
Lemma p_string_fails o b t : N.eqb 34 b = false -> p_string o (b :: t) = None.
Proof. intros H. unfold p_string, p_map, p_scan, scan_string. now rewrite head_is_cons, H. Qed.
Lemma p_number_fails o b t : N.eqb 45 b = false -> is_digitb b = false -> p_number o (b :: t) = None.
Proof.
  intros H D. unfold p_number, p_map, p_scan, scan_number. rewrite head_is_cons, H, skipn_O. unfold scan_int. rewrite head_is_cons.
  cbn [head_in]. unfold is_digitb, in_rangeb in *. replace (N.eqb 48 b) with false by lia. replace ((49 <=? b)%N && (b <=? 57)%N) with false by lia. reflexivity.
Qed.
Lemma p_list_fails {A} op cl (item : P A) o b t : N.eqb op b = false -> p_list op cl item o (b :: t) = None.
Proof. intros H. unfold p_list, p_or, p_map, p_seq, p_byte. now rewrite head_is_cons, H. Qed.
Lemma p_lit_fails x s o b t : N.eqb x b = false -> p_lit (x :: s) o (b :: t) = None.
Proof. intros H. unfold p_lit. cbn [prefixb]. now rewrite H. Qed.
Lemma p_bool_fails o b t : N.eqb 116 b = false -> N.eqb 102 b = false -> p_bool o (b :: t) = None.
Proof.
  intros H1 H2. unfold p_bool, p_span, p_or, p_map. rewrite lit_true_bytes, lit_false_bytes. unfold bytes_true, bytes_false.
  now rewrite (p_lit_fails _ _ o b t H1), (p_lit_fails _ _ o b t H2).
Qed.
Lemma p_null_fails o b t : N.eqb 110 b = false -> p_null o (b :: t) = None.
Proof. intros H. unfold p_null, p_span. rewrite lit_null_bytes. unfold bytes_null. now rewrite (p_lit_fails _ _ o b t H). Qed.
Lemma p_pair_fails pv o b t : N.eqb 34 b = false -> p_pair pv o (b :: t) = None.
Proof. intros H. unfold p_pair, p_map, p_seq, p_scan, scan_string. now rewrite head_is_cons, H. Qed.

(* no value starts with a closing bracket *)
Lemma parse_value_fails_closer f o b t : b = 93%N \/ b = 125%N -> parse_value f o (b :: t) = None.
Proof.
  intros Hb. destruct f as [|f]; [reflexivity|]. cbn [parse_value]. unfold p_or. unfold p_span at 1 2.
  rewrite p_string_fails, p_number_fails, !p_list_fails, p_bool_fails, p_null_fails; try reflexivity;
    unfold is_digitb, in_rangeb; destruct Hb as [-> | ->]; reflexivity.
Qed.

Lemma jnumber_head s : jnumber s -> exists b t, s = b :: t /\ (b = 45%N \/ is_digit b).
Proof.
  intros (m & i & f & e & -> & Jm & Ji & _ & _). destruct Jm as [->| <-].
  - destruct (jint_head i (f ++ e) Ji) as (b & t & E & Hb). exists b, t. split; [exact E|now right].
  - eexists. eexists. split; [reflexivity|now left].
Qed.
Lemma jvalue_head o s d : jvalue o s d -> exists b t, s = b :: t /\ is_wsb b = false.
Proof.
  intros [| | |? ? Jn|? ? Js| | | | ]; try (eexists; eexists; split; [reflexivity|reflexivity]).
  - destruct (jnumber_head _ Jn) as (b & t & -> & Hb). exists b, t. split; [reflexivity|].
    unfold is_wsb, ws_bytes, is_digit in *. cbn [existsb]. lia.
  - destruct (jstring_head _ Js) as (t & ->). eexists. eexists. split; reflexivity.
Qed.

(* what the induction over the derivation establishes *)
Definition Pv (o : nat) (s : list byte) (d : jdoc) : Prop :=
  forall f tl, delim tl -> length (s ++ tl) < f -> parse_value f o (s ++ tl) = Some (d, length s).
Definition VR (o : nat) (s : list byte) (d : jdoc) : Prop := jvalue o s d /\ Pv o s d.
Definition MR (o : nat) (c : list byte) (m : nat * nat * jdoc) : Prop :=
  (exists b t, c = b :: t /\ is_wsb b = false) /\
  forall f tl, delim tl -> length (c ++ tl) < f -> p_pair (parse_value f) o (c ++ tl) = Some (m, length c).

Lemma VR_head o c a tl : VR o c a -> head_in is_wsb (c ++ tl) = false.
Proof. intros [J _]. destruct (jvalue_head _ _ _ J) as (b & t & -> & Hb). exact Hb. Qed.
Lemma MR_head o c a tl : MR o c a -> head_in is_wsb (c ++ tl) = false.
Proof. intros [(b & t & -> & Hb) _]. exact Hb. Qed.
Lemma closer_93 : closer 93%N. Proof. repeat split. Qed.
Lemma closer_125 : closer 125%N. Proof. repeat split. Qed.

Scheme jvalue_mind := Minimality for jvalue Sort Prop
  with jelement_mind := Minimality for jelement Sort Prop
  with jelements_mind := Minimality for jelements Sort Prop
  with jmember_mind := Minimality for jmember Sort Prop
  with jmembers_mind := Minimality for jmembers Sort Prop.
Combined Scheme json_mutind from jvalue_mind, jelement_mind, jelements_mind, jmember_mind, jmembers_mind.

(* a value given by its first byte: the alternatives before it fail *)
Ltac first_byte := try reflexivity; unfold is_digitb, in_rangeb; try reflexivity.

Theorem parse_complete :
  (forall o s d, jvalue o s d -> Pv o s d) /\
  (forall o s d, jelement o s d -> Elem _ VR o s d) /\
  (forall o s ds, jelements o s ds -> seps _ VR o s ds) /\
  (forall o s m, jmember o s m -> Elem _ MR o s m) /\
  (forall o s ms, jmembers o s ms -> seps _ MR o s ms).
Proof.
  apply json_mutind.
  - (* null *) intros o f tl D Hl. destruct f as [|f]; [lia|]. rewrite lit_null_bytes. cbn [parse_value app bytes_null]. unfold p_or. unfold p_span at 1 2.
    rewrite p_string_fails, p_number_fails, !p_list_fails, p_bool_fails by first_byte.
    unfold p_null, p_span, p_lit. rewrite lit_null_bytes. unfold bytes_null. cbn [prefixb]. rewrite !N.eqb_refl. reflexivity.
  - (* true *) intros o f tl D Hl. destruct f as [|f]; [lia|]. rewrite lit_true_bytes. cbn [parse_value app bytes_true]. unfold p_or. unfold p_span at 1 2.
    rewrite p_string_fails, p_number_fails, !p_list_fails by first_byte.
    unfold p_bool, p_span, p_or, p_map, p_lit. rewrite lit_true_bytes. unfold bytes_true. cbn [prefixb]. rewrite !N.eqb_refl. reflexivity.
  - (* false *) intros o f tl D Hl. destruct f as [|f]; [lia|]. rewrite lit_false_bytes. cbn [parse_value app bytes_false]. unfold p_or. unfold p_span at 1 2.
    rewrite p_string_fails, p_number_fails, !p_list_fails by first_byte.
    unfold p_bool, p_span, p_or, p_map, p_lit. rewrite lit_true_bytes, lit_false_bytes. unfold bytes_true, bytes_false. cbn [prefixb].
    replace (N.eqb 116 102) with false by reflexivity. rewrite !N.eqb_refl. reflexivity.
  - (* number *) intros o s Jn f tl D Hl. destruct f as [|f]; [lia|]. cbn [parse_value]. unfold p_or.
    destruct (jnumber_head _ Jn) as (b & t & E & Hb). pose proof (scan_number_complete s tl Jn D) as Sc. rewrite E in *. cbn [app] in *.
    rewrite p_string_fails by (unfold is_digit in Hb; lia). unfold p_number, p_map, p_scan. rewrite Sc. reflexivity.
  - (* string *) intros o s Js f tl D Hl. destruct f as [|f]; [lia|]. cbn [parse_value]. unfold p_or, p_string, p_map, p_scan.
    rewrite (scan_string_complete s tl Js). reflexivity.
  - (* [] *) intros o w1 W1 f tl D Hl. destruct f as [|f]; [lia|]. cbn [parse_value app]. unfold p_or. unfold p_span at 1 2.
    rewrite p_string_fails, p_number_fails, p_list_fails by first_byte. rewrite <- app_assoc. cbn [app]. rewrite (p_list_complete_empty (parse_value f) 91%N 93%N o w1 tl closer_93 W1) by (intros; apply parse_value_fails_closer; now left).
    f_equal. f_equal; [f_equal|]; len; blia.
  - (* [ elements ] *) intros o s ds _ Sp f tl D Hl. destruct f as [|f]; [lia|]. cbn [parse_value app]. unfold p_or. unfold p_span at 1 2.
    rewrite p_string_fails, p_number_fails, p_list_fails by first_byte. rewrite <- app_assoc. cbn [app]. rewrite (p_list_complete jdoc VR (parse_value f) f) with (xs := ds); auto.
    + f_equal. f_equal; [f_equal|]; len; blia.
    + intros o' c a tl' [_ Hc] D' Hl'. now apply Hc.
    + intros o' c a tl'. apply VR_head.
    + exact closer_93.
    + len. blia.
  - (* {} *) intros o w1 W1 f tl D Hl. destruct f as [|f]; [lia|]. cbn [parse_value app]. unfold p_or. unfold p_span at 1.
    rewrite p_string_fails, p_number_fails by first_byte. rewrite <- app_assoc. cbn [app]. rewrite (p_list_complete_empty (p_pair (parse_value f)) 123%N 125%N o w1 tl closer_125 W1) by (intros; now apply p_pair_fails).
    f_equal. f_equal; [f_equal|]; len; blia.
  - (* { members } *) intros o s ms _ Sp f tl D Hl. destruct f as [|f]; [lia|]. cbn [parse_value app]. unfold p_or. unfold p_span at 1.
    rewrite p_string_fails, p_number_fails by first_byte. rewrite <- app_assoc. cbn [app]. rewrite (p_list_complete _ MR (p_pair (parse_value f)) f) with (xs := ms); auto.
    + f_equal. f_equal; [f_equal|]; len; blia.
    + intros o' c a tl' [_ Hc] D' Hl'. now apply Hc.
    + intros o' c a tl'. apply MR_head.
    + exact closer_125.
    + len. blia.
  - (* element *) intros o w1 v w2 d W1 Jv Hv W2. exists w1, v, w2. repeat split; auto.
  - intros o s d _ E. now apply seps_one.
  - intros o s d r ds _ E _ Sp. now apply seps_cons.
  - (* member *) intros o w1 k w2 s d W1 Jk W2 _ (w1' & v & w2' & -> & W1' & W2' & Jv & Hv).
    exists w1, (k ++ w2 ++ 58%N :: w1' ++ v), w2'. split; [rewrite <- !app_assoc; cbn [app]; rewrite <- !app_assoc; reflexivity|].
    split; [exact W1|]. split; [exact W2'|]. split.
    + destruct (jstring_head _ Jk) as (t & ->). eexists. eexists. split; reflexivity.
    + intros f tl D Hl. unfold p_pair, p_map.
      destruct (jvalue_head _ _ _ Jv) as (b & t & Ev & Hb).
      assert (S1 : p_seq (p_scan scan_string) (p_byte 58) (o + length w1) ((k ++ w2 ++ 58%N :: w1' ++ v) ++ tl) =
                   Some ((o + length w1, o + length w1 + length k, tt), length k + length w2 + 1)).
      { eapply (p_seq_complete' (p_scan scan_string) (p_byte 58) _ _ k w2 [58%N] (w1' ++ v ++ tl)); [assoc| |reflexivity|exact W2|reflexivity| |reflexivity].
        - unfold p_scan. rewrite <- !app_assoc. rewrite (scan_string_complete k _ Jk). reflexivity.
        - intros o' _. apply p_byte_complete. }
      assert (S2 : p_seq (p_seq (p_scan scan_string) (p_byte 58)) (parse_value f) (o + length w1) ((k ++ w2 ++ 58%N :: w1' ++ v) ++ tl) =
                   Some ((o + length w1, o + length w1 + length k, tt, d), length k + length w2 + 1 + length w1' + length v)).
      { eapply (p_seq_complete' _ (parse_value f) _ _ (k ++ w2 ++ [58%N]) w1' v tl); [assoc|exact S1|len; blia|exact W1'| | |reflexivity].
        - rewrite Ev. exact Hb.
        - intros o' ->. replace (o + length w1 + (length k + length w2 + 1) + length w1') with (o + length w1 + length k + length w2 + 1 + length w1') by blia.
          apply Hv; [exact D|]. revert Hl. len. blia. }
      unfold byte in *. rewrite S2. cbn [fst snd]. f_equal. f_equal. len. blia.
  - intros o s m _ E. now apply seps_one.
  - intros o s m r ms _ E _ Sp. now apply seps_cons.
Qed.

Theorem rfc_parse_complete w d : json_doc w d -> rfc_parse w = Some d.
Proof.
  intros J. destruct (proj1 (proj2 parse_complete) _ _ _ J) as (w1 & v & w2 & -> & W1 & W2 & Jv & Hv). cbn [Nat.add] in Hv.
  unfold rfc_parse. destruct (jvalue_head _ _ _ Jv) as (b & t & Ev & Hb).
  rewrite (skip_ws_complete w1 (v ++ w2) W1) by (rewrite Ev; exact Hb). rewrite skipn_app_exact.
  assert (Dw : delim w2) by (rewrite <- (app_nil_r w2); apply delim_ws_app; [exact W2|exact I]).
  assert (Hl : length (v ++ w2) < S (length (w1 ++ v ++ w2))) by (len; blia).
  brewrite (Hv _ w2 Dw Hl).
  rewrite skipn_add, skipn_app_exact, skipn_app_exact.
  pose proof (skip_ws_complete w2 [] W2 eq_refl) as Hw2. rewrite app_nil_r in Hw2. unfold byte in *. rewrite Hw2.
  replace (length w1 + length v + length w2 =? length (w1 ++ v ++ w2)) with true; [reflexivity|].
  symmetry. apply Nat.eqb_eq. len. blia.
Qed.

Theorem rfc_parse_correct w d : rfc_parse w = Some d <-> json_doc w d.
Proof. split; [apply rfc_parse_sound|apply rfc_parse_complete]. Qed.
(* the document of a JSON text is unique *)
Corollary json_doc_unique w d d' : json_doc w d -> json_doc w d' -> d = d'.
Proof. intros H1 H2. apply rfc_parse_complete in H1, H2. congruence. Qed.
Corollary json_text_iff w : json_text w <-> rfc_accepts w = true.
Proof.
  unfold json_text, rfc_accepts. split.
  - intros [d J]. now rewrite (rfc_parse_complete _ _ J).
  - destruct (rfc_parse w) as [d|] eqn:E; [|discriminate]. intros _. exists d. now apply rfc_parse_sound.
Qed.
