(* C18 - the specification: RFC 8259 (The JavaScript Object Notation (JSON) Data Interchange Format)
   as inductive relations over UTF-8 byte sequences, together with the document tree.

   A JSON text is a sequence of Unicode code points encoded in UTF-8 (RFC 8259 section 8.1); every terminal of
   the ABNF except `unescaped` is an ASCII character, i.e. one byte; `unescaped` ranges over the scalar values
   %x20-21 / %x23-5B / %x5D-10FFFF and stands for the UTF-8 encoding of that scalar value.

   Section numbers refer to RFC 8259.  The ABNF places `ws` around the six structural characters
   (begin-array = ws %x5B ws, ...) and JSON-text = ws value ws; the relations below generate the same language in
   the equivalent "element = ws value ws" form (ECMA-404), which is what lets a value carry its exact span.

   Offsets: `jvalue o s d` says that the byte sequence s is a JSON value and that, when s starts at byte offset o
   of the text, its document tree is d; every node of d carries absolute byte offsets [start, end).          *)
From Coq Require Import List Arith NArith Bool String Ascii.
Import ListNotations.
Require Import PV.Comb.PState PV.Comb.Utf8 PV.Iter.Queue PV.Peg.Ast.
Local Open Scope N_scope.

(* ---- section 2: ws = *( %x20 / %x09 / %x0A / %x0D ) ---- *)
Definition is_ws (b : byte) : Prop := b = 32 \/ b = 9 \/ b = 10 \/ b = 13.
Definition ws (s : list byte) : Prop := Forall is_ws s.

(* ---- section 6: number = [ minus ] int [ frac ] [ exp ] ---- *)
Definition is_digit (b : byte) : Prop := 48 <= b <= 57.                (* DIGIT *)
Definition is_digit19 (b : byte) : Prop := 49 <= b <= 57.              (* digit1-9 *)
Definition digits (s : list byte) : Prop := Forall is_digit s.          (* *DIGIT *)
Definition digits1 (s : list byte) : Prop := s <> [] /\ digits s.       (* 1*DIGIT *)
(* an optional part: [ x ] *)
Definition opt (P : list byte -> Prop) (s : list byte) : Prop := s = [] \/ P s.

Inductive jint : list byte -> Prop :=                                   (* int = zero / ( digit1-9 *DIGIT ) *)
| int_zero : jint [48]
| int_pos d ds : is_digit19 d -> digits ds -> jint (d :: ds).
Inductive jfrac : list byte -> Prop :=                                  (* frac = decimal-point 1*DIGIT *)
| frac_intro ds : digits1 ds -> jfrac (46 :: ds).
Inductive jexp : list byte -> Prop :=                                   (* exp = e [ minus / plus ] 1*DIGIT *)
| exp_intro e sign ds : e = 101 \/ e = 69 -> opt (fun s => s = [45] \/ s = [43]) sign -> digits1 ds -> jexp (e :: sign ++ ds).
Definition jnumber (s : list byte) : Prop :=
  exists m i f e, s = m ++ i ++ f ++ e /\ opt (eq [45]) m /\ jint i /\ opt jfrac f /\ opt jexp e.

(* ---- section 7: string = quotation-mark *char quotation-mark ---- *)
Definition unescaped (c : N) : Prop := 32 <= c <= 33 \/ 35 <= c <= 91 \/ 93 <= c <= 1114111.   (* %x20-21 / %x23-5B / %x5D-10FFFF *)
Definition is_hex (b : byte) : Prop := 48 <= b <= 57 \/ 65 <= b <= 70 \/ 97 <= b <= 102.        (* HEXDIG, either case *)
(* the one-letter escapes: %x22 quotation mark / %x5C reverse solidus / %x2F solidus / %x62 b / %x66 f / %x6E n / %x72 r / %x74 t *)
Definition simple_escapes : list byte := [34; 92; 47; 98; 102; 110; 114; 116].

Inductive jchar : list byte -> Prop :=
| ch_unescaped c : scalar c -> unescaped c -> jchar (encode c)
| ch_escape x : In x simple_escapes -> jchar [92; x]
| ch_unicode h1 h2 h3 h4 : is_hex h1 -> is_hex h2 -> is_hex h3 -> is_hex h4 -> jchar [92; 117; h1; h2; h3; h4].
Inductive jchars : list byte -> Prop :=
| chars_nil : jchars []
| chars_cons c r : jchar c -> jchars r -> jchars (c ++ r).
Definition jstring (s : list byte) : Prop := exists body, s = 34 :: body ++ [34] /\ jchars body.

(* ---- the document tree: one node per value, carrying byte spans ---- *)
Local Close Scope N_scope.
Inductive jdoc :=
| JNull (s e : nat)
| JBool (b : bool) (s e : nat)
| JNumber (s e : nat)
| JString (s e : nat)
| JArray (s e : nat) (items : list jdoc)
| JObject (s e : nat) (members : list (nat * nat * jdoc)).    (* member: span of the name string, then the value *)

Definition doc_start (d : jdoc) : nat :=
  match d with JNull s _ | JBool _ s _ | JNumber s _ | JString s _ | JArray s _ _ | JObject s _ _ => s end.
Definition doc_end (d : jdoc) : nat :=
  match d with JNull _ e | JBool _ _ e | JNumber _ e | JString _ e | JArray _ e _ | JObject _ e _ => e end.

(* ---- sections 3, 4, 5: values, objects, arrays; section 2: JSON-text = ws value ws ---- *)
Definition lit_null : list byte := nm "null".
Definition lit_true : list byte := nm "true".
Definition lit_false : list byte := nm "false".

Inductive jvalue : nat -> list byte -> jdoc -> Prop :=
| v_null o : jvalue o lit_null (JNull o (o + 4))
| v_true o : jvalue o lit_true (JBool true o (o + 4))
| v_false o : jvalue o lit_false (JBool false o (o + 5))
| v_number o s : jnumber s -> jvalue o s (JNumber o (o + List.length s))
| v_string o s : jstring s -> jvalue o s (JString o (o + List.length s))
(* array = begin-array [ value *( value-separator value ) ] end-array *)
| v_array_empty o w1 : ws w1 -> jvalue o (91%N :: w1 ++ [93%N]) (JArray o (o + List.length w1 + 2) [])
| v_array o s ds : jelements (o + 1) s ds -> jvalue o (91%N :: s ++ [93%N]) (JArray o (o + List.length s + 2) ds)
(* object = begin-object [ member *( value-separator member ) ] end-object *)
| v_object_empty o w1 : ws w1 -> jvalue o (123%N :: w1 ++ [125%N]) (JObject o (o + List.length w1 + 2) [])
| v_object o s ms : jmembers (o + 1) s ms -> jvalue o (123%N :: s ++ [125%N]) (JObject o (o + List.length s + 2) ms)
(* element = ws value ws *)
with jelement : nat -> list byte -> jdoc -> Prop :=
| el_intro o w1 v w2 d : ws w1 -> jvalue (o + List.length w1) v d -> ws w2 -> jelement o (w1 ++ v ++ w2) d
(* element *( %x2C element ) *)
with jelements : nat -> list byte -> list jdoc -> Prop :=
| els_one o s d : jelement o s d -> jelements o s [d]
| els_cons o s d r ds : jelement o s d -> jelements (o + List.length s + 1) r ds -> jelements o (s ++ 44%N :: r) (d :: ds)
(* member = string name-separator value, with the surrounding ws:  ws string ws %x3A element *)
with jmember : nat -> list byte -> nat * nat * jdoc -> Prop :=
| mem_intro o w1 k w2 s d : ws w1 -> jstring k -> ws w2 ->
    jelement (o + List.length w1 + List.length k + List.length w2 + 1) s d ->
    jmember o (w1 ++ k ++ w2 ++ 58%N :: s) (o + List.length w1, o + List.length w1 + List.length k, d)
with jmembers : nat -> list byte -> list (nat * nat * jdoc) -> Prop :=
| mems_one o s m : jmember o s m -> jmembers o s [m]
| mems_cons o s m r ms : jmember o s m -> jmembers (o + List.length s + 1) r ms -> jmembers o (s ++ 44%N :: r) (m :: ms).

(* JSON-text = ws value ws; the text w denotes the document d *)
Definition json_doc (w : list byte) (d : jdoc) : Prop := jelement 0 w d.
Definition json_text (w : list byte) : Prop := exists d, json_doc w d.

(* ---- the token tree that mirrors a document: one pair per value, object, member, array, string, number and
        literal, named as json.pest names them, each with its exact source span; `rid` numbers the rule names ---- *)
Section Tree.
Variable rid : name -> nat.
Definition leaf (n : name) (s e : nat) : tree := Node (rid n) None s e [].
Fixpoint tree_of (d : jdoc) : tree :=
  match d with
  | JNull s e => Node (rid (nm "value")) None s e [leaf (nm "null") s e]
  | JBool _ s e => Node (rid (nm "value")) None s e [leaf (nm "bool") s e]
  | JNumber s e => Node (rid (nm "value")) None s e [leaf (nm "number") s e]
  | JString s e => Node (rid (nm "value")) None s e [leaf (nm "string") s e]
  | JArray s e items => Node (rid (nm "value")) None s e [Node (rid (nm "array")) None s e (map tree_of items)]
  | JObject s e ms =>
      Node (rid (nm "value")) None s e
        [Node (rid (nm "object")) None s e
           (map (fun m => match m with (ks, ke, v) => Node (rid (nm "pair")) None ks (doc_end v) [leaf (nm "string") ks ke; tree_of v] end) ms)]
  end.
(* the whole parse of a text of `len` bytes: json(0,len)[ value... EOI(len,len) ] *)
Definition tree_top (len : nat) (d : jdoc) : list tree :=
  [Node (rid (nm "json")) None 0 len [tree_of d; leaf (nm "EOI") len len]].
End Tree.
