(* C18 - the list combinator p_list (open item ("," item)* close | open close, whitespace allowed between the
   tokens) is sound and complete for comma-separated lists of elements  ws item ws.  Generic in the item. *)
From Coq Require Import List Arith NArith Bool Lia ZifyN ZifyBool.
Import ListNotations.
Require Import PV.Comb.PState PV.Comb.Bytes PV.Comb.Utf8 PV.Comb.Utf8b.
Require Import PV.Json.Rfc8259 PV.Json.Recogniser PV.Json.Utf8Facts PV.Json.RfcLexical.

Ltac blia := unfold byte in *; lia.
Ltac brewrite H := let H' := fresh in pose proof H as H'; unfold byte in *; rewrite H'; clear H'.
Ltac len := repeat (progress (rewrite ?app_length in *; cbn [length] in *)).
(* close a goal  R y s a  from  H : R x s a  when the offsets x and y are equal numbers *)
Ltac off_eq H := match type of H with ?R ?x ?s ?a => match goal with |- ?R ?y ?s ?a => replace y with x by blia; exact H end end.

(* ---- soundness of the combinators:  psound p R  =  whatever p reads, with result a at offset o, satisfies R o _ a ---- *)
Definition psound {A : Type} (p : P A) (R : nat -> list byte -> A -> Prop) : Prop :=
  forall o l a n, p o l = Some (a, n) -> exists s r, split_at l n s r /\ R o s a.

Lemma psound_byte b : psound (p_byte b) (fun _ s _ => s = [b]).
Proof.
  intros o l a n. unfold p_byte. destruct (head_is b l) eqn:H; [|discriminate]. destruct (head_is_true _ _ H) as [t ->].
  intros [= <- <-]. exists [b], t. split; [split; reflexivity|reflexivity].
Qed.
Lemma psound_map {A B} (f : A -> B) p R : psound p R -> psound (p_map f p) (fun o s y => exists a, y = f a /\ R o s a).
Proof.
  intros Hp o l y n. unfold p_map. destruct (p o l) as [[a k]|] eqn:E; [|discriminate]. intros [= <- <-].
  destruct (Hp _ _ _ _ E) as (s & r & Sp & Ra). exists s, r. split; [exact Sp|]. now exists a.
Qed.
Lemma psound_seq {A B} (p1 : P A) (p2 : P B) R1 R2 : psound p1 R1 -> psound p2 R2 ->
  psound (p_seq p1 p2) (fun o s ab => exists s1 w s2, s = s1 ++ w ++ s2 /\ ws w /\ R1 o s1 (fst ab) /\ R2 (o + length s1 + length w) s2 (snd ab)).
Proof.
  intros H1 H2 o l ab n. unfold p_seq. destruct (p1 o l) as [[a n1]|] eqn:E1; [|discriminate].
  destruct (H1 _ _ _ _ E1) as (s1 & r1 & Sp1 & Ra). rewrite (split_skipn _ _ _ _ Sp1).
  destruct (skip_ws_sound r1) as (w & r2 & Sp2 & W). pose proof (split_app _ _ _ _ _ _ _ Sp1 Sp2) as Sp12.
  rewrite (split_skipn _ _ _ _ Sp12). destruct (p2 _ r2) as [[b n2]|] eqn:E2; [|discriminate]. intros [= <- <-].
  destruct (H2 _ _ _ _ E2) as (s2 & r3 & Sp3 & Rb). exists ((s1 ++ w) ++ s2), r3. split; [exact (split_app _ _ _ _ _ _ _ Sp12 Sp3)|].
  exists s1, w, s2. split; [now rewrite app_assoc|]. split; [exact W|]. split; [exact Ra|].
  destruct Sp1 as [_ L1]. destruct Sp2 as [_ L2]. cbn [fst snd]. rewrite L1, L2. exact Rb.
Qed.
Lemma psound_or {A} (p1 p2 : P A) R : psound p1 R -> psound p2 R -> psound (p_or p1 p2) R.
Proof. intros H1 H2 o l a n. unfold p_or. destruct (p1 o l) as [[a1 n1]|] eqn:E1; [intros [= <- <-]; eauto|apply H2]. Qed.
Lemma psound_weaken {A} (p : P A) (R R' : nat -> list byte -> A -> Prop) : psound p R -> (forall o s a, R o s a -> R' o s a) -> psound p R'.
Proof. intros H HR o l a n E. destruct (H _ _ _ _ E) as (s & r & Sp & Ra). exists s, r. split; auto. Qed.

Section Lists.
Variable A : Type.
Variable Rel : nat -> list byte -> A -> Prop.      (* offset -> text of the item -> result *)

(* ws item ws *)
Definition Elem (o : nat) (s : list byte) (a : A) : Prop :=
  exists w1 c w2, s = w1 ++ c ++ w2 /\ ws w1 /\ ws w2 /\ Rel (o + length w1) c a.
(* element ( "," element )* *)
Inductive seps : nat -> list byte -> list A -> Prop :=
| seps_one o s a : Elem o s a -> seps o s [a]
| seps_cons o s a r xs : Elem o s a -> seps (o + length s + 1) r xs -> seps o (s ++ 44%N :: r) (a :: xs).
(* what follows the first item: ( ws "," ws item )* *)
Inductive more_rel : nat -> list byte -> list A -> Prop :=
| mr_nil o : more_rel o [] []
| mr_cons o w1 w2 c a r xs : ws w1 -> ws w2 -> Rel (o + length w1 + 1 + length w2) c a ->
    more_rel (o + length w1 + 1 + length w2 + length c) r xs -> more_rel o (w1 ++ 44%N :: w2 ++ c ++ r) (a :: xs).

Lemma seps_of_more : forall o1 t xs, more_rel o1 t xs -> forall o w1 c1 a1 w3,
  o1 = o + length w1 + length c1 -> ws w1 -> ws w3 -> Rel (o + length w1) c1 a1 ->
  seps o (w1 ++ c1 ++ t ++ w3) (a1 :: xs).
Proof.
  induction 1 as [o1|o1 wa wb c2 a2 r xs Wa Wb R2 M IH]; intros o w1 c1 a1 w3 E W1 W3 R1.
  - cbn [app]. apply seps_one. now exists w1, c1, w3.
  - replace (w1 ++ c1 ++ (wa ++ 44%N :: wb ++ c2 ++ r) ++ w3) with ((w1 ++ c1 ++ wa) ++ 44%N :: (wb ++ c2 ++ r ++ w3))
      by (rewrite <- !app_assoc; cbn [app]; rewrite <- !app_assoc; reflexivity).
    apply seps_cons; [now exists w1, c1, wa|].
    apply IH; auto; [rewrite !app_length; blia|]. subst o1. rewrite !app_length.
    off_eq R2.
Qed.
Lemma more_of_seps : forall o s xs, seps o s xs ->
  exists w1 c1 a1 t w3 ys, s = w1 ++ c1 ++ t ++ w3 /\ xs = a1 :: ys /\ ws w1 /\ ws w3 /\ Rel (o + length w1) c1 a1 /\
    more_rel (o + length w1 + length c1) t ys.
Proof.
  induction 1 as [o s a (w1 & c & w2 & -> & W1 & W2 & R)|o s a r xs (w1 & c & w2 & -> & W1 & W2 & R) _ IH].
  - exists w1, c, a, [], w2, []. repeat split; auto. constructor.
  - destruct IH as (wa & c2 & a2 & t & w3 & ys & -> & -> & Wa & W3 & R2 & M).
    exists w1, c, a, (w2 ++ 44%N :: wa ++ c2 ++ t), w3, (a2 :: ys). repeat split; auto.
    + rewrite <- !app_assoc. cbn [app]. rewrite <- !app_assoc. reflexivity.
    + apply mr_cons; auto.
      * rewrite !app_length in R2. off_eq R2.
      * rewrite !app_length in M. off_eq M.
Qed.

Lemma seps_assemble o w1 c1 a1 w2 s4 ys w3 oM :
  ws w1 -> ws w2 -> ws w3 -> Rel (o + length w1) c1 a1 -> more_rel oM s4 ys -> oM = o + length w1 + length c1 + length w2 ->
  seps o (w1 ++ c1 ++ w2 ++ s4 ++ w3) (a1 :: ys).
Proof.
  intros W1 W2 W3 R1 M E. destruct M as [o1|o1 wa wb c2 a2 r xs Wa Wb R2 M2].
  - cbn [app]. change (w1 ++ c1 ++ w2 ++ w3) with (w1 ++ c1 ++ [] ++ (w2 ++ w3)).
    apply (seps_of_more (o + length w1 + length c1) [] [] (mr_nil _)); auto. apply Forall_app. split; assumption.
  - replace (w1 ++ c1 ++ w2 ++ (wa ++ 44%N :: wb ++ c2 ++ r) ++ w3) with (w1 ++ c1 ++ ((w2 ++ wa) ++ 44%N :: wb ++ c2 ++ r) ++ w3)
      by (rewrite <- !app_assoc; reflexivity).
    apply (seps_of_more (o + length w1 + length c1)); auto.
    apply mr_cons; auto; [apply Forall_app; split; assumption| |]; rewrite app_length; subst o1.
    + off_eq R2.
    + off_eq M2.
Qed.

Variable item : P A.
Definition px : P A := p_map snd (p_seq (p_byte 44) item).

(* ---------------- soundness ---------------- *)
Hypothesis item_sound : psound item Rel.

Definition px_rel (o : nat) (s : list byte) (a : A) : Prop :=
  exists w2 c, s = 44%N :: w2 ++ c /\ ws w2 /\ Rel (o + 1 + length w2) c a.
Lemma px_sound : psound px px_rel.
Proof.
  eapply psound_weaken; [apply psound_map; apply psound_seq; [apply psound_byte|exact item_sound]|].
  intros o s a ([u b] & -> & s1 & w2 & c & -> & W & -> & R). cbn [fst snd length] in *. exists w2, c. repeat split; auto.
Qed.
Lemma p_more_sound : forall n, psound (p_more px n) more_rel.
Proof.
  induction n as [|n IH]; intros o l xs m; cbn [p_more].
  - intros [= <- <-]. exists [], l. split; [apply split_0|constructor].
  - destruct (skip_ws_sound l) as (w1 & r1 & Sp1 & W1). rewrite (split_skipn _ _ _ _ Sp1).
    destruct (px (o + skip_ws l) r1) as [[a k]|] eqn:Px; [|intros [= <- <-]; exists [], l; split; [apply split_0|constructor]].
    destruct (px_sound _ _ _ _ Px) as (s2 & r2 & Sp2 & w2 & c & -> & W2 & R).
    pose proof (split_app _ _ _ _ _ _ _ Sp1 Sp2) as Sp12. rewrite (split_skipn _ _ _ _ Sp12).
    destruct (p_more px n (o + skip_ws l + k) r2) as [[ys m']|] eqn:Pm; [|discriminate]. intros [= <- <-].
    destruct (IH _ _ _ _ Pm) as (s3 & r3 & Sp3 & M).
    exists ((w1 ++ 44%N :: w2 ++ c) ++ s3), r3. split; [exact (split_app _ _ _ _ _ _ _ Sp12 Sp3)|].
    rewrite <- app_assoc. cbn [app]. rewrite <- !app_assoc.
    destruct Sp1 as [_ L1]. destruct Sp2 as [_ L2]. cbn [length] in L2. rewrite app_length in L2.
    apply mr_cons; auto; [rewrite L1; exact R|]. off_eq M.
Qed.
Lemma p_rep_sound : psound (p_rep px) more_rel.
Proof.
  intros o l xs m. unfold p_rep. destruct (px o l) as [[a k]|] eqn:Px; [|intros [= <- <-]; exists [], l; split; [apply split_0|constructor]].
  destruct (px_sound _ _ _ _ Px) as (s2 & r2 & Sp2 & w2 & c & -> & W2 & R). rewrite (split_skipn _ _ _ _ Sp2).
  destruct (p_more px (length l) (o + k) r2) as [[ys m']|] eqn:Pm; [|discriminate]. intros [= <- <-].
  destruct (p_more_sound _ _ _ _ _ Pm) as (s3 & r3 & Sp3 & M).
  exists ((44%N :: w2 ++ c) ++ s3), r3. split; [exact (split_app _ _ _ _ _ _ _ Sp2 Sp3)|].
  destruct Sp2 as [_ L2]. cbn [length] in L2. rewrite app_length in L2.
  change ((44%N :: w2 ++ c) ++ s3) with ([] ++ 44%N :: (w2 ++ c) ++ s3). rewrite <- app_assoc.
  apply mr_cons; auto; [constructor|cbn [length]; rewrite Nat.add_0_r; exact R|].
  cbn [length]. rewrite Nat.add_0_r. off_eq M.
Qed.

Definition list_rel (op cl : byte) (o : nat) (s : list byte) (xs : list A) : Prop :=
  (xs = [] /\ exists w1, ws w1 /\ s = op :: w1 ++ [cl]) \/ (exists body, s = op :: body ++ [cl] /\ seps (o + 1) body xs).
Lemma p_list_sound op cl : psound (p_list op cl item) (list_rel op cl).
Proof.
  unfold p_list. apply psound_or.
  - eapply psound_weaken.
    + apply psound_map. apply psound_seq; [apply psound_seq; [apply psound_seq; [apply psound_byte|exact item_sound]|exact p_rep_sound]|apply psound_byte].
    + intros o s xs ([[[u a1] ys] u'] & -> & s123 & w3 & s4 & -> & W3 & (s12 & w2 & sm & -> & W2 & (s1 & w1 & c1 & -> & W1 & -> & R1) & M) & ->).
      cbn [fst snd] in *. right. exists (w1 ++ c1 ++ w2 ++ sm ++ w3). split; [cbn [app]; rewrite <- !app_assoc; reflexivity|].
      apply (seps_assemble _ _ _ _ _ _ _ _ _ W1 W2 W3 R1 M). cbn [length]. rewrite !app_length. cbn [length]. blia.
  - eapply psound_weaken.
    + apply psound_map. apply psound_seq; apply psound_byte.
    + intros o s xs ([u u'] & -> & s1 & w1 & s2 & -> & W1 & -> & ->). left. split; [reflexivity|]. exists w1. split; [exact W1|reflexivity].
Qed.

End Lists.

(* ---------------- completeness ---------------- *)
Lemma p_seq_complete {A B} (p1 : P A) (p2 : P B) o s1 w s2 tl a b :
  p1 o (s1 ++ w ++ s2 ++ tl) = Some (a, length s1) -> ws w -> head_in is_wsb (s2 ++ tl) = false ->
  p2 (o + length s1 + length w) (s2 ++ tl) = Some (b, length s2) ->
  p_seq p1 p2 o (s1 ++ w ++ s2 ++ tl) = Some ((a, b), length s1 + length w + length s2).
Proof.
  intros H1 W Hh H2. unfold p_seq. rewrite H1, skipn_app_exact, (skip_ws_complete w (s2 ++ tl) W Hh).
  rewrite skipn_add, skipn_app_exact, skipn_app_exact, H2. reflexivity.
Qed.
Lemma p_byte_complete b o tl : p_byte b o (b :: tl) = Some (tt, 1).
Proof. unfold p_byte. now rewrite head_is_cons, N.eqb_refl. Qed.

Lemma delim_ws_app w tl : ws w -> delim tl -> delim (w ++ tl).
Proof.
  intros W D. destruct W as [|b w Hb _]; [exact D|]. cbn [app delim]. unfold is_delimb. apply is_wsb_spec in Hb. now rewrite Hb.
Qed.
Lemma delim_cons b tl : is_delimb b = true -> delim (b :: tl).
Proof. intros H. exact H. Qed.

Lemma p_seq_complete' {A B} (p1 : P A) (p2 : P B) o l s1 w s2 tl a b n1 n :
  l = s1 ++ w ++ s2 ++ tl -> p1 o l = Some (a, n1) -> n1 = length s1 -> ws w -> head_in is_wsb (s2 ++ tl) = false ->
  (forall o', o' = o + n1 + length w -> p2 o' (s2 ++ tl) = Some (b, length s2)) -> n = n1 + length w + length s2 ->
  p_seq p1 p2 o l = Some ((a, b), n).
Proof.
  intros -> H1 -> W Hh H2 ->. apply p_seq_complete; auto.
Qed.
Ltac assoc := cbn [app]; rewrite <- ?app_assoc; cbn [app]; rewrite <- ?app_assoc; reflexivity.

(* the closing byte: not whitespace, not a comma, but something that may follow a value *)
Definition closer (cl : byte) : Prop := is_wsb cl = false /\ N.eqb 44 cl = false /\ is_delimb cl = true.

Section ListsComplete.
Variable A : Type.
Variable Rel : nat -> list byte -> A -> Prop.
Variable item : P A.
Variable B : nat.
Hypothesis item_complete : forall o c a tl, Rel o c a -> delim tl -> length (c ++ tl) < B -> item o (c ++ tl) = Some (a, length c).
Hypothesis rel_head : forall o c a tl, Rel o c a -> head_in is_wsb (c ++ tl) = false.
Notation px := (px A item).
Notation more_rel := (more_rel A Rel).
Notation seps := (seps A Rel).


Lemma px_complete o w2 c a tl : ws w2 -> Rel (o + 1 + length w2) c a -> delim tl -> length (44%N :: w2 ++ c ++ tl) <= B ->
  px o (44%N :: w2 ++ c ++ tl) = Some (a, 1 + length w2 + length c).
Proof.
  intros W2 R D Hl.
  assert (I : item (o + length [44%N] + length w2) (c ++ tl) = Some (a, length c)).
  { apply item_complete; auto. cbn [length app] in *. rewrite !app_length in *. blia. }
  pose proof (p_seq_complete (p_byte 44) item o [44%N] w2 c tl tt a (p_byte_complete _ _ _) W2 (rel_head _ _ a tl R) I) as H.
  unfold RfcList.px, p_map. cbn [app length] in H. unfold byte in *. rewrite H. reflexivity.
Qed.
Lemma more_delim o t xs tl : more_rel o t xs -> delim tl -> delim (t ++ tl).
Proof.
  intros M D. destruct M as [|o w1 w2 c a r xs W1 _ _ _]; [exact D|]. rewrite <- app_assoc. apply delim_ws_app; [exact W1|]. reflexivity.
Qed.
Lemma p_more_complete cl rest : closer cl -> forall o t xs, more_rel o t xs -> forall n w3, ws w3 ->
  length (t ++ w3 ++ cl :: rest) <= n -> length (t ++ w3 ++ cl :: rest) <= B ->
  p_more px n o (t ++ w3 ++ cl :: rest) = Some (xs, length t).
Proof.
  intros (Cw & Cc & Cd). induction 1 as [o|o w1 w2 c a r xs W1 W2 R M IH]; intros n w3 W3 Hn Hb.
  - destruct n as [|n]; [reflexivity|]. cbn [p_more app length].
    rewrite (skip_ws_complete w3 (cl :: rest) W3) by exact Cw. rewrite skipn_app_exact.
    unfold RfcList.px, p_map, p_seq, p_byte. rewrite head_is_cons, Cc. reflexivity.
  - destruct n as [|n]; [len; blia|]. cbn [p_more]. unfold byte in *.
    rewrite <- !app_assoc. cbn [app]. rewrite <- !app_assoc.
    rewrite (skip_ws_complete w1 _ W1) by (cbn [head_in]; unfold is_wsb, ws_bytes; reflexivity). rewrite skipn_app_exact.
    assert (Dt : delim (r ++ w3 ++ cl :: rest)).
    { apply (more_delim _ _ _ _ M). apply delim_ws_app; [exact W3|exact Cd]. }
    assert (Hpx : length (44%N :: w2 ++ c ++ r ++ w3 ++ cl :: rest) <= B) by (len; blia).
    brewrite (px_complete (o + length w1) w2 c a (r ++ w3 ++ cl :: rest) W2 R Dt Hpx).
    replace (skipn (length w1 + (1 + length w2 + length c)) (w1 ++ 44%N :: w2 ++ c ++ r ++ w3 ++ cl :: rest)) with (r ++ w3 ++ cl :: rest).
    2: { symmetry. rewrite skipn_add, skipn_app_exact. cbn [Nat.add]. rewrite skipn_cons, skipn_add, skipn_app_exact, skipn_app_exact. reflexivity. }
    replace (o + length w1 + (1 + length w2 + length c)) with (o + length w1 + 1 + length w2 + length c) by blia.
    assert (Hn' : length (r ++ w3 ++ cl :: rest) <= n) by (len; blia). assert (Hb' : length (r ++ w3 ++ cl :: rest) <= B) by (len; blia).
    brewrite (IH n w3 W3 Hn' Hb').
    f_equal. f_equal. len. blia.
Qed.

Lemma px_fails cl rest o : N.eqb 44 cl = false -> px o (cl :: rest) = None.
Proof. intros C. unfold RfcList.px, p_map, p_seq, p_byte. now rewrite head_is_cons, C. Qed.

Lemma p_list_complete op cl o body xs rest : closer cl -> seps (o + 1) body xs ->
  length (op :: body ++ cl :: rest) <= B ->
  p_list op cl item o (op :: body ++ cl :: rest) = Some (xs, length body + 2).
Proof.
  intros Cl Sp Hb. pose proof Cl as (Cw & Cc & Cd).
  destruct (more_of_seps _ _ _ _ _ Sp) as (w1 & c1 & a1 & t & w3 & ys & -> & -> & W1 & W3 & R1 & M).
  set (l := op :: (w1 ++ c1 ++ t ++ w3) ++ cl :: rest) in *.
  assert (Dt : delim (t ++ w3 ++ cl :: rest)).
  { apply (more_delim _ _ _ _ M). apply delim_ws_app; [exact W3|exact Cd]. }
  (* open ws item *)
  assert (SA : p_seq (p_byte op) item o l = Some ((tt, a1), 1 + length w1 + length c1)).
  { unfold l. eapply (p_seq_complete' (p_byte op) item o _ [op] w1 c1 (t ++ w3 ++ cl :: rest)); [assoc|apply p_byte_complete|reflexivity|exact W1| | |reflexivity].
    - exact (rel_head _ _ a1 _ R1).
    - intros o' ->. apply item_complete; auto. unfold l in Hb. len. blia. }
  unfold p_list, p_or.
  remember (o + 1 + length w1 + length c1) as oM eqn:EoM.
  destruct M as [oM|oM wa wb c2 a2 r ys' Wa Wb R2 M2].
  - (* a single element *)
    assert (SB : p_seq (p_seq (p_byte op) item) (p_rep px) o l = Some ((tt, a1, []), 1 + length w1 + length c1 + length w3)).
    { unfold l. eapply (p_seq_complete' _ (p_rep px) o _ ([op] ++ w1 ++ c1) w3 [] (cl :: rest)); [assoc|exact SA|len; blia|exact W3|exact Cw| |len; blia].
      intros o' _. cbn [app]. unfold p_rep. brewrite (px_fails cl rest o' Cc). reflexivity. }
    assert (SC : p_seq (p_seq (p_seq (p_byte op) item) (p_rep px)) (p_byte cl) o l = Some ((tt, a1, [], tt), 1 + length w1 + length c1 + length w3 + 1)).
    { unfold l. eapply (p_seq_complete' _ (p_byte cl) o _ ([op] ++ w1 ++ c1 ++ w3) [] [cl] rest); [assoc|exact SB|len; blia|constructor|exact Cw| |len; blia].
      intros o' _. apply p_byte_complete. }
    unfold p_map at 1. fold px. rewrite SC. f_equal. f_equal. len. blia.
  - (* more elements *)
    assert (SB : p_seq (p_seq (p_byte op) item) (p_rep px) o l =
                 Some ((tt, a1, a2 :: ys'), 1 + length w1 + length c1 + length wa + (1 + length wb + length c2 + length r))).
    { unfold l. eapply (p_seq_complete' _ (p_rep px) o _ ([op] ++ w1 ++ c1) wa (44%N :: wb ++ c2 ++ r) (w3 ++ cl :: rest));
        [assoc|exact SA|len; blia|exact Wa|reflexivity| |len; blia].
      intros o' ->. unfold p_rep. cbn [app]. rewrite <- !app_assoc.
      assert (Dr : delim (r ++ w3 ++ cl :: rest)).
      { apply (more_delim _ _ _ _ M2). apply delim_ws_app; [exact W3|exact Cd]. }
      assert (Hpx : length (44%N :: wb ++ c2 ++ r ++ w3 ++ cl :: rest) <= B) by (unfold l in Hb; len; blia).
      assert (R2' : Rel (o + (1 + length w1 + length c1) + length wa + 1 + length wb) c2 a2) by off_eq R2.
      brewrite (px_complete _ wb c2 a2 (r ++ w3 ++ cl :: rest) Wb R2' Dr Hpx).
      cbn [Nat.add]. rewrite skipn_cons, skipn_add, skipn_app_exact, skipn_app_exact.
      match goal with |- context [p_more _ _ ?off _] => assert (M2' : more_rel off r ys') by off_eq M2 end.
      assert (H1 : length (r ++ w3 ++ cl :: rest) <= length (44%N :: wb ++ c2 ++ r ++ w3 ++ cl :: rest)) by (len; blia).
      assert (H2 : length (r ++ w3 ++ cl :: rest) <= B) by (unfold l in Hb; len; blia).
      brewrite (p_more_complete cl rest Cl _ _ _ M2' _ w3 W3 H1 H2). f_equal. f_equal. len. blia. }
    assert (SC : p_seq (p_seq (p_seq (p_byte op) item) (p_rep px)) (p_byte cl) o l =
                 Some ((tt, a1, a2 :: ys', tt), 1 + length w1 + length c1 + length wa + (1 + length wb + length c2 + length r) + length w3 + 1)).
    { unfold l. eapply (p_seq_complete' _ (p_byte cl) o _ ([op] ++ w1 ++ c1 ++ wa ++ 44%N :: wb ++ c2 ++ r) w3 [cl] rest); [assoc|exact SB|len; blia|exact W3|exact Cw| |len; blia].
      intros o' _. apply p_byte_complete. }
    unfold p_map at 1. fold px. rewrite SC. f_equal. f_equal. len. blia.
Qed.

End ListsComplete.

(* the empty list: the first alternative fails on the closing byte *)
Lemma p_list_complete_empty {A} (item : P A) op cl o w1 rest : closer cl -> ws w1 -> (forall o' rest', item o' (cl :: rest') = None) ->
  p_list op cl item o (op :: w1 ++ cl :: rest) = Some ([], length w1 + 2).
Proof.
  intros (Cw & Cc & Cd) W1 Hf. unfold p_list, p_or.
  assert (F : p_seq (p_byte op) item o (op :: w1 ++ cl :: rest) = None).
  { unfold p_seq. rewrite p_byte_complete. cbn [Nat.add]. rewrite skipn_cons, skipn_O, (skip_ws_complete w1 (cl :: rest) W1 Cw).
    rewrite skipn_cons, skipn_app_exact, Hf. reflexivity. }
  unfold p_map at 1. unfold p_seq at 1. unfold p_seq at 1. rewrite F.
  unfold p_map, p_seq. rewrite p_byte_complete. cbn [Nat.add]. rewrite skipn_cons, skipn_O, (skip_ws_complete w1 (cl :: rest) W1 Cw).
  rewrite skipn_cons, skipn_app_exact, p_byte_complete. f_equal. f_equal. blia.
Qed.

