(* C18 - the lexical rules of json.pest under Layer S = the scanners of the RFC 8259 recogniser.
   json_grammar is the term regenerated from grammars/src/grammars/json.pest (coq/gen/JsonGrammar.v); each rule is
   looked up in it (rule_* lemmas: they stop checking as soon as the shipped rule changes) and its interior is shown
   to match exactly what the corresponding scanner of Recogniser.v consumes:
     int, exp, number          = scan_int, scan_exp, scan_number
     unicode, escape, inner, string = (hex4), scan_escape, scan_inner, scan_string
     the implicit WHITESPACE* between sequence elements = skip_ws.                                        *)
From Coq Require Import List Arith NArith ZArith Bool Lia String ZifyN ZifyBool.
Import ListNotations.
Require Import PV.Comb.PState PV.Comb.Bytes PV.Comb.Utf8 PV.Comb.Utf8b PV.Iter.Queue PV.Peg.Ast PV.Peg.Spec.
Require Import PV.gen.JsonGrammar PV.Json.Rfc8259 PV.Json.Recogniser PV.Json.Utf8Facts PV.Json.EvalFacts PV.Json.LexLib.
Local Arguments skipn : simpl nomatch.

(* ---- the shipped rules, looked up in the regenerated grammar ---- *)
Definition DIGIT : expr := EIdent (nm "ASCII_DIGIT").
Definition HEXDIGIT : expr := EIdent (nm "ASCII_HEX_DIGIT").
Definition int_body : expr := EChoice (EStr [48%N]) (ESeq (EIdent (nm "ASCII_NONZERO_DIGIT")) (ERep DIGIT)).
Definition exp_body : expr := ESeq (ESeq (bytes_choice 69 [101%N]) (EOpt (bytes_choice 43 [45%N]))) (ERepOnce DIGIT).
Definition number_body : expr :=
  ESeq (ESeq (EOpt (EStr [45%N])) (EIdent (nm "int")))
       (EOpt (EChoice (ESeq (ESeq (EStr [46%N]) (ERepOnce DIGIT)) (EOpt (EIdent (nm "exp")))) (EIdent (nm "exp")))).
Definition unicode_body : expr := ESeq (EStr [117%N]) (ERepExact HEXDIGIT 4).
Definition escape_body : expr :=
  ESeq (EStr [92%N]) (EChoice (bytes_choice 34 [92; 47; 98; 102; 110; 114; 116]%N) (EIdent (nm "unicode"))).
Definition plain_body : expr :=
  ESeq (ENegPred (EChoice (EChoice (EStr [34%N]) (EStr [92%N])) (ERange 0 31))) (EIdent (nm "ANY")).
Definition inner_body : expr := ESeq (ERep plain_body) (EOpt (ESeq (EIdent (nm "escape")) (EIdent (nm "inner")))).
Definition string_body : expr := ESeq (ESeq (EStr [34%N]) (EIdent (nm "inner"))) (EStr [34%N]).
Definition ws_body : expr := bytes_choice 32 [9; 13; 10]%N.

Ltac lookup := vm_compute; reflexivity.
Lemma rule_int : find_rule json_grammar (nm "int") = Some {| rname := nm "int"; rty := RAtomic; rexpr := int_body |}.
Proof. lookup. Qed.
Lemma rule_exp : find_rule json_grammar (nm "exp") = Some {| rname := nm "exp"; rty := RAtomic; rexpr := exp_body |}.
Proof. lookup. Qed.
Lemma rule_number : find_rule json_grammar (nm "number") = Some {| rname := nm "number"; rty := RAtomic; rexpr := number_body |}.
Proof. lookup. Qed.
Lemma rule_unicode : find_rule json_grammar (nm "unicode") = Some {| rname := nm "unicode"; rty := RAtomic; rexpr := unicode_body |}.
Proof. lookup. Qed.
Lemma rule_escape : find_rule json_grammar (nm "escape") = Some {| rname := nm "escape"; rty := RAtomic; rexpr := escape_body |}.
Proof. lookup. Qed.
Lemma rule_inner : find_rule json_grammar (nm "inner") = Some {| rname := nm "inner"; rty := RAtomic; rexpr := inner_body |}.
Proof. lookup. Qed.
Lemma rule_string : find_rule json_grammar (nm "string") = Some {| rname := nm "string"; rty := RAtomic; rexpr := string_body |}.
Proof. lookup. Qed.
Lemma rule_ws : find_rule json_grammar (nm "WHITESPACE") = Some {| rname := nm "WHITESPACE"; rty := RSilent; rexpr := ws_body |}.
Proof. lookup. Qed.
Lemma no_comment_rule : has_rule json_grammar (nm "COMMENT") = false.
Proof. lookup. Qed.
Lemma has_ws_rule : has_rule json_grammar (nm "WHITESPACE") = true.
Proof. lookup. Qed.

(* ---- character classes ---- *)
Lemma class_digit : ascii_class (in_rangeb 48 57).   Proof. unfold ascii_class, in_rangeb. lia. Qed.
Lemma class_digit19 : ascii_class (in_rangeb 49 57). Proof. unfold ascii_class, in_rangeb. lia. Qed.
Lemma class_hex : ascii_class is_hexb.                Proof. unfold ascii_class, is_hexb, in_rangeb. lia. Qed.
Lemma sc_class_pos ok l n : sc_class ok l = Some n -> 0 < n.
Proof. unfold sc_class. destruct (head_in ok l); intros [=]; lia. Qed.

(* ---- pure facts about the scanners ---- *)
Lemma star_digits l : star (sc_class is_digitb) (List.length l) l = scan_digits l.
Proof.
  induction l as [|b r IH]; [reflexivity|]. cbn [List.length star scan_digits]. unfold sc_class at 1. cbn [head_in].
  destruct (is_digitb b); [|reflexivity]. cbn [skipn Nat.add]. now rewrite IH.
Qed.
Lemma plus_digits l : sc_plus (sc_class is_digitb) l = scan_digits1 l.
Proof.
  unfold sc_plus, sc_seq, sc_star, scan_digits1, sc_class. destruct (head_in is_digitb l); [|reflexivity].
  rewrite skipn_1_tl, star_digits. reflexivity.
Qed.
Lemma scan_plain_star f l : scan_plain f l = star plain_char f l.
Proof. revert l. induction f as [|f IH]; intros l; [reflexivity|]. cbn [scan_plain star]. destruct (plain_char l); [now rewrite IH|reflexivity]. Qed.

Section Lexical.
Variable uprop : name -> option (N -> bool).
Variable w : list byte.
Notation lexb := (lexb json_grammar uprop w).
Notation E := (evals json_grammar uprop w).
Notation at_ := (at_ w).

Lemma lexb_digit B : lexb B DIGIT (sc_class is_digitb).
Proof. apply lexb_class; [reflexivity|reflexivity|exact class_digit]. Qed.
Lemma lexb_hexdigit B : lexb B HEXDIGIT (sc_class is_hexb).
Proof. apply lexb_class; [reflexivity|reflexivity|exact class_hex]. Qed.
Lemma lexb_digits1 B : lexb B (ERepOnce DIGIT) scan_digits1.
Proof.
  eapply lexb_ext; [apply lexb_plus; [apply lexb_digit|apply sc_class_pos]|]. intros l _ _. apply plus_digits.
Qed.

(* ---- int = @{ "0" | ASCII_NONZERO_DIGIT ~ ASCII_DIGIT* } ---- *)
Lemma lexb_int_body B : lexb B int_body scan_int.
Proof.
  eapply lexb_ext.
  - apply lexb_choice; [apply (lexb_byte _ _ _ B 48%N); reflexivity|].
    apply lexb_seq; [apply (lexb_class _ _ _ B _ (in_rangeb 49 57)); [reflexivity|reflexivity|exact class_digit19]|].
    apply lexb_star; [apply lexb_digit|apply sc_class_pos].
  - intros l _ _. unfold sc_or, sc_byte, scan_int, sc_seq, sc_class, sc_star.
    destruct (head_is 48 l); [reflexivity|]. destruct (head_in (in_rangeb 49 57) l); [|reflexivity].
    rewrite skipn_1_tl, star_digits. reflexivity.
Qed.
Lemma lexb_int B : lexb B (EIdent (nm "int")) scan_int.
Proof. eapply lexb_call; [reflexivity|reflexivity|reflexivity|exact rule_int|apply lexb_int_body]. Qed.

(* ---- exp = @{ ("E" | "e") ~ ("+" | "-")? ~ ASCII_DIGIT+ } ---- *)
Lemma lexb_exp_body B : lexb B exp_body scan_exp.
Proof.
  eapply lexb_ext.
  - apply lexb_seq; [apply lexb_seq; [apply (lexb_among _ _ _ B 69%N [101%N])|apply lexb_opt; apply (lexb_among _ _ _ B 43%N [45%N])]|apply lexb_digits1];
      repeat constructor.
  - intros l _ _. unfold sc_seq, sc_among, sc_opt, scan_exp, scan_sign, scan_opt.
    destruct (head_among _ l); [|reflexivity]. rewrite skipn_1_tl.
    destruct (head_among _ (tl l)); reflexivity.
Qed.
Lemma lexb_exp B : lexb B (EIdent (nm "exp")) scan_exp.
Proof. eapply lexb_call; [reflexivity|reflexivity|reflexivity|exact rule_exp|apply lexb_exp_body]. Qed.

(* ---- number = @{ "-"? ~ int ~ ("." ~ ASCII_DIGIT+ ~ exp? | exp)? } ---- *)
Lemma lexb_frac B : lexb B (ESeq (ESeq (EStr [46%N]) (ERepOnce DIGIT)) (EOpt (EIdent (nm "exp")))) scan_frac.
Proof.
  eapply lexb_ext.
  - apply lexb_seq; [apply lexb_seq; [apply (lexb_byte _ _ _ B 46%N); reflexivity|apply lexb_digits1]|apply lexb_opt; apply lexb_exp].
  - intros l _ _. unfold sc_seq, sc_byte, sc_opt, scan_frac. destruct (head_is 46 l); [|reflexivity].
    rewrite skipn_1_tl. destruct (scan_digits1 (tl l)) as [n|]; reflexivity.
Qed.
Lemma lexb_number_body B : lexb B number_body scan_number.
Proof.
  eapply lexb_ext.
  - apply lexb_seq; [apply lexb_seq; [apply lexb_opt; apply (lexb_byte _ _ _ B 45%N); reflexivity|apply lexb_int]|].
    apply lexb_opt. apply lexb_choice; [apply lexb_frac|apply lexb_exp].
  - intros l _ _. unfold sc_seq, sc_opt, sc_byte, sc_or, scan_number, scan_tail, scan_opt.
    destruct (head_is 45 l); (destruct (scan_int (skipn _ l)) as [i|]; [|reflexivity]); f_equal; f_equal; destruct (scan_frac _); reflexivity.
Qed.
Lemma lexb_number B : lexb B (EIdent (nm "number")) scan_number.
Proof. eapply lexb_call; [reflexivity|reflexivity|reflexivity|exact rule_number|apply lexb_number_body]. Qed.

(* ---- unicode = @{ "u" ~ ASCII_HEX_DIGIT{4} } ---- *)
Definition scan_unicode (l : list byte) : option nat := if head_is 117 l && hex4 (tl l) then Some 5 else None.
Lemma hex4_seq l :
  sc_seq (sc_class is_hexb) (sc_seq (sc_class is_hexb) (sc_seq (sc_class is_hexb) (sc_class is_hexb))) l = if hex4 l then Some 4 else None.
Proof.
  unfold sc_seq, sc_class, hex4.
  destruct l as [|a [|b [|c [|d r]]]]; cbn [head_in skipn andb];
    repeat (match goal with |- context [is_hexb ?x] => destruct (is_hexb x) end; cbn [head_in skipn andb Nat.add]); reflexivity.
Qed.
Lemma lexb_unicode_body B : lexb B unicode_body scan_unicode.
Proof.
  eapply lexb_ext.
  - apply lexb_seq; [apply (lexb_byte _ _ _ B 117%N); reflexivity|apply lexb_exact4; apply lexb_hexdigit].
  - intros l _ _. unfold sc_seq at 1. unfold sc_byte, scan_unicode.
    destruct (head_is 117 l); [|reflexivity]. rewrite hex4_seq, skipn_1_tl. destruct (hex4 (tl l)); reflexivity.
Qed.
Lemma lexb_unicode B : lexb B (EIdent (nm "unicode")) scan_unicode.
Proof. eapply lexb_call; [reflexivity|reflexivity|reflexivity|exact rule_unicode|apply lexb_unicode_body]. Qed.

(* ---- escape = @{ backslash ~ (quote | backslash | "/" | "b" | "f" | "n" | "r" | "t" | unicode) } ---- *)
Lemma lexb_escape_body B : lexb B escape_body scan_escape.
Proof.
  eapply lexb_ext.
  - apply lexb_seq; [apply (lexb_byte _ _ _ B 92%N); reflexivity|].
    apply lexb_choice; [apply (lexb_among _ _ _ B 34%N [92; 47; 98; 102; 110; 114; 116]%N); repeat constructor|apply lexb_unicode].
  - intros l _ _. unfold sc_seq, sc_byte, sc_or, sc_among, scan_unicode, scan_escape.
    destruct (head_is 92 l); [|reflexivity]. rewrite skipn_1_tl. change simple_escapes with [34; 92; 47; 98; 102; 110; 114; 116]%N.
    destruct (head_among _ (tl l)); [reflexivity|]. rewrite <- skipn_1_tl, <- skipn_1_tl, <- skipn_add. cbn [Nat.add].
    destruct (head_is 117 (skipn 1 l) && hex4 (skipn 2 l)); reflexivity.
Qed.
Lemma lexb_escape B : lexb B (EIdent (nm "escape")) scan_escape.
Proof. eapply lexb_call; [reflexivity|reflexivity|reflexivity|exact rule_escape|apply lexb_escape_body]. Qed.
Lemma scan_escape_pos l n : scan_escape l = Some n -> 0 < n.
Proof.
  unfold scan_escape. destruct (head_is 92 l); [|discriminate]. destruct (head_among _ _); [intros [= <-]; lia|].
  destruct (_ && _); [intros [= <-]; lia|discriminate].
Qed.

(* ---- one unescaped char:  !(quote | backslash | U+0000..U+001F) ~ ANY ---- *)
Lemma unescapedb_char c : scalar c -> unescapedb c = negb (N.eqb 34 c || N.eqb 92 c || in_range 0 31 c).
Proof. unfold scalar, unescapedb, in_rangeb, in_range. lia. Qed.

Lemma lexb_plain B : lexb B plain_body plain_char.
Proof.
  intros emit p l sg _ Ha V. unfold plain_body, plain_char, decode_strict.
  destruct l as [|b0 r0] eqn:El.
  { (* end of input: the predicate holds, ANY fails *)
    split; [|discriminate]. cbn [decode1 lex].
    eapply ev_seq_fail_r; [|apply skips_atomic; reflexivity|].
    - apply ev_neg_ok. eapply ev_choice_r; [eapply ev_choice_r|].
      + apply (ev_lit json_grammar uprop w Atomic false [34%N] p [] sg Ha).
      + apply (ev_lit json_grammar uprop w Atomic false [92%N] p [] sg Ha).
      + generalize (ev_range json_grammar uprop w Atomic false 0 31 p sg). rewrite (one_char_at w _ _ _ _ Ha). auto.
    - generalize (ev_builtin json_grammar uprop w Atomic emit (nm "ANY") (fun _ => true) p sg eq_refl eq_refl).
      rewrite (one_char_at w _ _ _ _ Ha). auto. }
  rewrite <- El in *. assert (Nl : l <> []) by (rewrite El; discriminate). clear El b0 r0.
  destruct (valid_char l V Nl) as (c & l' & Sc & El & V' & D). rewrite D.
  pose proof (proj2 (scalarb_spec c) Sc) as Sb. rewrite Sb. cbn [andb].
  assert (P : prefixb (encode c) l = true) by (apply prefixb_iff; exists l'; exact El). rewrite P.
  rewrite (unescapedb_char c Sc).
  assert (H34 : scan_lit [34%N] l = if N.eqb 34 c then Some 1 else None).
  { unfold scan_lit. change (prefixb [34%N] l) with (head_is 34 l). rewrite El, head_is_char by reflexivity. reflexivity. }
  assert (H92 : scan_lit [92%N] l = if N.eqb 92 c then Some 1 else None).
  { unfold scan_lit. change (prefixb [92%N] l) with (head_is 92 l). rewrite El, head_is_char by reflexivity. reflexivity. }
  pose proof (ev_lit json_grammar uprop w Atomic false [34%N] p l sg Ha) as E34. rewrite H34 in E34.
  pose proof (ev_lit json_grammar uprop w Atomic false [92%N] p l sg Ha) as E92. rewrite H92 in E92.
  pose proof (ev_range json_grammar uprop w Atomic false 0 31 p sg) as ER. rewrite (one_char_at w _ _ _ _ Ha), D in ER.
  pose proof (ev_builtin json_grammar uprop w Atomic emit (nm "ANY") (fun _ => true) p sg eq_refl eq_refl) as EA.
  rewrite (one_char_at w _ _ _ _ Ha), D in EA.
  split.
  - destruct (N.eqb 34 c); cbn [orb negb lex].
    { apply ev_seq_fail_l. eapply ev_neg_fail. apply ev_choice_l. apply ev_choice_l. exact E34. }
    destruct (N.eqb 92 c); cbn [orb negb lex].
    { apply ev_seq_fail_l. eapply ev_neg_fail. apply ev_choice_l. eapply ev_choice_r; [exact E34|exact E92]. }
    destruct (in_range 0 31 c); cbn [orb negb lex].
    { apply ev_seq_fail_l. eapply ev_neg_fail. eapply ev_choice_r; [eapply ev_choice_r; [exact E34|exact E92]|exact ER]. }
    change (@nil tree) with ([] ++ [] ++ @nil tree).
    eapply ev_seq_ok; [|apply skips_atomic; reflexivity|exact EA].
    apply ev_neg_ok. eapply ev_choice_r; [eapply ev_choice_r; [exact E34|exact E92]|exact ER].
  - intros n. destruct (negb _); [|discriminate]. intros [= <-]. rewrite El.
    rewrite app_length, skipn_app, skipn_all, Nat.sub_diag. cbn [app skipn]. split; [lia|exact V'].
Qed.
Lemma plain_char_pos l n : plain_char l = Some n -> 0 < n.
Proof.
  unfold plain_char, decode_strict. destruct (decode1 l) as [[c k]|]; [|discriminate].
  destruct (_ && _); [|discriminate]. destruct (unescapedb c); [|discriminate]. intros [= <-]. pose proof (encode_length c). lia.
Qed.

(* ---- inner = @{ (!(...) ~ ANY)* ~ (escape ~ inner)? }: recursion through the rule, one level per escape ---- *)
Definition inner_sc (f : nat) (l : list byte) : option nat := Some (scan_inner f l).
Lemma inner_step B s2 :
  (forall l, List.length l <= B -> valid_utf8 l ->
     sc_seq (sc_star plain_char) (sc_opt (sc_seq scan_escape s2)) l = inner_sc (S B) l) ->
  lexb B (ESeq (EIdent (nm "escape")) (EIdent (nm "inner"))) (sc_seq scan_escape s2) ->
  lexb B (EIdent (nm "inner")) (inner_sc (S B)).
Proof.
  intros Hext L. eapply lexb_call; [reflexivity|reflexivity|reflexivity|exact rule_inner|].
  eapply lexb_ext; [|exact Hext].
  apply lexb_seq; [apply lexb_star; [apply lexb_plain|apply plain_char_pos]|apply lexb_opt; exact L].
Qed.
Lemma inner_ext B l :
  sc_seq (sc_star plain_char) (sc_opt (sc_seq scan_escape (inner_sc B))) l = inner_sc (S B) l.
Proof.
  unfold sc_seq, sc_star, sc_opt, inner_sc, scan_opt. cbn [scan_inner]. rewrite scan_plain_star. f_equal.
  destruct (scan_escape _) as [k|]; [|lia]. rewrite <- skipn_add. lia.
Qed.
Lemma lexb_inner : forall B, lexb B (EIdent (nm "inner")) (inner_sc (S B)).
Proof.
  induction B as [|B IH].
  - apply (inner_step 0 (inner_sc 0)); [intros l _ _; apply inner_ext|].
    intros emit p l sg Hl Ha V. destruct l; [|cbn in Hl; lia].
    destruct (lexb_escape 0 emit p [] sg Hl Ha V) as [E1 _]. split; [|discriminate]. apply ev_seq_fail_l. exact E1.
  - apply (inner_step (S B) (inner_sc (S B))); [intros l _ _; apply inner_ext|].
    apply lexb_seq_dec; [apply lexb_escape|apply scan_escape_pos|exact IH].
Qed.
Definition inner_len (l : list byte) : option nat := inner_sc (S (List.length l)) l.
Lemma lexb_inner_len B : lexb B (EIdent (nm "inner")) inner_len.
Proof. intros emit p l sg _ Ha V. exact (lexb_inner (List.length l) emit p l sg (le_n _) Ha V). Qed.

(* ---- string = @{ quote ~ inner ~ quote } ---- *)
Lemma lexb_string_body B : lexb B string_body scan_string.
Proof.
  eapply lexb_ext.
  - apply lexb_seq; [apply lexb_seq; [apply (lexb_byte _ _ _ B 34%N); reflexivity|apply lexb_inner_len]|apply (lexb_byte _ _ _ B 34%N); reflexivity].
  - intros l _ _. unfold sc_seq, sc_byte, inner_len, inner_sc, scan_string.
    destruct l as [|b r]; [reflexivity|]. destruct (head_is 34 (b :: r)); [|reflexivity].
    cbn [skipn List.length tl]. destruct (head_is 34 (skipn (1 + scan_inner (S (List.length r)) r) (b :: r))); reflexivity.
Qed.

(* ---- the implicit whitespace of non-atomic sequences and repetitions: WHITESPACE* = skip_ws ---- *)
Lemma ev_whitespace a emit p l sg : at_ p l ->
  E a emit (EIdent (nm "WHITESPACE")) p sg (lex p sg (sc_among ws_bytes l)).
Proof.
  intros Ha.
  generalize (ev_rule json_grammar uprop w a emit (nm "WHITESPACE") _ false Atomic p sg _ eq_refl eq_refl rule_ws eq_refl
                (ev_bytes_choice json_grammar uprop w Atomic emit 32%N [9; 13; 10]%N p l sg Ha)).
  change (32 :: [9; 13; 10])%N with ws_bytes. unfold wrap, lex. destruct (sc_among ws_bytes l); auto.
Qed.
Lemma ws_loop emit sg : forall l p acc, at_ p l ->
  loops (many_U json_grammar uprop w NonAtomic emit (nm "WHITESPACE")) p sg acc (SMatch (p + skip_ws l) sg acc).
Proof.
  induction l as [|b r IH]; intros p acc Ha.
  - cbn [skip_ws]. rewrite Nat.add_0_r. apply loops_stop. generalize (ev_whitespace NonAtomic emit p [] sg Ha). auto.
  - pose proof (ev_whitespace NonAtomic emit p (b :: r) sg Ha) as E1. unfold sc_among in E1. rewrite head_among_cons in E1.
    cbn [skip_ws]. change (existsb (N.eqb b) ws_bytes) with (is_wsb b) in E1. destruct (is_wsb b).
    + eapply loops_step; [exact E1|]. rewrite app_nil_r. replace (p + S (skip_ws r)) with (p + 1 + skip_ws r) by lia.
      apply IH. exact (at_tl w p (b :: r) Ha).
    + rewrite Nat.add_0_r. apply loops_stop. exact E1.
Qed.
Lemma skip_ok emit p l sg : at_ p l -> skips json_grammar uprop w NonAtomic emit p sg (SMatch (p + skip_ws l) sg []).
Proof. intros Ha. apply skips_ws; [exact has_ws_rule|exact no_comment_rule|]. now apply ws_loop. Qed.

End Lexical.
