(* C18 - an executable RFC 8259 recogniser  rfc_parse : list byte -> option jdoc  (definitions only; extracted
   to OCaml and run against the real JsonParser as the specification oracle).
   It is proved sound and complete for the inductive relation json_doc of Rfc8259.v in RecogniserProofs.v, and it is
   what the Layer-S semantics of json.pest is proved to compute in Lexical.v / Structure.v / Top.v.
   It is a recursive-descent recogniser: scanners return the number of bytes consumed; `parse_value fuel o l`
   reads a value at the head of l, where l starts at byte offset o of the text. *)
From Coq Require Import List Arith NArith Bool.
Import ListNotations.
Require Import PV.Comb.PState PV.Comb.Bytes PV.Comb.Utf8 PV.Json.Rfc8259.

Definition in_rangeb (lo hi b : N) : bool := (lo <=? b)%N && (b <=? hi)%N.
(* the first byte of l is b / satisfies ok *)
Definition head_is (b : byte) (l : list byte) : bool := prefixb [b] l.
Arguments head_is b%N l.
Definition head_in (ok : N -> bool) (l : list byte) : bool := match l with x :: _ => ok x | [] => false end.
Definition head_among (bs : list byte) (l : list byte) : bool := existsb (fun b => head_is b l) bs.

(* ---- whitespace ---- *)
Definition ws_bytes : list byte := [32; 9; 13; 10]%N.
Definition is_wsb (b : byte) : bool := existsb (N.eqb b) ws_bytes.
Fixpoint skip_ws (l : list byte) : nat :=
  match l with b :: r => if is_wsb b then S (skip_ws r) else 0 | [] => 0 end.

(* ---- numbers ---- *)
Definition is_digitb (b : byte) : bool := in_rangeb 48 57 b.
Fixpoint scan_digits (l : list byte) : nat :=
  match l with b :: r => if is_digitb b then S (scan_digits r) else 0 | [] => 0 end.
(* 1*DIGIT *)
Definition scan_digits1 (l : list byte) : option nat :=
  if head_in is_digitb l then Some (1 + scan_digits (tl l)) else None.
Definition scan_int (l : list byte) : option nat :=
  if head_is 48 l then Some 1
  else if head_in (in_rangeb 49 57) l then Some (1 + scan_digits (tl l))
  else None.
Definition scan_sign (l : list byte) : nat := if head_among [43; 45]%N l then 1 else 0.
Definition scan_exp (l : list byte) : option nat :=
  if head_among [69; 101]%N l then
    let s := scan_sign (tl l) in
    match scan_digits1 (skipn (1 + s) l) with Some n => Some (1 + s + n) | None => None end
  else None.
Definition scan_opt (o : option nat) : nat := match o with Some n => n | None => 0 end.
(* frac [ exp ] *)
Definition scan_frac (l : list byte) : option nat :=
  if head_is 46 l then
    match scan_digits1 (tl l) with Some n => Some (1 + n + scan_opt (scan_exp (skipn (1 + n) l))) | None => None end
  else None.
(* [ frac ] [ exp ] *)
Definition scan_tail (l : list byte) : nat :=
  match scan_frac l with Some n => n | None => scan_opt (scan_exp l) end.
Definition scan_number (l : list byte) : option nat :=
  let m := if head_is 45 l then 1 else 0 in
  match scan_int (skipn m l) with
  | Some i => Some (m + i + scan_tail (skipn (m + i) l))
  | None => None
  end.

(* ---- strings ---- *)
(* the first UTF-8 encoded scalar value of l, strictly: (code point, encoded length) *)
Definition decode_strict (l : list byte) : option (N * nat) :=
  match decode1 l with
  | Some (c, _) => if scalarb c && prefixb (encode c) l then Some (c, length (encode c)) else None
  | None => None
  end.
Definition unescapedb (c : N) : bool := in_rangeb 32 33 c || in_rangeb 35 91 c || in_rangeb 93 1114111 c.
(* an unescaped char at the head of l: its length in bytes *)
Definition plain_char (l : list byte) : option nat :=
  match decode_strict l with Some (c, n) => if unescapedb c then Some n else None | None => None end.
Fixpoint scan_plain (fuel : nat) (l : list byte) : nat :=
  match fuel with
  | 0 => 0
  | S f => match plain_char l with Some n => n + scan_plain f (skipn n l) | None => 0 end
  end.
Definition is_hexb (b : byte) : bool := in_rangeb 48 57 b || in_rangeb 97 102 b || in_rangeb 65 70 b.
Definition hex4 (l : list byte) : bool :=
  head_in is_hexb l && head_in is_hexb (skipn 1 l) && head_in is_hexb (skipn 2 l) && head_in is_hexb (skipn 3 l).
Definition scan_escape (l : list byte) : option nat :=
  if head_is 92 l then
    if head_among simple_escapes (tl l) then Some 2
    else if head_is 117 (tl l) && hex4 (skipn 2 l) then Some 6
    else None
  else None.
(* *char: a run of unescaped chars, then optionally an escape and again *)
Fixpoint scan_inner (fuel : nat) (l : list byte) : nat :=
  match fuel with
  | 0 => 0
  | S f =>
    let n := scan_plain (length l) l in
    match scan_escape (skipn n l) with
    | Some k => n + k + scan_inner f (skipn (n + k) l)
    | None => n
    end
  end.
Definition scan_string (l : list byte) : option nat :=
  if head_is 34 l then
    let n := scan_inner (length l) (tl l) in
    if head_is 34 (skipn (1 + n) l) then Some (1 + n + 1) else None
  else None.

(* ---- literals ---- *)
Definition scan_lit (s l : list byte) : option nat := if prefixb s l then Some (length s) else None.

(* ---- structure: parsers with results.  P A: byte offset of the suffix -> suffix -> (result, bytes consumed) ---- *)
Definition P (A : Type) : Type := nat -> list byte -> option (A * nat).

Definition p_byte (b : byte) : P unit := fun _ l => if head_is b l then Some (tt, 1) else None.
Arguments p_byte b%N _ _.
Definition p_lit (s : list byte) : P unit := fun _ l => if prefixb s l then Some (tt, length s) else None.
(* a token recognised by a scanner; the result is its span *)
Definition p_scan (sc : list byte -> option nat) : P (nat * nat) :=
  fun o l => match sc l with Some n => Some ((o, o + n), n) | None => None end.
Definition p_map {A B : Type} (f : A -> B) (pa : P A) : P B :=
  fun o l => match pa o l with Some (a, n) => Some (f a, n) | None => None end.
(* the result together with the span of what was read *)
Definition p_span {A B : Type} (f : nat -> nat -> A -> B) (pa : P A) : P B :=
  fun o l => match pa o l with Some (a, n) => Some (f o (o + n) a, n) | None => None end.
Definition p_or {A : Type} (p1 p2 : P A) : P A :=
  fun o l => match p1 o l with Some r => Some r | None => p2 o l end.
(* p1 ws p2 *)
Definition p_seq {A B : Type} (p1 : P A) (p2 : P B) : P (A * B) :=
  fun o l =>
    match p1 o l with
    | Some (a, n1) =>
      let w := skip_ws (skipn n1 l) in
      match p2 (o + n1 + w) (skipn (n1 + w) l) with
      | Some (b, n2) => Some ((a, b), n1 + w + n2)
      | None => None
      end
    | None => None
    end.
(* ( ws px )*, at most n rounds; a round whose px fails consumes nothing *)
Fixpoint p_more {A : Type} (px : P A) (n : nat) : P (list A) :=
  fun o l =>
    match n with
    | 0 => Some ([], 0)
    | S n' =>
      let w := skip_ws l in
      match px (o + w) (skipn w l) with
      | Some (a, k) =>
        match p_more px n' (o + w + k) (skipn (w + k) l) with
        | Some (r, m) => Some (a :: r, w + k + m)
        | None => None
        end
      | None => Some ([], 0)
      end
    end.
(* px*  =  [ px ( ws px )* ] *)
Definition p_rep {A : Type} (px : P A) : P (list A) :=
  fun o l =>
    match px o l with
    | Some (a, k) =>
      match p_more px (length l) (o + k) (skipn k l) with
      | Some (r, m) => Some (a :: r, k + m)
      | None => None
      end
    | None => Some ([], 0)
    end.

(* open ws item ( ws "," ws item )* ws close  |  open ws close *)
Definition p_list {A : Type} (op cl : byte) (item : P A) : P (list A) :=
  p_or (p_map (fun x : unit * A * list A * unit => match x with (_, a, r, _) => a :: r end)
          (p_seq (p_seq (p_seq (p_byte op) item) (p_rep (p_map snd (p_seq (p_byte 44) item)))) (p_byte cl)))
       (p_map (fun _ => []) (p_seq (p_byte op) (p_byte cl))).
Arguments p_list {A} (op cl)%N item _ _.

(* member: string ws ":" ws value; the result is (span of the name, value) *)
Definition p_pair (pv : P jdoc) : P (nat * nat * jdoc) :=
  p_map (fun x : nat * nat * unit * jdoc => match x with (k, _, v) => (fst k, snd k, v) end)
    (p_seq (p_seq (p_scan scan_string) (p_byte 58)) pv).

Definition p_string : P jdoc := p_map (fun s => JString (fst s) (snd s)) (p_scan scan_string).
Definition p_number : P jdoc := p_map (fun s => JNumber (fst s) (snd s)) (p_scan scan_number).
Definition p_bool : P jdoc :=
  p_span (fun o e b => JBool b o e) (p_or (p_map (fun _ => true) (p_lit lit_true)) (p_map (fun _ => false) (p_lit lit_false))).
Definition p_null : P jdoc := p_span (fun o e _ => JNull o e) (p_lit lit_null).

Fixpoint parse_value (fuel : nat) (o : nat) (l : list byte) {struct fuel} : option (jdoc * nat) :=
  match fuel with
  | 0 => None
  | S f =>
    p_or (p_or (p_or (p_or (p_or p_string p_number)
      (p_span JObject (p_list 123 125 (p_pair (parse_value f)))))
      (p_span JArray (p_list 91 93 (parse_value f))))
      p_bool)
      p_null o l
  end.

(* JSON-text = ws value ws *)
Definition rfc_parse (w : list byte) : option jdoc :=
  let w1 := skip_ws w in
  match parse_value (S (length w)) w1 (skipn w1 w) with
  | Some (d, n) =>
    let w2 := skip_ws (skipn (w1 + n) w) in
    if Nat.eqb (w1 + n + w2) (length w) then Some d else None
  | None => None
  end.
Definition rfc_accepts (w : list byte) : bool := match rfc_parse w with Some _ => true | None => false end.
