(* C18 - small facts about lists, bytes and the first char of valid UTF-8, shared by the RFC side (Rfc*.v) and the
   PEG side (LexLib.v, ...). *)
From Coq Require Import List Arith NArith Bool Lia.
Import ListNotations.
Require Import PV.Comb.PState PV.Comb.Bytes PV.Comb.Utf8 PV.Comb.Utf8b PV.Json.Recogniser.

(* ---- lists ---- *)
Lemma skipn_add {A} (p k : nat) (l : list A) : skipn (p + k) l = skipn k (skipn p l).
Proof.
  revert l. induction p as [|p IH]; intros l; [reflexivity|].
  destruct l as [|x l]; cbn [Nat.add]; [now rewrite !skipn_nil|rewrite !skipn_cons; apply IH].
Qed.
Lemma skipn_1_tl {A} (l : list A) : skipn 1 l = tl l.
Proof. destruct l; reflexivity. Qed.
Lemma skipn_length_le {A} n (l : list A) : List.length (skipn n l) <= List.length l.
Proof. rewrite skipn_length. lia. Qed.

(* ---- bytes and chars of valid UTF-8 ---- *)
Definition ascii (b : byte) : Prop := (b < 128)%N.
Definition ascii_class (ok : N -> bool) : Prop := forall c, ok c = true -> (c < 128)%N.

Lemma encode_ascii c : (c < 128)%N -> encode c = [c].
Proof. intros H. unfold encode. destruct (N.ltb_spec c 128); [reflexivity|lia]. Qed.
Lemma encode_head_ge c : (128 <= c)%N -> exists b t, encode c = b :: t /\ (128 <= b)%N.
Proof.
  intros H. unfold encode. destruct (N.ltb_spec c 128); [lia|].
  destruct (c <? 2048)%N; [|destruct (c <? 65536)%N]; eexists; eexists; (split; [reflexivity|lia]).
Qed.

Lemma valid_tail b l : valid_utf8 (b :: l) -> (b < 128)%N -> valid_utf8 l.
Proof.
  intros V Hb. destruct (valid_inv _ V) as [E|(c & l' & Sc & E & V')]; [discriminate|].
  destruct (N.lt_ge_cases c 128) as [Hc|Hc].
  - rewrite (encode_ascii c Hc) in E. cbn in E. injection E as _ ->. exact V'.
  - destruct (encode_head_ge c Hc) as (b' & t & Ee & Hb'). rewrite Ee in E. cbn in E. injection E as -> _. lia.
Qed.
Lemma valid_skip_ascii s : Forall ascii s -> forall r, valid_utf8 (s ++ r) -> valid_utf8 r.
Proof. induction 1 as [|b s Hb _ IH]; intros r V; [exact V|]. apply IH. exact (valid_tail b _ V Hb). Qed.

(* the first char of a non-empty valid string *)
Lemma valid_char l : valid_utf8 l -> l <> [] ->
  exists c l', scalar c /\ l = encode c ++ l' /\ valid_utf8 l' /\ decode1 l = Some (c, List.length (encode c)).
Proof.
  intros V N. destruct (valid_inv _ V) as [E|(c & l' & Sc & E & V')]; [contradiction|].
  exists c, l'. repeat split; auto. rewrite E. apply decode1_encode. now apply scalar_lt.
Qed.

Lemma head_is_cons b x r : head_is b (x :: r) = N.eqb b x.
Proof. unfold head_is. cbn [prefixb]. apply andb_true_r. Qed.
Lemma head_is_nil b : head_is b [] = false.
Proof. reflexivity. Qed.
Lemma head_among_cons bs x r : head_among bs (x :: r) = existsb (N.eqb x) bs.
Proof.
  unfold head_among. induction bs as [|b bs IH]; [reflexivity|]. cbn [existsb]. rewrite head_is_cons, IH, (N.eqb_sym b x). reflexivity.
Qed.
Lemma head_among_nil bs : head_among bs [] = false.
Proof. unfold head_among. induction bs as [|b bs IH]; [reflexivity|]. cbn [existsb]. rewrite IH. reflexivity. Qed.

(* an ASCII byte test on the first char: the char is that byte *)
Lemma head_is_char b c l' : (b < 128)%N -> head_is b (encode c ++ l') = N.eqb b c.
Proof.
  intros Hb. destruct (N.lt_ge_cases c 128) as [Hc|Hc].
  - rewrite (encode_ascii c Hc). cbn [app]. apply head_is_cons.
  - destruct (encode_head_ge c Hc) as (b' & t & Ee & Hb'). rewrite Ee. cbn [app]. rewrite head_is_cons.
    destruct (N.eqb_spec b b'); destruct (N.eqb_spec b c); auto; lia.
Qed.

(* a class of ASCII characters tested on the first char of a valid string = the test of the first byte *)
Lemma class_at ok l : valid_utf8 l -> ascii_class ok ->
  match decode1 l with Some (c, n) => if ok c then Some n else None | None => None end = if head_in ok l then Some 1 else None.
Proof.
  intros V A. destruct l as [|b r]; [reflexivity|]. cbn [head_in].
  destruct (N.lt_ge_cases b 128) as [Hb|Hb].
  - unfold decode1. destruct (N.ltb_spec b 128); [reflexivity|lia].
  - destruct (valid_char _ V ltac:(discriminate)) as (c & l' & Sc & E & V' & D). rewrite D.
    assert (Hc : (128 <= c)%N).
    { destruct (N.lt_ge_cases c 128) as [Hc|Hc]; [|exact Hc]. rewrite (encode_ascii c Hc) in E. cbn in E. injection E as -> _. lia. }
    destruct (ok c) eqn:Oc; [apply A in Oc; lia|]. destruct (ok b) eqn:Ob; [apply A in Ob; lia|]. reflexivity.
Qed.

