(* C18 - parsers: the compositional library for NON-ATOMIC rules (implicit whitespace between the elements of a
   sequence and between the rounds of a repetition, nodes emitted), relating expressions to the parser
   combinators of Recogniser.v (p_seq, p_or, p_rep, ...).

   parslt B e pa tr : on every valid UTF-8 suffix l of the input of length < B, at its offset p, the expression e
                      (NonAtomic, emit = true, any stack) matches exactly n bytes and yields the forest tr a when
                      pa p l = Some (a, n), and fails when pa p l = None; moreover pa stays inside l and ends on a
                      char boundary.  The strict bound serves the recursion value -> array/object -> value.
   The grammar enters through Hskip only: its implicit whitespace is skip_ws.                              *)
From Coq Require Import List Arith NArith ZArith Bool Lia String ZifyN ZifyBool.
Import ListNotations.
Require Import PV.Comb.PState PV.Comb.Bytes PV.Comb.Utf8 PV.Comb.Utf8b PV.Iter.Queue PV.Peg.Ast PV.Peg.Spec.
Require Import PV.Json.Rfc8259 PV.Json.Recogniser PV.Json.Utf8Facts PV.Json.EvalFacts PV.Json.LexLib.

Lemma is_wsb_ascii b : is_wsb b = true -> ascii b.
Proof. unfold is_wsb, ws_bytes, ascii. cbn [existsb]. lia. Qed.
Lemma skip_ws_le l : skip_ws l <= List.length l.
Proof. induction l as [|b r IH]; [cbn; lia|]. cbn [skip_ws List.length]. destruct (is_wsb b); lia. Qed.
Lemma valid_skip_ws l : valid_utf8 l -> valid_utf8 (skipn (skip_ws l) l).
Proof.
  induction l as [|b r IH]; intros V; [exact V|]. cbn [skip_ws]. destruct (is_wsb b) eqn:W; [|exact V].
  rewrite skipn_cons. apply IH. exact (valid_tail b r V (is_wsb_ascii b W)).
Qed.

Section Parse.
Variable G : grammar.
Variable uprop : name -> option (N -> bool).
Variable w : list byte.
Notation E := (evals G uprop w).
Notation at_ := (at_ w).
Hypothesis Hskip : forall emit p l sg, at_ p l -> skips G uprop w NonAtomic emit p sg (SMatch (p + skip_ws l) sg []).
Local Set Default Proof Using "Hskip".

Definition pres {A : Type} (p : nat) (sg : list str) (tr : A -> list tree) (o : option (A * nat)) : sres :=
  match o with Some (a, n) => SMatch (p + n) sg (tr a) | None => SFail end.
Definition stays {A : Type} (pa : P A) (p : nat) (l : list byte) : Prop :=
  forall a n, pa p l = Some (a, n) -> n <= List.length l /\ valid_utf8 (skipn n l).
Definition parslt {A : Type} (B : nat) (e : expr) (pa : P A) (tr : A -> list tree) : Prop :=
  forall p l sg, List.length l < B -> at_ p l -> valid_utf8 l ->
    E NonAtomic true e p sg (pres p sg tr (pa p l)) /\ stays pa p l.

Lemma parslt_weaken {A} B B' e (pa : P A) tr : B' <= B -> parslt B e pa tr -> parslt B' e pa tr.
Proof. intros H L p l sg Hl. apply L. lia. Qed.
Lemma parslt_ext {A} B e (pa pa' : P A) tr : parslt B e pa tr -> (forall p l, pa p l = pa' p l) -> parslt B e pa' tr.
Proof. intros L H p l sg Hl Ha V. unfold stays. rewrite <- (H p l). now apply L. Qed.
(* the forest function only matters on actual results *)
Lemma parslt_tr {A} B e (pa : P A) tr tr' :
  parslt B e pa tr -> (forall p l a n, pa p l = Some (a, n) -> tr' a = tr a) -> parslt B e pa tr'.
Proof.
  intros L H p l sg Hl Ha V. destruct (L p l sg Hl Ha V) as [E1 S1]. split; [|exact S1].
  unfold pres in *. destruct (pa p l) as [[a n]|] eqn:Pa; [|exact E1]. rewrite (H p l a n Pa). exact E1.
Qed.

Lemma parslt_lit B s : Forall ascii s -> parslt B (EStr s) (p_lit s) (fun _ => []).
Proof.
  intros As p l sg _ Ha V. unfold p_lit, stays. split.
  - generalize (ev_lit G uprop w NonAtomic true s p l sg Ha). unfold scan_lit, lex, pres. destruct (prefixb s l); auto.
  - intros a n. destruct (prefixb s l) eqn:Pf; [|discriminate]. intros [= _ <-].
    apply prefixb_iff in Pf. destruct Pf as [r ->]. rewrite app_length, skipn_app, skipn_all, Nat.sub_diag. cbn [app skipn].
    split; [lia|]. exact (valid_skip_ascii s As r V).
Qed.
Lemma parslt_byte B b : ascii b -> parslt B (EStr [b]) (p_byte b) (fun _ => []).
Proof. intros Hb. apply (parslt_lit B [b]). constructor; [exact Hb|constructor]. Qed.

Lemma parslt_seq_gen {A1 A2} B B2 e1 e2 (p1 : P A1) (p2 : P A2) t1 t2 :
  parslt B e1 p1 t1 -> parslt B2 e2 p2 t2 ->
  (forall p l a n, List.length l < B -> p1 p l = Some (a, n) -> n <= List.length l -> List.length l - n < B2) ->
  parslt B (ESeq e1 e2) (p_seq p1 p2) (fun ab => t1 (fst ab) ++ [] ++ t2 (snd ab)).
Proof.
  intros L1 L2 HB p l sg Hl Ha V. destruct (L1 p l sg Hl Ha V) as [E1 S1]. unfold p_seq, stays.
  destruct (p1 p l) as [[a n1]|] eqn:P1.
  - destruct (S1 a n1 P1) as [Hn1 V1]. pose proof (HB p l a n1 Hl P1 Hn1) as Hb2.
    pose proof (at_skip w p l n1 Ha) as Ha1. pose proof (Hskip true (p + n1) (skipn n1 l) sg Ha1) as Sk.
    set (ws1 := skip_ws (skipn n1 l)) in *.
    pose proof (skip_ws_le (skipn n1 l)) as Hw. fold ws1 in Hw. rewrite skipn_length in Hw.
    pose proof (valid_skip_ws _ V1) as V2. fold ws1 in V2. rewrite <- skipn_add in V2.
    pose proof (at_skip w (p + n1) (skipn n1 l) ws1 Ha1) as Ha2. rewrite <- skipn_add in Ha2.
    assert (Hl2 : List.length (skipn (n1 + ws1) l) < B2) by (rewrite skipn_length; lia).
    destruct (L2 (p + n1 + ws1) (skipn (n1 + ws1) l) sg Hl2 Ha2 V2) as [E2 S2].
    destruct (p2 (p + n1 + ws1) (skipn (n1 + ws1) l)) as [[b n2]|] eqn:P2.
    + split.
      * unfold pres in *. cbn [fst snd]. replace (p + (n1 + ws1 + n2)) with (p + n1 + ws1 + n2) by lia.
        eapply ev_seq_ok; [exact E1|exact Sk|exact E2].
      * intros x n [= <- <-]. destruct (S2 b n2 P2) as [Hn2 V3]. rewrite skipn_length in Hn2.
        rewrite <- skipn_add in V3. split; [lia|exact V3].
    + split; [|discriminate]. eapply ev_seq_fail_r; [exact E1|exact Sk|exact E2].
  - split; [|discriminate]. apply ev_seq_fail_l. exact E1.
Qed.
Lemma parslt_seq {A1 A2} B e1 e2 (p1 : P A1) (p2 : P A2) t1 t2 :
  parslt B e1 p1 t1 -> parslt B e2 p2 t2 -> parslt B (ESeq e1 e2) (p_seq p1 p2) (fun ab => t1 (fst ab) ++ [] ++ t2 (snd ab)).
Proof. intros L1 L2. apply (parslt_seq_gen B B e1 e2 p1 p2 t1 t2 L1 L2). intros; lia. Qed.
(* what follows a part that consumes something only sees strictly shorter suffixes *)
Lemma parslt_seq_dec {A1 A2} B e1 e2 (p1 : P A1) (p2 : P A2) t1 t2 :
  parslt (S B) e1 p1 t1 -> (forall p l a n, p1 p l = Some (a, n) -> 0 < n) -> parslt B e2 p2 t2 ->
  parslt (S B) (ESeq e1 e2) (p_seq p1 p2) (fun ab => t1 (fst ab) ++ [] ++ t2 (snd ab)).
Proof.
  intros L1 Pos L2. apply (parslt_seq_gen (S B) B e1 e2 p1 p2 t1 t2 L1 L2).
  intros p l a n Hl P1 Hn. apply Pos in P1. lia.
Qed.

Lemma parslt_or {A} B e1 e2 (p1 p2 : P A) tr : parslt B e1 p1 tr -> parslt B e2 p2 tr -> parslt B (EChoice e1 e2) (p_or p1 p2) tr.
Proof.
  intros L1 L2 p l sg Hl Ha V. destruct (L1 p l sg Hl Ha V) as [E1 S1]. destruct (L2 p l sg Hl Ha V) as [E2 S2].
  unfold p_or, stays. destruct (p1 p l) as [[a n]|] eqn:P1.
  - split; [apply ev_choice_l; exact E1|]. intros x k [= <- <-]. eapply S1; eassumption.
  - split; [eapply ev_choice_r; [exact E1|exact E2]|exact S2].
Qed.
Lemma parslt_map {A A'} B e (pa : P A) (f : A -> A') t t' :
  parslt B e pa t -> (forall a, t' (f a) = t a) -> parslt B e (p_map f pa) t'.
Proof.
  intros L H p l sg Hl Ha V. destruct (L p l sg Hl Ha V) as [E1 S1]. unfold p_map, stays, pres in *.
  destruct (pa p l) as [[a n]|]; [|split; [exact E1|discriminate]].
  split; [rewrite H; exact E1|]. intros x k [= <- <-]. exact (S1 a n eq_refl).
Qed.
Lemma parslt_span {A A'} B e (pa : P A) (f : nat -> nat -> A -> A') t t' :
  parslt B e pa t -> (forall o o' a, t' (f o o' a) = t a) -> parslt B e (p_span f pa) t'.
Proof.
  intros L H p l sg Hl Ha V. destruct (L p l sg Hl Ha V) as [E1 S1]. unfold p_span, stays, pres in *.
  destruct (pa p l) as [[a n]|]; [|split; [exact E1|discriminate]].
  split; [rewrite H; exact E1|]. intros x k [= <- <-]. exact (S1 a n eq_refl).
Qed.

(* ---- x* in a non-atomic rule ---- *)
Lemma more_loop {A} B x (px : P A) tx :
  parslt B x px tx -> (forall p l a n, px p l = Some (a, n) -> 0 < n) ->
  forall n l p sg acc, List.length l <= n -> List.length l < B -> at_ p l -> valid_utf8 l ->
    exists r m, p_more px n p l = Some (r, m) /\
      reps G uprop w NonAtomic true x p sg acc (SMatch (p + m) sg (acc ++ flat_map tx r)) /\
      m <= List.length l /\ valid_utf8 (skipn m l).
Proof.
  intros L Pos. induction n as [|n IH]; intros l p sg acc Hn Hl Ha V.
  - destruct l; [|cbn in Hn; lia]. exists [], 0. cbn [p_more flat_map skipn List.length]. rewrite Nat.add_0_r, app_nil_r.
    split; [reflexivity|]. split; [|split; [lia|exact V]].
    pose proof (Hskip true p [] sg Ha) as Sk. cbn [skip_ws] in Sk. rewrite Nat.add_0_r in Sk.
    destruct (L p [] sg Hl Ha V) as [E1 S1]. destruct (px p []) as [[a k]|] eqn:Px.
    { destruct (S1 a k Px) as [Hk _]. apply Pos in Px. cbn in Hk. lia. }
    apply loops_stop. eapply rep_unit_fail; [exact Sk|exact E1].
  - pose proof (Hskip true p l sg Ha) as Sk. set (ws1 := skip_ws l) in *.
    pose proof (skip_ws_le l) as Hw. fold ws1 in Hw. pose proof (valid_skip_ws l V) as V1. fold ws1 in V1.
    pose proof (at_skip w p l ws1 Ha) as Ha1.
    assert (Hl1 : List.length (skipn ws1 l) < B) by (rewrite skipn_length; lia).
    destruct (L (p + ws1) (skipn ws1 l) sg Hl1 Ha1 V1) as [E1 S1]. cbn [p_more]. fold ws1.
    destruct (px (p + ws1) (skipn ws1 l)) as [[a k]|] eqn:Px.
    + destruct (S1 a k Px) as [Hk V2]. rewrite skipn_length in Hk. rewrite <- skipn_add in V2. pose proof (Pos _ _ _ _ Px) as Hpos.
      pose proof (at_skip w (p + ws1) (skipn ws1 l) k Ha1) as Ha2. rewrite <- skipn_add in Ha2.
      assert (Hn2 : List.length (skipn (ws1 + k) l) <= n) by (rewrite skipn_length; lia).
      assert (Hl2 : List.length (skipn (ws1 + k) l) < B) by (rewrite skipn_length; lia).
      destruct (IH (skipn (ws1 + k) l) (p + ws1 + k) sg (acc ++ [] ++ tx a) Hn2 Hl2 Ha2 V2) as (r & m & Pm & R & Hm & V3).
      rewrite skipn_length in Hm. rewrite <- skipn_add in V3.
      exists (a :: r), (ws1 + k + m). rewrite Pm. split; [reflexivity|]. split; [|split; [lia|exact V3]].
      eapply loops_step; [eapply rep_unit_ok; [exact Sk|exact E1]|].
      cbn [flat_map]. replace (p + (ws1 + k + m)) with (p + ws1 + k + m) by lia. cbn [app] in R. rewrite <- app_assoc in R. exact R.
    + exists [], 0. cbn [flat_map skipn]. rewrite Nat.add_0_r, app_nil_r. split; [reflexivity|]. split; [|split; [lia|exact V]].
      apply loops_stop. eapply rep_unit_fail; [exact Sk|exact E1].
Qed.
Lemma parslt_rep {A} B x (px : P A) tx :
  parslt B x px tx -> (forall p l a n, px p l = Some (a, n) -> 0 < n) -> parslt B (ERep x) (p_rep px) (flat_map tx).
Proof.
  intros L Pos p l sg Hl Ha V. destruct (L p l sg Hl Ha V) as [E1 S1]. unfold p_rep, stays.
  destruct (px p l) as [[a k]|] eqn:Px.
  - destruct (S1 a k Px) as [Hk V1]. pose proof (at_skip w p l k Ha) as Ha1.
    assert (Hn2 : List.length (skipn k l) <= List.length l) by (rewrite skipn_length; lia).
    assert (Hl2 : List.length (skipn k l) < B) by (rewrite skipn_length; lia).
    destruct (more_loop B x px tx L Pos (List.length l) (skipn k l) (p + k) sg (tx a) Hn2 Hl2 Ha1 V1) as (r & m & Pm & R & Hm & V2).
    rewrite skipn_length in Hm. rewrite <- skipn_add in V2. rewrite Pm. split.
    + unfold pres. cbn [flat_map]. rewrite Nat.add_assoc. eapply ev_rep_some; [exact E1|exact R].
    + intros x0 n [= <- <-]. split; [lia|exact V2].
  - split; [|intros x0 n [= <- <-]; cbn [skipn]; split; [lia|exact V]].
    unfold pres. cbn [flat_map]. rewrite Nat.add_0_r. apply ev_rep_none. exact E1.
Qed.

(* ---- rule calls from a non-atomic rule ---- *)
(* a normal rule: its body in the same mode, wrapped in a node spanning exactly what was matched *)
Lemma parslt_rule {A A'} B n body (pa : P A) (f : nat -> nat -> A -> A') t t' :
  reserved n = false -> ascii_builtin n = None -> is_special n = false ->
  find_rule G n = Some {| rname := n; rty := RNormal; rexpr := body |} ->
  parslt B body pa t ->
  (forall p l a k, pa p l = Some (a, k) -> t' (f p (p + k) a) = [Node (rule_id G n) None p (p + k) (t a)]) ->
  parslt B (EIdent n) (p_span f pa) t'.
Proof.
  intros Hr Hb Hs Hf L H p l sg Hl Ha V. destruct (L p l sg Hl Ha V) as [E1 S1]. unfold p_span, stays.
  assert (M : rule_mode (is_special n) RNormal NonAtomic true = (true, NonAtomic)) by (rewrite Hs; reflexivity).
  generalize (ev_rule G uprop w NonAtomic true n _ true NonAtomic p sg _ Hr Hb Hf M E1). unfold wrap, pres.
  destruct (pa p l) as [[a k]|] eqn:Pa; [|split; [assumption|discriminate]].
  intros E2. split; [rewrite (H p l a k Pa); exact E2|]. intros x m [= <- <-]. exact (S1 a k Pa).
Qed.
(* an @ rule: its body is a scanner; one leaf node *)
Lemma parslt_atomic_rule B n body sc :
  reserved n = false -> ascii_builtin n = None -> is_special n = false ->
  find_rule G n = Some {| rname := n; rty := RAtomic; rexpr := body |} ->
  lexes G uprop w body sc ->
  parslt B (EIdent n) (p_scan sc) (fun s => [Node (rule_id G n) None (fst s) (snd s) []]).
Proof.
  intros Hr Hb Hs Hf L p l sg Hl Ha V. destruct (L (List.length l) true p l sg (le_n _) Ha V) as [E1 S1]. unfold p_scan, stays.
  assert (M : rule_mode (is_special n) RAtomic NonAtomic true = (true, Atomic)) by (rewrite Hs; reflexivity).
  generalize (ev_rule G uprop w NonAtomic true n _ true Atomic p sg _ Hr Hb Hf M E1). unfold wrap, pres, lex.
  destruct (sc l) as [k|] eqn:Sc; [|split; [assumption|discriminate]].
  intros E2. split; [exact E2|]. intros x m [= <- <-]. exact (S1 k eq_refl).
Qed.

(* ---- op item ("," item)* cl | op cl ---- *)
Definition list_expr (op cl : byte) (X : expr) : expr :=
  EChoice (ESeq (ESeq (ESeq (EStr [op]) X) (ERep (ESeq (EStr [44%N]) X))) (EStr [cl])) (ESeq (EStr [op]) (EStr [cl])).
Lemma p_byte_pos b p l a n : p_byte b p l = Some (a, n) -> 0 < n.
Proof. unfold p_byte. destruct (head_is b l); intros [=]; lia. Qed.
Lemma parslt_list {A} B op cl X (item : P A) ti :
  ascii op -> ascii cl -> parslt B X item ti -> parslt (S B) (list_expr op cl X) (p_list op cl item) (flat_map ti).
Proof.
  intros Hop Hcl L. unfold list_expr, p_list. apply parslt_or.
  - eapply parslt_map.
    + apply parslt_seq; [|apply parslt_byte; exact Hcl].
      eapply (parslt_seq_gen (S B) B).
      * apply parslt_seq_dec; [apply parslt_byte; exact Hop|apply p_byte_pos|exact L].
      * apply parslt_rep.
        -- eapply parslt_map; [apply parslt_seq; [apply (parslt_byte B 44%N); reflexivity|exact L]|].
           intros [u a]. cbn [fst snd app]. reflexivity.
        -- intros p l a n. unfold p_map, p_seq, p_byte. destruct (head_is 44 l); [|discriminate].
           destruct (item _ _) as [[b k]|]; [|discriminate]. intros [= _ <-]. lia.
      * intros p l a n Hl. unfold p_seq, p_byte. destruct (head_is op l); [|discriminate].
        destruct (item _ _) as [[b k]|]; [|discriminate]. intros [= _ <-] Hn. lia.
    + intros [[[u a] r] u']. cbn [fst snd app flat_map]. rewrite !app_nil_r. reflexivity.
  - eapply parslt_map; [apply parslt_seq; [apply parslt_byte; exact Hop|apply parslt_byte; exact Hcl]|].
    intros [u u']. reflexivity.
Qed.

End Parse.
Arguments list_expr (op cl)%N X.
