(* C18 - RFC 8259's ABNF, transcribed literally (whitespace attached to the six structural characters, as the RFC
   writes it), generates exactly the JSON texts of Rfc8259.v (where whitespace surrounds the values instead, which is what
   lets every value carry its exact span).  Language level only; numbers and strings are shared.

     JSON-text = ws value ws
     begin-array = ws %x5B ws   begin-object = ws %x7B ws   end-array = ws %x5D ws   end-object = ws %x7D ws
     name-separator = ws %x3A ws   value-separator = ws %x2C ws
     value  = false / null / true / object / array / number / string
     object = begin-object [ member *( value-separator member ) ] end-object      member = string name-separator value
     array  = begin-array [ value *( value-separator value ) ] end-array                                           *)
From Coq Require Import List Arith NArith Bool Lia.
Import ListNotations.
Require Import PV.Comb.PState PV.Json.Rfc8259 PV.Json.RfcStructure.

Definition structural (c : byte) (s : list byte) : Prop := exists w1 w2, ws w1 /\ ws w2 /\ s = w1 ++ c :: w2.
Arguments structural c%N s.

Inductive a_value : list byte -> Prop :=
| av_false : a_value lit_false
| av_null : a_value lit_null
| av_true : a_value lit_true
| av_object_empty b e : structural 123 b -> structural 125 e -> a_value (b ++ e)
| av_object b ms e : structural 123 b -> a_members ms -> structural 125 e -> a_value (b ++ ms ++ e)
| av_array_empty b e : structural 91 b -> structural 93 e -> a_value (b ++ e)
| av_array b vs e : structural 91 b -> a_values vs -> structural 93 e -> a_value (b ++ vs ++ e)
| av_number s : jnumber s -> a_value s
| av_string s : jstring s -> a_value s
with a_values : list byte -> Prop :=
| avs_one v : a_value v -> a_values v
| avs_cons v sep r : a_value v -> structural 44 sep -> a_values r -> a_values (v ++ sep ++ r)
with a_member : list byte -> Prop :=
| am_intro k sep v : jstring k -> structural 58 sep -> a_value v -> a_member (k ++ sep ++ v)
with a_members : list byte -> Prop :=
| ams_one m : a_member m -> a_members m
| ams_cons m sep r : a_member m -> structural 44 sep -> a_members r -> a_members (m ++ sep ++ r).

Definition abnf_json_text (w : list byte) : Prop := exists w1 v w2, ws w1 /\ a_value v /\ ws w2 /\ w = w1 ++ v ++ w2.

Scheme a_value_mind := Minimality for a_value Sort Prop
  with a_values_mind := Minimality for a_values Sort Prop
  with a_member_mind := Minimality for a_member Sort Prop
  with a_members_mind := Minimality for a_members Sort Prop.
Combined Scheme abnf_mutind from a_value_mind, a_values_mind, a_member_mind, a_members_mind.

Ltac assoc := repeat (rewrite <- ?app_assoc; cbn [app]); reflexivity.
(* re-associate the text of the goal *)
Ltac restr Y := match goal with
  | |- jelement _ ?s _ => replace s with Y by assoc
  | |- jelements _ ?s _ => replace s with Y by assoc
  | |- jmember _ ?s _ => replace s with Y by assoc
  | |- jmembers _ ?s _ => replace s with Y by assoc
  | |- a_value ?s => replace s with Y by assoc
  end.
Lemma ws_app a b : ws a -> ws b -> ws (a ++ b).
Proof. intros. apply Forall_app. now split. Qed.
Lemma ws_nil : ws [].
Proof. constructor. Qed.
#[local] Hint Resolve ws_app ws_nil : core.

(* ---------- Rfc8259.v  ->  ABNF ---------- *)
Definition padded (P : list byte -> Prop) (s : list byte) : Prop := exists w1 c w2, s = w1 ++ c ++ w2 /\ ws w1 /\ ws w2 /\ P c.

Theorem abnf_of_json :
  (forall o s d, jvalue o s d -> a_value s) /\
  (forall o s d, jelement o s d -> padded a_value s) /\
  (forall o s ds, jelements o s ds -> padded a_values s) /\
  (forall o s m, jmember o s m -> padded a_member s) /\
  (forall o s ms, jmembers o s ms -> padded a_members s).
Proof.
  apply json_mutind.
  - intros; constructor.
  - intros; constructor.
  - intros; constructor.
  - intros; now constructor.
  - intros; now constructor.
  - intros o w1 W1. restr (([] ++ 91%N :: w1) ++ ([] ++ 93%N :: [])).
    apply av_array_empty; [exists [], w1|exists [], []]; auto.
  - intros o s ds _ (w1 & vs & w2 & -> & W1 & W2 & Hv).
    restr (([] ++ 91%N :: w1) ++ vs ++ (w2 ++ 93%N :: [])).
    apply av_array; [exists [], w1|exact Hv|exists w2, []]; auto.
  - intros o w1 W1. restr (([] ++ 123%N :: w1) ++ ([] ++ 125%N :: [])).
    apply av_object_empty; [exists [], w1|exists [], []]; auto.
  - intros o s ms _ (w1 & vs & w2 & -> & W1 & W2 & Hv).
    restr (([] ++ 123%N :: w1) ++ vs ++ (w2 ++ 125%N :: [])).
    apply av_object; [exists [], w1|exact Hv|exists w2, []]; auto.
  - intros o w1 v w2 d W1 _ Hv W2. now exists w1, v, w2.
  - intros o s d _ (w1 & v & w2 & -> & W1 & W2 & Hv). exists w1, v, w2. split; [reflexivity|]. split; [exact W1|]. split; [exact W2|]. now constructor.
  - intros o s d r ds _ (w1 & v & w2 & -> & W1 & W2 & Hv) _ (w1' & vs & w2' & -> & W1' & W2' & Hvs).
    exists w1, (v ++ (w2 ++ 44%N :: w1') ++ vs), w2'. split; [assoc|]. split; [exact W1|]. split; [exact W2'|].
    apply avs_cons; auto. exists w2, w1'. auto.
  - intros o w1 k w2 s d W1 Jk W2 _ (wa & v & wb & -> & Wa & Wb & Hv).
    exists w1, (k ++ (w2 ++ 58%N :: wa) ++ v), wb. split; [assoc|]. split; [exact W1|]. split; [exact Wb|].
    apply am_intro; auto. exists w2, wa. auto.
  - intros o s m _ (w1 & v & w2 & -> & W1 & W2 & Hv). exists w1, v, w2. split; [reflexivity|]. split; [exact W1|]. split; [exact W2|]. now constructor.
  - intros o s m r ms _ (w1 & v & w2 & -> & W1 & W2 & Hv) _ (w1' & vs & w2' & -> & W1' & W2' & Hvs).
    exists w1, (v ++ (w2 ++ 44%N :: w1') ++ vs), w2'. split; [assoc|]. split; [exact W1|]. split; [exact W2'|].
    apply ams_cons; auto. exists w2, w1'. auto.
Qed.

(* ---------- ABNF  ->  Rfc8259.v ---------- *)
(* whitespace may be added in front of the first and behind the last element of a list *)
Lemma element_pad o wa s wb d : ws wa -> ws wb -> jelement (o + length wa) s d -> jelement o (wa ++ s ++ wb) d.
Proof.
  intros Wa Wb J. inversion J as [o' w1 v w2 d' W1 Jv W2]; subst.
  restr ((wa ++ w1) ++ v ++ (w2 ++ wb)).
  constructor; auto. rewrite app_length. replace (o + (length wa + length w1)) with (o + length wa + length w1) by lia. exact Jv.
Qed.
Lemma elements_pad_r : forall o s ds, jelements o s ds -> forall wb, ws wb -> jelements o (s ++ wb) ds.
Proof.
  induction 1 as [o s d J|o s d r ds J _ IH]; intros wb Wb.
  - apply els_one. rewrite <- (app_nil_l (s ++ wb)). apply element_pad; auto. cbn [length]. now rewrite Nat.add_0_r.
  - rewrite <- app_assoc. cbn [app]. apply els_cons; auto.
Qed.
Lemma elements_pad_l o wa s ds : ws wa -> jelements (o + length wa) s ds -> jelements o (wa ++ s) ds.
Proof.
  intros Wa J. inversion J as [o' s' d Je|o' s' d r ds' Je Jr]; subst.
  - apply els_one. rewrite <- (app_nil_r s). apply element_pad; auto.
  - rewrite app_assoc. apply els_cons.
    + rewrite <- (app_nil_r s'). apply element_pad; auto.
    + rewrite app_length. replace (o + (length wa + length s') + 1) with (o + length wa + length s' + 1) by lia. exact Jr.
Qed.
Lemma member_pad o wa s wb m : ws wa -> ws wb -> jmember (o + length wa) s m -> exists m', jmember o (wa ++ s ++ wb) m'.
Proof.
  intros Wa Wb J. inversion J as [o' w1 k w2 s0 d W1 Jk W2 Je]; subst.
  eexists. restr ((wa ++ w1) ++ k ++ w2 ++ 58%N :: (s0 ++ wb)).
  apply mem_intro; auto.
  inversion Je as [o'' x1 v x2 d' X1 Jv X2]; subst. restr (x1 ++ v ++ (x2 ++ wb)).
  constructor; auto. rewrite app_length.
  replace (o + (length wa + length w1) + length k + length w2 + 1 + length x1) with (o + length wa + length w1 + length k + length w2 + 1 + length x1) by lia.
  exact Jv.
Qed.
Lemma members_pad_r : forall o s ms, jmembers o s ms -> forall wb, ws wb -> exists ms', jmembers o (s ++ wb) ms'.
Proof.
  induction 1 as [o s m J|o s m r ms J _ IH]; intros wb Wb.
  - destruct (member_pad o [] s wb m ws_nil Wb) as [m' J']; [cbn [length]; now rewrite Nat.add_0_r|]. eexists. apply mems_one. exact J'.
  - destruct (IH wb Wb) as [ms' J']. eexists. rewrite <- app_assoc. cbn [app]. apply mems_cons; eauto.
Qed.
Lemma members_pad_l o wa s ms : ws wa -> jmembers (o + length wa) s ms -> exists ms', jmembers o (wa ++ s) ms'.
Proof.
  intros Wa J. inversion J as [o' s' m Je|o' s' m r ms' Je Jr]; subst.
  - destruct (member_pad o wa s [] m Wa ws_nil Je) as [m' J']. rewrite app_nil_r in J'. eexists. apply mems_one. exact J'.
  - destruct (member_pad o wa s' [] m Wa ws_nil Je) as [m' J']. rewrite app_nil_r in J'. eexists. rewrite app_assoc. apply mems_cons; [exact J'|].
    rewrite app_length. replace (o + (length wa + length s') + 1) with (o + length wa + length s' + 1) by lia. exact Jr.
Qed.

(* an ABNF value is a value of Rfc8259.v surrounded by whitespace; an ABNF list is a list of elements *)
Definition R_value (v : list byte) : Prop := forall o, exists d, jelement o v d.
Definition R_values (vs : list byte) : Prop := forall o, exists ds, jelements o vs ds.
Definition R_member (m : list byte) : Prop := forall o, exists x, jmember o m x.
Definition R_members (ms : list byte) : Prop := forall o, exists xs, jmembers o ms xs.

Lemma bare o v d : jvalue o v d -> jelement o v d.
Proof.
  intros J. assert (J' : jvalue (o + length (@nil byte)) v d) by (cbn [length]; now rewrite Nat.add_0_r).
  pose proof (el_intro o [] v [] d ws_nil J' ws_nil) as H. cbn [app] in H. now rewrite app_nil_r in H.
Qed.

Theorem json_of_abnf :
  (forall v, a_value v -> R_value v) /\ (forall vs, a_values vs -> R_values vs) /\
  (forall m, a_member m -> R_member m) /\ (forall ms, a_members ms -> R_members ms).
Proof.
  apply abnf_mutind.
  - intros o. eexists. apply bare. constructor.
  - intros o. eexists. apply bare. constructor.
  - intros o. eexists. apply bare. constructor.
  - intros b e (wa & wb & Wa & Wb & ->) (wc & wd & Wc & Wd & ->) o. eexists.
    restr (wa ++ (123%N :: (wb ++ wc) ++ [125%N]) ++ wd).
    constructor; auto. apply v_object_empty. auto.
  - intros b ms e (wa & wb & Wa & Wb & ->) _ Hms (wc & wd & Wc & Wd & ->) o.
    destruct (Hms (o + length wa + 1 + length wb)) as [xs J].
    destruct (members_pad_l (o + length wa + 1) wb ms xs Wb J) as [xs' J'].
    destruct (members_pad_r _ _ _ J' wc Wc) as [xs'' J''].
    eexists. restr (wa ++ (123%N :: ((wb ++ ms) ++ wc) ++ [125%N]) ++ wd).
    constructor; auto. apply v_object. exact J''.
  - intros b e (wa & wb & Wa & Wb & ->) (wc & wd & Wc & Wd & ->) o. eexists.
    restr (wa ++ (91%N :: (wb ++ wc) ++ [93%N]) ++ wd).
    constructor; auto. apply v_array_empty. auto.
  - intros b vs e (wa & wb & Wa & Wb & ->) _ Hvs (wc & wd & Wc & Wd & ->) o.
    destruct (Hvs (o + length wa + 1 + length wb)) as [ds J].
    pose proof (elements_pad_r _ _ _ (elements_pad_l (o + length wa + 1) wb vs ds Wb J) wc Wc) as J'.
    eexists. restr (wa ++ (91%N :: ((wb ++ vs) ++ wc) ++ [93%N]) ++ wd).
    constructor; auto. apply v_array. exact J'.
  - intros s Jn o. eexists. apply bare. now constructor.
  - intros s Js o. eexists. apply bare. now constructor.
  - intros v _ Hv o. destruct (Hv o) as [d J]. eexists. apply els_one. exact J.
  - intros v sep r _ Hv (wa & wb & Wa & Wb & ->) _ Hr o.
    destruct (Hv o) as [d J]. destruct (Hr (o + length (v ++ wa) + 1 + length wb)) as [ds Jr].
    eexists. restr ((v ++ wa) ++ 44%N :: (wb ++ r)).
    apply els_cons.
    + rewrite <- (app_nil_l (v ++ wa)). apply element_pad; auto. cbn [length]. rewrite Nat.add_0_r. exact J.
    + apply elements_pad_l; auto. exact Jr.
  - intros k sep v Jk (wa & wb & Wa & Wb & ->) _ Hv o.
    destruct (Hv (o + length k + length wa + 1 + length wb)) as [d J].
    eexists. restr ([] ++ k ++ wa ++ 58%N :: (wb ++ v)).
    apply mem_intro; auto. rewrite <- (app_nil_r v). apply element_pad; auto. cbn [length]. rewrite Nat.add_0_r. exact J.
  - intros m _ Hm o. destruct (Hm o) as [x J]. eexists. apply mems_one. exact J.
  - intros m sep r _ Hm (wa & wb & Wa & Wb & ->) _ Hr o.
    destruct (Hm o) as [x J]. destruct (Hr (o + length (m ++ wa) + 1 + length wb)) as [xs Jr].
    destruct (member_pad o [] m wa x ws_nil Wa) as [x' J']; [cbn [length]; rewrite Nat.add_0_r; exact J|].
    destruct (members_pad_l (o + length (m ++ wa) + 1) wb r xs Wb Jr) as [xs' Jr'].
    eexists. restr ((m ++ wa) ++ 44%N :: (wb ++ r)).
    apply mems_cons; [exact J'|exact Jr'].
Qed.

Theorem abnf_equiv w : abnf_json_text w <-> json_text w.
Proof.
  split.
  - intros (w1 & v & w2 & W1 & Hv & W2 & ->). destruct (proj1 json_of_abnf v Hv (0 + length w1)) as [d J].
    exists d. unfold json_doc. now apply element_pad.
  - intros [d J]. destruct (proj1 (proj2 abnf_of_json) _ _ _ J) as (w1 & v & w2 & -> & W1 & W2 & Hv). now exists w1, v, w2.
Qed.
