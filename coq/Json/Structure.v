(* C18 - the structural rules of json.pest (value, array, object, pair, bool, null) under Layer S
   = parse_value of the RFC 8259 recogniser, with the token tree tree_of.
   Non-atomic rules: implicit WHITESPACE* between the elements of `~` and the rounds of `*` (skip_ok, Lexical.v). *)
From Coq Require Import List Arith NArith ZArith Bool Lia String ZifyN ZifyBool.
Import ListNotations.
Require Import PV.Comb.PState PV.Comb.Bytes PV.Comb.Utf8 PV.Comb.Utf8b PV.Iter.Queue PV.Peg.Ast PV.Peg.Spec.
Require Import PV.gen.JsonGrammar PV.Json.Rfc8259 PV.Json.Recogniser PV.Json.Utf8Facts PV.Json.EvalFacts PV.Json.LexLib PV.Json.Lexical PV.Json.ParseLib.
Local Arguments skipn : simpl nomatch.

(* ---- the shipped rules ---- *)
Definition value_body : expr :=
  EChoice (EChoice (EChoice (EChoice (EChoice (EIdent (nm "string")) (EIdent (nm "number"))) (EIdent (nm "object"))) (EIdent (nm "array")))
          (EIdent (nm "bool"))) (EIdent (nm "null")).
Definition pair_body : expr := ESeq (ESeq (EIdent (nm "string")) (EStr [58%N])) (EIdent (nm "value")).
Definition object_body : expr := list_expr 123 125 (EIdent (nm "pair")).
Definition array_body : expr := list_expr 91 93 (EIdent (nm "value")).
Definition bool_body : expr := EChoice (EStr lit_true) (EStr lit_false).
Definition null_body : expr := EStr lit_null.

Lemma rule_value : find_rule json_grammar (nm "value") = Some {| rname := nm "value"; rty := RNormal; rexpr := value_body |}.
Proof. lookup. Qed.
Lemma rule_pair : find_rule json_grammar (nm "pair") = Some {| rname := nm "pair"; rty := RNormal; rexpr := pair_body |}.
Proof. lookup. Qed.
Lemma rule_object : find_rule json_grammar (nm "object") = Some {| rname := nm "object"; rty := RNormal; rexpr := object_body |}.
Proof. lookup. Qed.
Lemma rule_array : find_rule json_grammar (nm "array") = Some {| rname := nm "array"; rty := RNormal; rexpr := array_body |}.
Proof. lookup. Qed.
Lemma rule_bool : find_rule json_grammar (nm "bool") = Some {| rname := nm "bool"; rty := RNormal; rexpr := bool_body |}.
Proof. lookup. Qed.
Lemma rule_null : find_rule json_grammar (nm "null") = Some {| rname := nm "null"; rty := RNormal; rexpr := null_body |}.
Proof. lookup. Qed.

(* ---- spans of the recogniser's results ---- *)
Lemma value_span f o l d n : parse_value f o l = Some (d, n) -> doc_start d = o /\ doc_end d = o + n.
Proof.
  destruct f as [|f]; [discriminate|]. cbn [parse_value].
  unfold p_or, p_string, p_number, p_bool, p_null, p_map, p_span, p_scan, p_or, p_lit.
  destruct (scan_string l); [intros [= <- <-]; split; reflexivity|].
  destruct (scan_number l); [intros [= <- <-]; split; reflexivity|].
  destruct (p_list 123 125 _ o l) as [[ms k]|]; [intros [= <- <-]; split; reflexivity|].
  destruct (p_list 91 93 _ o l) as [[ds k]|]; [intros [= <- <-]; split; reflexivity|].
  destruct (prefixb lit_true l); [intros [= <- <-]; split; reflexivity|].
  destruct (prefixb lit_false l); [intros [= <- <-]; split; reflexivity|].
  destruct (prefixb lit_null l); [intros [= <- <-]; split; reflexivity|discriminate].
Qed.

Lemma flat_map_single {A B} (f : A -> B) l : flat_map (fun x => [f x]) l = map f l.
Proof. induction l as [|x l IH]; [reflexivity|]. cbn [flat_map map app]. now rewrite IH. Qed.

Lemma ascii_lits : Forall ascii lit_true /\ Forall ascii lit_false /\ Forall ascii lit_null.
Proof. repeat split; repeat constructor. Qed.

Section Structure.
Variable uprop : name -> option (N -> bool).
Variable w : list byte.
Notation parslt := (parslt json_grammar uprop w).
Notation rid := (rule_id json_grammar).
Let Hsk := skip_ok uprop w.
Notation parslt_ext := (parslt_ext json_grammar uprop w Hsk).
Notation parslt_map := (parslt_map json_grammar uprop w Hsk).
Notation parslt_or := (parslt_or json_grammar uprop w Hsk).
Notation parslt_lit := (parslt_lit json_grammar uprop w Hsk).
Notation parslt_byte := (parslt_byte json_grammar uprop w Hsk).
Notation parslt_seq := (parslt_seq json_grammar uprop w Hsk).
Notation parslt_rule := (parslt_rule json_grammar uprop w Hsk).
Notation parslt_atomic_rule := (parslt_atomic_rule json_grammar uprop w Hsk).
Notation parslt_list := (parslt_list json_grammar uprop w Hsk).

(* forests: of a value at the level of its kind (the children of the `value` node), of a value, of a member *)
Definition t_kind (d : jdoc) : list tree := t_children (tree_of rid d).
Definition t_val (d : jdoc) : list tree := [tree_of rid d].
Definition t_mem (m : nat * nat * jdoc) : list tree :=
  match m with (ks, ke, v) => [Node (rid (nm "pair")) None ks (doc_end v) [leaf rid (nm "string") ks ke; tree_of rid v]] end.
Lemma tree_of_shape d : tree_of rid d = Node (rid (nm "value")) None (doc_start d) (doc_end d) (t_kind d).
Proof. destruct d; reflexivity. Qed.

(* ---- the scalar kinds ---- *)
Lemma pl_string B : parslt B (EIdent (nm "string")) (p_scan scan_string) (fun s => [Node (rid (nm "string")) None (fst s) (snd s) []]).
Proof.
  apply (parslt_atomic_rule B (nm "string") string_body scan_string eq_refl eq_refl eq_refl rule_string).
  intros B'. apply lexb_string_body.
Qed.
Lemma K_string B : parslt B (EIdent (nm "string")) p_string t_kind.
Proof. eapply parslt_map; [apply pl_string|]. intros [s e]. reflexivity. Qed.
Lemma K_number B : parslt B (EIdent (nm "number")) p_number t_kind.
Proof.
  eapply parslt_map.
  - apply (parslt_atomic_rule B (nm "number") number_body scan_number eq_refl eq_refl eq_refl rule_number).
    intros B'. apply lexb_number_body.
  - intros [s e]. reflexivity.
Qed.
Lemma K_bool B : parslt B (EIdent (nm "bool")) p_bool t_kind.
Proof.
  destruct ascii_lits as (At & Af & _).
  eapply (parslt_rule B (nm "bool") bool_body _ (fun o e b => JBool b o e) (fun _ => []));
    [reflexivity|reflexivity|reflexivity|exact rule_bool| |reflexivity].
  apply parslt_or; (eapply parslt_map; [apply parslt_lit; assumption|reflexivity]).
Qed.
Lemma K_null B : parslt B (EIdent (nm "null")) p_null t_kind.
Proof.
  destruct ascii_lits as (_ & _ & An).
  eapply (parslt_rule B (nm "null") null_body _ (fun o e _ => JNull o e) (fun _ => []));
    [reflexivity|reflexivity|reflexivity|exact rule_null| |reflexivity].
  apply parslt_lit; assumption.
Qed.

(* ---- array, pair, object, given value on shorter suffixes ---- *)
Definition spans (pv : P jdoc) : Prop := forall o l d n, pv o l = Some (d, n) -> doc_start d = o /\ doc_end d = o + n.

Lemma K_array B pv : parslt B (EIdent (nm "value")) pv t_val ->
  parslt (S B) (EIdent (nm "array")) (p_span JArray (p_list 91 93 pv)) t_kind.
Proof.
  intros L.
  eapply (parslt_rule (S B) (nm "array") array_body _ JArray (flat_map t_val));
    [reflexivity|reflexivity|reflexivity|exact rule_array| |].
  - apply (parslt_list B 91%N 93%N); [reflexivity|reflexivity|exact L].
  - intros p l ds k _. unfold t_kind, t_val. cbn [tree_of t_children]. now rewrite flat_map_single.
Qed.

Lemma M_pair B pv : spans pv -> parslt B (EIdent (nm "value")) pv t_val ->
  parslt B (EIdent (nm "pair")) (p_pair pv) t_mem.
Proof.
  intros Sp L. unfold p_pair.
  pose proof (parslt_seq B _ _ _ _ _ _
                (parslt_seq B _ _ _ _ _ _ (pl_string B) (parslt_byte B 58%N eq_refl)) L) as Lb.
  eapply parslt_ext.
  - eapply (parslt_rule B (nm "pair") pair_body _
             (fun _ _ (x : nat * nat * unit * jdoc) => match x with (k, _, v) => (fst k, snd k, v) end) _ t_mem
             eq_refl eq_refl eq_refl rule_pair Lb).
    intros p l [[[ks ke] u] v] k. unfold p_seq at 1. unfold p_seq at 1. unfold p_scan, p_byte.
    destruct (scan_string l) as [n1|]; [|discriminate]. destruct (head_is 58 _); [|discriminate].
    destruct (pv _ _) as [[v' n3]|] eqn:Pv; [|discriminate]. intros [= <- <- <- <- <-].
    destruct (Sp _ _ _ _ Pv) as [_ He]. cbn [fst snd t_mem t_val app]. unfold leaf. rewrite He. do 2 f_equal. lia.
  - intros p l. unfold p_span, p_map. destruct (p_seq _ _ p l) as [[x n]|]; reflexivity.
Qed.

Lemma K_object B pv : spans pv -> parslt B (EIdent (nm "value")) pv t_val ->
  parslt (S B) (EIdent (nm "object")) (p_span JObject (p_list 123 125 (p_pair pv))) t_kind.
Proof.
  intros Sp L.
  eapply (parslt_rule (S B) (nm "object") object_body _ JObject (flat_map t_mem));
    [reflexivity|reflexivity|reflexivity|exact rule_object| |].
  - apply (parslt_list B 123%N 125%N); [reflexivity|reflexivity|]. apply M_pair; assumption.
  - intros p l ms k _. unfold t_kind. cbn [tree_of t_children]. do 2 f_equal.
    induction ms as [|[[ks ke] v] ms IH]; [reflexivity|]. cbn [flat_map map t_mem app]. now rewrite IH.
Qed.

(* ---- value = { string | number | object | array | bool | null } ---- *)
Theorem value_ok : forall B, parslt B (EIdent (nm "value")) (parse_value B) t_val.
Proof.
  induction B as [|B IH]; [intros p l sg Hl; lia|].
  eapply parslt_ext.
  - eapply (parslt_rule (S B) (nm "value") value_body (parse_value (S B)) (fun _ _ d => d) t_kind);
      [reflexivity|reflexivity|reflexivity|exact rule_value| |].
    + eapply parslt_ext; [|intros p l; cbn [parse_value]; reflexivity].
      repeat apply parslt_or.
      * apply K_string. * apply K_number.
      * apply K_object; [intros o l d n; apply value_span|exact IH].
      * apply K_array; exact IH.
      * apply K_bool. * apply K_null.
    + intros p l d k Pv. destruct (value_span _ _ _ _ _ Pv) as [Hs He]. unfold t_val. rewrite tree_of_shape, Hs, He. reflexivity.
  - intros p l. unfold p_span. destruct (parse_value (S B) p l) as [[d n]|]; reflexivity.
Qed.

End Structure.
