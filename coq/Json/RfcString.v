(* C18 - scan_string is sound and complete for the RFC 8259 string relation jstring (section 7):
   unescaped scalar values in UTF-8, the eight one-letter escapes, \uXXXX.  Pure list reasoning, no PEG. *)
From Coq Require Import List Arith NArith Bool Lia ZifyN ZifyBool.
Import ListNotations.
Require Import PV.Comb.PState PV.Comb.Bytes PV.Comb.Utf8 PV.Comb.Utf8b.
Require Import PV.Json.Rfc8259 PV.Json.Recogniser PV.Json.Utf8Facts PV.Json.RfcLexical.

Ltac blia := unfold byte in *; lia.

(* ---- one char ---- *)
Lemma decode_strict_sound l c n : decode_strict l = Some (c, n) -> scalar c /\ n = length (encode c) /\ exists r, l = encode c ++ r.
Proof.
  unfold decode_strict. destruct (decode1 l) as [[c' k]|]; [|discriminate].
  destruct (scalarb c') eqn:S; cbn [andb]; [|discriminate]. destruct (prefixb (encode c') l) eqn:P; [|discriminate].
  intros [= <- <-]. split; [now apply scalarb_spec|]. split; [reflexivity|]. now apply prefixb_iff.
Qed.
Lemma decode_strict_complete c r : scalar c -> decode_strict (encode c ++ r) = Some (c, length (encode c)).
Proof.
  intros S. unfold decode_strict. rewrite decode1_encode by now apply scalar_lt. rewrite (proj2 (scalarb_spec c) S). cbn [andb].
  replace (prefixb (encode c) (encode c ++ r)) with true; [reflexivity|]. symmetry. apply prefixb_iff. now exists r.
Qed.
Lemma unescapedb_spec c : unescapedb c = true <-> unescaped c.
Proof. unfold unescapedb, in_rangeb, unescaped. lia. Qed.
Lemma is_hexb_spec b : is_hexb b = true <-> is_hex b.
Proof. unfold is_hexb, in_rangeb, is_hex. lia. Qed.

Lemma plain_char_sound l n : plain_char l = Some n ->
  exists c r, scalar c /\ unescaped c /\ l = encode c ++ r /\ n = length (encode c).
Proof.
  unfold plain_char. destruct (decode_strict l) as [[c k]|] eqn:D; [|discriminate].
  destruct (unescapedb c) eqn:U; [|discriminate]. intros [= <-].
  destruct (decode_strict_sound _ _ _ D) as (S & -> & r & ->). exists c, r. repeat split; auto. now apply unescapedb_spec.
Qed.
Lemma plain_char_complete c r : scalar c -> unescaped c -> plain_char (encode c ++ r) = Some (length (encode c)).
Proof. intros S U. unfold plain_char. rewrite (decode_strict_complete c r S). apply unescapedb_spec in U. now rewrite U. Qed.
Lemma plain_char_pos l n : plain_char l = Some n -> 1 <= n <= length l.
Proof.
  intros H. destruct (plain_char_sound _ _ H) as (c & r & _ & _ & -> & ->). rewrite app_length. pose proof (encode_length c). lia.
Qed.
(* a byte that is not an unescaped ASCII char does not start an unescaped char *)
Lemma plain_char_head b t : (b < 128)%N -> unescapedb b = false -> plain_char (b :: t) = None.
Proof.
  intros Hb U. destruct (plain_char (b :: t)) as [n|] eqn:P; [|reflexivity].
  destruct (plain_char_sound _ _ P) as (c & r & S & Uc & E & _). apply unescapedb_spec in Uc.
  destruct (N.lt_ge_cases c 128) as [Hc|Hc].
  - rewrite (encode_ascii c Hc) in E. cbn in E. injection E as -> _. congruence.
  - destruct (encode_head_ge c Hc) as (b' & t' & Ee & Hb'). rewrite Ee in E. cbn in E. injection E as -> _. lia.
Qed.

(* ---- runs of unescaped chars ---- *)
Lemma jchars_app a b : jchars a -> jchars b -> jchars (a ++ b).
Proof. induction 1 as [|c r Hc _ IH]; intros Hb; [exact Hb|]. rewrite <- app_assoc. constructor; auto. Qed.

Lemma scan_plain_sound f l : exists s r, split_at l (scan_plain f l) s r /\ jchars s.
Proof.
  revert l. induction f as [|f IH]; intros l; [exists [], l; split; [apply split_0|constructor]|].
  cbn [scan_plain]. destruct (plain_char l) as [n|] eqn:P; [|exists [], l; split; [apply split_0|constructor]].
  destruct (plain_char_sound _ _ P) as (c & r & S & U & -> & ->). rewrite skipn_app_exact.
  destruct (IH r) as (s' & r' & Sp & J). exists (encode c ++ s'), r'. split.
  - apply (split_app _ _ (encode c) r); [split; reflexivity|exact Sp].
  - constructor; [now constructor|exact J].
Qed.
Lemma scan_plain_fuel : forall f1 f2 l, length l <= f1 -> length l <= f2 -> scan_plain f1 l = scan_plain f2 l.
Proof.
  induction f1 as [|f1 IH]; intros [|f2] l H1 H2; try reflexivity.
  - destruct l; [reflexivity|cbn in H1; lia].
  - destruct l; [reflexivity|cbn in H2; lia].
  - cbn [scan_plain]. destruct (plain_char l) as [n|] eqn:P; [|reflexivity]. pose proof (plain_char_pos _ _ P).
    f_equal. apply IH; rewrite skipn_length; lia.
Qed.

(* ---- escapes ---- *)
Lemma hex4_true u : hex4 u = true ->
  exists h1 h2 h3 h4 u', u = h1 :: h2 :: h3 :: h4 :: u' /\ is_hex h1 /\ is_hex h2 /\ is_hex h3 /\ is_hex h4.
Proof.
  unfold hex4. destruct u as [|h1 [|h2 [|h3 [|h4 u']]]]; rewrite ?skipn_cons, ?skipn_O, ?skipn_nil; cbn [head_in];
    rewrite ?andb_false_r; try discriminate.
  intros H. apply andb_prop in H. destruct H as [H H4]. apply andb_prop in H. destruct H as [H H3]. apply andb_prop in H. destruct H as [H1 H2].
  exists h1, h2, h3, h4, u'. repeat split; auto; now apply is_hexb_spec.
Qed.
Lemma scan_escape_sound l k : scan_escape l = Some k -> exists s r, split_at l k s r /\ jchar s.
Proof.
  unfold scan_escape. destruct (head_is 92 l) eqn:B; [|discriminate]. destruct (head_is_true _ _ B) as [t ->]. cbn [List.tl].
  destruct (head_among simple_escapes t) eqn:S.
  - intros [= <-]. destruct (head_among_true _ _ S) as (x & u & -> & Hx). exists [92%N; x], u. split; [split; reflexivity|now constructor].
  - destruct (head_is 117 t) eqn:U; cbn [andb]; [|discriminate]. destruct (head_is_true _ _ U) as [u ->].
    rewrite !skipn_cons, skipn_O. destruct (hex4 u) eqn:H; [|discriminate]. intros [= <-].
    destruct (hex4_true _ H) as (h1 & h2 & h3 & h4 & u' & -> & H1 & H2 & H3 & H4).
    exists [92%N; 117%N; h1; h2; h3; h4], u'. split; [split; reflexivity|now constructor].
Qed.
Lemma scan_escape_pos l k : scan_escape l = Some k -> 2 <= k.
Proof.
  unfold scan_escape. destruct (head_is 92 l); [|discriminate]. destruct (head_among _ _); [intros [= <-]; lia|].
  destruct (_ && _); [intros [= <-]; lia|discriminate].
Qed.
(* the chars that are escapes start with a reverse solidus and are recognised whatever follows *)
Lemma jchar_cases s : jchar s ->
  (exists c, scalar c /\ unescaped c /\ s = encode c) \/
  (exists t, s = 92%N :: t /\ 2 <= length s /\ forall tl, scan_escape (s ++ tl) = Some (length s)).
Proof.
  intros [c S U|x Hx|h1 h2 h3 h4 H1 H2 H3 H4]; [left; now exists c|right|right].
  - eexists. split; [reflexivity|]. split; [cbn; lia|]. intros tl. unfold scan_escape. cbn [app List.tl]. rewrite head_is_cons, N.eqb_refl.
    rewrite head_among_cons. replace (existsb (N.eqb x) simple_escapes) with true; [reflexivity|].
    symmetry. apply existsb_exists. exists x. split; [exact Hx|apply N.eqb_refl].
  - eexists. split; [reflexivity|]. split; [cbn; lia|]. intros tl. unfold scan_escape. cbn [app List.tl]. rewrite head_is_cons, N.eqb_refl.
    rewrite head_among_cons. replace (existsb (N.eqb 117) simple_escapes) with false by reflexivity.
    rewrite head_is_cons, N.eqb_refl. rewrite !skipn_cons, skipn_O. unfold hex4. rewrite !skipn_cons, !skipn_O. cbn [head_in andb].
    apply is_hexb_spec in H1, H2, H3, H4. rewrite H1, H2, H3, H4. reflexivity.
Qed.

(* ---- *char ---- *)
Lemma scan_inner_sound : forall f l, exists s r, split_at l (scan_inner f l) s r /\ jchars s.
Proof.
  induction f as [|f IH]; intros l; [exists [], l; split; [apply split_0|constructor]|].
  cbn [scan_inner]. destruct (scan_plain_sound (length l) l) as (s1 & r1 & Sp1 & J1). rewrite (split_skipn _ _ _ _ Sp1).
  destruct (scan_escape r1) as [k|] eqn:Es; [|exists s1, r1; split; assumption].
  destruct (scan_escape_sound _ _ Es) as (s2 & r2 & Sp2 & J2).
  pose proof (split_app _ _ _ _ _ _ _ Sp1 Sp2) as Sp12. rewrite (split_skipn _ _ _ _ Sp12).
  destruct (IH r2) as (s3 & r3 & Sp3 & J3).
  exists ((s1 ++ s2) ++ s3), r3. split; [exact (split_app _ _ _ _ _ _ _ Sp12 Sp3)|].
  rewrite <- app_assoc. apply jchars_app; [exact J1|]. constructor; assumption.
Qed.

Lemma scan_inner_plain_step f l n : plain_char l = Some n -> scan_inner (S f) l = n + scan_inner (S f) (skipn n l).
Proof.
  intros P. pose proof (plain_char_pos _ _ P) as Hn. cbn [scan_inner].
  destruct (length l) as [|m] eqn:Hl; [lia|]. cbn [scan_plain]. rewrite P.
  rewrite (scan_plain_fuel m (length (skipn n l)) (skipn n l)) by (rewrite skipn_length; lia).
  set (n' := scan_plain (length (skipn n l)) (skipn n l)). rewrite !skipn_add.
  destruct (scan_escape (skipn n' (skipn n l))) as [k|]; [|lia].
  replace (n + n' + k) with (n + (n' + k)) by lia. rewrite skipn_add. lia.
Qed.
Lemma scan_inner_complete body : jchars body -> forall f rest, length body < f -> scan_inner f (body ++ 34%N :: rest) = length body.
Proof.
  induction 1 as [|c r Hc Hr IH]; intros f rest Hf.
  - destruct f as [|f]; [lia|]. cbn [app length scan_inner scan_plain].
    rewrite (plain_char_head 34 rest) by reflexivity. rewrite skipn_O. unfold scan_escape. rewrite head_is_cons. reflexivity.
  - rewrite app_length in Hf. destruct (jchar_cases c Hc) as [(x & Sx & U & ->)|(t & -> & H2 & He)].
    + destruct f as [|f]; [lia|]. rewrite <- app_assoc.
      rewrite (scan_inner_plain_step f _ _ (plain_char_complete x _ Sx U)), skipn_app_exact. rewrite IH. 2: blia. now rewrite app_length.
    + destruct f as [|f]; [lia|]. rewrite <- app_assoc. cbn [scan_inner]. cbn [app]. cbn [length scan_plain].
      rewrite (plain_char_head 92 _) by reflexivity. rewrite skipn_O. change (92%N :: t ++ r ++ 34%N :: rest) with ((92%N :: t) ++ r ++ 34%N :: rest).
      rewrite He. cbn [Nat.add]. rewrite skipn_app_exact, IH by blia. rewrite app_length. cbn [length] in *. blia.
Qed.

(* ---- string ---- *)
Lemma scan_string_sound l n : scan_string l = Some n -> exists s r, split_at l n s r /\ jstring s.
Proof.
  unfold scan_string. destruct (head_is 34 l) eqn:Q; [|discriminate]. destruct (head_is_true _ _ Q) as [t ->]. cbn [List.tl].
  remember (length (_ :: t)) as f eqn:Hf. clear Hf. destruct (scan_inner_sound f t) as (s & r & Sp & J). cbn [Nat.add]. rewrite skipn_cons, (split_skipn _ _ _ _ Sp).
  destruct (head_is 34 r) eqn:Q2; [|discriminate]. destruct (head_is_true _ _ Q2) as [r' ->]. intros [= <-].
  exists (34%N :: s ++ [34%N]), r'. split; [|exists s; split; [reflexivity|exact J]].
  destruct Sp as [E L]. rewrite <- L. split; [rewrite E; cbn [app]; now rewrite <- app_assoc|cbn [length]; rewrite app_length; cbn [length]; lia].
Qed.
Lemma scan_string_complete s tl : jstring s -> scan_string (s ++ tl) = Some (length s).
Proof.
  intros (body & -> & J). unfold scan_string. cbn [app]. rewrite head_is_cons, N.eqb_refl. cbn [List.tl]. rewrite <- app_assoc. cbn [app].
  rewrite (scan_inner_complete body J). 2: { cbn [length]. rewrite app_length. cbn [length]. blia. }
  cbn [Nat.add]. rewrite skipn_cons, skipn_app_exact, head_is_cons, N.eqb_refl. cbn [length]. rewrite app_length. cbn [length]. f_equal; blia.
Qed.
Lemma jstring_head s : jstring s -> exists t, s = 34%N :: t.
Proof. intros (body & -> & _). eexists. reflexivity. Qed.
